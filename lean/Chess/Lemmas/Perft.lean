import Chess.Model.Perft
import Chess.Spec.Perft
import Chess.Lemmas.Legal

/-!
# `perft`: the engine's count is the rules' count, and the call leaves the game as it found it

* `perft_restores` — for every well-formed game and every depth, the game `perft` leaves behind
  (after the generator's play/test/take-back steps and the whole tree of push / recursive call /
  pop) is the game it was given.
* `perft_eq_spec` — for every game reachable by legal play from a well-formed start that is sane by
  the rules, and every depth, `g.perft d = Spec.perft d g.abs`: the engine's count (with its
  `moves.len()` shortcut for the last ply) is the number of legal lines of length `d`.
* `perft_eq_spec_imported` — the same for a start position read from a FEN text.
* `perftDivide_*` — the command line: its lines are (up to order) the rules' per-move split, they
  are sorted by text, they sum to the rules' count, and the game is left unchanged.
-/
namespace Chess.Perft
open Chess Chess.Game Chess.Legal

/-! ## 1. Unfolding -/

theorem perftAux_zero (g : Game) : perftAux 0 g = (1, (g.getMoves true).2) := rfl

theorem perftAux_one (g : Game) :
    perftAux 1 g = ((g.getMoves true).1.length, (g.getMoves true).2) := rfl

theorem perftAux_succ_succ (d : Nat) (g : Game) :
    perftAux (d + 2) g = perftLoop (perftAux (d + 1)) (g.getMoves true).2 (g.getMoves true).1 0 := by
  show (if d + 1 + 1 = 1 then ((g.getMoves true).1.length, (g.getMoves true).2)
    else perftLoop (perftAux (d + 1)) (g.getMoves true).2 (g.getMoves true).1 0) = _
  rw [if_neg (by omega)]

theorem perftLoop_nil (rec : Game → Nat × Game) (g : Game) (count : Nat) :
    perftLoop rec g [] count = (count, g) := rfl

theorem perftLoop_cons (rec : Game → Nat × Game) (g : Game) (m : Move) (ms : List Move) (count : Nat) :
    perftLoop rec g (m :: ms) count
      = perftLoop rec ((rec (g.push m)).2.pop m) ms (count + (rec (g.push m)).1) := rfl

/-! ## 2. The loop, given that the recursive call restores the game -/

/-- a child by a generated move is well formed and taking the move back restores the game -/
theorem child_ok {g : Game} (hw : g.WF) {m : Move} (hm : m ∈ (g.getMoves true).1) :
    (g.push m).WF ∧ (g.push m).pop m = g := by
  have hf := getMoves_fits hw true hm
  have hx := getMoves_extraOk g true m hm
  exact ⟨push_wf hw hf.1 hf.2 hx.1 hx.2, pop_push g m hf.1 hw.cache⟩

theorem perftLoop_spec (rec : Game → Nat × Game) {g : Game} (hw : g.WF) :
    ∀ (ms : List Move) (count : Nat), (∀ m ∈ ms, m ∈ (g.getMoves true).1) →
      (∀ m ∈ ms, (rec (g.push m)).2 = g.push m) →
      perftLoop rec g ms count = (count + (ms.map (fun m => (rec (g.push m)).1)).sum, g)
  | [], count, _, _ => by simp [perftLoop_nil]
  | m :: ms, count, hms, hrec => by
    rw [perftLoop_cons, hrec m (List.mem_cons_self ..), (child_ok hw (hms m (List.mem_cons_self ..))).2,
      perftLoop_spec rec hw ms _ (fun x hx => hms x (List.mem_cons_of_mem _ hx))
        (fun x hx => hrec x (List.mem_cons_of_mem _ hx))]
    simp only [List.map_cons, List.sum_cons, Nat.add_assoc]

/-! ## 3. `perft` restores the game -/

/-- the game after `perft` is the game before, at every depth, for every well-formed game -/
theorem perftAux_restores : ∀ (d : Nat) {g : Game}, g.WF → (perftAux d g).2 = g
  | 0, g, hw => by rw [perftAux_zero]; exact getMoves_pure hw true
  | 1, g, hw => by rw [perftAux_one]; exact getMoves_pure hw true
  | d + 2, g, hw => by
    rw [perftAux_succ_succ, getMoves_pure hw true,
      perftLoop_spec _ hw _ _ (fun _ h => h)
        (fun m hm => perftAux_restores (d + 1) (child_ok hw hm).1)]

/-- **perft leaves the game unchanged** (board, caches, score, hash, king squares, side, state
stack, move record, phase: equality of the whole structure) -/
theorem perft_restores {g : Game} (hw : g.WF) (d : Nat) : g.perftGame d = g :=
  perftAux_restores d hw

/-- every game the UCI layer and the search can produce -/
theorem perft_restores_reach {g : Game} (h : Reach g) (d : Nat) : g.perftGame d = g :=
  perft_restores (reach_wf h) d

/-- the count as a sum over the checked list (depth ≥ 2: the general recursion of the program) -/
theorem perft_succ_succ {g : Game} (hw : g.WF) (d : Nat) :
    g.perft (d + 2) = ((g.getMoves true).1.map (fun m => (g.push m).perft (d + 1))).sum := by
  unfold Game.perft
  rw [perftAux_succ_succ, getMoves_pure hw true,
    perftLoop_spec _ hw _ _ (fun _ h => h)
      (fun m hm => perftAux_restores (d + 1) (child_ok hw hm).1)]
  simp

/-! ## 4. The count is the rules' count -/

/-- summing over the checked list is summing over the rules' legal moves -/
theorem sum_checked_eq {g : Game} (hs : SaneG g) (f : Spec.UciMove → Nat) :
    ((g.getMoves true).1.map (fun m => f m.toSpec)).sum = ((Spec.legalList g.abs).map f).sum := by
  have h := ((checked_perm_legalList hs).map f).sum_nat
  rw [List.map_map] at h
  exact h

theorem perft_eq_spec_saneG : ∀ (d : Nat) {g : Game}, SaneG g → g.perft d = Spec.perft d g.abs
  | 0, _, _ => rfl
  | 1, g, hs => by
    show (g.getMoves true).1.length = _
    rw [Spec.perft_one, ← (checked_perm_legalList hs).length_eq, List.length_map]
  | d + 2, g, hs => by
    rw [perft_succ_succ hs.wf, Spec.perft_succ, ← sum_checked_eq hs]
    congr 1
    apply List.map_congr_left
    intro m hm
    rw [perft_eq_spec_saneG (d + 1) (saneG_step hs hm), (checked_push_abs hs hm).1]

/-- **the engine's perft is the number of legal lines of that length**, in every game reachable by
legal play from a well-formed start position that is sane by the rules, at every depth -/
theorem perft_eq_spec {g0 g : Game} (h : LegalReach g0 g) (hw : g0.WF)
    (h0 : Spec.sane g0.abs = true) (d : Nat) : g.perft d = Spec.perft d g.abs :=
  perft_eq_spec_saneG d (legalReach_sane (saneG_of_sane hw h0) h)

/-- …for a position imported from a FEN text: no hypothesis beyond sanity of the text's position -/
theorem perft_eq_spec_imported {s : List Char} {g : Game} (hok : Game.ofFen s = .ok g)
    (h0 : Spec.sane g.abs = true) (d : Nat) : g.perft d = Spec.perft d g.abs :=
  perft_eq_spec_saneG d (saneG_of_fen hok h0)

/-- …and for every game reached from it by legal play -/
theorem perft_eq_spec_imported_reach {s : List Char} {g0 g : Game} (hok : Game.ofFen s = .ok g0)
    (h0 : Spec.sane g0.abs = true) (h : LegalReach g0 g) (d : Nat) :
    g.perft d = Spec.perft d g.abs :=
  perft_eq_spec h (ofFen_wf hok) h0 d

/-- the shortcut of the last ply is the general recursion: `moves.len()` is the sum of the
children's depth-0 counts -/
theorem perft_one_eq_sum (g : Game) :
    g.perft 1 = ((g.getMoves true).1.map (fun m => (g.push m).perft 0)).sum := by
  show (g.getMoves true).1.length = _
  have : ∀ l : List Move, (l.map (fun m => (g.push m).perft 0)).sum = l.length := by
    intro l
    induction l with
    | nil => rfl
    | cons x xs ih =>
      simp only [List.map_cons, List.sum_cons, List.length_cons, ih]
      show 1 + xs.length = xs.length + 1
      omega
  exact (this _).symm

/-! ## 5. The command line -/

theorem perftDivideLoop_spec (d : Nat) {g : Game} (hw : g.WF) :
    ∀ (l : List (List Char × Move)), (∀ x ∈ l, x.2 ∈ (g.getMoves true).1) →
      perftDivideLoop d g l = (l.map (fun x => (x.1, (g.push x.2).perft d)), g)
  | [], _ => rfl
  | (t, m) :: l, hl => by
    have hm : m ∈ (g.getMoves true).1 := hl (t, m) (List.mem_cons_self ..)
    show (let (r, g') := perftDivideLoop d ((perftAux d (g.push m)).2.pop m) l
          ((t, (perftAux d (g.push m)).1) :: r, g')) = _
    rw [perftAux_restores d (child_ok hw hm).1, (child_ok hw hm).2,
      perftDivideLoop_spec d hw l (fun x hx => hl x (List.mem_cons_of_mem _ hx))]
    rfl

theorem sortByUci_perm (ms : List Move) : (sortByUci ms).Perm (ms.map (fun m => (m.uci, m))) :=
  List.mergeSort_perm _ _

theorem perftDivideAux_eq {g : Game} (hw : g.WF) (depth : Nat) :
    perftDivideAux depth g
      = ((sortByUci (g.getMoves true).1).map (fun x => (x.1, (g.push x.2).perft (depth - 1))), g) := by
  unfold perftDivideAux
  show perftDivideLoop (depth - 1) (g.getMoves true).2 (sortByUci (g.getMoves true).1) = _
  rw [getMoves_pure hw true]
  apply perftDivideLoop_spec _ hw
  intro x hx
  have := (sortByUci_perm _).mem_iff.1 hx
  rw [List.mem_map] at this
  obtain ⟨m, hm, rfl⟩ := this
  exact hm

/-- the command line leaves the game unchanged -/
theorem perftDivide_restores {g : Game} (hw : g.WF) (depth : Nat) :
    (perftDivideAux depth g).2 = g := by
  rw [perftDivideAux_eq hw]

/-- **the lines of the command line are, up to order, the rules' per-move split**: for every legal
move its text and the number of legal lines of length `d` after it -/
theorem perftDivide_perm_spec {g : Game} (hs : SaneG g) (d : Nat) :
    (g.perftDivide (d + 1)).Perm (Spec.perftDivide d g.abs) := by
  unfold Game.perftDivide
  rw [perftDivideAux_eq hs.wf]
  show ((sortByUci (g.getMoves true).1).map (fun x => (x.1, (g.push x.2).perft d))).Perm _
  refine ((sortByUci_perm _).map _).trans ?_
  rw [List.map_map]
  have e : (g.getMoves true).1.map
        ((fun x : List Char × Move => (x.1, (g.push x.2).perft d)) ∘ fun m => (m.uci, m))
      = ((g.getMoves true).1.map Move.toSpec).map
          (fun u => (u.text, Spec.perft d (Spec.play g.abs u))) := by
    rw [List.map_map]
    apply List.map_congr_left
    intro m hm
    show (m.uci, (g.push m).perft d) = (m.toSpec.text, Spec.perft d (Spec.play g.abs m.toSpec))
    rw [toSpec_uci, perft_eq_spec_saneG d (saneG_step hs hm), (checked_push_abs hs hm).1]
  rw [e]
  exact (checked_perm_legalList hs).map _

/-- the number printed last is the rules' count -/
theorem perftDivideSum_eq_spec {g : Game} (hs : SaneG g) (d : Nat) :
    g.perftDivideSum (d + 1) = Spec.perft (d + 1) g.abs := by
  unfold Game.perftDivideSum
  rw [((perftDivide_perm_spec hs d).map _).sum_nat, Spec.perft_succ]
  unfold Spec.perftDivide
  rw [List.map_map]
  rfl

/-- …and the engine's own `perft` at that depth -/
theorem perftDivideSum_eq_perft {g : Game} (hs : SaneG g) (d : Nat) :
    g.perftDivideSum (d + 1) = g.perft (d + 1) := by
  rw [perftDivideSum_eq_spec hs, perft_eq_spec_saneG _ hs]

/-! ### the lines are sorted by text -/

theorem textLe_total : ∀ a b : List Char, (textLe a b || textLe b a) = true
  | [], _ => rfl
  | _ :: _, [] => rfl
  | a :: as, b :: bs => by
    have ih := textLe_total as bs
    simp only [textLe, Bool.or_eq_true, Bool.and_eq_true, decide_eq_true_eq, beq_iff_eq] at ih ⊢
    by_cases h1 : a.toNat < b.toNat
    · exact .inl (.inl h1)
    · by_cases h2 : b.toNat < a.toNat
      · exact .inr (.inl h2)
      · have : a = b := Char.toNat_inj.1 (by omega)
        subst this
        rcases ih with h | h
        · exact .inl (.inr ⟨rfl, h⟩)
        · exact .inr (.inr ⟨rfl, h⟩)

theorem textLe_trans : ∀ a b c : List Char, textLe a b = true → textLe b c = true → textLe a c = true
  | [], _, _, _, _ => rfl
  | _ :: _, [], _, h, _ => by simp [textLe] at h
  | _ :: _, _ :: _, [], _, h => by simp [textLe] at h
  | a :: as, b :: bs, c :: cs, h1, h2 => by
    have ih := textLe_trans as bs cs
    simp only [textLe, Bool.or_eq_true, Bool.and_eq_true, decide_eq_true_eq, beq_iff_eq] at h1 h2 ih ⊢
    rcases h1 with h1 | ⟨rfl, h1⟩
    · rcases h2 with h2 | ⟨rfl, _⟩
      · exact .inl (by omega)
      · exact .inl h1
    · rcases h2 with h2 | ⟨rfl, h2⟩
      · exact .inl h2
      · exact .inr ⟨rfl, ih h1 h2⟩

/-- the lines come in the order of their texts -/
theorem perftDivide_sorted {g : Game} (hw : g.WF) (depth : Nat) :
    (g.perftDivide depth).Pairwise (fun x y => textLe x.1 y.1 = true) := by
  unfold Game.perftDivide
  rw [perftDivideAux_eq hw]
  show ((sortByUci (g.getMoves true).1).map _).Pairwise _
  rw [List.pairwise_map]
  exact List.pairwise_mergeSort (le := fun a b : List Char × Move => textLe a.1 b.1)
    (fun a b c => textLe_trans a.1 b.1 c.1) (fun a b => textLe_total a.1 b.1) _

/-! ## 6. Non-vacuity and tests -/

/-- the hypotheses of `perft_eq_spec_imported` are met by the standard start text -/
theorem start_perft_eq_spec (d : Nat) :
    ∃ g, Game.ofFen startFen = .ok g ∧ g.abs = startPos ∧ g.perftGame d = g
      ∧ g.perft d = Spec.perft d startPos := by
  obtain ⟨g, hok, habs, hs⟩ := start_saneG
  exact ⟨g, hok, habs, perft_restores hs.wf d, by rw [perft_eq_spec_saneG d hs, habs]⟩

set_option maxRecDepth 100000 in
/-- kernel-evaluated: the rules give 20 first moves (about one minute of kernel time; the one-line
`legalList` takes four times as long, hence the detour through `perftFast_eq`) -/
theorem spec_perft_one_start : Spec.perft 1 startPos = 20 := by
  rw [← Spec.perftFast_eq]
  decide +kernel

/-- hence, by `perft_eq_spec` and not by running it, the model's `perft 1` of the imported start
position is 20 -/
theorem model_perft_one_start : ∃ g, Game.ofFen startFen = .ok g ∧ g.perft 1 = 20 := by
  obtain ⟨g, hok, _, _, h⟩ := start_perft_eq_spec 1
  exact ⟨g, hok, by rw [h, spec_perft_one_start]⟩

/-! ### tests by evaluation (`#guard`: compiled evaluation, NOT kernel-checked facts)

`Spec.perftFast 2 startPos = 400` by `decide +kernel` (21 move lists, about a minute each) ran into
the kernel's deterministic timeout after 13 minutes under the default limits, so the values beyond
depth 1 are checked by evaluation only. -/

/-- the model's perft of the standard start position, read from its FEN text -/
def startModelPerft (d : Nat) : Option Nat :=
  match Game.ofFen startFen with
  | .ok g => some (g.perft d)
  | _ => none

/-- the sum line of the command line for the start position -/
def startModelDivideSum (d : Nat) : Option Nat :=
  match Game.ofFen startFen with
  | .ok g => some (g.perftDivideSum d)
  | _ => none

/-- what can be compared without `DecidableEq Game`: hash, score, FEN text, record, stack depth -/
def startRestored (d : Nat) : Bool :=
  match Game.ofFen startFen with
  | .ok g =>
    let g' := g.perftGame d
    g'.hash == g.hash && g'.score == g.score && g'.fen == g.fen && g'.len == g.len
      && g'.moveStack.length == g.moveStack.length
  | _ => false

#guard startModelPerft 0 == some 1
#guard startModelPerft 1 == some 20
#guard startModelPerft 2 == some 400
#guard startModelPerft 3 == some 8902
#guard Spec.perft 0 startPos == 1
#guard Spec.perft 1 startPos == 20
#guard Spec.perftFast 1 startPos == 20
#guard Spec.perftFast 2 startPos == 400
#guard startModelDivideSum 2 == some 400
#guard startModelDivideSum 3 == some 8902
#guard startRestored 3
#guard (match Game.ofFen startFen with
  | .ok g => (g.perftDivide 1).map (fun x => String.ofList x.1) | _ => [])
  == ["a2a3", "a2a4", "b1a3", "b1c3", "b2b3", "b2b4", "c2c3", "c2c4", "d2d3", "d2d4", "e2e3", "e2e4",
      "f2f3", "f2f4", "g1f3", "g1h3", "g2g3", "g2g4", "h2h3", "h2h4"]
#guard (Spec.perftDivide 1 startPos).map (·.2) == List.replicate 20 20

end Chess.Perft

#print axioms Chess.Perft.spec_perft_one_start
#print axioms Chess.Perft.model_perft_one_start
#print axioms Chess.Perft.perft_restores
#print axioms Chess.Perft.perft_restores_reach
#print axioms Chess.Perft.perft_eq_spec
#print axioms Chess.Perft.perft_eq_spec_imported
#print axioms Chess.Perft.perft_eq_spec_imported_reach
#print axioms Chess.Perft.perftDivide_restores
#print axioms Chess.Perft.perftDivide_perm_spec
#print axioms Chess.Perft.perftDivideSum_eq_spec
#print axioms Chess.Perft.perftDivide_sorted
#print axioms Chess.Perft.start_perft_eq_spec
