import Chess.Lemmas.AlphaBetaNode

/-!
# Helpers for `SearchDriver`: list facts, unfolding equations of `node` and `rootSearch`, and the
generic "state invariant" lemmas for the move loops

Everything here is generic over the game interface `Ops G M`, the stop oracle `runs` and the table.
-/
namespace Chess.Search

variable {G M : Type}

/-! ## lists -/

theorem mem_sortMoves (key : M → Nat) (ms : List M) (m : M) : m ∈ sortMoves key ms ↔ m ∈ ms :=
  (sortMoves_perm key ms).mem_iff

theorem length_sortMoves (key : M → Nat) (ms : List M) : (sortMoves key ms).length = ms.length :=
  (sortMoves_perm key ms).length_eq

variable [DecidableEq M]

theorem mem_swapRemoveFirst {x m : M} {ms : List M} (h : m ∈ swapRemoveFirst x ms) : m ∈ ms :=
  List.mem_of_mem_erase ((swapRemoveFirst_perm_erase x ms).mem_iff.1 h)

theorem length_swapRemoveFirst (x : M) (ms : List M) :
    ms.length - 1 ≤ (swapRemoveFirst x ms).length := by
  rw [(swapRemoveFirst_perm_erase x ms).length_eq, List.length_erase]
  split <;> omega

theorem mem_rootMoves {o : Ops G M} {g : G} {m : M} (h : m ∈ rootMoves o g) : m ∈ o.checked g := by
  unfold rootMoves at h
  split at h
  · exact mem_swapRemoveFirst h
  · exact h

theorem length_rootMoves (o : Ops G M) (g : G) : (o.checked g).length - 1 ≤ (rootMoves o g).length := by
  unfold rootMoves
  split
  · exact length_swapRemoveFirst _ _
  · omega

/-! ## the pieces of `node` and `rootSearch`, named -/

/-- the state after the poll at the entry of a node -/
def pollSt (st : St M) : St M :=
  { st with polls := st.polls + 1, tt := if st.ttOff then {} else st.tt }

/-- the table cut-off of a node -/
def ttCut (entry : Option (Entry M)) (remaining : Nat) (alpha beta : Int) : Option Int :=
  match entry with
  | some e =>
    if e.depth ≥ remaining then
      match e.flag with
      | .exact => some e.score
      | .lower => if e.score ≥ beta then some e.score else none
      | .upper => if e.score ≤ alpha then some e.score else none
    else none
  | none => none

/-- the flag of the entry stored by an interior node -/
def storeFlag (bestScore alpha beta : Int) : Flag :=
  if bestScore ≤ alpha then Flag.upper else if bestScore ≥ beta then Flag.lower else Flag.exact

/-- the table store at the end of an interior node -/
def nodeStore (h : UInt64) (d : Nat) (e : Entry M) (st : St M) : St M :=
  match st.tt[h]? with
  | some old =>
    if old.depth < d || (old.depth = d && e.flag = .exact) then { st with tt := st.tt.insert h e }
    else st
  | none => { st with tt := st.tt.insert h e }

/-- the sorted move list of an interior node in state `st` (after the poll) -/
def nodeMoves (o : Ops G M) (g : G) (rd : Int) (st : St M) : List M :=
  sortMoves (moveKey o ((ttGet st (o.hash g)).bind (·.pv)) (st.killers.getD rd.toNat none) st.history)
    (o.checked g)

theorem node_eq (o : Ops G M) (runs : Nat → Bool) (remaining : Nat) (g : G) (α β rd : Int)
    (st : St M) :
    node o runs remaining g α β rd st =
      if !runs st.polls then none else
      match ttCut (ttGet (pollSt st) (o.hash g)) remaining α β with
      | some v => some (v, pollSt st)
      | none =>
        match remaining with
        | 0 => some (qsearch o qFuel g α β rd, pollSt st)
        | 1 => some (depth1 o g α β rd, pollSt st)
        | r + 2 =>
          if (o.checked g).isEmpty then
            some ((if o.safe g then 0 else scoreMin + Gen.mateNode + rd), pollSt st)
          else
            match nodeLoop o (node o runs (r + 1)) g (r + 2) rd β (nodeMoves o g rd (pollSt st)) 0 α
                scoreMin none (pollSt st) with
            | none => none
            | some out =>
              some (out.alpha, nodeStore (o.hash g) (r + 2)
                ⟨out.bestScore, out.bestMove, r + 2, storeFlag out.bestScore α β⟩ out.st) := by
  unfold node
  rfl

/-- the state in which the root search starts: fresh killers -/
def rootSt (st : St M) : St M := { st with killers := Array.replicate Gen.killerLen none }

/-- the usable root entry, if any -/
def rootHit (entry : Option (Entry M)) (depth : Nat) : Option (Entry M) :=
  match entry with
  | some e => if e.depth ≥ depth && e.flag = Flag.exact then some e else none
  | none => none

/-- the table store at the end of the root search -/
def rootStore (h : UInt64) (d : Nat) (e : Entry M) (st : St M) : St M :=
  match st.tt[h]? with
  | some old => if old.depth ≤ d then { st with tt := st.tt.insert h e } else st
  | none => { st with tt := st.tt.insert h e }

/-- the sorted move list of the root -/
def rootSorted (o : Ops G M) (g : G) (st : St M) : List M :=
  sortMoves (moveKey o ((ttGet st (o.hash g)).bind (·.pv)) none st.history) (rootMoves o g)

theorem rootSearch_eq (o : Ops G M) (runs : Nat → Bool) (g : G) (depth : Nat) (st : St M) :
    rootSearch o runs g depth st =
      if (o.checked g).length = 1 then some (((o.checked g).head?, 0, true), st) else
      match rootHit (ttGet (rootSt st) (o.hash g)) depth with
      | some e => some ((e.pv, e.score, false), rootSt st)
      | none =>
        match rootLoop o (node o runs (depth - 1)) g (rootSorted o g (rootSt st)) 0 (scoreMin + 1)
            none (rootSt st) with
        | none => none
        | some (bestScore, bestMove, st2) =>
          some ((bestMove, bestScore, false),
            rootStore (o.hash g) depth ⟨bestScore, bestMove, depth, .exact⟩ st2) := by
  unfold rootSearch
  rfl

/-! ## state predicates carried through the move loops -/

/-- a child call that answers keeps the predicate -/
def ChildKeeps (Q : St M → Prop) (child : G → Int → Int → Int → St M → Option (Int × St M))
    (g' : G) : Prop :=
  ∀ a b r st v st', child g' a b r st = some (v, st') → Q st → Q st'

/-- some call of the child at `g'`, made in a state satisfying `Q`, was aborted -/
def ChildAborts (Q : St M → Prop) (child : G → Int → Int → Int → St M → Option (Int × St M))
    (g' : G) : Prop :=
  ∃ a b r st1, Q st1 ∧ child g' a b r st1 = none

omit [DecidableEq M] in
theorem nodeStep_inv {Q : St M → Prop} (o : Ops G M)
    (child : G → Int → Int → Int → St M → Option (Int × St M))
    (g : G) (rd β : Int) (m : M) (index : Nat) (α bs : Int) (bm : Option M) (st : St M)
    (hc : ChildKeeps Q child (o.push g m))
    {a' bs' : Int} {bm' : Option M} {st' : St M}
    (h : nodeStep o child g rd β m index α bs bm st = some (a', bs', bm', st')) (hQ : Q st) :
    Q st' ∧ (bm' = bm ∨ bm' = some m) := by
  unfold nodeStep at h
  simp only [] at h
  split at h
  · split at h
    · cases h
    · next v st1 he =>
      have hQ1 := hc _ _ _ _ _ _ he hQ
      split at h <;> (cases h; first | exact ⟨hQ1, Or.inl rfl⟩ | exact ⟨hQ1, Or.inr rfl⟩)
  · split at h
    · cases h
    · next v st1 he =>
      have hQ1 := hc _ _ _ _ _ _ he hQ
      split at h
      · split at h
        · cases h
        · next v2 st2 he2 =>
          cases h
          exact ⟨hc _ _ _ _ _ _ he2 hQ1, Or.inr rfl⟩
      · cases h; exact ⟨hQ1, Or.inl rfl⟩

omit [DecidableEq M] in
theorem nodeStep_none {Q : St M → Prop} (o : Ops G M)
    (child : G → Int → Int → Int → St M → Option (Int × St M))
    (g : G) (rd β : Int) (m : M) (index : Nat) (α bs : Int) (bm : Option M) (st : St M)
    (hc : ChildKeeps Q child (o.push g m))
    (h : nodeStep o child g rd β m index α bs bm st = none) (hQ : Q st) :
    ChildAborts Q child (o.push g m) := by
  unfold nodeStep at h
  simp only [] at h
  split at h
  · split at h
    · next he => exact ⟨_, _, _, _, hQ, he⟩
    · split at h <;> cases h
  · split at h
    · next he => exact ⟨_, _, _, _, hQ, he⟩
    · next v st1 he =>
      have hQ1 := hc _ _ _ _ _ _ he hQ
      split at h
      · split at h
        · next he2 => exact ⟨_, _, _, _, hQ1, he2⟩
        · cases h
      · cases h

/-- `Q` only looks at the table and the poll counter -/
def Frame (Q : St M → Prop) : Prop :=
  ∀ st st' : St M, Q st → st'.tt = st.tt → st'.polls = st.polls → Q st'

omit [DecidableEq M] in
theorem nodeLoop_inv {Q : St M → Prop} (hF : Frame Q) (o : Ops G M)
    (child : G → Int → Int → Int → St M → Option (Int × St M))
    (g : G) (remaining : Nat) (rd β : Int) (ms : List M)
    (hc : ∀ m ∈ ms, ChildKeeps Q child (o.push g m))
    (index : Nat) (α bs : Int) (bm : Option M) (st : St M) {out : LoopOut M}
    (h : nodeLoop o child g remaining rd β ms index α bs bm st = some out) (hQ : Q st) :
    Q out.st ∧ ∀ x, out.bestMove = some x → bm = some x ∨ x ∈ ms := by
  induction ms generalizing index α bs bm st with
  | nil =>
    cases h
    exact ⟨hQ, fun x hx => Or.inl hx⟩
  | cons m ms ih =>
    rw [nodeLoop_cons] at h
    split at h
    · cases h
    · next a' bs' bm' st' hs =>
      obtain ⟨hQ', hbm⟩ := nodeStep_inv o child g rd β m index α bs bm st
        (hc m List.mem_cons_self) hs hQ
      have hmem : ∀ x, bm' = some x → bm = some x ∨ x ∈ m :: ms := by
        intro x hx
        rcases hbm with h1 | h1
        · exact Or.inl (h1 ▸ hx)
        · rw [h1] at hx; cases hx; exact Or.inr List.mem_cons_self
      split at h
      · cases h
        refine ⟨?_, hmem⟩
        simp only []
        split
        · exact hF _ _ hQ' rfl rfl
        · exact hF _ _ hQ' rfl rfl
      · obtain ⟨k1, k2⟩ := ih (fun m' hm' => hc m' (List.mem_cons_of_mem _ hm')) _ _ _ _ _ h hQ'
        refine ⟨k1, fun x hx => ?_⟩
        rcases k2 x hx with h1 | h1
        · exact hmem x h1
        · exact Or.inr (List.mem_cons_of_mem _ h1)

omit [DecidableEq M] in
theorem nodeLoop_none {Q : St M → Prop} (o : Ops G M)
    (child : G → Int → Int → Int → St M → Option (Int × St M))
    (g : G) (remaining : Nat) (rd β : Int) (ms : List M)
    (hc : ∀ m ∈ ms, ChildKeeps Q child (o.push g m))
    (index : Nat) (α bs : Int) (bm : Option M) (st : St M)
    (h : nodeLoop o child g remaining rd β ms index α bs bm st = none) (hQ : Q st) :
    ∃ m ∈ ms, ChildAborts Q child (o.push g m) := by
  induction ms generalizing index α bs bm st with
  | nil => cases h
  | cons m ms ih =>
    rw [nodeLoop_cons] at h
    split at h
    · next hs =>
      exact ⟨m, List.mem_cons_self, nodeStep_none o child g rd β m index α bs bm st
        (hc m List.mem_cons_self) hs hQ⟩
    · next a' bs' bm' st' hs =>
      obtain ⟨hQ', _⟩ := nodeStep_inv o child g rd β m index α bs bm st
        (hc m List.mem_cons_self) hs hQ
      split at h
      · cases h
      · obtain ⟨m', hm', k⟩ :=
          ih (fun m' hm' => hc m' (List.mem_cons_of_mem _ hm')) _ _ _ _ _ h hQ'
        exact ⟨m', List.mem_cons_of_mem _ hm', k⟩

omit [DecidableEq M] in
theorem rootLoop_inv {Q : St M → Prop} (o : Ops G M)
    (child : G → Int → Int → Int → St M → Option (Int × St M)) (g : G) (ms : List M)
    (hc : ∀ m ∈ ms, ChildKeeps Q child (o.push g m))
    (index : Nat) (bs : Int) (bm : Option M) (st : St M) {bs' : Int} {bm' : Option M} {st' : St M}
    (h : rootLoop o child g ms index bs bm st = some (bs', bm', st')) (hQ : Q st) :
    Q st' ∧ ∀ x, bm' = some x → bm = some x ∨ x ∈ ms := by
  induction ms generalizing index bs bm st with
  | nil =>
    cases h
    exact ⟨hQ, fun x hx => Or.inl hx⟩
  | cons m ms ih =>
    have ih' := ih (fun m' hm' => hc m' (List.mem_cons_of_mem _ hm'))
    have hcm := hc m List.mem_cons_self
    have lift : ∀ {b : Option M}, (∀ x, bm' = some x → b = some x ∨ x ∈ ms) →
        (b = bm ∨ b = some m) → ∀ x, bm' = some x → bm = some x ∨ x ∈ m :: ms := by
      intro b k hb x hx
      rcases k x hx with h1 | h1
      · rcases hb with h2 | h2
        · exact Or.inl (h2 ▸ h1)
        · rw [h2] at h1; cases h1; exact Or.inr List.mem_cons_self
      · exact Or.inr (List.mem_cons_of_mem _ h1)
    unfold rootLoop at h
    simp only [] at h
    split at h
    · split at h
      · cases h
      · next v st1 he =>
        have hQ1 := hcm _ _ _ _ _ _ he hQ
        split at h
        · obtain ⟨k1, k2⟩ := ih' _ _ _ _ h hQ1
          exact ⟨k1, lift k2 (Or.inr rfl)⟩
        · obtain ⟨k1, k2⟩ := ih' _ _ _ _ h hQ1
          exact ⟨k1, lift k2 (Or.inl rfl)⟩
    · split at h
      · cases h
      · next v st1 he =>
        have hQ1 := hcm _ _ _ _ _ _ he hQ
        split at h
        · split at h
          · cases h
          · next v2 st2 he2 =>
            obtain ⟨k1, k2⟩ := ih' _ _ _ _ h (hcm _ _ _ _ _ _ he2 hQ1)
            exact ⟨k1, lift k2 (Or.inr rfl)⟩
        · obtain ⟨k1, k2⟩ := ih' _ _ _ _ h hQ1
          exact ⟨k1, lift k2 (Or.inl rfl)⟩

omit [DecidableEq M] in
theorem rootLoop_none {Q : St M → Prop} (o : Ops G M)
    (child : G → Int → Int → Int → St M → Option (Int × St M)) (g : G) (ms : List M)
    (hc : ∀ m ∈ ms, ChildKeeps Q child (o.push g m))
    (index : Nat) (bs : Int) (bm : Option M) (st : St M)
    (h : rootLoop o child g ms index bs bm st = none) (hQ : Q st) :
    ∃ m ∈ ms, ChildAborts Q child (o.push g m) := by
  induction ms generalizing index bs bm st with
  | nil => cases h
  | cons m ms ih =>
    have ih' := ih (fun m' hm' => hc m' (List.mem_cons_of_mem _ hm'))
    have hcm := hc m List.mem_cons_self
    have lift : (∃ m' ∈ ms, ChildAborts Q child (o.push g m')) →
        ∃ m' ∈ m :: ms, ChildAborts Q child (o.push g m') :=
      fun ⟨m', hm', k⟩ => ⟨m', List.mem_cons_of_mem _ hm', k⟩
    unfold rootLoop at h
    simp only [] at h
    split at h
    · split at h
      · next he => exact ⟨m, List.mem_cons_self, _, _, _, _, hQ, he⟩
      · next v st1 he =>
        have hQ1 := hcm _ _ _ _ _ _ he hQ
        split at h <;> exact lift (ih' _ _ _ _ h hQ1)
    · split at h
      · next he => exact ⟨m, List.mem_cons_self, _, _, _, _, hQ, he⟩
      · next v st1 he =>
        have hQ1 := hcm _ _ _ _ _ _ he hQ
        split at h
        · split at h
          · next he2 => exact ⟨m, List.mem_cons_self, _, _, _, _, hQ1, he2⟩
          · next v2 st2 he2 => exact lift (ih' _ _ _ _ h (hcm _ _ _ _ _ _ he2 hQ1))
        · exact lift (ih' _ _ _ _ h hQ1)

/-! ## the generic invariant of `node` and `rootSearch` -/

/-- What a state predicate `Q` must satisfy to be carried through the whole search: `A` is the set
of admissible positions, `D` the admissible depths of stored entries. -/
structure NodeInv (o : Ops G M) (runs : Nat → Bool) (A : G → Prop) (D : Nat → Prop)
    (Q : St M → Prop) : Prop where
  frame : Frame Q
  poll : ∀ st : St M, Q st → runs st.polls = true → Q (pollSt st)
  store : ∀ (g : G) (st : St M) (e : Entry M), A g → Q st →
    (∀ m, e.pv = some m → m ∈ o.checked g) → D e.depth →
    Q { st with tt := st.tt.insert (o.hash g) e }
  closed : ∀ g m, A g → m ∈ o.checked g → A (o.push g m)
  deep : ∀ r, D (r + 2)

section
variable {o : Ops G M} {runs : Nat → Bool} {A : G → Prop} {D : Nat → Prop} {Q : St M → Prop}

omit [DecidableEq M] in
theorem nodeStore_inv (I : NodeInv o runs A D Q) (g : G) (d : Nat) (e : Entry M) (st : St M)
    (hA : A g) (hQ : Q st) (hpv : ∀ m, e.pv = some m → m ∈ o.checked g) (hd : D e.depth) :
    Q (nodeStore (o.hash g) d e st) := by
  unfold nodeStore
  split
  · split
    · exact I.store g st e hA hQ hpv hd
    · exact hQ
  · exact I.store g st e hA hQ hpv hd

omit [DecidableEq M] in
theorem rootStore_inv (I : NodeInv o runs A D Q) (g : G) (d : Nat) (e : Entry M) (st : St M)
    (hA : A g) (hQ : Q st) (hpv : ∀ m, e.pv = some m → m ∈ o.checked g) (hd : D e.depth) :
    Q (rootStore (o.hash g) d e st) := by
  unfold rootStore
  split
  · split
    · exact I.store g st e hA hQ hpv hd
    · exact hQ
  · exact I.store g st e hA hQ hpv hd

/-- **The generic invariant of an interior node**: a node that answers keeps `Q`. -/
theorem node_inv (I : NodeInv o runs A D Q) (remaining : Nat) (g : G) (α β rd : Int) (st : St M)
    (hA : A g) (hQ : Q st) {v : Int} {st' : St M}
    (h : node o runs remaining g α β rd st = some (v, st')) : Q st' := by
  induction remaining using Nat.strongRecOn generalizing g α β rd st v st' with
  | _ n ih =>
    rw [node_eq] at h
    split at h
    · cases h
    · next hr =>
      have hr : runs st.polls = true := by simpa using hr
      have hQ1 := I.poll st hQ hr
      split at h
      · cases h; exact hQ1
      · split at h
        · cases h; exact hQ1
        · cases h; exact hQ1
        · next _ _ r _ =>
          split at h
          · cases h; exact hQ1
          · split at h
            · cases h
            · next out hl =>
              cases h
              have hc : ∀ m ∈ nodeMoves o g rd (pollSt st),
                  ChildKeeps Q (node o runs (r + 1)) (o.push g m) := by
                intro m hm a b r' s v' s' he hs
                exact ih (r + 1) (by omega) _ _ _ _ _
                  (I.closed g m hA ((mem_sortMoves _ _ _).1 hm)) hs he
              obtain ⟨k1, k2⟩ := nodeLoop_inv I.frame o _ g _ rd β _ hc _ _ _ _ _ hl hQ1
              refine nodeStore_inv I g _ _ _ hA k1 ?_ (I.deep r)
              intro m hm
              rcases k2 m hm with h1 | h1
              · cases h1
              · exact (mem_sortMoves _ _ _).1 h1

/-- **The generic abort lemma of an interior node**: a node that does not answer has met, in a
state satisfying `Q`, a poll that saw the flag cleared. -/
theorem node_none_inv (I : NodeInv o runs A D Q) (remaining : Nat) (g : G) (α β rd : Int)
    (st : St M) (hA : A g) (hQ : Q st)
    (h : node o runs remaining g α β rd st = none) : ∃ st1, Q st1 ∧ runs st1.polls = false := by
  induction remaining using Nat.strongRecOn generalizing g α β rd st with
  | _ n ih =>
    rw [node_eq] at h
    split at h
    · next hr => exact ⟨st, hQ, by simpa using hr⟩
    · next hr =>
      have hr : runs st.polls = true := by simpa using hr
      have hQ1 := I.poll st hQ hr
      split at h
      · cases h
      · split at h
        · cases h
        · cases h
        · next _ _ r _ =>
          split at h
          · cases h
          · split at h
            · next hl =>
              have hc : ∀ m ∈ nodeMoves o g rd (pollSt st),
                  ChildKeeps Q (node o runs (r + 1)) (o.push g m) := by
                intro m hm a b r' s v' s' he hs
                exact node_inv I (r + 1) _ _ _ _ _
                  (I.closed g m hA ((mem_sortMoves _ _ _).1 hm)) hs he
              obtain ⟨m, hm, a, b, r', s1, hs1, he⟩ :=
                nodeLoop_none o _ g _ rd β _ hc _ _ _ _ _ hl hQ1
              exact ih (r + 1) (by omega) _ _ _ _ _
                (I.closed g m hA ((mem_sortMoves _ _ _).1 hm)) hs1 he
            · cases h

omit [DecidableEq M] in
theorem rootHit_some {x : Option (Entry M)} {depth : Nat} {e : Entry M}
    (h : rootHit x depth = some e) : x = some e ∧ depth ≤ e.depth ∧ e.flag = Flag.exact := by
  unfold rootHit at h
  split at h
  · next e' =>
    split at h
    · next hc =>
      cases h
      simp only [ge_iff_le, Bool.and_eq_true, decide_eq_true_eq] at hc
      exact ⟨rfl, hc.1, hc.2⟩
    · cases h
  · cases h

/-- the three ways in which the root search answers -/
theorem rootSearch_some_cases {g : G} {depth : Nat} {st : St M}
    {r : Option M × Int × Bool} {st' : St M}
    (h : rootSearch o runs g depth st = some (r, st')) :
    ((o.checked g).length = 1 ∧ r = ((o.checked g).head?, 0, true) ∧ st' = st) ∨
    ((o.checked g).length ≠ 1 ∧ ∃ e, st.tt[o.hash g]? = some e ∧ depth ≤ e.depth ∧
      e.flag = Flag.exact ∧ r = (e.pv, e.score, false) ∧ st' = rootSt st) ∨
    ((o.checked g).length ≠ 1 ∧ rootHit st.tt[o.hash g]? depth = none ∧ ∃ bs bm st2,
      rootLoop o (node o runs (depth - 1)) g (rootSorted o g (rootSt st)) 0 (scoreMin + 1) none
        (rootSt st) = some (bs, bm, st2) ∧
      r = (bm, bs, false) ∧ st' = rootStore (o.hash g) depth ⟨bs, bm, depth, .exact⟩ st2) := by
  rw [rootSearch_eq] at h
  split at h
  · next hl => cases h; exact Or.inl ⟨hl, rfl, rfl⟩
  · next hl =>
    split at h
    · next e he =>
      cases h
      obtain ⟨k1, k2, k3⟩ := rootHit_some he
      exact Or.inr (Or.inl ⟨hl, e, k1, k2, k3, rfl, rfl⟩)
    · next he =>
      split at h
      · cases h
      · next bs bm st2 hr =>
        cases h
        exact Or.inr (Or.inr ⟨hl, he, bs, bm, st2, hr, rfl, rfl⟩)

/-- the only way in which the root search is aborted -/
theorem rootSearch_none_cases {g : G} {depth : Nat} {st : St M}
    (h : rootSearch o runs g depth st = none) :
    (o.checked g).length ≠ 1 ∧ rootHit st.tt[o.hash g]? depth = none ∧
      rootLoop o (node o runs (depth - 1)) g (rootSorted o g (rootSt st)) 0 (scoreMin + 1) none
        (rootSt st) = none := by
  rw [rootSearch_eq] at h
  split at h
  · cases h
  · next hl =>
    split at h
    · cases h
    · next he =>
      split at h
      · next hr => exact ⟨hl, he, hr⟩
      · cases h

theorem mem_rootSorted {g : G} {st : St M} {m : M} (h : m ∈ rootSorted o g st) :
    m ∈ o.checked g :=
  mem_rootMoves ((mem_sortMoves _ _ _).1 h)

/-- **The generic invariant of the root search**: if it answers it keeps `Q`, and its move is a
checked move or the move of the usable root entry. -/
theorem root_inv (I : NodeInv o runs A D Q) (g : G) (depth : Nat) (st : St M)
    (hA : A g) (hQ : Q st) (hD : D depth) {bm : Option M} {sc : Int} {only : Bool} {st' : St M}
    (h : rootSearch o runs g depth st = some ((bm, sc, only), st')) :
    Q st' ∧ (only = true ↔ (o.checked g).length = 1) ∧
      ((∀ m, bm = some m → m ∈ o.checked g) ∨
        ∃ e, st.tt[o.hash g]? = some e ∧ depth ≤ e.depth ∧ e.flag = Flag.exact ∧ bm = e.pv) := by
  have hQ0 : Q (rootSt st) := I.frame _ _ hQ rfl rfl
  rcases rootSearch_some_cases h with ⟨hl, hr, hs⟩ | ⟨hl, e, he, hd, hf, hr, hs⟩ |
      ⟨hl, _, bs, bm', st2, hr, hr', hs⟩
  · cases hr; subst hs
    refine ⟨hQ, by simp [hl], Or.inl fun m hm => List.mem_of_mem_head? hm⟩
  · cases hr; subst hs
    exact ⟨hQ0, by simp [hl], Or.inr ⟨e, he, hd, hf, rfl⟩⟩
  · cases hr'; subst hs
    have hc : ∀ m ∈ rootSorted o g (rootSt st),
        ChildKeeps Q (node o runs (depth - 1)) (o.push g m) := by
      intro m hm a b r' s v' s' he hs
      exact node_inv I _ _ _ _ _ _ (I.closed g m hA (mem_rootSorted hm)) hs he
    obtain ⟨k1, k2⟩ := rootLoop_inv o _ g _ hc _ _ _ _ hr hQ0
    have hmem : ∀ m, bm = some m → m ∈ o.checked g := by
      intro m hm
      rcases k2 m hm with h1 | h1
      · cases h1
      · exact mem_rootSorted h1
    exact ⟨rootStore_inv I g _ _ _ hA k1 hmem hD, by simp [hl], Or.inl hmem⟩

/-- **The generic abort lemma of the root search** -/
theorem root_none_inv (I : NodeInv o runs A D Q) (g : G) (depth : Nat) (st : St M)
    (hA : A g) (hQ : Q st) (h : rootSearch o runs g depth st = none) :
    ∃ st1, Q st1 ∧ runs st1.polls = false := by
  have hQ0 : Q (rootSt st) := I.frame _ _ hQ rfl rfl
  obtain ⟨_, _, hr⟩ := rootSearch_none_cases h
  have hc : ∀ m ∈ rootSorted o g (rootSt st),
      ChildKeeps Q (node o runs (depth - 1)) (o.push g m) := by
    intro m hm a b r' s v' s' he hs
    exact node_inv I _ _ _ _ _ _ (I.closed g m hA (mem_rootSorted hm)) hs he
  obtain ⟨m, hm, a, b, r', s1, hs1, he⟩ := rootLoop_none o _ g _ hc _ _ _ _ hr hQ0
  exact node_none_inv I _ _ _ _ _ _ (I.closed g m hA (mem_rootSorted hm)) hs1 he

end

/-! ## the oracle only matters through the polls: raising the flag at more polls keeps answers -/

/-- every answer of `child` is also the answer of `child'` -/
def ChildLe (child child' : G → Int → Int → Int → St M → Option (Int × St M)) (g' : G) : Prop :=
  ∀ a b r s x, child g' a b r s = some x → child' g' a b r s = some x

omit [DecidableEq M] in
theorem nodeStep_mono (o : Ops G M)
    (child child' : G → Int → Int → Int → St M → Option (Int × St M))
    (g : G) (rd β : Int) (m : M) (index : Nat) (α bs : Int) (bm : Option M) (st : St M)
    (hc : ChildLe child child' (o.push g m)) {y : Int × Int × Option M × St M}
    (h : nodeStep o child g rd β m index α bs bm st = some y) :
    nodeStep o child' g rd β m index α bs bm st = some y := by
  unfold nodeStep at h ⊢
  simp only [] at h ⊢
  by_cases hidx : index ≤ Gen.fullWindowMaxIndex
  · simp only [hidx, if_true] at h ⊢
    cases hch : child (o.push g m) (-β) (-α) (rd + 1) st with
    | none => rw [hch] at h; cases h
    | some p =>
      rw [hch] at h
      rw [hc _ _ _ _ _ hch]
      exact h
  · simp only [hidx, if_false] at h ⊢
    cases hch : child (o.push g m) (-α - 1) (-α) (rd + 1) st with
    | none => rw [hch] at h; cases h
    | some p =>
      obtain ⟨v, st1⟩ := p
      rw [hch] at h
      rw [hc _ _ _ _ _ hch]
      simp only [] at h ⊢
      by_cases ht : -v > bs
      · simp only [ht, if_true] at h ⊢
        cases hch2 : child (o.push g m) (-β) (- -v) (rd + 1) st1 with
        | none => rw [hch2] at h; cases h
        | some p2 =>
          rw [hch2] at h
          rw [hc _ _ _ _ _ hch2]
          exact h
      · simp only [ht, if_false] at h ⊢
        exact h

omit [DecidableEq M] in
theorem nodeLoop_mono (o : Ops G M)
    (child child' : G → Int → Int → Int → St M → Option (Int × St M))
    (g : G) (remaining : Nat) (rd β : Int) (ms : List M)
    (hc : ∀ m ∈ ms, ChildLe child child' (o.push g m))
    (index : Nat) (α bs : Int) (bm : Option M) (st : St M) {out : LoopOut M}
    (h : nodeLoop o child g remaining rd β ms index α bs bm st = some out) :
    nodeLoop o child' g remaining rd β ms index α bs bm st = some out := by
  induction ms generalizing index α bs bm st with
  | nil => exact h
  | cons m ms ih =>
    rw [nodeLoop_cons] at h ⊢
    cases hs : nodeStep o child g rd β m index α bs bm st with
    | none => rw [hs] at h; cases h
    | some y =>
      obtain ⟨a', bs', bm', st'⟩ := y
      rw [hs] at h
      rw [nodeStep_mono o child child' g rd β m index α bs bm st (hc m List.mem_cons_self) hs]
      simp only [] at h ⊢
      by_cases hcut : a' ≥ β
      · simp only [hcut, if_true] at h ⊢
        exact h
      · simp only [hcut, if_false] at h ⊢
        exact ih (fun m' hm' => hc m' (List.mem_cons_of_mem _ hm')) _ _ _ _ _ h

omit [DecidableEq M] in
theorem rootLoop_mono (o : Ops G M)
    (child child' : G → Int → Int → Int → St M → Option (Int × St M)) (g : G) (ms : List M)
    (hc : ∀ m ∈ ms, ChildLe child child' (o.push g m))
    (index : Nat) (bs : Int) (bm : Option M) (st : St M) {out : Int × Option M × St M}
    (h : rootLoop o child g ms index bs bm st = some out) :
    rootLoop o child' g ms index bs bm st = some out := by
  induction ms generalizing index bs bm st with
  | nil => exact h
  | cons m ms ih =>
    have ih' := ih (fun m' hm' => hc m' (List.mem_cons_of_mem _ hm'))
    have hcm := hc m List.mem_cons_self
    unfold rootLoop at h ⊢
    simp only [] at h ⊢
    by_cases hidx : index ≤ Gen.fullWindowMaxIndex
    · simp only [hidx, if_true] at h ⊢
      cases hch : child (o.push g m) (scoreMin + 1) (-bs) 1 st with
      | none => rw [hch] at h; cases h
      | some p =>
        obtain ⟨v, st1⟩ := p
        rw [hch] at h
        rw [hcm _ _ _ _ _ hch]
        simp only [] at h ⊢
        by_cases hs : -v > bs
        · simp only [hs, if_true] at h ⊢; exact ih' _ _ _ _ h
        · simp only [hs, if_false] at h ⊢; exact ih' _ _ _ _ h
    · simp only [hidx, if_false] at h ⊢
      cases hch : child (o.push g m) (-bs - 1) (-bs) 1 st with
      | none => rw [hch] at h; cases h
      | some p =>
        obtain ⟨v, st1⟩ := p
        rw [hch] at h
        rw [hcm _ _ _ _ _ hch]
        simp only [] at h ⊢
        by_cases hs : -v > bs
        · simp only [hs, if_true] at h ⊢
          cases hch2 : child (o.push g m) (scoreMin + 1) (- -v) 1 st1 with
          | none => rw [hch2] at h; cases h
          | some p2 =>
            obtain ⟨v2, st2⟩ := p2
            rw [hch2] at h
            rw [hcm _ _ _ _ _ hch2]
            simp only [] at h ⊢
            exact ih' _ _ _ _ h
        · simp only [hs, if_false] at h ⊢; exact ih' _ _ _ _ h

/-- **An answer does not depend on the oracle beyond "every poll saw the flag set"**: if `runs'`
is set wherever `runs` is, every answer under `runs` is the answer under `runs'`. -/
theorem node_mono (o : Ops G M) (runs runs' : Nat → Bool) (hle : ∀ i, runs i = true → runs' i = true)
    (remaining : Nat) (g : G) (α β rd : Int) (st : St M) {x : Int × St M}
    (h : node o runs remaining g α β rd st = some x) :
    node o runs' remaining g α β rd st = some x := by
  induction remaining using Nat.strongRecOn generalizing g α β rd st x with
  | _ n ih =>
    rw [node_eq] at h ⊢
    cases hr : runs st.polls with
    | false => simp [hr] at h
    | true =>
      simp only [hr, hle _ hr, Bool.not_true, Bool.false_eq_true, if_false] at h ⊢
      cases hcut : ttCut (ttGet (pollSt st) (o.hash g)) n α β with
      | some v => rw [hcut] at h; exact h
      | none =>
        rw [hcut] at h
        simp only [] at h ⊢
        match n with
        | 0 => exact h
        | 1 => exact h
        | r + 2 =>
          simp only [] at h ⊢
          by_cases he : (o.checked g).isEmpty = true
          · simp only [he, if_true] at h ⊢; exact h
          · simp only [he] at h ⊢
            cases hl : nodeLoop o (node o runs (r + 1)) g (r + 2) rd β
                (nodeMoves o g rd (pollSt st)) 0 α scoreMin none (pollSt st) with
            | none => rw [hl] at h; cases h
            | some out =>
              rw [hl] at h
              rw [nodeLoop_mono o _ (node o runs' (r + 1)) g _ rd β _
                (fun m _ a b r' s x hx => ih (r + 1) (by omega) _ _ _ _ _ hx) _ _ _ _ _ hl]
              exact h

theorem rootSearch_mono (o : Ops G M) (runs runs' : Nat → Bool)
    (hle : ∀ i, runs i = true → runs' i = true) (g : G) (depth : Nat) (st : St M)
    {x : (Option M × Int × Bool) × St M} (h : rootSearch o runs g depth st = some x) :
    rootSearch o runs' g depth st = some x := by
  rw [rootSearch_eq] at h ⊢
  by_cases hl : (o.checked g).length = 1
  · simp only [hl, if_true] at h ⊢; exact h
  · simp only [hl, if_false] at h ⊢
    cases hh : rootHit (ttGet (rootSt st) (o.hash g)) depth with
    | some e => rw [hh] at h; exact h
    | none =>
      rw [hh] at h
      simp only [] at h ⊢
      cases hr : rootLoop o (node o runs (depth - 1)) g (rootSorted o g (rootSt st)) 0
          (scoreMin + 1) none (rootSt st) with
      | none => rw [hr] at h; cases h
      | some out =>
        rw [hr] at h
        rw [rootLoop_mono o _ (node o runs' (depth - 1)) g _
          (fun m _ a b r' s x hx => node_mono o runs runs' hle _ _ _ _ _ _ hx) _ _ _ _ hr]
        exact h

end Chess.Search
