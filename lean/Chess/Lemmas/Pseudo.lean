import Chess.Lemmas.Attack
import Chess.Lemmas.Generated

/-!
# L2 of C01: pawns and kings; assembly of the unchecked list; injectivity of `toSpec`; no duplicates

* `Game.pawnMoves_spec`, `Game.pawnMoves_pseudo_iff`: `get_pawn_moves` = the rules' pawn clause
  (single/double step, captures, promotions, en passant — the latter under `EpInv` and `WF.ep`).
* `Game.kingMoves_spec`, `Game.kingMoves_pseudo_partial` (= `king_gen_to_pseudo`), and the exact
  converse `Game.kingMoves_pseudo_converse` (= `king_pseudo_to_gen`): every pseudo-legal king move is
  generated except steps onto a square within one step of the enemy king's cached square
  (`NearKingStep`); `Game.adjacent_is_attacked`, `Game.near_king_step_illegal`: those are illegal.
* `Game.unchecked_subset_pseudo`, `Game.pseudo_subset_unchecked`, `Spec.mem_pseudoList`,
  `Game.mem_pseudoList_iff`: the unchecked list against `Spec.pseudo` / `Spec.pseudoList`.
* `Game.toSpec_injective_on_generated`; `Game.pseudoMoves_nodup`, `Game.pseudoMoves_toSpec_nodup`.
* Empirical cross-check (12 positions, 0 mismatches other than the documented king filter):
  `scratch/PseudoEval.lean`.
-/
namespace Chess
open Spec

/-! ## The rules' pawn clause, unfolded -/

/-- the promotion clause of the rules for a pawn arriving on row `r` -/
def PromoOk_x (side : Player) (r : Int) (promo : Option PieceType) : Prop :=
  if r = lastRow side then ∃ t, promo = some t ∧ isPromoPiece t = true else promo = none

/-- the four ways a pawn moves, by the rules -/
def PawnGeo (a : APos) (u : UciMove) : Prop :=
  let fw := forward a.side
  let dr := u.dst.1 - u.src.1
  let dc := u.dst.2 - u.src.2
  (dc = 0 ∧ dr = fw ∧ a.at u.dst = none)
  ∨ (dc = 0 ∧ dr = 2 * fw ∧ u.src.1 = pawnStartRow a.side ∧ a.at u.dst = none
      ∧ a.at (u.src.1 + fw, u.src.2) = none)
  ∨ (dc.natAbs = 1 ∧ dr = fw ∧ ∃ o, a.at u.dst = some o)
  ∨ (dc.natAbs = 1 ∧ dr = fw ∧ a.at u.dst = none ∧ u.src.1 = epFromRow a.side
      ∧ a.ep = some u.dst.2.toNat ∧ a.at (u.src.1, u.dst.2) = some ⟨.pawn, a.side.other⟩)

theorem Spec.pseudo_pawn_iff (a : APos) (u : UciMove) (pc : Piece) (hsrc : a.at u.src = some pc)
    (hty : pc.pieceType = .pawn) :
    pseudo a u = true ↔
      onBoard u.dst = true ∧ pc.owner = a.side ∧ (∀ o, a.at u.dst = some o → o.owner ≠ a.side) ∧
        PromoOk_x a.side u.dst.1 u.promo ∧ PawnGeo a u := by
  have hb := APos.onBoard_of_at hsrc
  unfold pseudo PromoOk_x PawnGeo
  rw [hsrc]
  simp only [hb, hty, Bool.true_and, Bool.and_eq_true, decide_eq_true_eq, Bool.or_eq_true,
    Option.isNone_iff_eq_none, Option.isSome_iff_exists, Bool.not_eq_true']
  cases hd : a.at u.dst <;> cases hpr : u.promo <;> by_cases hl : u.dst.1 = lastRow a.side <;>
    simp [hl, and_assoc, or_assoc]

/-! ## `get_pawn_moves`, described -/

namespace Game

/-- the four parts of `get_pawn_moves`, with the constants as parameters -/
def pawnDbl (g : Game) (pc : Piece) (p : Pos) (firstRow : Int) (nd fd : Int × Int) : List Move :=
  if p.row = firstRow && (g.get (p.addUnsafe nd)).isNone && (g.get (p.addUnsafe fd)).isNone then
    [Move.normal pc p (p.addUnsafe fd) none]
  else []

def pawnFwd (g : Game) (pc : Piece) (p : Pos) (lastRow : Int) (nd : Int × Int) : List Move :=
  match p.add nd with
  | none => []
  | some q =>
    if (g.get q).isNone then
      if lastRow = q.row then promoPieces.map (fun t => Move.promotion g.player t p q none)
      else [Move.normal pc p q none]
    else []

def pawnCap (g : Game) (pc : Piece) (p : Pos) (lastRow : Int) (d : Int × Int) : List Move :=
  match p.add d with
  | none => []
  | some q =>
    match g.get q with
    | some other =>
      if other.owner ≠ pc.owner then
        if lastRow = q.row then promoPieces.map (fun t => Move.promotion g.player t p q (some other))
        else [Move.normal pc p q (some other)]
      else []
    | none => []

def pawnEp (g : Game) (p : Pos) (epRow : Int) : List Move :=
  if p.row = epRow && g.top.enPassant < 8 && (g.top.enPassant - p.col).natAbs = 1 then
    [Move.enPassant g.player p.col g.top.enPassant]
  else []

/-- `get_pawn_moves` with the generated constants replaced by the rules' (a wrong constant in the
source breaks this `rfl`) -/
theorem pawnMoves_eq (g : Game) (pc : Piece) (p : Pos) :
    g.pawnMoves pc p =
      pawnDbl g pc p (pawnStartRow pc.owner) (forward pc.owner, 0) (2 * forward pc.owner, 0)
      ++ pawnFwd g pc p (lastRow pc.owner) (forward pc.owner, 0)
      ++ [(forward pc.owner, (1 : Int)), (forward pc.owner, -1)].flatMap (pawnCap g pc p (lastRow pc.owner))
      ++ pawnEp g p (epFromRow pc.owner) := by
  obtain ⟨ty, o⟩ := pc
  cases o <;> rfl

/-- what arrives on `q`: the four promotions on the last row, the pawn itself elsewhere -/
def PawnArrive (g : Game) (pc : Piece) (p q : Pos) (cap : Option Piece) (lr : Int) (m : Move) : Prop :=
  if lr = q.row then ∃ t ∈ promoPieces, m = .promotion g.player t p q cap
  else m = .normal pc p q cap

theorem mem_arrive (g : Game) (pc : Piece) (p q : Pos) (cap : Option Piece) (lr : Int) (m : Move) :
    m ∈ (if lr = q.row then promoPieces.map (fun t => Move.promotion g.player t p q cap)
      else [Move.normal pc p q cap]) ↔ PawnArrive g pc p q cap lr m := by
  unfold PawnArrive
  split
  · simp only [List.mem_map]
    constructor
    · rintro ⟨t, ht, rfl⟩; exact ⟨t, ht, rfl⟩
    · rintro ⟨t, ht, rfl⟩; exact ⟨t, ht, rfl⟩
  · simp only [List.mem_singleton]

theorem mem_pawnDbl (g : Game) (pc : Piece) (p : Pos) (fr : Int) (nd fd : Int × Int) (m : Move) :
    m ∈ pawnDbl g pc p fr nd fd ↔
      p.row = fr ∧ g.get (p.addUnsafe nd) = none ∧ g.get (p.addUnsafe fd) = none
        ∧ m = .normal pc p (p.addUnsafe fd) none := by
  unfold pawnDbl
  split
  · rename_i h
    simp only [Bool.and_eq_true, decide_eq_true_eq, Option.isNone_iff_eq_none] at h
    simp only [List.mem_singleton, h, true_and]
  · rename_i h
    simp only [Bool.and_eq_true, decide_eq_true_eq, Option.isNone_iff_eq_none] at h
    simp only [List.not_mem_nil, false_iff]
    rintro ⟨a, b, c, _⟩; exact h ⟨⟨a, b⟩, c⟩

theorem mem_pawnFwd (g : Game) (pc : Piece) (p : Pos) (lr : Int) (nd : Int × Int) (m : Move) :
    m ∈ pawnFwd g pc p lr nd ↔
      ∃ q, p.add nd = some q ∧ g.get q = none ∧ PawnArrive g pc p q none lr m := by
  unfold pawnFwd
  cases hq : p.add nd with
  | none => simp
  | some q =>
    simp only [Option.some.injEq, exists_eq_left']
    cases hg : g.get q with
    | none => simp only [Option.isNone_none, if_true, true_and]; exact mem_arrive ..
    | some o => simp

theorem mem_pawnCap (g : Game) (pc : Piece) (p : Pos) (lr : Int) (d : Int × Int) (m : Move) :
    m ∈ pawnCap g pc p lr d ↔
      ∃ q other, p.add d = some q ∧ g.get q = some other ∧ other.owner ≠ pc.owner
        ∧ PawnArrive g pc p q (some other) lr m := by
  unfold pawnCap
  cases hq : p.add d with
  | none => simp
  | some q =>
    cases hg : g.get q with
    | none =>
      simp only [hg, List.not_mem_nil, false_iff]
      rintro ⟨q', o, h1, h2, _⟩
      cases h1; rw [hg] at h2; cases h2
    | some o =>
      by_cases ho : o.owner = pc.owner
      · simp only [hg, ne_eq, ho, not_true_eq_false, if_false, List.not_mem_nil, false_iff]
        rintro ⟨q', o', h1, h2, h3, _⟩
        cases h1; rw [hg] at h2; cases h2; exact h3 ho
      · simp only [hg, ne_eq, ho, not_false_eq_true, if_true]
        rw [mem_arrive]
        constructor
        · intro h; exact ⟨q, o, rfl, hg, ho, h⟩
        · rintro ⟨q', o', h1, h2, h3, h4⟩
          cases h1; rw [hg] at h2; cases h2; exact h4

theorem mem_pawnEp (g : Game) (p : Pos) (er : Int) (m : Move) :
    m ∈ pawnEp g p er ↔
      p.row = er ∧ g.top.enPassant < 8 ∧ (g.top.enPassant - p.col).natAbs = 1
        ∧ m = .enPassant g.player p.col g.top.enPassant := by
  unfold pawnEp
  split
  · rename_i h
    simp only [Bool.and_eq_true, decide_eq_true_eq] at h
    simp only [List.mem_singleton, h, true_and]
  · rename_i h
    simp only [Bool.and_eq_true, decide_eq_true_eq] at h
    simp only [List.not_mem_nil, false_iff]
    rintro ⟨a, b, c, _⟩; exact h ⟨⟨a, b⟩, c⟩

/-- **`get_pawn_moves`, described**: double step, single step, captures, en passant -/
theorem pawnMoves_spec (g : Game) (pc : Piece) (p : Pos) (m : Move) :
    m ∈ g.pawnMoves pc p ↔
      (p.row = pawnStartRow pc.owner ∧ g.get ⟨p.row + forward pc.owner, p.col + 0⟩ = none
        ∧ g.get ⟨p.row + 2 * forward pc.owner, p.col + 0⟩ = none
        ∧ m = .normal pc p ⟨p.row + 2 * forward pc.owner, p.col + 0⟩ none)
      ∨ (∃ q, p.add (forward pc.owner, 0) = some q ∧ g.get q = none
          ∧ PawnArrive g pc p q none (lastRow pc.owner) m)
      ∨ (∃ d ∈ [(forward pc.owner, (1 : Int)), (forward pc.owner, -1)], ∃ q other,
          p.add d = some q ∧ g.get q = some other ∧ other.owner ≠ pc.owner
            ∧ PawnArrive g pc p q (some other) (lastRow pc.owner) m)
      ∨ (p.row = epFromRow pc.owner ∧ g.top.enPassant < 8 ∧ (g.top.enPassant - p.col).natAbs = 1
          ∧ m = .enPassant g.player p.col g.top.enPassant) := by
  rw [pawnMoves_eq]
  simp only [List.mem_append, or_assoc, List.mem_flatMap, mem_pawnDbl, mem_pawnFwd, mem_pawnCap,
    mem_pawnEp]
  rfl

/-! ## Pawns: generator = rules -/

theorem side_consts (pl : Player) :
    (forward pl = 1 ∧ pawnStartRow pl = 1 ∧ lastRow pl = 7 ∧ epFromRow pl = 4)
    ∨ (forward pl = -1 ∧ pawnStartRow pl = 6 ∧ lastRow pl = 0 ∧ epFromRow pl = 3) := by
  cases pl
  · exact .inl ⟨rfl, rfl, rfl, rfl⟩
  · exact .inr ⟨rfl, rfl, rfl, rfl⟩

theorem mem_promoPieces (t : PieceType) : t ∈ promoPieces ↔ isPromoPiece t = true := by
  rw [promoPieces_eq]; cases t <;> simp [isPromoPiece]

theorem toSpec_enPassant (o : Player) (sc ec : Int) :
    (Move.enPassant o sc ec).toSpec = ⟨(epFromRow o, sc), (epFromRow o + forward o, ec), none⟩ := by
  cases o <;> rfl

theorem epInv_uniform {g : Game} (h : g.EpInv) (h8 : g.top.enPassant < 8) :
    g.get ⟨epFromRow g.player, g.top.enPassant⟩ = some ⟨.pawn, g.player.other⟩
      ∧ g.get ⟨epFromRow g.player + forward g.player, g.top.enPassant⟩ = none := by
  have := h h8
  cases hpl : g.player <;> rw [hpl] at this <;> exact this

theorem abs_ep (g : Game) :
    g.abs.ep = if g.top.enPassant < 8 then some g.top.enPassant.toNat else none := rfl

theorem abs_side (g : Game) : g.abs.side = g.player := rfl

theorem arrive_toSpec (g : Game) (pc : Piece) (p q : Pos) (cap : Option Piece) (lr : Int)
    (upr : Option PieceType)
    (hpromo : if q.row = lr then ∃ t, upr = some t ∧ isPromoPiece t = true else upr = none) :
    ∃ m, PawnArrive g pc p q cap lr m ∧ m.toSpec = ⟨(p.row, p.col), (q.row, q.col), upr⟩ := by
  unfold PawnArrive
  by_cases h : lr = q.row
  · rw [if_pos h.symm] at hpromo
    obtain ⟨t, rfl, ht⟩ := hpromo
    refine ⟨.promotion g.player t p q cap, ?_, rfl⟩
    rw [if_pos h]; exact ⟨t, (mem_promoPieces t).2 ht, rfl⟩
  · rw [if_neg (fun e => h e.symm)] at hpromo
    subst hpromo
    refine ⟨.normal pc p q cap, ?_, rfl⟩
    rw [if_neg h]

/-- rules ⊆ generator, pawns -/
theorem pawn_pseudo_to_gen (g : Game) {p : Pos} (hw : g.WF) (hp : p.Valid)
    (hg : g.get p = some ⟨.pawn, g.player⟩) (u : UciMove)
    (hps : pseudo g.abs u = true) (hsrc : u.src = (p.row, p.col)) :
    ∃ m ∈ g.pawnMoves ⟨.pawn, g.player⟩ p, m.toSpec = u := by
  have hat : g.abs.at (p.row, p.col) = some ⟨.pawn, g.player⟩ := by rw [← g.get_eq_at p hp]; exact hg
  obtain ⟨us, ud, upr⟩ := u
  simp only at hsrc; subst hsrc
  obtain ⟨hb, _, hno, hpromo, hgeo⟩ := (pseudo_pawn_iff g.abs _ _ hat rfl).1 hps
  simp only [abs_side] at hb hno hpromo hgeo
  have hv : (Pos.mk ud.1 ud.2).Valid := (Pos.valid_iff_onBoard _).2 hb
  have hgq := g.get_eq_at _ hv
  simp only at hgq
  unfold Pos.Valid at hp hv
  simp only at hv
  unfold PromoOk_x at hpromo
  unfold PawnGeo at hgeo
  simp only [abs_side] at hgeo
  have hadd : ∀ dc : Int, ud.1 - p.row = forward g.player → ud.2 - p.col = dc →
      p.add (forward g.player, dc) = some ⟨ud.1, ud.2⟩ := by
    intro dc h1 h2
    rw [Pos.add_eq_some_iff]
    refine ⟨?_, hb⟩
    simp only [Pos.mk.injEq]; omega
  rcases hgeo with ⟨hdc, hdr, hnone⟩ | ⟨hdc, hdr, hst, hnone, hmid⟩ | ⟨hdc, hdr, o, ho⟩
      | ⟨hdc, hdr, hnone, her, hep, hbeside⟩
  · -- single step
    obtain ⟨m, hm, hts⟩ := arrive_toSpec g ⟨.pawn, g.player⟩ p ⟨ud.1, ud.2⟩ none (lastRow g.player) upr hpromo
    refine ⟨m, (pawnMoves_spec ..).2 (.inr (.inl ⟨_, hadd 0 hdr hdc, ?_, hm⟩)), hts⟩
    rw [hgq]; exact hnone
  · -- double step
    have hupr : upr = none := by
      rw [if_neg] at hpromo
      · exact hpromo
      · rcases side_consts g.player with ⟨a, b, c, d⟩ | ⟨a, b, c, d⟩ <;> omega
    subst hupr
    have hmv : (Pos.mk (p.row + forward g.player) p.col).Valid := by
      unfold Pos.Valid
      rcases side_consts g.player with ⟨a, b, c, d⟩ | ⟨a, b, c, d⟩ <;> simp only <;> omega
    have hmid' := g.get_eq_at _ hmv
    simp only at hmid'
    have e1 : (Pos.mk (p.row + 2 * forward g.player) (p.col + 0)) = ⟨ud.1, ud.2⟩ := by
      simp only [Pos.mk.injEq]; omega
    refine ⟨.normal ⟨.pawn, g.player⟩ p ⟨ud.1, ud.2⟩ none, (pawnMoves_spec ..).2 (.inl ⟨hst, ?_, ?_, ?_⟩), rfl⟩
    · simp only [Int.add_zero]; rw [hmid']; exact hmid
    · simp only [e1]; rw [hgq]; exact hnone
    · simp only [e1]
  · -- capture
    obtain ⟨m, hm, hts⟩ := arrive_toSpec g ⟨.pawn, g.player⟩ p ⟨ud.1, ud.2⟩ (some o) (lastRow g.player) upr hpromo
    refine ⟨m, (pawnMoves_spec ..).2 (.inr (.inr (.inl ⟨(forward g.player, ud.2 - p.col), ?_, _, o,
      hadd _ hdr rfl, ?_, hno o ho, hm⟩))), hts⟩
    · simp only [List.mem_cons, Prod.mk.injEq, true_and, List.not_mem_nil, or_false]; omega
    · rw [hgq]; exact ho
  · -- en passant
    have hupr : upr = none := by
      rw [if_neg] at hpromo
      · exact hpromo
      · rcases side_consts g.player with ⟨a, b, c, d⟩ | ⟨a, b, c, d⟩ <;> omega
    subst hupr
    rw [abs_ep] at hep
    have h0 := hw.ep.1
    have h8 : g.top.enPassant < 8 := by
      by_cases h : g.top.enPassant < 8
      · exact h
      · rw [if_neg h] at hep; cases hep
    rw [if_pos h8] at hep
    have hec : g.top.enPassant = ud.2 := by
      have := Option.some.inj hep
      omega
    refine ⟨.enPassant g.player p.col g.top.enPassant, (pawnMoves_spec ..).2 (.inr (.inr (.inr
      ⟨her, h8, by omega, rfl⟩))), ?_⟩
    rw [toSpec_enPassant]
    obtain ⟨ud1, ud2⟩ := ud
    simp only at hec hdr her
    simp only [UciMove.mk.injEq, Prod.mk.injEq, and_true]
    omega

/-- `PawnArrive` read back: the text-level move and its promotion clause -/
theorem arrive_spec {g : Game} {pc : Piece} {p q : Pos} {cap : Option Piece} {lr : Int} {m : Move}
    (h : PawnArrive g pc p q cap lr m) :
    ∃ upr, m.toSpec = ⟨(p.row, p.col), (q.row, q.col), upr⟩ ∧
      (if q.row = lr then ∃ t, upr = some t ∧ isPromoPiece t = true else upr = none) := by
  unfold PawnArrive at h
  by_cases hl : lr = q.row
  · rw [if_pos hl] at h
    obtain ⟨t, ht, rfl⟩ := h
    refine ⟨some t, rfl, ?_⟩
    rw [if_pos hl.symm]; exact ⟨t, rfl, (mem_promoPieces t).1 ht⟩
  · rw [if_neg hl] at h
    subst h
    refine ⟨none, rfl, ?_⟩
    rw [if_neg (fun e => hl e.symm)]

/-- generator ⊆ rules, pawns -/
theorem pawn_gen_to_pseudo (g : Game) {p : Pos} (hw : g.WF) (hp : p.Valid)
    (hg : g.get p = some ⟨.pawn, g.player⟩) (m : Move)
    (hm : m ∈ g.pawnMoves ⟨.pawn, g.player⟩ p) :
    pseudo g.abs m.toSpec = true ∧ m.toSpec.src = (p.row, p.col) := by
  have hat : g.abs.at (p.row, p.col) = some ⟨.pawn, g.player⟩ := by rw [← g.get_eq_at p hp]; exact hg
  rw [pawnMoves_spec] at hm
  simp only at hm
  -- it suffices to exhibit the text-level move and check the rules' clause on it
  suffices h : ∃ ud upr, m.toSpec = ⟨(p.row, p.col), ud, upr⟩ ∧ onBoard ud = true ∧
      (∀ o, g.abs.at ud = some o → o.owner ≠ g.player) ∧ PromoOk_x g.player ud.1 upr ∧
      PawnGeo g.abs ⟨(p.row, p.col), ud, upr⟩ by
    obtain ⟨ud, upr, hts, hb, hno, hpr, hgeo⟩ := h
    rw [hts]
    refine ⟨?_, rfl⟩
    rw [pseudo_pawn_iff g.abs _ _ hat rfl]
    exact ⟨hb, rfl, hno, hpr, hgeo⟩
  unfold PromoOk_x PawnGeo
  simp only [abs_side]
  have hpv := hp
  unfold Pos.Valid at hp
  rcases hm with ⟨hst, hmid, hdst, rfl⟩ | ⟨q, hq, hnone, harr⟩ | ⟨d, hd, q, o, hq, hgo, hoo, harr⟩
      | ⟨her, h8, habs, rfl⟩
  · -- double step
    have hv : (Pos.mk (p.row + 2 * forward g.player) (p.col + 0)).Valid := by
      unfold Pos.Valid
      rcases side_consts g.player with ⟨a, b, c, d⟩ | ⟨a, b, c, d⟩ <;> simp only <;> omega
    have hmv : (Pos.mk (p.row + forward g.player) (p.col + 0)).Valid := by
      unfold Pos.Valid
      rcases side_consts g.player with ⟨a, b, c, d⟩ | ⟨a, b, c, d⟩ <;> simp only <;> omega
    rw [g.get_eq_at _ hv] at hdst
    rw [g.get_eq_at _ hmv] at hmid
    simp only [Int.add_zero] at hdst hmid hv
    refine ⟨(p.row + 2 * forward g.player, p.col), none, ?_, (Pos.valid_iff_onBoard _).1 hv, ?_, ?_, ?_⟩
    · simp only [Move.toSpec, Int.add_zero]
    · intro o ho; rw [hdst] at ho; cases ho
    · rw [if_neg]
      rcases side_consts g.player with ⟨a, b, c, d⟩ | ⟨a, b, c, d⟩ <;> simp only <;> omega
    · refine .inr (.inl ⟨by simp only; omega, by simp only; omega, hst, hdst, hmid⟩)
  · -- single step
    obtain ⟨rfl, hb⟩ := (Pos.add_eq_some_iff _ _ _).1 hq
    have hv := (Pos.valid_iff_onBoard _).2 hb
    rw [g.get_eq_at _ hv] at hnone
    obtain ⟨upr, hts, hpr⟩ := arrive_spec harr
    simp only at hts hpr hnone hb
    refine ⟨_, upr, hts, hb, ?_, hpr, ?_⟩
    · intro o ho; rw [hnone] at ho; cases ho
    · exact .inl ⟨by simp only; omega, by simp only; omega, hnone⟩
  · -- capture
    obtain ⟨rfl, hb⟩ := (Pos.add_eq_some_iff _ _ _).1 hq
    have hv := (Pos.valid_iff_onBoard _).2 hb
    rw [g.get_eq_at _ hv] at hgo
    obtain ⟨upr, hts, hpr⟩ := arrive_spec harr
    simp only at hts hpr hgo hb
    have hd1 : d.1 = forward g.player ∧ d.2.natAbs = 1 := by
      simp only [List.mem_cons, List.not_mem_nil, or_false] at hd
      rcases hd with rfl | rfl <;> exact ⟨rfl, rfl⟩
    refine ⟨_, upr, hts, hb, ?_, hpr, ?_⟩
    · intro o' ho'; rw [hgo] at ho'; cases ho'; exact hoo
    · exact .inr (.inr (.inl ⟨by simp only; omega, by simp only; omega, o, hgo⟩))
  · -- en passant
    obtain ⟨hbeside, hempty⟩ := epInv_uniform hw.epInv h8
    have h0 := hw.ep.1
    have hv : (Pos.mk (epFromRow g.player + forward g.player) g.top.enPassant).Valid := by
      unfold Pos.Valid
      rcases side_consts g.player with ⟨a, b, c, d⟩ | ⟨a, b, c, d⟩ <;> simp only <;> omega
    have hbv : (Pos.mk (epFromRow g.player) g.top.enPassant).Valid := by
      unfold Pos.Valid
      rcases side_consts g.player with ⟨a, b, c, d⟩ | ⟨a, b, c, d⟩ <;> simp only <;> omega
    rw [g.get_eq_at _ hv] at hempty
    rw [g.get_eq_at _ hbv] at hbeside
    simp only at hempty hbeside
    refine ⟨(epFromRow g.player + forward g.player, g.top.enPassant), none, ?_,
      (Pos.valid_iff_onBoard _).1 hv, ?_, ?_, ?_⟩
    · rw [toSpec_enPassant, her]
    · intro o ho; rw [hempty] at ho; cases ho
    · rw [if_neg]
      rcases side_consts g.player with ⟨a, b, c, d⟩ | ⟨a, b, c, d⟩ <;> simp only <;> omega
    · refine .inr (.inr (.inr ⟨by simp only; omega, by simp only; omega, hempty, her, ?_, ?_⟩))
      · rw [abs_ep, if_pos h8]
      · simp only [her]; exact hbeside

/-- **L2 for pawns**: for an own pawn on the valid square `p`, `get_pawn_moves` yields (up to
`toSpec`) exactly the pseudo-legal moves of the rules that start on `p`. The representation
invariant is used for en passant only (`EpInv`: the recorded file is backed by the enemy pawn and an
empty square behind it; `WF.ep`: the file is not negative). -/
theorem pawnMoves_pseudo_iff (g : Game) {pc : Piece} {p : Pos} (hw : g.WF) (hp : p.Valid)
    (hg : g.get p = some pc) (hown : pc.owner = g.player) (hty : pc.pieceType = .pawn)
    (u : UciMove) :
    (pseudo g.abs u = true ∧ u.src = (p.row, p.col)) ↔ ∃ m ∈ g.pawnMoves pc p, m.toSpec = u := by
  have hpc := piece_eq hty hown
  subst hpc
  constructor
  · rintro ⟨h1, h2⟩; exact pawn_pseudo_to_gen g hw hp hg u h1 h2
  · rintro ⟨m, hm, rfl⟩; exact pawn_gen_to_pseudo g hw hp hg m hm

end Game

/-! ## The rules' king clause, unfolded -/

def Spec.sideK (a : APos) : Bool := match a.side with | .white => a.wk | .black => a.bk
def Spec.sideQ (a : APos) : Bool := match a.side with | .white => a.wq | .black => a.bq

/-- the rules' short-castling clause -/
def CastleS (a : APos) (u : UciMove) : Prop :=
  u.src = (homeRow a.side, 4) ∧ u.dst = (homeRow a.side, 6) ∧ sideK a = true
    ∧ a.at (homeRow a.side, 5) = none ∧ a.at (homeRow a.side, 6) = none
    ∧ attacked a (homeRow a.side, 4) a.side.other = false
    ∧ attacked a (homeRow a.side, 5) a.side.other = false
    ∧ attacked a (homeRow a.side, 6) a.side.other = false

/-- the rules' long-castling clause -/
def CastleL (a : APos) (u : UciMove) : Prop :=
  u.src = (homeRow a.side, 4) ∧ u.dst = (homeRow a.side, 2) ∧ sideQ a = true
    ∧ a.at (homeRow a.side, 1) = none ∧ a.at (homeRow a.side, 2) = none
    ∧ a.at (homeRow a.side, 3) = none
    ∧ attacked a (homeRow a.side, 4) a.side.other = false
    ∧ attacked a (homeRow a.side, 3) a.side.other = false
    ∧ attacked a (homeRow a.side, 2) a.side.other = false

theorem Spec.pseudo_king_iff (a : APos) (u : UciMove) (pc : Piece) (hsrc : a.at u.src = some pc)
    (hty : pc.pieceType = .king) :
    pseudo a u = true ↔
      onBoard u.dst = true ∧ pc.owner = a.side ∧ (∀ o, a.at u.dst = some o → o.owner ≠ a.side) ∧
        u.promo = none ∧
        (max (u.dst.1 - u.src.1).natAbs (u.dst.2 - u.src.2).natAbs = 1 ∨ CastleS a u ∨ CastleL a u) := by
  have hb := APos.onBoard_of_at hsrc
  unfold pseudo CastleS CastleL sideK sideQ
  rw [hsrc]
  cases hs : a.side <;> cases hd : a.at u.dst <;>
  simp only [hb, hty, Bool.true_and, Bool.and_eq_true, decide_eq_true_eq, Bool.or_eq_true,
    Option.isNone_iff_eq_none, Bool.not_eq_true', attacksFrom, reduceCtorEq, false_implies,
    implies_true, Option.some.injEq, forall_eq', decide_eq_false_iff_not, ne_eq, true_and] <;>
  grind

/-! ## `get_king_moves`, described -/

namespace Game

/-- within one step of the enemy king's cached square: the engine's extra filter -/
def NearEnemyKing (g : Game) (q : Pos) : Prop :=
  (q.row - (g.kingPos g.player.other).row).natAbs ≤ 1 ∧
  (q.col - (g.kingPos g.player.other).col).natAbs ≤ 1

instance (g : Game) (q : Pos) : Decidable (g.NearEnemyKing q) := by
  unfold NearEnemyKing; infer_instance

def kingStep (g : Game) (pc : Piece) (p : Pos) (d : Int × Int) : List Move :=
  match p.add d with
  | none => []
  | some q =>
    let place := g.get q
    let own : Bool := match place with
      | some o => o.owner = g.player
      | none => false
    if own then []
    else if (q.row - (g.kingPos g.player.other).row).natAbs ≤ 1
        && (q.col - (g.kingPos g.player.other).col).natAbs ≤ 1 then []
    else [Move.normal pc p q place]

def castleShort (g : Game) (ks : Bool) : List Move :=
  if ks && (g.get ⟨homeRow g.player, 5⟩).isNone && (g.get ⟨homeRow g.player, 6⟩).isNone
      && !g.isTargeted ⟨homeRow g.player, 4⟩ g.player && !g.isTargeted ⟨homeRow g.player, 5⟩ g.player
      && !g.isTargeted ⟨homeRow g.player, 6⟩ g.player then
    [Move.castlingShort g.player]
  else []

def castleLong (g : Game) (qs : Bool) : List Move :=
  if qs && (g.get ⟨homeRow g.player, 1⟩).isNone && (g.get ⟨homeRow g.player, 2⟩).isNone
      && (g.get ⟨homeRow g.player, 3⟩).isNone
      && !g.isTargeted ⟨homeRow g.player, 4⟩ g.player && !g.isTargeted ⟨homeRow g.player, 2⟩ g.player
      && !g.isTargeted ⟨homeRow g.player, 3⟩ g.player then
    [Move.castlingLong g.player]
  else []

/-- `get_king_moves` in three parts, the castling rights being those of the side to move -/
theorem kingMoves_eq (g : Game) (pc : Piece) (p : Pos) :
    g.kingMoves pc p =
      Gen.kingDeltas.flatMap (kingStep g pc p) ++ castleShort g (sideK g.abs) ++ castleLong g (sideQ g.abs) := by
  rcases g with ⟨score, player, ms, eg, hash, board, ps, ph, wking, bking, state⟩
  cases player <;> rfl

theorem mem_kingDeltas (d : Int × Int) :
    d ∈ Gen.kingDeltas ↔ max d.1.natAbs d.2.natAbs = 1 := by
  obtain ⟨a, b⟩ := d
  simp only [Gen.kingDeltas, List.mem_cons, Prod.mk.injEq, List.not_mem_nil, or_false]
  omega

theorem mem_kingStep (g : Game) (pc : Piece) (p : Pos) (d : Int × Int) (m : Move) :
    m ∈ kingStep g pc p d ↔
      ∃ q, p.add d = some q ∧ NotOwn g q ∧ ¬ g.NearEnemyKing q ∧ m = .normal pc p q (g.get q) := by
  unfold kingStep NotOwn NearEnemyKing
  cases hq : p.add d with
  | none => simp
  | some q =>
    simp only [Option.some.injEq, exists_eq_left']
    cases hg : g.get q with
    | none => simp
    | some o =>
      by_cases ho : o.owner = g.player <;> simp [ho]

theorem mem_castleShort (g : Game) (ks : Bool) (m : Move) :
    m ∈ castleShort g ks ↔
      (ks = true ∧ g.get ⟨homeRow g.player, 5⟩ = none ∧ g.get ⟨homeRow g.player, 6⟩ = none
        ∧ g.isTargeted ⟨homeRow g.player, 4⟩ g.player = false
        ∧ g.isTargeted ⟨homeRow g.player, 5⟩ g.player = false
        ∧ g.isTargeted ⟨homeRow g.player, 6⟩ g.player = false) ∧ m = .castlingShort g.player := by
  unfold castleShort
  split
  · rename_i h
    simp only [Bool.and_eq_true, Option.isNone_iff_eq_none, Bool.not_eq_true'] at h
    simp only [List.mem_singleton, h, true_and, and_self]
  · rename_i h
    simp only [Bool.and_eq_true, Option.isNone_iff_eq_none, Bool.not_eq_true'] at h
    simp only [List.not_mem_nil, false_iff]
    rintro ⟨⟨a, b, c, d, e, f⟩, _⟩; exact h ⟨⟨⟨⟨⟨a, b⟩, c⟩, d⟩, e⟩, f⟩

theorem mem_castleLong (g : Game) (qs : Bool) (m : Move) :
    m ∈ castleLong g qs ↔
      (qs = true ∧ g.get ⟨homeRow g.player, 1⟩ = none ∧ g.get ⟨homeRow g.player, 2⟩ = none
        ∧ g.get ⟨homeRow g.player, 3⟩ = none
        ∧ g.isTargeted ⟨homeRow g.player, 4⟩ g.player = false
        ∧ g.isTargeted ⟨homeRow g.player, 2⟩ g.player = false
        ∧ g.isTargeted ⟨homeRow g.player, 3⟩ g.player = false) ∧ m = .castlingLong g.player := by
  unfold castleLong
  split
  · rename_i h
    simp only [Bool.and_eq_true, Option.isNone_iff_eq_none, Bool.not_eq_true'] at h
    simp only [List.mem_singleton, h, true_and, and_self]
  · rename_i h
    simp only [Bool.and_eq_true, Option.isNone_iff_eq_none, Bool.not_eq_true'] at h
    simp only [List.not_mem_nil, false_iff]
    rintro ⟨⟨a, b, c, d, e, f, i⟩, _⟩; exact h ⟨⟨⟨⟨⟨⟨a, b⟩, c⟩, d⟩, e⟩, f⟩, i⟩

/-- **`get_king_moves`, described**: the steps not onto an own piece and not next to the enemy
king's cached square; the two castlings -/
theorem kingMoves_spec (g : Game) (pc : Piece) (p : Pos) (m : Move) :
    m ∈ g.kingMoves pc p ↔
      (∃ d ∈ Gen.kingDeltas, m ∈ kingStep g pc p d)
      ∨ m ∈ castleShort g (sideK g.abs) ∨ m ∈ castleLong g (sideQ g.abs) := by
  rw [kingMoves_eq]
  simp only [List.mem_append, List.mem_flatMap, or_assoc]

theorem homeRow_eq (pl : Player) : Game.homeRow pl = Spec.homeRow pl := by cases pl <;> rfl

/-- a castling right of the side to move puts its king on the e-file of its home row -/
theorem rights_king {g : Game} (hr : g.RightsInv) (hke : g.kingExists g.player = true)
    (h : sideK g.abs = true ∨ sideQ g.abs = true) :
    g.get ⟨Game.homeRow g.player, 4⟩ = some ⟨.king, g.player⟩
      ∧ g.kingPos g.player = ⟨Game.homeRow g.player, 4⟩ := by
  unfold sideK sideQ at h
  cases hpl : g.player
  · have hs : g.abs.side = .white := hpl
    rw [hs] at h; rw [hpl] at hke
    simp only at h
    rcases h with h | h
    · obtain ⟨_, b, c⟩ := hr.wk h; exact ⟨c hke, b⟩
    · obtain ⟨_, b, c⟩ := hr.wq h; exact ⟨c hke, b⟩
  · have hs : g.abs.side = .black := hpl
    rw [hs] at h; rw [hpl] at hke
    simp only at h
    rcases h with h | h
    · obtain ⟨_, b, c⟩ := hr.bk h; exact ⟨c hke, b⟩
    · obtain ⟨_, b, c⟩ := hr.bq h; exact ⟨c hke, b⟩

theorem get_home (g : Game) (c : Int) (h0 : 0 ≤ c) (h8 : c < 8) :
    g.get ⟨Game.homeRow g.player, c⟩ = g.abs.at (Spec.homeRow g.abs.side, c) := by
  rw [g.get_eq_at _ (homeRow_valid _ c h0 h8), homeRow_eq]; rfl

theorem targeted_home (g : Game) (c : Int) (h0 : 0 ≤ c) (h8 : c < 8) :
    g.isTargeted ⟨Game.homeRow g.player, c⟩ g.player
      = attacked g.abs (Spec.homeRow g.abs.side, c) g.abs.side.other := by
  rw [g.isTargeted_iff_attacked (homeRow_valid _ c h0 h8), homeRow_eq]; rfl

/-- the engine's short-castling test is the rules' clause (via `isTargeted_iff_attacked`) -/
theorem castleShort_iff (g : Game) (m : Move) :
    m ∈ castleShort g (sideK g.abs) ↔
      CastleS g.abs ⟨(Spec.homeRow g.abs.side, 4), (Spec.homeRow g.abs.side, 6), none⟩
        ∧ m = .castlingShort g.player := by
  rw [mem_castleShort, get_home g 5 (by omega) (by omega), get_home g 6 (by omega) (by omega),
    targeted_home g 4 (by omega) (by omega), targeted_home g 5 (by omega) (by omega),
    targeted_home g 6 (by omega) (by omega)]
  unfold CastleS
  simp only [true_and]

theorem castleLong_iff (g : Game) (m : Move) :
    m ∈ castleLong g (sideQ g.abs) ↔
      CastleL g.abs ⟨(Spec.homeRow g.abs.side, 4), (Spec.homeRow g.abs.side, 2), none⟩
        ∧ m = .castlingLong g.player := by
  rw [mem_castleLong, get_home g 1 (by omega) (by omega), get_home g 2 (by omega) (by omega),
    get_home g 3 (by omega) (by omega),
    targeted_home g 4 (by omega) (by omega), targeted_home g 2 (by omega) (by omega),
    targeted_home g 3 (by omega) (by omega)]
  unfold CastleL
  simp only [true_and]
  constructor
  · rintro ⟨⟨a, b, c, d, e, f, i⟩, h⟩; exact ⟨⟨a, b, c, d, e, i, f⟩, h⟩
  · rintro ⟨⟨a, b, c, d, e, i, f⟩, h⟩; exact ⟨⟨a, b, c, d, e, f, i⟩, h⟩

/-! ## Kings: generator ⊆ rules, and the exact converse -/

/-- **generator ⊆ rules, kings** (steps and both castlings) -/
theorem king_gen_to_pseudo (g : Game) {p : Pos} (hw : g.WF) (hke : g.kingExists g.player = true)
    (hp : p.Valid) (hg : g.get p = some ⟨.king, g.player⟩) (m : Move)
    (hm : m ∈ g.kingMoves ⟨.king, g.player⟩ p) :
    pseudo g.abs m.toSpec = true ∧ m.toSpec.src = (p.row, p.col) := by
  have hat : g.abs.at (p.row, p.col) = some ⟨.king, g.player⟩ := by rw [← g.get_eq_at p hp]; exact hg
  have hpk : g.kingPos g.player = p := hw.kings.unique p g.player hp hg
  rw [kingMoves_spec] at hm
  rcases hm with ⟨d, hd, hm⟩ | hm | hm
  · -- a step
    rw [mem_kingStep] at hm
    obtain ⟨q, hq, hno, _, rfl⟩ := hm
    obtain ⟨rfl, hb⟩ := (Pos.add_eq_some_iff _ _ _).1 hq
    have hv := (Pos.valid_iff_onBoard _).2 hb
    rw [mem_kingDeltas] at hd
    refine ⟨?_, rfl⟩
    rw [pseudo_king_iff g.abs _ _ hat rfl]
    refine ⟨hb, rfl, ?_, rfl, .inl ?_⟩
    · intro o ho
      simp only [Move.toSpec] at ho
      rw [← g.get_eq_at _ hv] at ho
      exact hno o ho
    · simp only [Move.toSpec]; omega
  · -- short castling
    rw [castleShort_iff] at hm
    obtain ⟨hc, rfl⟩ := hm
    obtain ⟨hk4, hkp⟩ := rights_king hw.rights hke (.inl hc.2.2.1)
    rw [hpk] at hkp
    rw [get_home g 4 (by omega) (by omega)] at hk4
    have hts : (Move.castlingShort g.player).toSpec
        = ⟨(Spec.homeRow g.abs.side, 4), (Spec.homeRow g.abs.side, 6), none⟩ := by
      simp only [Move.toSpec, homeRow_eq]; rfl
    rw [hts]
    refine ⟨?_, ?_⟩
    · rw [pseudo_king_iff g.abs _ _ hk4 rfl]
      refine ⟨?_, rfl, ?_, rfl, .inr (.inl hc)⟩
      · have := (Pos.valid_iff_onBoard _).1 (homeRow_valid g.player 6 (by omega) (by omega))
        rw [homeRow_eq] at this; exact this
      · intro o ho; rw [hc.2.2.2.2.1] at ho; cases ho
    · rw [hkp, homeRow_eq]; rfl
  · -- long castling
    rw [castleLong_iff] at hm
    obtain ⟨hc, rfl⟩ := hm
    obtain ⟨hk4, hkp⟩ := rights_king hw.rights hke (.inr hc.2.2.1)
    rw [hpk] at hkp
    rw [get_home g 4 (by omega) (by omega)] at hk4
    have hts : (Move.castlingLong g.player).toSpec
        = ⟨(Spec.homeRow g.abs.side, 4), (Spec.homeRow g.abs.side, 2), none⟩ := by
      simp only [Move.toSpec, homeRow_eq]; rfl
    rw [hts]
    refine ⟨?_, ?_⟩
    · rw [pseudo_king_iff g.abs _ _ hk4 rfl]
      refine ⟨?_, rfl, ?_, rfl, .inr (.inr hc)⟩
      · have := (Pos.valid_iff_onBoard _).1 (homeRow_valid g.player 2 (by omega) (by omega))
        rw [homeRow_eq] at this; exact this
      · intro o ho; rw [hc.2.2.2.2.1] at ho; cases ho
    · rw [hkp, homeRow_eq]; rfl

/-- a king step by the rules whose arrival square is within one step of the enemy king's cached
square: the one kind of pseudo-legal move the engine does not generate -/
def NearKingStep (g : Game) (u : UciMove) : Prop :=
  max (u.dst.1 - u.src.1).natAbs (u.dst.2 - u.src.2).natAbs = 1 ∧ g.NearEnemyKing ⟨u.dst.1, u.dst.2⟩

/-- **rules ⊆ generator ∪ {steps next to the enemy king}, kings** -/
theorem king_pseudo_to_gen (g : Game) {p : Pos} (hp : p.Valid)
    (hg : g.get p = some ⟨.king, g.player⟩) (u : UciMove)
    (hps : pseudo g.abs u = true) (hsrc : u.src = (p.row, p.col)) :
    (∃ m ∈ g.kingMoves ⟨.king, g.player⟩ p, m.toSpec = u) ∨ NearKingStep g u := by
  have hat : g.abs.at (p.row, p.col) = some ⟨.king, g.player⟩ := by rw [← g.get_eq_at p hp]; exact hg
  obtain ⟨us, ud, upr⟩ := u
  simp only at hsrc; subst hsrc
  obtain ⟨hb, _, hno, hpr, hgeo⟩ := (pseudo_king_iff g.abs _ _ hat rfl).1 hps
  simp only at hb hno hpr hgeo
  subst hpr
  rcases hgeo with hstep | hc | hc
  · by_cases hnear : g.NearEnemyKing ⟨ud.1, ud.2⟩
    · exact .inr ⟨hstep, hnear⟩
    · left
      have hv : (Pos.mk ud.1 ud.2).Valid := (Pos.valid_iff_onBoard _).2 hb
      refine ⟨.normal ⟨.king, g.player⟩ p ⟨ud.1, ud.2⟩ (g.get ⟨ud.1, ud.2⟩), ?_, rfl⟩
      rw [kingMoves_spec]
      refine .inl ⟨(ud.1 - p.row, ud.2 - p.col), (mem_kingDeltas _).2 hstep, ?_⟩
      rw [mem_kingStep]
      refine ⟨_, ?_, ?_, hnear, rfl⟩
      · rw [Pos.add_eq_some_iff]
        refine ⟨?_, hb⟩
        simp only [Pos.mk.injEq]; omega
      · intro o ho
        rw [g.get_eq_at _ hv] at ho
        exact hno o ho
  · left
    obtain ⟨h1, h2⟩ := hc.1, hc.2.1
    simp only at h1 h2
    refine ⟨.castlingShort g.player, ?_, ?_⟩
    · rw [kingMoves_spec]
      refine .inr (.inl ((castleShort_iff g _).2 ⟨?_, rfl⟩))
      rw [← h1, ← h2]; exact hc
    · simp only [Move.toSpec, homeRow_eq, h1, h2]; rfl
  · left
    obtain ⟨h1, h2⟩ := hc.1, hc.2.1
    simp only at h1 h2
    refine ⟨.castlingLong g.player, ?_, ?_⟩
    · rw [kingMoves_spec]
      refine .inr (.inr ((castleLong_iff g _).2 ⟨?_, rfl⟩))
      rw [← h1, ← h2]; exact hc
    · simp only [Move.toSpec, homeRow_eq, h1, h2]; rfl

/-! ## Assembly: the unchecked list against the rules' pseudo-legal moves -/

theorem pieceMoves_pawn (g : Game) {pc : Piece} (p : Pos) (h : pc.pieceType = .pawn) :
    g.pieceMoves pc p = g.pawnMoves pc p := by
  unfold pieceMoves; rw [h]

theorem pieceMoves_king (g : Game) {pc : Piece} (p : Pos) (h : pc.pieceType = .king) :
    g.pieceMoves pc p = g.kingMoves pc p := by
  unfold pieceMoves; rw [h]

/-- every move `Piece::get_moves` yields for an own piece on `p` is pseudo-legal by the rules and
starts on `p` -/
theorem pieceMoves_sound (g : Game) {pc : Piece} {p : Pos} (hw : g.WF)
    (hke : g.kingExists g.player = true) (hp : p.Valid) (hg : g.get p = some pc)
    (ho : pc.owner = g.player) {m : Move} (hm : m ∈ g.pieceMoves pc p) :
    pseudo g.abs m.toSpec = true ∧ m.toSpec.src = (p.row, p.col) := by
  by_cases hpawn : pc.pieceType = .pawn
  · rw [pieceMoves_pawn g p hpawn] at hm
    have hpc := piece_eq hpawn ho
    subst hpc
    exact pawn_gen_to_pseudo g hw hp hg m hm
  · by_cases hking : pc.pieceType = .king
    · rw [pieceMoves_king g p hking] at hm
      have hpc := piece_eq hking ho
      subst hpc
      exact king_gen_to_pseudo g hw hke hp hg m hm
    · exact (g.pieceMoves_pseudo_iff hp hg ho hpawn hking m.toSpec).2 ⟨m, hm, rfl⟩

/-- **C01, unchecked list ⊆ rules**: every move of the unchecked list is a pseudo-legal move of
the rules (right geometry, no capture of an own piece, promotion exactly on the last row, castling
with right, empty squares and unattacked king path) -/
theorem unchecked_subset_pseudo {g : Game} (hw : g.WF) {m : Move} (hm : m ∈ g.pseudoMoves) :
    pseudo g.abs m.toSpec = true := by
  obtain ⟨hke, p, pc, hp, hg, ho, hm⟩ := mem_pseudoMoves.1 hm
  exact (pieceMoves_sound g hw hke hp hg ho hm).1

theorem pseudo_src {a : APos} {u : UciMove} (h : pseudo a u = true) :
    ∃ pc, a.at u.src = some pc ∧ pc.owner = a.side := by
  unfold pseudo at h
  cases hs : a.at u.src with
  | none => rw [hs] at h; simp at h
  | some pc =>
    rw [hs] at h
    simp only [Bool.and_eq_true, decide_eq_true_eq] at h
    exact ⟨pc, rfl, h.2.1⟩

/-- **C01, rules ⊆ unchecked list, up to the documented filter**: every pseudo-legal move of the
rules is generated, except king steps onto a square within one step of the enemy king's cached
square -/
theorem pseudo_subset_unchecked {g : Game} (hw : g.WF) (hke : g.kingExists g.player = true)
    {u : UciMove} (hps : pseudo g.abs u = true) :
    (∃ m ∈ g.pseudoMoves, m.toSpec = u)
      ∨ (g.get ⟨u.src.1, u.src.2⟩ = some ⟨.king, g.player⟩ ∧ NearKingStep g u) := by
  obtain ⟨pc, hat, ho⟩ := pseudo_src hps
  have hb := APos.onBoard_of_at hat
  have hp : (Pos.mk u.src.1 u.src.2).Valid := (Pos.valid_iff_onBoard _).2 hb
  have hg : g.get ⟨u.src.1, u.src.2⟩ = some pc := by rw [g.get_eq_at _ hp]; exact hat
  have lift : (∃ m ∈ g.pieceMoves pc ⟨u.src.1, u.src.2⟩, m.toSpec = u) →
      ∃ m ∈ g.pseudoMoves, m.toSpec = u := by
    rintro ⟨m, hm, hts⟩
    exact ⟨m, mem_pseudoMoves.2 ⟨hke, _, pc, hp, hg, ho, hm⟩, hts⟩
  by_cases hpawn : pc.pieceType = .pawn
  · left; apply lift
    rw [pieceMoves_pawn g _ hpawn]
    exact (pawnMoves_pseudo_iff g hw hp hg ho hpawn u).1 ⟨hps, rfl⟩
  · by_cases hking : pc.pieceType = .king
    · have hpc := piece_eq hking ho
      subst hpc
      rcases king_pseudo_to_gen g hp hg u hps rfl with h | h
      · left; apply lift
        rw [pieceMoves_king g _ rfl]; exact h
      · exact .inr ⟨hg, h⟩
    · left; apply lift
      exact (g.pieceMoves_pseudo_iff hp hg ho hpawn hking u).1 ⟨hps, rfl⟩

end Game





/-! ## The one documented difference is harmless: a king step next to the enemy king is illegal -/

/-- reading a board vector the way `APos.at` does -/
def Spec.atB (b : Vector (Option Piece) 64) (s : Sq) : Option Piece :=
  if onBoard s then b.toArray.getD (s.1 * 8 + s.2).toNat none else none

theorem Spec.APos.at_eq (a : APos) (s : Sq) : a.at s = atB a.board s := rfl

theorem Spec.getD_set (b : Vector (Option Piece) 64) (i j : Nat) (v : Option Piece) :
    (b.setIfInBounds i v).toArray.getD j none
      = if i = j ∧ i < 64 then v else b.toArray.getD j none := by
  simp only [Vector.toArray_setIfInBounds, Array.getD_eq_getD_getElem?, Array.getElem?_setIfInBounds]
  by_cases h : i = j
  · subst h
    by_cases h2 : i < 64 <;> simp [h2]
  · simp [h]

theorem Spec.atB_setSq (b : Vector (Option Piece) 64) (s t : Sq) (v : Option Piece) :
    atB (setSq b s v) t = if s = t ∧ onBoard s = true then v else atB b t := by
  unfold atB setSq
  by_cases hs : onBoard s = true
  · by_cases ht : onBoard t = true
    · simp only [hs, ht, if_true, getD_set, and_true]
      have h1 := (Spec.onBoard_iff s).1 hs
      have h2 := (Spec.onBoard_iff t).1 ht
      have : ((s.1 * 8 + s.2).toNat = (t.1 * 8 + t.2).toNat ∧ (s.1 * 8 + s.2).toNat < 64) ↔ s = t := by
        obtain ⟨s1, s2⟩ := s
        obtain ⟨t1, t2⟩ := t
        simp only [Prod.mk.injEq] at *
        omega
      simp only [this]
    · have hne : s ≠ t := fun e => ht (e ▸ hs)
      simp [hs, ht, hne]
  · simp [hs]

/-- the board after a move of a king that is not a castling -/
theorem Spec.play_kingStep_at (a : APos) (u : UciMove) (pc : Piece) (hsrc : a.at u.src = some pc)
    (hk : pc.pieceType = .king) (hdc : (u.dst.2 - u.src.2).natAbs ≠ 2) (hpr : u.promo = none)
    (t : Sq) :
    (play a u).at t = if u.dst = t ∧ onBoard u.dst = true then some pc
      else if u.src = t ∧ onBoard u.src = true then none else a.at t := by
  have hb : (play a u).board = setSq (setSq a.board u.src none) u.dst (some pc) := by
    unfold play
    rw [hsrc]
    simp [hk, hdc, hpr]
  rw [APos.at_eq, hb, atB_setSq, atB_setSq]
  rfl

theorem Spec.kingSq_eq_of_unique (a : APos) (pl : Player) (s : Sq)
    (h1 : a.at s = some ⟨.king, pl⟩) (h2 : ∀ t, a.at t = some ⟨.king, pl⟩ → t = s) :
    kingSq a pl = some s := by
  unfold kingSq
  cases hf : allSqs.find? (fun s => a.at s = some ⟨.king, pl⟩) with
  | none =>
    rw [List.find?_eq_none] at hf
    have := hf s ((Spec.mem_allSqs _).2 (APos.onBoard_of_at h1))
    simp [h1] at this
  | some t =>
    have := List.find?_some hf
    simp only [decide_eq_true_eq] at this
    rw [h2 t this]

namespace Game

/-- **`adjacent_is_attacked`**: if the enemy king really stands on its cached square, a king step
onto a square within one step of it (other than that square itself) arrives on a square the enemy
king attacks in the position after the move -/
theorem adjacent_is_attacked (g : Game) {p : Pos} (hp : p.Valid)
    (hg : g.get p = some ⟨.king, g.player⟩) (u : UciMove) (hsrc : u.src = (p.row, p.col))
    (hpr : u.promo = none) (hnear : NearKingStep g u)
    (hekv : (g.kingPos g.player.other).Valid)
    (hek : g.get (g.kingPos g.player.other) = some ⟨.king, g.player.other⟩)
    (hne : u.dst ≠ ((g.kingPos g.player.other).row, (g.kingPos g.player.other).col)) :
    attacked (play g.abs u) u.dst g.player.other = true := by
  have hat : g.abs.at u.src = some ⟨.king, g.player⟩ := by
    rw [hsrc, ← g.get_eq_at p hp]; exact hg
  have hat2 := hek
  rw [g.get_eq_at _ hekv] at hat2
  obtain ⟨hstep, hn1, hn2⟩ := hnear
  simp only at hn1 hn2
  rw [Spec.attacked_iff]
  refine ⟨((g.kingPos g.player.other).row, (g.kingPos g.player.other).col),
    ⟨.king, g.player.other⟩, ?_, rfl, ?_⟩
  · rw [play_kingStep_at g.abs u _ hat rfl (by omega) hpr, if_neg (fun h => hne h.1), if_neg, hat2]
    rintro ⟨h, _⟩
    rw [h, hat2] at hat
    have := congrArg Piece.owner (Option.some.inj hat)
    exact Player.other_ne _ this
  · obtain ⟨us, ⟨d1, d2⟩, upr⟩ := u
    simp only [ne_eq, Prod.mk.injEq] at hne hn1 hn2 ⊢
    simp only [attacksFrom, decide_eq_true_eq]
    omega

/-- **the documented difference is harmless**: a pseudo-legal king step onto a square within one
step of the enemy king (standing on its cached square) is not legal — unless it captures that king,
which only happens when the side *not* to move is in check, i.e. in a position that is not sane -/
theorem near_king_step_illegal (g : Game) (hw : g.WF) {u : UciMove}
    (hg : g.get ⟨u.src.1, u.src.2⟩ = some ⟨.king, g.player⟩) (hps : pseudo g.abs u = true)
    (hnear : NearKingStep g u)
    (hek : g.get (g.kingPos g.player.other) = some ⟨.king, g.player.other⟩) :
    legal g.abs u = false ∨ inCheck g.abs g.player.other = true := by
  have hat : g.abs.at u.src = some ⟨.king, g.player⟩ := by
    obtain ⟨pc, h, _⟩ := pseudo_src hps
    have hv : (Pos.mk u.src.1 u.src.2).Valid := (Pos.valid_iff_onBoard _).2 (APos.onBoard_of_at h)
    rw [g.get_eq_at _ hv] at hg; exact hg
  have hp : (Pos.mk u.src.1 u.src.2).Valid := (Pos.valid_iff_onBoard _).2 (APos.onBoard_of_at hat)
  have hekv : (g.kingPos g.player.other).Valid := by
    cases g.player.other
    · exact hw.kings.wvalid
    · exact hw.kings.bvalid
  obtain ⟨hb, _, _, hpr, _⟩ := (pseudo_king_iff g.abs u _ hat rfl).1 hps
  by_cases hcap : u.dst = ((g.kingPos g.player.other).row, (g.kingPos g.player.other).col)
  · -- the step captures the enemy king: the side not to move was in check
    right
    unfold inCheck
    rw [g.kingSq_eq_kingPos _ hw.kings hek, Spec.attacked_iff]
    refine ⟨u.src, _, hat, by simp, ?_⟩
    rw [← hcap]
    simp only [attacksFrom, decide_eq_true_eq]
    exact hnear.1
  · left
    have hatt := adjacent_is_attacked g hp hg u rfl hpr hnear hekv hek hcap
    have hdc : (u.dst.2 - u.src.2).natAbs ≠ 2 := by have := hnear.1; omega
    have hks : kingSq (play g.abs u) g.player = some u.dst := by
      apply kingSq_eq_of_unique
      · rw [play_kingStep_at g.abs u _ hat rfl hdc hpr, if_pos ⟨rfl, hb⟩]
      · intro t ht
        rw [play_kingStep_at g.abs u _ hat rfl hdc hpr] at ht
        by_cases h1 : u.dst = t ∧ onBoard u.dst = true
        · exact h1.1.symm
        · rw [if_neg h1] at ht
          by_cases h2 : u.src = t ∧ onBoard u.src = true
          · rw [if_pos h2] at ht; cases ht
          · rw [if_neg h2] at ht
            exfalso
            have hbt := APos.onBoard_of_at ht
            have hvt : (Pos.mk t.1 t.2).Valid := (Pos.valid_iff_onBoard _).2 hbt
            have e1 := hw.kings.unique _ g.player hvt (by rw [g.get_eq_at _ hvt]; exact ht)
            have e2 := hw.kings.unique _ g.player hp hg
            rw [e1] at e2
            apply h2
            refine ⟨?_, APos.onBoard_of_at hat⟩
            have r := congrArg Pos.row e2
            have c := congrArg Pos.col e2
            exact Prod.ext r.symm c.symm
    unfold legal inCheck
    show (pseudo g.abs u && !(match kingSq (play g.abs u) g.player with
      | some k => attacked (play g.abs u) k g.player.other
      | none => false)) = false
    rw [hks]
    simp only [hatt, Bool.not_true, Bool.and_false]

end Game

/-! ## `toSpec` is injective on the generated list -/

/-- what the generators guarantee about the *kind* of a move beyond `Fits`: a `Normal` king move is
a step (so it is never a castling in disguise) and a `Normal` pawn move that changes column captures
something (so it is never an en-passant capture in disguise) -/
def Shape : Move → Prop
  | .normal pc s e cap =>
    (pc.pieceType = .king → (e.col - s.col).natAbs ≤ 1) ∧
    (pc.pieceType = .pawn → e.col ≠ s.col → cap ≠ none)
  | _ => True

namespace Game

theorem arrive_shape {g : Game} {pc : Piece} {p q : Pos} {cap : Option Piece} {lr : Int} {m : Move}
    (hty : pc.pieceType = .pawn) (h : PawnArrive g pc p q cap lr m)
    (hc : q.col ≠ p.col → cap ≠ none) : Shape m := by
  unfold PawnArrive at h
  split at h
  · obtain ⟨t, _, rfl⟩ := h; trivial
  · subst h
    exact ⟨fun e => (by rw [hty] at e; cases e), fun _ => hc⟩

theorem pawnMoves_shape {g : Game} {pc : Piece} {p : Pos} (hty : pc.pieceType = .pawn) {m : Move}
    (hm : m ∈ g.pawnMoves pc p) : Shape m := by
  rw [pawnMoves_spec] at hm
  rcases hm with ⟨_, _, _, rfl⟩ | ⟨q, hq, _, harr⟩ | ⟨d, _, q, o, _, _, _, harr⟩ | ⟨_, _, _, rfl⟩
  · exact ⟨fun e => (by rw [hty] at e; cases e), fun _ h => absurd (by simp) h⟩
  · obtain ⟨rfl, _⟩ := (Pos.add_eq_some_iff _ _ _).1 hq
    exact arrive_shape hty harr (fun h => absurd (by simp) h)
  · exact arrive_shape hty harr (fun _ => by simp)
  · trivial

theorem kingMoves_shape {g : Game} {pc : Piece} {p : Pos} (hty : pc.pieceType = .king) {m : Move}
    (hm : m ∈ g.kingMoves pc p) : Shape m := by
  rw [kingMoves_spec] at hm
  rcases hm with ⟨d, hd, hm⟩ | hm | hm
  · rw [mem_kingStep] at hm
    obtain ⟨q, hq, _, _, rfl⟩ := hm
    obtain ⟨rfl, _⟩ := (Pos.add_eq_some_iff _ _ _).1 hq
    rw [mem_kingDeltas] at hd
    exact ⟨fun _ => (by simp only; omega), fun e => (by rw [hty] at e; cases e)⟩
  · rw [mem_castleShort] at hm; obtain ⟨_, rfl⟩ := hm; trivial
  · rw [mem_castleLong] at hm; obtain ⟨_, rfl⟩ := hm; trivial

/-- knight, rook, bishop, queen: only `Normal` moves of the piece itself from its square -/
theorem pieceMoves_simple_normal (g : Game) {pc : Piece} {p : Pos} (hp : p.Valid)
    (hnp : pc.pieceType ≠ .pawn) (hnk : pc.pieceType ≠ .king) {m : Move}
    (hm : m ∈ g.pieceMoves pc p) : ∃ q, m = .normal pc p q (g.get q) := by
  unfold Game.pieceMoves at hm
  cases hty : pc.pieceType with
  | pawn => exact absurd hty hnp
  | king => exact absurd hty hnk
  | knight =>
    rw [hty] at hm
    obtain ⟨q, _, _, _, h⟩ := (g.knightMoves_spec pc p m).1 hm
    exact ⟨q, h⟩
  | rook =>
    rw [hty] at hm
    obtain ⟨d, _, k, _, _, _, _, h⟩ := (g.slideMoves_spec pc hp _
      (fun d hd => ((mem_rookRays d).1 hd).1) m).1 hm
    exact ⟨_, h⟩
  | bishop =>
    rw [hty] at hm
    obtain ⟨d, _, k, _, _, _, _, h⟩ := (g.slideMoves_spec pc hp _
      (fun d hd => ((mem_bishopRays d).1 hd).1) m).1 hm
    exact ⟨_, h⟩
  | queen =>
    rw [hty] at hm
    obtain ⟨d, _, k, _, _, _, _, h⟩ := (g.slideMoves_spec pc hp _
      (fun d hd => (mem_queenRays d).1 hd) m).1 hm
    exact ⟨_, h⟩

theorem pieceMoves_shape (g : Game) {pc : Piece} {p : Pos} (hp : p.Valid) {m : Move}
    (hm : m ∈ g.pieceMoves pc p) : Shape m := by
  by_cases hpawn : pc.pieceType = .pawn
  · rw [pieceMoves_pawn g p hpawn] at hm; exact pawnMoves_shape hpawn hm
  · by_cases hking : pc.pieceType = .king
    · rw [pieceMoves_king g p hking] at hm; exact kingMoves_shape hking hm
    · obtain ⟨q, rfl⟩ := pieceMoves_simple_normal g hp hpawn hking hm
      exact ⟨fun e => absurd e hking, fun e => absurd e hpawn⟩

theorem generated_shape {g : Game} {m : Move} (hm : m ∈ g.pseudoMoves) : Shape m := by
  obtain ⟨_, p, pc, hp, _, _, hm⟩ := mem_pseudoMoves.1 hm
  exact pieceMoves_shape g hp hm

theorem pos_eq_of {p q : Pos} (h1 : p.row = q.row) (h2 : p.col = q.col) : p = q := by
  cases p; cases q; simp only at h1 h2; subst h1; subst h2; rfl

theorem toSpec_castlingShort (o : Player) :
    (Move.castlingShort o).toSpec = ⟨(Game.homeRow o, 4), (Game.homeRow o, 6), none⟩ := rfl
theorem toSpec_castlingLong (o : Player) :
    (Move.castlingLong o).toSpec = ⟨(Game.homeRow o, 4), (Game.homeRow o, 2), none⟩ := rfl

/-- two moves that fit the same game, of the generated shapes, with the same text are equal -/
theorem toSpec_inj_of_fits (g : Game) (m₁ m₂ : Move) (f₁ : g.Fits m₁) (f₂ : g.Fits m₂)
    (s₁ : Shape m₁) (s₂ : Shape m₂) (h : m₁.toSpec = m₂.toSpec) : m₁ = m₂ := by
  have hr : ∀ o o' : Player, Game.homeRow o = Game.homeRow o' → o = o' := by
    intro o o'; cases o <;> cases o' <;> simp [Game.homeRow]
  have he : ∀ o o' : Player, epFromRow o = epFromRow o' → o = o' := by
    intro o o'; cases o <;> cases o' <;> simp [epFromRow]
  have hre : ∀ o o' : Player, Game.homeRow o ≠ epFromRow o' := by
    intro o o'; cases o <;> cases o' <;> simp [Game.homeRow, epFromRow]
  have heps : ∀ (o : Player) (sc ec : Int), epSquares o sc ec
      = (⟨epFromRow o, sc⟩, ⟨epFromRow o + forward o, ec⟩, ⟨epFromRow o, ec⟩) := by
    intro o sc ec; cases o <;> rfl
  -- a `Normal` move is never a castling or an en-passant capture in disguise
  have nc : ∀ (pc : Piece) (s e : Pos) (c : Option Piece) (o : Player) (k : Int),
      g.Fits (.normal pc s e c) → Shape (.normal pc s e c) →
      g.get ⟨Game.homeRow o, 4⟩ = some ⟨.king, o⟩ → (k = 6 ∨ k = 2) →
      (s.row = Game.homeRow o ∧ s.col = 4) → (e.row = Game.homeRow o ∧ e.col = k) → False := by
    intro pc s e c o k f sh hk hk' h1 h2
    have hs : s = ⟨Game.homeRow o, 4⟩ := pos_eq_of h1.1 h1.2
    obtain ⟨_, _, _, hg, _⟩ := f
    rw [hs, hk] at hg
    have := sh.1 (by rw [← Option.some.inj hg])
    omega
  have ne : ∀ (pc : Piece) (s e : Pos) (c : Option Piece) (o : Player) (sc ec : Int),
      g.Fits (.normal pc s e c) → Shape (.normal pc s e c) → g.Fits (.enPassant o sc ec) →
      (s.row = epFromRow o ∧ s.col = sc) → (e.row = epFromRow o + forward o ∧ e.col = ec) → False := by
    intro pc s e c o sc ec f sh f' h1 h2
    have hs : s = ⟨epFromRow o, sc⟩ := pos_eq_of h1.1 h1.2
    have hd : e = ⟨epFromRow o + forward o, ec⟩ := pos_eq_of h2.1 h2.2
    obtain ⟨_, _, _, hg, hc, _⟩ := f
    obtain ⟨_, _, _, _, hne, hg', hc', _⟩ := f'
    rw [heps] at hg' hc'
    simp only at hg' hc'
    rw [hs, hg'] at hg
    rw [hd, hc'] at hc
    refine sh.2 (by rw [← Option.some.inj hg]) ?_ hc.symm
    rw [h1.2, h2.2]; exact fun e => hne e.symm
  cases m₁ with
  | normal pc1 s1 e1 c1 =>
    cases m₂ with
    | normal pc2 s2 e2 c2 =>
      simp only [Move.toSpec, UciMove.mk.injEq, Prod.mk.injEq, and_true] at h
      have hs := pos_eq_of h.1.1 h.1.2
      have hd := pos_eq_of h.2.1 h.2.2
      subst hs; subst hd
      obtain ⟨_, _, _, a1, b1, _⟩ := f₁
      obtain ⟨_, _, _, a2, b2, _⟩ := f₂
      rw [a1] at a2; rw [b1] at b2
      cases a2; subst b2; rfl
    | promotion o2 t2 s2 e2 c2 => simp [Move.toSpec] at h
    | castlingShort o2 =>
      simp only [Move.toSpec, UciMove.mk.injEq, Prod.mk.injEq, and_true] at h
      exact (nc _ _ _ _ o2 6 f₁ s₁ f₂.2.2.1 (.inl rfl) h.1 h.2).elim
    | castlingLong o2 =>
      simp only [Move.toSpec, UciMove.mk.injEq, Prod.mk.injEq, and_true] at h
      exact (nc _ _ _ _ o2 2 f₁ s₁ f₂.2.2.1 (.inr rfl) h.1 h.2).elim
    | enPassant o2 sc2 ec2 =>
      rw [toSpec_enPassant] at h
      simp only [Move.toSpec, UciMove.mk.injEq, Prod.mk.injEq, and_true] at h
      exact (ne _ _ _ _ o2 sc2 ec2 f₁ s₁ f₂ h.1 h.2).elim
  | promotion o1 t1 s1 e1 c1 =>
    cases m₂ with
    | normal pc2 s2 e2 c2 => simp [Move.toSpec] at h
    | promotion o2 t2 s2 e2 c2 =>
      simp only [Move.toSpec, UciMove.mk.injEq, Prod.mk.injEq, Option.some.injEq] at h
      have hs := pos_eq_of h.1.1 h.1.2
      have hd := pos_eq_of h.2.1.1 h.2.1.2
      have ht := h.2.2
      subst hs; subst hd; subst ht
      obtain ⟨_, _, _, a1, b1⟩ := f₁
      obtain ⟨_, _, _, a2, b2⟩ := f₂
      rw [a1] at a2; rw [b1] at b2
      cases a2; subst b2; rfl
    | castlingShort o2 => simp [Move.toSpec] at h
    | castlingLong o2 => simp [Move.toSpec] at h
    | enPassant o2 sc2 ec2 => rw [toSpec_enPassant] at h; simp [Move.toSpec] at h
  | castlingShort o1 =>
    cases m₂ with
    | normal pc2 s2 e2 c2 =>
      simp only [Move.toSpec, UciMove.mk.injEq, Prod.mk.injEq, and_true] at h
      exact (nc _ _ _ _ o1 6 f₂ s₂ f₁.2.2.1 (.inl rfl) ⟨h.1.1.symm, h.1.2.symm⟩
        ⟨h.2.1.symm, h.2.2.symm⟩).elim
    | promotion o2 t2 s2 e2 c2 => simp [Move.toSpec] at h
    | castlingShort o2 =>
      simp only [toSpec_castlingShort, UciMove.mk.injEq, Prod.mk.injEq, and_true] at h
      rw [hr _ _ h.1]
    | castlingLong o2 =>
      simp [toSpec_castlingShort, toSpec_castlingLong] at h
    | enPassant o2 sc2 ec2 =>
      rw [toSpec_enPassant, toSpec_castlingShort] at h
      simp only [UciMove.mk.injEq, Prod.mk.injEq, and_true] at h
      exact (hre _ _ h.1.1).elim
  | castlingLong o1 =>
    cases m₂ with
    | normal pc2 s2 e2 c2 =>
      simp only [Move.toSpec, UciMove.mk.injEq, Prod.mk.injEq, and_true] at h
      exact (nc _ _ _ _ o1 2 f₂ s₂ f₁.2.2.1 (.inr rfl) ⟨h.1.1.symm, h.1.2.symm⟩
        ⟨h.2.1.symm, h.2.2.symm⟩).elim
    | promotion o2 t2 s2 e2 c2 => simp [Move.toSpec] at h
    | castlingShort o2 =>
      simp [toSpec_castlingShort, toSpec_castlingLong] at h
    | castlingLong o2 =>
      simp only [toSpec_castlingLong, UciMove.mk.injEq, Prod.mk.injEq, and_true] at h
      rw [hr _ _ h.1]
    | enPassant o2 sc2 ec2 =>
      rw [toSpec_enPassant, toSpec_castlingLong] at h
      simp only [UciMove.mk.injEq, Prod.mk.injEq, and_true] at h
      exact (hre _ _ h.1.1).elim
  | enPassant o1 sc1 ec1 =>
    rw [toSpec_enPassant] at h
    cases m₂ with
    | normal pc2 s2 e2 c2 =>
      simp only [Move.toSpec, UciMove.mk.injEq, Prod.mk.injEq, and_true] at h
      exact (ne _ _ _ _ o1 sc1 ec1 f₂ s₂ f₁ ⟨h.1.1.symm, h.1.2.symm⟩ ⟨h.2.1.symm, h.2.2.symm⟩).elim
    | promotion o2 t2 s2 e2 c2 => simp [Move.toSpec] at h
    | castlingShort o2 =>
      rw [toSpec_castlingShort] at h
      simp only [UciMove.mk.injEq, Prod.mk.injEq, and_true] at h
      exact (hre _ _ h.1.1.symm).elim
    | castlingLong o2 =>
      rw [toSpec_castlingLong] at h
      simp only [UciMove.mk.injEq, Prod.mk.injEq, and_true] at h
      exact (hre _ _ h.1.1.symm).elim
    | enPassant o2 sc2 ec2 =>
      rw [toSpec_enPassant] at h
      simp only [UciMove.mk.injEq, Prod.mk.injEq, and_true] at h
      have := he _ _ h.1.1
      subst this
      rw [h.1.2, h.2.2]

/-- **`toSpec` is injective on the generated list**: two generated moves of the same game with the
same text are the same move -/
theorem toSpec_injective_on_generated {g : Game} (hw : g.WF) {m₁ m₂ : Move}
    (h₁ : m₁ ∈ g.pseudoMoves) (h₂ : m₂ ∈ g.pseudoMoves) (h : m₁.toSpec = m₂.toSpec) : m₁ = m₂ :=
  toSpec_inj_of_fits g m₁ m₂ (generated_fits hw h₁).1 (generated_fits hw h₂).1
    (generated_shape h₁) (generated_shape h₂) h

end Game


/-! ## The rules' enumerated list `Spec.pseudoList` -/

theorem Spec.mem_candidates (u : UciMove) :
    u ∈ candidates ↔ onBoard u.src = true ∧ onBoard u.dst = true ∧
      (u.promo = none ∨ ∃ t, u.promo = some t ∧ isPromoPiece t = true) := by
  obtain ⟨s, d, pr⟩ := u
  unfold candidates
  simp only [List.mem_flatMap, Spec.mem_allSqs, List.mem_cons, UciMove.mk.injEq, List.not_mem_nil,
    or_false]
  constructor
  · rintro ⟨s', hs, d', hd, h⟩
    rcases h with ⟨rfl, rfl, rfl⟩ | ⟨rfl, rfl, rfl⟩ | ⟨rfl, rfl, rfl⟩ | ⟨rfl, rfl, rfl⟩ | ⟨rfl, rfl, rfl⟩
    · exact ⟨hs, hd, .inl rfl⟩
    all_goals exact ⟨hs, hd, .inr ⟨_, rfl, rfl⟩⟩
  · rintro ⟨hs, hd, h⟩
    refine ⟨s, hs, d, hd, ?_⟩
    rcases h with rfl | ⟨t, rfl, ht⟩
    · exact .inl ⟨rfl, rfl, rfl⟩
    · cases t <;> simp [isPromoPiece] at ht ⊢

theorem Spec.pseudo_promo {a : APos} {u : UciMove} (h : pseudo a u = true) :
    u.promo = none ∨ ∃ t, u.promo = some t ∧ isPromoPiece t = true := by
  obtain ⟨pc, hat, _⟩ := Game.pseudo_src h
  by_cases hp : pc.pieceType = .pawn
  · have := ((pseudo_pawn_iff a u pc hat hp).1 h).2.2.2.1
    unfold PromoOk_x at this
    split at this
    · exact .inr this
    · exact .inl this
  · by_cases hk : pc.pieceType = .king
    · exact .inl ((pseudo_king_iff a u pc hat hk).1 h).2.2.2.1
    · exact .inl ((pseudo_simple_iff a u pc hat hp hk).1 h).2.2.2.1

theorem Spec.pseudo_onBoard {a : APos} {u : UciMove} (h : pseudo a u = true) :
    onBoard u.src = true ∧ onBoard u.dst = true := by
  unfold pseudo at h
  simp only [Bool.and_eq_true] at h
  exact h.1

/-- the enumerated list of the rules holds exactly the pseudo-legal moves -/
theorem Spec.mem_pseudoList (a : APos) (u : UciMove) : u ∈ pseudoList a ↔ pseudo a u = true := by
  unfold pseudoList
  rw [List.mem_filter, Spec.mem_candidates]
  constructor
  · exact fun h => h.2
  · exact fun h => ⟨⟨(pseudo_onBoard h).1, (pseudo_onBoard h).2, pseudo_promo h⟩, h⟩

namespace Game

/-- **C01 for the unchecked list, in one statement**: a text-level move is in the rules' list of
pseudo-legal moves iff it is (the text of) a generated move, or it is a pseudo-legal king step onto
a square within one step of the enemy king's cached square -/
theorem mem_pseudoList_iff {g : Game} (hw : g.WF) (hke : g.kingExists g.player = true)
    (u : UciMove) :
    u ∈ pseudoList g.abs ↔
      (∃ m ∈ g.pseudoMoves, m.toSpec = u)
      ∨ (pseudo g.abs u = true ∧ g.get ⟨u.src.1, u.src.2⟩ = some ⟨.king, g.player⟩
          ∧ NearKingStep g u) := by
  rw [Spec.mem_pseudoList]
  constructor
  · intro h
    rcases pseudo_subset_unchecked hw hke h with h' | h'
    · exact .inl h'
    · exact .inr ⟨h, h'⟩
  · rintro (⟨m, hm, rfl⟩ | ⟨h, _⟩)
    · exact unchecked_subset_pseudo hw hm
    · exact h

end Game

namespace Game

/-- **L2 for kings, generator ⊆ rules** (the name asked for): every generated king move, castling
included, is pseudo-legal by the rules -/
theorem kingMoves_pseudo_partial (g : Game) {pc : Piece} {p : Pos} (hw : g.WF)
    (hke : g.kingExists g.player = true) (hp : p.Valid) (hg : g.get p = some pc)
    (hown : pc.owner = g.player) (hty : pc.pieceType = .king) {m : Move}
    (hm : m ∈ g.kingMoves pc p) : pseudo g.abs m.toSpec = true := by
  have hpc := piece_eq hty hown
  subst hpc
  exact (king_gen_to_pseudo g hw hke hp hg m hm).1

/-- **L2 for kings, the exact converse**: a pseudo-legal move of the king on `p` is generated,
unless it is a step onto a square within one step of the enemy king's cached square -/
theorem kingMoves_pseudo_converse (g : Game) {pc : Piece} {p : Pos} (hp : p.Valid)
    (hg : g.get p = some pc) (hown : pc.owner = g.player) (hty : pc.pieceType = .king)
    (u : UciMove) (h : pseudo g.abs u = true ∧ u.src = (p.row, p.col)) :
    (∃ m ∈ g.kingMoves pc p, m.toSpec = u) ∨ NearKingStep g u := by
  have hpc := piece_eq hty hown
  subst hpc
  exact king_pseudo_to_gen g hp hg u h.1 h.2

end Game

/-! # The generated list has no duplicates (the "none repeated" part of C01) -/

/-! ## List helpers -/

theorem nodup_single {α : Type} (a : α) : [a].Nodup := List.pairwise_singleton _ a

theorem nodup_ite_single {α : Type} (c : Prop) [Decidable c] (a : α) :
    (if c then [a] else []).Nodup := by
  split
  · exact nodup_single a
  · exact List.nodup_nil

theorem nodup_map_inj {α β : Type} {l : List α} (f : α → β) (hf : ∀ a b, f a = f b → a = b)
    (hl : l.Nodup) : (l.map f).Nodup :=
  List.Pairwise.map f (fun a b hab e => hab (hf a b e)) hl

/-- a `flatMap` has no duplicates if the index list has none, each block has none, and a key
computed from an element determines its block -/
theorem nodup_flatMap_key {α β κ : Type} (l : List α) (f : α → List β) (key : β → κ) (k : α → κ)
    (hl : l.Nodup) (hf : ∀ x ∈ l, (f x).Nodup) (hk : ∀ x ∈ l, ∀ y ∈ f x, key y = k x)
    (hinj : ∀ x ∈ l, ∀ x' ∈ l, k x = k x' → x = x') : (l.flatMap f).Nodup := by
  unfold List.Nodup
  rw [List.pairwise_flatMap]
  refine ⟨hf, ?_⟩
  refine List.Pairwise.imp_of_mem ?_ hl
  intro a b ha hb hab x hx y hy e
  apply hab
  apply hinj a ha b hb
  rw [← hk a ha x hx, ← hk b hb y hy, e]

theorem nodup_append' {α : Type} {l₁ l₂ : List α} (h1 : l₁.Nodup) (h2 : l₂.Nodup)
    (h : ∀ a ∈ l₁, ∀ b ∈ l₂, a ≠ b) : (l₁ ++ l₂).Nodup :=
  List.nodup_append.2 ⟨h1, h2, h⟩

theorem ite_nil_cases {α : Type} (b : Bool) (l : List α) :
    (if b = true then [] else l) = [] ∨ (if b = true then [] else l) = l := by
  cases b
  · exact .inr rfl
  · exact .inl rfl

namespace Game

/-! ## Knights -/

def knightStep (g : Game) (pc : Piece) (p : Pos) (d : Int × Int) : List Move :=
  match p.add d with
  | none => []
  | some q =>
    let place := g.get q
    let own : Bool := match place with
      | some o => o.owner = g.player
      | none => false
    if own then [] else [Move.normal pc p q place]

theorem knightMoves_eq (g : Game) (pc : Piece) (p : Pos) :
    g.knightMoves pc p = Gen.knightDeltas.flatMap (knightStep g pc p) := rfl

theorem knightStep_cases (g : Game) (pc : Piece) (p : Pos) (d : Int × Int) :
    knightStep g pc p d = [] ∨
      knightStep g pc p d = [.normal pc p ⟨p.row + d.1, p.col + d.2⟩ (g.get ⟨p.row + d.1, p.col + d.2⟩)] := by
  unfold knightStep
  cases hq : p.add d with
  | none => exact .inl rfl
  | some q =>
    obtain ⟨rfl, _⟩ := (Pos.add_eq_some_iff _ _ _).1 hq
    exact ite_nil_cases _ _

theorem delta_inj (p : Pos) (d d' : Int × Int)
    (h : ((p.row + d.1, p.col + d.2) : Sq) = (p.row + d'.1, p.col + d'.2)) : d = d' := by
  obtain ⟨a, b⟩ := d
  obtain ⟨a', b'⟩ := d'
  simp only [Prod.mk.injEq] at h ⊢
  omega

theorem knightMoves_nodup (g : Game) (pc : Piece) (p : Pos) : (g.knightMoves pc p).Nodup := by
  rw [knightMoves_eq]
  refine nodup_flatMap_key _ _ (fun m => m.toSpec.dst) (fun d => (p.row + d.1, p.col + d.2))
    (by decide) ?_ ?_ (fun d _ d' _ h => delta_inj p d d' h)
  · intro d _
    rcases knightStep_cases g pc p d with h | h <;> rw [h]
    · exact List.nodup_nil
    · exact nodup_single _
  · intro d _ m hm
    rcases knightStep_cases g pc p d with h | h <;> rw [h] at hm
    · cases hm
    · simp only [List.mem_singleton] at hm; subst hm; rfl

/-! ## Kings -/

theorem kingStep_cases (g : Game) (pc : Piece) (p : Pos) (d : Int × Int) :
    kingStep g pc p d = [] ∨
      kingStep g pc p d = [.normal pc p ⟨p.row + d.1, p.col + d.2⟩ (g.get ⟨p.row + d.1, p.col + d.2⟩)] := by
  unfold kingStep
  cases hq : p.add d with
  | none => exact .inl rfl
  | some q =>
    obtain ⟨rfl, _⟩ := (Pos.add_eq_some_iff _ _ _).1 hq
    simp only
    rcases ite_nil_cases _ _ with h | h <;> rw [h]
    · exact .inl rfl
    · exact ite_nil_cases _ _

theorem kingSteps_nodup (g : Game) (pc : Piece) (p : Pos) :
    (Gen.kingDeltas.flatMap (kingStep g pc p)).Nodup := by
  refine nodup_flatMap_key _ _ (fun m => m.toSpec.dst) (fun d => (p.row + d.1, p.col + d.2))
    (by decide) ?_ ?_ (fun d _ d' _ h => delta_inj p d d' h)
  · intro d _
    rcases kingStep_cases g pc p d with h | h <;> rw [h]
    · exact List.nodup_nil
    · exact nodup_single _
  · intro d _ m hm
    rcases kingStep_cases g pc p d with h | h <;> rw [h] at hm
    · cases hm
    · simp only [List.mem_singleton] at hm; subst hm; rfl

theorem kingMoves_nodup (g : Game) (pc : Piece) (p : Pos) : (g.kingMoves pc p).Nodup := by
  rw [kingMoves_eq]
  refine nodup_append' (nodup_append' (kingSteps_nodup g pc p) ?_ ?_) ?_ ?_
  · unfold castleShort; exact nodup_ite_single _ _
  · intro a ha b hb
    simp only [List.mem_flatMap] at ha
    obtain ⟨d, _, ha⟩ := ha
    obtain ⟨q, _, _, _, rfl⟩ := (mem_kingStep ..).1 ha
    obtain ⟨_, rfl⟩ := (mem_castleShort ..).1 hb
    exact fun e => by cases e
  · unfold castleLong; exact nodup_ite_single _ _
  · intro a ha b hb
    obtain ⟨_, rfl⟩ := (mem_castleLong ..).1 hb
    rcases List.mem_append.1 ha with ha | ha
    · simp only [List.mem_flatMap] at ha
      obtain ⟨d, _, ha⟩ := ha
      obtain ⟨q, _, _, _, rfl⟩ := (mem_kingStep ..).1 ha
      exact fun e => by cases e
    · obtain ⟨_, rfl⟩ := (mem_castleShort ..).1 ha
      exact fun e => by cases e

/-! ## Pawns -/

theorem arrive_dst {g : Game} {pc : Piece} {p q : Pos} {cap : Option Piece} {lr : Int} {m : Move}
    (h : PawnArrive g pc p q cap lr m) : m.toSpec.dst = (q.row, q.col) := by
  obtain ⟨upr, hts, _⟩ := arrive_spec h
  rw [hts]

theorem arrive_not_ep {g : Game} {pc : Piece} {p q : Pos} {cap : Option Piece} {lr : Int} {m : Move}
    (h : PawnArrive g pc p q cap lr m) (o : Player) (a b : Int) : m ≠ .enPassant o a b := by
  unfold PawnArrive at h
  split at h
  · obtain ⟨t, _, rfl⟩ := h; exact fun e => by cases e
  · subst h; exact fun e => by cases e

theorem promo_map_nodup (pl : Player) (p q : Pos) (cap : Option Piece) :
    (promoPieces.map (fun t => Move.promotion pl t p q cap)).Nodup :=
  nodup_map_inj _ (fun a b e => by cases e; rfl) (by decide)

theorem arrive_list_nodup (g : Game) (pc : Piece) (p q : Pos) (cap : Option Piece) (lr : Int) :
    (if lr = q.row then promoPieces.map (fun t => Move.promotion g.player t p q cap)
      else [Move.normal pc p q cap]).Nodup := by
  split
  · exact promo_map_nodup ..
  · exact nodup_single _

theorem pawnFwd_nodup (g : Game) (pc : Piece) (p : Pos) (lr : Int) (nd : Int × Int) :
    (pawnFwd g pc p lr nd).Nodup := by
  unfold pawnFwd
  cases p.add nd with
  | none => exact List.nodup_nil
  | some q =>
    simp only
    split
    · exact arrive_list_nodup ..
    · exact List.nodup_nil

theorem pawnCap_nodup (g : Game) (pc : Piece) (p : Pos) (lr : Int) (d : Int × Int) :
    (pawnCap g pc p lr d).Nodup := by
  unfold pawnCap
  cases p.add d with
  | none => exact List.nodup_nil
  | some q =>
    simp only
    cases g.get q with
    | none => exact List.nodup_nil
    | some o =>
      simp only
      split
      · exact arrive_list_nodup ..
      · exact List.nodup_nil

theorem pawnCap_dst {g : Game} {pc : Piece} {p : Pos} {lr : Int} {d : Int × Int} {m : Move}
    (h : m ∈ pawnCap g pc p lr d) : m.toSpec.dst = (p.row + d.1, p.col + d.2) := by
  obtain ⟨q, o, hq, _, _, harr⟩ := (mem_pawnCap ..).1 h
  obtain ⟨rfl, _⟩ := (Pos.add_eq_some_iff _ _ _).1 hq
  exact arrive_dst harr

theorem pawnFwd_dst {g : Game} {pc : Piece} {p : Pos} {lr : Int} {nd : Int × Int} {m : Move}
    (h : m ∈ pawnFwd g pc p lr nd) : m.toSpec.dst = (p.row + nd.1, p.col + nd.2) := by
  obtain ⟨q, hq, _, harr⟩ := (mem_pawnFwd ..).1 h
  obtain ⟨rfl, _⟩ := (Pos.add_eq_some_iff _ _ _).1 hq
  exact arrive_dst harr

theorem pawnDbl_dst {g : Game} {pc : Piece} {p : Pos} {fr : Int} {nd fd : Int × Int} {m : Move}
    (h : m ∈ pawnDbl g pc p fr nd fd) : m.toSpec.dst = (p.row + fd.1, p.col + fd.2) := by
  obtain ⟨_, _, _, rfl⟩ := (mem_pawnDbl ..).1 h
  rfl

theorem pawnMoves_nodup (g : Game) (pc : Piece) (p : Pos) : (g.pawnMoves pc p).Nodup := by
  rw [pawnMoves_eq]
  have hfw : forward pc.owner = 1 ∨ forward pc.owner = -1 := by
    rcases side_consts pc.owner with h | h
    · exact .inl h.1
    · exact .inr h.1
  refine nodup_append' (nodup_append' (nodup_append' ?_ (pawnFwd_nodup ..) ?_) ?_ ?_) ?_ ?_
  · unfold pawnDbl; exact nodup_ite_single _ _
  · -- double step vs single step: the arrival rows differ
    intro a ha b hb e
    have h1 := pawnDbl_dst ha
    have h2 := pawnFwd_dst hb
    rw [e, h2] at h1
    simp only [Prod.mk.injEq] at h1
    omega
  · -- the two capture directions
    refine nodup_flatMap_key _ _ (fun m => m.toSpec.dst) (fun d => (p.row + d.1, p.col + d.2))
      ?_ (fun d _ => pawnCap_nodup ..) (fun d _ m hm => pawnCap_dst hm)
      (fun d _ d' _ h => delta_inj p d d' h)
    refine List.nodup_cons.2 ⟨?_, nodup_single _⟩
    simp only [List.mem_singleton, Prod.mk.injEq]
    omega
  · -- straight moves vs captures: the arrival columns differ
    intro a ha b hb e
    simp only [List.mem_flatMap] at hb
    obtain ⟨d, hd, hb⟩ := hb
    have h2 := pawnCap_dst hb
    have hd2 : d.2 = 1 ∨ d.2 = -1 := by
      simp only [List.mem_cons, List.not_mem_nil, or_false] at hd
      rcases hd with rfl | rfl
      · exact .inl rfl
      · exact .inr rfl
    rcases List.mem_append.1 ha with ha | ha
    · have h1 := pawnDbl_dst ha
      rw [e, h2] at h1
      simp only [Prod.mk.injEq] at h1
      omega
    · have h1 := pawnFwd_dst ha
      rw [e, h2] at h1
      simp only [Prod.mk.injEq] at h1
      omega
  · unfold pawnEp; exact nodup_ite_single _ _
  · -- en passant is its own kind of move
    intro a ha b hb
    obtain ⟨_, _, _, rfl⟩ := (mem_pawnEp ..).1 hb
    rcases List.mem_append.1 ha with ha | ha
    · rcases List.mem_append.1 ha with ha | ha
      · obtain ⟨_, _, _, rfl⟩ := (mem_pawnDbl ..).1 ha
        exact fun e => by cases e
      · obtain ⟨q, _, _, harr⟩ := (mem_pawnFwd ..).1 ha
        exact arrive_not_ep harr _ _ _
    · simp only [List.mem_flatMap] at ha
      obtain ⟨d, _, ha⟩ := ha
      obtain ⟨q, o, _, _, _, harr⟩ := (mem_pawnCap ..).1 ha
      exact arrive_not_ep harr _ _ _

/-! ## Sliding pieces -/

theorem unit_mul_ne {d : Int × Int} (hd : UnitDir d) {k : Nat} (hk : 1 ≤ k) :
    ¬ ((k : Int) * d.1 = 0 ∧ (k : Int) * d.2 = 0) := by
  obtain ⟨a, b⟩ := d
  obtain ⟨ha, hb, hne⟩ := hd
  simp only at ha hb hne ⊢
  rcases ha with rfl | rfl | rfl <;> rcases hb with rfl | rfl | rfl <;> omega

theorem sgn_unit (r : Int) {k : Nat} (hk : 1 ≤ k) {x : Int} (hx : x = -1 ∨ x = 0 ∨ x = 1) :
    sgn (r + k * x - r) = x := by
  rcases hx with rfl | rfl | rfl
  · rw [sgn_neg (by omega)]
  · rw [show r + (k : Int) * 0 - r = 0 by omega, sgn_zero]
  · rw [sgn_pos (by omega)]

theorem rayMoves_nodup (g : Game) (pc : Piece) (start : Pos) {d : Int × Int} (hd : UnitDir d) :
    ∀ (n : Nat) (cur : Pos), (g.rayMoves pc start cur d n).Nodup := by
  intro n
  induction n with
  | zero => intro cur; exact List.nodup_nil
  | succ n ih =>
    intro cur
    unfold rayMoves
    cases hq : cur.add d with
    | none => exact List.nodup_nil
    | some q =>
      simp only
      cases hg : g.get q with
      | some o =>
        simp only
        split
        · exact nodup_single _
        · exact List.nodup_nil
      | none =>
        simp only
        refine List.nodup_cons.2 ⟨?_, ih q⟩
        intro hmem
        obtain ⟨k, hk, _, _, _, _, e⟩ := (g.rayMoves_iff pc start d n q _).1 hmem
        simp only [Move.normal.injEq, true_and] at e
        have e1 := congrArg Pos.row e.1
        have e2 := congrArg Pos.col e.1
        simp only at e1 e2
        exact unit_mul_ne hd hk ⟨by omega, by omega⟩

theorem rayMoves_dir (g : Game) (pc : Piece) (p : Pos) {d : Int × Int} (hd : UnitDir d) (n : Nat)
    {m : Move} (hm : m ∈ g.rayMoves pc p p d n) :
    (sgn (m.toSpec.dst.1 - p.row), sgn (m.toSpec.dst.2 - p.col)) = d := by
  obtain ⟨k, hk, _, _, _, _, rfl⟩ := (g.rayMoves_iff pc p d n p m).1 hm
  obtain ⟨a, b⟩ := d
  simp only [Move.toSpec, Prod.mk.injEq]
  exact ⟨sgn_unit p.row hk hd.1, sgn_unit p.col hk hd.2.1⟩

theorem slideMoves_nodup (g : Game) (pc : Piece) (p : Pos) (rays : List (Int × Int))
    (hr : ∀ d ∈ rays, UnitDir d) (hn : rays.Nodup) : (g.slideMoves pc p rays).Nodup := by
  unfold slideMoves
  exact nodup_flatMap_key _ _
    (fun m => (sgn (m.toSpec.dst.1 - p.row), sgn (m.toSpec.dst.2 - p.col))) id hn
    (fun d hd => rayMoves_nodup g pc p (hr d hd) 7 p)
    (fun d hd m hm => rayMoves_dir g pc p (hr d hd) 7 hm)
    (fun _ _ _ _ h => h)

/-! ## All pieces, all squares -/

theorem pieceMoves_nodup (g : Game) (pc : Piece) (p : Pos) : (g.pieceMoves pc p).Nodup := by
  unfold pieceMoves
  split
  · exact pawnMoves_nodup ..
  · exact kingMoves_nodup ..
  · exact knightMoves_nodup ..
  · exact slideMoves_nodup g pc p _ (fun d hd => ((mem_rookRays d).1 hd).1) (by decide)
  · exact slideMoves_nodup g pc p _ (fun d hd => ((mem_bishopRays d).1 hd).1) (by decide)
  · exact slideMoves_nodup g pc p _ (fun d hd => (mem_queenRays d).1 hd) (by decide)

theorem allSquares_nodup : allSquares.Nodup := by
  unfold allSquares
  refine nodup_map_inj _ ?_ List.nodup_range
  intro a b e
  unfold Pos.ofIdx at e
  simp only [Pos.mk.injEq] at e
  omega

/-- **C01, "none repeated"**: the unchecked list has no duplicates -/
theorem pseudoMoves_nodup {g : Game} (hw : g.WF) : g.pseudoMoves.Nodup := by
  unfold pseudoMoves
  cases hke : g.kingExists g.player
  · exact List.nodup_nil
  · simp only [Bool.not_true, Bool.false_eq_true, if_false]
    refine nodup_flatMap_key _ _ (fun m => m.toSpec.src) (fun p => (p.row, p.col))
      allSquares_nodup ?_ ?_ ?_
    · intro p _
      split
      · split
        · exact pieceMoves_nodup ..
        · exact List.nodup_nil
      · exact List.nodup_nil
    · intro p hp m hm
      split at hm
      · rename_i pc hg
        split at hm
        · rename_i ho
          exact (pieceMoves_sound g hw hke (allSquares_valid hp) hg ho hm).2
        · cases hm
      · cases hm
    · intro p _ q _ h
      simp only [Prod.mk.injEq] at h
      exact pos_eq_of h.1 h.2

/-- the text-level image of the unchecked list has no duplicates either -/
theorem pseudoMoves_toSpec_nodup {g : Game} (hw : g.WF) : (g.pseudoMoves.map Move.toSpec).Nodup := by
  have h := pseudoMoves_nodup hw
  unfold List.Nodup at h ⊢
  rw [List.pairwise_map]
  refine List.Pairwise.imp_of_mem ?_ h
  intro a b ha hb hab e
  exact hab (toSpec_injective_on_generated hw ha hb e)

end Game




end Chess

#print axioms Chess.Game.pawnMoves_pseudo_iff
#print axioms Chess.Game.king_gen_to_pseudo
#print axioms Chess.Game.king_pseudo_to_gen
#print axioms Chess.Game.unchecked_subset_pseudo
#print axioms Chess.Game.pseudo_subset_unchecked
#print axioms Chess.Game.adjacent_is_attacked
#print axioms Chess.Game.near_king_step_illegal
#print axioms Chess.Game.toSpec_injective_on_generated
#print axioms Chess.Spec.mem_pseudoList
#print axioms Chess.Game.mem_pseudoList_iff
#print axioms Chess.Game.kingMoves_pseudo_partial
#print axioms Chess.Game.kingMoves_pseudo_converse
#print axioms Chess.Game.knightMoves_nodup
#print axioms Chess.Game.kingMoves_nodup
#print axioms Chess.Game.pawnMoves_nodup
#print axioms Chess.Game.slideMoves_nodup
#print axioms Chess.Game.pseudoMoves_nodup
#print axioms Chess.Game.pseudoMoves_toSpec_nodup
