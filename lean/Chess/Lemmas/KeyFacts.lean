import Chess.Gen.Zobrist

/-!
# Kernel-decided facts about the generated Zobrist keys (C05)

Every theorem here is re-decided by the kernel on `Chess/Gen/Zobrist.lean`, which is generated from
the engine's key file: a regenerated file with a collision makes this file fail to compile.
-/
namespace Chess

/-- Boolean checker: no two entries of the list are equal -/
def pairwiseDistinct : List UInt64 → Bool
  | [] => true
  | x :: xs => xs.all (fun y => y != x) && pairwiseDistinct xs

theorem pairwiseDistinct_inj {l : List UInt64} (h : pairwiseDistinct l = true)
    {i j : Nat} (hi : i < l.length) (hj : j < l.length) (e : l[i] = l[j]) : i = j := by
  induction l generalizing i j with
  | nil => simp at hi
  | cons x xs ih =>
    simp only [pairwiseDistinct, Bool.and_eq_true, List.all_eq_true, bne_iff_ne] at h
    cases i with
    | zero =>
      cases j with
      | zero => rfl
      | succ j =>
        simp only [List.getElem_cons_zero, List.getElem_cons_succ] at e
        exact absurd e.symm (h.1 _ (List.getElem_mem _))
    | succ i =>
      cases j with
      | zero =>
        simp only [List.getElem_cons_zero, List.getElem_cons_succ] at e
        exact absurd e (h.1 _ (List.getElem_mem _))
      | succ j =>
        simp only [List.getElem_cons_succ] at e
        rw [ih h.2 (by simpa using hi) (by simpa using hj) e]

/-- the 13 keys that can be XOR-ed in for square `i`: empty, then the 12 pieces -/
def squareKeys (i : Nat) : List UInt64 :=
  Gen.emptyPlace :: (List.range 12).map (fun k => Gen.pieceKeys.getD (i * 12 + k) 0)

theorem stateKeys_size : Gen.stateKeys.size = 256 := by decide +kernel
theorem pieceKeys_size : Gen.pieceKeys.size = 768 := by decide +kernel

set_option maxRecDepth 100000 in
/-- the 256 state keys are pairwise distinct -/
theorem state_keys_distinct : pairwiseDistinct Gen.stateKeys.toList = true := by decide +kernel

set_option maxRecDepth 100000 in
/-- on each of the 64 squares, the empty key and the 12 piece keys are pairwise distinct -/
theorem square_keys_distinct :
    (List.range 64).all (fun i => pairwiseDistinct (squareKeys i)) = true := by decide +kernel

theorem side_key_nonzero : Gen.blackToMove ≠ 0 := by decide +kernel

end Chess
