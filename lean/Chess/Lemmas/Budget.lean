import Chess.Model.Uci

/-!
# C13 — "thinking time never exceeds the time available"

Facts about `Chess.Uci.budget`, the model of the arithmetic of `command_go`

    ((w as f64 * 0.02) as u64).saturating_add(inc).saturating_sub(150).min(w.saturating_sub(150))

followed by the `movetime` override, the `saturating_sub(5)` of the sleeping thread and the
suppression of the timer by `infinite`.  `share w` stands for the float expression.

Everything is proved for *all* naturals, hence in particular for all `u64` values; part 4 shows
that for `u64` inputs every intermediate value is a `u64` again, so the `Nat` of the model is the
machine value (the only subtractions are saturating, mirrored by truncated subtraction of `Nat`).
-/
namespace Chess.Uci

/-- what the proofs need of the float expression: it never exceeds its argument, and is monotone -/
def ShareOK (share : Nat → Nat) : Prop :=
  (∀ w, share w ≤ w) ∧ (∀ a b, a ≤ b → share a ≤ share b)

/-- the mover's own remaining clock -/
def ownClock (side : Player) (wt bt : Nat) : Nat :=
  match side with
  | .white => wt
  | .black => bt

/-- the mover's own increment -/
def ownInc (side : Player) (wi bi : Nat) : Nat :=
  match side with
  | .white => wi
  | .black => bi

theorem shareOK_div50 : ShareOK (· / 50) :=
  ⟨fun w => Nat.div_le_self w 50, fun _ _ h => Nat.div_le_div_right h⟩

/-! ## closed form -/

/-- The allotment with all four clock parameters present and no `movetime`, in closed form:
only the mover's own clock and increment matter. -/
theorem budget_clock_eq (wt bt wi bi : Nat) (infinite : Bool) (side : Player) (share : Nat → Nat) :
    budget (some wt) (some bt) (some wi) (some bi) none infinite side share =
      if infinite then none else
        some (min (satAdd (share (ownClock side wt bt)) (ownInc side wi bi) - Gen.latencyMs)
                  (ownClock side wt bt - Gen.latencyMs) - Gen.sleepCutMs) := by
  cases side <;> cases infinite <;> simp [budget, ownClock, ownInc]

/-- With `movetime` the clocks are irrelevant. -/
theorem budget_movetime_eq (wtime btime winc binc : Option Nat) (mt : Nat) (infinite : Bool)
    (side : Player) (share : Nat → Nat) :
    budget wtime btime winc binc (some mt) infinite side share =
      if infinite then none else some (mt - Gen.sleepCutMs) := by
  cases infinite <;> simp [budget]

/-! ## 1. the allotment never exceeds the mover's clock -/

/-- Strongest form: the allotment is at most the own clock minus latency allowance and sleep
cut, with truncated subtraction.  `ShareOK` is not needed: the `min` alone enforces it. -/
theorem budget_le_clock_sub {wt bt wi bi t : Nat} {infinite : Bool} {side : Player}
    {share : Nat → Nat}
    (h : budget (some wt) (some bt) (some wi) (some bi) none infinite side share = some t) :
    t ≤ ownClock side wt bt - Gen.latencyMs - Gen.sleepCutMs := by
  rw [budget_clock_eq] at h
  cases infinite
  · simp only [Bool.false_eq_true, if_false, Option.some.injEq] at h
    omega
  · simp at h

/-- a positive allotment leaves room for the latency allowance and the sleep cut -/
theorem budget_pos_room {wt bt wi bi t : Nat} {infinite : Bool} {side : Player}
    {share : Nat → Nat}
    (h : budget (some wt) (some bt) (some wi) (some bi) none infinite side share = some t)
    (ht : 0 < t) :
    t + Gen.sleepCutMs + Gen.latencyMs ≤ ownClock side wt bt := by
  have := budget_le_clock_sub h
  omega

/-- C13: the allotment never exceeds the mover's own remaining clock. -/
theorem budget_le_clock {wt bt wi bi t : Nat} {infinite : Bool} {side : Player}
    {share : Nat → Nat}
    (h : budget (some wt) (some bt) (some wi) (some bi) none infinite side share = some t) :
    t ≤ ownClock side wt bt := by
  have := budget_le_clock_sub h
  omega

/-- the same in the form asked for: `wtime` if White is to move, `btime` if Black -/
theorem budget_le_clock' {wt bt wi bi t : Nat} {infinite : Bool} {side : Player}
    {share : Nat → Nat}
    (h : budget (some wt) (some bt) (some wi) (some bi) none infinite side share = some t) :
    (side = .white → t ≤ wt ∧ (0 < t → t + Gen.sleepCutMs + Gen.latencyMs ≤ wt)) ∧
    (side = .black → t ≤ bt ∧ (0 < t → t + Gen.sleepCutMs + Gen.latencyMs ≤ bt)) := by
  refine ⟨fun hs => ?_, fun hs => ?_⟩ <;> subst hs
  · exact ⟨budget_le_clock h, budget_pos_room h⟩
  · exact ⟨budget_le_clock h, budget_pos_room h⟩

/-- Whatever timer is armed when the clock parameters are complete and no `movetime` is given,
it is armed for at most the own clock: the statement over *all* option patterns. -/
theorem budget_le_clock_of_complete {wtime btime winc binc : Option Nat} {wt bt t : Nat}
    {infinite : Bool} {side : Player} {share : Nat → Nat}
    (hw : wtime = some wt) (hb : btime = some bt) (hwi : winc.isSome) (hbi : binc.isSome)
    (h : budget wtime btime winc binc none infinite side share = some t) :
    t ≤ ownClock side wt bt := by
  subst hw hb
  cases winc <;> cases binc <;> simp at hwi hbi
  exact budget_le_clock h

/-! ## 2. `movetime` is an upper bound -/

theorem budget_le_movetime {wtime btime winc binc : Option Nat} {mt t : Nat} {infinite : Bool}
    {side : Player} {share : Nat → Nat}
    (h : budget wtime btime winc binc (some mt) infinite side share = some t) : t ≤ mt := by
  rw [budget_movetime_eq] at h
  cases infinite
  · simp only [Bool.false_eq_true, if_false, Option.some.injEq] at h
    omega
  · simp at h

/-- precisely: the sleep cut is taken off -/
theorem budget_movetime_exact {wtime btime winc binc : Option Nat} {mt t : Nat} {infinite : Bool}
    {side : Player} {share : Nat → Nat}
    (h : budget wtime btime winc binc (some mt) infinite side share = some t) :
    t = mt - Gen.sleepCutMs ∧ infinite = false := by
  rw [budget_movetime_eq] at h
  cases infinite <;> simp at h
  exact ⟨h.symm, rfl⟩

/-! ## 3. monotone in the own clock -/

theorem satAdd_mono {a a' b : Nat} (h : a ≤ a') : satAdd a b ≤ satAdd a' b := by
  unfold satAdd; omega

/-- White: a smaller own clock never yields a larger allotment, everything else fixed
(any option pattern of the other parameters). -/
theorem budget_monotone_white {share : Nat → Nat} (hs : ShareOK share) {wt wt' : Nat}
    (hle : wt ≤ wt') {btime winc binc movetime : Option Nat} {infinite : Bool} {t t' : Nat}
    (h : budget (some wt) btime winc binc movetime infinite .white share = some t)
    (h' : budget (some wt') btime winc binc movetime infinite .white share = some t') :
    t ≤ t' := by
  cases movetime with
  | some mt =>
    rw [budget_movetime_eq] at h h'
    cases infinite <;> simp at h h'
    omega
  | none =>
    cases btime <;> cases winc <;> cases binc <;> try (simp [budget] at h; done)
    rename_i bt wi bi
    rw [budget_clock_eq] at h h'
    cases infinite
    · simp only [Bool.false_eq_true, if_false, Option.some.injEq, ownClock, ownInc] at h h'
      have h1 := satAdd_mono (b := wi) (hs.2 _ _ hle)
      omega
    · simp at h

/-- Black: likewise. -/
theorem budget_monotone_black {share : Nat → Nat} (hs : ShareOK share) {bt bt' : Nat}
    (hle : bt ≤ bt') {wtime winc binc movetime : Option Nat} {infinite : Bool} {t t' : Nat}
    (h : budget wtime (some bt) winc binc movetime infinite .black share = some t)
    (h' : budget wtime (some bt') winc binc movetime infinite .black share = some t') :
    t ≤ t' := by
  cases movetime with
  | some mt =>
    rw [budget_movetime_eq] at h h'
    cases infinite <;> simp at h h'
    omega
  | none =>
    cases wtime <;> cases winc <;> cases binc <;> try (simp [budget] at h; done)
    rename_i wt wi bi
    rw [budget_clock_eq] at h h'
    cases infinite
    · simp only [Bool.false_eq_true, if_false, Option.some.injEq, ownClock, ownInc] at h h'
      have h1 := satAdd_mono (b := bi) (hs.2 _ _ hle)
      omega
    · simp at h

/-- Both sides at once, on the `Option Nat` results: the own clock is the only clock that
matters and the allotment is monotone in it. -/
theorem budget_monotone {share : Nat → Nat} (hs : ShareOK share) {wt wt' bt bt' wi bi : Nat}
    {side : Player} (hle : ownClock side wt bt ≤ ownClock side wt' bt')
    {infinite : Bool} {t t' : Nat}
    (h : budget (some wt) (some bt) (some wi) (some bi) none infinite side share = some t)
    (h' : budget (some wt') (some bt') (some wi) (some bi) none infinite side share = some t') :
    t ≤ t' := by
  rw [budget_clock_eq] at h h'
  cases infinite
  · simp only [Bool.false_eq_true, if_false, Option.some.injEq] at h h'
    have h1 := satAdd_mono (b := ownInc side wi bi) (hs.2 _ _ hle)
    omega
  · simp at h

/-! ## 4. every intermediate value is a `u64` -/

theorem satAdd_le (a b : Nat) : satAdd a b ≤ u64Max := by unfold satAdd; omega

/-- when the exact sum fits, the saturating sum is the sum -/
theorem satAdd_exact {a b : Nat} (h : a + b ≤ u64Max) : satAdd a b = a + b := by
  unfold satAdd; omega

/-- The chain of values computed by `command_go`, for `u64` inputs and a `share` that is a `u64`
for `u64` arguments (true of `as u64`, which saturates): each one is a `u64` again.  Together
with `budget_clock_eq`/`budget_movetime_eq` (the result *is* the last value of this chain) this
says that no value of the model leaves the machine range; and as the only subtractions are
`saturating_sub`, i.e. truncated subtraction, nothing can wrap. -/
theorem budget_fits_u64 {w inc mt : Nat} {share : Nat → Nat}
    (hw : w ≤ u64Max) (_hi : inc ≤ u64Max) (hm : mt ≤ u64Max) (hsh : share w ≤ u64Max) :
    share w ≤ u64Max
    ∧ satAdd (share w) inc ≤ u64Max
    ∧ satAdd (share w) inc - Gen.latencyMs ≤ u64Max
    ∧ w - Gen.latencyMs ≤ u64Max
    ∧ min (satAdd (share w) inc - Gen.latencyMs) (w - Gen.latencyMs) ≤ u64Max
    ∧ min (satAdd (share w) inc - Gen.latencyMs) (w - Gen.latencyMs) - Gen.sleepCutMs ≤ u64Max
    ∧ mt - Gen.sleepCutMs ≤ u64Max := by
  have := satAdd_le (share w) inc
  refine ⟨hsh, this, ?_, ?_, ?_, ?_, ?_⟩ <;> omega

/-- the result of `budget` is a `u64` whenever the own clock (or `movetime`) is -/
theorem budget_result_fits_u64 {wtime btime winc binc movetime : Option Nat} {infinite : Bool}
    {side : Player} {share : Nat → Nat} {t : Nat}
    (hw : ∀ w, wtime = some w → w ≤ u64Max) (hb : ∀ w, btime = some w → w ≤ u64Max)
    (hm : ∀ w, movetime = some w → w ≤ u64Max)
    (h : budget wtime btime winc binc movetime infinite side share = some t) : t ≤ u64Max := by
  cases movetime with
  | some mt =>
    have := budget_le_movetime h
    have := hm mt rfl
    omega
  | none =>
    cases wtime <;> cases btime <;> cases winc <;> cases binc <;> try (simp [budget] at h; done)
    have h1 := budget_le_clock h
    have h2 := hw _ rfl
    have h3 := hb _ rfl
    cases side <;> simp only [ownClock] at h1 <;> omega

/-- under `ShareOK` and `u64` inputs the hypothesis on `share` of `budget_fits_u64` holds -/
theorem ShareOK.fits {share : Nat → Nat} (hs : ShareOK share) {w : Nat} (hw : w ≤ u64Max) :
    share w ≤ u64Max := Nat.le_trans (hs.1 w) hw

/-! ### the same statement against machine integers

`UInt64` with the textbook definitions of the saturating operations; the model's value is the
`toNat` of the machine's. -/

def satAdd64 (a b : UInt64) : UInt64 := if a.toNat + b.toNat < 2 ^ 64 then a + b else UInt64.ofNat u64Max
def satSub64 (a b : UInt64) : UInt64 := if b ≤ a then a - b else 0
def min64 (a b : UInt64) : UInt64 := if a ≤ b then a else b

theorem satAdd64_toNat (a b : UInt64) : (satAdd64 a b).toNat = satAdd a.toNat b.toNat := by
  unfold satAdd64 satAdd u64Max
  split
  · rename_i h
    rw [UInt64.toNat_add, Nat.mod_eq_of_lt h]; omega
  · rename_i h
    have : (UInt64.ofNat (2 ^ 64 - 1)).toNat = 2 ^ 64 - 1 := by decide
    rw [this]; omega

theorem satSub64_toNat (a b : UInt64) : (satSub64 a b).toNat = a.toNat - b.toNat := by
  unfold satSub64
  split
  · rename_i h
    rw [UInt64.toNat_sub_of_le _ _ h]
  · rename_i h
    have : a.toNat < b.toNat := by
      have := UInt64.lt_iff_toNat_lt.mp (UInt64.not_le.mp h); exact this
    simp only [UInt64.toNat_zero]; omega

theorem min64_toNat (a b : UInt64) : (min64 a b).toNat = min a.toNat b.toNat := by
  unfold min64
  split
  · rename_i h
    have := UInt64.le_iff_toNat_le.mp h; omega
  · rename_i h
    have := UInt64.lt_iff_toNat_lt.mp (UInt64.not_le.mp h); omega

/-- the clock branch of `command_go` on machine integers -/
def clock64 (share64 : UInt64 → UInt64) (w inc : UInt64) : UInt64 :=
  satSub64 (min64 (satSub64 (satAdd64 (share64 w) inc) 150) (satSub64 w 150)) 5

/-- The machine computation and the model agree: the `Nat` of the model is the machine value. -/
theorem clock64_refines (share64 : UInt64 → UInt64) (share : Nat → Nat)
    (hsh : ∀ w, (share64 w).toNat = share w.toNat) (wt bt wi bi : UInt64) (side : Player) :
    budget (some wt.toNat) (some bt.toNat) (some wi.toNat) (some bi.toNat) none false side share
      = some (match side with
          | .white => (clock64 share64 wt wi).toNat
          | .black => (clock64 share64 bt bi).toNat) := by
  have e150 : (150 : UInt64).toNat = Gen.latencyMs := by decide
  have e5 : (5 : UInt64).toNat = Gen.sleepCutMs := by decide
  rw [budget_clock_eq]
  cases side <;>
    simp only [Bool.false_eq_true, if_false, clock64, satSub64_toNat, min64_toNat, satAdd64_toNat,
      hsh, ownClock, ownInc, e150, e5]

/-! ## 5. the old defect is gone; when there is no timer -/

theorem u64Max_eq : u64Max = 18446744073709551615 := by decide

/-- For `share w = w / 50` (two per cent) and no increment, a clock below 7500 ms (even below
7550) yields the allotment `0`: the expression `2 % + inc − 150`, which used to underflow,
now saturates. -/
theorem budget_low_clock_shortens {wt bt bi : Nat} (h : wt < 7500) :
    budget (some wt) (some bt) (some 0) (some bi) none false .white (· / 50) = some 0 := by
  rw [budget_clock_eq]
  simp only [Bool.false_eq_true, if_false, Option.some.injEq]
  simp only [ownClock, ownInc]
  unfold satAdd
  have hu := u64Max_eq
  have h1 : Gen.latencyMs = 150 := rfl
  have h2 : Gen.sleepCutMs = 5 := rfl
  omega

theorem budget_low_clock_shortens_black {wt bt wi : Nat} (h : bt < 7500) :
    budget (some wt) (some bt) (some wi) (some 0) none false .black (· / 50) = some 0 := by
  rw [budget_clock_eq]
  simp only [Bool.false_eq_true, if_false, Option.some.injEq]
  simp only [ownClock, ownInc]
  unfold satAdd
  have hu := u64Max_eq
  have h1 : Gen.latencyMs = 150 := rfl
  have h2 : Gen.sleepCutMs = 5 := rfl
  omega

/-- and above the threshold the two-per-cent rule is what is used, exactly -/
theorem budget_two_percent {wt bt bi : Nat} (h : 7750 ≤ wt) (hu : wt ≤ u64Max) :
    budget (some wt) (some bt) (some 0) (some bi) none false .white (· / 50)
      = some (wt / 50 - 155) := by
  rw [budget_clock_eq]
  simp only [Bool.false_eq_true, if_false, Option.some.injEq]
  simp only [ownClock, ownInc]
  unfold satAdd
  have hu' := u64Max_eq
  have h1 : Gen.latencyMs = 150 := rfl
  have h2 : Gen.sleepCutMs = 5 := rfl
  omega

/-- No timer is armed iff `infinite`, or there is no `movetime` and a clock parameter is missing. -/
theorem budget_none_iff (wtime btime winc binc movetime : Option Nat) (infinite : Bool)
    (side : Player) (share : Nat → Nat) :
    budget wtime btime winc binc movetime infinite side share = none ↔
      infinite = true ∨
        (movetime = none ∧ (wtime = none ∨ btime = none ∨ winc = none ∨ binc = none)) := by
  cases movetime with
  | some mt => rw [budget_movetime_eq]; cases infinite <;> simp
  | none =>
    cases wtime <;> cases btime <;> cases winc <;> cases binc <;>
      first
      | (rw [budget_clock_eq]; cases infinite <;> simp)
      | (cases infinite <;> simp [budget])

/-- the complementary form -/
theorem budget_isSome_iff (wtime btime winc binc movetime : Option Nat) (infinite : Bool)
    (side : Player) (share : Nat → Nat) :
    (budget wtime btime winc binc movetime infinite side share).isSome ↔
      infinite = false ∧
        (movetime.isSome ∨ (wtime.isSome ∧ btime.isSome ∧ winc.isSome ∧ binc.isSome)) := by
  have := budget_none_iff wtime btime winc binc movetime infinite side share
  cases hb : budget wtime btime winc binc movetime infinite side share <;>
    cases movetime <;> cases wtime <;> cases btime <;> cases winc <;> cases binc <;>
    cases infinite <;> simp_all

/-! ## 6. non-vacuity -/

example : budget (some 60000) (some 60000) (some 1000) (some 1000) none false .white (· / 50)
    = some 2045 := by decide
example : budget (some 60000) (some 30000) (some 1000) (some 0) none false .black (· / 50)
    = some 445 := by decide
example : budget (some 1000) (some 60000) (some 1000) (some 1000) none false .white (· / 50)
    = some 845 := by decide
example : budget (some 1000) (some 60000) (some 0) (some 0) none false .white (· / 50)
    = some 0 := by decide
example : budget (some 100) (some 60000) (some 5000) (some 0) none false .white (· / 50)
    = some 0 := by decide
/-- a huge increment cannot push the allotment past the clock -/
example : budget (some 10000) (some 10000) (some u64Max) (some 0) none false .white (· / 50)
    = some 9845 := by decide
example : budget (some 60000) (some 60000) (some 1000) (some 1000) (some 3000) false .white (· / 50)
    = some 2995 := by decide
example : budget (some 60000) (some 60000) (some 1000) (some 1000) (some 3) false .white (· / 50)
    = some 0 := by decide
example : budget (some 60000) (some 60000) (some 1000) (some 1000) (some 3000) true .white (· / 50)
    = none := by decide
example : budget (some 60000) none (some 1000) (some 1000) none false .white (· / 50)
    = none := by decide
example : budget none none none none none false .white (· / 50) = none := by decide
/-- the hypotheses of the theorems are satisfiable together -/
example : ∃ t, budget (some 60000) (some 60000) (some 1000) (some 1000) none false .white (· / 50)
    = some t ∧ 0 < t ∧ t + Gen.sleepCutMs + Gen.latencyMs ≤ 60000 := ⟨2045, by decide⟩

end Chess.Uci

#print axioms Chess.Uci.budget_clock_eq
#print axioms Chess.Uci.budget_le_clock_sub
#print axioms Chess.Uci.budget_le_clock
#print axioms Chess.Uci.budget_le_clock'
#print axioms Chess.Uci.budget_pos_room
#print axioms Chess.Uci.budget_le_movetime
#print axioms Chess.Uci.budget_monotone_white
#print axioms Chess.Uci.budget_monotone_black
#print axioms Chess.Uci.budget_monotone
#print axioms Chess.Uci.budget_fits_u64
#print axioms Chess.Uci.budget_result_fits_u64
#print axioms Chess.Uci.clock64_refines
#print axioms Chess.Uci.budget_low_clock_shortens
#print axioms Chess.Uci.budget_two_percent
#print axioms Chess.Uci.budget_none_iff
#print axioms Chess.Uci.budget_isSome_iff
