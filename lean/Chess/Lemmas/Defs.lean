import Chess.Lemmas.Abs

/-!
# Shared definitions for the proofs: representation invariant, structural fit of a move
-/
namespace Chess

/-- XOR of all 64 cached keys -/
def xorAll (v : Vector UInt64 64) : UInt64 := v.toList.foldr (· ^^^ ·) 0
/-- sum of all 64 cached contributions -/
def sumAll (v : Vector Int 64) : Int := v.toList.foldr (· + ·) 0

namespace Game

/-- every cached key / contribution is the one of what stands on the square, under the king
table in force -/
structure CacheInv (g : Game) : Prop where
  hashes : ∀ (i : Nat) (h : i < 64), g.pastHashes[i] = placeHash (Pos.ofIdx i) g.board[i]
  scores : ∀ (i : Nat) (h : i < 64), g.pastScores[i] = placeScore (Pos.ofIdx i) g.endgame g.board[i]

/-- what of `hash` is not the placement: side key and state key -/
def resHash (g : Game) : UInt64 := g.hash ^^^ xorAll g.pastHashes
/-- what of `score` is not the placement (zero in every well-formed game) -/
def resScore (g : Game) : Int := g.score - sumAll g.pastScores

/-- The structural facts a generated move carries about the game it was generated in
(legality is *not* required: unchecked moves, even king captures, fit). -/
def Fits (g : Game) : Move → Prop
  | .normal pc start stop cap =>
    start.Valid ∧ stop.Valid ∧ start ≠ stop ∧ g.get start = some pc ∧ g.get stop = cap
      ∧ (pc.pieceType = .king → g.kingPos g.player = start)
  | .promotion owner _ start stop cap =>
    start.Valid ∧ stop.Valid ∧ start ≠ stop ∧ g.get start = some ⟨.pawn, owner⟩ ∧ g.get stop = cap
  | .enPassant owner sc ec =>
    0 ≤ sc ∧ sc < 8 ∧ 0 ≤ ec ∧ ec < 8 ∧ sc ≠ ec
      ∧ g.get (epSquares owner sc ec).1 = some ⟨.pawn, owner⟩
      ∧ g.get (epSquares owner sc ec).2.1 = none
      ∧ g.get (epSquares owner sc ec).2.2 = some ⟨.pawn, owner.other⟩
  | .castlingShort owner =>
    owner = g.player ∧ g.kingPos owner = ⟨homeRow owner, 4⟩
      ∧ g.get ⟨homeRow owner, 4⟩ = some ⟨.king, owner⟩ ∧ g.get ⟨homeRow owner, 7⟩ = some ⟨.rook, owner⟩
      ∧ g.get ⟨homeRow owner, 5⟩ = none ∧ g.get ⟨homeRow owner, 6⟩ = none
  | .castlingLong owner =>
    owner = g.player ∧ g.kingPos owner = ⟨homeRow owner, 4⟩
      ∧ g.get ⟨homeRow owner, 4⟩ = some ⟨.king, owner⟩ ∧ g.get ⟨homeRow owner, 0⟩ = some ⟨.rook, owner⟩
      ∧ g.get ⟨homeRow owner, 3⟩ = none ∧ g.get ⟨homeRow owner, 2⟩ = none

/-- what the generator additionally guarantees about the mover (needed for the invariants to
survive `push`; not needed for take-back) -/
def MoverOk (g : Game) : Move → Prop
  | .normal pc _ _ cap =>
    pc.owner = g.player ∧ (pc.pieceType = .king → ∀ c, cap = some c → c.pieceType ≠ .king)
  | .promotion owner t _ _ _ =>
    owner = g.player ∧ (t = .queen ∨ t = .rook ∨ t = .bishop ∨ t = .knight)
  | .enPassant owner _ ec => owner = g.player ∧ g.top.enPassant = ec
  | .castlingShort _ => True
  | .castlingLong _ => True

/-- a castling right implies the rook on its home square, the cached king square at home, and —
unless that king has just been captured on an unchecked search line — the king there -/
structure RightsInv (g : Game) : Prop where
  wk : g.top.wk = true → g.get ⟨0, 7⟩ = some ⟨.rook, .white⟩ ∧ g.wking = ⟨0, 4⟩
    ∧ (g.kingExists .white = true → g.get ⟨0, 4⟩ = some ⟨.king, .white⟩)
  wq : g.top.wq = true → g.get ⟨0, 0⟩ = some ⟨.rook, .white⟩ ∧ g.wking = ⟨0, 4⟩
    ∧ (g.kingExists .white = true → g.get ⟨0, 4⟩ = some ⟨.king, .white⟩)
  bk : g.top.bk = true → g.get ⟨7, 7⟩ = some ⟨.rook, .black⟩ ∧ g.bking = ⟨7, 4⟩
    ∧ (g.kingExists .black = true → g.get ⟨7, 4⟩ = some ⟨.king, .black⟩)
  bq : g.top.bq = true → g.get ⟨7, 0⟩ = some ⟨.rook, .black⟩ ∧ g.bking = ⟨7, 4⟩
    ∧ (g.kingExists .black = true → g.get ⟨7, 4⟩ = some ⟨.king, .black⟩)

/-- the cached king squares are on the board, and every king on the board stands on the cached
square of its colour (after an unchecked king capture the cache points at a square without that
king, and `get_moves` answers with the empty list) -/
structure KingInv (g : Game) : Prop where
  wvalid : g.wking.Valid
  bvalid : g.bking.Valid
  unique : ∀ (p : Pos) (pl : Player), p.Valid → g.get p = some ⟨.king, pl⟩ → g.kingPos pl = p

/-- a recorded en-passant file is backed by the enemy pawn that has just made its double step,
with the square behind it empty -/
def EpInv (g : Game) : Prop :=
  g.top.enPassant < 8 →
    match g.player with
    | .white => g.get ⟨4, g.top.enPassant⟩ = some ⟨.pawn, .black⟩ ∧ g.get ⟨5, g.top.enPassant⟩ = none
    | .black => g.get ⟨3, g.top.enPassant⟩ = some ⟨.pawn, .white⟩ ∧ g.get ⟨2, g.top.enPassant⟩ = none

/-- representation invariant of the concrete state -/
structure WF (g : Game) : Prop where
  cache : g.CacheInv
  kings : g.KingInv
  rights : g.RightsInv
  epInv : g.EpInv
  resHash : g.resHash = (if g.player = .black then Gen.blackToMove else 0) ^^^ g.top.hash
  resScore : g.resScore = 0
  nonempty : g.state ≠ []
  ep : 0 ≤ g.top.enPassant ∧ g.top.enPassant ≤ 8

end Game
end Chess
