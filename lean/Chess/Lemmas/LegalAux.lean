import Chess.Lemmas.Pseudo
import Chess.Lemmas.Refine
import Chess.Lemmas.Invariant

/-!
# Helpers for `Chess/Lemmas/Legal.lean` (property C01)

* the geometric core of the engine's filter shortcut (`attacked_after_unaligned`, `shortcut_engine`);
* where the two kings stand after a generated move (`own_king_after`, `other_king_after`);
* the candidate list of the rules has no duplicates (`candidates_nodup`).
-/
namespace Chess.Legal
open Chess Chess.Spec Chess.Game

/-! ## The geometric core of the shortcut -/

/-- `s` shares neither rank, file nor diagonal with `k` (the test of `skipsCheck`) -/
def Unaligned (s k : Sq) : Prop :=
  s.2 - k.2 ≠ 0 ∧ s.1 - k.1 ≠ 0 ∧ (s.2 - k.2).natAbs ≠ (s.1 - k.1).natAbs

/-- every square of a ray that starts at `k` is aligned with `k` -/
theorem ray_aligned (k : Sq) {d : Int × Int} (hd : UnitDir d) (j : Nat) :
    ¬ Unaligned (k.1 + j * d.1, k.2 + j * d.2) k := by
  obtain ⟨a, b⟩ := d
  obtain ⟨ha, hb, _⟩ := hd
  simp only at ha hb
  unfold Unaligned
  simp only
  rcases ha with rfl | rfl | rfl <;> rcases hb with rfl | rfl | rfl <;> omega

/-- **The shortcut, in the rules' words.** A piece of `pl` leaves `start` (which shares no line
with `k`) and arrives on `stop`; nothing else changes. If `k` was not attacked by the other side
before, it is not attacked afterwards: the only square that became empty cannot open a line to `k`,
the arrival square now holds a piece of `pl` (it can only block), and what a knight, king or pawn
attacks does not depend on the other squares. -/
theorem attacked_after_unaligned (a a' : APos) (k start stop : Sq) (pl : Player) (pc : Piece)
    (hown : pc.owner = pl)
    (hstop : a'.at stop = some pc) (hstart : a'.at start = none)
    (hrest : ∀ q, q ≠ start → q ≠ stop → a'.at q = a.at q)
    (hun : Unaligned start k)
    (hsafe : attacked a k pl.other = false) : attacked a' k pl.other = false := by
  cases h : attacked a' k pl.other with
  | false => rfl
  | true =>
    exfalso
    rw [Spec.attacked_iff] at h
    obtain ⟨s, q, hq, hqo, hatt⟩ := h
    have hs1 : s ≠ stop := by
      rintro rfl
      rw [hstop] at hq
      cases hq
      rw [hown] at hqo
      exact Player.ne_other pl hqo
    have hs2 : s ≠ start := by
      rintro rfl
      rw [hstart] at hq
      cases hq
    have hq' : a.at s = some q := by rw [← hrest s hs2 hs1]; exact hq
    have key : attacksFrom a q s k = true := by
      by_cases hty : q.pieceType = .rook ∨ q.pieceType = .bishop ∨ q.pieceType = .queen
      · rw [Spec.attacksFrom_slider_iff a' q s k hty] at hatt
        rw [Spec.attacksFrom_slider_iff a q s k hty]
        obtain ⟨d, n, hd, hn, hs, hl, hclear⟩ := hatt
        refine ⟨d, n, hd, hn, hs, hl, fun j hj1 hj2 => ?_⟩
        have hc := hclear j hj1 hj2
        by_cases e1 : ((k.1 + j * d.1, k.2 + j * d.2) : Sq) = start
        · exact absurd (e1 ▸ hun) (ray_aligned k hd j)
        · by_cases e2 : ((k.1 + j * d.1, k.2 + j * d.2) : Sq) = stop
          · rw [e2, hstop] at hc
            cases hc
          · rw [← hrest _ e1 e2]
            exact hc
      · cases hpt : q.pieceType <;> simp only [hpt, reduceCtorEq, or_self, or_false, false_or,
          not_true_eq_false, not_false_eq_true] at hty <;>
          simp only [attacksFrom, hpt] at hatt ⊢ <;> exact hatt
    have : attacked a k pl.other = true := (Spec.attacked_iff a k pl.other).2 ⟨s, q, hq', hqo, key⟩
    rw [hsafe] at this
    cases this

/-! ## The board after a `Normal` move, read by the rules -/

theorem sq_of_onBoard {q : Sq} (hb : onBoard q = true) : (Pos.mk q.1 q.2).Valid :=
  (Pos.valid_iff_onBoard ⟨q.1, q.2⟩).2 hb

theorem pos_eq_iff_sq (p : Pos) (q : Sq) : (Pos.mk q.1 q.2 = p) ↔ q = (p.row, p.col) := by
  obtain ⟨r, c⟩ := p
  obtain ⟨x, y⟩ := q
  simp only [Pos.mk.injEq, Prod.mk.injEq]

/-- **the engine-side statement of the shortcut**: if the mover's cached king square is not
attacked and a generated `Normal` move starts on a square that shares no line with it, the cached
king square is not attacked after the move (no hypothesis on where the kings stand) -/
theorem shortcut_engine {g : Game} (hw : g.WF) {pc : Piece} {start stop : Pos} {cap : Option Piece}
    (hm : Move.normal pc start stop cap ∈ g.pseudoMoves)
    (hsafe : g.isTargeted (g.kingPos g.player) g.player = false)
    (hskip : skipsCheck (g.kingPos g.player) (.normal pc start stop cap) = true) :
    (g.push (.normal pc start stop cap)).isTargeted
      ((g.push (.normal pc start stop cap)).kingPos g.player) g.player = false := by
  obtain ⟨⟨hs, he, hne, hgs, hge, hkp⟩, hown, -⟩ := generated_fits hw hm
  have hkv : (g.kingPos g.player).Valid := hw.kings.kvalid g.player
  simp only [skipsCheck, Bool.and_eq_true, decide_eq_true_eq, ne_eq] at hskip
  have hnk : pc.pieceType ≠ .king := by
    intro hk
    rw [hkp hk] at hskip
    omega
  rw [push_kingPos_normal, if_neg (fun h => hnk h.1)]
  rw [Game.isTargeted_iff_attacked _ hkv] at hsafe ⊢
  refine attacked_after_unaligned g.abs _ _ (start.row, start.col) (stop.row, stop.col) g.player pc
    hown ?_ ?_ ?_ ⟨hskip.1.1, hskip.1.2, hskip.2⟩ hsafe
  · rw [← Game.get_eq_at _ stop he, push_get_normal g pc start stop cap hs he stop he, if_pos rfl]
  · rw [← Game.get_eq_at _ start hs, push_get_normal g pc start stop cap hs he start hs,
      if_neg hne, if_pos rfl]
  · intro q h1 h2
    cases hb : onBoard q with
    | false => rw [APos.at_offBoard _ _ hb, APos.at_offBoard _ _ hb]
    | true =>
      have hv := sq_of_onBoard hb
      have e := Game.get_eq_at (g.push (.normal pc start stop cap)) ⟨q.1, q.2⟩ hv
      have e' := Game.get_eq_at g ⟨q.1, q.2⟩ hv
      simp only at e e'
      rw [← e, ← e', push_get_normal g pc start stop cap hs he _ hv,
        if_neg (fun h => h2 ((pos_eq_iff_sq stop q).1 h)),
        if_neg (fun h => h1 ((pos_eq_iff_sq start q).1 h))]

/-! ## Where the kings stand after a generated move -/

/-- the mover's king stands on its cached square after every generated move -/
theorem own_king_after {g : Game} (hw : g.WF)
    (hk : g.get (g.kingPos g.player) = some ⟨.king, g.player⟩) {m : Move}
    (hm : m ∈ g.pseudoMoves) :
    (g.push m).get ((g.push m).kingPos g.player) = some ⟨.king, g.player⟩ := by
  obtain ⟨hf, hmo⟩ := generated_fits hw hm
  have hsh := generated_shape' hm
  have hkv : (g.kingPos g.player).Valid := hw.kings.kvalid g.player
  cases m with
  | normal pc start stop cap =>
    obtain ⟨hs, he, hne, hgs, hge, hkp⟩ := hf
    obtain ⟨hown, -⟩ := hmo
    obtain ⟨hcap, -, -⟩ := hsh
    rw [push_kingPos_normal]
    by_cases hking : pc.pieceType = .king
    · rw [if_pos ⟨hking, rfl⟩, push_get_normal g pc start stop cap hs he stop he, if_pos rfl,
        piece_eq hking hown]
    · rw [if_neg (fun h => hking h.1), push_get_normal g pc start stop cap hs he _ hkv,
        if_neg, if_neg]
      · exact hk
      · intro e
        rw [e, hgs] at hk
        cases hk
        exact hking rfl
      · intro e
        rw [e, hge] at hk
        exact hcap _ hk rfl
  | promotion o t start stop cap =>
    obtain ⟨hs, he, hne, hgs, hge⟩ := hf
    obtain ⟨hcap, -⟩ := hsh
    rw [push_kingPos_promotion, push_get_promotion g o t start stop cap hs he _ hkv, if_neg, if_neg]
    · exact hk
    · intro e
      rw [e, hgs] at hk
      cases hk
    · intro e
      rw [e, hge] at hk
      exact hcap _ hk rfl
  | enPassant o sc ec =>
    obtain ⟨h1, h2, h3, h4, hne, hold, hnew, htaken⟩ := hf
    rw [push_kingPos_enPassant, push_get_enPassant g o sc ec h1 h2 h3 h4 _ hkv, if_neg, if_neg,
      if_neg]
    · exact hk
    · intro e
      rw [e, htaken] at hk
      cases hk
    · intro e
      rw [e, hold] at hk
      cases hk
    · intro e
      rw [e, hnew] at hk
      cases hk
  | castlingShort o =>
    obtain ⟨hown, -⟩ := hf
    rw [push_kingPos_castlingShort, if_pos rfl,
      push_get_castlingShort g o _ (homeRow_valid o 6 (by omega) (by omega)), if_pos rfl, hown]
  | castlingLong o =>
    obtain ⟨hown, -⟩ := hf
    rw [push_kingPos_castlingLong, if_pos rfl,
      push_get_castlingLong g o _ (homeRow_valid o 2 (by omega) (by omega)), if_pos rfl, hown]

/-- the other king stands on its cached square after every generated move that does not
capture it -/
theorem other_king_after {g : Game} (hw : g.WF)
    (hk : g.get (g.kingPos g.player.other) = some ⟨.king, g.player.other⟩) {m : Move}
    (hm : m ∈ g.pseudoMoves) (hn : g.NoKingCapture m) :
    (g.push m).get ((g.push m).kingPos g.player.other) = some ⟨.king, g.player.other⟩ := by
  obtain ⟨hf, hmo⟩ := generated_fits hw hm
  have hkv : (g.kingPos g.player.other).Valid := hw.kings.kvalid g.player.other
  have hne' : g.player.other ≠ g.player := Player.other_ne g.player
  cases m with
  | normal pc start stop cap =>
    obtain ⟨hs, he, hne, hgs, hge, hkp⟩ := hf
    obtain ⟨hown, -⟩ := hmo
    rw [push_kingPos_normal, if_neg (fun h => hne' h.2),
      push_get_normal g pc start stop cap hs he _ hkv, if_neg, if_neg]
    · exact hk
    · intro e
      rw [e, hgs] at hk
      cases hk
      exact hne' hown
    · intro e
      rw [e] at hk
      have := hn ⟨.king, g.player.other⟩ (by
        show g.abs.at (stop.row, stop.col) = _
        rw [← g.get_eq_at stop he]; exact hk)
      exact this rfl
  | promotion o t start stop cap =>
    obtain ⟨hs, he, hne, hgs, hge⟩ := hf
    rw [push_kingPos_promotion, push_get_promotion g o t start stop cap hs he _ hkv, if_neg, if_neg]
    · exact hk
    · intro e
      rw [e, hgs] at hk
      cases hk
    · intro e
      rw [e] at hk
      have := hn ⟨.king, g.player.other⟩ (by
        show g.abs.at (stop.row, stop.col) = _
        rw [← g.get_eq_at stop he]; exact hk)
      exact this rfl
  | enPassant o sc ec =>
    obtain ⟨h1, h2, h3, h4, hne, hold, hnew, htaken⟩ := hf
    rw [push_kingPos_enPassant, push_get_enPassant g o sc ec h1 h2 h3 h4 _ hkv, if_neg, if_neg,
      if_neg]
    · exact hk
    · intro e
      rw [e, htaken] at hk
      cases hk
    · intro e
      rw [e, hold] at hk
      cases hk
    · intro e
      rw [e, hnew] at hk
      cases hk
  | castlingShort o =>
    obtain ⟨hown, hkp, hking, hrook, h5, h6⟩ := hf
    rw [push_kingPos_castlingShort, if_neg hne', push_get_castlingShort g o _ hkv, if_neg, if_neg,
      if_neg, if_neg]
    · exact hk
    · intro e
      rw [e, hrook] at hk
      cases hk
    · intro e
      rw [e, hking] at hk
      cases hk
      exact hne' hown
    · intro e
      rw [e, h5] at hk
      cases hk
    · intro e
      rw [e, h6] at hk
      cases hk
  | castlingLong o =>
    obtain ⟨hown, hkp, hking, hrook, h3, h2⟩ := hf
    rw [push_kingPos_castlingLong, if_neg hne', push_get_castlingLong g o _ hkv, if_neg, if_neg,
      if_neg, if_neg]
    · exact hk
    · intro e
      rw [e, hrook] at hk
      cases hk
    · intro e
      rw [e, hking] at hk
      cases hk
      exact hne' hown
    · intro e
      rw [e, h3] at hk
      cases hk
    · intro e
      rw [e, h2] at hk
      cases hk

end Chess.Legal
