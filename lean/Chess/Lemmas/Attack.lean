import Chess.Lemmas.AttackAux

/-!
# L1 of C01: the engine's attack scan `Game.isTargeted` is the rules' `Spec.attacked`

* `Game.get_eq_at`, `Pos.add_eq_some_iff` (in `AttackAux`): the two board views agree.
* `Game.firstOnRay_iff` (in `AttackAux`), `Game.firstOnRay_seven_iff`: the ray lemma.
* `Game.isTargeted_iff_attacked`: the main theorem.
* `Game.kingSafe_iff`: the king-safety test of the legality filter is `!inCheck`.
* L2 (knight and sliders): `Game.knightMoves_spec`, `Game.rayMoves_iff`, `Game.slideMoves_spec`,
  `Game.slideMoves_attacks`, `Game.gen_pseudo_iff`, `Game.pieceMoves_pseudo_iff`.
* Empirical check of the main statement on 25 positions × 64 squares × 2 players:
  `scratch/AttackEval.lean` (0 mismatches).
-/
namespace Chess
open Spec

/-! ## The ray lemma with the engine's fuel 7 -/

/-- **Ray lemma** (task item 2): on a valid square, along one of the eight directions, seven steps
see the first piece of the ray, wherever it is. -/
theorem Game.firstOnRay_seven_iff (g : Game) {p : Pos} (hp : p.Valid) {d : Int × Int}
    (hd : UnitDir d) (pc : Piece) :
    g.firstOnRay p d 7 = some pc ↔
      ∃ k : Nat, 1 ≤ k ∧ g.abs.at (p.row + k * d.1, p.col + k * d.2) = some pc ∧
        ∀ j : Nat, 1 ≤ j → j < k → g.abs.at (p.row + j * d.1, p.col + j * d.2) = none := by
  rw [Game.firstOnRay_iff]
  constructor
  · rintro ⟨k, h1, _, hk, hj⟩
    exact ⟨k, h1, hk, fun j a b => (hj j a b).2⟩
  · rintro ⟨k, h1, hk, hj⟩
    have hb := APos.onBoard_of_at hk
    exact ⟨k, h1, ray_le_seven hp hd hb, hk,
      fun j a b => ⟨ray_between_onBoard hp hd hb b, hj j a b⟩⟩

/-- the general-fuel ray lemma in the engine's own view (`Game.get` on valid squares) -/
theorem Game.firstOnRay_iff_get (g : Game) (d : Int × Int) (n : Nat) (p : Pos) (pc : Piece) :
    g.firstOnRay p d n = some pc ↔
      ∃ k : Nat, 1 ≤ k ∧ k ≤ n ∧
        (onBoard (p.row + k * d.1, p.col + k * d.2) = true ∧
          g.get ⟨p.row + k * d.1, p.col + k * d.2⟩ = some pc) ∧
        ∀ j : Nat, 1 ≤ j → j < k →
          onBoard (p.row + j * d.1, p.col + j * d.2) = true ∧
          g.get ⟨p.row + j * d.1, p.col + j * d.2⟩ = none := by
  rw [Game.firstOnRay_iff]
  constructor
  · rintro ⟨k, h1, h7, hk, hj⟩
    have hb := APos.onBoard_of_at hk
    refine ⟨k, h1, h7, ⟨hb, ?_⟩, fun j a b => ⟨(hj j a b).1, ?_⟩⟩
    · rw [g.get_eq_at _ ((Pos.valid_iff_onBoard _).2 hb)]; exact hk
    · rw [g.get_eq_at _ ((Pos.valid_iff_onBoard _).2 (hj j a b).1)]; exact (hj j a b).2
  · rintro ⟨k, h1, h7, ⟨hb, hk⟩, hj⟩
    refine ⟨k, h1, h7, ?_, fun j a b => ⟨(hj j a b).1, ?_⟩⟩
    · rw [g.get_eq_at _ ((Pos.valid_iff_onBoard _).2 hb)] at hk; exact hk
    · have := (hj j a b).2
      rw [g.get_eq_at _ ((Pos.valid_iff_onBoard _).2 (hj j a b).1)] at this; exact this

/-- seven steps suffice: with any fuel `n ≥ 7` the scan from a valid square along a unit direction
gives the same answer -/
theorem Game.firstOnRay_fuel (g : Game) {p : Pos} (hp : p.Valid) {d : Int × Int}
    (hd : UnitDir d) {n : Nat} (hn : 7 ≤ n) : g.firstOnRay p d n = g.firstOnRay p d 7 := by
  have key : ∀ pc, g.firstOnRay p d n = some pc ↔ g.firstOnRay p d 7 = some pc := by
    intro pc
    rw [Game.firstOnRay_iff, Game.firstOnRay_iff]
    constructor
    · rintro ⟨k, h1, _, hk, hj⟩
      exact ⟨k, h1, ray_le_seven hp hd (APos.onBoard_of_at hk), hk, hj⟩
    · rintro ⟨k, h1, h7, hk, hj⟩
      exact ⟨k, h1, by omega, hk, hj⟩
  cases h : g.firstOnRay p d n with
  | some pc => exact ((key pc).1 h).symm
  | none =>
    cases h7 : g.firstOnRay p d 7 with
    | none => rfl
    | some pc => rw [(key pc).2 h7] at h; cases h

/-! ## The engine's scan, part by part -/

theorem Game.enemyAt_iff (g : Game) (pl : Player) (ty : PieceType) (p : Pos) (d : Int × Int) :
    g.enemyAt pl ty p d = true ↔
      ∃ pc, g.abs.at (p.row + d.1, p.col + d.2) = some pc ∧ pc.owner = pl.other ∧
        pc.pieceType = ty := by
  unfold Game.enemyAt
  rw [← g.get_add p d]
  cases p.add d with
  | none => simp
  | some q =>
    simp only
    cases g.get q with
    | none => simp
    | some pc =>
      simp only [Bool.and_eq_true, decide_eq_true_eq, Option.some.injEq, exists_eq_left',
        Player.ne_iff_eq_other]

theorem Game.rayHits_iff (g : Game) (pl : Player) (t1 t2 : PieceType) {p : Pos} (hp : p.Valid)
    {d : Int × Int} (hd : UnitDir d) :
    g.rayHits pl t1 t2 p d = true ↔
      ∃ (k : Nat) (pc : Piece), 1 ≤ k ∧
        g.abs.at (p.row + k * d.1, p.col + k * d.2) = some pc ∧
        pc.owner = pl.other ∧ (pc.pieceType = t1 ∨ pc.pieceType = t2) ∧
        ∀ j : Nat, 1 ≤ j → j < k → g.abs.at (p.row + j * d.1, p.col + j * d.2) = none := by
  unfold Game.rayHits
  constructor
  · intro h
    cases hf : g.firstOnRay p d 7 with
    | none => rw [hf] at h; cases h
    | some pc =>
      rw [hf] at h
      simp only [Bool.and_eq_true, Bool.or_eq_true, decide_eq_true_eq,
        Player.ne_iff_eq_other] at h
      obtain ⟨k, h1, hk, hj⟩ := (g.firstOnRay_seven_iff hp hd pc).1 hf
      exact ⟨k, pc, h1, hk, h.1, h.2, hj⟩
  · rintro ⟨k, pc, h1, hk, ho, ht, hj⟩
    rw [(g.firstOnRay_seven_iff hp hd pc).2 ⟨k, h1, hk, hj⟩]
    simp only [Bool.and_eq_true, Bool.or_eq_true, decide_eq_true_eq, Player.ne_iff_eq_other]
    exact ⟨ho, ht⟩

/-! ## The rules' side -/

theorem Spec.mem_allSqs (s : Sq) : s ∈ allSqs ↔ onBoard s = true := by
  obtain ⟨r, c⟩ := s
  rw [Spec.onBoard_iff]
  simp only [allSqs, List.mem_map, List.mem_range, Prod.mk.injEq]
  constructor
  · rintro ⟨i, hi, rfl, rfl⟩; omega
  · rintro ⟨h1, h2, h3, h4⟩
    exact ⟨(r * 8 + c).toNat, by omega, by omega, by omega⟩

theorem Spec.attacked_iff (a : APos) (t : Sq) (by_ : Player) :
    attacked a t by_ = true ↔
      ∃ (s : Sq) (pc : Piece), a.at s = some pc ∧ pc.owner = by_ ∧ attacksFrom a pc s t = true := by
  unfold attacked
  simp only [List.any_eq_true, Spec.mem_allSqs]
  constructor
  · rintro ⟨s, _, h⟩
    cases hs : a.at s with
    | none => rw [hs] at h; cases h
    | some pc =>
      rw [hs] at h
      simp only [Bool.and_eq_true, decide_eq_true_eq] at h
      exact ⟨s, pc, hs, h.1, h.2⟩
  · rintro ⟨s, pc, hs, ho, ha⟩
    refine ⟨s, APos.onBoard_of_at hs, ?_⟩
    rw [hs]; simp [ho, ha]

/-- which unit directions a slider kind moves along -/
def lineOK : PieceType → Int × Int → Prop
  | .rook, d => d.1 = 0 ∨ d.2 = 0
  | .bishop, d => d.1 ≠ 0 ∧ d.2 ≠ 0
  | .queen, _ => True
  | _, _ => False

/-- a slider on `s` attacks `t` iff `s` is `k ≥ 1` unit steps from `t` along a line of its kind,
with nothing strictly between -/
theorem Spec.attacksFrom_slider_iff (a : APos) (pc : Piece) (s t : Sq)
    (hty : pc.pieceType = .rook ∨ pc.pieceType = .bishop ∨ pc.pieceType = .queen) :
    attacksFrom a pc s t = true ↔
      ∃ (d : Int × Int) (k : Nat), UnitDir d ∧ 1 ≤ k ∧ s = (t.1 + k * d.1, t.2 + k * d.2) ∧
        lineOK pc.pieceType d ∧
        ∀ j : Nat, 1 ≤ j → j < k → a.at (t.1 + j * d.1, t.2 + j * d.2) = none := by
  constructor
  · intro h
    have hgeo : (t.1 - s.1 = 0 ∨ t.2 - s.2 = 0 ∨ (t.1 - s.1).natAbs = (t.2 - s.2).natAbs) ∧
        (t.1 - s.1 ≠ 0 ∨ t.2 - s.2 ≠ 0) ∧ clearBetween a s t = true ∧
        (pc.pieceType = .rook → t.1 - s.1 = 0 ∨ t.2 - s.2 = 0) ∧
        (pc.pieceType = .bishop → t.1 - s.1 ≠ 0 ∧ t.2 - s.2 ≠ 0) := by
      rcases hty with e | e | e <;>
        simp only [attacksFrom, e, Bool.and_eq_true, Bool.or_eq_true, decide_eq_true_eq,
          ne_eq] at h <;>
        refine ⟨?_, ?_, h.2, fun e' => ?_, fun e' => ?_⟩ <;>
        first
          | omega
          | (rw [e] at e'; cases e')
    obtain ⟨hl, hne, hclr, hr, hbi⟩ := hgeo
    obtain ⟨d, k, hd, hk, hs, hd1, hd2⟩ := line_decomp s t ⟨hl, hne⟩
    refine ⟨d, k, hd, hk, hs, ?_, ?_⟩
    · rcases hty with e | e | e <;> simp only [e, lineOK]
      · have := hr e; omega
      · have := hbi e; omega
    · subst hs; exact (clearBetween_ray a t hd hk).1 hclr
  · rintro ⟨d, k, hd, hk, rfl, hline, hclr⟩
    have hc := (clearBetween_ray a t hd hk).2 hclr
    obtain ⟨x, y⟩ := d
    obtain ⟨hx, hy, hne⟩ := hd
    simp only at hx hy hne hc ⊢
    rcases hty with e | e | e <;>
      simp only [attacksFrom, e, hc, lineOK, Bool.and_eq_true, Bool.or_eq_true, decide_eq_true_eq,
        ne_eq, and_true] at hline ⊢ <;>
      rcases hx with rfl | rfl | rfl <;> rcases hy with rfl | rfl | rfl <;> omega

/-! ## The main theorem -/

theorem Spec.sq_add_sub (s : Sq) (r c : Int) : (r + (s.1 - r), c + (s.2 - c)) = s := by
  obtain ⟨a, b⟩ := s
  simp only [Prod.mk.injEq]; omega

/-- the scan as a disjunction of its five parts; for the pawn part the engine looks from `p` one
row *forward for `pl`*, which is where an enemy pawn that attacks `p` stands -/
theorem Game.isTargeted_parts (g : Game) (p : Pos) (pl : Player) :
    g.isTargeted p pl = true ↔
      ((((∃ d, d ∈ Gen.tKingDeltas ∧ g.enemyAt pl .king p d = true)
        ∨ (∃ d, d ∈ Gen.tKnightDeltas ∧ g.enemyAt pl .knight p d = true))
        ∨ (∃ d : Int × Int, (d.1 = forward pl ∧ d.2.natAbs = 1) ∧ g.enemyAt pl .pawn p d = true))
        ∨ (∃ d, d ∈ Gen.tLineRays ∧ g.rayHits pl .rook .queen p d = true))
        ∨ (∃ d, d ∈ Gen.tDiagRays ∧ g.rayHits pl .bishop .queen p d = true) := by
  cases pl <;>
    simp only [Game.isTargeted, Bool.or_eq_true, List.any_eq_true, mem_tPawnW, mem_tPawnB, forward]

/-- **Main theorem** (task item 3): the engine's `is_targeted(p, pl)` answers exactly whether the
rules say `p` is attacked by the opponent of `pl`. -/
theorem Game.isTargeted_iff_attacked (g : Game) {p : Pos} (hp : p.Valid) (pl : Player) :
    g.isTargeted p pl = attacked g.abs (p.row, p.col) pl.other := by
  rw [Bool.eq_iff_iff, Game.isTargeted_parts, Spec.attacked_iff]
  constructor
  · rintro ((((⟨d, hd, he⟩ | ⟨d, hd, he⟩) | ⟨d, hd, he⟩) | ⟨d, hd, hr⟩) | ⟨d, hd, hr⟩)
    · -- king ring
      rw [mem_tKingDeltas] at hd
      obtain ⟨pc, hat, ho, hty⟩ := (g.enemyAt_iff pl _ p d).1 he
      refine ⟨_, pc, hat, ho, ?_⟩
      simp only [attacksFrom, hty, decide_eq_true_eq]; omega
    · -- knight ring
      rw [mem_tKnightDeltas] at hd
      obtain ⟨pc, hat, ho, hty⟩ := (g.enemyAt_iff pl _ p d).1 he
      refine ⟨_, pc, hat, ho, ?_⟩
      simp only [attacksFrom, hty, Bool.or_eq_true, Bool.and_eq_true, decide_eq_true_eq]; omega
    · -- pawns
      obtain ⟨pc, hat, ho, hty⟩ := (g.enemyAt_iff pl _ p d).1 he
      refine ⟨_, pc, hat, ho, ?_⟩
      simp only [attacksFrom, hty, ho, Bool.and_eq_true, decide_eq_true_eq]
      cases pl <;> simp only [forward, Player.other] at hd ⊢ <;> omega
    · -- rank and file rays
      rw [mem_tLineRays] at hd
      obtain ⟨k, pc, h1, hat, ho, hty, hclr⟩ := (g.rayHits_iff pl _ _ hp hd.1).1 hr
      refine ⟨_, pc, hat, ho, ?_⟩
      rw [attacksFrom_slider_iff _ _ _ _ (by rcases hty with e | e <;> simp [e])]
      refine ⟨d, k, hd.1, h1, rfl, ?_, hclr⟩
      rcases hty with e | e <;> simp only [e, lineOK]
      exact hd.2
    · -- diagonal rays
      rw [mem_tDiagRays] at hd
      obtain ⟨k, pc, h1, hat, ho, hty, hclr⟩ := (g.rayHits_iff pl _ _ hp hd.1).1 hr
      refine ⟨_, pc, hat, ho, ?_⟩
      rw [attacksFrom_slider_iff _ _ _ _ (by rcases hty with e | e <;> simp [e])]
      refine ⟨d, k, hd.1, h1, rfl, ?_, hclr⟩
      rcases hty with e | e <;> simp only [e, lineOK]
      exact hd.2
  · rintro ⟨s, pc, hat, ho, hatt⟩
    have hat' : g.abs.at (p.row + (s.1 - p.row), p.col + (s.2 - p.col)) = some pc := by
      rw [sq_add_sub]; exact hat
    have slider : ∀ (hty : pc.pieceType = .rook ∨ pc.pieceType = .bishop ∨ pc.pieceType = .queen),
        (∃ d, d ∈ Gen.tLineRays ∧ g.rayHits pl .rook .queen p d = true)
        ∨ (∃ d, d ∈ Gen.tDiagRays ∧ g.rayHits pl .bishop .queen p d = true) := by
      intro hty
      obtain ⟨d, k, hd, hk, rfl, hline, hclr⟩ := (attacksFrom_slider_iff _ _ _ _ hty).1 hatt
      by_cases hl : d.1 = 0 ∨ d.2 = 0
      · left
        refine ⟨d, (mem_tLineRays d).2 ⟨hd, hl⟩,
          (g.rayHits_iff pl _ _ hp hd).2 ⟨k, pc, hk, hat, ho, ?_, hclr⟩⟩
        rcases hty with e | e | e
        · exact .inl e
        · rw [e] at hline; simp only [lineOK] at hline; omega
        · exact .inr e
      · right
        refine ⟨d, (mem_tDiagRays d).2 ⟨hd, by omega⟩,
          (g.rayHits_iff pl _ _ hp hd).2 ⟨k, pc, hk, hat, ho, ?_, hclr⟩⟩
        rcases hty with e | e | e
        · rw [e] at hline; simp only [lineOK] at hline; omega
        · exact .inl e
        · exact .inr e
    cases hty : pc.pieceType with
    | king =>
      refine .inl (.inl (.inl (.inl ⟨(s.1 - p.row, s.2 - p.col), (mem_tKingDeltas _).2 ?_,
        (g.enemyAt_iff pl _ p _).2 ⟨pc, hat', ho, hty⟩⟩)))
      simp only [attacksFrom, hty, decide_eq_true_eq] at hatt
      simp only; omega
    | knight =>
      refine .inl (.inl (.inl (.inr ⟨(s.1 - p.row, s.2 - p.col), (mem_tKnightDeltas _).2 ?_,
        (g.enemyAt_iff pl _ p _).2 ⟨pc, hat', ho, hty⟩⟩)))
      simp only [attacksFrom, hty, Bool.or_eq_true, Bool.and_eq_true, decide_eq_true_eq] at hatt
      simp only; omega
    | pawn =>
      refine .inl (.inl (.inr ⟨(s.1 - p.row, s.2 - p.col), ?_,
        (g.enemyAt_iff pl _ p _).2 ⟨pc, hat', ho, hty⟩⟩))
      simp only [attacksFrom, hty, ho, Bool.and_eq_true, decide_eq_true_eq] at hatt
      cases pl <;> simp only [forward, Player.other] at hatt ⊢ <;> omega
    | rook =>
      rcases slider (.inl hty) with h | h
      · exact .inl (.inr h)
      · exact .inr h
    | bishop =>
      rcases slider (.inr (.inl hty)) with h | h
      · exact .inl (.inr h)
      · exact .inr h
    | queen =>
      rcases slider (.inr (.inr hty)) with h | h
      · exact .inl (.inr h)
      · exact .inr h


/-! ## Corollary: the king-safety test of the legality filter -/

/-- under the representation invariant, a king of `pl` standing on the cached square is the king
the rules find (`Spec.kingSq` returns the *first* such square; `KingInv.unique` makes it the only
one) -/
theorem Game.kingSq_eq_kingPos (g : Game) (pl : Player) (hinv : g.KingInv)
    (hk : g.get (g.kingPos pl) = some ⟨.king, pl⟩) :
    kingSq g.abs pl = some ((g.kingPos pl).row, (g.kingPos pl).col) := by
  have hv : (g.kingPos pl).Valid := by cases pl; exact hinv.wvalid; exact hinv.bvalid
  unfold kingSq
  cases hf : allSqs.find? (fun s => g.abs.at s = some ⟨.king, pl⟩) with
  | none =>
    rw [List.find?_eq_none] at hf
    have := hf ((g.kingPos pl).row, (g.kingPos pl).col)
      ((Spec.mem_allSqs _).2 ((Pos.valid_iff_onBoard _).1 hv))
    rw [← g.get_eq_at _ hv, hk] at this
    simp at this
  | some s =>
    have h1 := List.find?_some hf
    simp only [decide_eq_true_eq] at h1
    have hb := APos.onBoard_of_at h1
    have hv' : (Pos.mk s.1 s.2).Valid := (Pos.valid_iff_onBoard _).2 hb
    have := hinv.unique ⟨s.1, s.2⟩ pl hv' (by rw [g.get_eq_at _ hv']; exact h1)
    rw [this]

/-- **King safety** (task item 4), with the hypothesis stated on the rules' side: if the king the
rules find is on the cached square, the filter's test `!is_targeted(king_pos, pl)` is `!inCheck`. -/
theorem Game.kingSafe_iff' (g : Game) (pl : Player) (hv : (g.kingPos pl).Valid)
    (hk : kingSq g.abs pl = some ((g.kingPos pl).row, (g.kingPos pl).col)) :
    (!g.isTargeted (g.kingPos pl) pl) = !inCheck g.abs pl := by
  rw [g.isTargeted_iff_attacked hv pl]
  unfold inCheck
  rw [hk]

/-- **King safety**, with the hypotheses stated on the engine's side. `king_exists` only tests the
*kind* of the piece on the cached square, so the owner is asked for separately. -/
theorem Game.kingSafe_iff (g : Game) (pl : Player) (hex : g.kingExists pl = true)
    (hinv : g.KingInv)
    (hown : ∀ pc, g.get (g.kingPos pl) = some pc → pc.owner = pl) :
    (!g.isTargeted (g.kingPos pl) pl) = !inCheck g.abs pl := by
  have hv : (g.kingPos pl).Valid := by cases pl; exact hinv.wvalid; exact hinv.bvalid
  apply g.kingSafe_iff' pl hv
  apply g.kingSq_eq_kingPos pl hinv
  unfold Game.kingExists at hex
  cases hg : g.get (g.kingPos pl) with
  | none => rw [hg] at hex; cases hex
  | some pc =>
    rw [hg] at hex
    have ho := hown pc hg
    obtain ⟨ty, ow⟩ := pc
    simp only [decide_eq_true_eq] at hex ho
    subst hex; subst ho; rfl

/-- without a king of `pl` the rules never report check (so the equation of `kingSafe_iff` can fail
there: the engine still scans the stale cached square) -/
theorem Spec.inCheck_of_no_king (a : APos) (pl : Player) (h : kingSq a pl = none) :
    inCheck a pl = false := by
  unfold inCheck; rw [h]


/-! ## L2: the generators of knight and sliders -/

set_option linter.unusedSimpArgs false in
/-- `Spec.pseudo` for a piece that is neither pawn nor king, unfolded -/
theorem Spec.pseudo_simple_iff (a : APos) (u : UciMove) (pc : Piece) (hsrc : a.at u.src = some pc)
    (hp : pc.pieceType ≠ .pawn) (hk : pc.pieceType ≠ .king) :
    pseudo a u = true ↔
      onBoard u.dst = true ∧ pc.owner = a.side ∧ (∀ o, a.at u.dst = some o → o.owner ≠ a.side) ∧
        u.promo = none ∧ attacksFrom a pc u.src u.dst = true := by
  have hb := APos.onBoard_of_at hsrc
  unfold pseudo
  rw [hsrc]
  cases hd : a.at u.dst with
  | none =>
    cases hty : pc.pieceType <;>
      simp_all only [ne_eq, not_true_eq_false, not_false_eq_true, Bool.and_eq_true, Bool.true_and, decide_eq_true_eq,
        Bool.not_eq_true', Bool.not_false, Option.isNone_iff_eq_none, reduceCtorEq,
        false_implies, implies_true, true_and, Bool.false_eq_true]
  | some o =>
    cases hty : pc.pieceType <;>
      simp_all only [ne_eq, not_true_eq_false, not_false_eq_true, Bool.and_eq_true, Bool.true_and, decide_eq_true_eq,
        Bool.not_eq_true', decide_eq_false_iff_not, Option.isNone_iff_eq_none, reduceCtorEq,
        Option.some.injEq, forall_eq', true_and]

/-- knight geometry between two squares -/
def KnightGeo (p q : Pos) : Prop :=
  ((q.row - p.row).natAbs = 1 ∧ (q.col - p.col).natAbs = 2) ∨
  ((q.row - p.row).natAbs = 2 ∧ (q.col - p.col).natAbs = 1)

/-- `q` does not hold a piece of the side to move -/
def NotOwn (g : Game) (q : Pos) : Prop := ∀ o, g.get q = some o → o.owner ≠ g.player

/-- **`get_knight_moves`**: exactly the knight jumps to valid squares not held by an own piece -/
theorem Game.knightMoves_spec (g : Game) (pc : Piece) (p : Pos) (m : Move) :
    m ∈ g.knightMoves pc p ↔
      ∃ q : Pos, q.Valid ∧ KnightGeo p q ∧ NotOwn g q ∧ m = .normal pc p q (g.get q) := by
  unfold Game.knightMoves
  simp only [List.mem_flatMap]
  constructor
  · rintro ⟨d, hd, hm⟩
    rw [mem_knightDeltas] at hd
    cases hq : p.add d with
    | none => rw [hq] at hm; simp at hm
    | some q =>
      rw [hq] at hm
      obtain ⟨rfl, hb⟩ := (Pos.add_eq_some_iff _ _ _).1 hq
      refine ⟨_, (Pos.valid_iff_onBoard _).2 hb, ?_, ?_, ?_⟩
      · unfold KnightGeo; simp only; omega
      · intro o ho
        simp only [ho] at hm
        intro hown
        simp [hown] at hm
      · cases hg : g.get ⟨p.row + d.1, p.col + d.2⟩ with
        | none => simpa [hg] using hm
        | some o =>
          simp only [hg] at hm
          by_cases hown : o.owner = g.player
          · simp [hown] at hm
          · simpa [hown] using hm
  · rintro ⟨q, hv, hgeo, hno, rfl⟩
    refine ⟨(q.row - p.row, q.col - p.col), (mem_knightDeltas _).2 hgeo, ?_⟩
    have hq : p.add (q.row - p.row, q.col - p.col) = some q := by
      rw [Pos.add_eq_some_iff]
      refine ⟨?_, (Pos.valid_iff_onBoard _).1 hv⟩
      cases q; simp only [Pos.mk.injEq]; omega
    rw [hq]
    cases hg : g.get q with
    | none => simp [hg]
    | some o => simp [hg, hno o hg]


theorem ray_shift (r c : Int) (d : Int × Int) (k : Nat) :
    r + ((k + 1 : Nat) : Int) * d.1 = r + d.1 + k * d.1 ∧
    c + ((k + 1 : Nat) : Int) * d.2 = c + d.2 + k * d.2 := by
  simp only [Int.natCast_add, Int.add_mul, Int.natCast_one, Int.one_mul]; omega

/-- **one ray of `search_deltas!`**, general fuel: the generated moves go to the empty squares before
the first piece of the ray and to that piece's square if it is not an own piece -/
theorem Game.rayMoves_iff (g : Game) (pc : Piece) (start : Pos) (d : Int × Int) (n : Nat) (p : Pos)
    (m : Move) :
    m ∈ g.rayMoves pc start p d n ↔
      ∃ k : Nat, 1 ≤ k ∧ k ≤ n ∧ onBoard (p.row + k * d.1, p.col + k * d.2) = true ∧
        (∀ j : Nat, 1 ≤ j → j < k →
          onBoard (p.row + j * d.1, p.col + j * d.2) = true ∧
          g.abs.at (p.row + j * d.1, p.col + j * d.2) = none) ∧
        (∀ o, g.abs.at (p.row + k * d.1, p.col + k * d.2) = some o → o.owner ≠ g.player) ∧
        m = .normal pc start ⟨p.row + k * d.1, p.col + k * d.2⟩
              (g.abs.at (p.row + k * d.1, p.col + k * d.2)) := by
  induction n generalizing p with
  | zero =>
    simp only [Game.rayMoves, List.not_mem_nil, false_iff]
    rintro ⟨k, h1, h2, _⟩; omega
  | succ n ih =>
    unfold Game.rayMoves
    cases hq : p.add d with
    | none =>
      rw [Pos.add_eq_none_iff] at hq
      simp only [List.not_mem_nil, false_iff]
      rintro ⟨k, h1, _, hk, hj, _⟩
      by_cases hk1 : k = 1
      · subst hk1
        simp only [Int.natCast_one, Int.one_mul] at hk
        rw [hq] at hk; cases hk
      · have := (hj 1 (by omega) (by omega)).1
        simp only [Int.natCast_one, Int.one_mul] at this
        rw [hq] at this; cases this
    | some q =>
      obtain ⟨rfl, hb⟩ := (Pos.add_eq_some_iff _ _ _).1 hq
      simp only at hb
      have hg := g.get_eq_at ⟨p.row + d.1, p.col + d.2⟩ ((Pos.valid_iff_onBoard _).2 hb)
      simp only at hg ⊢
      cases hc : g.get ⟨p.row + d.1, p.col + d.2⟩ with
      | some other =>
        rw [hc] at hg
        simp only
        constructor
        · intro hm
          by_cases hown : other.owner = g.player
          · simp [hown] at hm
          · simp only [ne_eq, hown, not_false_eq_true, ↓reduceIte, List.mem_singleton] at hm
            refine ⟨1, by omega, by omega, ?_, fun j a b => by omega, ?_, ?_⟩
            · simpa only [Int.natCast_one, Int.one_mul] using hb
            · simp only [Int.natCast_one, Int.one_mul, ← hg, Option.some.injEq]
              rintro o rfl; exact hown
            · simp only [Int.natCast_one, Int.one_mul, ← hg]; exact hm
        · rintro ⟨k, h1, _, hk, hj, hno, rfl⟩
          by_cases hk1 : k = 1
          · subst hk1
            simp only [Int.natCast_one, Int.one_mul, ← hg] at hno ⊢
            simp [hno other rfl]
          · have := (hj 1 (by omega) (by omega)).2
            simp only [Int.natCast_one, Int.one_mul] at this
            rw [← hg] at this; cases this
      | none =>
        rw [hc] at hg
        simp only [List.mem_cons]
        rw [ih]
        simp only
        constructor
        · rintro (rfl | ⟨k, h1, h2, hk, hj, hno, rfl⟩)
          · refine ⟨1, by omega, by omega, ?_, fun j a b => by omega, ?_, ?_⟩
            · simpa only [Int.natCast_one, Int.one_mul] using hb
            · simp only [Int.natCast_one, Int.one_mul, ← hg]
              intro o ho; cases ho
            · simp only [Int.natCast_one, Int.one_mul, ← hg]
          · obtain ⟨e1, e2⟩ := ray_shift p.row p.col d k
            refine ⟨k + 1, by omega, by omega, ?_, ?_, ?_, ?_⟩
            · rw [e1, e2]; exact hk
            · intro j hj1 hj2
              by_cases hj0 : j = 1
              · subst hj0
                simp only [Int.natCast_one, Int.one_mul]
                exact ⟨hb, hg.symm⟩
              · obtain ⟨j', rfl⟩ : ∃ j', j = j' + 1 := ⟨j - 1, by omega⟩
                obtain ⟨f1, f2⟩ := ray_shift p.row p.col d j'
                rw [f1, f2]; exact hj j' (by omega) (by omega)
            · rw [e1, e2]; exact hno
            · rw [e1, e2]
        · rintro ⟨k, h1, h2, hk, hj, hno, rfl⟩
          by_cases hk1 : k = 1
          · subst hk1
            left
            simp only [Int.natCast_one, Int.one_mul, ← hg]
          · right
            obtain ⟨k', rfl⟩ : ∃ k', k = k' + 1 := ⟨k - 1, by omega⟩
            obtain ⟨e1, e2⟩ := ray_shift p.row p.col d k'
            rw [e1, e2] at hk hno ⊢
            refine ⟨k', by omega, by omega, hk, ?_, hno, rfl⟩
            intro j hj1 hj2
            have := hj (j + 1) (by omega) (by omega)
            obtain ⟨f1, f2⟩ := ray_shift p.row p.col d j
            rw [f1, f2] at this; exact this

theorem ray_flip (x : Int) {k j : Nat} (h : j ≤ k) (d : Int) :
    x + k * d + j * (-d) = x + ((k - j : Nat) : Int) * d := by
  rw [Int.natCast_sub h, Int.sub_mul, Int.mul_neg]; omega

theorem UnitDir.neg {d : Int × Int} (h : UnitDir d) : UnitDir (-d.1, -d.2) := by
  unfold UnitDir at *; simp only at *; omega

theorem lineOK_neg {ty : PieceType} {d : Int × Int} (h : lineOK ty d) : lineOK ty (-d.1, -d.2) := by
  cases ty <;> simp only [lineOK] at * <;> omega

/-- the slider lemma read from the slider's own square outward (the direction the generator scans) -/
theorem Spec.attacksFrom_slider_iff_fwd (a : APos) (pc : Piece) (s t : Sq)
    (hty : pc.pieceType = .rook ∨ pc.pieceType = .bishop ∨ pc.pieceType = .queen) :
    attacksFrom a pc s t = true ↔
      ∃ (e : Int × Int) (k : Nat), UnitDir e ∧ 1 ≤ k ∧ t = (s.1 + k * e.1, s.2 + k * e.2) ∧
        lineOK pc.pieceType e ∧
        ∀ j : Nat, 1 ≤ j → j < k → a.at (s.1 + j * e.1, s.2 + j * e.2) = none := by
  rw [attacksFrom_slider_iff a pc s t hty]
  constructor
  · rintro ⟨d, k, hd, hk, rfl, hl, hc⟩
    refine ⟨(-d.1, -d.2), k, hd.neg, hk, ?_, lineOK_neg hl, ?_⟩
    · obtain ⟨t1, t2⟩ := t
      simp only [Int.mul_neg, Prod.mk.injEq]; omega
    · intro j h1 h2
      simp only
      rw [ray_flip _ (by omega), ray_flip _ (by omega)]
      exact hc (k - j) (by omega) (by omega)
  · rintro ⟨e, k, he, hk, rfl, hl, hc⟩
    refine ⟨(-e.1, -e.2), k, he.neg, hk, ?_, lineOK_neg hl, ?_⟩
    · obtain ⟨s1, s2⟩ := s
      simp only [Int.mul_neg, Prod.mk.injEq]; omega
    · intro j h1 h2
      simp only
      rw [ray_flip _ (by omega), ray_flip _ (by omega)]
      exact hc (k - j) (by omega) (by omega)

/-- **`search_deltas!` over a list of unit rays** from a valid square -/
theorem Game.slideMoves_spec (g : Game) (pc : Piece) {p : Pos} (hp : p.Valid)
    (rays : List (Int × Int)) (hr : ∀ d ∈ rays, UnitDir d) (m : Move) :
    m ∈ g.slideMoves pc p rays ↔
      ∃ d ∈ rays, ∃ k : Nat, 1 ≤ k ∧
        (Pos.mk (p.row + k * d.1) (p.col + k * d.2)).Valid ∧
        (∀ j : Nat, 1 ≤ j → j < k → g.get ⟨p.row + j * d.1, p.col + j * d.2⟩ = none) ∧
        NotOwn g ⟨p.row + k * d.1, p.col + k * d.2⟩ ∧
        m = .normal pc p ⟨p.row + k * d.1, p.col + k * d.2⟩
              (g.get ⟨p.row + k * d.1, p.col + k * d.2⟩) := by
  unfold Game.slideMoves
  simp only [List.mem_flatMap, Game.rayMoves_iff]
  constructor
  · rintro ⟨d, hd, k, h1, _, hb, hj, hno, rfl⟩
    have hv := (Pos.valid_iff_onBoard ⟨p.row + k * d.1, p.col + k * d.2⟩).2 hb
    have hg := g.get_eq_at _ hv
    simp only at hg
    refine ⟨d, hd, k, h1, hv, ?_, ?_, ?_⟩
    · intro j a b
      rw [g.get_eq_at _ ((Pos.valid_iff_onBoard ⟨_, _⟩).2 (hj j a b).1)]
      exact (hj j a b).2
    · intro o ho; rw [hg] at ho; exact hno o ho
    · rw [hg]
  · rintro ⟨d, hd, k, h1, hv, hj, hno, rfl⟩
    have hb := (Pos.valid_iff_onBoard ⟨p.row + k * d.1, p.col + k * d.2⟩).1 hv
    have hg := g.get_eq_at _ hv
    simp only at hg hb
    refine ⟨d, hd, k, h1, ray_le_seven hp (hr d hd) hb, hb, ?_, ?_, ?_⟩
    · intro j a b
      have hbj := ray_between_onBoard hp (hr d hd) hb b
      refine ⟨hbj, ?_⟩
      rw [← g.get_eq_at ⟨_, _⟩ ((Pos.valid_iff_onBoard ⟨_, _⟩).2 hbj)]
      exact hj j a b
    · intro o ho; rw [← hg] at ho; exact hno o ho
    · rw [hg]

/-- a slider's generated moves, in the rules' words -/
theorem Game.slideMoves_attacks (g : Game) (pc : Piece) {p : Pos} (hp : p.Valid)
    (hty : pc.pieceType = .rook ∨ pc.pieceType = .bishop ∨ pc.pieceType = .queen)
    (rays : List (Int × Int)) (hr : ∀ d, d ∈ rays ↔ UnitDir d ∧ lineOK pc.pieceType d) (m : Move) :
    m ∈ g.slideMoves pc p rays ↔
      ∃ q : Pos, q.Valid ∧ attacksFrom g.abs pc (p.row, p.col) (q.row, q.col) = true ∧
        NotOwn g q ∧ m = .normal pc p q (g.get q) := by
  rw [g.slideMoves_spec pc hp rays (fun d hd => ((hr d).1 hd).1)]
  constructor
  · rintro ⟨d, hd, k, h1, hv, hj, hno, rfl⟩
    refine ⟨_, hv, ?_, hno, rfl⟩
    rw [attacksFrom_slider_iff_fwd _ _ _ _ hty]
    refine ⟨d, k, ((hr d).1 hd).1, h1, rfl, ((hr d).1 hd).2, ?_⟩
    intro j a b
    have hbj := ray_between_onBoard hp ((hr d).1 hd).1 ((Pos.valid_iff_onBoard ⟨_, _⟩).1 hv) b
    rw [← g.get_eq_at ⟨_, _⟩ ((Pos.valid_iff_onBoard ⟨_, _⟩).2 hbj)]
    exact hj j a b
  · rintro ⟨q, hv, hatt, hno, rfl⟩
    obtain ⟨e, k, he, hk, hq, hl, hc⟩ := (attacksFrom_slider_iff_fwd _ _ _ _ hty).1 hatt
    simp only [Prod.mk.injEq] at hq
    obtain ⟨qr, qc⟩ := q
    simp only at hq
    obtain ⟨rfl, rfl⟩ := hq
    refine ⟨e, (hr e).2 ⟨he, hl⟩, k, hk, hv, ?_, hno, rfl⟩
    intro j a b
    have hbj := ray_between_onBoard hp he ((Pos.valid_iff_onBoard ⟨_, _⟩).1 hv) b
    rw [g.get_eq_at ⟨_, _⟩ ((Pos.valid_iff_onBoard ⟨_, _⟩).2 hbj)]
    exact hc j a b


/-- knight geometry is the rules' knight attack -/
theorem Spec.attacksFrom_knight_iff (a : APos) (pc : Piece) (hty : pc.pieceType = .knight)
    (p q : Pos) : attacksFrom a pc (p.row, p.col) (q.row, q.col) = true ↔ KnightGeo p q := by
  simp only [attacksFrom, hty, KnightGeo, Bool.or_eq_true, Bool.and_eq_true, decide_eq_true_eq]

theorem Game.knightMoves_attacks (g : Game) (pc : Piece) (hty : pc.pieceType = .knight) (p : Pos)
    (m : Move) :
    m ∈ g.knightMoves pc p ↔
      ∃ q : Pos, q.Valid ∧ attacksFrom g.abs pc (p.row, p.col) (q.row, q.col) = true ∧
        NotOwn g q ∧ m = .normal pc p q (g.get q) := by
  rw [Game.knightMoves_spec]
  simp only [attacksFrom_knight_iff _ _ hty]

/-- **From a generator's description to `Spec.pseudo`** for a piece that is neither pawn nor king:
if a list holds exactly the `Normal` moves of `pc` from `p` to the valid squares it attacks that
hold no own piece, then its `toSpec` image is exactly the set of pseudo-legal moves from `p`. -/
theorem Game.gen_pseudo_iff (g : Game) {pc : Piece} {p : Pos} (hp : p.Valid)
    (hg : g.get p = some pc) (hown : pc.owner = g.player)
    (hnp : pc.pieceType ≠ .pawn) (hnk : pc.pieceType ≠ .king) (L : List Move)
    (hL : ∀ m, m ∈ L ↔ ∃ q : Pos, q.Valid ∧
      attacksFrom g.abs pc (p.row, p.col) (q.row, q.col) = true ∧ NotOwn g q ∧
      m = .normal pc p q (g.get q)) (u : UciMove) :
    (pseudo g.abs u = true ∧ u.src = (p.row, p.col)) ↔ ∃ m ∈ L, m.toSpec = u := by
  have hat : g.abs.at (p.row, p.col) = some pc := by rw [← g.get_eq_at p hp]; exact hg
  constructor
  · rintro ⟨hps, hsrc⟩
    obtain ⟨us, ud, upr⟩ := u
    simp only at hsrc; subst hsrc
    obtain ⟨hb, _, hno, hpr, hatt⟩ := (pseudo_simple_iff g.abs _ pc hat hnp hnk).1 hps
    simp only at hb hno hpr hatt
    have hv : (Pos.mk ud.1 ud.2).Valid := (Pos.valid_iff_onBoard _).2 hb
    refine ⟨.normal pc p ⟨ud.1, ud.2⟩ (g.get ⟨ud.1, ud.2⟩), (hL _).2 ⟨_, hv, hatt, ?_, rfl⟩, ?_⟩
    · intro o ho
      rw [g.get_eq_at _ hv] at ho
      exact hno o ho
    · simp only [Move.toSpec, hpr]
  · rintro ⟨m, hm, rfl⟩
    obtain ⟨q, hv, hatt, hno, rfl⟩ := (hL m).1 hm
    refine ⟨?_, rfl⟩
    rw [pseudo_simple_iff g.abs _ pc hat hnp hnk]
    refine ⟨(Pos.valid_iff_onBoard _).1 hv, hown, ?_, rfl, hatt⟩
    intro o ho
    simp only [Move.toSpec] at ho
    rw [← g.get_eq_at _ hv] at ho
    exact hno o ho

/-- **L2 for knight, rook, bishop and queen**: for an own piece `pc` of one of these kinds on the
valid square `p`, `Piece::get_moves` yields (up to `toSpec`) exactly the pseudo-legal moves of the
rules that start on `p`. -/
theorem Game.pieceMoves_pseudo_iff (g : Game) {pc : Piece} {p : Pos} (hp : p.Valid)
    (hg : g.get p = some pc) (hown : pc.owner = g.player)
    (hnp : pc.pieceType ≠ .pawn) (hnk : pc.pieceType ≠ .king) (u : UciMove) :
    (pseudo g.abs u = true ∧ u.src = (p.row, p.col)) ↔ ∃ m ∈ g.pieceMoves pc p, m.toSpec = u := by
  apply g.gen_pseudo_iff hp hg hown hnp hnk
  intro m
  unfold Game.pieceMoves
  cases hty : pc.pieceType with
  | pawn => exact absurd hty hnp
  | king => exact absurd hty hnk
  | knight => exact g.knightMoves_attacks pc hty p m
  | rook =>
    refine g.slideMoves_attacks pc hp (.inl hty) _ (fun d => ?_) m
    rw [mem_rookRays, hty]; rfl
  | bishop =>
    refine g.slideMoves_attacks pc hp (.inr (.inl hty)) _ (fun d => ?_) m
    rw [mem_bishopRays, hty]; rfl
  | queen =>
    refine g.slideMoves_attacks pc hp (.inr (.inr hty)) _ (fun d => ?_) m
    rw [mem_queenRays, hty]; simp only [lineOK, and_true]


/-! ## Non-vacuity: a concrete position on which hypotheses and conclusions are exercised -/

/-- white Ke1, Qd2, Ng1; black Ra1, Ke8; white to move -/
def demoBoard_x : Vector (Option Piece) 64 :=
  (((((Vector.replicate 64 none).set 4 (some ⟨.king, .white⟩)).set 0 (some ⟨.rook, .black⟩)).set 60
    (some ⟨.king, .black⟩)).set 11 (some ⟨.queen, .white⟩)).set 6 (some ⟨.knight, .white⟩)

def demo_x : Game :=
  { score := 0, player := .white, moveStack := [], endgame := false, hash := 0,
    board := demoBoard_x, pastScores := Vector.replicate 64 0, pastHashes := Vector.replicate 64 0,
    wking := ⟨0, 4⟩, bking := ⟨7, 4⟩, state := [8] }

-- the rook on a1 gives check along the first rank: both sides of the main theorem are `true`
example : demo_x.isTargeted ⟨0, 4⟩ .white = true := by decide
example : attacked demo_x.abs (0, 4) .black = true := by decide
example : demo_x.firstOnRay ⟨0, 4⟩ (0, -1) 7 = some ⟨.rook, .black⟩ := by decide
-- … and both are `false` one square up
example : demo_x.isTargeted ⟨1, 4⟩ .white = false := by decide
example : attacked demo_x.abs (1, 4) .black = false := by decide
-- the main theorem instantiated
example : demo_x.isTargeted ⟨0, 4⟩ .white = attacked demo_x.abs (0, 4) .black :=
  demo_x.isTargeted_iff_attacked (p := ⟨0, 4⟩) (by decide) .white
-- the hypotheses of `kingSafe_iff'` hold here
example : (demo_x.kingPos .white).Valid ∧ kingSq demo_x.abs .white = some (0, 4) := by decide
example : (!demo_x.isTargeted (demo_x.kingPos .white) .white) = !inCheck demo_x.abs .white :=
  demo_x.kingSafe_iff' .white (by decide) (by decide)
-- the generators are not empty and the pseudo-legal set is not empty
example : (demo_x.knightMoves ⟨.knight, .white⟩ ⟨0, 6⟩).length = 3 := by decide
example : (demo_x.pieceMoves ⟨.queen, .white⟩ ⟨1, 3⟩).length = 22 := by decide
example : pseudo demo_x.abs ⟨(0, 6), (2, 5), none⟩ = true := by decide
example : ∃ m ∈ demo_x.pieceMoves ⟨.knight, .white⟩ ⟨0, 6⟩, m.toSpec = ⟨(0, 6), (2, 5), none⟩ :=
  (demo_x.pieceMoves_pseudo_iff (p := ⟨0, 6⟩) (by decide) (by decide) (by decide) (by decide)
    (by decide) _).1 ⟨by decide, rfl⟩

/-- **Remark on task item 1.** Off the board `Spec.APos.at` reads `none` (`APos.at_offBoard`), but
`Game.get` does *not*: it only tests `idx < 64`, and `idx` aliases, e.g. `⟨0, 11⟩` with `⟨1, 3⟩`.
Every square the scanners read comes out of `Pos.add`, hence is valid, so this never matters for
`isTargeted` — but "`get` is `none` off the board" is false as a statement about the model. -/
example : demo_x.get ⟨0, 11⟩ = some ⟨.queen, .white⟩ ∧ demo_x.abs.at (0, 11) = none := by decide

end Chess

#print axioms Chess.Game.get_eq_at
#print axioms Chess.Pos.add_eq_some_iff
#print axioms Chess.Game.firstOnRay_iff
#print axioms Chess.Game.firstOnRay_iff_get
#print axioms Chess.Game.firstOnRay_seven_iff
#print axioms Chess.Game.firstOnRay_fuel
#print axioms Chess.Game.isTargeted_iff_attacked
#print axioms Chess.Game.kingSq_eq_kingPos
#print axioms Chess.Game.kingSafe_iff'
#print axioms Chess.Game.kingSafe_iff
#print axioms Chess.Game.knightMoves_spec
#print axioms Chess.Game.rayMoves_iff
#print axioms Chess.Game.slideMoves_spec
#print axioms Chess.Game.slideMoves_attacks
#print axioms Chess.Game.gen_pseudo_iff
#print axioms Chess.Game.pieceMoves_pseudo_iff
