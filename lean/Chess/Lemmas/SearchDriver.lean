import Chess.Lemmas.SearchDriverAux

/-!
# The search driver: legality of the answer (C06), stop semantics (C07), depth limit (C08),
principal variations (C18), reset (C19)

Everything is proved for EVERY game interface `Ops G M`, every stop oracle `runs : Nat → Bool`
(the value of the flag at the `k`-th poll) and every transposition table.

The Zobrist hypothesis `HashOk` (no collision between admissible positions with different move
lists) is a *named hypothesis* of the theorems that need it, never an axiom.

## Statement found false as first written

`driver_depths` with the lower bound `1 ≤ info.depth` "whatever the table holds" is FALSE for the
model (and for the Rust loop `for depth in starting_depth..=limit`): a table holding an *exact root
entry of depth 0* makes the first iteration run, and be reported, with depth 0
(`driver_depth_zero_of_entry`, and the concrete `example` in section 9). This is a defect of the
statement only, not of the engine: no entry of depth 0 is ever stored (`DepthPos` is an invariant:
`driver_preserves_DepthPos`, `history_preserves_DepthPos`, `DepthPos_empty`). Hence:
* `driver_depths_partial` — unconditional: consecutive depths from `min cached limit`, never above
  the limit (this is the part that matters for C08: a cached entry deeper than the limit);
* `driver_depths` — with the hypothesis that the exact root entry, if any, has depth `≥ 1`;
* `session_depths` — no hypothesis at all for tables reached from the empty one.

The un-validated root hit: `driver_returns_cached_move` shows that without `TTInv` the driver
returns whatever move the root entry carries, so `TTInv` (i.e. `HashOk`) cannot be dropped from
`driver_sound`.
-/
namespace Chess.Search

variable {G M : Type} [DecidableEq M]

/-! ## Definitions -/

/-- every cached best move is a checked (legal) move in every admissible position with that hash -/
def TTInv (o : Ops G M) (P : G → Prop) (tt : Table M) : Prop :=
  ∀ h e m, tt[h]? = some e → e.pv = some m → ∀ g, P g → o.hash g = h → m ∈ o.checked g

/-- the Zobrist hypothesis: admissible positions with the same hash have the same move list -/
def HashOk (o : Ops G M) (P : G → Prop) : Prop :=
  ∀ g g', P g → P g' → o.hash g = o.hash g' → o.checked g = o.checked g'

/-- admissible positions are closed under legal moves -/
def Closed (o : Ops G M) (P : G → Prop) : Prop :=
  ∀ g m, P g → m ∈ o.checked g → P (o.push g m)

/-- a line of moves each of which is a checked move in the position reached -/
def LegalLine (o : Ops G M) : G → List M → Prop
  | _, [] => True
  | g, m :: ms => m ∈ o.checked g ∧ LegalLine o (o.push g m) ms

/-- no entry of depth 0 (the engine never stores one) -/
def DepthPos (tt : Table M) : Prop := ∀ (h : UInt64) (e : Entry M), tt[h]? = some e → 1 ≤ e.depth

/-! ## The driver, unfolded -/

/-- `max_depth.unwrap_or(MAX_DEPTH).clamp(1, MAX_DEPTH)` -/
def limitOf (md : Option Nat) : Nat := min (max (md.getD maxDepth) 1) maxDepth

/-- the depth of the exact root entry, else 1 -/
def cachedDepth (o : Ops G M) (g : G) (tt : Table M) : Nat :=
  match tt[o.hash g]? with
  | some e => if e.flag = .exact then e.depth else 1
  | none => 1

/-- the first depth searched -/
def startDepth (o : Ops G M) (g : G) (tt : Table M) (md : Option Nat) : Nat :=
  min (cachedDepth o g tt) (limitOf md)

/-- the state in which the driver starts -/
def initSt (tt : Table M) (off : Bool) : St M :=
  { tt := tt, killers := Array.replicate Gen.killerLen none,
    history := Array.replicate Gen.historyLen 0, polls := 0, ttOff := off }

/-- the score is in the mate range: the driver stops deepening -/
def mateRange (sc : Int) : Prop := sc > scoreMax - Gen.exitHi ∨ sc < scoreMin + Gen.exitLo

/-- the exit test of the iterative-deepening loop -/
def exitCond (limit depth : Nat) (only : Bool) (sc : Int) : Bool :=
  depth = limit || only || sc > scoreMax - Gen.exitHi || sc < scoreMin + Gen.exitLo

/-- the report of one iteration -/
def mkInfo (o : Ops G M) (g : G) (depth : Nat) (sc : Int) (st : St M) : Info M :=
  ⟨depth, sc, st.tt.size, pvWalk o st.tt depth g⟩

theorem driver_eq (o : Ops G M) (runs : Nat → Bool) (g : G) (tt : Table M) (off : Bool)
    (md : Option Nat) :
    driver o runs g tt off md =
      driverLoop o runs g (limitOf md) (limitOf md - startDepth o g tt md + 1)
        (startDepth o g tt md) (o.checked g).head? [] (initSt tt off) := rfl

theorem driverLoop_zero (o : Ops G M) (runs : Nat → Bool) (g : G) (limit depth : Nat)
    (found : Option M) (infos : List (Info M)) (st : St M) :
    driverLoop o runs g limit 0 depth found infos st = ⟨found, infos.reverse, st, false⟩ := rfl

theorem driverLoop_succ (o : Ops G M) (runs : Nat → Bool) (g : G) (limit fuel depth : Nat)
    (found : Option M) (infos : List (Info M)) (st : St M) :
    driverLoop o runs g limit (fuel + 1) depth found infos st =
      match rootSearch o runs g depth st with
      | none => ⟨found, infos.reverse, st, true⟩
      | some ((bm, sc, only), st') =>
        if exitCond limit depth only sc then
          ⟨bm.or found, (mkInfo o g depth sc st' :: infos).reverse, st', false⟩
        else driverLoop o runs g limit fuel (depth + 1) (bm.or found)
          (mkInfo o g depth sc st' :: infos) st' := rfl

theorem exitCond_false {limit depth : Nat} {only : Bool} {sc : Int}
    (h : ¬ exitCond limit depth only sc = true) :
    depth ≠ limit ∧ only = false ∧ ¬ mateRange sc := by
  unfold exitCond at h
  simp only [Bool.or_eq_true, decide_eq_true_eq, not_or, Bool.not_eq_true] at h
  obtain ⟨⟨⟨h1, h2⟩, h3⟩, h4⟩ := h
  exact ⟨h1, h2, by unfold mateRange; omega⟩

theorem exitCond_true {limit depth : Nat} {only : Bool} {sc : Int}
    (h : exitCond limit depth only sc = true) :
    depth = limit ∨ only = true ∨ mateRange sc := by
  unfold exitCond at h
  simp only [Bool.or_eq_true, decide_eq_true_eq] at h
  unfold mateRange
  rcases h with ((h | h) | h) | h
  · exact Or.inl h
  · exact Or.inr (Or.inl h)
  · exact Or.inr (Or.inr (Or.inl h))
  · exact Or.inr (Or.inr (Or.inr h))

theorem one_le_limitOf (md : Option Nat) : 1 ≤ limitOf md := by
  unfold limitOf maxDepth Gen.maxDepth; omega

theorem limitOf_le_maxDepth (md : Option Nat) : limitOf md ≤ maxDepth := by
  unfold limitOf; omega

theorem limitOf_le_arg {N : Nat} (h : 1 ≤ N) : limitOf (some N) ≤ N := by
  unfold limitOf; simp only [Option.getD_some]; omega

omit [DecidableEq M] in
theorem startDepth_le_limit (o : Ops G M) (g : G) (tt : Table M) (md : Option Nat) :
    startDepth o g tt md ≤ limitOf md := by
  unfold startDepth; omega

/-! ## 4. A move is always answered when there is one (C07), without any hypothesis -/

theorem driverLoop_found_isSome (o : Ops G M) (runs : Nat → Bool) (g : G) (limit fuel depth : Nat)
    (found : Option M) (infos : List (Info M)) (st : St M) (h : found.isSome) :
    (driverLoop o runs g limit fuel depth found infos st).found.isSome := by
  induction fuel generalizing depth found infos st with
  | zero => exact h
  | succ f ih =>
    rw [driverLoop_succ]
    split
    · exact h
    · next bm sc only st' _ =>
      have h' : (bm.or found).isSome := by
        cases bm with
        | none => exact h
        | some _ => rfl
      split
      · exact h'
      · exact ih _ _ _ _ h'

/-- **C07.** Whatever the flag does (in particular if it is down at the very first poll), whatever
the table holds, with or without a depth limit: if the position has a legal move, the driver
answers with a move. -/
theorem driver_found_of_moves (o : Ops G M) (runs : Nat → Bool) (g : G) (tt : Table M)
    (off : Bool) (md : Option Nat) (h : o.checked g ≠ []) :
    (driver o runs g tt off md).found.isSome := by
  rw [driver_eq]
  apply driverLoop_found_isSome
  cases hc : o.checked g with
  | nil => exact absurd hc h
  | cons _ _ => rfl

/-! ## 6. The depth limit (C08) -/

/-- the reports of the loop: the given ones, then consecutive depths from `depth`, none beyond
`limit` -/
theorem driverLoop_infos (o : Ops G M) (runs : Nat → Bool) (g : G) (limit fuel depth : Nat)
    (found : Option M) (infos : List (Info M)) (st : St M) (hd : depth ≤ limit) :
    ∃ new, (driverLoop o runs g limit fuel depth found infos st).infos = infos.reverse ++ new ∧
      new.map (·.depth) = List.range' depth new.length ∧ depth + new.length ≤ limit + 1 := by
  induction fuel generalizing depth found infos st with
  | zero => exact ⟨[], by simp [driverLoop_zero], rfl, by simp only [List.length_nil]; omega⟩
  | succ f ih =>
    rw [driverLoop_succ]
    split
    · exact ⟨[], by simp, rfl, by simp only [List.length_nil]; omega⟩
    · next bm sc only st' _ =>
      split
      · refine ⟨[mkInfo o g depth sc st'], by simp, ?_, by simp only [List.length_singleton]; omega⟩
        simp [mkInfo, List.range'_succ]
      · next hx =>
        have hne := (exitCond_false hx).1
        obtain ⟨new, h1, h2, h3⟩ := ih (depth + 1) (bm.or found) (mkInfo o g depth sc st' :: infos)
          st' (by omega)
        refine ⟨mkInfo o g depth sc st' :: new, ?_, ?_, ?_⟩
        · rw [h1]; simp
        · simp only [List.map_cons, List.length_cons, List.range'_succ, h2]
          rfl
        · simp only [List.length_cons]; omega

/-- **C08, unconditional part.** Whatever the table holds (in particular an exact root entry deeper
than the limit), the depths reported are consecutive, start at `min cached limit` and never exceed
the limit. -/
theorem driver_depths_partial (o : Ops G M) (runs : Nat → Bool) (g : G) (tt : Table M)
    (off : Bool) (md : Option Nat) :
    let out := driver o runs g tt off md
    out.infos.map (·.depth) = List.range' (startDepth o g tt md) out.infos.length ∧
    ∀ info ∈ out.infos, startDepth o g tt md ≤ info.depth ∧ info.depth ≤ limitOf md := by
  intro out
  obtain ⟨new, h1, h2, h3⟩ := driverLoop_infos o runs g (limitOf md)
    (limitOf md - startDepth o g tt md + 1) (startDepth o g tt md) (o.checked g).head? []
    (initSt tt off) (startDepth_le_limit o g tt md)
  have hout : out.infos = new := by
    show (driver o runs g tt off md).infos = new
    rw [driver_eq, h1]; rfl
  rw [hout]
  refine ⟨h2, fun info hi => ?_⟩
  have : info.depth ∈ new.map (·.depth) := List.mem_map_of_mem hi
  rw [h2, List.mem_range'] at this
  obtain ⟨i, hi1, hi2⟩ := this
  omega

omit [DecidableEq M] in
theorem one_le_startDepth (o : Ops G M) (g : G) (tt : Table M) (md : Option Nat)
    (h : ∀ e, tt[o.hash g]? = some e → e.flag = Flag.exact → 1 ≤ e.depth) :
    1 ≤ startDepth o g tt md := by
  have h1 := one_le_limitOf md
  have h2 : 1 ≤ cachedDepth o g tt := by
    unfold cachedDepth
    split
    · next e he =>
      split
      · next hf => exact h e he hf
      · exact Nat.le_refl _
    · exact Nat.le_refl _
  unfold startDepth; omega

/-- **C08.** If the root entry, when exact, has a positive depth (true of every table the engine
can build, see `DepthPos` and `driver_preserves_DepthPos`), every reported depth lies in
`1 ..= limit`, hence is at most `MAX_DEPTH`, and at most `N` for `go depth N`. -/
theorem driver_depths (o : Ops G M) (runs : Nat → Bool) (g : G) (tt : Table M)
    (off : Bool) (md : Option Nat)
    (h : ∀ e, tt[o.hash g]? = some e → e.flag = Flag.exact → 1 ≤ e.depth) :
    let out := driver o runs g tt off md
    out.infos.map (·.depth) = List.range' (startDepth o g tt md) out.infos.length ∧
    ∀ info ∈ out.infos, 1 ≤ info.depth ∧ info.depth ≤ limitOf md ∧ info.depth ≤ maxDepth ∧
      ∀ N, md = some N → 1 ≤ N → info.depth ≤ N := by
  intro out
  obtain ⟨k1, k2⟩ := driver_depths_partial o runs g tt off md
  refine ⟨k1, fun info hi => ?_⟩
  obtain ⟨a, b⟩ := k2 info hi
  have hs := one_le_startDepth o g tt md h
  have hm := limitOf_le_maxDepth md
  refine ⟨by omega, b, by omega, fun N hN h1 => ?_⟩
  subst hN
  have := limitOf_le_arg h1
  omega

/-- The lower bound `1 ≤ depth` does need the hypothesis: with an exact root entry of depth 0
(which the engine never stores) the first iteration is reported with depth 0. -/
theorem driver_depth_zero_of_entry (o : Ops G M) (runs : Nat → Bool) (g : G) (tt : Table M)
    (off : Bool) (md : Option Nat) (e : Entry M) (he : tt[o.hash g]? = some e)
    (hf : e.flag = Flag.exact) (hd : e.depth = 0) :
    ∃ info ∈ (driver o runs g tt off md).infos, info.depth = 0 := by
  have hs : startDepth o g tt md = 0 := by
    unfold startDepth cachedDepth
    rw [he]; simp only [hf, if_true, hd]; omega
  rw [driver_eq, hs, driverLoop_succ]
  have hroot : ∃ r st', rootSearch o runs g 0 (initSt tt off) = some (r, st') := by
    rw [rootSearch_eq]
    split
    · exact ⟨_, _, rfl⟩
    · have : rootHit (ttGet (rootSt (initSt tt off)) (o.hash g)) 0 = some e := by
        show rootHit tt[o.hash g]? 0 = some e
        rw [he]; simp [rootHit, hf]
      rw [this]
      exact ⟨_, _, rfl⟩
  obtain ⟨⟨bm, sc, only⟩, st', hr⟩ := hroot
  rw [hr]
  simp only []
  split
  · exact ⟨mkInfo o g 0 sc st', by simp, rfl⟩
  · obtain ⟨new, h1, _, _⟩ := driverLoop_infos o runs g (limitOf md) (limitOf md - 0) (0 + 1)
      (bm.or (o.checked g).head?) [mkInfo o g 0 sc st'] st' (one_le_limitOf md)
    rw [h1]
    exact ⟨mkInfo o g 0 sc st', by simp, rfl⟩

/-- **Fuel-independence**: with the fuel the driver gives (`fuel + depth = limit + 1`), the
fuel-exhausted branch is never the one that returns. -/
theorem driverLoop_fuel (o : Ops G M) (runs : Nat → Bool) (g : G) (limit fuel depth : Nat)
    (found : Option M) (infos : List (Info M)) (st : St M)
    (hf : fuel + depth = limit + 1) (hd : depth ≤ limit) (k : Nat) :
    driverLoop o runs g limit fuel depth found infos st =
      driverLoop o runs g limit (fuel + k) depth found infos st := by
  induction fuel generalizing depth found infos st with
  | zero => omega
  | succ f ih =>
    rw [show f + 1 + k = (f + k) + 1 by omega, driverLoop_succ, driverLoop_succ]
    split
    · rfl
    · next bm sc only st' _ =>
      split
      · rfl
      · next hx =>
        have hne := (exitCond_false hx).1
        exact ih _ _ _ _ (by omega) (by omega)

/-- the driver with any larger fuel is the same driver -/
theorem driver_fuel (o : Ops G M) (runs : Nat → Bool) (g : G) (tt : Table M) (off : Bool)
    (md : Option Nat) (k : Nat) :
    driver o runs g tt off md =
      driverLoop o runs g (limitOf md) (limitOf md - startDepth o g tt md + 1 + k)
        (startDepth o g tt md) (o.checked g).head? [] (initSt tt off) := by
  rw [driver_eq]
  have := startDepth_le_limit o g tt md
  exact driverLoop_fuel o runs g _ _ _ _ _ _ (by omega) this k

/-- "no crash however long it runs", the killer table: an interior node (`remaining ≥ 2`) of a
search of depth at most `MAX_DEPTH` indexes the killer table inside its bounds -/
theorem killer_index_ok : ∀ depth remaining rd : Nat, depth ≤ maxDepth → remaining + rd = depth →
    2 ≤ remaining → rd < Gen.killerLen := by
  intro depth remaining rd h1 h2 h3
  unfold maxDepth Gen.maxDepth at h1
  unfold Gen.killerLen
  omega

/-- the arithmetic behind the history table: the largest bonus plus the saturation level fits in
16 bits -/
theorem history_bound : Gen.maxDepth ^ 3 + 10000 < 65536 := by decide

/-- a history cell at most 10000 that receives at most `d ^ 3` with `d ≤ MAX_DEPTH` does not
overflow `u16` -/
theorem history_no_overflow : ∀ d h : Nat, d ≤ Gen.maxDepth → h ≤ 10000 → h + d ^ 3 < 65536 := by
  intro d h hd hh
  have := Nat.pow_le_pow_left hd 3
  have := history_bound
  omega

/-! ## 5. Stop semantics (C07) -/

/-- between poll number `n` and the current one, every poll saw the flag set -/
def Polled (runs : Nat → Bool) (n : Nat) (st : St M) : Prop :=
  n ≤ st.polls ∧ ∀ i, n ≤ i → i < st.polls → runs i = true

omit [DecidableEq M] in
theorem polled_nodeInv (o : Ops G M) (runs : Nat → Bool) (n : Nat) :
    NodeInv o runs (fun _ => True) (fun _ => True) (Polled (M := M) runs n) where
  frame := by
    intro st st' h _ hp
    unfold Polled at *
    rw [hp]; exact h
  poll := by
    intro st h hr
    refine ⟨Nat.le_succ_of_le h.1, fun i h1 h2 => ?_⟩
    by_cases hi : i = st.polls
    · rw [hi]; exact hr
    · exact h.2 i h1 (by simp only [pollSt] at h2; omega)
  store := fun _ _ _ _ h _ _ => h
  closed := fun _ _ _ _ => trivial
  deep := fun _ => trivial

omit [DecidableEq M] in
theorem polled_refl (runs : Nat → Bool) (st : St M) : Polled runs st.polls st :=
  ⟨Nat.le_refl _, fun _ h1 h2 => absurd h1 (by omega)⟩

/-- a node that answers has only met polls that saw the flag set -/
theorem node_some_polled_true (o : Ops G M) (runs : Nat → Bool) (remaining : Nat) (g : G)
    (α β rd : Int) (st : St M) {v : Int} {st' : St M}
    (h : node o runs remaining g α β rd st = some (v, st')) :
    st.polls ≤ st'.polls ∧ ∀ i, st.polls ≤ i → i < st'.polls → runs i = true :=
  node_inv (polled_nodeInv o runs st.polls) remaining g α β rd st trivial (polled_refl runs st) h

theorem node_polls_mono (o : Ops G M) (runs : Nat → Bool) (remaining : Nat) (g : G)
    (α β rd : Int) (st : St M) {v : Int} {st' : St M}
    (h : node o runs remaining g α β rd st = some (v, st')) : st.polls ≤ st'.polls :=
  (node_some_polled_true o runs remaining g α β rd st h).1

/-- **A node is aborted only by a cleared flag**: if it does not answer, some poll at or after the
current one saw the flag cleared, and every poll before that one saw it set. Since every caller
propagates `none` without doing anything else, nothing is expanded after that poll. -/
theorem node_none_stopped (o : Ops G M) (runs : Nat → Bool) (remaining : Nat) (g : G)
    (α β rd : Int) (st : St M) (h : node o runs remaining g α β rd st = none) :
    ∃ i, st.polls ≤ i ∧ runs i = false ∧ ∀ j, st.polls ≤ j → j < i → runs j = true := by
  obtain ⟨st1, hp, hr⟩ := node_none_inv (polled_nodeInv o runs st.polls) remaining g α β rd st
    trivial (polled_refl runs st) h
  exact ⟨st1.polls, hp.1, hr, hp.2⟩

/-- conversely a cleared flag at the entry poll aborts the node -/
theorem node_stop_now (o : Ops G M) (runs : Nat → Bool) (remaining : Nat) (g : G)
    (α β rd : Int) (st : St M) (h : runs st.polls = false) :
    node o runs remaining g α β rd st = none := by
  rw [node_eq]; simp [h]

/-- with a flag that stays up no node is ever aborted -/
theorem node_isSome_of_runs (o : Ops G M) (runs : Nat → Bool) (hr : ∀ i, runs i = true)
    (remaining : Nat) (g : G) (α β rd : Int) (st : St M) :
    (node o runs remaining g α β rd st).isSome := by
  cases h : node o runs remaining g α β rd st with
  | some _ => rfl
  | none =>
    obtain ⟨i, _, hi, _⟩ := node_none_stopped o runs remaining g α β rd st h
    rw [hr i] at hi; cases hi

theorem rootSearch_some_polled_true (o : Ops G M) (runs : Nat → Bool) (g : G) (depth : Nat)
    (st : St M) {r : Option M × Int × Bool} {st' : St M}
    (h : rootSearch o runs g depth st = some (r, st')) :
    st.polls ≤ st'.polls ∧ ∀ i, st.polls ≤ i → i < st'.polls → runs i = true := by
  obtain ⟨bm, sc, only⟩ := r
  exact (root_inv (polled_nodeInv o runs st.polls) g depth st trivial (polled_refl runs st)
    trivial h).1

theorem rootSearch_polls_mono (o : Ops G M) (runs : Nat → Bool) (g : G) (depth : Nat)
    (st : St M) {r : Option M × Int × Bool} {st' : St M}
    (h : rootSearch o runs g depth st = some (r, st')) : st.polls ≤ st'.polls :=
  (rootSearch_some_polled_true o runs g depth st h).1

/-- **The root search is aborted only by a cleared flag**, at the first poll that sees it. -/
theorem rootSearch_none_stopped (o : Ops G M) (runs : Nat → Bool) (g : G) (depth : Nat)
    (st : St M) (h : rootSearch o runs g depth st = none) :
    ∃ i, st.polls ≤ i ∧ runs i = false ∧ ∀ j, st.polls ≤ j → j < i → runs j = true := by
  obtain ⟨st1, hp, hr⟩ := root_none_inv (polled_nodeInv o runs st.polls) g depth st
    trivial (polled_refl runs st) h
  exact ⟨st1.polls, hp.1, hr, hp.2⟩

omit [DecidableEq M] in
theorem rootHit_none_of_miss {x : Option (Entry M)} {depth : Nat}
    (h : ∀ e, x = some e → ¬(depth ≤ e.depth ∧ e.flag = Flag.exact)) : rootHit x depth = none := by
  cases hx : rootHit x depth with
  | none => rfl
  | some e =>
    obtain ⟨k1, k2, k3⟩ := rootHit_some hx
    exact absurd ⟨k2, k3⟩ (h e k1)

/-- **Stop at the very first poll**: flag already cleared, at least two legal moves, no usable root
entry: the root search is aborted by the poll of its first child, nothing else is called. -/
theorem rootSearch_stop_immediately (o : Ops G M) (runs : Nat → Bool) (g : G) (depth : Nat)
    (st : St M) (hr : runs st.polls = false) (hl : 2 ≤ (o.checked g).length)
    (hmiss : ∀ e, st.tt[o.hash g]? = some e → ¬(depth ≤ e.depth ∧ e.flag = Flag.exact)) :
    rootSearch o runs g depth st = none := by
  rw [rootSearch_eq, if_neg (by omega)]
  have : rootHit (ttGet (rootSt st) (o.hash g)) depth = none := rootHit_none_of_miss hmiss
  rw [this]
  simp only []
  have hlen : 1 ≤ (rootSorted o g (rootSt st)).length := by
    unfold rootSorted
    rw [length_sortMoves]
    have := length_rootMoves o g
    omega
  cases hs : rootSorted o g (rootSt st) with
  | nil => rw [hs] at hlen; simp at hlen
  | cons m ms =>
    have hn : ∀ a b, node o runs (depth - 1) (o.push g m) a b 1 (rootSt st) = none :=
      fun a b => node_stop_now o runs _ _ _ _ _ _ hr
    unfold rootLoop
    simp [hn, Gen.fullWindowMaxIndex]

/-- the driver reports `stopped` only if some poll saw the flag cleared -/
theorem driverLoop_stopped (o : Ops G M) (runs : Nat → Bool) (g : G) (limit fuel depth : Nat)
    (found : Option M) (infos : List (Info M)) (st : St M)
    (h : (driverLoop o runs g limit fuel depth found infos st).stopped = true) :
    ∃ i, st.polls ≤ i ∧ runs i = false := by
  induction fuel generalizing depth found infos st with
  | zero => cases h
  | succ f ih =>
    rw [driverLoop_succ] at h
    split at h
    · next hn =>
      obtain ⟨i, h1, h2, _⟩ := rootSearch_none_stopped o runs g depth st hn
      exact ⟨i, h1, h2⟩
    · next bm sc only st' hs =>
      split at h
      · cases h
      · obtain ⟨i, h1, h2⟩ := ih _ _ _ _ h
        exact ⟨i, Nat.le_trans (rootSearch_polls_mono o runs g depth st hs) h1, h2⟩

theorem driver_stopped (o : Ops G M) (runs : Nat → Bool) (g : G) (tt : Table M) (off : Bool)
    (md : Option Nat) (h : (driver o runs g tt off md).stopped = true) : ∃ i, runs i = false := by
  rw [driver_eq] at h
  obtain ⟨i, _, hi⟩ := driverLoop_stopped o runs g _ _ _ _ _ _ h
  exact ⟨i, hi⟩

theorem rootSearch_only (o : Ops G M) (runs : Nat → Bool) (g : G) (depth : Nat) (st : St M)
    {bm : Option M} {sc : Int} {only : Bool} {st' : St M}
    (h : rootSearch o runs g depth st = some ((bm, sc, only), st')) :
    only = true ↔ (o.checked g).length = 1 :=
  (root_inv (polled_nodeInv o runs st.polls) g depth st trivial (polled_refl runs st)
    trivial h).2.1

/-- how the loop ends when it has the driver's fuel: stopped by the flag, or its last report is at
the limit, or there is only one move, or the last score is in the mate range -/
theorem driverLoop_exit (o : Ops G M) (runs : Nat → Bool) (g : G) (limit fuel depth : Nat)
    (found : Option M) (infos : List (Info M)) (st : St M)
    (hf : fuel + depth = limit + 1) (hd : depth ≤ limit) :
    (driverLoop o runs g limit fuel depth found infos st).stopped = true ∨
    ∃ pre info, (driverLoop o runs g limit fuel depth found infos st).infos =
        infos.reverse ++ pre ++ [info] ∧
      (info.depth = limit ∨ (o.checked g).length = 1 ∨ mateRange info.score) := by
  induction fuel generalizing depth found infos st with
  | zero => omega
  | succ f ih =>
    rw [driverLoop_succ]
    split
    · exact Or.inl rfl
    · next bm sc only st' hs =>
      split
      · next hx =>
        refine Or.inr ⟨[], mkInfo o g depth sc st', by simp, ?_⟩
        rcases exitCond_true hx with h1 | h1 | h1
        · exact Or.inl h1
        · exact Or.inr (Or.inl ((rootSearch_only o runs g depth st hs).1 h1))
        · exact Or.inr (Or.inr h1)
      · next hx =>
        have hne := (exitCond_false hx).1
        rcases ih (depth + 1) (bm.or found) (mkInfo o g depth sc st' :: infos) st' (by omega)
          (by omega) with h1 | ⟨pre, info, h1, h2⟩
        · exact Or.inl h1
        · exact Or.inr ⟨mkInfo o g depth sc st' :: pre, info, by rw [h1]; simp, h2⟩

/-- **The search ends by itself**: if the flag stays up the driver is not "stopped"; and unless
there is a single legal move or a reported score in the mate range, its last report is at the
limit. -/
theorem driver_terminates_by_itself (o : Ops G M) (g : G) (tt : Table M) (off : Bool)
    (md : Option Nat) :
    let out := driver o (fun _ => true) g tt off md
    out.stopped = false ∧
    ((o.checked g).length ≠ 1 → (∀ info ∈ out.infos, ¬ mateRange info.score) →
      out.infos.getLast?.map (·.depth) = some (limitOf md)) := by
  intro out
  have hs : out.stopped = false := by
    cases h : out.stopped with
    | false => rfl
    | true =>
      obtain ⟨i, hi⟩ := driver_stopped o (fun _ => true) g tt off md h
      cases hi
  refine ⟨hs, fun hl hm => ?_⟩
  have hle := startDepth_le_limit o g tt md
  have hx := driverLoop_exit o (fun _ => true) g (limitOf md)
    (limitOf md - startDepth o g tt md + 1) (startDepth o g tt md) (o.checked g).head? []
    (initSt tt off) (by omega) hle
  rw [← driver_eq] at hx
  rcases hx with h1 | ⟨pre, info, h1, h2⟩
  · rw [show (driver o (fun _ => true) g tt off md).stopped = out.stopped from rfl, hs] at h1
    cases h1
  · have h1 : out.infos = [].reverse ++ pre ++ [info] := h1
    have hmem : info ∈ out.infos := by rw [h1]; simp
    rw [h1]
    rcases h2 with h2 | h2 | h2
    · simp [h2]
    · exact absurd h2 hl
    · exact absurd h2 (hm info hmem)

/-! ## 1. The table invariant is kept by every node -/

omit [DecidableEq M] in
theorem TTInv_empty (o : Ops G M) (P : G → Prop) : TTInv o P ({} : Table M) := by
  intro h e m he
  rw [Std.HashMap.getElem?_empty] at he
  cases he

omit [DecidableEq M] in
/-- storing, under the hash of an admissible position, an entry whose move is legal there -/
theorem TTInv_insert {o : Ops G M} {P : G → Prop} (hH : HashOk o P) {tt : Table M}
    (h : TTInv o P tt) {g : G} (hP : P g) {e : Entry M}
    (hpv : ∀ m, e.pv = some m → m ∈ o.checked g) : TTInv o P (tt.insert (o.hash g) e) := by
  intro k e' m hget hm g' hP' hk
  rw [Std.HashMap.getElem?_insert] at hget
  split at hget
  · next hb =>
    cases hget
    have hk' : o.hash g = o.hash g' := by rw [hk]; exact eq_of_beq hb
    rw [← hH g g' hP hP' hk']
    exact hpv m hm
  · exact h k e' m hget hm g' hP' hk

omit [DecidableEq M] in
theorem ttInv_nodeInv {o : Ops G M} {P : G → Prop} (hH : HashOk o P) (hC : Closed o P)
    (runs : Nat → Bool) :
    NodeInv o runs P (fun _ => True) (fun st : St M => TTInv o P st.tt) where
  frame := by
    intro st st' h ht _
    rw [ht]; exact h
  poll := by
    intro st h _
    simp only [pollSt]
    split
    · exact TTInv_empty o P
    · exact h
  store := fun _ _ _ hA hQ hpv _ => TTInv_insert hH hQ hA hpv
  closed := hC
  deep := fun _ => trivial

/-- **The table invariant is preserved by every interior node.** -/
theorem node_preserves_TTInv {o : Ops G M} {P : G → Prop} (hH : HashOk o P) (hC : Closed o P)
    (runs : Nat → Bool) (remaining : Nat) (g : G) (α β rd : Int) (st : St M)
    (hP : P g) (hT : TTInv o P st.tt) {v : Int} {st' : St M}
    (h : node o runs remaining g α β rd st = some (v, st')) : TTInv o P st'.tt :=
  node_inv (ttInv_nodeInv hH hC runs) remaining g α β rd st hP hT h

/-! ## 2. The root search answers with a legal move -/

/-- **The move of the root search is legal, and the table invariant is kept**: the only move, the
move of the (un-validated) root entry, or the best move of the loop. -/
theorem rootSearch_sound {o : Ops G M} {P : G → Prop} (hH : HashOk o P) (hC : Closed o P)
    (runs : Nat → Bool) (g : G) (depth : Nat) (st : St M) (hP : P g) (hT : TTInv o P st.tt)
    {bm : Option M} {sc : Int} {only : Bool} {st' : St M}
    (h : rootSearch o runs g depth st = some ((bm, sc, only), st')) :
    TTInv o P st'.tt ∧ ∀ m, bm = some m → m ∈ o.checked g := by
  obtain ⟨k1, _, k3⟩ := root_inv (ttInv_nodeInv hH hC runs) g depth st hP hT trivial h
  refine ⟨k1, ?_⟩
  rcases k3 with k3 | ⟨e, he, _, _, hb⟩
  · exact k3
  · intro m hm
    exact hT _ e m he (hb ▸ hm) g hP rfl

/-! ## 7. Principal variations (C18) -/

omit [DecidableEq M] in
/-- **The line printed after `info pv` is a legal line.** -/
theorem pvWalk_legal {o : Ops G M} {P : G → Prop} (_hH : HashOk o P) (hC : Closed o P)
    {tt : Table M} (hT : TTInv o P tt) (n : Nat) (g : G) (hP : P g) :
    LegalLine o g (pvWalk o tt n g) := by
  induction n generalizing g with
  | zero => trivial
  | succ n ih =>
    unfold pvWalk
    split
    · next e he =>
      split
      · next m hm =>
        have hmem := hT _ e m he hm g hP rfl
        exact ⟨hmem, ih _ (hC g m hP hmem)⟩
      · trivial
    · trivial

/-! ## 3. The driver answers with a legal move and keeps the table invariant (C06) -/

theorem driverLoop_sound {o : Ops G M} {P : G → Prop} (hH : HashOk o P) (hC : Closed o P)
    (runs : Nat → Bool) (g : G) (hP : P g) (limit fuel depth : Nat)
    (found : Option M) (infos : List (Info M)) (st : St M) (hT : TTInv o P st.tt)
    (hf : ∀ m, found = some m → m ∈ o.checked g)
    (hi : ∀ info ∈ infos, LegalLine o g info.pv) :
    let out := driverLoop o runs g limit fuel depth found infos st
    TTInv o P out.st.tt ∧ (∀ m, out.found = some m → m ∈ o.checked g) ∧
      ∀ info ∈ out.infos, LegalLine o g info.pv := by
  induction fuel generalizing depth found infos st with
  | zero => exact ⟨hT, hf, fun info h => hi info (List.mem_reverse.1 h)⟩
  | succ f ih =>
    intro out
    have hout : out = driverLoop o runs g limit (f + 1) depth found infos st := rfl
    rw [driverLoop_succ] at hout
    split at hout
    · rw [hout]
      exact ⟨hT, hf, fun info h => hi info (List.mem_reverse.1 h)⟩
    · next bm sc only st' hs =>
      obtain ⟨hT', hbm⟩ := rootSearch_sound hH hC runs g depth st hP hT hs
      have hf' : ∀ m, bm.or found = some m → m ∈ o.checked g := by
        intro m hm
        cases bm with
        | none => exact hf m hm
        | some b => exact hbm m hm
      have hi' : ∀ info ∈ mkInfo o g depth sc st' :: infos, LegalLine o g info.pv := by
        intro info h
        rcases List.mem_cons.1 h with h | h
        · rw [h]; exact pvWalk_legal hH hC hT' depth g hP
        · exact hi info h
      split at hout
      · rw [hout]
        exact ⟨hT', hf', fun info h => hi' info (List.mem_reverse.1 h)⟩
      · rw [hout]
        exact ih _ _ _ _ hT' hf' hi'

/-- **C06 / C18.** From a table satisfying the invariant, in an admissible position, the driver
answers with a checked move, reports legal lines only, and leaves a table satisfying the
invariant. -/
theorem driver_sound_full {o : Ops G M} {P : G → Prop} (hH : HashOk o P) (hC : Closed o P)
    (runs : Nat → Bool) (g : G) (tt : Table M) (off : Bool) (md : Option Nat)
    (hP : P g) (hT : TTInv o P tt) :
    let out := driver o runs g tt off md
    TTInv o P out.st.tt ∧ (∀ m, out.found = some m → m ∈ o.checked g) ∧
      ∀ info ∈ out.infos, LegalLine o g info.pv := by
  intro out
  have : out = driverLoop o runs g (limitOf md) (limitOf md - startDepth o g tt md + 1)
      (startDepth o g tt md) (o.checked g).head? [] (initSt tt off) := driver_eq ..
  rw [this]
  exact driverLoop_sound hH hC runs g hP _ _ _ _ _ _ hT (fun m hm => List.mem_of_mem_head? hm)
    (fun _ h => nomatch h)

/-- **C06.** -/
theorem driver_sound {o : Ops G M} {P : G → Prop} (hH : HashOk o P) (hC : Closed o P)
    (runs : Nat → Bool) (g : G) (tt : Table M) (off : Bool) (md : Option Nat)
    (hP : P g) (hT : TTInv o P tt) :
    let out := driver o runs g tt off md
    TTInv o P out.st.tt ∧ ∀ m, out.found = some m → m ∈ o.checked g :=
  let h := driver_sound_full hH hC runs g tt off md hP hT
  ⟨h.1, h.2.1⟩

/-- **C18.** -/
theorem driver_pv_legal {o : Ops G M} {P : G → Prop} (hH : HashOk o P) (hC : Closed o P)
    (runs : Nat → Bool) (g : G) (tt : Table M) (off : Bool) (md : Option Nat)
    (hP : P g) (hT : TTInv o P tt) :
    ∀ info ∈ (driver o runs g tt off md).infos, LegalLine o g info.pv :=
  (driver_sound_full hH hC runs g tt off md hP hT).2.2

/-- **C06.** The driver answers `none` exactly when the position has no legal move. -/
theorem driver_none_iff {o : Ops G M} {P : G → Prop} (hH : HashOk o P) (hC : Closed o P)
    (runs : Nat → Bool) (g : G) (tt : Table M) (off : Bool) (md : Option Nat)
    (hP : P g) (hT : TTInv o P tt) :
    (driver o runs g tt off md).found = none ↔ o.checked g = [] := by
  constructor
  · intro h
    cases hc : o.checked g with
    | nil => rfl
    | cons a l =>
      have := driver_found_of_moves o runs g tt off md (by rw [hc]; exact List.cons_ne_nil _ _)
      rw [h] at this; cases this
  · intro h
    cases hf : (driver o runs g tt off md).found with
    | none => rfl
    | some m =>
      have := (driver_sound hH hC runs g tt off md hP hT).2 m hf
      rw [h] at this; cases this

/-- **Why `TTInv` (hence the Zobrist hypothesis) is needed**: the root entry is used un-validated.
If the table holds, under the hash of the root, an exact entry at least as deep as the limit, the
driver answers with its move whatever it is, legal or not (there must not be exactly one legal
move, the only-move shortcut comes first). -/
theorem driver_returns_cached_move (o : Ops G M) (runs : Nat → Bool) (g : G) (tt : Table M)
    (off : Bool) (md : Option Nat) (e : Entry M) (m : M) (he : tt[o.hash g]? = some e)
    (hf : e.flag = Flag.exact) (hd : limitOf md ≤ e.depth) (hpv : e.pv = some m)
    (hl : (o.checked g).length ≠ 1) :
    (driver o runs g tt off md).found = some m := by
  have hs : startDepth o g tt md = limitOf md := by
    unfold startDepth cachedDepth
    rw [he]; simp only [hf, if_true]; omega
  rw [driver_eq, hs, Nat.sub_self, driverLoop_succ]
  have hroot : rootSearch o runs g (limitOf md) (initSt tt off) =
      some ((e.pv, e.score, false), rootSt (initSt tt off)) := by
    rw [rootSearch_eq, if_neg hl]
    have : rootHit (ttGet (rootSt (initSt tt off)) (o.hash g)) (limitOf md) = some e := by
      show rootHit tt[o.hash g]? _ = some e
      rw [he]; simp [rootHit, hf, hd]
    rw [this]
  rw [hroot]
  simp [exitCond, hpv]

/-- one `go` command: position, depth limit, behaviour of the flag, C09 hook -/
structure Req (G : Type) where
  g : G
  md : Option Nat
  runs : Nat → Bool
  off : Bool

/-- the table after a history of searches sharing it -/
def tableAfter (o : Ops G M) (tt : Table M) (reqs : List (Req G)) : Table M :=
  reqs.foldl (fun tt r => (driver o r.runs r.g tt r.off r.md).st.tt) tt

/-- **After any history of searches sharing the table the invariant still holds.** -/
theorem history_preserves_TTInv {o : Ops G M} {P : G → Prop} (hH : HashOk o P) (hC : Closed o P)
    (reqs : List (Req G)) (hreqs : ∀ r ∈ reqs, P r.g) (tt : Table M) (hT : TTInv o P tt) :
    TTInv o P (tableAfter o tt reqs) := by
  induction reqs generalizing tt with
  | nil => exact hT
  | cons r rs ih =>
    exact ih (fun r' h => hreqs r' (List.mem_cons_of_mem _ h)) _
      (driver_sound hH hC r.runs r.g tt r.off r.md (hreqs r List.mem_cons_self) hT).1

/-- **C06 for a whole session**: starting from the empty table, after any history of searches of
admissible positions, the next search answers with a legal move (or `none` iff there is none) and
prints legal lines. -/
theorem session_sound {o : Ops G M} {P : G → Prop} (hH : HashOk o P) (hC : Closed o P)
    (reqs : List (Req G)) (hreqs : ∀ r ∈ reqs, P r.g) (r : Req G) (hP : P r.g) :
    let out := driver o r.runs r.g (tableAfter o {} reqs) r.off r.md
    (∀ m, out.found = some m → m ∈ o.checked r.g) ∧ (out.found = none ↔ o.checked r.g = []) ∧
      ∀ info ∈ out.infos, LegalLine o r.g info.pv := by
  have hT := history_preserves_TTInv hH hC reqs hreqs {} (TTInv_empty o P)
  exact ⟨(driver_sound hH hC r.runs r.g _ r.off r.md hP hT).2,
    driver_none_iff hH hC r.runs r.g _ r.off r.md hP hT,
    driver_pv_legal hH hC r.runs r.g _ r.off r.md hP hT⟩

/-! ## The engine never stores a depth-0 entry, so the hypothesis of `driver_depths` always holds -/

omit [DecidableEq M] in
theorem DepthPos_empty : DepthPos ({} : Table M) := by
  intro h e he
  rw [Std.HashMap.getElem?_empty] at he
  cases he

omit [DecidableEq M] in
theorem depthPos_nodeInv (o : Ops G M) (runs : Nat → Bool) :
    NodeInv o runs (fun _ => True) (fun d => 1 ≤ d) (fun st : St M => DepthPos st.tt) where
  frame := by
    intro st st' h ht _
    rw [ht]; exact h
  poll := by
    intro st h _
    simp only [pollSt]
    split
    · exact DepthPos_empty
    · exact h
  store := by
    intro g st e _ hQ _ hd k e' hget
    simp only [] at hget
    rw [Std.HashMap.getElem?_insert] at hget
    split at hget
    · cases hget; exact hd
    · exact hQ k e' hget
  closed := fun _ _ _ _ => trivial
  deep := fun r => by omega

/-- the generic invariant of the iterative-deepening loop -/
theorem driverLoop_inv {o : Ops G M} {runs : Nat → Bool} {A : G → Prop} {D : Nat → Prop}
    {Q : St M → Prop} (I : NodeInv o runs A D Q) (g : G) (hA : A g) (limit fuel depth : Nat)
    (found : Option M) (infos : List (Info M)) (st : St M) (hQ : Q st)
    (hD : ∀ d, depth ≤ d → D d) :
    Q (driverLoop o runs g limit fuel depth found infos st).st := by
  induction fuel generalizing depth found infos st with
  | zero => exact hQ
  | succ f ih =>
    rw [driverLoop_succ]
    split
    · exact hQ
    · next bm sc only st' hs =>
      have hQ' := (root_inv I g depth st hA hQ (hD depth (Nat.le_refl _)) hs).1
      split
      · exact hQ'
      · exact ih _ _ _ _ hQ' (fun d hd => hD d (by omega))

theorem driver_preserves_DepthPos (o : Ops G M) (runs : Nat → Bool) (g : G) (tt : Table M)
    (off : Bool) (md : Option Nat) (h : DepthPos tt) :
    DepthPos (driver o runs g tt off md).st.tt := by
  rw [driver_eq]
  have hs := one_le_startDepth o g tt md (fun e he _ => h _ e he)
  exact driverLoop_inv (depthPos_nodeInv o runs) g trivial _ _ _ _ _ _ h
    (fun d hd => Nat.le_trans hs hd)

theorem history_preserves_DepthPos (o : Ops G M) (reqs : List (Req G)) (tt : Table M)
    (h : DepthPos tt) : DepthPos (tableAfter o tt reqs) := by
  induction reqs generalizing tt with
  | nil => exact h
  | cons r rs ih => exact ih _ (driver_preserves_DepthPos o r.runs r.g tt r.off r.md h)

/-- **C08 for a whole session**, without any hypothesis on the game: starting from the empty
table, after any history of searches, every reported depth of the next search lies in
`1 ..= limit`. -/
theorem session_depths (o : Ops G M) (reqs : List (Req G)) (r : Req G) :
    ∀ info ∈ (driver o r.runs r.g (tableAfter o {} reqs) r.off r.md).infos,
      1 ≤ info.depth ∧ info.depth ≤ limitOf r.md ∧ info.depth ≤ maxDepth ∧
      ∀ N, r.md = some N → 1 ≤ N → info.depth ≤ N :=
  (driver_depths o r.runs r.g _ r.off r.md
    (fun e he _ => history_preserves_DepthPos o reqs {} DepthPos_empty _ e he)).2

/-- the driver's poll counter only records polls that saw the flag set -/
theorem driver_polled (o : Ops G M) (runs : Nat → Bool) (g : G) (tt : Table M) (off : Bool)
    (md : Option Nat) : ∀ i, i < (driver o runs g tt off md).st.polls → runs i = true := by
  rw [driver_eq]
  have := driverLoop_inv (polled_nodeInv o runs 0) g trivial (limitOf md)
    (limitOf md - startDepth o g tt md + 1) (startDepth o g tt md) (o.checked g).head? []
    (initSt tt off) ⟨Nat.le_refl _, fun _ _ h => nomatch h⟩ (fun _ _ => trivial)
  exact fun i hi => this.2 i (Nat.zero_le _) hi

/-! ## 8. Reset (C19) -/

/-- what `ucinewgame` does to the table -/
def resetTable (_ : Table M) : Table M := {}

/-- **C19.** The driver is a function of `(o, runs, g, tt, off, md)` only (it is a Lean function);
after a reset its result does not depend on anything that happened before. -/
theorem fresh_equiv (o : Ops G M) (runs : Nat → Bool) (g : G) (off : Bool) (md : Option Nat)
    (tt₁ tt₂ : Table M) (hist₁ hist₂ : List (Req G)) :
    driver o runs g (resetTable (tableAfter o tt₁ hist₁)) off md =
      driver o runs g (resetTable (tableAfter o tt₂ hist₂)) off md := rfl

/-- the result does not depend on which oracle represents "the flag stays up" -/
theorem driver_flag_free (o : Ops G M) (runs runs' : Nat → Bool) (g : G) (tt : Table M)
    (off : Bool) (md : Option Nat) (h : ∀ i, runs i = true) (h' : ∀ i, runs' i = true) :
    driver o runs g tt off md = driver o runs' g tt off md := by
  have : runs = runs' := funext fun i => (h i).trans (h' i).symm
  rw [this]

/-- a loop that was not stopped by the flag runs identically under every oracle that is set
wherever the given one is -/
theorem driverLoop_mono (o : Ops G M) (runs runs' : Nat → Bool)
    (hle : ∀ i, runs i = true → runs' i = true) (g : G) (limit fuel depth : Nat)
    (found : Option M) (infos : List (Info M)) (st : St M)
    (h : (driverLoop o runs g limit fuel depth found infos st).stopped = false) :
    driverLoop o runs' g limit fuel depth found infos st =
      driverLoop o runs g limit fuel depth found infos st := by
  induction fuel generalizing depth found infos st with
  | zero => rfl
  | succ f ih =>
    rw [driverLoop_succ] at h ⊢
    rw [driverLoop_succ]
    cases hs : rootSearch o runs g depth st with
    | none => rw [hs] at h; cases h
    | some x =>
      obtain ⟨⟨bm, sc, only⟩, st'⟩ := x
      rw [hs] at h
      rw [rootSearch_mono o runs runs' hle g depth st hs]
      simp only [] at h ⊢
      by_cases hx : exitCond limit depth only sc = true
      · simp only [hx, if_true]
      · simp only [hx] at h ⊢
        exact ih _ _ _ _ h

/-- **The flag matters only by aborting** (C07/C19): a search that was not stopped returns exactly
what the search with a flag that is never cleared returns: move, reports and final state. -/
theorem driver_unstopped_eq (o : Ops G M) (runs : Nat → Bool) (g : G) (tt : Table M) (off : Bool)
    (md : Option Nat) (h : (driver o runs g tt off md).stopped = false) :
    driver o runs g tt off md = driver o (fun _ => true) g tt off md := by
  rw [driver_eq] at h ⊢
  rw [driver_eq]
  exact (driverLoop_mono o runs (fun _ => true) (fun _ _ => rfl) g _ _ _ _ _ _ h).symm

/-- two searches that were not stopped agree, whatever their oracles -/
theorem driver_flag_free_unstopped (o : Ops G M) (runs runs' : Nat → Bool) (g : G) (tt : Table M)
    (off : Bool) (md : Option Nat) (h : (driver o runs g tt off md).stopped = false)
    (h' : (driver o runs' g tt off md).stopped = false) :
    driver o runs g tt off md = driver o runs' g tt off md :=
  (driver_unstopped_eq o runs g tt off md h).trans (driver_unstopped_eq o runs' g tt off md h').symm

/-! ## 9. Non-vacuity: a concrete game

Positions are `UInt64` (the position is its own hash, so `HashOk` holds for every position), moves
are `Nat`; positions `0, 1, 2` have the two moves `1, 2`, the others none; the move `m` leads from
`g` to `3 * g + m`. `Std.HashMap` does not reduce in the kernel: the concrete facts are obtained by
applying the theorems; the `#guard`s are side checks by evaluation. -/
namespace Example

def ex_x : Ops UInt64 Nat where
  checked g := if g < 3 then [1, 2] else []
  unchecked g := if g < 3 then [1, 2] else []
  push g m := 3 * g + m.toUInt64
  eval g := (g.toNat % 7 : Int) - 3
  safe _ := true
  hash g := g
  tactical _ := false
  histIdx m := some m
  orderKey m _ := m
  repetition _ := none

theorem ex_hashOk : HashOk ex_x (fun _ => True) := by
  intro g g' _ _ h
  have : g = g' := h
  rw [this]

theorem ex_closed : Closed ex_x (fun _ => True) := fun _ _ _ _ => trivial

theorem ex_moves : ex_x.checked 0 = [1, 2] := by decide

theorem ex_dead : ex_x.checked 5 = [] := by decide

/-- whatever the flag does, whatever searches came before: a legal move is answered at the root -/
example (reqs : List (Req UInt64)) (runs : Nat → Bool) (off : Bool) (md : Option Nat) :
    ∃ m, (driver ex_x runs 0 (tableAfter ex_x {} reqs) off md).found = some m ∧ (m = 1 ∨ m = 2) := by
  have h1 := driver_found_of_moves ex_x runs 0 (tableAfter ex_x {} reqs) off md (by decide)
  have h2 := (session_sound ex_hashOk ex_closed reqs (fun _ _ => trivial)
    ⟨0, md, runs, off⟩ trivial).1
  cases hf : (driver ex_x runs 0 (tableAfter ex_x {} reqs) off md).found with
  | none => rw [hf] at h1; cases h1
  | some m =>
    refine ⟨m, rfl, ?_⟩
    have := h2 m hf
    rw [ex_moves] at this
    simpa using this

/-- and `none` in a position without moves -/
example (reqs : List (Req UInt64)) (runs : Nat → Bool) (off : Bool) (md : Option Nat) :
    (driver ex_x runs 5 (tableAfter ex_x {} reqs) off md).found = none :=
  (session_sound ex_hashOk ex_closed reqs (fun _ _ => trivial) ⟨5, md, runs, off⟩ trivial).2.1.2
    ex_dead

/-- `go depth 2` after anything never reports a depth above 2 -/
example (reqs : List (Req UInt64)) (runs : Nat → Bool) (off : Bool) :
    ∀ info ∈ (driver ex_x runs 0 (tableAfter ex_x {} reqs) off (some 2)).infos,
      1 ≤ info.depth ∧ info.depth ≤ 2 := by
  intro info hi
  have := session_depths ex_x reqs ⟨0, some 2, runs, off⟩ info hi
  exact ⟨this.1, this.2.2.2 2 rfl (by omega)⟩

/-- stop at the first poll with an empty table: the root search is aborted at once -/
example : rootSearch ex_x (fun _ => false) 0 3 (initSt {} false) = none :=
  rootSearch_stop_immediately ex_x _ 0 3 _ rfl (by rw [ex_moves]; decide)
    (fun e he => by
      have : (({} : Table Nat)[ex_x.hash 0]?) = none := Std.HashMap.getElem?_empty
      rw [show (initSt ({} : Table Nat) false).tt = {} from rfl, this] at he
      cases he)

/-- the counterexample to an unconditional `1 ≤ depth`: a table with a depth-0 exact root entry -/
example (runs : Nat → Bool) :
    ∃ info ∈ (driver ex_x runs 0 (({} : Table Nat).insert 0 ⟨0, none, 0, .exact⟩) false none).infos,
      info.depth = 0 :=
  driver_depth_zero_of_entry ex_x runs 0 _ false none ⟨0, none, 0, .exact⟩
    (by rw [Std.HashMap.getElem?_insert]; simp [ex_x]) rfl rfl

/-- the hypothesis `TTInv` is needed: a table whose root entry carries a move that is not legal
(what a hash collision would produce) makes the driver answer with that move -/
example (runs : Nat → Bool) :
    (driver ex_x runs 0 (({} : Table Nat).insert 0 ⟨0, some 99, 40, .exact⟩) false none).found = some 99
      ∧ 99 ∉ ex_x.checked 0 :=
  ⟨driver_returns_cached_move ex_x runs 0 _ false none ⟨0, some 99, 40, .exact⟩ 99
    (by rw [Std.HashMap.getElem?_insert]; simp [ex_x]) rfl (by decide) rfl
    (by rw [ex_moves]; decide), by decide⟩

-- side checks by evaluation
#guard (driver ex_x (fun _ => true) 0 {} false (some 3)).found.isSome
#guard (driver ex_x (fun _ => true) 0 {} false (some 3)).infos.map (·.depth) == [1, 2, 3]
#guard (driver ex_x (fun _ => true) 0 {} false (some 3)).stopped == false
#guard (driver ex_x (fun _ => false) 0 {} false none).found == some 1
#guard (driver ex_x (fun _ => false) 0 {} false none).stopped == true
#guard (driver ex_x (fun _ => false) 0 {} false none).infos.length == 0
#guard (driver ex_x (fun i => decide (i < 5)) 0 {} false none).found.isSome
#guard (driver ex_x (fun _ => true) 5 {} false none).found == none
#guard (driver ex_x (fun _ => true) 0 {} false none).infos.all (·.depth ≤ 32)
#guard (driver ex_x (fun _ => true) 0 (({} : Table Nat).insert 0 ⟨0, some 1, 7, .exact⟩) false (some 2)).infos.map
  (·.depth) == [2]

end Example

/-! ## Axioms -/

#print axioms node_preserves_TTInv
#print axioms rootSearch_sound
#print axioms driver_sound
#print axioms driver_found_of_moves
#print axioms driver_none_iff
#print axioms node_some_polled_true
#print axioms node_none_stopped
#print axioms rootSearch_none_stopped
#print axioms rootSearch_stop_immediately
#print axioms driver_depths
#print axioms driver_depths_partial
#print axioms driverLoop_fuel
#print axioms driver_terminates_by_itself
#print axioms pvWalk_legal
#print axioms driver_pv_legal
#print axioms session_sound
#print axioms session_depths
#print axioms history_preserves_TTInv
#print axioms driver_depth_zero_of_entry
#print axioms killer_index_ok
#print axioms history_no_overflow
#print axioms fresh_equiv
#print axioms driver_flag_free
#print axioms driver_returns_cached_move
#print axioms driver_unstopped_eq

end Chess.Search
