import Chess.Lemmas.FenAux

/-!
# C17 — FEN import is faithful and refuses malformed text without crashing (reader side)
-/
namespace Chess

/-! ## 1. the reader never faults -/

theorem ofFen_no_fault (s : List Char) (w : String) : Game.ofFen s ≠ .fault w := by
  unfold Game.ofFen
  intro h
  repeat' split at h
  all_goals first | cases h | skip
  all_goals dsimp only at h
  all_goals repeat' split at h
  all_goals first | cases h | skip

/-! ## the scanner, one character at a time -/

def Scan.markKing (s : Scan) (pc : Piece) (p : Pos) : Scan :=
  if pc.pieceType = .king then
    (match pc.owner with
     | .white => { s with wking := some p }
     | .black => { s with bking := some p })
  else s

def Scan.putPiece (s : Scan) (pc : Piece) (h : (Pos.mk s.row s.col).idx < 64) : Scan :=
  let p : Pos := ⟨s.row, s.col⟩
  let s1 := s.markKing pc p
  { s1 with board := s1.board.set p.idx (some pc) h,
            pastScores := s1.pastScores.set p.idx (pc.score p false) h,
            score := s1.score + pc.score p false,
            pastHashes := s1.pastHashes.set p.idx (pc.hash p) h,
            hash := s1.hash ^^^ pc.hash p, col := s1.col + 1 }

theorem step_cases {s s' : Scan} {ch : Char} (h : s.step ch = .ok s') :
    (ch = '/' ∧ s.row ≠ 0 ∧ s.col = 8 ∧ s' = { s with col := 0, row := s.row - 1 }) ∨
    (ch.isAlpha = true ∧ s.col < 8 ∧ ∃ pc, Piece.fromCharAscii ch = some pc ∧
        ∃ hi : (Pos.mk s.row s.col).idx < 64, s' = s.putPiece pc hi) ∨
    (ch.isDigit = true ∧ ch.isAlpha = false ∧ 49 ≤ ch.toNat ∧ (ch.toNat : Int) - 48 ≤ 8 - s.col ∧
        s' = s.putEmpty (ch.toNat - 48)) := by
  unfold Scan.step at h
  by_cases h1 : ch = '/'
  · rw [if_pos h1] at h
    split at h
    · cases h
    · split at h
      · cases h
      · rename_i hr hc
        simp only [Except.ok.injEq] at h
        exact Or.inl ⟨h1, hr, by simpa using hc, h.symm⟩
  · rw [if_neg h1] at h
    by_cases h2 : ch.isAlpha = true
    · rw [if_pos h2] at h
      split at h
      · cases h
      · rename_i hc
        split at h
        · cases h
        · rename_i pc hpc
          dsimp only at h
          by_cases hi : (Pos.mk s.row s.col).idx < 64
          · rw [dif_pos hi] at h
            simp only [Except.ok.injEq] at h
            refine Or.inr (Or.inl ⟨h2, by omega, pc, hpc, hi, ?_⟩)
            rw [← h]
            unfold Scan.putPiece Scan.markKing
            rcases pc with ⟨t, o⟩
            cases t <;> cases o <;> rfl
          · rw [dif_neg hi] at h; cases h
    · rw [if_neg h2] at h
      by_cases h3 : ch.isDigit = true
      · rw [if_pos h3] at h
        dsimp only at h
        split at h
        · cases h
        · rename_i hcnt
          simp only [Except.ok.injEq] at h
          have hz : '0'.toNat = 48 := rfl
          simp only [hz, Bool.or_eq_true, decide_eq_true_eq, not_or, Int.not_lt] at hcnt
          have htn : ((ch.toNat : Int) - (48 : Nat)).toNat = ch.toNat - 48 := by omega
          rw [hz, htn] at h
          refine Or.inr (Or.inr ⟨h3, by simpa using h2, by omega, by omega, h.symm⟩)
      · rw [if_neg h3] at h; cases h


/-- scanner position in natural numbers, inside the board -/
structure Scan.At (s : Scan) (r c : Nat) : Prop where
  row : s.row = r
  col : s.col = c
  r7 : r ≤ 7
  c8 : c ≤ 8

/-- square `i` has been passed by a scanner standing at `(r, c)` (ranks are read from 7 down) -/
def Visited (r c i : Nat) : Prop := r < i / 8 ∨ (i / 8 = r ∧ i % 8 < c)

@[simp] theorem markKing_board (s : Scan) (pc : Piece) (p : Pos) : (s.markKing pc p).board = s.board := by
  unfold Scan.markKing; split
  · split <;> rfl
  · rfl
@[simp] theorem markKing_row (s : Scan) (pc : Piece) (p : Pos) : (s.markKing pc p).row = s.row := by
  unfold Scan.markKing; split
  · split <;> rfl
  · rfl
@[simp] theorem markKing_col (s : Scan) (pc : Piece) (p : Pos) : (s.markKing pc p).col = s.col := by
  unfold Scan.markKing; split
  · split <;> rfl
  · rfl
@[simp] theorem markKing_pastScores (s : Scan) (pc : Piece) (p : Pos) :
    (s.markKing pc p).pastScores = s.pastScores := by
  unfold Scan.markKing; split
  · split <;> rfl
  · rfl
@[simp] theorem markKing_pastHashes (s : Scan) (pc : Piece) (p : Pos) :
    (s.markKing pc p).pastHashes = s.pastHashes := by
  unfold Scan.markKing; split
  · split <;> rfl
  · rfl
@[simp] theorem markKing_hash (s : Scan) (pc : Piece) (p : Pos) : (s.markKing pc p).hash = s.hash := by
  unfold Scan.markKing; split
  · split <;> rfl
  · rfl
@[simp] theorem markKing_score (s : Scan) (pc : Piece) (p : Pos) : (s.markKing pc p).score = s.score := by
  unfold Scan.markKing; split
  · split <;> rfl
  · rfl

theorem idx_nat (r c : Nat) : (Pos.mk (r : Int) (c : Int)).idx = r * 8 + c := by
  unfold Pos.idx; simp only; omega

theorem putEmpty_fields : ∀ (n : Nat) (s : Scan) (r c : Nat), s.row = r → s.col = c → r ≤ 7 →
    c + n ≤ 8 →
    (s.putEmpty n).board = s.board ∧ (s.putEmpty n).row = r ∧ (s.putEmpty n).col = ((c + n : Nat) : Int)
      ∧ (s.putEmpty n).wking = s.wking ∧ (s.putEmpty n).bking = s.bking
      ∧ (s.putEmpty n).pastScores = s.pastScores ∧ (s.putEmpty n).score = s.score := by
  intro n
  induction n with
  | zero => intro s r c hr hc _ _; simp [Scan.putEmpty, hr, hc]
  | succ n ih =>
    intro s r c hr hc hr7 hcn
    unfold Scan.putEmpty
    have hi : (Pos.mk s.row s.col).idx < 64 := by rw [hr, hc, idx_nat]; omega
    simp only [hi, dite_true]
    have := ih { s with pastHashes := s.pastHashes.set (Pos.mk s.row s.col).idx Gen.emptyPlace hi,
                        hash := s.hash ^^^ Gen.emptyPlace, col := s.col + 1 } r (c + 1)
      hr (by simp [hc]) hr7 (by omega)
    simp only at this
    obtain ⟨h1, h2, h3, h4, h5, h6, h7⟩ := this
    refine ⟨h1, h2, ?_, h4, h5, h6, h7⟩
    rw [h3]; congr 1; omega

/-- what one accepted character does, as seen by the board -/
theorem step_spec {s s' : Scan} {ch : Char} {r c : Nat} (hat : s.At r c)
    (h : s.step ch = .ok s') :
    (ch = '/' ∧ r ≠ 0 ∧ c = 8 ∧ s'.At (r - 1) 0 ∧ s'.board = s.board) ∨
    (ch.isAlpha = true ∧ ∃ pc, Spec.pieceOfLetter ch = some pc ∧ c < 8 ∧ s'.At r (c + 1) ∧
        ∀ i, s'.board[i]? = if i = r * 8 + c then some (some pc) else s.board[i]?) ∨
    (isD18 ch = true ∧ c + (ch.toNat - 48) ≤ 8 ∧ s'.At r (c + (ch.toNat - 48))
        ∧ s'.board = s.board) := by
  obtain ⟨hr, hc, hr7, hc8⟩ := hat
  rcases step_cases h with ⟨h1, h2, h3, rfl⟩ | ⟨h1, h2, pc, hpc, hi, rfl⟩ | ⟨h1, h2, h3, h4, rfl⟩
  · refine Or.inl ⟨h1, by omega, by omega, ⟨by simp only; omega, rfl, by omega, by omega⟩, rfl⟩
  · refine Or.inr (Or.inl ⟨h1, pc, ?_, by omega, ⟨?_, ?_, hr7, by omega⟩, ?_⟩)
    · rw [← (alpha_facts h1).1]; exact hpc
    · simp [Scan.putPiece, hr]
    · simp [Scan.putPiece, hc]
    · intro i
      have hidx : (Pos.mk s.row s.col).idx = r * 8 + c := by rw [hr, hc, idx_nat]
      simp only [Scan.putPiece, markKing_board, hidx]
      rw [Vector.getElem?_set]
      by_cases hi' : r * 8 + c = i
      · have : i < 64 := by rw [hidx] at hi; omega
        simp [hi']
      · have : ¬ i = r * 8 + c := fun h => hi' h.symm
        simp [hi', this]
  · have hn : c + (ch.toNat - 48) ≤ 8 := by omega
    have hd18 : isD18 ch = true := by
      rw [isD18_iff]; have := (digit_facts h1).2.2; omega
    obtain ⟨f1, f2, f3, _⟩ := putEmpty_fields (ch.toNat - 48) s r c hr hc hr7 hn
    exact Or.inr (Or.inr ⟨hd18, hn, ⟨f2, f3, hr7, hn⟩, f1⟩)

/-- squares not yet passed are empty -/
def BoardNone (s : Scan) (r c : Nat) : Prop :=
  ∀ i, i < 64 → ¬ Visited r c i → s.board[i]? = some none

theorem run_nil (s : Scan) : s.run [] = .ok s := rfl

theorem run_cons {s s' : Scan} {ch : Char} {cs : List Char} (h : s.run (ch :: cs) = .ok s') :
    ∃ s1, s.step ch = .ok s1 ∧ s1.run cs = .ok s' := by
  unfold Scan.run at h
  split at h
  · cases h
  · rename_i s1 hs1; exact ⟨s1, hs1, h⟩

/-- squares already passed are never written again -/
theorem run_frame : ∀ (cs : List Char) (s s' : Scan) (r c : Nat), s.At r c → s.run cs = .ok s' →
    ∀ i, Visited r c i → s'.board[i]? = s.board[i]? := by
  intro cs
  induction cs with
  | nil => intro s s' r c _ h i _; rw [run_nil] at h; cases h; rfl
  | cons ch cs ih =>
    intro s s' r c hat h i hv
    obtain ⟨s1, hs1, hrun⟩ := run_cons h
    unfold Visited at hv
    rcases step_spec hat hs1 with ⟨_, h2, h3, hat1, hb⟩ | ⟨_, pc, _, h3, hat1, hb⟩ | ⟨_, h3, hat1, hb⟩
    · rw [ih s1 s' _ _ hat1 hrun i (by unfold Visited; omega), hb]
    · rw [ih s1 s' _ _ hat1 hrun i (by unfold Visited; omega), hb]
      have : ¬ i = r * 8 + c := by omega
      simp [this]
    · rw [ih s1 s' _ _ hat1 hrun i (by unfold Visited; omega), hb]

theorem init_at : Scan.init.At 7 0 := ⟨rfl, rfl, by omega, by omega⟩

theorem init_boardNone : BoardNone Scan.init 7 0 := by
  intro i hi _
  simp [Scan.init, hi]

/-- **the scanner against the grammar**: if the rest of the placement field is accepted from
`(r, c)` and ends at `(0, 8)`, the rest splits at `/` into the remainder of the current rank
(`8 - c` squares) followed by `r` full ranks, and the final board holds exactly those squares -/
theorem run_spec : ∀ (cs : List Char) (s s' : Scan) (r c : Nat), s.At r c → BoardNone s r c →
    s.run cs = .ok s' → s'.row = 0 → s'.col = 8 →
    ∃ cur rows, (splitOn' (· = '/') cs).mapM Spec.expandRank = some (cur :: rows)
      ∧ cur.length + c = 8 ∧ rows.length = r ∧ (∀ x ∈ rows, x.length = 8)
      ∧ (∀ j, j < cur.length → s'.board[r * 8 + c + j]? = cur[j]?)
      ∧ (∀ k j, k < r → j < 8 → s'.board[(r - 1 - k) * 8 + j]? = (rows[k]?).bind (fun x => x[j]?)) := by
  intro cs
  induction cs with
  | nil =>
    intro s s' r c hat _ h hr0 hc8
    rw [run_nil] at h; cases h
    have hr : r = 0 := by have := hat.row; omega
    have hc : c = 8 := by have := hat.col; omega
    subst hr; subst hc
    refine ⟨[], [], ?_, rfl, rfl, by simp, by simp, by omega⟩
    simp [splitOn', Spec.expandRank]
  | cons ch cs ih =>
    intro s s' r c hat hnone h hr0 hc8
    have hr7 := hat.r7
    obtain ⟨s1, hs1, hrun⟩ := run_cons h
    rcases step_spec hat hs1 with ⟨h1, h2, h3, hat1, hb⟩ | ⟨h1, pc, hpc, h3, hat1, hb⟩ | ⟨h1, h3, hat1, hb⟩
    · -- '/'
      have hnone1 : BoardNone s1 (r - 1) 0 := by
        intro i hi hv; rw [hb]; exact hnone i hi (by unfold Visited at *; omega)
      obtain ⟨cur1, rows1, hm, hl, hrl, hall, hcur, hrows⟩ :=
        ih s1 s' (r - 1) 0 hat1 hnone1 hrun hr0 hc8
      have hsep : (fun x : Char => decide (x = '/')) ch = true := by simp [h1]
      refine ⟨[], cur1 :: rows1, ?_, by simp [h3], by simp [hrl]; omega, ?_, by simp, ?_⟩
      · rw [splitOn'_cons_sep hsep, mapM_opt_cons, hm]; simp [Spec.expandRank]
      · intro x hx
        simp only [List.mem_cons] at hx
        rcases hx with rfl | hx
        · omega
        · exact hall x hx
      · intro k j hk hj
        cases k with
        | zero =>
          have := hcur j (by omega)
          simp only [Nat.add_zero] at this
          simp only [List.getElem?_cons_zero, Option.bind_some]
          rw [← this]; congr 1
        | succ k =>
          have := hrows k j (by omega) hj
          simp only [List.getElem?_cons_succ]
          rw [← this]; congr 1; omega
    · -- piece letter
      have hne : ch ≠ '/' := (alpha_facts h1).2.2.2
      have hd : isD18 ch = false := (alpha_facts h1).2.2.1
      have hnone1 : BoardNone s1 r (c + 1) := by
        intro i hi hv
        rw [hb]
        have : ¬ i = r * 8 + c := by unfold Visited at hv; omega
        simp only [this, if_false]
        exact hnone i hi (by unfold Visited at *; omega)
      obtain ⟨cur1, rows1, hm, hl, hrl, hall, hcur, hrows⟩ :=
        ih s1 s' r (c + 1) hat1 hnone1 hrun hr0 hc8
      have hsep : (fun x : Char => decide (x = '/')) ch = false := by simp [hne]
      obtain ⟨hd', tl, hsp, hsp'⟩ := splitOn'_cons_not (sep := fun x : Char => decide (x = '/')) hsep cs
      rw [hsp, mapM_opt_cons] at hm
      cases he : Spec.expandRank hd' with
      | none => rw [he] at hm; simp at hm
      | some e1 =>
        cases ht : tl.mapM Spec.expandRank with
        | none => rw [he, ht] at hm; simp at hm
        | some t1 =>
          rw [he, ht] at hm
          simp only [Option.some.injEq, List.cons.injEq] at hm
          obtain ⟨rfl, rfl⟩ := hm
          refine ⟨some pc :: e1, t1, ?_, by simp; omega, hrl, hall, ?_, hrows⟩
          · rw [hsp', mapM_opt_cons, expandRank_letter hd hpc, he, ht]; rfl
          · intro j hj
            cases j with
            | zero =>
              simp only [Nat.add_zero]
              rw [run_frame cs s1 s' r (c + 1) hat1 hrun (r * 8 + c) (by unfold Visited; omega), hb]
              simp
            | succ j =>
              have := hcur j (by simp at hj; omega)
              simp only [List.getElem?_cons_succ]
              rw [← this]; congr 1; omega
    · -- digit
      have hne : ch ≠ '/' := (digit_facts (d18_isDigit h1)).2.1
      have hn1 : 1 ≤ ch.toNat - 48 := by have := isD18_iff.1 h1; omega
      have hnone1 : BoardNone s1 r (c + (ch.toNat - 48)) := by
        intro i hi hv; rw [hb]; exact hnone i hi (by unfold Visited at *; omega)
      obtain ⟨cur1, rows1, hm, hl, hrl, hall, hcur, hrows⟩ :=
        ih s1 s' r (c + (ch.toNat - 48)) hat1 hnone1 hrun hr0 hc8
      have hsep : (fun x : Char => decide (x = '/')) ch = false := by simp [hne]
      obtain ⟨hd', tl, hsp, hsp'⟩ := splitOn'_cons_not (sep := fun x : Char => decide (x = '/')) hsep cs
      rw [hsp, mapM_opt_cons] at hm
      cases he : Spec.expandRank hd' with
      | none => rw [he] at hm; simp at hm
      | some e1 =>
        cases ht : tl.mapM Spec.expandRank with
        | none => rw [he, ht] at hm; simp at hm
        | some t1 =>
          rw [he, ht] at hm
          simp only [Option.some.injEq, List.cons.injEq] at hm
          obtain ⟨rfl, rfl⟩ := hm
          refine ⟨List.replicate (ch.toNat - 48) none ++ e1, t1, ?_, by simp; omega, hrl, hall,
            ?_, hrows⟩
          · rw [hsp', mapM_opt_cons, expandRank_digit h1, he, ht]; rfl
          · intro j hj
            by_cases hjn : j < ch.toNat - 48
            · rw [run_frame cs s1 s' r _ hat1 hrun (r * 8 + c + j) (by unfold Visited; omega), hb,
                hnone _ (by omega) (by unfold Visited; omega)]
              rw [List.getElem?_append_left (by simpa using hjn)]
              simp [hjn]
            · have := hcur (j - (ch.toNat - 48)) (by simp at hj; omega)
              rw [List.getElem?_append_right (by simp; omega)]
              simp only [List.length_replicate]
              rw [← this]; congr 1; omega

/-- **item 2/3, placement**: a placement field accepted by the scanner is accepted by the
grammar, and denotes exactly the scanner's board -/
theorem scan_parsePlacement {pieces : List Char} {sc : Scan}
    (h : Scan.init.run pieces = .ok sc) (hr : sc.row = 0) (hc : sc.col = 8) :
    Spec.parsePlacement pieces = some sc.board := by
  obtain ⟨cur, rows, hm, hl, hrl, hall, hcur, hrows⟩ :=
    run_spec pieces Scan.init sc 7 0 init_at init_boardNone h hr hc
  have hall' : ∀ x ∈ cur :: rows, x.length = 8 := by
    intro x hx
    simp only [List.mem_cons] at hx
    rcases hx with rfl | hx
    · omega
    · exact hall x hx
  have hlen : (splitOn' (· = '/') pieces).length = 8 := by
    rw [← mapM_opt_length _ _ _ hm]; simp [hrl]
  apply parsePlacement_of_rows (splitOn_eq _ _) hlen hm hall'
  apply List.ext_getElem?
  intro i
  rw [flatten_getElem? _ (by intro x hx; exact hall' x (by simpa using List.mem_reverse.1 hx))]
  have hlen2 : (cur :: rows).length = 8 := by simp [hrl]
  by_cases hi : i < 64
  · rw [List.getElem?_reverse (by omega), hlen2]
    have hm8 : i % 8 < 8 := by omega
    by_cases h7 : i / 8 = 7
    · have h0 : 8 - 1 - i / 8 = 0 := by omega
      rw [h0]
      simp only [List.getElem?_cons_zero, Option.bind_some]
      rw [← hcur (i % 8) (by omega)]
      simp only [Vector.getElem?_toList]
      congr 1; omega
    · have h0 : 8 - 1 - i / 8 = (6 - i / 8) + 1 := by omega
      rw [h0]
      simp only [List.getElem?_cons_succ]
      rw [← hrows (6 - i / 8) (i % 8) (by omega) hm8]
      simp only [Vector.getElem?_toList]
      congr 1; omega
  · have h1 : (cur :: rows).reverse[i / 8]? = none := by
      apply List.getElem?_eq_none; simp [hrl]; omega
    have h2 : sc.board.toList[i]? = none := by
      apply List.getElem?_eq_none; simp; omega
    rw [h1, h2]; rfl

/-! ## the state byte -/

theorem forall_uint8 (P : UInt8 → Prop) (h : ∀ n, n < 256 → P (UInt8.ofNat n)) : ∀ s, P s := by
  intro s
  have := h s.toNat (UInt8.toNat_lt s)
  rwa [UInt8.ofNat_toNat] at this

/-- effect of the four right-setters on the state byte -/
def RightsFacts (s : GState) : Prop :=
  (s.setWk.wk = true ∧ s.setWk.wq = s.wq ∧ s.setWk.bk = s.bk ∧ s.setWk.bq = s.bq
    ∧ s.setWk.enPassant = s.enPassant)
  ∧ (s.setWq.wk = s.wk ∧ s.setWq.wq = true ∧ s.setWq.bk = s.bk ∧ s.setWq.bq = s.bq
    ∧ s.setWq.enPassant = s.enPassant)
  ∧ (s.setBk.wk = s.wk ∧ s.setBk.wq = s.wq ∧ s.setBk.bk = true ∧ s.setBk.bq = s.bq
    ∧ s.setBk.enPassant = s.enPassant)
  ∧ (s.setBq.wk = s.wk ∧ s.setBq.wq = s.wq ∧ s.setBq.bk = s.bk ∧ s.setBq.bq = true
    ∧ s.setBq.enPassant = s.enPassant)

instance : DecidablePred RightsFacts := by unfold RightsFacts; infer_instance

theorem rights_table : ∀ n, n < 256 → RightsFacts (UInt8.ofNat n) := by decide +kernel

theorem rights_facts (s : GState) : RightsFacts s := forall_uint8 _ rights_table s

/-- effect of recording an en-passant file `k < 8` -/
def EpFacts (s : GState) : Prop :=
  ∀ k : Fin 8, (s.setEnPassant ((k.val : Nat) : Int)).enPassant = ((k.val : Nat) : Int)
    ∧ (s.setEnPassant ((k.val : Nat) : Int)).wk = s.wk ∧ (s.setEnPassant ((k.val : Nat) : Int)).wq = s.wq
    ∧ (s.setEnPassant ((k.val : Nat) : Int)).bk = s.bk ∧ (s.setEnPassant ((k.val : Nat) : Int)).bq = s.bq

instance : DecidablePred EpFacts := by unfold EpFacts; infer_instance

theorem ep_table : ∀ n, n < 256 → EpFacts (UInt8.ofNat n) := by decide +kernel

theorem ep_facts (s : GState) : EpFacts s := forall_uint8 _ ep_table s

theorem default_facts : GState.default.wk = false ∧ GState.default.wq = false
    ∧ GState.default.bk = false ∧ GState.default.bq = false ∧ GState.default.enPassant = 8 := by
  decide

/-! ## castling field -/

def castChar (c : Char) : Bool := c = 'K' || c = 'Q' || c = 'k' || c = 'q' || c = '-'

theorem parseCastling_spec : ∀ (cast : List Char) (st st' : GState),
    parseCastling st cast = .ok st' →
    cast.all castChar = true
    ∧ st'.wk = (st.wk || cast.contains 'K') ∧ st'.wq = (st.wq || cast.contains 'Q')
    ∧ st'.bk = (st.bk || cast.contains 'k') ∧ st'.bq = (st.bq || cast.contains 'q')
    ∧ st'.enPassant = st.enPassant := by
  intro cast
  induction cast with
  | nil => intro st st' h; simp only [parseCastling, Except.ok.injEq] at h; subst h; simp
  | cons c cs ih =>
    intro st st' h
    obtain ⟨f1, f2, f3, f4⟩ := rights_facts st
    unfold parseCastling at h
    by_cases h1 : c = 'K'
    · rw [if_pos h1] at h
      obtain ⟨a, b1, b2, b3, b4, b5⟩ := ih _ _ h
      subst h1
      simp [castChar, a, b1, b2, b3, b4, b5, f1]
    · rw [if_neg h1] at h
      by_cases h2 : c = 'Q'
      · rw [if_pos h2] at h
        obtain ⟨a, b1, b2, b3, b4, b5⟩ := ih _ _ h
        subst h2
        simp [castChar, a, b1, b2, b3, b4, b5, f2]
      · rw [if_neg h2] at h
        by_cases h3 : c = 'k'
        · rw [if_pos h3] at h
          obtain ⟨a, b1, b2, b3, b4, b5⟩ := ih _ _ h
          subst h3
          simp [castChar, a, b1, b2, b3, b4, b5, f3]
        · rw [if_neg h3] at h
          by_cases h4 : c = 'q'
          · rw [if_pos h4] at h
            obtain ⟨a, b1, b2, b3, b4, b5⟩ := ih _ _ h
            subst h4
            simp [castChar, a, b1, b2, b3, b4, b5, f4]
          · rw [if_neg h4] at h
            by_cases h5 : c = '-'
            · rw [if_pos h5] at h
              obtain ⟨a, b1, b2, b3, b4, b5⟩ := ih _ _ h
              subst h5
              simp [castChar, a, b1, b2, b3, b4, b5]
            · rw [if_neg h5] at h; cases h

/-! ## `Game.ofFen` in stages -/

def sideOf (side : List Char) : Option Player :=
  if side = ['w'] then some Player.white else if side = ['b'] then some Player.black else none
def epRankOf : Player → Char | .white => '6' | .black => '3'
def epOf (player : Player) (st : GState) (ep : List Char) : Option GState :=
  if ep = ['-'] then some st
  else match ep with
    | [f, r] =>
      if 'a'.toNat ≤ f.toNat && f.toNat ≤ 'h'.toNat && r = epRankOf player then
        some (st.setEnPassant (f.toNat - 'a'.toNat : Nat))
      else none
    | _ => none
def mkGame (sc : Scan) (player : Player) (st : GState) (wk bk : Pos) : Game :=
  { score := sc.score, player := player, moveStack := [], endgame := false,
    hash := (if player = .black then sc.hash ^^^ Gen.blackToMove else sc.hash) ^^^ st.hash,
    board := sc.board, pastScores := sc.pastScores,
    pastHashes := sc.pastHashes, wking := wk, bking := bk, state := [st] }

def ofFenFinish (sc : Scan) (player : Player) (st : GState) : FenResult :=
  match sc.wking, sc.bking with
  | none, _ => .refused "White king not found"
  | _, none => .refused "Black king not found"
  | some wk, some bk =>
    if !(materialOkSide sc.board .white && materialOkSide sc.board .black)
        || pawnOnEdge sc.board then
      .refused "Impossible material"
    else if !rightsMatchBoard sc.board st then
      .refused "Castling rights do not match the board"
    else if !epMatchesBoard sc.board st player then
      .refused "En passant square does not match the board"
    else .ok (mkGame sc player st wk bk).updatePhase

def ofFen' (fen : List Char) : FenResult :=
  match splitWs fen with
  | [] => .refused "Missing board"
  | pieces :: rest =>
    match Scan.init.run pieces with
    | .error e => .refused e
    | .ok sc =>
      if sc.row ≠ 0 || sc.col ≠ 8 then .refused "Invalid board size" else
      match rest with
      | [] => .refused "Missing player"
      | side :: rest =>
        match sideOf side with
        | none => .refused "Invalid player"
        | some player =>
          match rest with
          | [] => .refused "Missing castling rights"
          | cast :: rest =>
            match parseCastling GState.default cast with
            | .error e => .refused e
            | .ok st =>
              match rest with
              | [] => .refused "Missing en passant"
              | ep :: _ =>
                match epOf player st ep with
                | none => .refused "Invalid en passant square"
                | some st => ofFenFinish sc player st

theorem ofFen_eq (s : List Char) : Game.ofFen s = ofFen' s := by
  unfold Game.ofFen ofFen'
  cases splitWs s with
  | nil => rfl
  | cons pieces rest =>
    dsimp only
    cases Scan.init.run pieces with
    | error e => rfl
    | ok sc =>
      dsimp only
      by_cases hb : (decide (sc.row ≠ 0) || decide (sc.col ≠ 8)) = true
      · rw [if_pos hb, if_pos hb]
      · rw [if_neg hb, if_neg hb]
        cases rest with
        | nil => rfl
        | cons side rest =>
          dsimp only
          unfold sideOf
          cases (if side = ['w'] then some Player.white else if side = ['b'] then some Player.black else none) with
          | none => rfl
          | some player =>
            dsimp only
            cases rest with
            | nil => rfl
            | cons cast rest =>
              dsimp only
              cases parseCastling GState.default cast with
              | error e => rfl
              | ok st =>
                dsimp only
                cases rest with
                | nil => rfl
                | cons ep rest =>
                  cases player <;> rfl

theorem ofFen_ok_inv {s : List Char} {g : Game} (h : Game.ofFen s = .ok g) :
    ∃ pieces side cast ep rest sc player st0 st wk bk,
      splitWs s = pieces :: side :: cast :: ep :: rest ∧ Scan.init.run pieces = .ok sc ∧
      sc.row = 0 ∧ sc.col = 8 ∧ sideOf side = some player ∧
      parseCastling GState.default cast = .ok st0 ∧ epOf player st0 ep = some st ∧
      sc.wking = some wk ∧ sc.bking = some bk ∧
      materialOkSide sc.board .white = true ∧ materialOkSide sc.board .black = true ∧
      pawnOnEdge sc.board = false ∧ rightsMatchBoard sc.board st = true ∧
      epMatchesBoard sc.board st player = true ∧
      g = (mkGame sc player st wk bk).updatePhase := by
  rw [ofFen_eq] at h
  unfold ofFen' at h
  cases hs : splitWs s with
  | nil => rw [hs] at h; cases h
  | cons pieces rest =>
    rw [hs] at h; dsimp only at h
    cases hr : Scan.init.run pieces with
    | error e => rw [hr] at h; cases h
    | ok sc =>
      rw [hr] at h; dsimp only at h
      by_cases hb : (decide (sc.row ≠ 0) || decide (sc.col ≠ 8)) = true
      · rw [if_pos hb] at h; cases h
      · rw [if_neg hb] at h
        simp only [ne_eq, Bool.or_eq_true, decide_eq_true_eq, not_or, Decidable.not_not] at hb
        cases rest with
        | nil => cases h
        | cons side rest =>
          dsimp only at h
          cases hsd : sideOf side with
          | none => rw [hsd] at h; cases h
          | some player =>
            rw [hsd] at h; dsimp only at h
            cases rest with
            | nil => cases h
            | cons cast rest =>
              dsimp only at h
              cases hc : parseCastling GState.default cast with
              | error e => rw [hc] at h; cases h
              | ok st0 =>
                rw [hc] at h; dsimp only at h
                cases rest with
                | nil => cases h
                | cons ep rest =>
                  dsimp only at h
                  cases he : epOf player st0 ep with
                  | none => rw [he] at h; cases h
                  | some st =>
                    rw [he] at h; dsimp only at h
                    unfold ofFenFinish at h
                    cases hw : sc.wking with
                    | none => rw [hw] at h; cases h
                    | some wk =>
                      cases hbk : sc.bking with
                      | none => rw [hw, hbk] at h; cases h
                      | some bk =>
                        rw [hw, hbk] at h; dsimp only at h
                        split at h
                        · cases h
                        · rename_i hm
                          simp only [Bool.or_eq_true, Bool.not_eq_true', Bool.and_eq_false_iff,
                            not_or, Bool.not_eq_false, Bool.not_eq_true] at hm
                          split at h
                          · cases h
                          · rename_i hrm
                            split at h
                            · cases h
                            · rename_i hem
                              simp only [Bool.not_eq_true', Bool.not_eq_false] at hrm hem
                              simp only [FenResult.ok.injEq] at h
                              refine ⟨pieces, side, cast, ep, rest, sc, player, st0, st, wk, bk,
                                rfl, hr, hb.1, hb.2, hsd, hc, he, hw, hbk, hm.1.1, hm.1.2, hm.2,
                                hrm, hem, h.symm⟩

/-! ## `updatePhase` does not touch what `abs` reads -/

theorem setPosition_get_fields (g : Game) (p : Pos) :
    (g.setPosition p (g.get p)).board = g.board ∧ (g.setPosition p (g.get p)).player = g.player
    ∧ (g.setPosition p (g.get p)).state = g.state ∧ (g.setPosition p (g.get p)).wking = g.wking
    ∧ (g.setPosition p (g.get p)).bking = g.bking
    ∧ (g.setPosition p (g.get p)).endgame = g.endgame := by
  unfold Game.setPosition Game.get
  by_cases h : p.idx < 64
  · simp [h]
  · simp [h]

theorem updatePhase_fields (g : Game) :
    g.updatePhase.board = g.board ∧ g.updatePhase.player = g.player
    ∧ g.updatePhase.state = g.state ∧ g.updatePhase.wking = g.wking
    ∧ g.updatePhase.bking = g.bking := by
  unfold Game.updatePhase
  split
  · have a := setPosition_get_fields { g with endgame := true } g.wking
    have b := setPosition_get_fields
      (Game.setPosition { g with endgame := true } g.wking (Game.get { g with endgame := true } g.wking))
      (Game.setPosition { g with endgame := true } g.wking
        (Game.get { g with endgame := true } g.wking)).bking
    exact ⟨b.1.trans a.1, b.2.1.trans a.2.1, b.2.2.1.trans a.2.2.1, b.2.2.2.1.trans a.2.2.2.1,
      b.2.2.2.2.1.trans a.2.2.2.2.1⟩
  · exact ⟨rfl, rfl, rfl, rfl, rfl⟩

theorem updatePhase_abs (g : Game) : g.updatePhase.abs = g.abs := by
  obtain ⟨h1, h2, h3, _, _⟩ := updatePhase_fields g
  unfold Game.abs Game.top
  rw [h1, h2, h3]

/-! ## side and en-passant fields -/

theorem sideOf_spec {side : List Char} {player : Player} (h : sideOf side = some player) :
    Spec.parseSide side = some player := by
  unfold sideOf at h
  split at h
  · rename_i hs; subst hs; cases h; rfl
  · split at h
    · rename_i hs; subst hs; cases h; rfl
    · cases h

theorem epOf_spec {player : Player} {st0 st : GState} {ep : List Char}
    (h : epOf player st0 ep = some st) (h8 : st0.enPassant = 8) :
    Spec.parseEpLoose ep = some (if st.enPassant < 8 then some st.enPassant.toNat else none)
    ∧ st.wk = st0.wk ∧ st.wq = st0.wq ∧ st.bk = st0.bk ∧ st.bq = st0.bq := by
  unfold epOf at h
  by_cases hd : ep = ['-']
  · rw [if_pos hd] at h
    cases h; subst hd
    rw [h8]
    exact ⟨rfl, rfl, rfl, rfl, rfl⟩
  · rw [if_neg hd] at h
    split at h
    · rename_i f r
      split at h
      · rename_i hc
        simp only [Bool.and_eq_true, decide_eq_true_eq] at hc
        obtain ⟨⟨hf1, hf2⟩, hr⟩ := hc
        have ha : 'a'.toNat = 97 := rfl
        have hh : 'h'.toNat = 104 := rfl
        rw [ha] at hf1 h
        rw [hh] at hf2
        have hk : f.toNat - 97 < 8 := by omega
        obtain ⟨e1, e2, e3, e4, e5⟩ := ep_facts st0 ⟨f.toNat - 97, hk⟩
        simp only at e1 e2 e3 e4 e5
        simp only [Option.some.injEq] at h
        subst h
        refine ⟨?_, e2, e3, e4, e5⟩
        rw [e1]
        have hlt : ((f.toNat - 97 : Nat) : Int) < 8 := by omega
        simp only [hlt, if_true, Int.toNat_natCast]
        have hr' : (r = '3' || r = '6') = true := by
          subst hr; cases player <;> rfl
        unfold Spec.parseEpLoose
        split
        · rename_i heq; exact absurd heq hd
        · rename_i f' r' heq
          simp only [List.cons.injEq, and_true] at heq
          obtain ⟨rfl, rfl⟩ := heq
          have hcond : (decide ('a'.toNat ≤ f.toNat) && decide (f.toNat ≤ 'h'.toNat)
              && (decide (r = '3') || decide (r = '6'))) = true := by
            simp only [ha, hh, Bool.and_eq_true, decide_eq_true_eq]
            refine ⟨⟨hf1, hf2⟩, ?_⟩
            simpa using hr'
          rw [if_pos hcond, ha]
        · rename_i _ hno; exact absurd rfl (hno f r)
      · cases h
    · cases h

/-! ## 2 and 3. soundness of the import -/

theorem mkGame_abs (sc : Scan) (player : Player) (st : GState) (wk bk : Pos) :
    (mkGame sc player st wk bk).abs =
      { board := sc.board, side := player, wk := st.wk, wq := st.wq, bk := st.bk, bq := st.bq,
        ep := if st.enPassant < 8 then some st.enPassant.toNat else none } := rfl

/-- the fields that got through the first stages of the reader denote, in the independent
grammar, exactly the position of the game about to be built (whatever the king squares) -/
theorem ofFen_stage_sound {s pieces side cast ep : List Char} {rest : List (List Char)}
    {sc : Scan} {player : Player} {st0 st : GState}
    (hs : splitWs s = pieces :: side :: cast :: ep :: rest) (hr : Scan.init.run pieces = .ok sc)
    (hr0 : sc.row = 0) (hc8 : sc.col = 8) (hsd : sideOf side = some player)
    (hc : parseCastling GState.default cast = .ok st0) (he : epOf player st0 ep = some st)
    (wk bk : Pos) : Spec.fenLoose s = some (mkGame sc player st wk bk).abs := by
  rw [mkGame_abs]
  have hf : Spec.fields s = pieces :: side :: cast :: ep :: rest := by
    rw [← splitWs_eq_fields]; exact hs
  have hcne : cast.isEmpty = false := by
    have : cast ∈ Spec.fields s := by rw [hf]; simp
    simp only [Spec.fields, List.mem_filter, Bool.not_eq_true'] at this
    exact this.2
  obtain ⟨d1, d2, d3, d4, d5⟩ := default_facts
  obtain ⟨c0, c1, c2, c3, c4, c5⟩ := parseCastling_spec cast _ _ hc
  rw [d1, Bool.false_or] at c1
  rw [d2, Bool.false_or] at c2
  rw [d3, Bool.false_or] at c3
  rw [d4, Bool.false_or] at c4
  rw [d5] at c5
  obtain ⟨e0, e1, e2, e3, e4⟩ := epOf_spec he c5
  have h4 : Spec.parseCastlingLoose cast = some (st.wk, st.wq, st.bk, st.bq) := by
    unfold Spec.parseCastlingLoose
    have hall : (cast.all fun c => decide (c = 'K') || decide (c = 'Q') || decide (c = 'k')
        || decide (c = 'q') || decide (c = '-')) = true := c0
    rw [hcne, hall, e1, e2, e3, e4, c1, c2, c3, c4]
    rfl
  exact fenLoose_of_fields hf (scan_parsePlacement hr hr0 hc8) (sideOf_spec hsd) h4 e0

/-- **C17 / item 3**: an accepted text denotes (in the independent grammar) exactly the
position that was imported: every square, the side to move, the four castling rights and the
en-passant file. -/
theorem ofFen_sound {s : List Char} {g : Game} (h : Game.ofFen s = .ok g) :
    Spec.fenLoose s = some g.abs := by
  obtain ⟨pieces, side, cast, ep, rest, sc, player, st0, st, wk, bk, hs, hr, hr0, hc8, hsd, hc,
    he, _, _, _, _, _, _, _, rfl⟩ := ofFen_ok_inv h
  rw [updatePhase_abs]
  exact ofFen_stage_sound hs hr hr0 hc8 hsd hc he wk bk

/-- **C17 / item 2**: text that is malformed beyond doubt (no reading at all in the loose
grammar) is refused — with a message, never a fault. -/
theorem ofFen_refuses_malformed {s : List Char} (h : Spec.fenLoose s = none) :
    ∃ w, Game.ofFen s = .refused w := by
  cases hr : Game.ofFen s with
  | ok g => rw [ofFen_sound hr] at h; cases h
  | refused w => exact ⟨w, rfl⟩
  | fault w => exact absurd hr (ofFen_no_fault s w)

theorem ofFen_ok_loose {s : List Char} {g : Game} (h : Game.ofFen s = .ok g) :
    (Spec.fenLoose s).isSome = true := by
  rw [ofFen_sound h]; rfl

/-! ## 4. the caches of an imported game -/

theorem foldr_xor_set_fr : ∀ (l : List UInt64) (i : Nat) (x : UInt64) (h : i < l.length),
    (l.set i x).foldr (· ^^^ ·) 0 = l.foldr (· ^^^ ·) 0 ^^^ l[i] ^^^ x := by
  intro l
  induction l with
  | nil => intro i x h; cases h
  | cons a l ih =>
    intro i x h
    cases i with
    | zero =>
      simp only [List.set_cons_zero, List.foldr_cons, List.getElem_cons_zero]
      generalize l.foldr (· ^^^ ·) 0 = t
      have : a ^^^ t ^^^ a ^^^ x = (a ^^^ a) ^^^ (x ^^^ t) := by ac_rfl
      rw [this]; simp
    | succ i =>
      simp only [List.set_cons_succ, List.foldr_cons, List.getElem_cons_succ]
      rw [ih i x (by simpa using h)]
      ac_rfl

theorem foldr_add_set_fr : ∀ (l : List Int) (i : Nat) (x : Int) (h : i < l.length),
    (l.set i x).foldr (· + ·) 0 = l.foldr (· + ·) 0 - l[i] + x := by
  intro l
  induction l with
  | nil => intro i x h; cases h
  | cons a l ih =>
    intro i x h
    cases i with
    | zero =>
      simp only [List.set_cons_zero, List.foldr_cons, List.getElem_cons_zero]
      omega
    | succ i =>
      simp only [List.set_cons_succ, List.foldr_cons, List.getElem_cons_succ]
      rw [ih i x (by simpa using h)]
      omega

theorem xorAll_set_fr (v : Vector UInt64 64) (i : Nat) (x : UInt64) (h : i < 64) :
    xorAll (v.set i x h) = xorAll v ^^^ v[i] ^^^ x := by
  unfold xorAll
  rw [Vector.toList_set, foldr_xor_set_fr _ _ _ (by simpa using h)]
  simp

theorem sumAll_set_fr (v : Vector Int 64) (i : Nat) (x : Int) (h : i < 64) :
    sumAll (v.set i x h) = sumAll v - v[i] + x := by
  unfold sumAll
  rw [Vector.toList_set, foldr_add_set_fr _ _ _ (by simpa using h)]
  simp

/-- cache invariant of the scanner standing at `(r, c)` -/
structure CInv (s : Scan) (r c : Nat) : Prop where
  pos : s.At r c
  vis : ∀ (i : Nat) (h : i < 64), Visited r c i →
    s.pastHashes[i] = placeHash (Pos.ofIdx i) s.board[i]
      ∧ s.pastScores[i] = placeScore (Pos.ofIdx i) false s.board[i]
  unv : ∀ (i : Nat) (h : i < 64), ¬ Visited r c i →
    s.pastHashes[i] = 0 ∧ s.pastScores[i] = 0 ∧ s.board[i] = none
  hash : s.hash = xorAll s.pastHashes
  score : s.score = sumAll s.pastScores
  wk : ∀ p, s.wking = some p →
    ∃ (i : Nat) (h : i < 64), p = Pos.ofIdx i ∧ s.board[i] = some ⟨.king, .white⟩
  bk : ∀ p, s.bking = some p →
    ∃ (i : Nat) (h : i < 64), p = Pos.ofIdx i ∧ s.board[i] = some ⟨.king, .black⟩
  wnone : s.wking = none → ∀ (i : Nat) (h : i < 64), s.board[i] ≠ some ⟨.king, .white⟩
  bnone : s.bking = none → ∀ (i : Nat) (h : i < 64), s.board[i] ≠ some ⟨.king, .black⟩

theorem ofIdx_nat (r c : Nat) (hc : c < 8) : Pos.ofIdx (r * 8 + c) = ⟨(r : Int), (c : Int)⟩ := by
  unfold Pos.ofIdx
  have h1 : (r * 8 + c) / 8 = r := by omega
  have h2 : (r * 8 + c) % 8 = c := by omega
  rw [h1, h2]

/-- writing the content `o` of the next square `(r, c)` keeps the invariant -/
theorem cinv_write {s s' : Scan} {r c : Nat} (inv : CInv s r c) (hc : c < 8) (o : Option Piece)
    (hrow : s'.row = s.row) (hcol : s'.col = s.col + 1)
    (hb : ∀ (i : Nat) (h : i < 64), s'.board[i] = if i = r * 8 + c then o else s.board[i])
    (hh : ∀ (i : Nat) (h : i < 64), s'.pastHashes[i] =
      if i = r * 8 + c then placeHash ⟨r, c⟩ o else s.pastHashes[i])
    (hs : ∀ (i : Nat) (h : i < 64), s'.pastScores[i] =
      if i = r * 8 + c then placeScore ⟨r, c⟩ false o else s.pastScores[i])
    (hhash : s'.hash = xorAll s'.pastHashes) (hscore : s'.score = sumAll s'.pastScores)
    (hwk : s'.wking = if o = some ⟨.king, .white⟩ then some ⟨r, c⟩ else s.wking)
    (hbk : s'.bking = if o = some ⟨.king, .black⟩ then some ⟨r, c⟩ else s.bking) :
    CInv s' r (c + 1) := by
  have hr7 := inv.pos.r7
  have hk : r * 8 + c < 64 := by omega
  have hunv : ¬ Visited r c (r * 8 + c) := by unfold Visited; omega
  obtain ⟨u1, u2, u3⟩ := inv.unv _ hk hunv
  refine ⟨⟨by rw [hrow]; exact inv.pos.row, by rw [hcol, inv.pos.col]; rfl, hr7, by omega⟩,
    ?_, ?_, hhash, hscore, ?_, ?_, ?_, ?_⟩
  · intro i h hv
    rw [hb i h, hh i h, hs i h]
    by_cases hi : i = r * 8 + c
    · subst hi
      simp [ofIdx_nat r c hc]
    · simp only [hi, if_false]
      exact inv.vis i h (by unfold Visited at *; omega)
  · intro i h hv
    have hi : ¬ i = r * 8 + c := by unfold Visited at hv; omega
    rw [hb i h, hh i h, hs i h]
    simp only [hi, if_false]
    exact inv.unv i h (by unfold Visited at *; omega)
  · intro p hp
    rw [hwk] at hp
    by_cases ho : o = some ⟨.king, .white⟩
    · rw [if_pos ho] at hp
      cases hp
      exact ⟨r * 8 + c, hk, (ofIdx_nat r c hc).symm, by rw [hb _ hk]; simp [ho]⟩
    · rw [if_neg ho] at hp
      obtain ⟨i, h, hpi, hbi⟩ := inv.wk p hp
      have hi : ¬ i = r * 8 + c := by
        intro he; subst he; rw [u3] at hbi; cases hbi
      exact ⟨i, h, hpi, by rw [hb i h]; simp only [hi, if_false]; exact hbi⟩
  · intro p hp
    rw [hbk] at hp
    by_cases ho : o = some ⟨.king, .black⟩
    · rw [if_pos ho] at hp
      cases hp
      exact ⟨r * 8 + c, hk, (ofIdx_nat r c hc).symm, by rw [hb _ hk]; simp [ho]⟩
    · rw [if_neg ho] at hp
      obtain ⟨i, h, hpi, hbi⟩ := inv.bk p hp
      have hi : ¬ i = r * 8 + c := by
        intro he; subst he; rw [u3] at hbi; cases hbi
      exact ⟨i, h, hpi, by rw [hb i h]; simp only [hi, if_false]; exact hbi⟩
  · intro hn i h
    rw [hwk] at hn
    by_cases ho : o = some ⟨.king, .white⟩
    · rw [if_pos ho] at hn; cases hn
    · rw [if_neg ho] at hn
      rw [hb i h]
      by_cases hi : i = r * 8 + c
      · simp only [hi, if_true]; exact ho
      · simp only [hi, if_false]; exact inv.wnone hn i h
  · intro hn i h
    rw [hbk] at hn
    by_cases ho : o = some ⟨.king, .black⟩
    · rw [if_pos ho] at hn; cases hn
    · rw [if_neg ho] at hn
      rw [hb i h]
      by_cases hi : i = r * 8 + c
      · simp only [hi, if_true]; exact ho
      · simp only [hi, if_false]; exact inv.bnone hn i h

theorem markKing_wking (s : Scan) (pc : Piece) (p : Pos) :
    (s.markKing pc p).wking = if some pc = some (Piece.mk .king .white) then some p else s.wking := by
  rcases pc with ⟨t, o⟩
  unfold Scan.markKing
  cases t <;> cases o <;> simp

theorem markKing_bking (s : Scan) (pc : Piece) (p : Pos) :
    (s.markKing pc p).bking = if some pc = some (Piece.mk .king .black) then some p else s.bking := by
  rcases pc with ⟨t, o⟩
  unfold Scan.markKing
  cases t <;> cases o <;> simp

theorem cinv_slash {s : Scan} {r : Nat} (inv : CInv s r 8) (hr : r ≠ 0) :
    CInv { s with col := 0, row := s.row - 1 } (r - 1) 0 := by
  have hr7 := inv.pos.r7
  have hv : ∀ i, Visited (r - 1) 0 i ↔ Visited r 8 i := by
    intro i; unfold Visited; omega
  refine ⟨⟨?_, rfl, by omega, by omega⟩, ?_, ?_, inv.hash, inv.score, inv.wk, inv.bk,
    inv.wnone, inv.bnone⟩
  · simp only; rw [inv.pos.row]; omega
  · intro i h hvi; exact inv.vis i h ((hv i).1 hvi)
  · intro i h hvi; exact inv.unv i h (fun h' => hvi ((hv i).2 h'))

theorem cinv_putPiece {s : Scan} {r c : Nat} (inv : CInv s r c) (hc : c < 8) (pc : Piece)
    (hi : (Pos.mk s.row s.col).idx < 64) : CInv (s.putPiece pc hi) r (c + 1) := by
  have hr7 := inv.pos.r7
  have hk : r * 8 + c < 64 := by omega
  have hp : (Pos.mk s.row s.col) = ⟨(r : Int), (c : Int)⟩ := by rw [inv.pos.row, inv.pos.col]
  have hidx : (Pos.mk s.row s.col).idx = r * 8 + c := by rw [hp, idx_nat]
  have hunv : ¬ Visited r c (r * 8 + c) := by unfold Visited; omega
  obtain ⟨u1, u2, u3⟩ := inv.unv _ hk hunv
  apply cinv_write inv hc (some pc)
  · simp [Scan.putPiece]
  · simp [Scan.putPiece]
  · intro i h
    simp only [Scan.putPiece, markKing_board, Vector.getElem_set, hidx]
    by_cases hi' : i = r * 8 + c
    · simp [hi']
    · have : ¬ r * 8 + c = i := fun h => hi' h.symm
      simp [hi', this]
  · intro i h
    simp only [Scan.putPiece, markKing_pastHashes, Vector.getElem_set, hp, idx_nat]
    by_cases hi' : i = r * 8 + c
    · simp [hi', placeHash]
    · have : ¬ r * 8 + c = i := fun h => hi' h.symm
      simp [hi', this]
  · intro i h
    simp only [Scan.putPiece, markKing_pastScores, Vector.getElem_set, hp, idx_nat]
    by_cases hi' : i = r * 8 + c
    · simp [hi', placeScore]
    · have : ¬ r * 8 + c = i := fun h => hi' h.symm
      simp [hi', this]
  · simp only [Scan.putPiece, markKing_hash, markKing_pastHashes]
    rw [xorAll_set_fr, inv.hash]
    simp only [hidx, u1]
    simp
  · simp only [Scan.putPiece, markKing_score, markKing_pastScores]
    rw [sumAll_set_fr, inv.score]
    simp only [hidx, u2]
    omega
  · simp only [Scan.putPiece, markKing_wking, hp]
  · simp only [Scan.putPiece, markKing_bking, hp]

/-- the body of the `putEmpty` loop -/
def Scan.emptyStep (s : Scan) (h : (Pos.mk s.row s.col).idx < 64) : Scan :=
  { s with pastHashes := s.pastHashes.set (Pos.mk s.row s.col).idx Gen.emptyPlace h,
           hash := s.hash ^^^ Gen.emptyPlace, col := s.col + 1 }

theorem cinv_emptyStep {s : Scan} {r c : Nat} (inv : CInv s r c) (hc : c < 8)
    (hi : (Pos.mk s.row s.col).idx < 64) : CInv (s.emptyStep hi) r (c + 1) := by
  have hr7 := inv.pos.r7
  have hk : r * 8 + c < 64 := by omega
  have hp : (Pos.mk s.row s.col) = ⟨(r : Int), (c : Int)⟩ := by rw [inv.pos.row, inv.pos.col]
  have hidx : (Pos.mk s.row s.col).idx = r * 8 + c := by rw [hp, idx_nat]
  have hunv : ¬ Visited r c (r * 8 + c) := by unfold Visited; omega
  obtain ⟨u1, u2, u3⟩ := inv.unv _ hk hunv
  apply cinv_write inv hc none
  · rfl
  · rfl
  · intro i h
    by_cases hi' : i = r * 8 + c
    · subst hi'; simp only [if_true]; exact u3
    · simp only [hi', if_false]; rfl
  · intro i h
    simp only [Scan.emptyStep, Vector.getElem_set, hidx]
    by_cases hi' : i = r * 8 + c
    · simp [hi', placeHash]
    · have : ¬ r * 8 + c = i := fun h => hi' h.symm
      simp [hi', this]
  · intro i h
    by_cases hi' : i = r * 8 + c
    · subst hi'; simp only [if_true, placeScore]; exact u2
    · simp only [hi', if_false]; rfl
  · simp only [Scan.emptyStep]
    rw [xorAll_set_fr, inv.hash]
    simp only [hidx, u1]
    simp
  · exact inv.score
  · simp [Scan.emptyStep]
  · simp [Scan.emptyStep]

theorem cinv_putEmpty : ∀ (n : Nat) (s : Scan) (r c : Nat), CInv s r c → c + n ≤ 8 →
    CInv (s.putEmpty n) r (c + n) := by
  intro n
  induction n with
  | zero => intro s r c inv _; exact inv
  | succ n ih =>
    intro s r c inv hcn
    have hr7 := inv.pos.r7
    have hi : (Pos.mk s.row s.col).idx < 64 := by
      rw [inv.pos.row, inv.pos.col, idx_nat]; omega
    unfold Scan.putEmpty
    simp only [hi, dite_true]
    have := ih (s.emptyStep hi) r (c + 1) (cinv_emptyStep inv (by omega) hi) (by omega)
    have he : c + (n + 1) = c + 1 + n := by omega
    rw [he]
    exact this

theorem cinv_step {s s' : Scan} {ch : Char} {r c : Nat} (inv : CInv s r c)
    (h : s.step ch = .ok s') : ∃ r' c', CInv s' r' c' := by
  have hat := inv.pos
  rcases step_cases h with ⟨_, h2, h3, rfl⟩ | ⟨_, h2, pc, _, hi, rfl⟩ | ⟨_, _, h3, h4, rfl⟩
  · have hc : c = 8 := by have := hat.col; omega
    subst hc
    exact ⟨r - 1, 0, cinv_slash inv (by have := hat.row; omega)⟩
  · exact ⟨r, c + 1, cinv_putPiece inv (by have := hat.col; omega) pc hi⟩
  · exact ⟨r, c + (ch.toNat - 48), cinv_putEmpty _ s r c inv (by have := hat.col; omega)⟩

theorem cinv_run : ∀ (cs : List Char) (s s' : Scan) (r c : Nat), CInv s r c → s.run cs = .ok s' →
    ∃ r' c', CInv s' r' c' := by
  intro cs
  induction cs with
  | nil => intro s s' r c inv h; rw [run_nil] at h; cases h; exact ⟨r, c, inv⟩
  | cons ch cs ih =>
    intro s s' r c inv h
    obtain ⟨s1, hs1, hrun⟩ := run_cons h
    obtain ⟨r1, c1, inv1⟩ := cinv_step inv hs1
    exact ih s1 s' r1 c1 inv1 hrun

theorem cinv_init : CInv Scan.init 7 0 := by
  refine ⟨init_at, ?_, ?_, ?_, ?_, ?_, ?_, ?_, ?_⟩
  · intro i h hv; unfold Visited at hv; omega
  · intro i h _; simp [Scan.init]
  · decide +kernel
  · decide +kernel
  · intro p hp; cases hp
  · intro p hp; cases hp
  · intro _ i h; simp [Scan.init]
  · intro _ i h; simp [Scan.init]

/-- at the end of an accepted placement field every square has been passed -/
theorem cinv_final {pieces : List Char} {sc : Scan} (h : Scan.init.run pieces = .ok sc)
    (hr : sc.row = 0) (hc : sc.col = 8) : CInv sc 0 8 := by
  obtain ⟨r, c, inv⟩ := cinv_run pieces _ _ _ _ cinv_init h
  have h1 : r = 0 := by have := inv.pos.row; omega
  have h2 : c = 8 := by have := inv.pos.col; omega
  subst h1; subst h2; exact inv


/-- the cache entry of square `i` is right -/
def Game.OkAt (g : Game) (i : Nat) (h : i < 64) : Prop :=
  g.pastHashes[i] = placeHash (Pos.ofIdx i) g.board[i]
    ∧ g.pastScores[i] = placeScore (Pos.ofIdx i) g.endgame g.board[i]

theorem cacheInv_iff (g : Game) : g.CacheInv ↔ ∀ (i : Nat) (h : i < 64), g.OkAt i h :=
  ⟨fun c i h => ⟨c.hashes i h, c.scores i h⟩,
   fun c => ⟨fun i h => (c i h).1, fun i h => (c i h).2⟩⟩

theorem ofIdx_idx {p : Pos} (hp : p.Valid) : Pos.ofIdx p.idx = p := by
  unfold Pos.Valid at hp
  unfold Pos.ofIdx Pos.idx
  rcases p with ⟨r, c⟩
  simp only at hp ⊢
  congr 1 <;> omega

theorem setPosition_res (g : Game) (p : Pos) (np : Option Piece) :
    (g.setPosition p np).resHash = g.resHash ∧ (g.setPosition p np).resScore = g.resScore := by
  unfold Game.setPosition
  by_cases h : p.idx < 64
  · simp only [h, dite_true]
    unfold Game.resHash Game.resScore
    simp only [xorAll_set_fr, sumAll_set_fr]
    constructor
    · generalize g.hash = a
      generalize g.pastHashes[p.idx] = b
      generalize placeHash p np = c
      generalize xorAll g.pastHashes = d
      have : a ^^^ b ^^^ c ^^^ (d ^^^ b ^^^ c) = (b ^^^ b) ^^^ (c ^^^ c) ^^^ (a ^^^ d) := by ac_rfl
      rw [this]; simp
    · omega
  · simp [h]

theorem setPosition_okAt (g : Game) (p : Pos) (hp : p.Valid) (np : Option Piece) (i : Nat)
    (h : i < 64) (hok : i ≠ p.idx → g.OkAt i h) : (g.setPosition p np).OkAt i h := by
  have hlt := Pos.idx_lt hp
  unfold Game.setPosition
  simp only [hlt, dite_true]
  unfold Game.OkAt
  simp only [Vector.getElem_set]
  by_cases hi : p.idx = i
  · subst hi
    simp [ofIdx_idx hp]
  · simp only [hi, if_false]
    exact hok (fun h => hi h.symm)

theorem filter_len_one_unique {α : Type} (p : α → Bool) : ∀ (l : List α),
    (l.filter p).length = 1 → ∀ (i j : Nat) (hi : i < l.length) (hj : j < l.length),
    p l[i] = true → p l[j] = true → i = j := by
  intro l
  induction l with
  | nil => intro h; simp at h
  | cons a l ih =>
    intro h i j hi hj pi pj
    by_cases ha : p a = true
    · rw [List.filter_cons_of_pos ha] at h
      have hnil : l.filter p = [] := by
        simp only [List.length_cons, Nat.add_eq_right] at h
        exact List.length_eq_zero_iff.1 h
      have hno : ∀ x ∈ l, ¬ p x = true := List.filter_eq_nil_iff.1 hnil
      cases i with
      | zero =>
        cases j with
        | zero => rfl
        | succ j => exact absurd pj (hno _ (List.getElem_mem _))
      | succ i => exact absurd pi (hno _ (List.getElem_mem _))
    · rw [List.filter_cons_of_neg ha] at h
      cases i with
      | zero => exact absurd pi ha
      | succ i =>
        cases j with
        | zero => exact absurd pj ha
        | succ j =>
          congr 1
          exact ih h i j (by simpa using hi) (by simpa using hj) pi pj

theorem score_nonking (pc : Piece) (p : Pos) (e1 e2 : Bool) (h : pc.pieceType ≠ .king) :
    pc.score p e1 = pc.score p e2 := by
  rcases pc with ⟨t, o⟩
  cases t <;> first | rfl | exact absurd rfl h

theorem idx_ofIdx {i : Nat} (h : i < 64) : (Pos.ofIdx i).idx = i ∧ (Pos.ofIdx i).Valid := by
  unfold Pos.ofIdx Pos.idx Pos.Valid
  simp only
  omega

/-- switching to the end-game king table and re-scoring the two cached king squares keeps the
cache right, provided every king on the board stands on one of them -/
theorem updatePhase_cacheInv (g : Game) (hc : g.CacheInv) (hwv : g.wking.Valid)
    (hbv : g.bking.Valid)
    (huniq : ∀ (i : Nat) (h : i < 64) (pc : Piece), g.board[i] = some pc → pc.pieceType = .king →
      i = g.wking.idx ∨ i = g.bking.idx) : g.updatePhase.CacheInv := by
  unfold Game.updatePhase
  split
  · rw [cacheInv_iff]
    intro i h
    have f := setPosition_get_fields { g with endgame := true } g.wking
    dsimp only
    apply setPosition_okAt
    · rw [f.2.2.2.2.1]; exact hbv
    · intro hib
      rw [f.2.2.2.2.1] at hib
      apply setPosition_okAt _ _ hwv
      intro hiw
      refine ⟨hc.hashes i h, ?_⟩
      rw [hc.scores i h]
      show placeScore (Pos.ofIdx i) g.endgame g.board[i] = placeScore (Pos.ofIdx i) true g.board[i]
      cases hb : g.board[i] with
      | none => rfl
      | some pc =>
        by_cases hk : pc.pieceType = .king
        · rcases huniq i h pc hb hk with h1 | h1
          · exact absurd h1 hiw
          · exact absurd h1 hib
        · exact score_nonking pc _ _ _ hk
  · exact hc

theorem updatePhase_res (g : Game) :
    g.updatePhase.resHash = g.resHash ∧ g.updatePhase.resScore = g.resScore := by
  unfold Game.updatePhase
  split
  · dsimp only
    have a := setPosition_res { g with endgame := true } g.wking
      (Game.get { g with endgame := true } g.wking)
    have b := setPosition_res
      (Game.setPosition { g with endgame := true } g.wking (Game.get { g with endgame := true } g.wking))
      (Game.setPosition { g with endgame := true } g.wking
        (Game.get { g with endgame := true } g.wking)).bking
      (Game.get (Game.setPosition { g with endgame := true } g.wking
        (Game.get { g with endgame := true } g.wking)) (Game.setPosition { g with endgame := true } g.wking
        (Game.get { g with endgame := true } g.wking)).bking)
    exact ⟨b.1.trans a.1, b.2.trans a.2⟩
  · exact ⟨rfl, rfl⟩


theorem all_visited (i : Nat) (h : i < 64) : Visited 0 8 i := by unfold Visited; omega

theorem mkGame_cache {sc : Scan} (inv : CInv sc 0 8) (player : Player) (st : GState) (wk bk : Pos) :
    (mkGame sc player st wk bk).CacheInv ∧ (mkGame sc player st wk bk).resScore = 0
    ∧ (mkGame sc player st wk bk).resHash
        = (if player = .black then Gen.blackToMove else 0) ^^^ st.hash := by
  refine ⟨⟨fun i h => (inv.vis i h (all_visited i h)).1, fun i h => (inv.vis i h (all_visited i h)).2⟩,
    ?_, ?_⟩
  · show sc.score - sumAll sc.pastScores = 0
    rw [inv.score]; omega
  · show (if player = .black then sc.hash ^^^ Gen.blackToMove else sc.hash) ^^^ st.hash
        ^^^ xorAll sc.pastHashes = _
    rw [inv.hash]
    generalize xorAll sc.pastHashes = x
    generalize st.hash = y
    generalize Gen.blackToMove = z
    cases player
    · simp only [if_false, reduceCtorEq]
      have : x ^^^ y ^^^ x = (x ^^^ x) ^^^ y := by ac_rfl
      rw [this]; simp only [UInt64.xor_self]
    · simp only [if_true]
      have : x ^^^ z ^^^ y ^^^ x = (x ^^^ x) ^^^ (z ^^^ y) := by ac_rfl
      rw [this]; simp only [UInt64.xor_self, UInt64.zero_xor]

theorem countKing_one {b : Vector (Option Piece) 64} {pl : Player}
    (h : materialOkSide b pl = true) : countPieces b pl .king = 1 := by
  unfold materialOkSide at h
  simp only [Bool.and_eq_true, decide_eq_true_eq] at h
  exact h.1

theorem king_unique {b : Vector (Option Piece) 64} {pl : Player}
    (h : materialOkSide b pl = true) (i j : Nat) (hi : i < 64) (hj : j < 64)
    (h1 : b[i] = some ⟨.king, pl⟩) (h2 : b[j] = some ⟨.king, pl⟩) : i = j := by
  have hc := countKing_one h
  unfold countPieces at hc
  apply filter_len_one_unique _ b.toList hc i j (by simpa using hi) (by simpa using hj)
  · simp [h1]
  · simp [h2]

/-- **C17 / item 4**: the caches of an imported game are consistent -/
theorem ofFen_wf_cache {s : List Char} {g : Game} (h : Game.ofFen s = .ok g) :
    g.CacheInv ∧ g.resScore = 0
    ∧ g.resHash = (if g.player = .black then Gen.blackToMove else 0) ^^^ g.top.hash := by
  obtain ⟨pieces, side, cast, ep, rest, sc, player, st0, st, wk, bk, hs, hr, hr0, hc8, hsd, hc,
    he, hw, hbk, hmw, hmb, _, _, _, rfl⟩ := ofFen_ok_inv h
  have inv := cinv_final hr hr0 hc8
  obtain ⟨c1, c2, c3⟩ := mkGame_cache inv player st wk bk
  obtain ⟨iw, hiw, rfl, hbw⟩ := inv.wk wk hw
  obtain ⟨ib, hib, rfl, hbb⟩ := inv.bk bk hbk
  obtain ⟨r1, r2⟩ := updatePhase_res (mkGame sc player st (Pos.ofIdx iw) (Pos.ofIdx ib))
  obtain ⟨_, f2, f3, _, _⟩ := updatePhase_fields (mkGame sc player st (Pos.ofIdx iw) (Pos.ofIdx ib))
  refine ⟨?_, by rw [r2]; exact c2, ?_⟩
  · apply updatePhase_cacheInv _ c1 (idx_ofIdx hiw).2 (idx_ofIdx hib).2
    intro i hi pc hpc hk
    show i = (Pos.ofIdx iw).idx ∨ i = (Pos.ofIdx ib).idx
    rw [(idx_ofIdx hiw).1, (idx_ofIdx hib).1]
    have hpc' : sc.board[i] = some pc := hpc
    rcases pc with ⟨t, o⟩
    simp only at hk
    subst hk
    cases o
    · exact Or.inl (king_unique hmw i iw hi hiw hpc' hbw)
    · exact Or.inr (king_unique hmb i ib hi hib hpc' hbb)
  · rw [r1, c3]
    unfold Game.top
    rw [f2, f3]
    rfl

/-! ## 5. completeness of the reader -/

theorem step_slash {s : Scan} (hr : s.row ≠ 0) (hc : s.col = 8) :
    s.step '/' = .ok { s with col := 0, row := s.row - 1 } := by
  unfold Scan.step; simp [hr, hc]

theorem step_letter {s : Scan} {ch : Char} {pc : Piece} (ha : ch.isAlpha = true) (hc : s.col < 8)
    (hpc : Piece.fromCharAscii ch = some pc) (hi : (Pos.mk s.row s.col).idx < 64) :
    ∃ s1, s.step ch = .ok s1 ∧ s1.row = s.row ∧ s1.col = s.col + 1 := by
  have hne : ch ≠ '/' := (alpha_facts ha).2.2.2
  unfold Scan.step
  rw [if_neg hne, if_pos ha, if_neg (by omega)]
  simp only [hpc]
  rw [dif_pos hi]
  rcases pc with ⟨t, o⟩
  cases t <;> cases o <;> exact ⟨_, rfl, rfl, rfl⟩

theorem step_digit {s : Scan} {ch : Char} (hd : isD18 ch = true)
    (hn : (ch.toNat : Int) - 48 ≤ 8 - s.col) :
    s.step ch = .ok (s.putEmpty (ch.toNat - 48)) := by
  have hdig := d18_isDigit hd
  have hne : ch ≠ '/' := (digit_facts hdig).2.1
  have hna : ¬ ch.isAlpha = true := by rw [(digit_facts hdig).1]; simp
  have h18 := isD18_iff.1 hd
  unfold Scan.step
  rw [if_neg hne, if_neg hna, if_pos hdig]
  have hz : '0'.toNat = 48 := rfl
  dsimp only
  rw [hz]
  have hcond : ¬ ((decide ((ch.toNat : Int) - (48 : Nat) < 1) || decide ((ch.toNat : Int) - (48 : Nat) > 8 - s.col)) = true) := by
    simp only [Bool.or_eq_true, decide_eq_true_eq, not_or, Int.not_lt]
    omega
  rw [if_neg hcond]
  have htn : ((ch.toNat : Int) - (48 : Nat)).toNat = ch.toNat - 48 := by omega
  rw [htn]

/-- the scanner accepts whatever the grammar accepts -/
theorem run_complete : ∀ (cs : List Char) (s : Scan) (r c : Nat)
    (cur : List (Option Piece)) (rows : List (List (Option Piece))), s.At r c →
    (splitOn' (· = '/') cs).mapM Spec.expandRank = some (cur :: rows) →
    cur.length + c = 8 → rows.length = r → (∀ x ∈ rows, x.length = 8) →
    ∃ s', s.run cs = .ok s' ∧ s'.row = 0 ∧ s'.col = 8 := by
  intro cs
  induction cs with
  | nil =>
    intro s r c cur rows hat hm hl hrl _
    simp only [splitOn', mapM_opt_cons, mapM_opt_nil, Spec.expandRank, Option.some.injEq,
      List.cons.injEq] at hm
    obtain ⟨rfl, rfl⟩ := hm
    simp only [List.length_nil] at hl hrl
    refine ⟨s, rfl, ?_, ?_⟩
    · rw [hat.row, ← hrl]; rfl
    · rw [hat.col]; omega
  | cons ch cs ih =>
    intro s r c cur rows hat hm hl hrl hall
    have hr7 := hat.r7
    by_cases hsl : ch = '/'
    · subst hsl
      have hsep : (fun x : Char => decide (x = '/')) '/' = true := by decide
      rw [splitOn'_cons_sep hsep, mapM_opt_cons] at hm
      have he : Spec.expandRank [] = some [] := rfl
      rw [he] at hm
      cases hrest : (splitOn' (fun x : Char => decide (x = '/')) cs).mapM Spec.expandRank with
      | none => rw [hrest] at hm; cases hm
      | some rs =>
        rw [hrest] at hm
        simp only [Option.some.injEq, List.cons.injEq] at hm
        obtain ⟨rfl, rfl⟩ := hm
        cases rs with
        | nil =>
          have := mapM_opt_length _ _ _ hrest
          have hne := splitOn'_ne_nil (fun x : Char => decide (x = '/')) cs
          cases hsp : splitOn' (fun x : Char => decide (x = '/')) cs with
          | nil => exact absurd hsp hne
          | cons a b => rw [hsp] at this; simp at this
        | cons cur1 rows1 =>
          simp only [List.length_cons] at hrl
          simp only [List.length_nil] at hl
          have hrow : s.row ≠ 0 := by rw [hat.row]; omega
          have hcol : s.col = 8 := by rw [hat.col]; omega
          have hat1 : Scan.At { s with col := 0, row := s.row - 1 } (r - 1) 0 :=
            ⟨by simp only; rw [hat.row]; omega, rfl, by omega, by omega⟩
          obtain ⟨s', hrun, h0, h8⟩ := ih _ (r - 1) 0 cur1 rows1 hat1 hrest
            (by have := hall cur1 (by simp); omega) (by omega)
            (fun x hx => hall x (by simp [hx]))
          refine ⟨s', ?_, h0, h8⟩
          unfold Scan.run
          rw [step_slash hrow hcol]
          exact hrun
    · have hsep : (fun x : Char => decide (x = '/')) ch = false := by simp [hsl]
      obtain ⟨hd', tl, hsp, hsp'⟩ := splitOn'_cons_not (sep := fun x : Char => decide (x = '/')) hsep cs
      rw [hsp', mapM_opt_cons] at hm
      cases he : Spec.expandRank (ch :: hd') with
      | none => rw [he] at hm; simp at hm
      | some e1 =>
        cases ht : tl.mapM Spec.expandRank with
        | none => rw [he, ht] at hm; simp at hm
        | some t1 =>
          rw [he, ht] at hm
          simp only [Option.some.injEq, List.cons.injEq] at hm
          obtain ⟨rfl, rfl⟩ := hm
          obtain ⟨rest, hrest, hcase⟩ := expandRank_cons_some he
          have hm1 : (splitOn' (fun x : Char => decide (x = '/')) cs).mapM Spec.expandRank
              = some (rest :: t1) := by
            rw [hsp, mapM_opt_cons, hrest, ht]
          rcases hcase with ⟨hd18, rfl⟩ | ⟨hd18, pc, hpc, rfl⟩
          · -- digit
            have h18 := isD18_iff.1 hd18
            simp only [List.length_append, List.length_replicate] at hl
            have hn : (ch.toNat : Int) - 48 ≤ 8 - s.col := by rw [hat.col]; omega
            have hstep := step_digit hd18 hn
            obtain ⟨_, f2, f3, _⟩ := putEmpty_fields (ch.toNat - 48) s r c hat.row hat.col hr7
              (by omega)
            have hat1 : (s.putEmpty (ch.toNat - 48)).At r (c + (ch.toNat - 48)) :=
              ⟨f2, f3, hr7, by omega⟩
            obtain ⟨s', hrun, h0, h8⟩ := ih _ r _ rest t1 hat1 hm1 (by omega) hrl hall
            refine ⟨s', ?_, h0, h8⟩
            unfold Scan.run
            rw [hstep]
            exact hrun
          · -- letter
            have ha := pieceOfLetter_some hpc
            simp only [List.length_cons] at hl
            have hfc : Piece.fromCharAscii ch = some pc := by rw [(alpha_facts ha).1]; exact hpc
            have hi : (Pos.mk s.row s.col).idx < 64 := by
              rw [hat.row, hat.col, idx_nat]; omega
            obtain ⟨s1, hstep, hr1, hc1⟩ := step_letter ha (by rw [hat.col]; omega) hfc hi
            have hat1 : s1.At r (c + 1) :=
              ⟨by rw [hr1, hat.row], by rw [hc1, hat.col]; rfl, hr7, by omega⟩
            obtain ⟨s', hrun, h0, h8⟩ := ih s1 r _ rest t1 hat1 hm1 (by omega) hrl hall
            refine ⟨s', ?_, h0, h8⟩
            unfold Scan.run
            rw [hstep]
            exact hrun

theorem parsePlacement_inv {p : List Char} {b : Vector (Option Piece) 64}
    (h : Spec.parsePlacement p = some b) :
    ∃ cur rows, (splitOn' (· = '/') p).mapM Spec.expandRank = some (cur :: rows)
      ∧ cur.length = 8 ∧ rows.length = 7 ∧ (∀ x ∈ rows, x.length = 8) := by
  unfold Spec.parsePlacement at h
  rw [splitOn_eq] at h
  dsimp only at h
  split at h
  · cases h
  · rename_i hlen
    simp only [ne_eq, Decidable.not_not] at hlen
    split at h
    · cases h
    · rename_i rows hm
      split at h
      · rename_i hall
        simp only [List.all_eq_true, decide_eq_true_eq] at hall
        have hl := mapM_opt_length _ _ _ hm
        rw [hlen] at hl
        cases rows with
        | nil => simp at hl
        | cons cur rows =>
          refine ⟨cur, rows, hm, hall cur (by simp), by simpa using hl,
            fun x hx => hall x (by simp [hx])⟩
      · cases h

theorem scan_complete {p : List Char} {b : Vector (Option Piece) 64}
    (h : Spec.parsePlacement p = some b) :
    ∃ sc, Scan.init.run p = .ok sc ∧ sc.row = 0 ∧ sc.col = 8 ∧ sc.board = b := by
  obtain ⟨cur, rows, hm, hl, hrl, hall⟩ := parsePlacement_inv h
  obtain ⟨sc, hrun, h0, h8⟩ := run_complete p Scan.init 7 0 cur rows init_at hm (by omega) hrl hall
  have := scan_parsePlacement hrun h0 h8
  rw [h] at this
  exact ⟨sc, hrun, h0, h8, (Option.some.inj this).symm⟩

theorem parseCastling_complete : ∀ (cast : List Char) (st : GState), cast.all castChar = true →
    ∃ st', parseCastling st cast = .ok st' := by
  intro cast
  induction cast with
  | nil => intro st _; exact ⟨st, rfl⟩
  | cons c cs ih =>
    intro st h
    simp only [List.all_cons, Bool.and_eq_true] at h
    obtain ⟨hc, hcs⟩ := h
    unfold parseCastling
    simp only [castChar, Bool.or_eq_true, decide_eq_true_eq] at hc
    by_cases h1 : c = 'K'
    · rw [if_pos h1]; exact ih _ hcs
    · rw [if_neg h1]
      by_cases h2 : c = 'Q'
      · rw [if_pos h2]; exact ih _ hcs
      · rw [if_neg h2]
        by_cases h3 : c = 'k'
        · rw [if_pos h3]; exact ih _ hcs
        · rw [if_neg h3]
          by_cases h4 : c = 'q'
          · rw [if_pos h4]; exact ih _ hcs
          · rw [if_neg h4]
            by_cases h5 : c = '-'
            · rw [if_pos h5]; exact ih _ hcs
            · exfalso; rcases hc with (((hc | hc) | hc) | hc) | hc <;> contradiction

theorem fenLoose_inv {s : List Char} {a : Spec.APos} (h : Spec.fenLoose s = some a) :
    ∃ p sd c e rest, Spec.fields s = p :: sd :: c :: e :: rest
      ∧ Spec.parsePlacement p = some a.board ∧ Spec.parseSide sd = some a.side
      ∧ Spec.parseCastlingLoose c = some (a.wk, a.wq, a.bk, a.bq)
      ∧ Spec.parseEpLoose e = some a.ep := by
  unfold Spec.fenLoose at h
  split at h
  · rename_i p sd c e rest hf
    split at h
    · rename_i b side wk wq bk bq ep h1 h2 h3 h4
      simp only [Option.some.injEq] at h
      subst h
      exact ⟨p, sd, c, e, rest, hf, h1, h2, h3, h4⟩
    · cases h
  · cases h

theorem parseSide_sideOf {sd : List Char} {pl : Player} (h : Spec.parseSide sd = some pl) :
    sideOf sd = some pl := by
  unfold Spec.parseSide at h
  split at h
  · cases h; rfl
  · cases h; rfl
  · cases h

/-- the en-passant field is `-` or a file followed by the rank that fits the side to move -/
def EpRankOk (e : List Char) (side : Player) : Prop := e = ['-'] ∨ ∃ f, e = [f, epRankOf side]

theorem epOf_complete {e : List Char} {side : Player} {x : Option Nat} (st : GState)
    (h : Spec.parseEpLoose e = some x) (hr : EpRankOk e side) : ∃ st', epOf side st e = some st' := by
  unfold epOf
  by_cases hd : e = ['-']
  · rw [if_pos hd]; exact ⟨st, rfl⟩
  · rw [if_neg hd]
    rcases hr with hr | ⟨f, rfl⟩
    · exact absurd hr hd
    · unfold Spec.parseEpLoose at h
      split at h
      · rename_i heq; exact absurd heq hd
      · rename_i f' r' heq
        simp only [List.cons.injEq, and_true] at heq
        obtain ⟨rfl, rfl⟩ := heq
        split at h
        · rename_i hc
          simp only [Bool.and_eq_true, decide_eq_true_eq] at hc
          have : (decide ('a'.toNat ≤ f.toNat) && decide (f.toNat ≤ 'h'.toNat)
              && decide (epRankOf side = epRankOf side)) = true := by
            simp only [Bool.and_eq_true, decide_eq_true_eq, and_true]
            exact hc.1
          exact ⟨_, if_pos this⟩
        · cases h
      · cases h

/-! ## castling rights and en-passant file against the board -/

/-- the reader's `boardAt` is the engine's `get` -/
theorem boardAt_eq_get (g : Game) (r c : Int) : boardAt g.board r c = g.get ⟨r, c⟩ := by
  unfold boardAt Game.get Pos.idx
  by_cases h : (r * 8 + c).toNat < 64
  · simp [Array.getD, h]
  · simp [Array.getD, h]

/-- on a square of the board the rules' `at` is the reader's `boardAt` -/
theorem at_eq_boardAt (a : Spec.APos) (r c : Int) (h : 0 ≤ r ∧ r < 8 ∧ 0 ≤ c ∧ c < 8) :
    a.at (r, c) = boardAt a.board r c := by
  unfold Spec.APos.at Spec.onBoard boardAt
  simp [h.1, h.2.1, h.2.2.1, h.2.2.2]

/-- every castling right of the abstract position has its king and rook on their home squares
(the corresponding clauses of `Spec.sane`) -/
def RightsOkBoard (a : Spec.APos) : Prop :=
  (a.wk = true → a.at (0, 4) = some ⟨.king, .white⟩ ∧ a.at (0, 7) = some ⟨.rook, .white⟩)
  ∧ (a.wq = true → a.at (0, 4) = some ⟨.king, .white⟩ ∧ a.at (0, 0) = some ⟨.rook, .white⟩)
  ∧ (a.bk = true → a.at (7, 4) = some ⟨.king, .black⟩ ∧ a.at (7, 7) = some ⟨.rook, .black⟩)
  ∧ (a.bq = true → a.at (7, 4) = some ⟨.king, .black⟩ ∧ a.at (7, 0) = some ⟨.rook, .black⟩)

/-- an en-passant file of the abstract position is backed by the enemy pawn that has just made
its double step, the two squares behind it being empty (the corresponding clause of `Spec.sane`) -/
def EpOkBoard (a : Spec.APos) : Prop :=
  ∀ f : Nat, a.ep = some f →
    match a.side with
    | .white => a.at (4, (f : Int)) = some ⟨.pawn, .black⟩ ∧ a.at (5, (f : Int)) = none
        ∧ a.at (6, (f : Int)) = none
    | .black => a.at (3, (f : Int)) = some ⟨.pawn, .white⟩ ∧ a.at (2, (f : Int)) = none
        ∧ a.at (1, (f : Int)) = none

namespace FenChk

theorem bimp (x : Bool) (P : Prop) : (x = false ∨ P) ↔ (x = true → P) := by
  cases x <;> simp

theorem rightsMatch_iff (g : Game) :
    rightsMatchBoard g.board g.top = true ↔ RightsOkBoard g.abs := by
  have e04 := at_eq_boardAt g.abs 0 4 (by omega)
  have e07 := at_eq_boardAt g.abs 0 7 (by omega)
  have e00 := at_eq_boardAt g.abs 0 0 (by omega)
  have e74 := at_eq_boardAt g.abs 7 4 (by omega)
  have e77 := at_eq_boardAt g.abs 7 7 (by omega)
  have e70 := at_eq_boardAt g.abs 7 0 (by omega)
  unfold rightsMatchBoard RightsOkBoard
  rw [e04, e07, e00, e74, e77, e70]
  simp only [Bool.and_eq_true, Bool.or_eq_true, Bool.not_eq_true', decide_eq_true_eq, bimp]
  show _ ↔ (g.top.wk = true → _) ∧ (g.top.wq = true → _) ∧ (g.top.bk = true → _)
    ∧ (g.top.bq = true → _)
  constructor
  · rintro ⟨⟨⟨a, b⟩, c⟩, d⟩; exact ⟨a, b, c, d⟩
  · rintro ⟨a, b, c, d⟩; exact ⟨⟨⟨a, b⟩, c⟩, d⟩

theorem epMatch_iff (g : Game) :
    epMatchesBoard g.board g.top g.player = true ↔ EpOkBoard g.abs := by
  have h0 : 0 ≤ g.top.enPassant := by unfold GState.enPassant; omega
  unfold epMatchesBoard EpOkBoard
  show _ ↔ ∀ f : Nat, (if g.top.enPassant < 8 then some g.top.enPassant.toNat else none) = some f →
    match g.player with
    | .white => _
    | .black => _
  dsimp only
  by_cases h8 : g.top.enPassant < 8
  · have hb : ∀ r : Int, 0 ≤ r → r < 8 →
        g.abs.at (r, ((g.top.enPassant.toNat : Nat) : Int)) = boardAt g.board r g.top.enPassant := by
      intro r hr0 hr8
      rw [Int.toNat_of_nonneg h0]
      exact at_eq_boardAt g.abs r _ ⟨hr0, hr8, h0, h8⟩
    simp only [h8, if_true, Option.some.injEq, forall_eq']
    cases g.player
    · simp only [Bool.and_eq_true, decide_eq_true_eq, Option.isNone_iff_eq_none]
      rw [hb 4 (by omega) (by omega), hb 5 (by omega) (by omega), hb 6 (by omega) (by omega)]
      exact and_assoc
    · simp only [Bool.and_eq_true, decide_eq_true_eq, Option.isNone_iff_eq_none]
      rw [hb 3 (by omega) (by omega), hb 2 (by omega) (by omega), hb 1 (by omega) (by omega)]
      exact and_assoc
  · simp [h8]

/-- one clause of `RightsInv` from what the reader checks -/
theorem rights_clause (g : Game) (hk : g.KingInv) (pl : Player) (r c : Int)
    (hr : 0 ≤ r ∧ r < 8)
    (h : boardAt g.board r 4 = some ⟨.king, pl⟩ ∧ boardAt g.board r c = some ⟨.rook, pl⟩) :
    g.get ⟨r, c⟩ = some ⟨.rook, pl⟩ ∧ g.kingPos pl = ⟨r, 4⟩
      ∧ (g.kingExists pl = true → g.get ⟨r, 4⟩ = some ⟨.king, pl⟩) := by
  rw [boardAt_eq_get, boardAt_eq_get] at h
  have v4 : (Pos.mk r 4).Valid :=
    ⟨hr.1, hr.2, by show (0 : Int) ≤ 4; omega, by show (4 : Int) < 8; omega⟩
  exact ⟨h.2, hk.unique _ pl v4 h.1, fun _ => h.1⟩

theorem rightsInv_of_match (g : Game) (hk : g.KingInv)
    (h : rightsMatchBoard g.board g.top = true) : g.RightsInv := by
  unfold rightsMatchBoard at h
  simp only [Bool.and_eq_true, Bool.or_eq_true, Bool.not_eq_true', decide_eq_true_eq, bimp] at h
  obtain ⟨⟨⟨hwk, hwq⟩, hbk⟩, hbq⟩ := h
  exact ⟨fun e => rights_clause g hk .white 0 7 (by omega) (hwk e),
    fun e => rights_clause g hk .white 0 0 (by omega) (hwq e),
    fun e => rights_clause g hk .black 7 7 (by omega) (hbk e),
    fun e => rights_clause g hk .black 7 0 (by omega) (hbq e)⟩

theorem epInv_of_match (g : Game) (h : epMatchesBoard g.board g.top g.player = true) :
    g.EpInv := by
  intro h8
  unfold epMatchesBoard at h
  dsimp only at h
  rw [if_pos h8] at h
  cases hp : g.player <;> rw [hp] at h <;>
    simp only [Bool.and_eq_true, decide_eq_true_eq, Option.isNone_iff_eq_none,
      boardAt_eq_get] at h ⊢
  · exact ⟨h.1.1, h.1.2⟩
  · exact ⟨h.1.1, h.1.2⟩

end FenChk


/-! ## 5. completeness of the reader (continued) -/

theorem ofFen_intro {s pieces side cast ep : List Char} {rest : List (List Char)} {sc : Scan}
    {player : Player} {st0 st : GState} {wk bk : Pos}
    (hs : splitWs s = pieces :: side :: cast :: ep :: rest) (hr : Scan.init.run pieces = .ok sc)
    (hr0 : sc.row = 0) (hc8 : sc.col = 8) (hsd : sideOf side = some player)
    (hc : parseCastling GState.default cast = .ok st0) (he : epOf player st0 ep = some st)
    (hw : sc.wking = some wk) (hb : sc.bking = some bk)
    (hmw : materialOkSide sc.board .white = true) (hmb : materialOkSide sc.board .black = true)
    (hpe : pawnOnEdge sc.board = false) (hrm : rightsMatchBoard sc.board st = true)
    (hem : epMatchesBoard sc.board st player = true) :
    Game.ofFen s = .ok (mkGame sc player st wk bk).updatePhase := by
  rw [ofFen_eq]
  unfold ofFen'
  rw [hs]; dsimp only
  rw [hr]; dsimp only
  have hb' : ¬ (decide (sc.row ≠ 0) || decide (sc.col ≠ 8)) = true := by simp [hr0, hc8]
  rw [if_neg hb', hsd]; dsimp only
  rw [hc]; dsimp only
  rw [he]; dsimp only
  unfold ofFenFinish
  rw [hw, hb]; dsimp only
  simp [hmw, hmb, hpe, hrm, hem]

/-- the reader's material conditions, on a board -/
def MaterialOKBoard (b : Vector (Option Piece) 64) : Prop :=
  materialOkSide b .white = true ∧ materialOkSide b .black = true ∧ pawnOnEdge b = false

theorem king_exists {b : Vector (Option Piece) 64} {pl : Player}
    (h : materialOkSide b pl = true) : ∃ (i : Nat) (hi : i < 64), b[i] = some ⟨.king, pl⟩ := by
  have hc := countKing_one h
  unfold countPieces at hc
  have hpos : 0 < (b.toList.filter (fun o => decide (o = some ⟨.king, pl⟩))).length := by omega
  obtain ⟨x, hx, hp⟩ := List.length_filter_pos_iff.1 hpos
  simp only [decide_eq_true_eq] at hp
  obtain ⟨i, hi, hxi⟩ := List.getElem_of_mem hx
  have hi' : i < 64 := by simpa using hi
  refine ⟨i, hi', ?_⟩
  rw [← hp, ← hxi]; simp

/-- **C17 / item 5 (general form)**: every text with a loose reading whose en-passant rank
fits the side to move, whose material passes the reader's check and whose castling rights and
en-passant file are backed by the board is accepted, and the game built denotes that reading -/
theorem ofFen_complete_of_loose {s : List Char} {a : Spec.APos} (h : Spec.fenLoose s = some a)
    (hep : ∀ p sd c e rest, Spec.fields s = p :: sd :: c :: e :: rest → EpRankOk e a.side)
    (hm : MaterialOKBoard a.board) (hro : RightsOkBoard a) (heo : EpOkBoard a) :
    ∃ g, Game.ofFen s = .ok g ∧ g.abs = a := by
  obtain ⟨p, sd, c, e, rest, hf, h1, h2, h3, h4⟩ := fenLoose_inv h
  obtain ⟨sc, hrun, h0, h8, hbd⟩ := scan_complete h1
  have inv := cinv_final hrun h0 h8
  obtain ⟨hmw, hmb, hpe⟩ := hm
  rw [← hbd] at hmw hmb hpe
  have hcast : c.all castChar = true := by
    unfold Spec.parseCastlingLoose at h3
    split at h3
    · cases h3
    · rename_i hcond
      simp only [Bool.or_eq_true, Bool.not_eq_true', not_or, Bool.not_eq_false] at hcond
      exact hcond.2
  obtain ⟨st0, hst0⟩ := parseCastling_complete c GState.default hcast
  obtain ⟨st, hst⟩ := epOf_complete st0 h4 (hep p sd c e rest hf)
  obtain ⟨wk, hwk⟩ : ∃ wk, sc.wking = some wk := by
    cases hw : sc.wking with
    | some wk => exact ⟨wk, rfl⟩
    | none =>
      obtain ⟨i, hi, hb⟩ := king_exists hmw
      exact absurd hb (inv.wnone hw i hi)
  obtain ⟨bk, hbk⟩ : ∃ bk, sc.bking = some bk := by
    cases hw : sc.bking with
    | some bk => exact ⟨bk, rfl⟩
    | none =>
      obtain ⟨i, hi, hb⟩ := king_exists hmb
      exact absurd hb (inv.bnone hw i hi)
  have hsp : splitWs s = p :: sd :: c :: e :: rest := by rw [splitWs_eq_fields]; exact hf
  have hden := ofFen_stage_sound hsp hrun h0 h8 (parseSide_sideOf h2) hst0 hst wk bk
  rw [h] at hden
  have ha : a = (mkGame sc a.side st wk bk).abs := Option.some.inj hden
  have hro' : RightsOkBoard (mkGame sc a.side st wk bk).abs := by rw [← ha]; exact hro
  have heo' : EpOkBoard (mkGame sc a.side st wk bk).abs := by rw [← ha]; exact heo
  have hok := ofFen_intro hsp hrun h0 h8 (parseSide_sideOf h2) hst0 hst hwk hbk hmw hmb hpe
    ((FenChk.rightsMatch_iff (mkGame sc a.side st wk bk)).2 hro')
    ((FenChk.epMatch_iff (mkGame sc a.side st wk bk)).2 heo')
  refine ⟨_, hok, ?_⟩
  rw [updatePhase_abs]
  exact ha.symm

/-- **C17 / item 5**: every well-formed FEN whose material passes the reader's check and whose
castling rights and en-passant file are backed by the board is accepted and imported as the
position it denotes -/
theorem ofFen_complete {s : List Char} {a : Spec.APos} (h : Spec.fenStrict s = some a)
    (hm : MaterialOKBoard a.board) (hro : RightsOkBoard a) (heo : EpOkBoard a) :
    ∃ g, Game.ofFen s = .ok g ∧ g.abs = a := by
  unfold Spec.fenStrict at h
  dsimp only at h
  split at h
  · cases h
  · split at h
    · rename_i p sd c e rest hf
      split at h
      · cases h
      · split at h
        · rename_i a' hl
          have hside : ∀ x, (match e, a'.side with
              | [_, '6'], .white => some a'
              | [_, '3'], .black => some a'
              | ['-'], _ => some a'
              | _, _ => none) = some x → x = a' ∧ EpRankOk e a'.side := by
            intro x hx
            split at hx
            · rename_i f hs; cases hx; exact ⟨rfl, Or.inr ⟨f, by rw [hs]; rfl⟩⟩
            · rename_i f hs; cases hx; exact ⟨rfl, Or.inr ⟨f, by rw [hs]; rfl⟩⟩
            · cases hx; exact ⟨rfl, Or.inl rfl⟩
            · cases hx
          obtain ⟨rfl, hepok⟩ := hside a h
          apply ofFen_complete_of_loose hl _ hm hro heo
          intro p' sd' c' e' rest' hf'
          rw [hf] at hf'
          simp only [List.cons.injEq] at hf'
          obtain ⟨_, _, _, rfl, _⟩ := hf'
          exact hepok
        · cases h
    · cases h

/-! ### a sane position passes all the reader's checks -/

namespace FenChk

theorem at_ofIdx (a : Spec.APos) (i : Nat) (hi : i < 64) :
    a.at (((i / 8 : Nat) : Int), ((i % 8 : Nat) : Int)) = a.board[i] := by
  rw [at_eq_boardAt a _ _ (by omega)]
  unfold boardAt
  have : (((i / 8 : Nat) : Int) * 8 + ((i % 8 : Nat) : Int)).toNat = i := by omega
  rw [this]
  simp [Array.getD, hi]

theorem toList_eq_map_range (b : Vector (Option Piece) 64) :
    b.toList = (List.range 64).map (fun i => b.toArray.getD i none) := by
  apply List.ext_getElem
  · simp
  · intro i h1 h2
    have hi : i < 64 := by simpa using h1
    simp [Array.getD, hi]

theorem count_eq (a : Spec.APos) (pl : Player) (t : PieceType) :
    Spec.count a ⟨t, pl⟩ = countPieces a.board pl t := by
  unfold Spec.count countPieces Spec.allSqs
  rw [toList_eq_map_range, List.filter_map, List.filter_map, List.length_map, List.length_map]
  refine congrArg List.length (List.filter_congr ?_)
  intro i hi
  have hi' : i < 64 := by simpa using hi
  simp only [Function.comp]
  rw [at_ofIdx a i hi']
  simp [Array.getD, hi']

theorem materialOkSide_of_spec {a : Spec.APos} {pl : Player}
    (h : Spec.materialOk a pl = true) : materialOkSide a.board pl = true := by
  unfold Spec.materialOk at h
  unfold materialOkSide
  simp only [count_eq] at h
  exact h

theorem pawnOnEdge_of_spec {a : Spec.APos} (h : Spec.noEdgePawns a = true) :
    pawnOnEdge a.board = false := by
  unfold Spec.noEdgePawns at h
  unfold pawnOnEdge
  rw [List.all_eq_true] at h
  rw [List.any_eq_false]
  intro c hc
  have hc8 : c < 8 := by simpa using hc
  have := h c hc
  have e0 : a.at (0, (c : Int)) = a.board[c] := by
    have := at_ofIdx a c (by omega)
    have h1 : c / 8 = 0 := by omega
    have h2 : c % 8 = c := by omega
    rw [h1, h2] at this
    exact this
  have e7 : a.at (7, (c : Int)) = a.board[56 + c] := by
    have := at_ofIdx a (56 + c) (by omega)
    have h1 : (56 + c) / 8 = 7 := by omega
    have h2 : (56 + c) % 8 = c := by omega
    rw [h1, h2] at this
    exact this
  rw [e0, e7] at this
  have g0 : a.board[c]? = some a.board[c] := by simp
  have g7 : a.board[56 + c]? = some a.board[56 + c] := by
    have : 56 + c < 64 := by omega
    simp [this]
  rw [g0, g7]
  cases h0 : a.board[c] <;> cases h7 : a.board[56 + c] <;> simp_all

end FenChk

theorem materialOKBoard_of_sane {a : Spec.APos} (h : Spec.sane a = true) :
    MaterialOKBoard a.board := by
  simp only [Spec.sane, Bool.and_eq_true] at h
  obtain ⟨⟨⟨⟨⟨⟨⟨⟨hmw, hmb⟩, hne⟩, -⟩, -⟩, -⟩, -⟩, -⟩, -⟩ := h
  exact ⟨FenChk.materialOkSide_of_spec hmw, FenChk.materialOkSide_of_spec hmb,
    FenChk.pawnOnEdge_of_spec hne⟩

theorem rightsOkBoard_of_sane {a : Spec.APos} (h : Spec.sane a = true) : RightsOkBoard a := by
  simp only [Spec.sane, Bool.and_eq_true, Bool.or_eq_true, Bool.not_eq_true',
    decide_eq_true_eq, FenChk.bimp] at h
  obtain ⟨⟨⟨⟨⟨-, hwk⟩, hwq⟩, hbk⟩, hbq⟩, -⟩ := h
  exact ⟨hwk, hwq, hbk, hbq⟩

theorem epOkBoard_of_sane {a : Spec.APos} (h : Spec.sane a = true) : EpOkBoard a := by
  simp only [Spec.sane, Bool.and_eq_true] at h
  obtain ⟨-, hep⟩ := h
  intro f hf
  rw [hf] at hep
  simp only [Bool.and_eq_true, decide_eq_true_eq, Option.isNone_iff_eq_none] at hep
  obtain ⟨⟨⟨-, h1⟩, h2⟩, h3⟩ := hep
  cases hs : a.side <;> rw [hs] at h1 h2 h3 <;> simp only [Spec.epFromRow, Spec.forward] at h1 h2 h3
  · exact ⟨h1, h2, h3⟩
  · exact ⟨h1, h2, h3⟩

/-- **C17 / item 5, for sane positions**: every well-formed FEN of a position the rules call
sane is accepted and imported as the position it denotes -/
theorem ofFen_complete_of_sane {s : List Char} {a : Spec.APos} (h : Spec.fenStrict s = some a)
    (hs : Spec.sane a = true) : ∃ g, Game.ofFen s = .ok g ∧ g.abs = a :=
  ofFen_complete h (materialOKBoard_of_sane hs) (rightsOkBoard_of_sane hs) (epOkBoard_of_sane hs)

/-! ## the other components of `WF` -/

theorem epOf_le {player : Player} {st0 st : GState} {ep : List Char}
    (h : epOf player st0 ep = some st) (h8 : st0.enPassant = 8) : st.enPassant ≤ 8 := by
  have := (epOf_spec h h8).1
  by_cases hlt : st.enPassant < 8
  · omega
  · unfold epOf at h
    by_cases hd : ep = ['-']
    · rw [if_pos hd] at h; cases h; omega
    · rw [if_neg hd] at h
      split at h
      · rename_i f r
        split at h
        · rename_i hc
          simp only [Bool.and_eq_true, decide_eq_true_eq] at hc
          have ha : 'a'.toNat = 97 := rfl
          have hh : 'h'.toNat = 104 := rfl
          rw [ha] at hc h
          rw [hh] at hc
          have hk : f.toNat - 97 < 8 := by omega
          have e1 := (ep_facts st0 ⟨f.toNat - 97, hk⟩).1
          simp only at e1
          simp only [Option.some.injEq] at h
          subst h
          rw [e1]; omega
        · cases h
      · cases h

theorem get_valid (g : Game) {p : Pos} (hp : p.Valid) : g.get p = g.board[p.idx]'(Pos.idx_lt hp) := by
  unfold Game.get
  rw [dif_pos (Pos.idx_lt hp)]

/-- the structural components of `WF` of an imported game (`RightsInv` and `EpInv` follow below) -/
theorem ofFen_wf_rest {s : List Char} {g : Game} (h : Game.ofFen s = .ok g) :
    g.KingInv ∧ g.state ≠ [] ∧ g.top.enPassant ≤ 8 ∧ g.moveStack = [] := by
  obtain ⟨pieces, side, cast, ep, rest, sc, player, st0, st, wk, bk, hs, hr, hr0, hc8, hsd, hc,
    he, hw, hbk, hmw, hmb, _, _, _, rfl⟩ := ofFen_ok_inv h
  have inv := cinv_final hr hr0 hc8
  obtain ⟨iw, hiw, rfl, hbw⟩ := inv.wk wk hw
  obtain ⟨ib, hib, rfl, hbb⟩ := inv.bk bk hbk
  obtain ⟨f1, f2, f3, f4, f5⟩ := updatePhase_fields (mkGame sc player st (Pos.ofIdx iw) (Pos.ofIdx ib))
  have hd5 := default_facts.2.2.2.2
  have c5 := (parseCastling_spec cast _ _ hc).2.2.2.2.2
  rw [hd5] at c5
  refine ⟨⟨?_, ?_, ?_⟩, ?_, ?_, ?_⟩
  · rw [f4]; exact (idx_ofIdx hiw).2
  · rw [f5]; exact (idx_ofIdx hib).2
  · intro p pl hp hget
    rw [get_valid _ hp] at hget
    simp only [f1] at hget
    have hget' : sc.board[p.idx]'(Pos.idx_lt hp) = some ⟨.king, pl⟩ := hget
    cases pl
    · have := king_unique hmw p.idx iw (Pos.idx_lt hp) hiw hget' hbw
      show (mkGame sc player st (Pos.ofIdx iw) (Pos.ofIdx ib)).updatePhase.wking = p
      rw [f4]
      show Pos.ofIdx iw = p
      rw [← this, ofIdx_idx hp]
    · have := king_unique hmb p.idx ib (Pos.idx_lt hp) hib hget' hbb
      show (mkGame sc player st (Pos.ofIdx iw) (Pos.ofIdx ib)).updatePhase.bking = p
      rw [f5]
      show Pos.ofIdx ib = p
      rw [← this, ofIdx_idx hp]
  · rw [f3]; exact List.cons_ne_nil _ _
  · unfold Game.top; rw [f3]; exact epOf_le he c5
  · unfold Game.updatePhase
    split
    · unfold Game.setPosition; dsimp only; split <;> split <;> rfl
    · rfl

/-! ### the reader checks castling rights and the en-passant file against the board -/

/-- **an imported game satisfies `RightsInv`**: every castling right it records has the rook on
its home square and the king — cached and on the board — on its own -/
theorem ofFen_rightsInv {s : List Char} {g : Game} (h : Game.ofFen s = .ok g) : g.RightsInv := by
  have hk := (ofFen_wf_rest h).1
  obtain ⟨pieces, side, cast, ep, rest, sc, player, st0, st, wk, bk, -, -, -, -, -, -, -, -, -,
    -, -, -, hrm, -, rfl⟩ := ofFen_ok_inv h
  obtain ⟨f1, -, f3, -, -⟩ := updatePhase_fields (mkGame sc player st wk bk)
  apply FenChk.rightsInv_of_match _ hk
  unfold Game.top
  rw [f1, f3]
  exact hrm

/-- **an imported game satisfies `EpInv`**: a recorded en-passant file is backed by the enemy
pawn that has just made its double step -/
theorem ofFen_epInv {s : List Char} {g : Game} (h : Game.ofFen s = .ok g) : g.EpInv := by
  obtain ⟨pieces, side, cast, ep, rest, sc, player, st0, st, wk, bk, -, -, -, -, -, -, -, -, -,
    -, -, -, -, hem, rfl⟩ := ofFen_ok_inv h
  obtain ⟨f1, f2, f3, -, -⟩ := updatePhase_fields (mkGame sc player st wk bk)
  apply FenChk.epInv_of_match
  unfold Game.top
  rw [f1, f2, f3]
  exact hem

/-- **every imported game satisfies the representation invariant** -/
theorem ofFen_wf {s : List Char} {g : Game} (h : Game.ofFen s = .ok g) : g.WF := by
  obtain ⟨hc, hs, hh⟩ := ofFen_wf_cache h
  obtain ⟨hk, hn, hep, _⟩ := ofFen_wf_rest h
  exact { cache := hc, kings := hk, rights := ofFen_rightsInv h, epInv := ofFen_epInv h,
          resHash := hh, resScore := hs, nonempty := hn,
          ep := ⟨by unfold GState.enPassant; omega, hep⟩ }

/-- both kings of an imported game stand on their cached squares -/
theorem ofFen_kings {s : List Char} {g : Game} (h : Game.ofFen s = .ok g) (pl : Player) :
    g.get (g.kingPos pl) = some ⟨.king, pl⟩ := by
  obtain ⟨pieces, side, cast, ep, rest, sc, player, st0, st, wk, bk, hs, hr, hr0, hc8, -, -,
    -, hw, hbk, -, -, -, -, -, rfl⟩ := ofFen_ok_inv h
  have inv := cinv_final hr hr0 hc8
  obtain ⟨iw, hiw, rfl, hbw⟩ := inv.wk wk hw
  obtain ⟨ib, hib, rfl, hbb⟩ := inv.bk bk hbk
  obtain ⟨f1, -, -, f4, f5⟩ := updatePhase_fields (mkGame sc player st (Pos.ofIdx iw) (Pos.ofIdx ib))
  cases pl
  · show Game.get _ (Game.wking _) = _
    rw [f4]
    show Game.get _ (Pos.ofIdx iw) = _
    rw [get_valid _ (idx_ofIdx hiw).2]
    simp only [f1, (idx_ofIdx hiw).1]
    exact hbw
  · show Game.get _ (Game.bking _) = _
    rw [f5]
    show Game.get _ (Pos.ofIdx ib) = _
    rw [get_valid _ (idx_ofIdx hib).2]
    simp only [f1, (idx_ofIdx hib).1]
    exact hbb

/-- what the reader has checked, in the words of the abstract position: the castling rights and
the en-passant file of an imported game are backed by its board -/
theorem ofFen_rightsOkBoard {s : List Char} {g : Game} (h : Game.ofFen s = .ok g) :
    RightsOkBoard g.abs ∧ EpOkBoard g.abs := by
  obtain ⟨pieces, side, cast, ep, rest, sc, player, st0, st, wk, bk, -, -, -, -, -, -, -, -, -,
    -, -, -, hrm, hem, rfl⟩ := ofFen_ok_inv h
  rw [updatePhase_abs]
  exact ⟨(FenChk.rightsMatch_iff (mkGame sc player st wk bk)).1 hrm,
    (FenChk.epMatch_iff (mkGame sc player st wk bk)).1 hem⟩

/-! ### two examples: a castling right without its rook, an en-passant square without its pawn -/

def rightsWitness : List Char := "4k3/8/8/8/8/8/8/4K3 w K -".toList

def FenChk.refusedWith : FenResult → String → Bool
  | .refused w, m => w == m
  | _, _ => false

/-- The text `4k3/8/8/8/8/8/8/4K3 w K -` gives White the king-side castling right although
there is no rook on h1: the reader refuses it. -/
theorem ofFen_rights_checked_example :
    Game.ofFen rightsWitness = .refused "Castling rights do not match the board" := by
  have : FenChk.refusedWith (Game.ofFen rightsWitness) "Castling rights do not match the board"
      = true := by decide +kernel
  cases h : Game.ofFen rightsWitness with
  | ok g => rw [h] at this; cases this
  | fault w => rw [h] at this; cases this
  | refused w =>
    rw [h] at this
    simp only [FenChk.refusedWith, beq_iff_eq] at this
    rw [this]

def epWitness : List Char := "4k3/8/8/8/8/8/8/4K3 w - e6".toList

/-- The text `4k3/8/8/8/8/8/8/4K3 w - e6` names an en-passant square although no black pawn
stands on e5: the reader refuses it. -/
theorem ofFen_ep_checked_example :
    Game.ofFen epWitness = .refused "En passant square does not match the board" := by
  have : FenChk.refusedWith (Game.ofFen epWitness) "En passant square does not match the board"
      = true := by decide +kernel
  cases h : Game.ofFen epWitness with
  | ok g => rw [h] at this; cases this
  | fault w => rw [h] at this; cases this
  | refused w =>
    rw [h] at this
    simp only [FenChk.refusedWith, beq_iff_eq] at this
    rw [this]

end Chess

#print axioms Chess.ofFen_no_fault
#print axioms Chess.splitWs_eq_fields
#print axioms Chess.scan_parsePlacement
#print axioms Chess.ofFen_sound
#print axioms Chess.ofFen_refuses_malformed
#print axioms Chess.ofFen_wf_cache
#print axioms Chess.ofFen_complete_of_loose
#print axioms Chess.ofFen_complete
#print axioms Chess.ofFen_complete_of_sane
#print axioms Chess.ofFen_wf_rest
#print axioms Chess.ofFen_rightsInv
#print axioms Chess.ofFen_epInv
#print axioms Chess.ofFen_wf
#print axioms Chess.ofFen_kings
#print axioms Chess.ofFen_rightsOkBoard
#print axioms Chess.ofFen_rights_checked_example
#print axioms Chess.ofFen_ep_checked_example
