import Chess.Lemmas.FnsEquiv.GameState

namespace Chess.FnsEquiv
open Chess

/-! ## the key-table index expressions: `GameState::hash` (gamestate.rs), `Piece::hash` (piece.rs)

`zobrist::STATE : [u64; 256]` and `zobrist::PIECE : [[u64; 12]; 64]` are computed by rustc from a binary file;
the generated functions take them as parameters (`RustSem`, last item). Here they are instantiated by the
tables `tools/extract.py` reads out of the same file: `Gen.stateKeys`, and `Gen.pieceKeys` (flat, entry
`sq * 12 + kind`, the order in which `zobrist.rs` fills `PIECE[sq][kind]`) cut into 64 rows of 12. What is
proved is the INDEX arithmetic of the Rust text: which entry is read for which state byte / square / piece. -/

/-- `zobrist::PIECE` in its Rust shape: row `sq` is the 12 entries of `Gen.pieceKeys` from `sq*12` on -/
def pieceRows : Array (Array UInt64) :=
  ((List.range 64).map (fun sq => ((Gen.pieceKeys.toList.drop (sq * 12)).take 12).toArray)).toArray

/-- the shape is `[[u64; 12]; 64]`, and the rows laid end to end are the flat table -/
theorem pieceRows_shape : pieceRows.size = 64 ∧ pieceRows.all (fun r => r.size == 12) = true
    ∧ pieceRows.toList.flatMap Array.toList = Gen.pieceKeys.toList := by
  decide +kernel
#print axioms pieceRows_shape

/-- `GameState::hash`: the entry of `STATE` at the state byte, for every byte -/
theorem GameState_hash_eq : ∀ s : Gen.Fns.GameState,
    Gen.Fns.GameState.hash Gen.stateKeys s = GState.hash (gsByte s) := by
  intro ⟨b⟩; revert b; refine forall_u8 ?_; decide +kernel
#print axioms GameState_hash_eq

/-- one colour at a time (the twelve evaluations together exceed the heartbeat budget of one declaration) -/
theorem Piece_hash_white (t : Gen.Fns.PieceType) : ∀ r ∈ i8s 0 7, ∀ c ∈ i8s 0 7,
    Gen.Fns.Piece.hash pieceRows ⟨t, .White⟩ ⟨r, c⟩ = Piece.hash (toPiece ⟨t, .White⟩) (toPos ⟨r, c⟩) := by
  cases t <;> decide +kernel
#print axioms Piece_hash_white

theorem Piece_hash_black (t : Gen.Fns.PieceType) : ∀ r ∈ i8s 0 7, ∀ c ∈ i8s 0 7,
    Gen.Fns.Piece.hash pieceRows ⟨t, .Black⟩ ⟨r, c⟩ = Piece.hash (toPiece ⟨t, .Black⟩) (toPos ⟨r, c⟩) := by
  cases t <;> decide +kernel
#print axioms Piece_hash_black

/-- `Piece::hash`: entry `[pos.as_usize()][self.as_index()]` of `PIECE` is the model's flat entry
`idx * 12 + asIndex`, for every valid square and every piece (both unchecked accesses are in bounds there) -/
theorem Piece_hash_eq : ∀ (pc : Gen.Fns.Piece) (p : Gen.Fns.Position), PosValid p →
    Gen.Fns.Piece.hash pieceRows pc p = Piece.hash (toPiece pc) (toPos p) := by
  intro ⟨t, o⟩ ⟨r, c⟩ ⟨h1, h2, h3, h4⟩
  cases o
  · exact Piece_hash_white t r (mem_i8s h1 h2) c (mem_i8s h3 h4)
  · exact Piece_hash_black t r (mem_i8s h1 h2) c (mem_i8s h3 h4)
#print axioms Piece_hash_eq

end Chess.FnsEquiv
