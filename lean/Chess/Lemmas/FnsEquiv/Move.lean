import Chess.Lemmas.FnsEquiv.Base

namespace Chess.FnsEquiv
open Chess

/-! ## `move_struct.rs`  (model: `Chess.Move`)

A `Move` carries positions (pairs of `i8`), so its values cannot be enumerated. The functions here
look only at the constructor, the pieces and (for `index_history`) the target square; the proofs
split on the constructor, replace the fields the function ignores by fixed ones (`rfl`: the function
does not read them) and evaluate the remaining finite family in the kernel. -/

/-- squares of a move obey the invariant of `Position` -/
def MoveValid : Gen.Fns.Move → Prop
  | .Normal _ s e _ => PosValid s ∧ PosValid e
  | .Promotion _ _ s e _ => PosValid s ∧ PosValid e
  | _ => True

private def p00 : Gen.Fns.Position := ⟨0, 0⟩

theorem is_tactical_closed : ∀ (t : Gen.Fns.PieceType) (o : Gen.Fns.Player) (t' : Gen.Fns.PieceType) (o' : Gen.Fns.Player),
    Gen.Fns.Move.is_tactical_move (.Normal ⟨t, o⟩ p00 p00 (some ⟨t', o'⟩))
      = (toMove (.Normal ⟨t, o⟩ p00 p00 (some ⟨t', o'⟩))).isTactical := by
  intro t o t' o'
  cases t <;> cases o <;> cases t' <;> cases o' <;> decide +kernel
#print axioms is_tactical_closed

theorem Move_is_tactical_move_eq (m : Gen.Fns.Move) :
    Gen.Fns.Move.is_tactical_move m = (toMove m).isTactical := by
  cases m with
  | Normal pc s e cap =>
    cases cap with
    | none => rfl
    | some c =>
      obtain ⟨t, o⟩ := pc
      obtain ⟨t', o'⟩ := c
      exact is_tactical_closed t o t' o'
  | Promotion o t s e cap => rfl
  | CastlingShort o => rfl
  | CastlingLong o => rfl
  | EnPassant o a b => rfl
#print axioms Move_is_tactical_move_eq

theorem index_history_closed : ∀ (t : Gen.Fns.PieceType) (o : Gen.Fns.Player), ∀ r ∈ i8s 0 7, ∀ c ∈ i8s 0 7,
    Gen.Fns.Move.index_history (.Normal ⟨t, o⟩ p00 ⟨r, c⟩ none)
      = (toMove (.Normal ⟨t, o⟩ p00 ⟨r, c⟩ none)).indexHistory := by
  intro t o
  cases t <;> cases o <;> decide +kernel
#print axioms index_history_closed

/-- `index_history`, for a move whose squares are valid: `piece.as_index() * 64 + end.as_usize()` in
`usize` (no wrap: the value is below 768) is the model's index; captures and special moves have none. -/
theorem Move_index_history_eq (m : Gen.Fns.Move) (hm : MoveValid m) :
    Gen.Fns.Move.index_history m = (toMove m).indexHistory := by
  cases m with
  | Normal pc s e cap =>
    cases cap with
    | some c => rfl
    | none =>
      obtain ⟨t, o⟩ := pc
      obtain ⟨r, c⟩ := e
      obtain ⟨_, h1, h2, h3, h4⟩ := hm
      exact index_history_closed t o r (mem_i8s h1 h2) c (mem_i8s h3 h4)
  | Promotion o t s e cap => rfl
  | CastlingShort o => rfl
  | CastlingLong o => rfl
  | EnPassant o a b => rfl
#print axioms Move_index_history_eq

end Chess.FnsEquiv
