import Chess.Lemmas.FnsEquiv.Base

namespace Chess.FnsEquiv
open Chess

/-! ## `position.rs`  (model: `Chess.Pos`, unbounded `Int`) -/

/-- `Position::new`, for rows and columns in `-16..=16` (no arithmetic happens, the bound only makes
the check finite; the engine calls it with `-2..=9`). -/
theorem Position_new_eq : ∀ r : Int8, -16 ≤ r.toInt → r.toInt ≤ 16 → ∀ c : Int8, -16 ≤ c.toInt → c.toInt ≤ 16 →
    (Gen.Fns.Position.new r c).map toPos = Pos.new? r.toInt c.toInt := by
  refine forall_i8 (-16) 16 ?_; intro r hr; refine forall_i8 (-16) 16 ?_; revert r
  decide +kernel
#print axioms Position_new_eq

/-- `Position::as_usize`, for rows and columns in `-16..=16` whose index `row*8+col` lies in
`0..=127`: there the `i8` product and sum are exact (or wrap back to the exact value) and the cast to
`usize` does not sign-extend, so the result is the model's `Pos.idx`. Every valid position qualifies. -/
theorem Position_as_usize_eq : ∀ r : Int8, -16 ≤ r.toInt → r.toInt ≤ 16 → ∀ c : Int8, -16 ≤ c.toInt → c.toInt ≤ 16 →
    0 ≤ r.toInt * 8 + c.toInt → r.toInt * 8 + c.toInt ≤ 127 →
    Gen.Fns.Position.as_usize ⟨r, c⟩ = (toPos ⟨r, c⟩).idx := by
  refine forall_i8 (-16) 16 ?_; intro r hr; refine forall_i8 (-16) 16 ?_; revert r
  decide +kernel
#print axioms Position_as_usize_eq

theorem Position_as_usize_eq_of_valid (p : Gen.Fns.Position) (h : PosValid p) :
    Gen.Fns.Position.as_usize p = (toPos p).idx := by
  obtain ⟨r, c⟩ := p
  obtain ⟨h1, h2, h3, h4⟩ := h
  simp only at h1 h2 h3 h4
  exact Position_as_usize_eq r (by omega) (by omega) c (by omega) (by omega) (by omega) (by omega)
#print axioms Position_as_usize_eq_of_valid

theorem Position_row_eq (p : Gen.Fns.Position) : (Gen.Fns.Position.row p).toInt = (toPos p).row := by
  cases p; rfl
#print axioms Position_row_eq

theorem Position_col_eq (p : Gen.Fns.Position) : (Gen.Fns.Position.col p).toInt = (toPos p).col := by
  cases p; rfl
#print axioms Position_col_eq

/-- `Position::new_unsafe` (release: the `debug_assert!` is a no-op) builds the pair -/
theorem Position_new_unsafe_eq (r c : Int8) : toPos (Gen.Fns.Position.new_unsafe r c) = ⟨r.toInt, c.toInt⟩ := by
  rfl
#print axioms Position_new_unsafe_eq

/-- the four rook home squares are the ones the model uses (`Game.pos Gen.whiteQueenRook` …, which
`tools/extract.py` reads from the same four lines as data) -/
theorem Position_ROOKS_eq :
    toPos Gen.Fns.Position.WHITE_QUEEN_ROOK = Game.pos Gen.whiteQueenRook ∧
    toPos Gen.Fns.Position.WHITE_KING_ROOK = Game.pos Gen.whiteKingRook ∧
    toPos Gen.Fns.Position.BLACK_QUEEN_ROOK = Game.pos Gen.blackQueenRook ∧
    toPos Gen.Fns.Position.BLACK_KING_ROOK = Game.pos Gen.blackKingRook := by
  decide +kernel
#print axioms Position_ROOKS_eq

/-- `Position::new_assert`, for rows and columns in `-16..=16`: on the board it builds the pair; off the board the
`assert!` fails (a panic in Rust, `default` in `RustSem.assert`), i.e. the assertion is exactly `Pos.inBoard`. -/
theorem Position_new_assert_eq : ∀ r : Int8, -16 ≤ r.toInt → r.toInt ≤ 16 → ∀ c : Int8, -16 ≤ c.toInt → c.toInt ≤ 16 →
    (Pos.inBoard r.toInt c.toInt = true → toPos (Gen.Fns.Position.new_assert r c) = ⟨r.toInt, c.toInt⟩)
    ∧ (Pos.inBoard r.toInt c.toInt = false → Gen.Fns.Position.new_assert r c = default) := by
  refine forall_i8 (-16) 16 ?_; intro r hr; refine forall_i8 (-16) 16 ?_; revert r
  decide +kernel
#print axioms Position_new_assert_eq

/-- `Position::add_unsafe` (release: the `debug_assert!` is a no-op), for a valid position and deltas in `-2..=2`
(its callers pass the pawn steps `(±1, 0)`, `(±2, 0)`): the `i8` sums do not wrap there and are the model's. -/
theorem Position_add_unsafe_eq : ∀ p : Gen.Fns.Position, PosValid p →
    ∀ dr : Int8, -2 ≤ dr.toInt → dr.toInt ≤ 2 → ∀ dc : Int8, -2 ≤ dc.toInt → dc.toInt ≤ 2 →
    toPos (Gen.Fns.Position.add_unsafe p (dr, dc)) = Pos.addUnsafe (toPos p) (dr.toInt, dc.toInt) := by
  intro ⟨r, c⟩ ⟨h1, h2, h3, h4⟩ dr a1 a2 dc b1 b2
  revert r c dr dc
  suffices h : ∀ r ∈ i8s 0 7, ∀ c ∈ i8s 0 7, ∀ dr ∈ i8s (-2) 2, ∀ dc ∈ i8s (-2) 2,
      toPos (Gen.Fns.Position.add_unsafe ⟨r, c⟩ (dr, dc)) = Pos.addUnsafe (toPos ⟨r, c⟩) (dr.toInt, dc.toInt) from
    fun r c h1 h2 h3 h4 dr a1 a2 dc b1 b2 => h r (mem_i8s h1 h2) c (mem_i8s h3 h4) dr (mem_i8s a1 a2) dc (mem_i8s b1 b2)
  decide +kernel
#print axioms Position_add_unsafe_eq

end Chess.FnsEquiv
