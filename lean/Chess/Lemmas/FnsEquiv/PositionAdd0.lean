import Chess.Lemmas.FnsEquiv.Base

/-! `Position::add` on rows 0..=1 (one of four slices of `PositionAdd.lean`, separate modules so that
lake checks them in parallel; each is an exhaustive kernel evaluation of 2·8·17·17 cases) -/
namespace Chess.FnsEquiv
open Chess

theorem Position_add_rows0 : ∀ r ∈ i8s 0 1, ∀ c ∈ i8s 0 7, ∀ dr ∈ i8s (-8) 8, ∀ dc ∈ i8s (-8) 8,
    (Gen.Fns.Position.add ⟨r, c⟩ (dr, dc)).map toPos = Pos.add (toPos ⟨r, c⟩) (dr.toInt, dc.toInt) := by
  decide +kernel
#print axioms Position_add_rows0

end Chess.FnsEquiv
