import Chess.Lemmas.FnsEquiv.Base
import Chess.Model.Text

namespace Chess.FnsEquiv
open Chess

/-! ## the letter functions of `piece.rs`  (model: `Chess.Piece.asCharAscii`, `fromCharAscii`, `asStrPgn`, `asGlyph`;
data: `Gen.asciiLetters`, `Gen.pgnLetters`, `Gen.fromLetters`, `Gen.glyphsWhite`, `Gen.glyphsBlack`)

The tables are indexed in `PieceType` order (Queen, Rook, Bishop, Knight, Pawn, King), i.e. by
`(toPieceType t).toNat`, which is `t as usize` (`PieceType_discr_eq`). -/

/-! ### Rust's ASCII case functions (`RustSem`) are Lean's -/

theorem isAsciiLowercase_eq (c : Char) : RustSem.isAsciiLowercase c = c.isLower := by
  simp only [RustSem.isAsciiLowercase, Char.isLower, Char.toNat, ge_iff_le, UInt32.le_iff_toNat_le]
  rfl
#print axioms isAsciiLowercase_eq

/-- the chars below 128, for kernel evaluation -/
def asciiChars : List Char := (List.range 128).map Char.ofNat

theorem mem_asciiChars {c : Char} (h : c.toNat < 128) : c ∈ asciiChars :=
  List.mem_map.2 ⟨c.toNat, List.mem_range.2 h, Char.ofNat_toNat c⟩
#print axioms mem_asciiChars

theorem toAsciiUppercase_high {c : Char} (h : 128 ≤ c.toNat) : RustSem.toAsciiUppercase c = c := by
  have : RustSem.isAsciiLowercase c = false := by
    simp only [RustSem.isAsciiLowercase, Bool.and_eq_false_iff, decide_eq_false_iff_not]; omega
  simp [RustSem.toAsciiUppercase, this]
#print axioms toAsciiUppercase_high

theorem toAsciiLowercase_high {c : Char} (h : 128 ≤ c.toNat) : RustSem.toAsciiLowercase c = c := by
  have : RustSem.isAsciiUppercase c = false := by
    simp only [RustSem.isAsciiUppercase, Bool.and_eq_false_iff, decide_eq_false_iff_not]; omega
  simp [RustSem.toAsciiLowercase, this]
#print axioms toAsciiLowercase_high

theorem toUpper_high {c : Char} (h : 128 ≤ c.toNat) : c.toUpper = c := by
  have h' : 128 ≤ c.val.toNat := h
  unfold Char.toUpper
  rw [dif_neg]
  intro ⟨_, h2⟩
  have : c.val.toNat ≤ 'z'.val.toNat := UInt32.le_iff_toNat_le.1 h2
  have : 'z'.val.toNat = 122 := by decide
  omega
#print axioms toUpper_high

/-- `to_ascii_uppercase` is Lean's `Char.toUpper` (on every `char`) -/
theorem toAsciiUppercase_eq (c : Char) : RustSem.toAsciiUppercase c = c.toUpper := by
  by_cases h : c.toNat < 128
  · revert c
    suffices ∀ c ∈ asciiChars, RustSem.toAsciiUppercase c = c.toUpper from fun c h => this c (mem_asciiChars h)
    decide +kernel
  · rw [toAsciiUppercase_high (by omega), toUpper_high (by omega)]
#print axioms toAsciiUppercase_eq

/-- a char at or above 128 differs from every ASCII char -/
theorem ne_ascii_of_high {c : Char} (h : 128 ≤ c.toNat) (d : Char) (hd : d.toNat < 128) : (c == d) = false := by
  rw [beq_eq_false_iff_ne]
  intro e
  subst e
  omega
#print axioms ne_ascii_of_high

/-! ### `Piece::as_char_ascii` -/

theorem Piece_as_char_ascii_eq (pc : Gen.Fns.Piece) :
    Gen.Fns.Piece.as_char_ascii pc = Piece.asCharAscii (toPiece pc) := by
  obtain ⟨t, o⟩ := pc
  cases t <;> cases o <;> decide +kernel
#print axioms Piece_as_char_ascii_eq

/-- White's letters are the table `Gen.asciiLetters`, Black's are their lowercase -/
theorem Piece_as_char_ascii_table (t : Gen.Fns.PieceType) :
    Gen.asciiLetters[(toPieceType t).toNat]? = some (Gen.Fns.Piece.as_char_ascii ⟨t, .White⟩)
    ∧ (Gen.asciiLetters.map Char.toLower)[(toPieceType t).toNat]? = some (Gen.Fns.Piece.as_char_ascii ⟨t, .Black⟩) := by
  cases t <;> decide +kernel
#print axioms Piece_as_char_ascii_table

/-! ### `Piece::as_str_pgn` -/

theorem Piece_as_str_pgn_eq (pc : Gen.Fns.Piece) :
    (Gen.Fns.Piece.as_str_pgn pc).toList = Piece.asStrPgn (toPiece pc) := by
  obtain ⟨t, o⟩ := pc
  cases t <;> cases o <;> decide +kernel
#print axioms Piece_as_str_pgn_eq

theorem Piece_as_str_pgn_table (pc : Gen.Fns.Piece) :
    Gen.pgnLetters[(toPieceType pc.piece_type).toNat]? = some (Gen.Fns.Piece.as_str_pgn pc) := by
  obtain ⟨t, o⟩ := pc
  cases t <;> cases o <;> decide +kernel
#print axioms Piece_as_str_pgn_table

/-! ### `Piece::as_char` (the Unicode glyphs) -/

theorem Piece_as_char_eq (pc : Gen.Fns.Piece) :
    Gen.Fns.Piece.as_char pc = Piece.asGlyph (toPiece pc) := by
  obtain ⟨t, o⟩ := pc
  cases t <;> cases o <;> decide +kernel
#print axioms Piece_as_char_eq

theorem Piece_as_char_table (t : Gen.Fns.PieceType) :
    Gen.glyphsWhite[(toPieceType t).toNat]? = some (Gen.Fns.Piece.as_char ⟨t, .White⟩)
    ∧ Gen.glyphsBlack[(toPieceType t).toNat]? = some (Gen.Fns.Piece.as_char ⟨t, .Black⟩) := by
  cases t <;> decide +kernel
#print axioms Piece_as_char_table

/-! ### `Piece::from_char_ascii`, on EVERY `char`

Below 128 both sides are evaluated by the kernel (128 chars). At or above 128 both are `none`: the generated
term compares (a case conversion of) the argument with ASCII literals only, and such a char differs from each of
them (`ne_ascii_of_high`; its side condition `d.toNat < 128` is decided on the literal). -/

theorem Piece_from_char_ascii_ascii : ∀ c ∈ asciiChars,
    (Gen.Fns.Piece.from_char_ascii c).map toPiece = Piece.fromCharAscii c := by
  decide +kernel
#print axioms Piece_from_char_ascii_ascii

-- (a harmless variant of the source may convert to lowercase instead; both facts are offered)
set_option linter.unusedSimpArgs false in
theorem Piece_from_char_ascii_high {c : Char} (h : 128 ≤ c.toNat) : Gen.Fns.Piece.from_char_ascii c = none := by
  have ne := ne_ascii_of_high h
  simp (discharger := decide) [Gen.Fns.Piece.from_char_ascii, toAsciiUppercase_high h, toAsciiLowercase_high h, ne]
#print axioms Piece_from_char_ascii_high

theorem fromCharAscii_high {c : Char} (h : 128 ≤ c.toNat) : Piece.fromCharAscii c = none := by
  have ne := ne_ascii_of_high h
  have ne' : ∀ d : Char, d.toNat < 128 → ¬ d = c := fun d hd e => by
    have := ne d hd; rw [beq_eq_false_iff_ne] at this; exact this e.symm
  simp (discharger := decide) [Piece.fromCharAscii, Piece.fromCharAscii.find, Gen.fromLetters, toUpper_high h, ne']
#print axioms fromCharAscii_high

theorem Piece_from_char_ascii_eq (c : Char) :
    (Gen.Fns.Piece.from_char_ascii c).map toPiece = Piece.fromCharAscii c := by
  by_cases h : c.toNat < 128
  · exact Piece_from_char_ascii_ascii c (mem_asciiChars h)
  · rw [Piece_from_char_ascii_high (by omega), fromCharAscii_high (by omega)]; rfl
#print axioms Piece_from_char_ascii_eq

/-- read against the data: a char is accepted iff its uppercase is the `i`-th entry of `Gen.fromLetters`, the
result is then the `i`-th piece type, Black iff the char is an ASCII lowercase letter -/
theorem Piece_from_char_ascii_table (t : Gen.Fns.PieceType) (o : Gen.Fns.Player) (c : Char) :
    Gen.Fns.Piece.from_char_ascii c = some ⟨t, o⟩ ↔
      Gen.fromLetters[(toPieceType t).toNat]? = some c.toUpper ∧ (o = .Black ↔ c.isLower = true) := by
  by_cases h : c.toNat < 128
  · revert c
    suffices ∀ c ∈ asciiChars, Gen.Fns.Piece.from_char_ascii c = some ⟨t, o⟩ ↔
        Gen.fromLetters[(toPieceType t).toNat]? = some c.toUpper ∧ (o = .Black ↔ c.isLower = true) from
      fun c h => this c (mem_asciiChars h)
    cases t <;> cases o <;> decide +kernel
  · have hh : 128 ≤ c.toNat := by omega
    have ne := ne_ascii_of_high hh
    have ne' : ∀ d : Char, d.toNat < 128 → ¬ d = c := fun d hd e => by
      have := ne d hd; rw [beq_eq_false_iff_ne] at this; exact this e.symm
    rw [Piece_from_char_ascii_high hh, toUpper_high hh]
    cases t <;> simp (discharger := decide) [Gen.fromLetters, toPieceType, PieceType.toNat, ne']
#print axioms Piece_from_char_ascii_table

end Chess.FnsEquiv
