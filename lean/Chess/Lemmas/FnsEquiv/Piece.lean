import Chess.Lemmas.FnsEquiv.Base

namespace Chess.FnsEquiv
open Chess

/-! ## `piece.rs`  (model: `Chess.PieceType`, `Chess.Piece`) -/

/-- the order of the `enum PieceType` declaration is the model's `toNat` (what `as usize` yields) -/
theorem PieceType_discr_eq (t : Gen.Fns.PieceType) : Gen.Fns.PieceType.discr t = ((toPieceType t).toNat : Int) := by
  cases t <;> decide
#print axioms PieceType_discr_eq

/-- `Player::White = 1`, `Player::Black = -1` are the model's `sign` -/
theorem Player_discr_eq (o : Gen.Fns.Player) : Gen.Fns.Player.discr o = (toPlayer o).sign := by
  cases o <;> decide
#print axioms Player_discr_eq

theorem PieceType_material_value_eq (t : Gen.Fns.PieceType) :
    (Gen.Fns.PieceType.material_value t).toNat = (toPieceType t).materialValue := by
  cases t <;> decide +kernel
#print axioms PieceType_material_value_eq

theorem Piece_material_value_eq (pc : Gen.Fns.Piece) :
    (Gen.Fns.Piece.material_value pc).toNat = (toPiece pc).materialValue := by
  obtain ⟨t, o⟩ := pc
  cases t <;> cases o <;> decide +kernel
#print axioms Piece_material_value_eq

/-- `as_index` (a `usize`, here `Nat` reduced mod 2^64) is the model's index `0..12` -/
theorem Piece_as_index_eq (pc : Gen.Fns.Piece) : Gen.Fns.Piece.as_index pc = (toPiece pc).asIndex := by
  obtain ⟨t, o⟩ := pc
  cases t <;> cases o <;> decide +kernel
#print axioms Piece_as_index_eq

/-- The argument `Game::piece_scores` (`mod.rs`: `[QUEEN, ROOK, BISHOP, KNIGHT, PAWN, KING_*]`, the king's entry
switched by `update_phase`) built from the tables `tools/extract.py` reads out of `scores.rs`, as `i16`. -/
def scoreTables (endgame : Bool) : Array (Array Int16) :=
  #[Gen.queenScores.map Int16.ofInt, Gen.rookScores.map Int16.ofInt, Gen.bishopScores.map Int16.ofInt,
    Gen.knightScores.map Int16.ofInt, Gen.pawnScores.map Int16.ofInt,
    (if endgame then Gen.kingScoresEnd else Gen.kingScoresMiddle).map Int16.ofInt]

/-- `Piece::score` on the engine's tables, for a valid position: table choice (`piece_type as usize`),
row flip for White (`7 - row`), square index (`row*8+col`), and sign (`owner as Score`) are the model's.
No `i16` product wraps here because the table entries are far from `i16::MIN` (re-decided on the
extracted tables by this very evaluation). The unchecked accesses are in bounds on this domain. -/
theorem Piece_score_eq : ∀ (endgame : Bool) (pc : Gen.Fns.Piece) (p : Gen.Fns.Position), PosValid p →
    (Gen.Fns.Piece.score pc p (scoreTables endgame)).toInt = Piece.score (toPiece pc) (toPos p) endgame := by
  intro endgame ⟨t, o⟩ ⟨r, c⟩ ⟨h1, h2, h3, h4⟩
  revert r c
  suffices h : ∀ r ∈ i8s 0 7, ∀ c ∈ i8s 0 7,
      (Gen.Fns.Piece.score ⟨t, o⟩ ⟨r, c⟩ (scoreTables endgame)).toInt = Piece.score (toPiece ⟨t, o⟩) (toPos ⟨r, c⟩) endgame from
    fun r c h1 h2 h3 h4 => h r (mem_i8s h1 h2) c (mem_i8s h3 h4)
  cases endgame <;> cases t <;> cases o <;> decide +kernel
#print axioms Piece_score_eq

/-- `ENDGAME_THRESHOLD` (the constant expression `1500 + 20000` in `scores.rs`, evaluated in `u32`) is the
value `tools/extract.py` reads as data -/
theorem ENDGAME_THRESHOLD_eq : Gen.Fns.ENDGAME_THRESHOLD.toNat = Gen.endgameThreshold := by decide +kernel
#print axioms ENDGAME_THRESHOLD_eq

end Chess.FnsEquiv
