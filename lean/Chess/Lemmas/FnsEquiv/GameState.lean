import Chess.Lemmas.FnsEquiv.Base

namespace Chess.FnsEquiv
open Chess

/-- the byte of a translated `GameState`, whatever its (private) field is called in the Rust source -/
def gsByte : Gen.Fns.GameState → UInt8
  | ⟨b⟩ => b

/-! ## `gamestate.rs`  (model: `Chess.GState`, a byte) -/

theorem GameState_default_eq : gsByte Gen.Fns.GameState.default = GState.default := by decide +kernel
#print axioms GameState_default_eq

/-- `en_passant`: the `i8` result read as an integer is the model's `Int` -/
theorem GameState_en_passant_eq : ∀ s : Gen.Fns.GameState,
    (Gen.Fns.GameState.en_passant s).toInt = GState.enPassant (gsByte s) := by
  intro ⟨b⟩; revert b; refine forall_u8 ?_; decide +kernel
#print axioms GameState_en_passant_eq

/-- `set_en_passant`, for an argument in `0..=15` (the callers pass a file `0..=7` or `8`); there
`value as u8` is exact. The `+` is the wrapping `+` of the release build on both sides. -/
theorem GameState_set_en_passant_eq : ∀ s : Gen.Fns.GameState, ∀ v : Int8, 0 ≤ v.toInt → v.toInt ≤ 15 →
    gsByte (Gen.Fns.GameState.set_en_passant s v) = GState.setEnPassant (gsByte s) v.toInt := by
  intro ⟨b⟩; revert b; refine forall_u8 ?_; intro b hb; revert b hb
  suffices h : ∀ v ∈ i8s 0 15, ∀ b ∈ u8s,
      gsByte (Gen.Fns.GameState.set_en_passant ⟨b⟩ v) = GState.setEnPassant b v.toInt from
    fun b hb v h1 h2 => h v (mem_i8s h1 h2) b hb
  decide +kernel
#print axioms GameState_set_en_passant_eq

theorem GameState_white_king_castling_eq : ∀ s : Gen.Fns.GameState,
    Gen.Fns.GameState.white_king_castling s = GState.wk (gsByte s) := by
  intro ⟨b⟩; revert b; refine forall_u8 ?_; decide +kernel
#print axioms GameState_white_king_castling_eq

theorem GameState_white_queen_castling_eq : ∀ s : Gen.Fns.GameState,
    Gen.Fns.GameState.white_queen_castling s = GState.wq (gsByte s) := by
  intro ⟨b⟩; revert b; refine forall_u8 ?_; decide +kernel
#print axioms GameState_white_queen_castling_eq

theorem GameState_black_king_castling_eq : ∀ s : Gen.Fns.GameState,
    Gen.Fns.GameState.black_king_castling s = GState.bk (gsByte s) := by
  intro ⟨b⟩; revert b; refine forall_u8 ?_; decide +kernel
#print axioms GameState_black_king_castling_eq

theorem GameState_black_queen_castling_eq : ∀ s : Gen.Fns.GameState,
    Gen.Fns.GameState.black_queen_castling s = GState.bq (gsByte s) := by
  intro ⟨b⟩; revert b; refine forall_u8 ?_; decide +kernel
#print axioms GameState_black_queen_castling_eq

theorem GameState_set_white_king_castling_false_eq : ∀ s : Gen.Fns.GameState,
    gsByte (Gen.Fns.GameState.set_white_king_castling_false s) = GState.clearWk (gsByte s) := by
  intro ⟨b⟩; revert b; refine forall_u8 ?_; decide +kernel
#print axioms GameState_set_white_king_castling_false_eq

theorem GameState_set_white_queen_castling_false_eq : ∀ s : Gen.Fns.GameState,
    gsByte (Gen.Fns.GameState.set_white_queen_castling_false s) = GState.clearWq (gsByte s) := by
  intro ⟨b⟩; revert b; refine forall_u8 ?_; decide +kernel
#print axioms GameState_set_white_queen_castling_false_eq

theorem GameState_set_black_king_castling_false_eq : ∀ s : Gen.Fns.GameState,
    gsByte (Gen.Fns.GameState.set_black_king_castling_false s) = GState.clearBk (gsByte s) := by
  intro ⟨b⟩; revert b; refine forall_u8 ?_; decide +kernel
#print axioms GameState_set_black_king_castling_false_eq

theorem GameState_set_black_queen_castling_false_eq : ∀ s : Gen.Fns.GameState,
    gsByte (Gen.Fns.GameState.set_black_queen_castling_false s) = GState.clearBq (gsByte s) := by
  intro ⟨b⟩; revert b; refine forall_u8 ?_; decide +kernel
#print axioms GameState_set_black_queen_castling_false_eq

theorem GameState_set_white_king_castling_true_eq : ∀ s : Gen.Fns.GameState,
    gsByte (Gen.Fns.GameState.set_white_king_castling_true s) = GState.setWk (gsByte s) := by
  intro ⟨b⟩; revert b; refine forall_u8 ?_; decide +kernel
#print axioms GameState_set_white_king_castling_true_eq

theorem GameState_set_white_queen_castling_true_eq : ∀ s : Gen.Fns.GameState,
    gsByte (Gen.Fns.GameState.set_white_queen_castling_true s) = GState.setWq (gsByte s) := by
  intro ⟨b⟩; revert b; refine forall_u8 ?_; decide +kernel
#print axioms GameState_set_white_queen_castling_true_eq

theorem GameState_set_black_king_castling_true_eq : ∀ s : Gen.Fns.GameState,
    gsByte (Gen.Fns.GameState.set_black_king_castling_true s) = GState.setBk (gsByte s) := by
  intro ⟨b⟩; revert b; refine forall_u8 ?_; decide +kernel
#print axioms GameState_set_black_king_castling_true_eq

theorem GameState_set_black_queen_castling_true_eq : ∀ s : Gen.Fns.GameState,
    gsByte (Gen.Fns.GameState.set_black_queen_castling_true s) = GState.setBq (gsByte s) := by
  intro ⟨b⟩; revert b; refine forall_u8 ?_; decide +kernel
#print axioms GameState_set_black_queen_castling_true_eq

end Chess.FnsEquiv
