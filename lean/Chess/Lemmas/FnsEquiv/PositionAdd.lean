import Chess.Lemmas.FnsEquiv.Base
import Chess.Lemmas.FnsEquiv.PositionAdd0
import Chess.Lemmas.FnsEquiv.PositionAdd1
import Chess.Lemmas.FnsEquiv.PositionAdd2
import Chess.Lemmas.FnsEquiv.PositionAdd3

namespace Chess.FnsEquiv
open Chess

/-! ## `position.rs`: `Position::add` (the one expensive check; its four row slices are modules of their own) -/

/-- `Position::add`, for a valid position (the type's invariant) and deltas in `-8..=8` (all the engine's
deltas: knight/king/pawn steps, and ray steps up to the first square off the board).
In that range `self.0 + delta.0` does not wrap, so the `i8` sum is the model's `Int` sum. -/
theorem Position_add_eq : ∀ p : Gen.Fns.Position, PosValid p →
    ∀ dr : Int8, -8 ≤ dr.toInt → dr.toInt ≤ 8 → ∀ dc : Int8, -8 ≤ dc.toInt → dc.toInt ≤ 8 →
    (Gen.Fns.Position.add p (dr, dc)).map toPos = Pos.add (toPos p) (dr.toInt, dc.toInt) := by
  intro ⟨r, c⟩ ⟨h1, h2, h3, h4⟩ dr a1 a2 dc b1 b2
  simp only at h1 h2 h3 h4
  have hc := mem_i8s h3 h4
  have hdr := mem_i8s a1 a2
  have hdc := mem_i8s b1 b2
  rcases (by omega : r.toInt ≤ 1 ∨ (2 ≤ r.toInt ∧ r.toInt ≤ 3) ∨ (4 ≤ r.toInt ∧ r.toInt ≤ 5) ∨ 6 ≤ r.toInt)
    with h | h | h | h
  · exact Position_add_rows0 r (mem_i8s h1 h) c hc dr hdr dc hdc
  · exact Position_add_rows1 r (mem_i8s h.1 h.2) c hc dr hdr dc hdc
  · exact Position_add_rows2 r (mem_i8s h.1 h.2) c hc dr hdr dc hdc
  · exact Position_add_rows3 r (mem_i8s h h2) c hc dr hdr dc hdc
#print axioms Position_add_eq

end Chess.FnsEquiv
