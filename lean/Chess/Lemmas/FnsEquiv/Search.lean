import Chess.Lemmas.FnsEquiv.Move

set_option linter.unusedSimpArgs false

namespace Chess.FnsEquiv
open Chess

/-! ## `search.rs`: `move_score`  (model: `Search.moveKey Uci.chessOps`, i.e. `Uci.orderKey` behind the
table-move / killer-move tests) -/

theorem toPos_injective {a b : Gen.Fns.Position} (h : toPos a = toPos b) : a = b := by
  obtain ⟨a0, a1⟩ := a
  obtain ⟨b0, b1⟩ := b
  simp only [toPos, Pos.mk.injEq] at h
  rw [Int8.toInt_inj.1 h.1, Int8.toInt_inj.1 h.2]
#print axioms toPos_injective

theorem toPieceType_injective {a b : Gen.Fns.PieceType} (h : toPieceType a = toPieceType b) : a = b := by
  cases a <;> cases b <;> first | rfl | cases h
#print axioms toPieceType_injective

theorem toPlayer_injective {a b : Gen.Fns.Player} (h : toPlayer a = toPlayer b) : a = b := by
  cases a <;> cases b <;> first | rfl | cases h
#print axioms toPlayer_injective

theorem toPiece_injective {a b : Gen.Fns.Piece} (h : toPiece a = toPiece b) : a = b := by
  obtain ⟨a0, a1⟩ := a
  obtain ⟨b0, b1⟩ := b
  simp only [toPiece, Piece.mk.injEq] at h
  rw [toPieceType_injective h.1, toPlayer_injective h.2]
#print axioms toPiece_injective

theorem optPiece_injective {a b : Option Gen.Fns.Piece} (h : a.map toPiece = b.map toPiece) : a = b := by
  cases a <;> cases b <;> simp only [Option.map, Option.some.injEq, reduceCtorEq] at h ⊢
  exact toPiece_injective h
#print axioms optPiece_injective

theorem toMove_injective {a b : Gen.Fns.Move} (h : toMove a = toMove b) : a = b := by
  cases a <;> cases b <;> simp only [toMove, Move.normal.injEq, Move.promotion.injEq, Move.castlingShort.injEq,
    Move.castlingLong.injEq, Move.enPassant.injEq, reduceCtorEq] at h
  · obtain ⟨h1, h2, h3, h4⟩ := h
    rw [toPiece_injective h1, toPos_injective h2, toPos_injective h3, optPiece_injective h4]
  · obtain ⟨h1, h2, h3, h4, h5⟩ := h
    rw [toPlayer_injective h1, toPieceType_injective h2, toPos_injective h3, toPos_injective h4, optPiece_injective h5]
  · rw [toPlayer_injective h]
  · rw [toPlayer_injective h]
  · obtain ⟨h1, h2, h3⟩ := h
    rw [toPlayer_injective h1, Int8.toInt_inj.1 h2, Int8.toInt_inj.1 h3]
#print axioms toMove_injective

theorem some_toMove_eq_iff (x : Option Gen.Fns.Move) (m : Gen.Fns.Move) :
    x.map toMove = some (toMove m) ↔ x = some m := by
  cases x with
  | none => simp
  | some y =>
    simp only [Option.map, Option.some.injEq]
    exact ⟨toMove_injective, fun h => by rw [h]⟩
#print axioms some_toMove_eq_iff

/-- a promotion to a king does not exist (`get_pawn_moves` offers Queen, Rook, Bishop, Knight); for it
`9 - 100` would wrap in `u32` while the model's `Nat` subtraction truncates -/
def PromoOk : Gen.Fns.Move → Prop
  | .Promotion _ t _ _ _ => t ≠ .King
  | _ => True

/-! the three layers of `move_score`: table move, killer move, the kind of the move -/

/-- closing tactic of the three layer lemmas: after unfolding, `simp` decides the two leading tests whatever way
the Rust text spells them (`is_some_and(|x| x == m)`, `== Some(m)`, a `match`), and what is left is a constant
(a literal or a named constant) to be compared with the model's `0` / `1` -/
macro "layer_close" : tactic => `(tactic| (all_goals first | rfl | decide | (simp; done)))

theorem move_score_pv (m : Gen.Fns.Move) (killer : Option Gen.Fns.Move) (hist : Array UInt16) :
    Gen.Fns.move_score m (some m) killer hist = 0 := by
  unfold Gen.Fns.move_score
  simp [RustSem.isSomeAnd]
  layer_close
#print axioms move_score_pv

private theorem ne_facts {x m : Gen.Fns.Move} (h : x ≠ m) : (x == m) = false ∧ (m == x) = false :=
  ⟨beq_false_of_ne h, beq_false_of_ne (Ne.symm h)⟩
#print axioms ne_facts

theorem move_score_killer (m : Gen.Fns.Move) (pv : Option Gen.Fns.Move) (hist : Array UInt16) (h : pv ≠ some m) :
    Gen.Fns.move_score m pv (some m) hist = 1 := by
  cases pv with
  | none =>
    unfold Gen.Fns.move_score
    simp [RustSem.isSomeAnd]
    layer_close
  | some x =>
    have hne : x ≠ m := fun e => h (by rw [e])
    obtain ⟨hx, hx'⟩ := ne_facts hne
    unfold Gen.Fns.move_score
    simp [RustSem.isSomeAnd, hx, hx', hne, Ne.symm hne]
    layer_close
#print axioms move_score_killer

theorem move_score_rest (m : Gen.Fns.Move) (pv killer : Option Gen.Fns.Move) (hist : Array UInt16)
    (h1 : pv ≠ some m) (h2 : killer ≠ some m) :
    Gen.Fns.move_score m pv killer hist = Gen.Fns.move_score m none none hist := by
  have key : ∀ (a b : Option Gen.Fns.Move), a ≠ some m → b ≠ some m →
      Gen.Fns.move_score m a b hist = Gen.Fns.move_score m none none hist := by
    intro a b ha hb
    cases a with
    | none =>
      cases b with
      | none => rfl
      | some y =>
        have hne : y ≠ m := fun e => hb (by rw [e])
        obtain ⟨hy, hy'⟩ := ne_facts hne
        unfold Gen.Fns.move_score
        simp [RustSem.isSomeAnd, hy, hy', hne, Ne.symm hne]
    | some x =>
      have hnx : x ≠ m := fun e => ha (by rw [e])
      obtain ⟨hx, hx'⟩ := ne_facts hnx
      cases b with
      | none =>
        unfold Gen.Fns.move_score
        simp [RustSem.isSomeAnd, hx, hx', hnx, Ne.symm hnx]
      | some y =>
        have hne : y ≠ m := fun e => hb (by rw [e])
        obtain ⟨hy, hy'⟩ := ne_facts hne
        unfold Gen.Fns.move_score
        simp [RustSem.isSomeAnd, hx, hx', hy, hy', hnx, Ne.symm hnx, hne, Ne.symm hne]
  exact key pv killer h1 h2
#print axioms move_score_rest

theorem cast_u16_u32_toNat (x : UInt16) : (RustSem.cast x : UInt32).toNat = x.toNat := by
  have := x.toNat_lt
  simp only [RustSem.cast, RustSem.RInt.ofInt, RustSem.RInt.toInt, UInt32.ofInt]
  rw [UInt32.toNat_ofNat']
  omega
#print axioms cast_u16_u32_toNat

theorem order_closed_capture : ∀ (t : Gen.Fns.PieceType) (o : Gen.Fns.Player) (t' : Gen.Fns.PieceType) (o' : Gen.Fns.Player),
    (Gen.Fns.move_score (.Normal ⟨t, o⟩ ⟨0, 0⟩ ⟨0, 0⟩ (some ⟨t', o'⟩)) none none #[]).toNat
      = Uci.orderKey (toMove (.Normal ⟨t, o⟩ ⟨0, 0⟩ ⟨0, 0⟩ (some ⟨t', o'⟩))) (fun _ => 0) := by
  intro t o t' o'
  cases t <;> cases o <;> cases t' <;> cases o' <;> decide +kernel
#print axioms order_closed_capture

theorem order_closed_promotion : ∀ (t : Gen.Fns.PieceType), t ≠ .King → ∀ (o : Gen.Fns.Player),
    (Gen.Fns.move_score (.Promotion o t ⟨0, 0⟩ ⟨0, 0⟩ none) none none #[]).toNat
      = Uci.orderKey (toMove (.Promotion o t ⟨0, 0⟩ ⟨0, 0⟩ none)) (fun _ => 0) := by
  intro t ht o
  cases t <;> cases o <;> first | (exact absurd rfl ht) | decide +kernel
#print axioms order_closed_promotion

/-- The quiet-move arm: whatever `u16` the history slot holds, `10000000 - h as u32` does not wrap. -/
theorem quiet_arith (h : UInt16) : ((10000000 : UInt32) - (RustSem.cast h : UInt32)).toNat = 10000000 - h.toNat := by
  have := h.toNat_lt
  rw [UInt32.toNat_sub_of_le, cast_u16_u32_toNat]
  · rfl
  · rw [UInt32.le_iff_toNat_le, cast_u16_u32_toNat]
    show h.toNat ≤ 10000000
    omega
#print axioms quiet_arith

theorem getD_map_toNat (hist : Array UInt16) (i : Nat) :
    (hist.map UInt16.toNat).getD i 0 = (RustSem.index hist i).toNat := by
  unfold RustSem.index
  by_cases h : i < hist.size
  · simp [Array.getD, h]
  · simp [Array.getD, h]
    rfl
#print axioms getD_map_toNat

/-- `move_score` below the table-move and killer tests is the model's `Uci.orderKey`, for a move with
valid squares that is not a promotion to a king. The `u32` differences do not wrap there
(`9 - value` needs `value ≤ 9`; `1000 + a - b`; `10000000 - h` with `h : u16`). The `unwrap()` is
reached only for a quiet `Normal` move, where `index_history` is `Some`. -/
theorem move_score_order (m : Gen.Fns.Move) (hist : Array UInt16) (hm : MoveValid m) (hk : PromoOk m) :
    (Gen.Fns.move_score m none none hist).toNat
      = Uci.orderKey (toMove m) (fun i => (hist.map UInt16.toNat).getD i 0) := by
  cases m with
  | Promotion o t s e cap => exact order_closed_promotion t hk o
  | CastlingShort o => rfl
  | CastlingLong o => rfl
  | EnPassant o a b => rfl
  | Normal pc s e cap =>
    cases cap with
    | some c =>
      obtain ⟨t, o⟩ := pc
      obtain ⟨t', o'⟩ := c
      exact order_closed_capture t o t' o'
    | none =>
      have hi := Move_index_history_eq (.Normal pc s e none) hm
      have hq : Gen.Fns.move_score (.Normal pc s e none) none none hist
          = (10000000 : UInt32) - (RustSem.cast (RustSem.index hist
              (RustSem.unwrap (Gen.Fns.Move.index_history (.Normal pc s e none)))) : UInt32) := rfl
      rw [hq, quiet_arith, hi]
      simp only [Uci.orderKey, toMove, Option.map, getD_map_toNat]
      rfl
#print axioms move_score_order

/-- **`move_score`** is the model's `Search.moveKey` of the chess instance. -/
theorem move_score_eq (m : Gen.Fns.Move) (pv killer : Option Gen.Fns.Move) (hist : Array UInt16)
    (hm : MoveValid m) (hk : PromoOk m) :
    (Gen.Fns.move_score m pv killer hist).toNat
      = Search.moveKey Uci.chessOps (pv.map toMove) (killer.map toMove) (hist.map UInt16.toNat) (toMove m) := by
  unfold Search.moveKey
  by_cases h1 : pv = some m
  · rw [if_pos ((some_toMove_eq_iff pv m).2 h1), h1, move_score_pv]; rfl
  · rw [if_neg (fun h => h1 ((some_toMove_eq_iff pv m).1 h))]
    by_cases h2 : killer = some m
    · rw [if_pos ((some_toMove_eq_iff killer m).2 h2), h2, move_score_killer m pv hist h1]; rfl
    · rw [if_neg (fun h => h2 ((some_toMove_eq_iff killer m).1 h)), move_score_rest m pv killer hist h1 h2]
      exact move_score_order m hist hm hk
#print axioms move_score_eq

/-- the `unwrap()` in `move_score` is never applied to `None`: it is evaluated only for a `Normal`
move without capture, and there `index_history` is `Some` -/
theorem move_score_unwrap_safe (pc : Gen.Fns.Piece) (s e : Gen.Fns.Position) :
    (Gen.Fns.Move.index_history (.Normal pc s e none)).isSome = true := by
  rfl
#print axioms move_score_unwrap_safe

end Chess.FnsEquiv
