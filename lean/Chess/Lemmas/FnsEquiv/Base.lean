import Chess.Gen.Fns
import Chess.Model.Uci

/-! # Helpers for `Chess/Lemmas/FnsEquiv.lean`: finite enumeration of machine integers, abstraction maps -/
namespace Chess.FnsEquiv
open Chess

/-! ## finite enumeration of machine integers -/

/-- all bytes -/
def u8s : List UInt8 := (List.range 256).map UInt8.ofNat
/-- the `i8` values `lo..=hi` -/
def i8s (lo hi : Int) : List Int8 := (List.range (hi - lo + 1).toNat).map (fun (k : Nat) => Int8.ofInt (lo + (k : Int)))

theorem mem_u8s (x : UInt8) : x ∈ u8s := by
  unfold u8s
  refine List.mem_map.2 ⟨x.toNat, List.mem_range.2 x.toNat_lt, ?_⟩
  simp
#print axioms mem_u8s

theorem mem_i8s {lo hi : Int} {x : Int8} (h1 : lo ≤ x.toInt) (h2 : x.toInt ≤ hi) : x ∈ i8s lo hi := by
  unfold i8s
  refine List.mem_map.2 ⟨(x.toInt - lo).toNat, List.mem_range.2 (by omega), ?_⟩
  rw [show lo + (((x.toInt - lo).toNat : Nat) : Int) = x.toInt by omega, Int8.ofInt_toInt]
#print axioms mem_i8s

theorem forall_u8 {P : UInt8 → Prop} (h : ∀ x ∈ u8s, P x) : ∀ x, P x := fun x => h x (mem_u8s x)
#print axioms forall_u8

theorem forall_i8 {P : Int8 → Prop} (lo hi : Int) (h : ∀ x ∈ i8s lo hi, P x) :
    ∀ x : Int8, lo ≤ x.toInt → x.toInt ≤ hi → P x := fun x h1 h2 => h x (mem_i8s h1 h2)
#print axioms forall_i8

/-! ## abstraction maps -/

def toPos (p : Gen.Fns.Position) : Pos := ⟨p._0.toInt, p._1.toInt⟩

def toPieceType : Gen.Fns.PieceType → PieceType
  | .Queen => .queen | .Rook => .rook | .Bishop => .bishop
  | .Knight => .knight | .Pawn => .pawn | .King => .king

def toPlayer : Gen.Fns.Player → Player
  | .White => .white | .Black => .black

def toPiece (p : Gen.Fns.Piece) : Piece := ⟨toPieceType p.piece_type, toPlayer p.owner⟩

def toMove : Gen.Fns.Move → Move
  | .Normal pc s e c => .normal (toPiece pc) (toPos s) (toPos e) (c.map toPiece)
  | .Promotion o t s e c => .promotion (toPlayer o) (toPieceType t) (toPos s) (toPos e) (c.map toPiece)
  | .CastlingShort o => .castlingShort (toPlayer o)
  | .CastlingLong o => .castlingLong (toPlayer o)
  | .EnPassant o a b => .enPassant (toPlayer o) a.toInt b.toInt

/-- the invariant of `Position` ("values for row and col are always in 0..8") -/
def PosValid (p : Gen.Fns.Position) : Prop :=
  0 ≤ p._0.toInt ∧ p._0.toInt ≤ 7 ∧ 0 ≤ p._1.toInt ∧ p._1.toInt ≤ 7

end Chess.FnsEquiv
