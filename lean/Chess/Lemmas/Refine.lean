import Chess.Lemmas.RefineSquare
import Chess.Lemmas.RefineCor
import Chess.Lemmas.RefineChecked

/-!
# C02 — "playing a move produces the position the rules prescribe": summary

The proof is split over
* `RefineBits`    — the state byte, all 256 values by kernel evaluation;
* `RefineShape`   — `Shape`, `generated_shape_rf`: the facts that make `Spec.play`'s inference of the
                    move kind (en passant / castling / double step) agree with the engine's;
* `RefineBase`    — both sides of the square field by field;
* `RefineSquare`  — `Refines`, `generated_refines`, **`push_abs`** and variants;
* `RefineCor`     — `pushAll_abs`, `ep_after_double_push_iff`, `right_lost_on_rook_home`,
                    `rights_after_rook_capture`, `king_capture_rights_differ`, `toSpec_uci`,
                    the executed counterexample;
* `RefineChecked` — `generated_capture_attacks`, `noKingCapture_of_safe`, `push_abs_of_safe`,
                    `push_abs_checked_of_notInCheck`.

The headline statements are restated below as `example`s, so that this file fails to compile if
one of them changes.
-/
namespace Chess
namespace Game

variable {g : Game} {m : Move}

/-- shape of generated moves -/
example (hw : g.WF) (hm : m ∈ g.pseudoMoves) : g.Shape m := generated_shape_rf hw hm

/-- the square, under the exact side condition -/
example (hw : g.WF) (hm : m ∈ g.pseudoMoves) (hh : g.HomeSafe m) :
    (g.push m).abs = Spec.play g.abs m.toSpec := push_abs hw hm hh

/-- the square without side condition: everything but the rights of the side not to move -/
example (hw : g.WF) (hm : m ∈ g.pseudoMoves) :
    (g.push m).abs.board = (Spec.play g.abs m.toSpec).board
    ∧ (g.push m).abs.side = (Spec.play g.abs m.toSpec).side
    ∧ (g.push m).abs.ep = (Spec.play g.abs m.toSpec).ep
    ∧ ∀ ks, (g.push m).abs.right g.player ks = (Spec.play g.abs m.toSpec).right g.player ks :=
  push_abs_weak hw hm

/-- the square for moves that do not capture a king -/
example (hw : g.WF) (hko : g.kingExists g.player.other = true) (hm : m ∈ g.pseudoMoves)
    (hn : g.NoKingCapture m) : (g.push m).abs = Spec.play g.abs m.toSpec :=
  push_abs_noKingCapture hw hko hm hn

/-- the square for the checked list -/
example (hw : g.WF) (hm : m ∈ (g.getMoves true).1) (hh : g.HomeSafe m) :
    (g.push m).abs = Spec.play g.abs m.toSpec := push_abs_checked hw hm hh

/-- the square for every generated move of a position whose side not to move is not in check -/
example (hw : g.WF) (hko : g.get (g.kingPos g.player.other) = some ⟨.king, g.player.other⟩)
    (hnc : Spec.inCheck g.abs g.abs.side.other = false) (hm : m ∈ g.pseudoMoves) :
    (g.push m).abs = Spec.play g.abs m.toSpec := push_abs_of_notInCheck hw hko hnc hm

example (hw : g.WF) (hko : g.get (g.kingPos g.player.other) = some ⟨.king, g.player.other⟩)
    (hnc : Spec.inCheck g.abs g.abs.side.other = false) (hm : m ∈ (g.getMoves true).1) :
    (g.push m).abs = Spec.play g.abs m.toSpec := push_abs_checked_of_notInCheck hw hko hnc hm

/-- whole lines -/
example (ms : List Move) (h : GeneratedSeq g ms) :
    (pushAll g ms).abs = Spec.playAll g.abs (ms.map Move.toSpec) := pushAll_abs ms g h

/-- move text -/
example (m : Move) : (m.toSpec).text = m.uci := toSpec_uci m

end Game
end Chess

#print axioms Chess.Game.generated_shape_rf
#print axioms Chess.Game.generated_refines
#print axioms Chess.Game.push_abs
#print axioms Chess.Game.push_abs_weak
#print axioms Chess.Game.push_abs_noKingCapture
#print axioms Chess.Game.push_abs_checked
#print axioms Chess.Game.push_abs_checked_noKingCapture
#print axioms Chess.Game.push_abs_of_safe
#print axioms Chess.Game.push_abs_checked_of_safe
#print axioms Chess.Game.push_abs_of_notInCheck
#print axioms Chess.Game.push_abs_checked_of_notInCheck
#print axioms Chess.Game.pushAll_abs
#print axioms Chess.Game.ep_after_double_push_iff
#print axioms Chess.Game.right_lost_on_rook_home
#print axioms Chess.Game.rights_after_rook_capture
#print axioms Chess.Game.king_capture_rights_differ
#print axioms Chess.Game.toSpec_uci
