import Chess.Lemmas.Defs

/-!
# Helpers for `Chess/Lemmas/Attack.lean`: board views, geometry of the generated delta tables
-/
namespace Chess

open Spec

/-! ## Players -/

theorem Player.ne_iff_eq_other (a b : Player) : a ≠ b ↔ a = b.other := by
  cases a <;> cases b <;> decide

/-! ## The two views of the board -/

theorem Spec.onBoard_iff (s : Sq) : onBoard s = true ↔ 0 ≤ s.1 ∧ s.1 < 8 ∧ 0 ≤ s.2 ∧ s.2 < 8 := by
  unfold onBoard
  simp only [Bool.and_eq_true, decide_eq_true_eq]
  omega

theorem Pos.valid_iff_onBoard (p : Pos) : p.Valid ↔ onBoard (p.row, p.col) = true := by
  rw [Spec.onBoard_iff]; exact Iff.rfl

theorem Pos.inBoard_eq_onBoard (r c : Int) : Pos.inBoard r c = onBoard (r, c) := rfl

/-- off the board the abstract position reads `none` -/
theorem Spec.APos.at_offBoard (a : APos) (s : Sq) (h : onBoard s = false) : a.at s = none := by
  unfold APos.at; simp [h]

/-- a square that holds something is on the board -/
theorem Spec.APos.onBoard_of_at {a : APos} {s : Sq} {pc : Piece} (h : a.at s = some pc) :
    onBoard s = true := by
  cases hb : onBoard s
  · rw [a.at_offBoard s hb] at h; cases h
  · rfl

/-- **Bridge** (task item 1): on a valid square the engine's `get` and the rules' `at` read the
same cell `board[r*8+c]`. -/
theorem Game.get_eq_at (g : Game) (p : Pos) (hp : p.Valid) : g.get p = g.abs.at (p.row, p.col) := by
  have hb : onBoard (p.row, p.col) = true := (Pos.valid_iff_onBoard p).1 hp
  have hi : p.idx < 64 := Pos.idx_lt hp
  unfold Game.get APos.at
  simp only [hi, hb, ↓reduceDIte, ↓reduceIte]
  show g.board[p.idx] = g.board.toArray.getD p.idx none
  simp [Array.getD, hi]

theorem Game.get_mk_eq_at (g : Game) (r c : Int) (h : 0 ≤ r ∧ r < 8 ∧ 0 ≤ c ∧ c < 8) :
    g.get ⟨r, c⟩ = g.abs.at (r, c) :=
  g.get_eq_at ⟨r, c⟩ h

/-- `Position::add` in closed form (task item 1) -/
theorem Pos.add_eq_some_iff (p q : Pos) (d : Int × Int) :
    p.add d = some q ↔ q = ⟨p.row + d.1, p.col + d.2⟩ ∧ onBoard (q.row, q.col) = true := by
  unfold Pos.add Pos.new?
  rw [Pos.inBoard_eq_onBoard]
  constructor
  · intro h
    split at h
    · rename_i hb
      simp only [Option.some.injEq] at h; subst h; exact ⟨rfl, hb⟩
    · cases h
  · rintro ⟨rfl, hb⟩
    simp only at hb
    simp [hb]

theorem Pos.add_eq_none_iff (p : Pos) (d : Int × Int) :
    p.add d = none ↔ onBoard (p.row + d.1, p.col + d.2) = false := by
  unfold Pos.add Pos.new?
  rw [Pos.inBoard_eq_onBoard]
  cases onBoard (p.row + d.1, p.col + d.2) <;> simp

/-- reading the square reached by `add`: in all cases what the rules see at `p + d` -/
theorem Game.get_add (g : Game) (p : Pos) (d : Int × Int) :
    (match p.add d with | none => none | some q => g.get q) = g.abs.at (p.row + d.1, p.col + d.2) := by
  cases h : p.add d with
  | none =>
    rw [Pos.add_eq_none_iff] at h
    simp [APos.at_offBoard _ _ h]
  | some q =>
    obtain ⟨rfl, hb⟩ := (Pos.add_eq_some_iff _ _ _).1 h
    exact g.get_eq_at _ ((Pos.valid_iff_onBoard _).2 hb)

/-! ## `sgn` -/

theorem Spec.sgn_pos {x : Int} (h : 0 < x) : sgn x = 1 := by unfold sgn; simp [h]
theorem Spec.sgn_neg {x : Int} (h : x < 0) : sgn x = -1 := by
  unfold sgn; rw [if_neg (by omega), if_pos h]
theorem Spec.sgn_zero : sgn 0 = 0 := by decide
theorem Spec.sgn_cases (x : Int) : (0 < x ∧ sgn x = 1) ∨ (x < 0 ∧ sgn x = -1) ∨ (x = 0 ∧ sgn x = 0) := by
  rcases Int.lt_trichotomy x 0 with h | h | h
  · exact .inr (.inl ⟨h, sgn_neg h⟩)
  · subst h; exact .inr (.inr ⟨rfl, sgn_zero⟩)
  · exact .inl ⟨h, sgn_pos h⟩
theorem Spec.natAbs_mul_sgn (x : Int) : (x.natAbs : Int) * sgn x = x := by
  rcases sgn_cases x with ⟨h, e⟩ | ⟨h, e⟩ | ⟨h, e⟩ <;> rw [e] <;> omega

/-! ## Geometry of the generated tables

Each characterisation unfolds the generated literal list, so a wrong delta in the source breaks it. -/

/-- a unit step: one of the eight compass directions -/
def UnitDir (d : Int × Int) : Prop :=
  (d.1 = -1 ∨ d.1 = 0 ∨ d.1 = 1) ∧ (d.2 = -1 ∨ d.2 = 0 ∨ d.2 = 1) ∧ (d.1 ≠ 0 ∨ d.2 ≠ 0)

theorem mem_tKingDeltas (d : Int × Int) :
    d ∈ Gen.tKingDeltas ↔ max d.1.natAbs d.2.natAbs = 1 := by
  obtain ⟨a, b⟩ := d
  constructor
  · intro h
    simp only [Gen.tKingDeltas, List.mem_cons, Prod.mk.injEq, List.not_mem_nil, or_false] at h
    omega
  · intro h
    simp only at h
    simp only [Gen.tKingDeltas, List.mem_cons, Prod.mk.injEq, List.not_mem_nil, or_false]
    omega

theorem mem_tKnightDeltas (d : Int × Int) :
    d ∈ Gen.tKnightDeltas ↔
      (d.1.natAbs = 1 ∧ d.2.natAbs = 2) ∨ (d.1.natAbs = 2 ∧ d.2.natAbs = 1) := by
  obtain ⟨a, b⟩ := d
  simp only [Gen.tKnightDeltas, List.mem_cons, Prod.mk.injEq, List.not_mem_nil, or_false]
  omega

theorem mem_knightDeltas (d : Int × Int) :
    d ∈ Gen.knightDeltas ↔
      (d.1.natAbs = 1 ∧ d.2.natAbs = 2) ∨ (d.1.natAbs = 2 ∧ d.2.natAbs = 1) := by
  obtain ⟨a, b⟩ := d
  simp only [Gen.knightDeltas, List.mem_cons, Prod.mk.injEq, List.not_mem_nil, or_false]
  omega

theorem mem_tPawnW (d : Int × Int) : d ∈ Gen.tPawnW ↔ d.1 = 1 ∧ d.2.natAbs = 1 := by
  obtain ⟨a, b⟩ := d
  simp only [Gen.tPawnW, List.mem_cons, Prod.mk.injEq, List.not_mem_nil, or_false]
  omega

theorem mem_tPawnB (d : Int × Int) : d ∈ Gen.tPawnB ↔ d.1 = -1 ∧ d.2.natAbs = 1 := by
  obtain ⟨a, b⟩ := d
  simp only [Gen.tPawnB, List.mem_cons, Prod.mk.injEq, List.not_mem_nil, or_false]
  omega

theorem mem_tLineRays (d : Int × Int) :
    d ∈ Gen.tLineRays ↔ UnitDir d ∧ (d.1 = 0 ∨ d.2 = 0) := by
  obtain ⟨a, b⟩ := d
  simp only [Gen.tLineRays, UnitDir, List.mem_cons, Prod.mk.injEq, List.not_mem_nil, or_false]
  omega

theorem mem_tDiagRays (d : Int × Int) :
    d ∈ Gen.tDiagRays ↔ UnitDir d ∧ d.1 ≠ 0 ∧ d.2 ≠ 0 := by
  obtain ⟨a, b⟩ := d
  simp only [Gen.tDiagRays, UnitDir, List.mem_cons, Prod.mk.injEq, List.not_mem_nil, or_false]
  omega

theorem mem_rookRays (d : Int × Int) :
    d ∈ Gen.rookRays ↔ UnitDir d ∧ (d.1 = 0 ∨ d.2 = 0) := by
  obtain ⟨a, b⟩ := d
  simp only [Gen.rookRays, UnitDir, List.mem_cons, Prod.mk.injEq, List.not_mem_nil, or_false]
  omega

theorem mem_bishopRays (d : Int × Int) :
    d ∈ Gen.bishopRays ↔ UnitDir d ∧ d.1 ≠ 0 ∧ d.2 ≠ 0 := by
  obtain ⟨a, b⟩ := d
  simp only [Gen.bishopRays, UnitDir, List.mem_cons, Prod.mk.injEq, List.not_mem_nil, or_false]
  omega

theorem mem_queenRays (d : Int × Int) : d ∈ Gen.queenRays ↔ UnitDir d := by
  obtain ⟨a, b⟩ := d
  simp only [Gen.queenRays, UnitDir, List.mem_cons, Prod.mk.injEq, List.not_mem_nil, or_false]
  omega

/-! ## The ray scan -/

/-- **Ray lemma**, general fuel. No hypothesis on `p` or `d` is needed. -/
theorem Game.firstOnRay_iff (g : Game) (d : Int × Int) (n : Nat) (p : Pos) (pc : Piece) :
    g.firstOnRay p d n = some pc ↔
      ∃ k : Nat, 1 ≤ k ∧ k ≤ n ∧ g.abs.at (p.row + k * d.1, p.col + k * d.2) = some pc ∧
        ∀ j : Nat, 1 ≤ j → j < k →
          onBoard (p.row + j * d.1, p.col + j * d.2) = true ∧
          g.abs.at (p.row + j * d.1, p.col + j * d.2) = none := by
  induction n generalizing p with
  | zero =>
    simp only [Game.firstOnRay]
    constructor
    · intro h; cases h
    · rintro ⟨k, h1, h2, _⟩; omega
  | succ n ih =>
    unfold Game.firstOnRay
    cases hq : p.add d with
    | none =>
      rw [Pos.add_eq_none_iff] at hq
      simp only
      constructor
      · intro h; cases h
      · rintro ⟨k, h1, _, hk, hj⟩
        by_cases hk1 : k = 1
        · subst hk1
          have := APos.onBoard_of_at hk
          simp only [Int.natCast_one, Int.one_mul] at this
          rw [hq] at this; cases this
        · have := (hj 1 (by omega) (by omega)).1
          simp only [Int.natCast_one, Int.one_mul] at this
          rw [hq] at this; cases this
    | some q =>
      obtain ⟨rfl, hb⟩ := (Pos.add_eq_some_iff _ _ _).1 hq
      simp only at hb
      have hg := g.get_eq_at ⟨p.row + d.1, p.col + d.2⟩ ((Pos.valid_iff_onBoard _).2 hb)
      simp only at hg ⊢
      cases hc : g.get ⟨p.row + d.1, p.col + d.2⟩ with
      | some pc' =>
        rw [hc] at hg
        simp only [Option.some.injEq]
        constructor
        · rintro rfl
          refine ⟨1, by omega, by omega, ?_, ?_⟩
          · simp only [Int.natCast_one, Int.one_mul]; exact hg.symm
          · intro j h1 h2; omega
        · rintro ⟨k, h1, _, hk, hj⟩
          by_cases hk1 : k = 1
          · subst hk1
            simp only [Int.natCast_one, Int.one_mul] at hk
            rw [← hg] at hk; exact Option.some.inj hk
          · have := (hj 1 (by omega) (by omega)).2
            simp only [Int.natCast_one, Int.one_mul] at this
            rw [← hg] at this; cases this
      | none =>
        rw [hc] at hg
        simp only
        rw [ih]
        simp only
        constructor
        · rintro ⟨k, h1, h2, hk, hj⟩
          refine ⟨k + 1, by omega, by omega, ?_, ?_⟩
          · simp only [Int.natCast_add, Int.add_mul, Int.natCast_one, Int.one_mul]
            rw [← hk]; congr 2 <;> omega
          · intro j hj1 hj2
            by_cases hj0 : j = 1
            · subst hj0
              simp only [Int.natCast_one, Int.one_mul]
              exact ⟨hb, hg.symm⟩
            · obtain ⟨j', rfl⟩ : ∃ j', j = j' + 1 := ⟨j - 1, by omega⟩
              have := hj j' (by omega) (by omega)
              simp only [Int.natCast_add, Int.add_mul, Int.natCast_one, Int.one_mul]
              have e1 : p.row + (↑j' * d.1 + d.1) = p.row + d.1 + ↑j' * d.1 := by omega
              have e2 : p.col + (↑j' * d.2 + d.2) = p.col + d.2 + ↑j' * d.2 := by omega
              rw [e1, e2]; exact this
        · rintro ⟨k, h1, h2, hk, hj⟩
          by_cases hk1 : k = 1
          · subst hk1
            simp only [Int.natCast_one, Int.one_mul] at hk
            rw [← hg] at hk; cases hk
          · obtain ⟨k', rfl⟩ : ∃ k', k = k' + 1 := ⟨k - 1, by omega⟩
            refine ⟨k', by omega, by omega, ?_, ?_⟩
            · simp only [Int.natCast_add, Int.add_mul, Int.natCast_one, Int.one_mul] at hk
              rw [← hk]; congr 2 <;> omega
            · intro j hj1 hj2
              have := hj (j + 1) (by omega) (by omega)
              simp only [Int.natCast_add, Int.add_mul, Int.natCast_one, Int.one_mul] at this
              have e1 : p.row + (↑j * d.1 + d.1) = p.row + d.1 + ↑j * d.1 := by omega
              have e2 : p.col + (↑j * d.2 + d.2) = p.col + d.2 + ↑j * d.2 := by omega
              rw [e1, e2] at this; exact this

/-! ## Geometry of rays on the 8×8 board -/

theorem ray_le_seven {p : Pos} (hp : p.Valid) {d : Int × Int} (hd : UnitDir d) {k : Nat}
    (hb : onBoard (p.row + k * d.1, p.col + k * d.2) = true) : k ≤ 7 := by
  obtain ⟨a, b⟩ := d
  rw [Spec.onBoard_iff] at hb
  obtain ⟨ha, hb', hne⟩ := hd
  unfold Pos.Valid at hp
  simp only at *
  rcases ha with rfl | rfl | rfl <;> rcases hb' with rfl | rfl | rfl <;> omega

theorem ray_between_onBoard {p : Pos} (hp : p.Valid) {d : Int × Int} (hd : UnitDir d) {k j : Nat}
    (hb : onBoard (p.row + k * d.1, p.col + k * d.2) = true) (hj : j < k) :
    onBoard (p.row + j * d.1, p.col + j * d.2) = true := by
  obtain ⟨a, b⟩ := d
  rw [Spec.onBoard_iff] at hb ⊢
  obtain ⟨ha, hb', hne⟩ := hd
  unfold Pos.Valid at hp
  simp only at *
  rcases ha with rfl | rfl | rfl <;> rcases hb' with rfl | rfl | rfl <;> omega

theorem Spec.sgn_ray (t : Int) {k : Nat} (hk : 1 ≤ k) {x : Int} (hx : x = -1 ∨ x = 0 ∨ x = 1) :
    sgn (t - (t + ↑k * x)) = -x := by
  rcases hx with rfl | rfl | rfl
  · rw [sgn_pos (by omega)]; rfl
  · rw [show t - (t + ↑k * 0) = 0 by omega, sgn_zero]; rfl
  · rw [sgn_neg (by omega)]

theorem Spec.clearBetween_ray (a : APos) (t : Sq) {d : Int × Int} (hd : UnitDir d) {k : Nat}
    (hk : 1 ≤ k) :
    clearBetween a (t.1 + k * d.1, t.2 + k * d.2) t = true ↔
      ∀ j : Nat, 1 ≤ j → j < k → a.at (t.1 + j * d.1, t.2 + j * d.2) = none := by
  obtain ⟨x, y⟩ := d
  obtain ⟨hx, hy, hne⟩ := hd
  simp only at hx hy hne ⊢
  have hdr : sgn (t.1 - (t.1 + ↑k * x)) = -x := sgn_ray t.1 hk hx
  have hdc : sgn (t.2 - (t.2 + ↑k * y)) = -y := sgn_ray t.2 hk hy
  have hn : max (t.1 - (t.1 + ↑k * x)).natAbs (t.2 - (t.2 + ↑k * y)).natAbs = k := by
    rcases hx with rfl | rfl | rfl <;> rcases hy with rfl | rfl | rfl <;> omega
  unfold clearBetween
  simp only [hdr, hdc, hn, List.all_eq_true, List.mem_range, Bool.or_eq_true, decide_eq_true_eq,
    Option.isNone_iff_eq_none]
  constructor
  · intro h j hj1 hj2
    have := h (k - j) (by omega)
    rcases this with h0 | h0
    · omega
    · rw [← h0]; congr 2
      · rcases hx with rfl | rfl | rfl <;> omega
      · rcases hy with rfl | rfl | rfl <;> omega
  · intro h i hi
    by_cases hi0 : i = 0
    · exact .inl hi0
    · right
      rw [← h (k - i) (by omega) (by omega)]; congr 2
      · rcases hx with rfl | rfl | rfl <;> omega
      · rcases hy with rfl | rfl | rfl <;> omega

/-- two distinct squares on a common rank, file or diagonal: `s` is `k ≥ 1` unit steps from `t` -/
theorem line_decomp (s t : Sq)
    (h : (t.1 - s.1 = 0 ∨ t.2 - s.2 = 0 ∨ (t.1 - s.1).natAbs = (t.2 - s.2).natAbs) ∧
      (t.1 - s.1 ≠ 0 ∨ t.2 - s.2 ≠ 0)) :
    ∃ (d : Int × Int) (k : Nat), UnitDir d ∧ 1 ≤ k ∧ s = (t.1 + k * d.1, t.2 + k * d.2) ∧
      (d.1 = 0 ↔ t.1 - s.1 = 0) ∧ (d.2 = 0 ↔ t.2 - s.2 = 0) := by
  obtain ⟨s1, s2⟩ := s
  obtain ⟨t1, t2⟩ := t
  simp only at h
  refine ⟨(sgn (s1 - t1), sgn (s2 - t2)), max (t1 - s1).natAbs (t2 - s2).natAbs, ?_⟩
  simp only [UnitDir, Prod.mk.injEq]
  rcases sgn_cases (s1 - t1) with ⟨h1, e1⟩ | ⟨h1, e1⟩ | ⟨h1, e1⟩ <;>
    rcases sgn_cases (s2 - t2) with ⟨h2, e2⟩ | ⟨h2, e2⟩ | ⟨h2, e2⟩ <;>
    rw [e1, e2] <;> omega


end Chess

#print axioms Chess.Game.get_eq_at
#print axioms Chess.Pos.add_eq_some_iff
#print axioms Chess.Game.firstOnRay_iff
#print axioms Chess.Spec.clearBetween_ray
#print axioms Chess.line_decomp
