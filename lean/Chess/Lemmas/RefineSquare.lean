import Chess.Lemmas.RefineBase

/-!
# C02 — playing a move produces the position the rules prescribe (the refinement square)
-/
namespace Chess
namespace Game

/-- the abstract en-passant file of a state byte -/
def epOf (s : GState) : Option Nat := if s.enPassant < 8 then some s.enPassant.toNat else none

theorem abs_ep_rf (g : Game) : g.abs.ep = epOf g.top := rfl

theorem epOf_reset (g : Game) : epOf (g.top.setEnPassant 8) = none := by
  unfold epOf; rw [setEnPassant_ep _ 8 (by omega) (by omega)]; simp

/-- the move touches the home square of `pl`'s king neither with its start nor with its arrival -/
def HomeSafeAt (m : Move) (pl : Player) : Prop :=
  m.toSpec.src ≠ (homeRow pl, 4) ∧ m.toSpec.dst ≠ (homeRow pl, 4)

/-- The move does not touch the king's home square of the side *not* to move while that side
still carries a castling right. (With both kings on the board this says: the move does not
capture a king that has never moved — see `homeSafe_of_noKingCapture`.) -/
def HomeSafe (g : Game) (m : Move) : Prop :=
  ∀ ks, g.top.right g.player.other ks = true → HomeSafeAt m g.player.other

/-- **The refinement square, field by field.** Board, side to move, en-passant file and the
mover's own castling rights always come out as the rules prescribe; a right of the side not to
move comes out right as soon as the move does not touch that king's home square. -/
structure Refines (g : Game) (m : Move) : Prop where
  board : (g.push m).board = (Spec.play g.abs m.toSpec).board
  side : g.player.other = (Spec.play g.abs m.toSpec).side
  ep : epOf (pushState_rf g m) = (Spec.play g.abs m.toSpec).ep
  right : ∀ pl ks, (pl = g.player.other → g.top.right pl ks = true → HomeSafeAt m pl) →
    (pushState_rf g m).right pl ks = (Spec.play g.abs m.toSpec).right pl ks

theorem bool_rights {x e1 e2 t1 t2 t3 t4 : Bool}
    (h : x = true → ((e1 || e2) = true ↔ (t1 || t2 || t3 || t4) = true)) :
    (x && !e1 && !e2) = (x && !(t1 || t2) && !(t3 || t4)) := by
  revert h; cases x <;> cases e1 <;> cases e2 <;> cases t1 <;> cases t2 <;> cases t3 <;> cases t4 <;> decide

theorem spec_homeRow (pl : Player) : Spec.homeRow pl = homeRow pl := by cases pl <;> rfl

theorem player_eq_or (g : Game) (pl : Player) : pl = g.player ∨ pl = g.player.other := by
  cases pl <;> cases g.player <;> simp [Player.other]

/-- assembling the abstract position after `push` from its fields -/
theorem abs_push_eq (g : Game) (m : Move) {a : Spec.APos} (h1 : (g.push m).board = a.board)
    (h2 : g.player.other = a.side) (h3 : ∀ pl ks, (pushState_rf g m).right pl ks = a.right pl ks)
    (h4 : epOf (pushState_rf g m) = a.ep) : (g.push m).abs = a := by
  apply Spec.APos.ext'
  · exact h1
  · show (g.push m).player = _
    rw [push_player]; exact h2
  · intro pl ks
    rw [abs_right, push_top_rf]; exact h3 pl ks
  · rw [abs_ep_rf, push_top_rf]; exact h4

/-! ## Writes to distinct squares commute (as far as the board goes) -/

theorem board3 (g : Game) {a b c : Pos} (va : a.Valid) (vb : b.Valid) (vc : c.Valid)
    (hab : a ≠ b) (hac : a ≠ c) (hbc : b ≠ c) (x y z : Option Piece) :
    (((g.setPosition c z).setPosition a x).setPosition b y).board
      = (((g.setPosition a x).setPosition b y).setPosition c z).board := by
  apply board_ext
  intro q hq
  rw [get_setPosition _ _ _ vb q hq, get_setPosition _ _ _ va q hq, get_setPosition _ _ _ vc q hq,
    get_setPosition _ _ _ vc q hq, get_setPosition _ _ _ vb q hq, get_setPosition _ _ _ va q hq]
  by_cases e1 : q = a
  · subst e1; simp [hab, hac]
  · by_cases e2 : q = b
    · subst e2; simp [hbc]
    · simp [e1, e2]

theorem board4 (g : Game) {a b c d : Pos} (va : a.Valid) (vb : b.Valid) (vc : c.Valid) (vd : d.Valid)
    (hab : a ≠ b) (hac : a ≠ c) (had : a ≠ d) (hbc : b ≠ c) (hbd : b ≠ d) (hcd : c ≠ d)
    (x y z w : Option Piece) :
    ((((g.setPosition a x).setPosition b y).setPosition c z).setPosition d w).board
      = ((((g.setPosition b y).setPosition d w).setPosition a x).setPosition c z).board := by
  apply board_ext
  intro q hq
  rw [get_setPosition _ _ _ vd q hq, get_setPosition _ _ _ vc q hq, get_setPosition _ _ _ vb q hq,
    get_setPosition _ _ _ va q hq, get_setPosition _ _ _ vc q hq, get_setPosition _ _ _ va q hq,
    get_setPosition _ _ _ vd q hq, get_setPosition _ _ _ vb q hq]
  by_cases e1 : q = a
  · subst e1; simp [hab, hac, had]
  · by_cases e2 : q = b
    · subst e2; simp [e1, hbc, hbd]
    · by_cases e3 : q = c
      · subst e3; simp [hcd]
      · simp [e1, e2, e3]

/-! ## The pawn-beside test -/

theorem isEnemyPawn_eq (o : Option Piece) (owner : Player) :
    isEnemyPawn o owner = decide (o = some ⟨.pawn, owner.other⟩) := by
  cases o with
  | none => simp [isEnemyPawn]
  | some p =>
    obtain ⟨t, ow⟩ := p
    cases t <;> cases ow <;> cases owner <;> simp [isEnemyPawn, Player.other]

theorem atB_offBoard (b : Vector (Option Piece) 64) (s : Spec.Sq) (h : Spec.onBoard s = false) :
    Spec.atB_rf b s = none := by
  unfold Spec.atB_rf; simp [h]

theorem besideTest_eq (g1 : Game) (stop : Pos) (hv : stop.Valid) (owner : Player) :
    besideTest g1 stop owner =
      (decide (Spec.atB_rf g1.board (stop.row, stop.col - 1) = some ⟨.pawn, owner.other⟩)
        || decide (Spec.atB_rf g1.board (stop.row, stop.col + 1) = some ⟨.pawn, owner.other⟩)) := by
  unfold besideTest
  unfold Pos.Valid at hv
  congr 1
  · split
    · rw [isEnemyPawn_eq, get_eq_atB g1 ⟨stop.row, stop.col - 1⟩ (by unfold Pos.Valid; simp only; omega)]
    · rw [atB_offBoard]
      · simp
      · rw [Bool.eq_false_iff]; intro h; rw [Spec.onBoard_iff] at h; simp only at h; omega
  · split
    · rw [isEnemyPawn_eq, get_eq_atB g1 ⟨stop.row, stop.col + 1⟩ (by unfold Pos.Valid; simp only; omega)]
    · rw [atB_offBoard]
      · simp
      · rw [Bool.eq_false_iff]; intro h; rw [Spec.onBoard_iff] at h; simp only at h; omega

/-! ## `Normal` moves -/

section normal
variable {g : Game} {pc : Piece} {start stop : Pos} {cap : Option Piece}

theorem abs_at_start (hf : g.Fits (.normal pc start stop cap)) :
    g.abs.at (start.row, start.col) = some pc := by
  rw [← g.get_eq_at start hf.1]; exact hf.2.2.2.1

theorem push_board_normal (hf : g.Fits (.normal pc start stop cap))
    (hs : g.Shape (.normal pc start stop cap)) :
    (g.push (.normal pc start stop cap)).board
      = Spec.playBoard g.abs ⟨(start.row, start.col), (stop.row, stop.col), none⟩ pc := by
  obtain ⟨hv1, hv2, hne, hg1, hg2, hk⟩ := hf
  obtain ⟨hcap, hpawn, hking⟩ := hs
  rw [push_board, Spec.playBoard_plain]
  · show _ = Spec.setSq (Spec.setSq g.board _ none) _ (some pc)
    rw [setSq_board g start hv1, setSq_board _ stop hv2]
    simp only [applyMoveG]
    split <;> simp
  · by_cases hkk : pc.pieceType = .king
    · have := (hking hkk).1
      simp only [hkk, decide_true, Bool.true_and, decide_eq_false_iff_not]; omega
    · simp [hkk]
  · by_cases hp : pc.pieceType = .pawn
    · by_cases hc : stop.col = start.col
      · simp [hc]
      · have := (hpawn hp).1 hc
        rw [← g.get_eq_at stop hv2, hg2]
        cases cap
        · contradiction
        · simp
    · simp [hp]

theorem pushState_right_normal (g : Game) (pc : Piece) (start stop : Pos) (cap : Option Piece)
    (hv : start.Valid) (pl : Player) (ks : Bool) :
    (pushState_rf g (.normal pc start stop cap)).right pl ks =
      (g.top.right pl ks
        && !(if pc.pieceType = .king then decide (g.player = pl)
             else if pc.pieceType = .rook then decide (start = rookHome pl ks) else false)
        && !(decide (cap = some ⟨.rook, pl⟩) && decide (stop = rookHome pl ks))) := by
  rw [pushState_normal_rf]
  simp only []
  have h8 : ∀ s : GState, (s.setEnPassant start.col).right pl ks = s.right pl ks :=
    fun s => setEnPassant_right s _ hv.2.2.1 (by have := hv.2.2.2; omega) pl ks
  have hs0 := setEnPassant_right g.top 8 (by omega) (by omega) pl ks
  have hR : ∀ (P B : Bool) (s2 : GState),
      (if P = true then (if B = true then s2.setEnPassant start.col else s2) else s2).right pl ks
        = s2.right pl ks := by
    intro P B s2; cases P <;> cases B <;> simp [h8]
  rw [hR, clearCaptured_right]
  by_cases hk : pc.pieceType = .king
  · simp [hk, clearBoth_right, hs0]
  · by_cases hr : pc.pieceType = .rook
    · simp [hr, clearRookFrom_right, hs0]
    · simp [hk, hr, hs0]

/-- the engine (clearing by kind of piece) and the rules (clearing by squares touched) agree on
every castling right -/
theorem push_right_normal (hw : g.WF) (hke : g.kingExists g.player = true)
    (hf : g.Fits (.normal pc start stop cap))
    (hs : g.Shape (.normal pc start stop cap)) (pl : Player) (ks : Bool)
    (hh : pl = g.player.other → g.top.right pl ks = true → HomeSafeAt (.normal pc start stop cap) pl) :
    (pushState_rf g (.normal pc start stop cap)).right pl ks
      = (Spec.play g.abs (Move.toSpec (.normal pc start stop cap))).right pl ks := by
  rw [Spec.play_right (abs_at_start hf), abs_right, pushState_right_normal g pc start stop cap hf.1]
  apply bool_rights
  intro hr
  obtain ⟨hv1, hv2, hne, hg1, hg2, hk⟩ := hf
  obtain ⟨hcap, -, -⟩ := hs
  obtain ⟨hR, hK, hKe⟩ := rightsInv_right hw.rights hr
  simp only [Move.toSpec, spec_homeRow, Bool.or_eq_true, decide_eq_true_eq, sq_eq_iff,
    Bool.and_eq_true]
  show _ ↔ (((start = kingHome pl ∨ stop = kingHome pl) ∨ start = rookHome pl ks) ∨ stop = rookHome pl ks)
  constructor
  · rintro (h | ⟨h1, h2⟩)
    · by_cases hkk : pc.pieceType = .king
      · simp only [hkk, if_true, decide_eq_true_eq] at h
        left; left; left
        rw [← hK, ← h]; exact (hk hkk).symm
      · by_cases hrr : pc.pieceType = .rook
        · rw [if_neg hkk, if_pos hrr, decide_eq_true_eq] at h
          left; right; exact h
        · simp [hkk, hrr] at h
    · right; exact h2
  · rintro (((h | h) | h) | h)
    · -- the move starts on the king's home square
      rcases player_eq_or g pl with e | e
      · subst e
        have := hKe hke
        rw [← h, hg1] at this
        cases this
        left; simp
      · exact absurd ((sq_eq_iff _ _ _).2 h) (hh e hr).1
    · rcases player_eq_or g pl with e | e
      · subst e
        have := hKe hke
        rw [← h, hg2] at this
        exact absurd rfl (hcap _ this)
      · exact absurd ((sq_eq_iff _ _ _).2 h) (hh e hr).2
    · rw [← h, hg1] at hR
      cases hR
      left; simp [h]
    · rw [← h, hg2] at hR
      right; exact ⟨hR, h⟩

theorem pushState_ep_normal (g : Game) (pc : Piece) (start stop : Pos) (cap : Option Piece)
    (hv : start.Valid) :
    epOf (pushState_rf g (.normal pc start stop cap)) =
      if (decide (pc.pieceType = .pawn) && decide ((stop.row - start.row).natAbs = 2)
          && besideTest ((g.setPosition start none).setPosition stop (some pc)) stop pc.owner) = true
      then some start.col.toNat else none := by
  rw [pushState_normal_rf]
  simp only []
  have h8 : ∀ s : GState, epOf (s.setEnPassant start.col) = some start.col.toNat := by
    intro s
    unfold epOf
    rw [setEnPassant_ep s _ hv.2.2.1 (by have := hv.2.2.2; omega)]
    simp [hv.2.2.2]
  have hs2 : ∀ s1, epOf (clearCaptured s1 cap stop) = epOf s1 := by
    intro s1; unfold epOf; rw [clearCaptured_ep]
  have hs1 : epOf (if pc.pieceType = .king then clearBoth (g.top.setEnPassant 8) g.player
         else if pc.pieceType = .rook then clearRookFrom (g.top.setEnPassant 8) start
         else g.top.setEnPassant 8) = none := by
    rw [← epOf_reset g]
    unfold epOf
    split
    · rw [clearBoth_ep]
    · split
      · rw [clearRookFrom_ep]
      · rfl
  generalize (decide (pc.pieceType = .pawn) && decide ((stop.row - start.row).natAbs = 2)) = P
  generalize besideTest _ stop pc.owner = B
  cases P <;> cases B <;> simp [h8, hs2, hs1]

theorem push_ep_normal (hf : g.Fits (.normal pc start stop cap))
    (hs : g.Shape (.normal pc start stop cap)) :
    epOf (pushState_rf g (.normal pc start stop cap))
      = (Spec.play g.abs (Move.toSpec (.normal pc start stop cap))).ep := by
  rw [Spec.play_ep (abs_at_start hf), pushState_ep_normal g pc start stop cap hf.1]
  have hb : Spec.playBoard g.abs ⟨(start.row, start.col), (stop.row, stop.col), none⟩ pc
      = ((g.setPosition start none).setPosition stop (some pc)).board := by
    rw [← push_board_normal hf hs, push_board]
    simp only [applyMoveG]; split <;> simp
  simp only [Move.toSpec, hb, besideTest_eq _ stop hf.2.1]
  congr

/-- **`Normal` moves** -/
theorem refines_normal (hw : g.WF) (hke : g.kingExists g.player = true)
    (hf : g.Fits (.normal pc start stop cap)) (hs : g.Shape (.normal pc start stop cap)) :
    g.Refines (.normal pc start stop cap) := by
  refine ⟨?_, ?_, ?_, ?_⟩
  · rw [Spec.play_board (abs_at_start hf)]; exact push_board_normal hf hs
  · rw [Spec.play_side (abs_at_start hf)]; rfl
  · exact push_ep_normal hf hs
  · exact push_right_normal hw hke hf hs

end normal

/-! ## Promotions -/

section promotion
variable {g : Game} {o : Player} {t : PieceType} {start stop : Pos} {cap : Option Piece}

theorem abs_at_start_promo (hf : g.Fits (.promotion o t start stop cap)) :
    g.abs.at (start.row, start.col) = some ⟨.pawn, o⟩ := by
  rw [← g.get_eq_at start hf.1]; exact hf.2.2.2.1

theorem push_board_promotion (hf : g.Fits (.promotion o t start stop cap))
    (hs : g.Shape (.promotion o t start stop cap)) :
    (g.push (.promotion o t start stop cap)).board
      = Spec.playBoard g.abs ⟨(start.row, start.col), (stop.row, stop.col), some t⟩ ⟨.pawn, o⟩ := by
  obtain ⟨hv1, hv2, hne, hg1, hg2⟩ := hf
  obtain ⟨hcap, hcol, -, -⟩ := hs
  rw [push_board, Spec.playBoard_plain]
  · show _ = Spec.setSq (Spec.setSq g.board _ none) _ (some ⟨t, o⟩)
    rw [setSq_board g start hv1, setSq_board _ stop hv2]
    rfl
  · simp
  · by_cases hc : stop.col = start.col
    · simp [hc]
    · have := hcol hc
      rw [← g.get_eq_at stop hv2, hg2]
      cases cap
      · contradiction
      · simp

theorem bool_rights' {x e2 t1 t2 t3 t4 : Bool}
    (h : x = true → (e2 = true ↔ (t1 || t2 || t3 || t4) = true)) :
    (x && !e2) = (x && !(t1 || t2) && !(t3 || t4)) := by
  revert h; cases x <;> cases e2 <;> cases t1 <;> cases t2 <;> cases t3 <;> cases t4 <;> decide

theorem push_right_promotion (hw : g.WF) (hke : g.kingExists g.player = true)
    (hf : g.Fits (.promotion o t start stop cap))
    (hs : g.Shape (.promotion o t start stop cap)) (pl : Player) (ks : Bool)
    (hh : pl = g.player.other → g.top.right pl ks = true → HomeSafeAt (.promotion o t start stop cap) pl) :
    (pushState_rf g (.promotion o t start stop cap)).right pl ks
      = (Spec.play g.abs (Move.toSpec (.promotion o t start stop cap))).right pl ks := by
  rw [Spec.play_right (abs_at_start_promo hf), abs_right, pushState_promotion_rf, clearCaptured_right,
    setEnPassant_right g.top 8 (by omega) (by omega)]
  apply bool_rights'
  intro hr
  obtain ⟨hv1, hv2, hne, hg1, hg2⟩ := hf
  obtain ⟨hcap, -, -, -⟩ := hs
  obtain ⟨hR, hK, hKe⟩ := rightsInv_right hw.rights hr
  simp only [Move.toSpec, spec_homeRow, Bool.or_eq_true, decide_eq_true_eq, sq_eq_iff,
    Bool.and_eq_true]
  show _ ↔ (((start = kingHome pl ∨ stop = kingHome pl) ∨ start = rookHome pl ks) ∨ stop = rookHome pl ks)
  constructor
  · rintro ⟨h1, h2⟩
    right; exact h2
  · rintro (((h | h) | h) | h)
    · rcases player_eq_or g pl with e | e
      · subst e
        have := hKe hke
        rw [← h, hg1] at this
        cases this
      · exact absurd ((sq_eq_iff _ _ _).2 h) (hh e hr).1
    · rcases player_eq_or g pl with e | e
      · subst e
        have := hKe hke
        rw [← h, hg2] at this
        exact absurd rfl (hcap _ this)
      · exact absurd ((sq_eq_iff _ _ _).2 h) (hh e hr).2
    · rw [← h, hg1] at hR
      cases hR
    · rw [← h, hg2] at hR
      exact ⟨hR, h⟩

theorem push_ep_promotion (hf : g.Fits (.promotion o t start stop cap))
    (hs : g.Shape (.promotion o t start stop cap)) :
    epOf (pushState_rf g (.promotion o t start stop cap))
      = (Spec.play g.abs (Move.toSpec (.promotion o t start stop cap))).ep := by
  rw [Spec.play_ep (abs_at_start_promo hf), pushState_promotion_rf]
  have h1 : epOf (clearCaptured (g.top.setEnPassant 8) cap stop) = none := by
    rw [← epOf_reset g]; unfold epOf; rw [clearCaptured_ep]
  have h2 : (stop.row - start.row).natAbs ≠ 2 := by
    have := hs.2.2.1
    cases hp : g.player <;> rw [hp] at this <;> simp only [fwd] at this <;> omega
  rw [h1]
  simp [Move.toSpec, h2]

/-- **promotions** -/
theorem refines_promotion (hw : g.WF) (hke : g.kingExists g.player = true)
    (hf : g.Fits (.promotion o t start stop cap)) (hs : g.Shape (.promotion o t start stop cap)) :
    g.Refines (.promotion o t start stop cap) := by
  refine ⟨?_, ?_, ?_, ?_⟩
  · rw [Spec.play_board (abs_at_start_promo hf)]; exact push_board_promotion hf hs
  · rw [Spec.play_side (abs_at_start_promo hf)]; rfl
  · exact push_ep_promotion hf hs
  · exact push_right_promotion hw hke hf hs

end promotion

/-! ## En-passant captures -/

section enPassant
variable {g : Game} {o : Player} {sc ec : Int}

theorem toSpec_enPassant_rf (o : Player) (sc ec : Int) :
    Move.toSpec (.enPassant o sc ec)
      = ⟨((epSquares o sc ec).1.row, (epSquares o sc ec).1.col),
         ((epSquares o sc ec).2.1.row, (epSquares o sc ec).2.1.col), none⟩ := by
  cases o <;> rfl

theorem epSquares_taken (o : Player) (sc ec : Int) :
    (epSquares o sc ec).2.2 = ⟨(epSquares o sc ec).1.row, (epSquares o sc ec).2.1.col⟩ := by
  cases o <;> rfl

theorem epSquares_cols (o : Player) (sc ec : Int) :
    (epSquares o sc ec).1.col = sc ∧ (epSquares o sc ec).2.1.col = ec
      ∧ ((epSquares o sc ec).2.1.row - (epSquares o sc ec).1.row).natAbs = 1
      ∧ 1 ≤ (epSquares o sc ec).1.row ∧ (epSquares o sc ec).1.row ≤ 6
      ∧ 1 ≤ (epSquares o sc ec).2.1.row ∧ (epSquares o sc ec).2.1.row ≤ 6 := by
  cases o <;> simp [epSquares]

theorem abs_at_start_ep (hf : g.Fits (.enPassant o sc ec)) :
    g.abs.at ((epSquares o sc ec).1.row, (epSquares o sc ec).1.col) = some ⟨.pawn, o⟩ := by
  obtain ⟨h1, h2, h3, h4, hne, hold, hnew, htaken⟩ := hf
  rw [← g.get_eq_at _ (epSquares_valid o sc ec h1 h2 h3 h4).1]; exact hold

theorem push_board_enPassant (hf : g.Fits (.enPassant o sc ec)) :
    (g.push (.enPassant o sc ec)).board
      = Spec.playBoard g.abs (Move.toSpec (.enPassant o sc ec)) ⟨.pawn, o⟩ := by
  obtain ⟨h1, h2, h3, h4, hne, hold, hnew, htaken⟩ := hf
  obtain ⟨v1, v2, v3⟩ := epSquares_valid o sc ec h1 h2 h3 h4
  obtain ⟨n1, n2, n3⟩ := epSquares_ne o sc ec hne
  obtain ⟨c1, c2, -⟩ := epSquares_cols o sc ec
  rw [push_board, toSpec_enPassant_rf, Spec.playBoard_ep]
  · show _ = Spec.setSq (Spec.setSq (Spec.setSq g.board _ none) _ (some ⟨.pawn, o⟩)) _ none
    rw [setSq_board g _ v1, setSq_board _ _ v2]
    have := setSq_board ((g.setPosition (epSquares o sc ec).1 none).setPosition (epSquares o sc ec).2.1
      (some ⟨.pawn, o⟩)) (epSquares o sc ec).2.2 v3 none
    rw [epSquares_taken] at this v3 n2 n3
    simp only at this
    rw [this]
    simp only [applyMoveG]
    rw [epSquares_taken]
    exact board3 g v1 v2 v3 n1 n2 n3 none (some ⟨.pawn, o⟩) none
  · simp
  · simp only [decide_true, Bool.true_and, Bool.and_eq_true, decide_eq_true_eq]
    rw [← g.get_eq_at _ v2, hnew, c1, c2]
    exact ⟨by omega, rfl⟩

theorem push_right_enPassant (hf : g.Fits (.enPassant o sc ec)) (pl : Player) (ks : Bool) :
    (pushState_rf g (.enPassant o sc ec)).right pl ks
      = (Spec.play g.abs (Move.toSpec (.enPassant o sc ec))).right pl ks := by
  have hat' : g.abs.at (Move.toSpec (.enPassant o sc ec)).src = some ⟨.pawn, o⟩ := by
    rw [toSpec_enPassant_rf]; exact abs_at_start_ep hf
  rw [Spec.play_right hat', abs_right, pushState_enPassant_rf,
    setEnPassant_right g.top 8 (by omega) (by omega)]
  cases o <;> cases pl <;> simp [Move.toSpec, Spec.homeRow]

theorem push_ep_enPassant (hf : g.Fits (.enPassant o sc ec)) :
    epOf (pushState_rf g (.enPassant o sc ec))
      = (Spec.play g.abs (Move.toSpec (.enPassant o sc ec))).ep := by
  have hat' : g.abs.at (Move.toSpec (.enPassant o sc ec)).src = some ⟨.pawn, o⟩ := by
    rw [toSpec_enPassant_rf]; exact abs_at_start_ep hf
  rw [Spec.play_ep hat', pushState_enPassant_rf, epOf_reset]
  cases o <;> simp [Move.toSpec]

/-- **en-passant captures** (no side condition at all) -/
theorem refines_enPassant (hf : g.Fits (.enPassant o sc ec)) : g.Refines (.enPassant o sc ec) := by
  have hat' : g.abs.at (Move.toSpec (.enPassant o sc ec)).src = some ⟨.pawn, o⟩ := by
    rw [toSpec_enPassant_rf]; exact abs_at_start_ep hf
  refine ⟨?_, ?_, ?_, ?_⟩
  · rw [Spec.play_board hat']; exact push_board_enPassant hf
  · rw [Spec.play_side hat']; rfl
  · exact push_ep_enPassant hf
  · exact fun pl ks _ => push_right_enPassant hf pl ks

end enPassant

/-! ## Castling -/

section castling
variable {g : Game} {o : Player}

theorem homeRow_ne_rf (o : Player) {c d : Int} (h : c ≠ d) : (⟨homeRow o, c⟩ : Pos) ≠ ⟨homeRow o, d⟩ := by
  simp [h]

theorem abs_at_king (hk : g.get ⟨homeRow o, 4⟩ = some ⟨.king, o⟩) :
    g.abs.at (homeRow o, 4) = some ⟨.king, o⟩ := by
  rw [← hk]; exact (g.get_eq_at ⟨homeRow o, 4⟩ (homeRow_valid o 4 (by omega) (by omega))).symm

theorem push_board_castlingShort :
    (g.push (.castlingShort o)).board
      = Spec.playBoard g.abs (Move.toSpec (.castlingShort o)) ⟨.king, o⟩ := by
  have v4 := homeRow_valid o 4 (by omega) (by omega)
  have v5 := homeRow_valid o 5 (by omega) (by omega)
  have v6 := homeRow_valid o 6 (by omega) (by omega)
  have v7 := homeRow_valid o 7 (by omega) (by omega)
  rw [push_board, Spec.playBoard_castle rfl (by simp [Move.toSpec])]
  simp only [Move.toSpec, (by omega : (6 : Int) - 4 > 0), if_true]
  show _ = Spec.setSq (Spec.setSq (Spec.setSq (Spec.setSq g.board _ none) _ (some ⟨.king, o⟩)) _ none) _
    (some ⟨.rook, o⟩)
  rw [setSq_board g ⟨homeRow o, 4⟩ v4, setSq_board _ ⟨homeRow o, 6⟩ v6, setSq_board _ ⟨homeRow o, 7⟩ v7,
    setSq_board _ ⟨homeRow o, 5⟩ v5]
  simp only [applyMoveG, setKingPos_board]
  exact board4 g v7 v4 v5 v6 (homeRow_ne_rf o (by omega)) (homeRow_ne_rf o (by omega)) (homeRow_ne_rf o (by omega))
    (homeRow_ne_rf o (by omega)) (homeRow_ne_rf o (by omega)) (homeRow_ne_rf o (by omega)) _ _ _ _

theorem push_board_castlingLong :
    (g.push (.castlingLong o)).board
      = Spec.playBoard g.abs (Move.toSpec (.castlingLong o)) ⟨.king, o⟩ := by
  have v4 := homeRow_valid o 4 (by omega) (by omega)
  have v3 := homeRow_valid o 3 (by omega) (by omega)
  have v2 := homeRow_valid o 2 (by omega) (by omega)
  have v0 := homeRow_valid o 0 (by omega) (by omega)
  rw [push_board, Spec.playBoard_castle rfl (by simp [Move.toSpec])]
  simp only [Move.toSpec]
  show _ = Spec.setSq (Spec.setSq (Spec.setSq (Spec.setSq g.board _ none) _ (some ⟨.king, o⟩)) _ none) _
    (some ⟨.rook, o⟩)
  rw [setSq_board g ⟨homeRow o, 4⟩ v4, setSq_board _ ⟨homeRow o, 2⟩ v2, setSq_board _ ⟨homeRow o, 0⟩ v0,
    setSq_board _ ⟨homeRow o, 3⟩ v3]
  simp only [applyMoveG, setKingPos_board]
  exact board4 g v0 v4 v3 v2 (homeRow_ne_rf o (by omega)) (homeRow_ne_rf o (by omega)) (homeRow_ne_rf o (by omega))
    (homeRow_ne_rf o (by omega)) (homeRow_ne_rf o (by omega)) (homeRow_ne_rf o (by omega)) _ _ _ _

theorem bool_castle {x e t1 t2 t3 t4 : Bool} (h : e = (t1 || t2 || t3 || t4)) :
    (x && !e) = (x && !(t1 || t2) && !(t3 || t4)) := by
  subst h; cases x <;> cases t1 <;> cases t2 <;> cases t3 <;> cases t4 <;> rfl

theorem push_right_castlingShort (hf : g.Fits (.castlingShort o)) (pl : Player) (ks : Bool) :
    (pushState_rf g (.castlingShort o)).right pl ks
      = (Spec.play g.abs (Move.toSpec (.castlingShort o))).right pl ks := by
  have hat : g.abs.at (Move.toSpec (.castlingShort o)).src = some ⟨.king, o⟩ := abs_at_king hf.2.2.1
  rw [Spec.play_right hat, abs_right, pushState_castlingShort_rf, clearBoth_right,
    setEnPassant_right g.top 8 (by omega) (by omega), ← hf.1]
  apply bool_castle
  cases o <;> cases pl <;> cases ks <;> simp [Move.toSpec, Spec.homeRow, homeRow]

theorem push_right_castlingLong (hf : g.Fits (.castlingLong o)) (pl : Player) (ks : Bool) :
    (pushState_rf g (.castlingLong o)).right pl ks
      = (Spec.play g.abs (Move.toSpec (.castlingLong o))).right pl ks := by
  have hat : g.abs.at (Move.toSpec (.castlingLong o)).src = some ⟨.king, o⟩ := abs_at_king hf.2.2.1
  rw [Spec.play_right hat, abs_right, pushState_castlingLong_rf, clearBoth_right,
    setEnPassant_right g.top 8 (by omega) (by omega), ← hf.1]
  apply bool_castle
  cases o <;> cases pl <;> cases ks <;> simp [Move.toSpec, Spec.homeRow, homeRow]

theorem epOf_clearBoth_reset (g : Game) (pl : Player) :
    epOf (clearBoth (g.top.setEnPassant 8) pl) = none := by
  rw [← epOf_reset g]; unfold epOf; rw [clearBoth_ep]

/-- **castling, king's side** (no side condition at all) -/
theorem refines_castlingShort (hf : g.Fits (.castlingShort o)) : g.Refines (.castlingShort o) := by
  have hat : g.abs.at (Move.toSpec (.castlingShort o)).src = some ⟨.king, o⟩ := abs_at_king hf.2.2.1
  refine ⟨?_, ?_, ?_, ?_⟩
  · rw [Spec.play_board hat]; exact push_board_castlingShort
  · rw [Spec.play_side hat]; rfl
  · rw [Spec.play_ep hat, pushState_castlingShort_rf, epOf_clearBoth_reset]
    simp
  · exact fun pl ks _ => push_right_castlingShort hf pl ks

/-- **castling, queen's side** (no side condition at all) -/
theorem refines_castlingLong (hf : g.Fits (.castlingLong o)) : g.Refines (.castlingLong o) := by
  have hat : g.abs.at (Move.toSpec (.castlingLong o)).src = some ⟨.king, o⟩ := abs_at_king hf.2.2.1
  refine ⟨?_, ?_, ?_, ?_⟩
  · rw [Spec.play_board hat]; exact push_board_castlingLong
  · rw [Spec.play_side hat]; rfl
  · rw [Spec.play_ep hat, pushState_castlingLong_rf, epOf_clearBoth_reset]
    simp
  · exact fun pl ks _ => push_right_castlingLong hf pl ks

end castling

/-! ## The refinement square -/

variable {g : Game} {m : Move}

theorem refines_of_fits (hw : g.WF) (hke : g.kingExists g.player = true) (hf : g.Fits m)
    (hs : g.Shape m) : g.Refines m := by
  cases m with
  | normal pc start stop cap => exact refines_normal hw hke hf hs
  | promotion o t start stop cap => exact refines_promotion hw hke hf hs
  | enPassant o sc ec => exact refines_enPassant hf
  | castlingShort o => exact refines_castlingShort hf
  | castlingLong o => exact refines_castlingLong hf

/-- **every generated move (checked or not) refines the rules field by field** -/
theorem generated_refines (hw : g.WF) (hm : m ∈ g.pseudoMoves) : g.Refines m :=
  refines_of_fits hw (generated_kingExists hm) (generated_fits hw hm).1 (generated_shape_rf hw hm)

theorem Refines.abs_eq (h : g.Refines m) (hh : g.HomeSafe m) :
    (g.push m).abs = Spec.play g.abs m.toSpec :=
  abs_push_eq g m h.board h.side (fun pl ks => h.right pl ks (fun e hr => by subst e; exact hh ks hr)) h.ep

/-- **C02, the refinement square.** For every generated move — checked or unchecked — that does
not touch the home square of a king of the side not to move that still has a castling right,
the engine's successor position is the one the rules prescribe. -/
theorem push_abs (hw : g.WF) (hm : m ∈ g.pseudoMoves) (hh : g.HomeSafe m) :
    (g.push m).abs = Spec.play g.abs m.toSpec :=
  (generated_refines hw hm).abs_eq hh

/-- Without any side condition: board, side to move, en-passant file and the mover's own two
castling rights are the prescribed ones. (Only the rights of the side *not* to move can differ,
and only under `¬ HomeSafe`; see `king_capture_rights_differ` and the executed counterexample in
`RefineCor.lean`.) -/
theorem push_abs_weak (hw : g.WF) (hm : m ∈ g.pseudoMoves) :
    (g.push m).abs.board = (Spec.play g.abs m.toSpec).board
    ∧ (g.push m).abs.side = (Spec.play g.abs m.toSpec).side
    ∧ (g.push m).abs.ep = (Spec.play g.abs m.toSpec).ep
    ∧ ∀ ks, (g.push m).abs.right g.player ks = (Spec.play g.abs m.toSpec).right g.player ks := by
  have h := generated_refines hw hm
  refine ⟨h.board, ?_, ?_, fun ks => ?_⟩
  · show (g.push m).player = _
    rw [push_player]; exact h.side
  · rw [abs_ep_rf, push_top_rf]; exact h.ep
  · rw [abs_right, push_top_rf]
    exact h.right g.player ks (fun e => absurd e (Player.ne_other _))

/-! ### The side condition in terms of king captures -/

/-- the arrival square of the move does not hold a king -/
def NoKingCapture (g : Game) (m : Move) : Prop :=
  ∀ pc, g.abs.at m.toSpec.dst = some pc → pc.pieceType ≠ .king

/-- the start square of a generated move holds a piece of the side to move -/
theorem src_mover (hf : g.Fits m) (hm : g.MoverOk m) :
    ∃ pc, g.abs.at m.toSpec.src = some pc ∧ pc.owner = g.player := by
  cases m with
  | normal pc start stop cap => exact ⟨pc, abs_at_start hf, hm.1⟩
  | promotion o t start stop cap => exact ⟨_, abs_at_start_promo hf, hm.1⟩
  | enPassant o sc ec =>
    refine ⟨⟨.pawn, o⟩, ?_, hm.1⟩
    rw [toSpec_enPassant_rf]; exact abs_at_start_ep hf
  | castlingShort o => exact ⟨⟨.king, o⟩, abs_at_king hf.2.2.1, hf.1⟩
  | castlingLong o => exact ⟨⟨.king, o⟩, abs_at_king hf.2.2.1, hf.1⟩

/-- with the other side's king on the board, "no king is captured" implies the side condition -/
theorem homeSafe_of_noKingCapture (hw : g.WF) (hko : g.kingExists g.player.other = true)
    (hf : g.Fits m) (hm : g.MoverOk m) (hn : g.NoKingCapture m) : g.HomeSafe m := by
  intro ks hr
  obtain ⟨-, -, hKe⟩ := rightsInv_right hw.rights hr
  have hk : g.abs.at (homeRow g.player.other, 4) = some ⟨.king, g.player.other⟩ := by
    rw [← hKe hko]
    exact (g.get_eq_at ⟨homeRow g.player.other, 4⟩ (homeRow_valid _ 4 (by omega) (by omega))).symm
  constructor
  · intro e
    obtain ⟨pc, h1, h2⟩ := src_mover hf hm
    rw [e, hk] at h1
    cases h1
    exact absurd h2 (Player.other_ne _)
  · intro e
    exact hn _ (e ▸ hk) rfl

/-- **C02 for moves that do not capture a king** (both kings on the board) -/
theorem push_abs_noKingCapture (hw : g.WF) (hko : g.kingExists g.player.other = true)
    (hm : m ∈ g.pseudoMoves) (hn : g.NoKingCapture m) :
    (g.push m).abs = Spec.play g.abs m.toSpec :=
  push_abs hw hm (homeSafe_of_noKingCapture hw hko (generated_fits hw hm).1 (generated_fits hw hm).2 hn)

/-- **C02 for the checked list** -/
theorem push_abs_checked (hw : g.WF) (hm : m ∈ (g.getMoves true).1) (hh : g.HomeSafe m) :
    (g.push m).abs = Spec.play g.abs m.toSpec :=
  push_abs hw (getMoves_subset hw true hm) hh

theorem push_abs_checked_noKingCapture (hw : g.WF) (hko : g.kingExists g.player.other = true)
    (hm : m ∈ (g.getMoves true).1) (hn : g.NoKingCapture m) :
    (g.push m).abs = Spec.play g.abs m.toSpec :=
  push_abs_noKingCapture hw hko (getMoves_subset hw true hm) hn

end Game
end Chess

#print axioms Chess.Game.generated_shape_rf
#print axioms Chess.Game.generated_refines
#print axioms Chess.Game.push_abs
#print axioms Chess.Game.push_abs_weak
#print axioms Chess.Game.push_abs_noKingCapture
#print axioms Chess.Game.push_abs_checked
#print axioms Chess.Game.push_abs_checked_noKingCapture
