import Chess.Lemmas.Mate2Aux7

/-!
# Mate in two with the table switched off: node, root, driver — every game, null-window re-search
included
-/
namespace Chess.Search.Mate2
open Chess.Search Chess.Search.Mate

variable {G M : Type}

theorem not_winP_of_le_one {o : Ops G M} {r : Nat} (hr : r ≤ 1) (x : G) : ¬ WinP o r x := by
  rintro ⟨m, _, h⟩
  match r, hr, h with
  | 0, _, h => exact h
  | 1, _, h => exact h

theorem not_loseP_of_le_one {o : Ops G M} {r : Nat} (hr : r ≤ 1) (x : G) : ¬ LoseP o r x := by
  intro h
  match r, hr, h with
  | 0, _, h => exact h
  | 1, _, h => exact h

theorem of_rngP {o : Ops G M} {rem : Nat} (hrem : rem ≤ 1) (x : G) {a b v : Int}
    (h : Rng a b v) : RngS a b v ∧ ClaimsP o rem x a b v ∧ ComplP o rem x a b v := by
  have := evalBound_le_mS
  unfold Rng at h
  exact ⟨by unfold RngS; omega, ⟨Or.inl h.2, Or.inl h.1⟩,
    ⟨fun k => absurd k (not_winP_of_le_one hrem x), fun k => absurd k (not_loseP_of_le_one hrem x)⟩⟩

theorem OffOk.poll {D : Nat} {st : St M} (h : OffOk D st) :
    OffOk D (pollSt st) ∧ ∀ k, ttGet (pollSt st) k = none := by
  have e : (pollSt st).tt = {} := by simp [pollSt, h.1]
  refine ⟨⟨h.1, fun k e' he => ?_⟩, fun k => ?_⟩
  · rw [e, Std.HashMap.getElem?_empty] at he; cases he
  · show (pollSt st).tt[k]? = none
    rw [e]; exact Std.HashMap.getElem?_empty

theorem OffOk.insert {D : Nat} {st : St M} (h : OffOk D st) (k : UInt64) (e : Entry M)
    (he : e.depth ≤ D) : OffOk D { st with tt := st.tt.insert k e } := by
  refine ⟨h.1, fun k' e' he' => ?_⟩
  simp only [] at he'
  rw [Std.HashMap.getElem?_insert] at he'
  split at he'
  · cases he'; exact he
  · exact h.2 k' e' he'

theorem OffOk.nodeStore {D : Nat} {st : St M} (h : OffOk D st) (k : UInt64) (d : Nat)
    (e : Entry M) (he : e.depth ≤ D) : OffOk D (nodeStore k d e st) := by
  unfold Chess.Search.nodeStore
  split
  · split
    · exact h.insert k e he
    · exact h
  · exact h.insert k e he

theorem OffOk.rootStore {D : Nat} {st : St M} (h : OffOk D st) (k : UInt64) (d : Nat)
    (e : Entry M) (he : e.depth ≤ D) : OffOk D (rootStore k d e st) := by
  unfold Chess.Search.rootStore
  split
  · split
    · exact h.insert k e he
    · exact h
  · exact h.insert k e he

theorem OffOk.mono {D D' : Nat} {st : St M} (h : OffOk D st) (hd : D ≤ D') : OffOk D' st :=
  ⟨h.1, fun k e he => Nat.le_trans (h.2 k e he) hd⟩

variable [DecidableEq M]

/-- **The contract of a node with the table off**, in every game, at every depth, for every window
in the 16-bit range: the value is in range, sound and complete for the depth-indexed notions. -/
theorem node_off (o : Ops G M) (hb : Bounded o) (D : Nat) {runs : Nat → Bool}
    (hr : ∀ i, runs i = true) :
    ∀ (rem : Nat) (x : G) (rd : Int), 0 ≤ rd → rd + rem ≤ 600 → rem ≤ D →
      ChildOff o D (node o runs rem) rem x rd := by
  intro rem
  induction rem using Nat.strongRecOn with
  | _ rem ih =>
    intro x rd h0 h1 hD a b st ha hb' hQ
    rw [node_eq]
    simp only [hr, Bool.not_true, Bool.false_eq_true, if_false]
    obtain ⟨hQ1, hnone⟩ := hQ.poll
    rw [hnone]
    simp only [ttCut]
    match rem, ih, h1, hD with
    | 0, _, h1, _ =>
      have k := of_rngP (o := o) (rem := 0) (by omega) x
        (qsearch_rng o hb qFuel x a b rd h0 (by unfold qFuel; omega))
      exact ⟨_, _, rfl, hQ1, k.1, k.2.1, k.2.2⟩
    | 1, _, h1, _ =>
      have k := of_rngP (o := o) (rem := 1) (by omega) x (depth1_rng o hb x a b rd h0 (by omega))
      exact ⟨_, _, rfl, hQ1, k.1, k.2.1, k.2.2⟩
    | r + 2, ih, h1, hD =>
      by_cases he : (o.checked x).isEmpty = true
      · simp only [he, if_true]
        have hnil : o.checked x = [] := List.isEmpty_iff.1 he
        have nw : ¬ WinP o (r + 2) x := by
          rintro ⟨m, hm, _⟩; rw [hnil] at hm; cases hm
        cases hsafe : o.safe x with
        | true =>
          simp only [if_true]
          have nl : ¬ LoseP o (r + 2) x := by
            rintro (k | k)
            · rw [k.2] at hsafe; cases hsafe
            · exact k.1 hnil
          refine ⟨_, _, rfl, hQ1, ?_, ⟨Or.inl ?_, Or.inl ?_⟩,
            ⟨fun k => absurd k nw, fun k => absurd k nl⟩⟩
          · unfold RngS; simp only [mS, scoreMin, Gen.mateNode]; omega
          · simp only [evalBound, scoreMax, Gen.exitHi]; omega
          · simp only [evalBound, scoreMax, Gen.exitHi]; omega
        | false =>
          simp only [Bool.false_eq_true, if_false]
          refine ⟨_, _, rfl, hQ1, ?_, ⟨Or.inl ?_, Or.inr (Or.inl ⟨hnil, hsafe⟩)⟩,
            ⟨fun k => absurd k nw, fun _ => ?_⟩⟩
          · unfold RngS; simp only [mS, scoreMin, Gen.mateNode]; omega
          · simp only [evalBound, scoreMax, scoreMin, Gen.exitHi, Gen.mateNode]; omega
          · simp only [evalBound, scoreMax, scoreMin, Gen.exitHi, Gen.mateNode]; omega
      · simp only [he]
        have hne : o.checked x ≠ [] := fun h => he (by rw [h]; rfl)
        have hnm : ¬ Mated o x := fun k => hne k.1
        have hmem : ∀ m, m ∈ nodeMoves o x rd (pollSt st) ↔ m ∈ o.checked x :=
          fun m => mem_sortMoves _ _ m
        have hch : ∀ m ∈ nodeMoves o x rd (pollSt st), m ∈ o.checked x ∧
            ChildOff o D (node o runs (r + 1)) (r + 1) (o.push x m) (rd + 1) := by
          intro m hm
          exact ⟨(hmem m).1 hm, ih (r + 1) (by omega) (o.push x m) (rd + 1) (by omega)
            (by omega) (by omega)⟩
        have hI0 : OInv o (r + 1) x a b True
            (∃ m ∈ nodeMoves o x rd (pollSt st), LoseP o (r + 1) (o.push x m)) True a
            scoreMin := by
          refine ⟨Int.le_refl _, Int.le_refl _, ha, by omega, Or.inl trivial, Or.inl (by omega),
            Or.inl trivial, fun hw => Or.inl ?_, fun _ => by omega⟩
          obtain ⟨m, hm, hL⟩ := hw
          exact ⟨m, (hmem m).2 hm, hL⟩
        by_cases hab : a < b
        · obtain ⟨out, k1, k2, k3⟩ := nodeLoop_off o D (node o runs (r + 1)) x (r + 1) rd a b
            hb' ha (nodeMoves o x rd (pollSt st)) hch 0 a scoreMin none (pollSt st) True True
            (fun _ => rfl) hQ1 hab hI0
          rw [k1]
          simp only []
          have hmne : nodeMoves o x rd (pollSt st) ≠ [] := sortMoves_ne hne
          have nL : min b (-mS) ≤ out.alpha := by
            rcases k3.nL with k | k
            · exact absurd k.2 hmne
            · exact k
          refine ⟨_, _, rfl, k2.nodeStore _ _ _ hD, ⟨nL, k3.nU⟩, ⟨k3.cU, ?_⟩, ⟨fun hw => ?_,
            fun hl => ?_⟩⟩
          · rcases k3.cL with k | k
            · exact Or.inr (Or.inr ⟨hne, fun m hm => k.2 m ((hmem m).2 hm)⟩)
            · exact Or.inl k
          · rcases k3.cW hw with k | k | k
            · exact k.elim
            · omega
            · omega
          · rcases hl with k | ⟨_, k⟩
            · exact absurd k hnm
            · exact k3.cLo (fun m hm => k m hm)
        · -- an empty or inverted window: the first move cuts
          cases hms : nodeMoves o x rd (pollSt st) with
          | nil => exact absurd hms (sortMoves_ne hne)
          | cons m ms =>
            have hm' : m ∈ nodeMoves o x rd (pollSt st) := by rw [hms]; exact List.mem_cons_self
            obtain ⟨hm, hcm⟩ := hch m hm'
            have hsm : scoreMin = -32768 := rfl
            obtain ⟨v, st1, he1, hQ2, r1, c1, p1⟩ := hcm (-b) (-a) (pollSt st) (by omega)
              (by omega) hQ1
            rw [nodeLoop_cons]
            have hstep : nodeStep o (node o runs (r + 1)) x rd b m 0 a scoreMin none (pollSt st) =
                some (max a (-v), (if -v > scoreMin then (-v, some m) else (scoreMin, none)).1,
                  (if -v > scoreMin then (-v, some m) else (scoreMin, none)).2, st1) := by
              unfold nodeStep
              simp only []
              rw [if_pos (Nat.zero_le _), he1]
            rw [hstep]
            simp only []
            have hcut : max a (-v) ≥ b := by omega
            rw [if_pos hcut]
            simp only []
            have hE := evalBound_le_mS
            unfold RngS at r1
            refine ⟨_, _, rfl, ?_, ⟨by omega, by omega⟩, ⟨?_, Or.inl (by omega)⟩,
              ⟨fun _ => by omega, fun hl => ?_⟩⟩
            · apply OffOk.nodeStore _ _ _ _ hD
              cases o.histIdx m <;> exact hQ2
            · rcases c1.2 with k | k
              · exact Or.inl (by omega)
              · exact Or.inr (WinP.of_move hm k)
            · rcases hl with k | ⟨_, k⟩
              · exact absurd k hnm
              · have := p1.1 (k m hm)
                omega

end Chess.Search.Mate2
