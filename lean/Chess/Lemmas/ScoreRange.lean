import Chess.Lemmas.ScoreRangeAux2

/-!
# The evaluation score never leaves `i16` (open part of C16)

The Rust engine keeps `score : i16` and updates it incrementally: `set_position` does
`self.score -= old; … ; self.score += new`, `push` calls it 2–4 times, `update_phase` twice.
The model computes in `Int`.  This file shows that on every reachable game the score, and every
value the field `score` takes between two half-steps of `set_position`, lies in `[-B, B]`,
`B = 30565 < 32767`, so that the wrapping arithmetic of the code and the unbounded arithmetic of
the model cannot diverge.

* `MaterialInv`      — per side at most one king, pawns + promoted surplus ≤ 8 (the reader's check,
                       with "exactly one king" weakened to "at most one": unchecked search lines
                       can capture a king)
* `ofFen_material`, `push_material`, `pushHistory_material`, `reach_material`
* `Mid`              — what holds between any two half-steps: score = sum of the cache, every cached
                       contribution is a table entry of what stands on its square, `MaterialInv`
* `score_range`, `score_fits_i16`
* `trace`, `pushTrace`, `phaseTrace`, `pushHistoryTrace` — the values `self.score` passes through
* `push_intermediate_fits`, `updatePhase_intermediate_fits`, `pushHistory_intermediate_fits`
* `eval_fits`, `neg_eval_fits`, `neg_score_fits`
-/
namespace Chess.Range

open Chess Chess.Game

/-! ## 1. The material invariant -/

/-- **per side: at most one king, and pawns + promoted surplus at most 8**, where the surplus is
`(Q−1)⁺ + (R−2)⁺ + (B−2)⁺ + (N−2)⁺`; counts by the FEN reader's own `countPieces` -/
def MaterialInv (g : Game) : Prop := MaterialOk g.board

theorem materialInv_iff (g : Game) :
    MaterialInv g ↔ ∀ pl : Player,
      countPieces g.board pl .king ≤ 1 ∧
      countPieces g.board pl .pawn
        + ((countPieces g.board pl .queen - 1) + (countPieces g.board pl .rook - 2)
          + (countPieces g.board pl .bishop - 2) + (countPieces g.board pl .knight - 2)) ≤ 8 := by
  constructor
  · intro h pl; cases pl; exact h.1; exact h.2
  · intro h; exact ⟨h .white, h .black⟩

/-- the check of the reader (exactly one king) is the invariant with `= 1` for `≤ 1` -/
theorem materialInv_of_check {g : Game} (hw : materialOkSide g.board .white = true)
    (hb : materialOkSide g.board .black = true) : MaterialInv g :=
  ⟨sideOkB_of_check hw, sideOkB_of_check hb⟩

/-- **(a) an imported game satisfies the invariant** -/
theorem ofFen_material {s : List Char} {g : Game} (h : Game.ofFen s = .ok g) : MaterialInv g := by
  obtain ⟨hw, hb, -⟩ := Bounds.ofFen_material h
  exact materialInv_of_check hw hb

/-- **(b) `push` of a fitting move that does not promote to a king keeps it** -/
theorem push_material {g : Game} {m : Move} (hf : g.Fits m) (hp : PromoOk m) (hm : MaterialInv g) :
    MaterialInv (g.push m) := push_materialOk hf hp hm

theorem push_material' {g : Game} {m : Move} (hf : g.Fits m) (hx : g.MoverOk m) (hm : MaterialInv g) :
    MaterialInv (g.push m) := push_material hf (promoOk_of_moverOk hx) hm

theorem updatePhase_material {g : Game} (hm : MaterialInv g) : MaterialInv g.updatePhase := by
  unfold MaterialInv; rw [Bounds.updatePhase_board']; exact hm

/-- **(b') `push_history` keeps it** -/
theorem pushHistory_material {g : Game} {m : Move} (hf : g.Fits m) (hp : PromoOk m)
    (hm : MaterialInv g) : MaterialInv (g.pushHistory m) := by
  unfold Game.pushHistory
  exact push_material (Bounds.fits_record hf) hp
    (updatePhase_material (g := { g with moveStack := m :: g.moveStack }) hm)

/-- **every reachable game satisfies the material invariant** -/
theorem reach_material {g : Game} (h : Reach g) : MaterialInv g := by
  induction h with
  | imported s g hok => exact ofFen_material hok
  | played g m hr hm ih =>
    have hf := Game.getMoves_fits (reach_wf hr) true hm
    exact pushHistory_material hf.1 (promoOk_of_moverOk hf.2) ih
  | searched g m b hr hm ih =>
    have hf := Game.getMoves_fits (reach_wf hr) b hm
    exact push_material hf.1 (promoOk_of_moverOk hf.2) ih

/-! ## 2. What holds between any two half-steps, and the numeric bound -/

/-- the state of the score bookkeeping that every half-step of `set_position` preserves — also in
the middle of `update_phase`, where the cache mixes the two king tables and `WF` is suspended -/
structure Mid (g : Game) : Prop where
  sum : g.score = sumAll g.pastScores
  bdd : CacheBounded g.board g.pastScores
  mat : MaterialOk g.board

/-- **the bound**: `-B ≤ score ≤ B` -/
theorem Mid.range {g : Game} (h : Mid g) : -B ≤ g.score ∧ g.score ≤ B := by
  rw [h.sum]; exact sum_range h.bdd h.mat

theorem mid_of_wf {g : Game} (hw : g.WF) (hm : MaterialInv g) : Mid g where
  sum := by have := hw.resScore; unfold Game.resScore at this; omega
  bdd := by
    intro i hi
    rw [hw.cache.scores i hi]
    exact placeScore_bounded _ _ _
  mat := hm

/-- the phase flag does not enter `Mid` -/
theorem mid_setEndgame {g : Game} (h : Mid g) (e : Bool) : Mid { g with endgame := e } :=
  ⟨h.sum, h.bdd, h.mat⟩

theorem mid_congr {g g' : Game} (h : Mid g) (hs : g'.score = g.score)
    (hp : g'.pastScores = g.pastScores) (hb : g'.board = g.board) : Mid g' :=
  ⟨by rw [hs, hp]; exact h.sum, by rw [hb, hp]; exact h.bdd, by rw [hb]; exact h.mat⟩

/-- one `set_position`, on any square, with anything, as long as the material stays possible -/
theorem mid_setPosition {g : Game} (h : Mid g) (p : Pos) (x : Option Piece)
    (hm : MaterialOk (bset g.board p x)) : Mid (g.setPosition p x) := by
  by_cases hp : p.idx < 64
  · have hb : (g.setPosition p x).board = g.board.set p.idx x hp := by
      unfold setPosition; simp [hp]
    have hps : (g.setPosition p x).pastScores = g.pastScores.set p.idx (placeScore p g.endgame x) hp := by
      unfold setPosition; simp [hp]
    have hsc : (g.setPosition p x).score = g.score - g.pastScores[p.idx] + placeScore p g.endgame x := by
      unfold setPosition; simp [hp]
    refine ⟨?_, ?_, ?_⟩
    · rw [hsc, hps, sumAll_set, h.sum]
    · intro i hi
      rw [hb, hps]
      by_cases e : p.idx = i
      · subst e
        simp only [Vector.getElem_set_self]
        exact placeScore_bounded _ _ _
      · rw [Vector.getElem_set_ne _ _ e, Vector.getElem_set_ne _ _ e]
        exact h.bdd i hi
    · rw [setPosition_board_eq]; exact hm
  · have : g.setPosition p x = g := by unfold setPosition; simp [hp]
    rw [this]; exact h

theorem mid_setPosition_none {g : Game} (h : Mid g) (p : Pos) : Mid (g.setPosition p none) :=
  mid_setPosition h p none (materialOk_bset_none h.mat p)

/-! ## 3. The values `self.score` passes through -/

/-- the two values the field takes inside one `set_position`: after `self.score -= *place_score`
and after `self.score += *place_score` (nothing happens off the board; C15 shows that never occurs) -/
def setSteps (g : Game) (p : Pos) (x : Option Piece) : List Int :=
  if h : p.idx < 64 then
    [g.score - g.pastScores[p.idx], g.score - g.pastScores[p.idx] + placeScore p g.endgame x]
  else []

/-- the values the field takes during a sequence of `set_position` calls -/
def trace (g : Game) : List (Pos × Option Piece) → List Int
  | [] => []
  | (p, x) :: l => setSteps g p x ++ trace (g.setPosition p x) l

/-- the first half-step is the score of the game with the square emptied, the second is the score
`set_position` leaves -/
theorem setSteps_eq (g : Game) (p : Pos) (x : Option Piece) (hp : p.idx < 64) :
    setSteps g p x = [(g.setPosition p none).score, (g.setPosition p x).score] := by
  unfold setSteps setPosition
  simp [hp, placeScore]

/-- the trace ends with the score the model computes (so it is the trace of *this* computation) -/
theorem trace_getLast (g : Game) (l : List (Pos × Option Piece)) :
    ((trace g l).getLast?).getD g.score = (g.setMany l).score := by
  induction l generalizing g with
  | nil => rfl
  | cons e l ih =>
    obtain ⟨p, x⟩ := e
    rw [trace, setMany, ← ih]
    by_cases hp : p.idx < 64
    · rw [setSteps_eq g p x hp]
      cases ht : trace (g.setPosition p x) l with
      | nil => simp
      | cons a t =>
        rw [List.getLast?_append, List.getLast?_eq_some_getLast (l := a :: t) (by simp)]
        simp
    · have : g.setPosition p x = g := by unfold setPosition; simp [hp]
      simp [setSteps, hp, this]

/-- **every value of a trace is in `[-B, B]`** provided every board in between has possible
material -/
theorem trace_range {g : Game} (h : Mid g) (l : List (Pos × Option Piece))
    (hm : ∀ b' ∈ midBoards g.board l, MaterialOk b') :
    (∀ s ∈ trace g l, -B ≤ s ∧ s ≤ B) ∧ Mid (g.setMany l) := by
  induction l generalizing g with
  | nil => exact ⟨fun s hs => by simp [trace] at hs, h⟩
  | cons e l ih =>
    obtain ⟨p, x⟩ := e
    simp only [midBoards, List.mem_cons, forall_eq_or_imp] at hm
    obtain ⟨-, hm2, hm3⟩ := hm
    have h1 := mid_setPosition_none h p
    have h2 := mid_setPosition h p x hm2
    rw [← setPosition_board_eq] at hm3
    obtain ⟨ih1, ih2⟩ := ih h2 hm3
    refine ⟨?_, ih2⟩
    intro s hs
    simp only [trace, List.mem_append] at hs
    rcases hs with hs | hs
    · by_cases hp : p.idx < 64
      · rw [setSteps_eq g p x hp] at hs
        simp only [List.mem_cons, List.not_mem_nil, or_false] at hs
        rcases hs with rfl | rfl
        · exact h1.range
        · exact h2.range
      · simp [setSteps, hp] at hs
    · exact ih1 s hs

/-! ### `push` -/

/-- the values `self.score` takes during `push(m)` -/
def pushTrace (g : Game) (m : Move) : List Int := trace g (Bounds.writes m)

theorem setKingPos_fields (g : Game) (pl : Player) (p : Pos) :
    (g.setKingPos pl p).score = g.score ∧ (g.setKingPos pl p).pastScores = g.pastScores
      ∧ (g.setKingPos pl p).board = g.board := by
  cases pl <;> exact ⟨rfl, rfl, rfl⟩

theorem push_fields (g : Game) (m : Move) :
    (g.push m).score = (g.setMany (Bounds.writes m)).score
    ∧ (g.push m).pastScores = (g.setMany (Bounds.writes m)).pastScores
    ∧ (g.push m).board = (g.setMany (Bounds.writes m)).board := by
  have e : (g.push m).score = (applyMoveG g m).score ∧ (g.push m).pastScores = (applyMoveG g m).pastScores
      ∧ (g.push m).board = (applyMoveG g m).board := by
    rw [Game.push_eq]; exact ⟨rfl, rfl, rfl⟩
  rw [e.1, e.2.1, e.2.2, Bounds.applyMoveG_eq_writes]
  split
  · exact setKingPos_fields _ _ _
  · exact ⟨rfl, rfl, rfl⟩

/-- the trace of `push` ends with the score of the pushed game -/
theorem pushTrace_getLast (g : Game) (m : Move) :
    ((pushTrace g m).getLast?).getD g.score = (g.push m).score := by
  rw [(push_fields g m).1]; exact trace_getLast g _

/-- `Mid` is an invariant of `push`, and all values on the way are in `[-B, B]` -/
theorem push_mid_range {g : Game} {m : Move} (h : Mid g) (hf : g.Fits m) (hp : PromoOk m) :
    (∀ s ∈ pushTrace g m, -B ≤ s ∧ s ≤ B) ∧ Mid (g.push m) := by
  obtain ⟨h1, h2⟩ := trace_range h (Bounds.writes m) (midBoards_material hf hp h.mat)
  obtain ⟨f1, f2, f3⟩ := push_fields g m
  exact ⟨h1, mid_congr h2 f1 f2 f3⟩

/-! ### `update_phase` -/

/-- the values `self.score` takes during `update_phase` (the two kings are re-scored when the
phase switches; nothing otherwise) -/
def phaseTrace (g : Game) : List Int :=
  if g.isEndgame then
    let g0 := { g with endgame := true }
    let g1 := g0.setPosition g0.wking (g0.get g0.wking)
    setSteps g0 g0.wking (g0.get g0.wking) ++ setSteps g1 g1.bking (g1.get g1.bking)
  else []

theorem bset_bget_self (b : Board) (p : Pos) : bset b p (bget b p) = b := by
  unfold bset bget
  split
  · simp
  · rfl

theorem phaseTrace_eq (g : Game) :
    phaseTrace g = if g.isEndgame then
      trace { g with endgame := true }
        [(g.wking, Game.get { g with endgame := true } g.wking),
         (g.bking, (Game.setPosition { g with endgame := true } g.wking
            (Game.get { g with endgame := true } g.wking)).get g.bking)]
      else [] := by
  unfold phaseTrace
  split
  · simp [trace]
  · rfl

/-- `Mid` is an invariant of `update_phase`, and all values on the way are in `[-B, B]` -/
theorem updatePhase_mid_range {g : Game} (h : Mid g) :
    (∀ s ∈ phaseTrace g, -B ≤ s ∧ s ≤ B) ∧ Mid g.updatePhase := by
  rw [phaseTrace_eq, Game.updatePhase_eq]
  split
  · have h0 : Mid { g with endgame := true } := mid_setEndgame h true
    have hb0 : ({ g with endgame := true } : Game).board = g.board := rfl
    have := trace_range h0
      [(g.wking, Game.get { g with endgame := true } g.wking),
       (g.bking, (Game.setPosition { g with endgame := true } g.wking
          (Game.get { g with endgame := true } g.wking)).get g.bking)]
      (by
        intro b' hb'
        simp only [midBoards, List.mem_cons, List.not_mem_nil, or_false, get_eq_bget,
          setPosition_board_eq, bset_bget_self] at hb'
        rcases hb' with rfl | rfl | rfl | rfl
        · exact materialOk_bset_none h.mat _
        · exact h.mat
        · exact materialOk_bset_none h.mat _
        · exact h.mat)
    refine ⟨this.1, ?_⟩
    have h2 := this.2
    simp only [setMany] at h2
    unfold Game.phaseFlip
    simp only [setPosition_bking]
    exact h2
  · exact ⟨fun s hs => by simp at hs, h⟩

/-! ### `push_history` -/

/-- the values `self.score` takes during `push_history(m)`: those of `update_phase`, then those of
`push` on the game `update_phase` leaves -/
def pushHistoryTrace (g : Game) (m : Move) : List Int :=
  let g' : Game := { g with moveStack := m :: g.moveStack }
  phaseTrace g' ++ pushTrace g'.updatePhase m

theorem pushHistory_mid_range {g : Game} {m : Move} (h : Mid g) (hf : g.Fits m) (hp : PromoOk m) :
    (∀ s ∈ pushHistoryTrace g m, -B ≤ s ∧ s ≤ B) ∧ Mid (g.pushHistory m) := by
  have h0 : Mid { g with moveStack := m :: g.moveStack } := ⟨h.sum, h.bdd, h.mat⟩
  obtain ⟨a1, a2⟩ := updatePhase_mid_range h0
  obtain ⟨b1, b2⟩ := push_mid_range a2 (Bounds.fits_record hf) hp
  refine ⟨?_, b2⟩
  intro s hs
  simp only [pushHistoryTrace, List.mem_append] at hs
  rcases hs with hs | hs
  · exact a1 s hs
  · exact b1 s hs

/-! ## 4. Reachable games -/

/-- every reachable game is in the state `Mid` -/
theorem reach_mid {g : Game} (h : Reach g) : Mid g := mid_of_wf (reach_wf h) (reach_material h)

/-- **the score of every reachable game is in `[-30565, 30565]`** -/
theorem score_range {g : Game} (h : Reach g) : -B ≤ g.score ∧ g.score ≤ B := (reach_mid h).range

/-- **the score of every reachable game fits `i16`** -/
theorem score_fits_i16 {g : Game} (h : Reach g) : -32768 ≤ g.score ∧ g.score ≤ 32767 := by
  have := score_range h
  unfold B at this
  omega

/-- the same from the representation invariant and the material invariant alone -/
theorem score_fits_i16_of_wf {g : Game} (hw : g.WF) (hm : MaterialInv g) :
    -32768 ≤ g.score ∧ g.score ≤ 32767 := by
  have := (mid_of_wf hw hm).range
  unfold B at this
  omega

theorem fits_of_range {s : Int} (h : -B ≤ s ∧ s ≤ B) : -32768 ≤ s ∧ s ≤ 32767 := by
  unfold B at h; omega

/-- **every value `self.score` takes during the `push` of a generated move (checked or not) from a
reachable game fits `i16`** -/
theorem push_intermediate_fits {g : Game} {m : Move} {b : Bool} (h : Reach g)
    (hm : m ∈ (g.getMoves b).1) : ∀ s ∈ pushTrace g m, -32768 ≤ s ∧ s ≤ 32767 := by
  have hf := Game.getMoves_fits (reach_wf h) b hm
  exact fun s hs => fits_of_range ((push_mid_range (reach_mid h) hf.1 (promoOk_of_moverOk hf.2)).1 s hs)

/-- the general form: any fitting move without king promotion, from any game in the state `Mid` -/
theorem push_intermediate_fits' {g : Game} {m : Move} (h : Mid g) (hf : g.Fits m) (hp : PromoOk m) :
    ∀ s ∈ pushTrace g m, -32768 ≤ s ∧ s ≤ 32767 :=
  fun s hs => fits_of_range ((push_mid_range h hf hp).1 s hs)

/-- **every value `self.score` takes during `update_phase` on a reachable game fits `i16`** -/
theorem updatePhase_intermediate_fits {g : Game} (h : Reach g) :
    ∀ s ∈ phaseTrace g, -32768 ≤ s ∧ s ≤ 32767 :=
  fun s hs => fits_of_range ((updatePhase_mid_range (reach_mid h)).1 s hs)

/-- **every value `self.score` takes during `push_history` of a checked move fits `i16`** -/
theorem pushHistory_intermediate_fits {g : Game} {m : Move} (h : Reach g)
    (hm : m ∈ (g.getMoves true).1) : ∀ s ∈ pushHistoryTrace g m, -32768 ≤ s ∧ s ≤ 32767 := by
  have hf := Game.getMoves_fits (reach_wf h) true hm
  exact fun s hs =>
    fits_of_range ((pushHistory_mid_range (reach_mid h) hf.1 (promoOk_of_moverOk hf.2)).1 s hs)

/-- the import: the score before `update_phase` (the reader sums in `i32` and narrows after the
material check) and every value during the `update_phase` that ends `Game::new` fit `i16` -/
theorem import_fits {g0 : Game} (hw : g0.WF) (hm : MaterialInv g0) :
    (-32768 ≤ g0.score ∧ g0.score ≤ 32767) ∧ ∀ s ∈ phaseTrace g0, -32768 ≤ s ∧ s ≤ 32767 :=
  ⟨score_fits_i16_of_wf hw hm,
    fun s hs => fits_of_range ((updatePhase_mid_range (mid_of_wf hw hm)).1 s hs)⟩

/-! ## 5. What the search does with the score -/

/-- `game.score() * game.player() as Score` -/
theorem eval_range {g : Game} (h : Reach g) :
    -B ≤ Uci.chessOps.eval g ∧ Uci.chessOps.eval g ≤ B := by
  have := score_range h
  show -B ≤ g.score * g.player.sign ∧ g.score * g.player.sign ≤ B
  cases g.player <;> simp only [Player.sign] <;> omega

/-- **the evaluation fits `i16`** -/
theorem eval_fits {g : Game} (h : Reach g) :
    -32768 ≤ Uci.chessOps.eval g ∧ Uci.chessOps.eval g ≤ 32767 := fits_of_range (eval_range h)

/-- **its negation fits** (the bound is symmetric, so `-x` never meets `i16::MIN`) -/
theorem neg_eval_fits {g : Game} (h : Reach g) :
    -32768 ≤ -Uci.chessOps.eval g ∧ -Uci.chessOps.eval g ≤ 32767 := by
  have := eval_range h; unfold B at this; omega

theorem neg_score_fits {g : Game} (h : Reach g) : -32768 ≤ -g.score ∧ -g.score ≤ 32767 := by
  have := score_range h; unfold B at this; omega

/-- a single table entry times the owner's sign (`piece_score * self.owner as Score`) fits -/
theorem piece_score_fits (pc : Piece) (p : Pos) (e : Bool) :
    -32768 ≤ pc.score p e ∧ pc.score p e ≤ 32767 := by
  have := bounded_abs (score_bounded pc p e); omega

/-! ## 6. The reader's running sum (`let mut score: i32`) -/

theorem foldr_crude (l : List Int) (h : ∀ x ∈ l, -20040 ≤ x ∧ x ≤ 20040) :
    -(20040 * (l.length : Int)) ≤ l.foldr (· + ·) 0 ∧ l.foldr (· + ·) 0 ≤ 20040 * (l.length : Int) := by
  induction l with
  | nil => simp
  | cons a l ih =>
    have := ih (fun x hx => h x (by simp [hx]))
    have ha := h a (by simp)
    simp only [List.foldr_cons, List.length_cons]
    omega

/-- **every value of the running sum of the placement scan fits `i32`** (whatever the text: this
is before the material check; at most 64 squares, each worth at most 20040): every state the
scanner is in is the result of a successful run on the prefix read so far -/
theorem scan_score_fits_i32 {cs : List Char} {sc : Scan} (h : Scan.init.run cs = .ok sc) :
    -2147483648 ≤ sc.score ∧ sc.score ≤ 2147483647 := by
  obtain ⟨r, c, inv⟩ := cinv_run cs _ _ _ _ cinv_init h
  have hb : ∀ x ∈ sc.pastScores.toList, -20040 ≤ x ∧ x ≤ 20040 := by
    intro x hx
    obtain ⟨i, hi, rfl⟩ := List.mem_iff_getElem.mp hx
    have hi' : i < 64 := by simpa using hi
    rw [Vector.getElem_toList]
    by_cases hv : Visited r c i
    · rw [(inv.vis i hi' hv).2]
      exact bounded_abs (placeScore_bounded _ _ _)
    · rw [(inv.unv i hi' hv).2.1]; omega
  have := foldr_crude _ hb
  rw [inv.score, sumAll]
  simp only [Vector.length_toList] at this
  omega

/-- **the import, end to end**: the game `Game::new` builds is the `update_phase` of a game whose
score (`score as Score`, narrowed from the `i32` sum after the material check) fits `i16`, and
every value `self.score` takes during that `update_phase` fits `i16` -/
theorem ofFen_import_fits {s : List Char} {g : Game} (h : Game.ofFen s = .ok g) :
    ∃ g0 : Game, g = g0.updatePhase ∧ (-32768 ≤ g0.score ∧ g0.score ≤ 32767)
      ∧ ∀ v ∈ phaseTrace g0, -32768 ≤ v ∧ v ≤ 32767 := by
  obtain ⟨pieces, side, cast, ep, rest, sc, player, st0, st, wk, bk, -, hr, hr0, hc8, -, -,
    -, -, -, hmw, hmb, -, -, -, rfl⟩ := ofFen_ok_inv h
  have inv := cinv_final hr hr0 hc8
  obtain ⟨c1, c2, -⟩ := mkGame_cache inv player st wk bk
  have hmid : Mid (mkGame sc player st wk bk) :=
    { sum := by unfold Game.resScore at c2; omega
      bdd := by
        intro i hi
        rw [c1.scores i hi]
        exact placeScore_bounded _ _ _
      mat := ⟨sideOkB_of_check hmw, sideOkB_of_check hmb⟩ }
  exact ⟨_, rfl, fits_of_range hmid.range,
    fun v hv => fits_of_range ((updatePhase_mid_range hmid).1 v hv)⟩

/-! ## 7. The material total of `is_endgame` (`let mut total_piece_score: u32`) -/

/-- the running total of `is_endgame` -/
def endgameTotal (g : Game) (l : List Pos) : Nat :=
  l.foldl (fun acc p => acc + (placeScore p g.endgame (g.get p)).natAbs) 0

theorem foldl_total_le (g : Game) (l : List Pos) (a : Nat) :
    l.foldl (fun acc p => acc + (placeScore p g.endgame (g.get p)).natAbs) a ≤ a + 20040 * l.length := by
  induction l generalizing a with
  | nil => simp
  | cons p l ih =>
    have hb := bounded_abs (placeScore_bounded p g.endgame (g.get p))
    have := ih (a + (placeScore p g.endgame (g.get p)).natAbs)
    simp only [List.foldl_cons, List.length_cons]
    omega

/-- `is_endgame` is this total compared with the threshold -/
theorem isEndgame_eq (g : Game) :
    g.isEndgame = decide (endgameTotal g allSquares < 2 * Gen.endgameThreshold) := rfl

/-- **every value of the running total of `is_endgame` fits `u32`**, on any board: every prefix of
the square loop sums at most `64 · 20040` -/
theorem endgameTotal_fits_u32 (g : Game) (k : Nat) :
    endgameTotal g (allSquares.take k) ≤ 1282560 ∧ (1282560 : Nat) < 4294967296 := by
  refine ⟨?_, by decide⟩
  have := foldl_total_le g (allSquares.take k) 0
  have hl : (allSquares.take k).length ≤ 64 := by
    rw [List.length_take]; unfold allSquares; simp; omega
  unfold endgameTotal
  omega

end Chess.Range

#print axioms Chess.Range.reach_material
#print axioms Chess.Range.score_fits_i16
#print axioms Chess.Range.push_intermediate_fits
#print axioms Chess.Range.updatePhase_intermediate_fits
#print axioms Chess.Range.pushHistory_intermediate_fits
#print axioms Chess.Range.eval_fits
#print axioms Chess.Range.neg_eval_fits
#print axioms Chess.Range.scan_score_fits_i32
#print axioms Chess.Range.ofFen_import_fits
