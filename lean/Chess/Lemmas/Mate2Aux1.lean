import Chess.Lemmas.Mate

/-!
# Mate in two (C10, second half): definitions and the game-theoretic facts

`LoseIn k x`: the side to move at `x` is checkmated within `k` of the opponent's moves whatever it
plays (`k = 0`: it is mated now). `Lose x`: for some `k`. `Win x`: some legal move leads to a
`Lose` position. `MateIn1`, `Lost1`, `ForcedMate2`, `KeepsMate` (the strong notion: the move keeps a
mate in at most two) and `KeepsForcedMate` (the weak notion: the move keeps SOME forced mate).
-/
namespace Chess.Search.Mate2
open Chess.Search Chess.Search.Mate

variable {G M : Type}

/-! ## Definitions -/

/-- the side to move can mate at once -/
def MateIn1 (o : Ops G M) (g : G) : Prop := ∃ m ∈ o.checked g, Mated o (o.push g m)

/-- the side to move has a legal move, and whatever it plays the opponent mates at once -/
def Lost1 (o : Ops G M) (g : G) : Prop :=
  o.checked g ≠ [] ∧ ∀ r ∈ o.checked g, MateIn1 o (o.push g r)

/-- `m1` is legal, does not mate, and forces mate on the next move -/
def ForcedMate2 (o : Ops G M) (g : G) (m1 : M) : Prop := m1 ∈ o.checked g ∧ Lost1 o (o.push g m1)

/-- the strong notion: `m` is legal and mates at once or forces mate on the next move -/
def KeepsMate (o : Ops G M) (g : G) (m : M) : Prop :=
  m ∈ o.checked g ∧ (Mated o (o.push g m) ∨ Lost1 o (o.push g m))

/-- the side to move at `x` is checkmated within `k` moves of the opponent, whatever it plays -/
def LoseIn (o : Ops G M) : Nat → G → Prop
  | 0, x => Mated o x
  | k + 1, x => Mated o x ∨ (o.checked x ≠ [] ∧
      ∀ m ∈ o.checked x, ∃ m' ∈ o.checked (o.push x m), LoseIn o k (o.push (o.push x m) m'))

/-- the side to move at `x` cannot escape a forced mate -/
def Lose (o : Ops G M) (x : G) : Prop := ∃ k, LoseIn o k x

/-- the side to move at `x` has a forced mate -/
def Win (o : Ops G M) (x : G) : Prop := ∃ m ∈ o.checked x, Lose o (o.push x m)

/-- the weak notion: `m` is legal and after it the opponent cannot escape a forced mate (of some
length) -/
def KeepsForcedMate (o : Ops G M) (g : G) (m : M) : Prop := m ∈ o.checked g ∧ Lose o (o.push g m)

/-- `m` is legal and after it the opponent is mated within `k` further moves of ours -/
def KeepsMateWithin (o : Ops G M) (k : Nat) (g : G) (m : M) : Prop :=
  m ∈ o.checked g ∧ LoseIn o k (o.push g m)

/-! ## Facts -/

theorem LoseIn.succ {o : Ops G M} : ∀ {k : Nat} {x : G}, LoseIn o k x → LoseIn o (k + 1) x
  | 0, _, h => Or.inl h
  | k + 1, _, h => by
    rcases h with h | ⟨hne, h⟩
    · exact Or.inl h
    · refine Or.inr ⟨hne, fun m hm => ?_⟩
      obtain ⟨m', hm', hl⟩ := h m hm
      exact ⟨m', hm', LoseIn.succ hl⟩

theorem LoseIn.mono {o : Ops G M} {k k' : Nat} {x : G} (h : LoseIn o k x) (hk : k ≤ k') :
    LoseIn o k' x := by
  induction hk with
  | refl => exact h
  | step _ ih => exact ih.succ

theorem Lose.of_mated {o : Ops G M} {x : G} (h : Mated o x) : Lose o x := ⟨0, h⟩

/-- finitely many existential bounds have a common bound -/
theorem exists_common_bound {α : Type} (P : Nat → α → Prop)
    (hmono : ∀ k a, P k a → P (k + 1) a) :
    ∀ l : List α, (∀ a ∈ l, ∃ k, P k a) → ∃ K, ∀ a ∈ l, P K a
  | [], _ => ⟨0, fun _ h => by cases h⟩
  | a :: l, h => by
    obtain ⟨K, hK⟩ := exists_common_bound P hmono l (fun b hb => h b (List.mem_cons_of_mem _ hb))
    obtain ⟨k, hk⟩ := h a List.mem_cons_self
    have up : ∀ (n : Nat) (b : α) (j : Nat), P j b → P (j + n) b := by
      intro n b j hj
      induction n with
      | zero => exact hj
      | succ n ih => exact hmono _ _ ih
    refine ⟨k + K, fun b hb => ?_⟩
    rcases List.mem_cons.1 hb with rfl | hb
    · exact up K _ k hk
    · have := up k b K (hK b hb)
      rwa [Nat.add_comm] at this

/-- a position with a legal move all of whose moves lead to won positions is lost -/
theorem Lose.of_all_win {o : Ops G M} {x : G} (hne : o.checked x ≠ [])
    (h : ∀ m ∈ o.checked x, Win o (o.push x m)) : Lose o x := by
  have h' : ∀ m ∈ o.checked x, ∃ k, ∃ m' ∈ o.checked (o.push x m),
      LoseIn o k (o.push (o.push x m) m') := by
    intro m hm
    obtain ⟨m', hm', k, hk⟩ := h m hm
    exact ⟨k, m', hm', hk⟩
  obtain ⟨K, hK⟩ := exists_common_bound
    (fun k m => ∃ m' ∈ o.checked (o.push x m), LoseIn o k (o.push (o.push x m) m'))
    (fun k m ⟨m', hm', hl⟩ => ⟨m', hm', hl.succ⟩) (o.checked x) h'
  exact ⟨K + 1, Or.inr ⟨hne, hK⟩⟩

theorem Win.of_move {o : Ops G M} {x : G} {m : M} (hm : m ∈ o.checked x)
    (h : Lose o (o.push x m)) : Win o x := ⟨m, hm, h⟩

/-- no move from a lost position leads to a lost position -/
theorem LoseIn.no_lose_child {o : Ops G M} :
    ∀ (k j : Nat) (y : G) (m : M), LoseIn o k y → m ∈ o.checked y → ¬ LoseIn o j (o.push y m)
  | 0, _, y, m, h, hm, _ => by
    have : o.checked y = [] := h.1
    rw [this] at hm; cases hm
  | k + 1, j, y, m, h, hm, hz => by
    rcases h with h | ⟨_, h⟩
    · have : o.checked y = [] := h.1
      rw [this] at hm; cases hm
    · obtain ⟨m', hm', hw⟩ := h m hm
      -- `w := push (push y m) m'` is lost within `k`, and `push y m` is lost
      have hzne : ¬ Mated o (o.push y m) := by
        intro hM
        have : o.checked (o.push y m) = [] := hM.1
        rw [this] at hm'; cases hm'
      match j, hz with
      | 0, hz => exact hzne hz
      | j + 1, hz =>
        rcases hz with hz | ⟨_, hz⟩
        · exact hzne hz
        · obtain ⟨m3, hm3, hl3⟩ := hz m' hm'
          exact LoseIn.no_lose_child k j _ m3 hw hm3 hl3

/-- a position cannot be both won and lost -/
theorem not_win_of_lose {o : Ops G M} {x : G} (h : Lose o x) : ¬ Win o x := by
  rintro ⟨m, hm, j, hj⟩
  obtain ⟨k, hk⟩ := h
  exact LoseIn.no_lose_child k j x m hk hm hj

theorem MateIn1.win {o : Ops G M} {x : G} (h : MateIn1 o x) : Win o x := by
  obtain ⟨m, hm, hM⟩ := h
  exact ⟨m, hm, Lose.of_mated hM⟩

theorem Lost1.loseIn {o : Ops G M} {x : G} (h : Lost1 o x) : LoseIn o 1 x :=
  Or.inr ⟨h.1, fun m hm => h.2 m hm⟩

theorem Lost1.lose {o : Ops G M} {x : G} (h : Lost1 o x) : Lose o x := ⟨1, h.loseIn⟩

theorem Lost1.not_win {o : Ops G M} {x : G} (h : Lost1 o x) : ¬ Win o x := not_win_of_lose h.lose

theorem MateIn1.not_lose {o : Ops G M} {x : G} (h : MateIn1 o x) : ¬ Lose o x :=
  fun hl => not_win_of_lose hl h.win

theorem MateIn1.not_mated {o : Ops G M} {x : G} (h : MateIn1 o x) : ¬ Mated o x := by
  obtain ⟨m, hm, _⟩ := h
  intro hM
  have : o.checked x = [] := hM.1
  rw [this] at hm; cases hm

theorem ForcedMate2.win {o : Ops G M} {g : G} {m : M} (h : ForcedMate2 o g m) : Win o g :=
  ⟨m, h.1, h.2.lose⟩

theorem KeepsMate.weak {o : Ops G M} {g : G} {m : M} (h : KeepsMate o g m) :
    KeepsMateWithin o 1 g m := by
  refine ⟨h.1, ?_⟩
  rcases h.2 with h | h
  · exact Or.inl h
  · exact h.loseIn

theorem KeepsMateWithin.forced {o : Ops G M} {k : Nat} {g : G} {m : M}
    (h : KeepsMateWithin o k g m) : KeepsForcedMate o g m := ⟨h.1, k, h.2⟩

/-! ## Depth-indexed notions: what a search with `r` plies left can see

`LoseP r x`: the side to move at `x` is mated, or every move allows a reply after which it is
`LoseP (r - 2)`; nothing is seen with fewer than two plies left. `WinP r x`: some move leads to a
`LoseP (r - 1)` position. -/

/-- lost, as seen with `r` plies left -/
def LoseP (o : Ops G M) : Nat → G → Prop
  | 0, _ => False
  | 1, _ => False
  | r + 2, x => Mated o x ∨ (o.checked x ≠ [] ∧
      ∀ m ∈ o.checked x, ∃ m' ∈ o.checked (o.push x m), LoseP o r (o.push (o.push x m) m'))

/-- won, as seen with `r` plies left -/
def WinP (o : Ops G M) (r : Nat) (x : G) : Prop :=
  ∃ m ∈ o.checked x, LoseP o (r - 1) (o.push x m)

theorem LoseP.succ {o : Ops G M} : ∀ (r : Nat) (x : G), LoseP o r x → LoseP o (r + 1) x
  | 0, _, h => h.elim
  | 1, _, h => h.elim
  | r + 2, x, h => by
    rcases h with h | ⟨hne, h⟩
    · exact Or.inl h
    · refine Or.inr ⟨hne, fun m hm => ?_⟩
      obtain ⟨m', hm', hl⟩ := h m hm
      exact ⟨m', hm', LoseP.succ r _ hl⟩

theorem LoseP.mono {o : Ops G M} {r r' : Nat} {x : G} (h : LoseP o r x) (hr : r ≤ r') :
    LoseP o r' x := by
  induction hr with
  | refl => exact h
  | step _ ih => exact LoseP.succ _ _ ih

theorem LoseP.loseIn {o : Ops G M} : ∀ (r : Nat) (x : G), LoseP o r x → LoseIn o r x
  | 0, _, h => h.elim
  | 1, _, h => h.elim
  | r + 2, x, h => by
    rcases h with h | ⟨hne, h⟩
    · exact Or.inl h
    · refine Or.inr ⟨hne, fun m hm => ?_⟩
      obtain ⟨m', hm', hl⟩ := h m hm
      exact ⟨m', hm', (LoseP.loseIn r _ hl).succ⟩

theorem LoseP.lose {o : Ops G M} {r : Nat} {x : G} (h : LoseP o r x) : Lose o x :=
  ⟨r, LoseP.loseIn r x h⟩

theorem WinP.win {o : Ops G M} {r : Nat} {x : G} (h : WinP o r x) : Win o x := by
  obtain ⟨m, hm, hl⟩ := h
  exact ⟨m, hm, hl.lose⟩

theorem LoseP.two {o : Ops G M} {x : G} (h : LoseP o 2 x) : Mated o x := by
  rcases h with h | ⟨hne, h⟩
  · exact h
  · cases hc : o.checked x with
    | nil => exact absurd hc hne
    | cons m ms =>
      obtain ⟨_, _, hl⟩ := h m (by rw [hc]; exact List.mem_cons_self)
      exact hl.elim

/-- with four plies left, "lost" means mated or `Lost1` -/
theorem LoseP.four {o : Ops G M} {x : G} (h : LoseP o 4 x) : Mated o x ∨ Lost1 o x := by
  rcases h with h | ⟨hne, h⟩
  · exact Or.inl h
  · refine Or.inr ⟨hne, fun m hm => ?_⟩
    obtain ⟨m', hm', hl⟩ := h m hm
    exact ⟨m', hm', hl.two⟩

theorem Lost1.loseP {o : Ops G M} {x : G} (h : Lost1 o x) {r : Nat} (hr : 4 ≤ r) :
    LoseP o r x := by
  have h4 : LoseP o 4 x := by
    refine Or.inr ⟨h.1, fun m hm => ?_⟩
    obtain ⟨m', hm', hM⟩ := h.2 m hm
    exact ⟨m', hm', Or.inl hM⟩
  exact h4.mono hr

theorem KeepsMate.of_loseP {o : Ops G M} {g : G} {m : M} {r : Nat} (hm : m ∈ o.checked g)
    (hr : r ≤ 4) (h : LoseP o r (o.push g m)) : KeepsMate o g m :=
  ⟨hm, (h.mono hr).four⟩

end Chess.Search.Mate2
