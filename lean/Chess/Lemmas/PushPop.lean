import Chess.Lemmas.Cache

/-!
# Take-back restores the game exactly (`pop (push g m) m = g`)
-/
namespace Chess
namespace Game

/-! ### `setKingPos` touches only the cached king squares -/

section kingpos
variable (g : Game) (pl : Player) (p : Pos)
@[simp] theorem setKingPos_player : (g.setKingPos pl p).player = g.player := by cases pl <;> rfl
@[simp] theorem setKingPos_state : (g.setKingPos pl p).state = g.state := by cases pl <;> rfl
@[simp] theorem setKingPos_moveStack : (g.setKingPos pl p).moveStack = g.moveStack := by cases pl <;> rfl
@[simp] theorem setKingPos_endgame : (g.setKingPos pl p).endgame = g.endgame := by cases pl <;> rfl
@[simp] theorem setKingPos_board : (g.setKingPos pl p).board = g.board := by cases pl <;> rfl
@[simp] theorem setKingPos_pastHashes : (g.setKingPos pl p).pastHashes = g.pastHashes := by cases pl <;> rfl
@[simp] theorem setKingPos_pastScores : (g.setKingPos pl p).pastScores = g.pastScores := by cases pl <;> rfl
@[simp] theorem setKingPos_hash : (g.setKingPos pl p).hash = g.hash := by cases pl <;> rfl
@[simp] theorem setKingPos_score : (g.setKingPos pl p).score = g.score := by cases pl <;> rfl
@[simp] theorem setKingPos_top : (g.setKingPos pl p).top = g.top := by cases pl <;> rfl
@[simp] theorem setKingPos_get (q : Pos) : (g.setKingPos pl p).get q = g.get q := by cases pl <;> rfl
theorem setKingPos_wking : (g.setKingPos pl p).wking = if pl = .white then p else g.wking := by
  cases pl <;> rfl
theorem setKingPos_bking : (g.setKingPos pl p).bking = if pl = .black then p else g.bking := by
  cases pl <;> rfl
theorem setKingPos_kingPos (pl' : Player) :
    (g.setKingPos pl p).kingPos pl' = if pl' = pl then p else g.kingPos pl' := by
  cases pl <;> cases pl' <;> rfl
end kingpos

/-- `CacheInv` only looks at the board, the two caches and the phase -/
theorem cacheInv_congr {g g' : Game} (hb : g'.board = g.board) (hh : g'.pastHashes = g.pastHashes)
    (hs : g'.pastScores = g.pastScores) (he : g'.endgame = g.endgame) (h : g.CacheInv) : g'.CacheInv := by
  constructor
  · intro i hi; rw [hh, hb]; exact h.hashes i hi
  · intro i hi; rw [hs, hb, he]; exact h.scores i hi

theorem setKingPos_cacheInv {g : Game} (pl : Player) (p : Pos) (h : g.CacheInv) :
    (g.setKingPos pl p).CacheInv :=
  cacheInv_congr (by simp) (by simp) (by simp) (by simp) h

@[simp] theorem setKingPos_resHash (g : Game) (pl : Player) (p : Pos) :
    (g.setKingPos pl p).resHash = g.resHash := by simp [resHash]
@[simp] theorem setKingPos_resScore (g : Game) (pl : Player) (p : Pos) :
    (g.setKingPos pl p).resScore = g.resScore := by simp [resScore]

/-- boards are equal when they read the same on every valid square -/
theorem board_ext {g g' : Game} (h : ∀ q : Pos, q.Valid → g.get q = g'.get q) : g.board = g'.board := by
  apply Vector.ext
  intro i hi
  have hv : (Pos.ofIdx i).Valid := by
    unfold Pos.Valid Pos.ofIdx; simp only; omega
  have hidx : (Pos.ofIdx i).idx = i := by
    unfold Pos.idx Pos.ofIdx; simp only; omega
  have := h (Pos.ofIdx i) hv
  unfold get at this
  simp only [hidx, hi, dite_true] at this
  exact this

/-! ### squares used by the special moves are on the board -/

theorem homeRow_valid (o : Player) (c : Int) (h0 : 0 ≤ c) (h8 : c < 8) : (⟨homeRow o, c⟩ : Pos).Valid := by
  cases o <;> simp [homeRow, Pos.Valid] <;> omega

theorem epSquares_valid (o : Player) (sc ec : Int) (h1 : 0 ≤ sc) (h2 : sc < 8) (h3 : 0 ≤ ec) (h4 : ec < 8) :
    (epSquares o sc ec).1.Valid ∧ (epSquares o sc ec).2.1.Valid ∧ (epSquares o sc ec).2.2.Valid := by
  cases o <;> simp [epSquares, Pos.Valid] <;> omega

theorem epSquares_ne (o : Player) (sc ec : Int) (h : sc ≠ ec) :
    (epSquares o sc ec).1 ≠ (epSquares o sc ec).2.1 ∧ (epSquares o sc ec).1 ≠ (epSquares o sc ec).2.2
      ∧ (epSquares o sc ec).2.1 ≠ (epSquares o sc ec).2.2 := by
  cases o <;> simp [epSquares] <;> omega

end Game
end Chess

namespace Chess
namespace Game

/-- the game part of `applyMove`, without the state byte -/
def applyMoveG (g : Game) (m : Move) : Game :=
  match m with
  | .normal piece start stop _ =>
    let g1 := (g.setPosition start none).setPosition stop (some piece)
    if piece.pieceType = .king then g1.setKingPos g1.player stop else g1
  | .promotion owner newPiece start stop _ =>
    (g.setPosition start none).setPosition stop (some ⟨newPiece, owner⟩)
  | .enPassant owner startCol endCol =>
    ((g.setPosition (epSquares owner startCol endCol).2.2 none).setPosition
      (epSquares owner startCol endCol).1 none).setPosition (epSquares owner startCol endCol).2.1
      (some ⟨.pawn, owner⟩)
  | .castlingLong owner =>
    let g1 := (((g.setPosition ⟨homeRow owner, 0⟩ none).setPosition ⟨homeRow owner, 4⟩ none).setPosition
      ⟨homeRow owner, 3⟩ (some ⟨.rook, owner⟩)).setPosition ⟨homeRow owner, 2⟩ (some ⟨.king, owner⟩)
    g1.setKingPos g1.player ⟨homeRow owner, 2⟩
  | .castlingShort owner =>
    let g1 := (((g.setPosition ⟨homeRow owner, 7⟩ none).setPosition ⟨homeRow owner, 4⟩ none).setPosition
      ⟨homeRow owner, 5⟩ (some ⟨.rook, owner⟩)).setPosition ⟨homeRow owner, 6⟩ (some ⟨.king, owner⟩)
    g1.setKingPos g1.player ⟨homeRow owner, 6⟩

theorem applyMove_fst (g : Game) (m : Move) (s0 : GState) : (applyMove g m s0).1 = applyMoveG g m := by
  cases m with
  | normal piece start stop captured =>
    simp only [applyMove, applyMoveG]
    split <;> (try split) <;> rfl
  | promotion owner newPiece start stop captured => rfl
  | enPassant owner sc ec => cases owner <;> rfl
  | castlingLong owner => rfl
  | castlingShort owner => rfl

/-- what `push` does around the board update -/
def wrapPush (g1 : Game) (s : GState) : Game :=
  { g1 with
    player := g1.player.other
    hash := g1.hash ^^^ Gen.blackToMove ^^^ g1.top.hash ^^^ s.hash
    state := s :: g1.state }

/-- what `pop` does before the board update -/
def wrapPop (g : Game) : Game :=
  { g with
    hash := g.hash ^^^ g.top.hash ^^^ (g.state.tail.headD GState.default).hash ^^^ Gen.blackToMove
    state := g.state.tail
    player := g.player.other }

theorem push_eq_wrap (g : Game) (m : Move) :
    g.push m = wrapPush (applyMove g m (g.top.setEnPassant 8)).1 (applyMove g m (g.top.setEnPassant 8)).2 := rfl

theorem pop_eq_wrap (g : Game) (m : Move) : g.pop m = unapplyMove (wrapPop g) m := rfl

/-- the wrappers of `push` and `pop` (side, state stack, side key, state keys) cancel -/
theorem wrapPop_wrapPush (g1 : Game) (s : GState) : wrapPop (wrapPush g1 s) = g1 := by
  cases g1 with
  | mk score player moveStack endgame hash board pastScores pastHashes wking bking state =>
  simp only [wrapPop, wrapPush, top, List.tail_cons, List.headD_cons, Player.other_other, Game.mk.injEq,
    and_true, true_and]
  generalize (state.headD GState.default).hash = a
  generalize s.hash = b
  generalize Gen.blackToMove = c
  have : hash ^^^ c ^^^ a ^^^ b ^^^ b ^^^ a ^^^ c = hash ^^^ ((a ^^^ a) ^^^ (b ^^^ b) ^^^ (c ^^^ c)) := by ac_rfl
  rw [this]; simp

theorem pop_push_eq (g : Game) (m : Move) :
    (g.push m).pop m = unapplyMove (applyMoveG g m) m := by
  rw [pop_eq_wrap, push_eq_wrap, wrapPop_wrapPush, applyMove_fst]

end Game
end Chess

namespace Chess
namespace Game

theorem setKingPos_setPosition (g : Game) (pl : Player) (p q : Pos) (x : Option Piece) :
    (g.setKingPos pl p).setPosition q x = (g.setPosition q x).setKingPos pl p := by
  cases pl <;> (unfold setPosition setKingPos; split <;> rfl)

theorem setKingPos_setKingPos (g : Game) (pl : Player) (p q : Pos) :
    (g.setKingPos pl p).setKingPos pl q = g.setKingPos pl q := by
  cases pl <;> rfl

theorem setKingPos_self (g : Game) (pl : Player) : g.setKingPos pl (g.kingPos pl) = g := by
  cases pl <;> rfl

/-- a chain of writes that puts every square back to what it held is the identity -/
theorem restore {g g' : Game} (hc : g.CacheInv) (hc' : g'.CacheInv)
    (hget : ∀ q : Pos, q.Valid → g'.get q = g.get q)
    (hrh : g'.resHash = g.resHash) (hrs : g'.resScore = g.resScore)
    (hp : g'.player = g.player) (hm : g'.moveStack = g.moveStack) (he : g'.endgame = g.endgame)
    (hw : g'.wking = g.wking) (hk : g'.bking = g.bking) (hs : g'.state = g.state) : g' = g :=
  eq_of_cacheInv hc' hc (board_ext hget) hrh hrs hp hm he hw hk hs

/-- two writes: `a := x, b := y` then `a := x', b := y'` -/
theorem restore2 (g : Game) (a b : Pos) (x y : Option Piece) (ha : a.Valid) (hb : b.Valid) (hab : a ≠ b)
    (hc : g.CacheInv) :
    (((g.setPosition a x).setPosition b y).setPosition a (g.get a)).setPosition b (g.get b) = g := by
  apply restore hc
  · exact setPosition_cacheInv _ _ _ hb (setPosition_cacheInv _ _ _ ha
      (setPosition_cacheInv _ _ _ hb (setPosition_cacheInv _ _ _ ha hc)))
  · intro q hq
    rw [get_setPosition _ _ _ hb q hq, get_setPosition _ _ _ ha q hq, get_setPosition _ _ _ hb q hq,
      get_setPosition _ _ _ ha q hq]
    by_cases e1 : q = b
    · simp [e1]
    · by_cases e2 : q = a
      · subst e2; simp [hab]
      · simp [e1, e2]
  · rw [setPosition_resHash _ _ _ hb, setPosition_resHash _ _ _ ha, setPosition_resHash _ _ _ hb,
      setPosition_resHash _ _ _ ha]
  · rw [setPosition_resScore _ _ _ hb, setPosition_resScore _ _ _ ha, setPosition_resScore _ _ _ hb,
      setPosition_resScore _ _ _ ha]
  all_goals simp

end Game
end Chess

namespace Chess
namespace Game

/-- a sequence of writes -/
def setMany (g : Game) : List (Pos × Option Piece) → Game
  | [] => g
  | (p, x) :: l => setMany (g.setPosition p x) l

/-- what a sequence of writes leaves on square `q` -/
def lookupLast (q : Pos) : List (Pos × Option Piece) → Option Piece → Option Piece
  | [], d => d
  | (p, x) :: l, d => lookupLast q l (if q = p then x else d)

theorem setMany_spec (g : Game) (l : List (Pos × Option Piece)) (hv : ∀ e ∈ l, e.1.Valid) (hc : g.CacheInv) :
    (g.setMany l).CacheInv ∧ (g.setMany l).resHash = g.resHash ∧ (g.setMany l).resScore = g.resScore
    ∧ (g.setMany l).player = g.player ∧ (g.setMany l).moveStack = g.moveStack
    ∧ (g.setMany l).endgame = g.endgame ∧ (g.setMany l).wking = g.wking ∧ (g.setMany l).bking = g.bking
    ∧ (g.setMany l).state = g.state
    ∧ ∀ q : Pos, q.Valid → (g.setMany l).get q = lookupLast q l (g.get q) := by
  induction l generalizing g with
  | nil => simp [setMany, lookupLast, hc]
  | cons e l ih =>
    obtain ⟨p, x⟩ := e
    have hp : p.Valid := hv (p, x) (by simp)
    have := ih (g.setPosition p x) (fun e he => hv e (by simp [he])) (setPosition_cacheInv g p x hp hc)
    obtain ⟨h1, h2, h3, h4, h5, h6, h7, h8, h9, h10⟩ := this
    refine ⟨h1, ?_, ?_, ?_, ?_, ?_, ?_, ?_, ?_, ?_⟩
    · rw [setMany, h2, setPosition_resHash g p x hp]
    · rw [setMany, h3, setPosition_resScore g p x hp]
    · rw [setMany, h4]; simp
    · rw [setMany, h5]; simp
    · rw [setMany, h6]; simp
    · rw [setMany, h7]; simp
    · rw [setMany, h8]; simp
    · rw [setMany, h9]; simp
    · intro q hq
      rw [setMany, h10 q hq, get_setPosition g p x hp q hq, lookupLast]

/-- writes that put every square back restore the game -/
theorem setMany_restore (g : Game) (l : List (Pos × Option Piece)) (hv : ∀ e ∈ l, e.1.Valid) (hc : g.CacheInv)
    (hl : ∀ q : Pos, q.Valid → lookupLast q l (g.get q) = g.get q) : g.setMany l = g := by
  obtain ⟨h1, h2, h3, h4, h5, h6, h7, h8, h9, h10⟩ := setMany_spec g l hv hc
  exact restore hc h1 (fun q hq => by rw [h10 q hq, hl q hq]) h2 h3 h4 h5 h6 h7 h8 h9

end Game
end Chess

namespace Chess
namespace Game

theorem unapply_apply_normal (g : Game) (pc : Piece) (start stop : Pos) (cap : Option Piece)
    (hf : g.Fits (.normal pc start stop cap)) (hc : g.CacheInv) :
    unapplyMove (applyMoveG g (.normal pc start stop cap)) (.normal pc start stop cap) = g := by
  obtain ⟨hs, he, hne, hgs, hge, hk⟩ := hf
  have hrest : g.setMany [(start, none), (stop, some pc), (start, some pc), (stop, cap)] = g := by
    apply setMany_restore g _ _ hc
    · intro q hq
      simp only [lookupLast]
      by_cases e1 : q = stop
      · subst e1; simp [hge]
      · by_cases e2 : q = start
        · subst e2; simp [e1, hgs]
        · simp [e1, e2]
    · intro e he'
      simp only [List.mem_cons, List.mem_nil_iff, or_false] at he'
      rcases he' with rfl | rfl | rfl | rfl <;> assumption
  simp only [setMany] at hrest
  by_cases hking : pc.pieceType = .king
  · simp only [applyMoveG, unapplyMove, hking, if_true]
    simp only [setKingPos_setPosition, setKingPos_setKingPos, setKingPos_player, setPosition_player]
    rw [hrest]
    rw [← hk hking]
    exact setKingPos_self g g.player
  · simp only [applyMoveG, unapplyMove, hking, if_false]
    exact hrest

theorem unapply_apply_promotion (g : Game) (owner : Player) (t : PieceType) (start stop : Pos)
    (cap : Option Piece) (hf : g.Fits (.promotion owner t start stop cap)) (hc : g.CacheInv) :
    unapplyMove (applyMoveG g (.promotion owner t start stop cap)) (.promotion owner t start stop cap) = g := by
  obtain ⟨hs, he, hne, hgs, hge⟩ := hf
  have hrest : g.setMany [(start, none), (stop, some ⟨t, owner⟩), (start, some ⟨.pawn, owner⟩), (stop, cap)] = g := by
    apply setMany_restore g _ _ hc
    · intro q hq
      simp only [lookupLast]
      by_cases e1 : q = stop
      · subst e1; simp [hge]
      · by_cases e2 : q = start
        · subst e2; simp [e1, hgs]
        · simp [e1, e2]
    · intro e he'
      simp only [List.mem_cons, List.mem_nil_iff, or_false] at he'
      rcases he' with rfl | rfl | rfl | rfl <;> assumption
  simp only [setMany] at hrest
  exact hrest

theorem unapply_apply_enPassant (g : Game) (owner : Player) (sc ec : Int)
    (hf : g.Fits (.enPassant owner sc ec)) (hc : g.CacheInv) :
    unapplyMove (applyMoveG g (.enPassant owner sc ec)) (.enPassant owner sc ec) = g := by
  obtain ⟨h1, h2, h3, h4, hne, hold, hnew, htaken⟩ := hf
  obtain ⟨v1, v2, v3⟩ := epSquares_valid owner sc ec h1 h2 h3 h4
  obtain ⟨n1, n2, n3⟩ := epSquares_ne owner sc ec hne
  have hshape : unapplyMove (applyMoveG g (.enPassant owner sc ec)) (.enPassant owner sc ec)
      = g.setMany [((epSquares owner sc ec).2.2, none), ((epSquares owner sc ec).1, none),
          ((epSquares owner sc ec).2.1, some ⟨.pawn, owner⟩), ((epSquares owner sc ec).2.1, none),
          ((epSquares owner sc ec).2.2, some ⟨.pawn, owner.other⟩),
          ((epSquares owner sc ec).1, some ⟨.pawn, owner⟩)] := by
    cases owner <;> rfl
  rw [hshape]
  generalize (epSquares owner sc ec).1 = a at *
  generalize (epSquares owner sc ec).2.1 = b at *
  generalize (epSquares owner sc ec).2.2 = c at *
  apply setMany_restore g _ _ hc
  · intro q hq
    simp only [lookupLast]
    by_cases e1 : q = a
    · subst e1; simp [hold]
    · by_cases e2 : q = c
      · subst e2; simp [e1, htaken]
      · by_cases e3 : q = b
        · subst e3; simp [e1, e2, hnew]
        · simp [e1, e2, e3]
  · intro e he'
    simp only [List.mem_cons, List.mem_nil_iff, or_false] at he'
    rcases he' with rfl | rfl | rfl | rfl | rfl | rfl <;> assumption

theorem unapply_apply_castlingShort (g : Game) (owner : Player)
    (hf : g.Fits (.castlingShort owner)) (hc : g.CacheInv) :
    unapplyMove (applyMoveG g (.castlingShort owner)) (.castlingShort owner) = g := by
  obtain ⟨hown, hkp, hking, hrook, he5, he6⟩ := hf
  have v4 := homeRow_valid owner 4 (by omega) (by omega)
  have v5 := homeRow_valid owner 5 (by omega) (by omega)
  have v6 := homeRow_valid owner 6 (by omega) (by omega)
  have v7 := homeRow_valid owner 7 (by omega) (by omega)
  have hshape : unapplyMove (applyMoveG g (.castlingShort owner)) (.castlingShort owner)
      = ((g.setMany [(⟨homeRow owner, 7⟩, none), (⟨homeRow owner, 4⟩, none),
          (⟨homeRow owner, 5⟩, some ⟨.rook, owner⟩), (⟨homeRow owner, 6⟩, some ⟨.king, owner⟩),
          (⟨homeRow owner, 5⟩, none), (⟨homeRow owner, 6⟩, none),
          (⟨homeRow owner, 7⟩, some ⟨.rook, owner⟩), (⟨homeRow owner, 4⟩, some ⟨.king, owner⟩)]).setKingPos
          g.player ⟨homeRow owner, 6⟩).setKingPos owner ⟨homeRow owner, 4⟩ := by
    simp only [applyMoveG, unapplyMove, setMany, setKingPos_setPosition, setPosition_player]
  rw [hshape, setMany_restore g _ _ hc, ← hown, setKingPos_setKingPos, ← hkp]
  · exact setKingPos_self g owner
  · intro q hq
    simp only [lookupLast]
    have n45 : (⟨homeRow owner, 4⟩ : Pos) ≠ ⟨homeRow owner, 5⟩ := by simp
    have n46 : (⟨homeRow owner, 4⟩ : Pos) ≠ ⟨homeRow owner, 6⟩ := by simp
    have n47 : (⟨homeRow owner, 4⟩ : Pos) ≠ ⟨homeRow owner, 7⟩ := by simp
    have n56 : (⟨homeRow owner, 5⟩ : Pos) ≠ ⟨homeRow owner, 6⟩ := by simp
    have n57 : (⟨homeRow owner, 5⟩ : Pos) ≠ ⟨homeRow owner, 7⟩ := by simp
    have n67 : (⟨homeRow owner, 6⟩ : Pos) ≠ ⟨homeRow owner, 7⟩ := by simp
    by_cases e4 : q = ⟨homeRow owner, 4⟩
    · subst e4; simp [hking]
    · by_cases e7 : q = ⟨homeRow owner, 7⟩
      · subst e7; simp [hrook, n47.symm]
      · by_cases e6 : q = ⟨homeRow owner, 6⟩
        · subst e6; simp [he6, n46.symm, n67]
        · by_cases e5 : q = ⟨homeRow owner, 5⟩
          · subst e5; simp [he5, n45.symm, n56, n57]
          · simp [e4, e5, e6, e7]
  · intro e he'
    simp only [List.mem_cons, List.mem_nil_iff, or_false] at he'
    rcases he' with rfl | rfl | rfl | rfl | rfl | rfl | rfl | rfl <;> assumption

theorem unapply_apply_castlingLong (g : Game) (owner : Player)
    (hf : g.Fits (.castlingLong owner)) (hc : g.CacheInv) :
    unapplyMove (applyMoveG g (.castlingLong owner)) (.castlingLong owner) = g := by
  obtain ⟨hown, hkp, hking, hrook, he3, he2⟩ := hf
  have v4 := homeRow_valid owner 4 (by omega) (by omega)
  have v3 := homeRow_valid owner 3 (by omega) (by omega)
  have v2 := homeRow_valid owner 2 (by omega) (by omega)
  have v0 := homeRow_valid owner 0 (by omega) (by omega)
  have hshape : unapplyMove (applyMoveG g (.castlingLong owner)) (.castlingLong owner)
      = ((g.setMany [(⟨homeRow owner, 0⟩, none), (⟨homeRow owner, 4⟩, none),
          (⟨homeRow owner, 3⟩, some ⟨.rook, owner⟩), (⟨homeRow owner, 2⟩, some ⟨.king, owner⟩),
          (⟨homeRow owner, 3⟩, none), (⟨homeRow owner, 2⟩, none),
          (⟨homeRow owner, 0⟩, some ⟨.rook, owner⟩), (⟨homeRow owner, 4⟩, some ⟨.king, owner⟩)]).setKingPos
          g.player ⟨homeRow owner, 2⟩).setKingPos owner ⟨homeRow owner, 4⟩ := by
    simp only [applyMoveG, unapplyMove, setMany, setKingPos_setPosition, setPosition_player]
  rw [hshape, setMany_restore g _ _ hc, ← hown, setKingPos_setKingPos, ← hkp]
  · exact setKingPos_self g owner
  · intro q hq
    simp only [lookupLast]
    have n43 : (⟨homeRow owner, 4⟩ : Pos) ≠ ⟨homeRow owner, 3⟩ := by simp
    have n42 : (⟨homeRow owner, 4⟩ : Pos) ≠ ⟨homeRow owner, 2⟩ := by simp
    have n40 : (⟨homeRow owner, 4⟩ : Pos) ≠ ⟨homeRow owner, 0⟩ := by simp
    have n32 : (⟨homeRow owner, 3⟩ : Pos) ≠ ⟨homeRow owner, 2⟩ := by simp
    have n30 : (⟨homeRow owner, 3⟩ : Pos) ≠ ⟨homeRow owner, 0⟩ := by simp
    have n20 : (⟨homeRow owner, 2⟩ : Pos) ≠ ⟨homeRow owner, 0⟩ := by simp
    by_cases e4 : q = ⟨homeRow owner, 4⟩
    · subst e4; simp [hking]
    · by_cases e0 : q = ⟨homeRow owner, 0⟩
      · subst e0; simp [hrook, n40.symm]
      · by_cases e2 : q = ⟨homeRow owner, 2⟩
        · subst e2; simp [he2, n42.symm, n20]
        · by_cases e3 : q = ⟨homeRow owner, 3⟩
          · subst e3; simp [he3, n43.symm, n32, n30]
          · simp [e4, e3, e2, e0]
  · intro e he'
    simp only [List.mem_cons, List.mem_nil_iff, or_false] at he'
    rcases he' with rfl | rfl | rfl | rfl | rfl | rfl | rfl | rfl <;> assumption

/-- **Take-back restores the game exactly**: equality of the whole structure — board, both
caches, score, hash, king squares, side, state stack, move record, phase. -/
theorem pop_push (g : Game) (m : Move) (hf : g.Fits m) (hc : g.CacheInv) : (g.push m).pop m = g := by
  rw [pop_push_eq]
  cases m with
  | normal pc start stop cap => exact unapply_apply_normal g pc start stop cap hf hc
  | promotion owner t start stop cap => exact unapply_apply_promotion g owner t start stop cap hf hc
  | enPassant owner sc ec => exact unapply_apply_enPassant g owner sc ec hf hc
  | castlingShort owner => exact unapply_apply_castlingShort g owner hf hc
  | castlingLong owner => exact unapply_apply_castlingLong g owner hf hc

end Game
end Chess
