import Chess.Lemmas.Mate2Aux2

/-!
# Mate in two with the table switched off: the move loop, null-window re-search included

With the C09 hook on (`ttOff = true`) the table is emptied at every poll, so no look-up ever hits
and what is stored never matters: only the RETURNED values do. For them the invariant goes through
the null-window re-search, for every window (empty and inverted ones too), in every game. The
notions are the depth-indexed ones: `WinP r`/`LoseP r`, "as seen with `r` plies left", for which the
search is both sound (`ClaimsP`) and complete (`ComplP`).
-/
namespace Chess.Search.Mate2
open Chess.Search Chess.Search.Mate

variable {G M : Type}

def ClaimsP (o : Ops G M) (rem : Nat) (x : G) (a b v : Int) : Prop :=
  (v ≤ max a evalBound ∨ WinP o rem x) ∧ (min b (-evalBound) ≤ v ∨ LoseP o rem x)

def ComplP (o : Ops G M) (rem : Nat) (x : G) (a b v : Int) : Prop :=
  (WinP o rem x → min b (evalBound + 1) ≤ v) ∧ (LoseP o rem x → v ≤ max a (-evalBound - 1))

/-- the state with the hook on: the table is emptied at every poll; between two polls it only holds
entries of depth at most `D` -/
def OffOk (D : Nat) (st : St M) : Prop :=
  st.ttOff = true ∧ ∀ (h : UInt64) (e : Entry M), st.tt[h]? = some e → e.depth ≤ D

/-- the contract of a child call with the table off: every window in the 16-bit range -/
def ChildOff (o : Ops G M) (D : Nat)
    (child : G → Int → Int → Int → St M → Option (Int × St M))
    (remc : Nat) (c : G) (rdc : Int) : Prop :=
  ∀ a b st, scoreMin ≤ a → b ≤ -scoreMin → OffOk D st →
    ∃ v st', child c a b rdc st = some (v, st') ∧ OffOk D st' ∧ RngS a b v ∧
      ClaimsP o remc c a b v ∧ ComplP o remc c a b v

theorem WinP.of_move {o : Ops G M} {x : G} {m : M} {r : Nat} (hm : m ∈ o.checked x)
    (h : LoseP o r (o.push x m)) : WinP o (r + 1) x := ⟨m, hm, h⟩

/-- the loop invariant; `a` is the `alpha` the node was called with, `PW`: the moves tried so far
all lead to positions won for the opponent, `pend`: a move into a position lost for the opponent is
still to come, `first`: no move has been tried -/
structure OInv (o : Ops G M) (remc : Nat) (x : G) (a β : Int) (PW pend first : Prop)
    (alpha bs : Int) : Prop where
  lo : a ≤ alpha
  bsl : scoreMin ≤ bs
  bsa : bs ≤ alpha
  nU : alpha ≤ max a mS
  nL : first ∨ min β (-mS) ≤ alpha
  cU : alpha ≤ max a evalBound ∨ WinP o (remc + 1) x
  cL : PW ∨ min β (-evalBound) ≤ alpha
  cW : WinP o (remc + 1) x → pend ∨ evalBound < alpha ∨ β ≤ alpha
  cLo : (∀ m ∈ o.checked x, WinP o remc (o.push x m)) → alpha ≤ max a (-evalBound - 1)

theorem OInv.imp {o : Ops G M} {remc : Nat} {x : G} {a β : Int}
    {PW pend first PW' pend' first' : Prop} {alpha bs : Int}
    (h : OInv o remc x a β PW pend first alpha bs) (h1 : PW → PW') (h2 : pend → pend')
    (h3 : first → first') : OInv o remc x a β PW' pend' first' alpha bs where
  lo := h.lo
  bsl := h.bsl
  bsa := h.bsa
  nU := h.nU
  nL := h.nL.imp h3 id
  cU := h.cU
  cL := h.cL.imp h1 id
  cW := fun hw => (h.cW hw).imp h2 id
  cLo := h.cLo

theorem OInv.of_cut {o : Ops G M} {remc : Nat} {x : G} {a β : Int}
    {PW pend PW' pend' first' : Prop} {alpha bs : Int}
    (h : OInv o remc x a β PW pend False alpha bs) (hc : β ≤ alpha) :
    OInv o remc x a β PW' pend' first' alpha bs where
  lo := h.lo
  bsl := h.bsl
  bsa := h.bsa
  nU := h.nU
  nL := Or.inr (by rcases h.nL with k | k; exact absurd k id; exact k)
  cU := h.cU
  cL := Or.inr (by omega)
  cW := fun _ => Or.inr (Or.inr hc)
  cLo := h.cLo

/-- a full-window step -/
theorem OInv.full {o : Ops G M} {remc : Nat} {x : G} {a β : Int} {PW first : Prop}
    {alpha bs : Int} {m : M} {ms : List M} {v : Int}
    (h : OInv o remc x a β PW (∃ m' ∈ m :: ms, LoseP o remc (o.push x m')) first alpha bs)
    (hm : m ∈ o.checked x) (r : RngS (-β) (-alpha) v)
    (c : ClaimsP o remc (o.push x m) (-β) (-alpha) v)
    (p : ComplP o remc (o.push x m) (-β) (-alpha) v) :
    OInv o remc x a β (PW ∧ WinP o remc (o.push x m)) (∃ m' ∈ ms, LoseP o remc (o.push x m'))
      False (max alpha (-v)) (max bs (-v)) := by
  have hE := evalBound_le_mS
  have hlo := h.lo
  have hbsl := h.bsl
  have hbsa := h.bsa
  have hnU := h.nU
  unfold RngS at r
  obtain ⟨r1, r2⟩ := r
  obtain ⟨c1, c2⟩ := c
  refine ⟨by omega, by omega, by omega, by omega, Or.inr (by omega), ?_, ?_, ?_, fun hall => ?_⟩
  · rcases h.cU with k | k
    · rcases c2 with k3 | k3
      · exact Or.inl (by omega)
      · exact Or.inr (WinP.of_move hm k3)
    · exact Or.inr k
  · rcases c1 with k3 | k3
    · exact Or.inr (by omega)
    · rcases h.cL with k | k
      · exact Or.inl ⟨k, k3⟩
      · exact Or.inr (by omega)
  · intro hw
    rcases h.cW hw with ⟨m', hm', hL⟩ | k | k
    · rcases List.mem_cons.1 hm' with rfl | hm'
      · have := p.2 hL
        by_cases hb : β ≤ max alpha (-v)
        · exact Or.inr (Or.inr hb)
        · exact Or.inr (Or.inl (by omega))
      · exact Or.inl ⟨m', hm', hL⟩
    · exact Or.inr (Or.inl (by omega))
    · exact Or.inr (Or.inr (by omega))
  · have := h.cLo hall
    have := p.1 (hall m hm)
    omega

/-- a null-window probe that does not beat the best score: nothing changes -/
theorem OInv.keep {o : Ops G M} {remc : Nat} {x : G} {a β : Int} {PW : Prop}
    {alpha bs : Int} {m : M} {ms : List M} {v : Int}
    (h : OInv o remc x a β PW (∃ m' ∈ m :: ms, LoseP o remc (o.push x m')) False alpha bs)
    (c : ClaimsP o remc (o.push x m) (-alpha - 1) (-alpha) v)
    (p : ComplP o remc (o.push x m) (-alpha - 1) (-alpha) v) (ht : ¬ -v > bs) :
    OInv o remc x a β (PW ∧ WinP o remc (o.push x m)) (∃ m' ∈ ms, LoseP o remc (o.push x m'))
      False alpha bs := by
  have hbsa := h.bsa
  obtain ⟨c1, c2⟩ := c
  refine ⟨h.lo, h.bsl, h.bsa, h.nU, h.nL, h.cU, ?_, ?_, h.cLo⟩
  · rcases c1 with k3 | k3
    · exact Or.inr (by omega)
    · rcases h.cL with k | k
      · exact Or.inl ⟨k, k3⟩
      · exact Or.inr k
  · intro hw
    rcases h.cW hw with ⟨m', hm', hL⟩ | k | k
    · rcases List.mem_cons.1 hm' with rfl | hm'
      · have := p.2 hL
        exact Or.inr (Or.inl (by omega))
      · exact Or.inl ⟨m', hm', hL⟩
    · exact Or.inr (Or.inl k)
    · exact Or.inr (Or.inr k)

/-- a null-window probe followed by the re-search -/
theorem OInv.research {o : Ops G M} {remc : Nat} {x : G} {a β : Int} {PW : Prop}
    {alpha bs : Int} {m : M} {ms : List M} {v v2 : Int}
    (h : OInv o remc x a β PW (∃ m' ∈ m :: ms, LoseP o remc (o.push x m')) False alpha bs)
    (hab : alpha < β) (ha : scoreMin ≤ a)
    (hm : m ∈ o.checked x) (r : RngS (-alpha - 1) (-alpha) v)
    (c : ClaimsP o remc (o.push x m) (-alpha - 1) (-alpha) v)
    (p : ComplP o remc (o.push x m) (-alpha - 1) (-alpha) v)
    (r' : RngS (-β) (- -v) v2) (c' : ClaimsP o remc (o.push x m) (-β) (- -v) v2)
    (p' : ComplP o remc (o.push x m) (-β) (- -v) v2) :
    OInv o remc x a β (PW ∧ WinP o remc (o.push x m)) (∃ m' ∈ ms, LoseP o remc (o.push x m'))
      False (max alpha (-v2)) (-v2) := by
  have hE := evalBound_le_mS
  have hmS : mS = 32668 := by decide
  have hsm : scoreMin = -32768 := rfl
  have hlo := h.lo
  have hnU := h.nU
  have hnL : min β (-mS) ≤ alpha := by
    rcases h.nL with k | k
    · exact k.elim
    · exact k
  unfold RngS at r r'
  obtain ⟨r1, r2⟩ := r
  obtain ⟨r1', r2'⟩ := r'
  obtain ⟨c1, c2⟩ := c
  obtain ⟨c1', c2'⟩ := c'
  refine ⟨by omega, by omega, by omega, by omega, Or.inr (by omega), ?_, ?_, ?_, fun hall => ?_⟩
  · rcases h.cU with k | k
    · rcases c2 with k3 | k3
      · rcases c2' with k4 | k4
        · exact Or.inl (by omega)
        · exact Or.inr (WinP.of_move hm k4)
      · exact Or.inr (WinP.of_move hm k3)
    · exact Or.inr k
  · rcases c1' with k3 | k3
    · exact Or.inr (by omega)
    · rcases h.cL with k | k
      · exact Or.inl ⟨k, k3⟩
      · exact Or.inr (by omega)
  · intro hw
    rcases h.cW hw with ⟨m', hm', hL⟩ | k | k
    · rcases List.mem_cons.1 hm' with rfl | hm'
      · have := p'.2 hL
        by_cases hb : β ≤ max alpha (-v2)
        · exact Or.inr (Or.inr hb)
        · exact Or.inr (Or.inl (by omega))
      · exact Or.inl ⟨m', hm', hL⟩
    · exact Or.inr (Or.inl (by omega))
    · exact Or.inr (Or.inr (by omega))
  · have := h.cLo hall
    have := p.1 (hall m hm)
    have := p'.1 (hall m hm)
    omega

/-- the step, whatever the index -/
theorem nodeStep_off (o : Ops G M) (D : Nat) (child : G → Int → Int → Int → St M → Option (Int × St M))
    (x : G) (remc : Nat) (rd a β : Int) (hβ : β ≤ -scoreMin) (hα : scoreMin ≤ a) (m : M)
    (ms : List M) (hm : m ∈ o.checked x) (hc : ChildOff o D child remc (o.push x m) (rd + 1))
    (index : Nat) (alpha bs : Int) (bm : Option M) (st : St M) (PW first : Prop)
    (hfi : first → index = 0) (ht : OffOk D st) (hab : alpha < β)
    (hI : OInv o remc x a β PW (∃ m' ∈ m :: ms, LoseP o remc (o.push x m')) first alpha bs) :
    ∃ alpha' bs' bm' st', nodeStep o child x rd β m index alpha bs bm st =
        some (alpha', bs', bm', st') ∧ OffOk D st' ∧
      OInv o remc x a β (PW ∧ WinP o remc (o.push x m))
        (∃ m' ∈ ms, LoseP o remc (o.push x m')) False alpha' bs' := by
  have hsm : scoreMin = -32768 := rfl
  have hlo := hI.lo
  have hbsl := hI.bsl
  unfold nodeStep
  simp only []
  by_cases hidx : index ≤ Gen.fullWindowMaxIndex
  · rw [if_pos hidx]
    obtain ⟨v, st1, he, ht1, r, c, p⟩ := hc (-β) (-alpha) st (by omega) (by omega) ht
    rw [he]
    simp only []
    have hI' := hI.full hm r c p
    by_cases hs : -v > bs
    · simp only [hs, if_true]
      refine ⟨_, _, _, _, rfl, ht1, ?_⟩
      rwa [show max bs (-v) = -v by omega] at hI'
    · simp only [hs, if_false]
      refine ⟨_, _, _, _, rfl, ht1, ?_⟩
      rwa [show max bs (-v) = bs by omega] at hI'
  · rw [if_neg hidx]
    have hnf : ¬ first := fun k => by
      have := hfi k
      simp only [Gen.fullWindowMaxIndex] at hidx
      omega
    have hI0 : OInv o remc x a β PW (∃ m' ∈ m :: ms, LoseP o remc (o.push x m')) False alpha bs :=
      hI.imp id id (fun k => hnf k)
    obtain ⟨v, st1, he, ht1, r, c, p⟩ := hc (-alpha - 1) (-alpha) st (by omega) (by omega) ht
    rw [he]
    simp only []
    by_cases hs : -v > bs
    · simp only [hs, if_true]
      obtain ⟨v2, st2, he2, ht2, r', c', p'⟩ := hc (-β) (- -v) st1 (by omega) (by omega) ht1
      rw [he2]
      simp only []
      exact ⟨_, _, _, _, rfl, ht2, hI0.research hab hα hm r c p r' c' p'⟩
    · simp only [hs, if_false]
      exact ⟨_, _, _, _, rfl, ht1, hI0.keep c p hs⟩

/-- **The move loop of an interior node with the table off**, null-window re-search included. -/
theorem nodeLoop_off (o : Ops G M) (D : Nat) (child : G → Int → Int → Int → St M → Option (Int × St M))
    (x : G) (remc : Nat) (rd a β : Int) (hβ : β ≤ -scoreMin) (hα : scoreMin ≤ a) :
    ∀ (ms : List M), (∀ m ∈ ms, m ∈ o.checked x ∧ ChildOff o D child remc (o.push x m) (rd + 1)) →
      ∀ (index : Nat) (alpha bs : Int) (bm : Option M) (st : St M) (PW first : Prop),
        (first → index = 0) → OffOk D st → alpha < β →
        OInv o remc x a β PW (∃ m ∈ ms, LoseP o remc (o.push x m)) first alpha bs →
        ∃ out, nodeLoop o child x (remc + 1) rd β ms index alpha bs bm st = some out ∧
          OffOk D out.st ∧
          OInv o remc x a β (PW ∧ ∀ m ∈ ms, WinP o remc (o.push x m)) False (first ∧ ms = [])
            out.alpha out.bestScore := by
  intro ms
  induction ms with
  | nil =>
    intro _ index alpha bs bm st PW first _ ht _ hI
    refine ⟨⟨alpha, bs, bm, st⟩, rfl, ht, hI.imp (fun k => ⟨k, fun _ h => by cases h⟩) ?_
      (fun k => ⟨k, rfl⟩)⟩
    rintro ⟨_, h, _⟩
    cases h
  | cons m ms ih =>
    intro hc index alpha bs bm st PW first hfi ht hab hI
    obtain ⟨hm, hcm⟩ := hc m List.mem_cons_self
    obtain ⟨alpha', bs', bm', st', hs, ht', hI'⟩ := nodeStep_off o D child x remc rd a β hβ hα m ms
      hm hcm index alpha bs bm st PW first hfi ht hab hI
    rw [nodeLoop_cons, hs]
    simp only []
    by_cases hcut : alpha' ≥ β
    · simp only [hcut, if_true]
      refine ⟨_, rfl, ?_, hI'.of_cut hcut⟩
      cases o.histIdx m <;> exact ht'
    · simp only [hcut, if_false]
      obtain ⟨out, k1, k2, k3⟩ := ih (fun m' hm' => hc m' (List.mem_cons_of_mem _ hm'))
        (index + 1) alpha' bs' bm' st' (PW ∧ WinP o remc (o.push x m)) False
        (fun k => k.elim) ht' (by omega) hI'
      refine ⟨out, k1, k2, k3.imp ?_ id (fun k => k.1.elim)⟩
      rintro ⟨⟨k4, k5⟩, k6⟩
      refine ⟨k4, fun m' hm' => ?_⟩
      rcases List.mem_cons.1 hm' with rfl | hm'
      · exact k5
      · exact k6 m' hm'

end Chess.Search.Mate2
