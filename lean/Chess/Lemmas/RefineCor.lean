import Chess.Lemmas.RefineSquare

/-!
# C02 — corollaries of the refinement square
-/
namespace Chess

/-- the rules, move after move -/
def Spec.playAll (a : Spec.APos) (us : List Spec.UciMove) : Spec.APos := us.foldl Spec.play a

namespace Game

/-- the engine, move after move -/
def pushAll (g : Game) (ms : List Move) : Game := ms.foldl push g

/-- each move is generated in the game reached so far (which is well-formed — preservation of
`WF` is proved elsewhere, here it is carried along) and satisfies the side condition -/
def GeneratedSeq : Game → List Move → Prop
  | _, [] => True
  | g, m :: ms => g.WF ∧ m ∈ g.pseudoMoves ∧ g.HomeSafe m ∧ GeneratedSeq (g.push m) ms

/-- **the refinement square, iterated**: a whole line of generated moves -/
theorem pushAll_abs : ∀ (ms : List Move) (g : Game), GeneratedSeq g ms →
    (pushAll g ms).abs = Spec.playAll g.abs (ms.map Move.toSpec)
  | [], _, _ => rfl
  | m :: ms, g, ⟨hw, hm, hh, hrest⟩ => by
    show (pushAll (g.push m) ms).abs = Spec.playAll (Spec.play g.abs m.toSpec) (ms.map Move.toSpec)
    rw [pushAll_abs ms (g.push m) hrest, push_abs hw hm hh]

variable {g : Game} {m : Move}

/-! ### en passant after a double step -/

theorem push_abs_at (g : Game) (m : Move) (s : Spec.Sq) :
    (g.push m).abs.at s = Spec.atB_rf (applyMoveG g m).board s := by
  rw [← push_board]; rfl

/-- **the en-passant file is recorded exactly after a double pawn step that lands beside an
enemy pawn** -/
theorem ep_after_double_push_iff (hw : g.WF) (hm : m ∈ g.pseudoMoves) (f : Nat) :
    (g.push m).abs.ep = some f ↔
      ∃ start stop, m = .normal ⟨.pawn, g.player⟩ start stop none
        ∧ (stop.row - start.row).natAbs = 2 ∧ stop.col = start.col ∧ start.col = (f : Int)
        ∧ ((g.push m).abs.at (stop.row, stop.col - 1) = some ⟨.pawn, g.player.other⟩
            ∨ (g.push m).abs.at (stop.row, stop.col + 1) = some ⟨.pawn, g.player.other⟩) := by
  obtain ⟨hf, hmo⟩ := generated_fits hw hm
  have hs := generated_shape_rf hw hm
  rw [abs_ep_rf, push_top_rf]
  cases m with
  | normal pc start stop cap =>
    obtain ⟨hv1, hv2, hne, hg1, hg2, hk⟩ := hf
    rw [pushState_ep_normal g pc start stop cap hv1, besideTest_eq _ stop hv2]
    have hb : (applyMoveG g (.normal pc start stop cap)).board
        = ((g.setPosition start none).setPosition stop (some pc)).board := by
      simp only [applyMoveG]; split <;> simp
    simp only [push_abs_at, hb]
    have hc0 := hv1.2.2.1
    constructor
    · intro h
      split at h
      · rename_i hc
        simp only [Bool.and_eq_true, decide_eq_true_eq, Bool.or_eq_true] at hc
        obtain ⟨⟨hp, hd⟩, hbes⟩ := hc
        have hpc : pc = ⟨.pawn, g.player⟩ := piece_eq hp hmo.1
        obtain ⟨-, hpawn, -⟩ := hs
        obtain ⟨-, hstep, -⟩ := hpawn hp
        have hcol : stop.col = start.col ∧ cap = none := by
          rcases hstep with h1 | ⟨_, h2, h3⟩
          · exfalso; rw [h1] at hd; cases hpo : pc.owner <;> rw [hpo] at hd <;> simp only [fwd] at hd <;> omega
          · exact ⟨h2, h3⟩
        obtain ⟨hcol, rfl⟩ := hcol
        subst hpc
        simp only [Option.some.injEq] at h
        exact ⟨start, stop, rfl, hd, hcol, by omega, hbes⟩
      · cases h
    · rintro ⟨start', stop', he, hd, hcol, hfile, hbes⟩
      simp only [Move.normal.injEq] at he
      obtain ⟨rfl, rfl, rfl, rfl⟩ := he
      have : (decide ((⟨.pawn, g.player⟩ : Piece).pieceType = .pawn)
          && decide ((stop.row - start.row).natAbs = 2)
          && (decide (Spec.atB_rf ((g.setPosition start none).setPosition stop (some ⟨.pawn, g.player⟩)).board
                (stop.row, stop.col - 1) = some ⟨.pawn, g.player.other⟩)
              || decide (Spec.atB_rf ((g.setPosition start none).setPosition stop (some ⟨.pawn, g.player⟩)).board
                (stop.row, stop.col + 1) = some ⟨.pawn, g.player.other⟩))) = true := by
        simp only [Bool.and_eq_true, decide_eq_true_eq, Bool.or_eq_true]
        exact ⟨⟨trivial, hd⟩, hbes⟩
      rw [if_pos this]
      congr 1; omega
  | promotion o t start stop cap =>
    rw [pushState_promotion_rf]
    have h1 : epOf (clearCaptured (g.top.setEnPassant 8) cap stop) = none := by
      rw [← epOf_reset g]; unfold epOf; rw [clearCaptured_ep]
    rw [h1]
    constructor
    · intro h; cases h
    · rintro ⟨_, _, he, _⟩; cases he
  | enPassant o sc ec =>
    rw [pushState_enPassant_rf, epOf_reset]
    constructor
    · intro h; cases h
    · rintro ⟨_, _, he, _⟩; cases he
  | castlingShort o =>
    rw [pushState_castlingShort_rf, epOf_clearBoth_reset]
    constructor
    · intro h; cases h
    · rintro ⟨_, _, he, _⟩; cases he
  | castlingLong o =>
    rw [pushState_castlingLong_rf, epOf_clearBoth_reset]
    constructor
    · intro h; cases h
    · rintro ⟨_, _, he, _⟩; cases he

/-! ### a rook captured on its home square takes the castling right with it -/

/-- **any generated move arriving on a rook's home square removes that right** — in the engine
(which looks at the captured piece) as in the rules (which look at the square) -/
theorem right_lost_on_rook_home (hw : g.WF) (hm : m ∈ g.pseudoMoves) (pl : Player) (ks : Bool)
    (hdst : m.toSpec.dst = (homeRow pl, if ks then 7 else 0)) :
    (g.push m).abs.right pl ks = false ∧ (Spec.play g.abs m.toSpec).right pl ks = false := by
  obtain ⟨hf, hmo⟩ := generated_fits hw hm
  obtain ⟨pc0, hsrc, -⟩ := src_mover hf hmo
  constructor
  · rw [abs_right, push_top_rf]
    cases hr : g.top.right pl ks with
    | false =>
      -- a right that is not there does not come back
      cases m with
      | normal pc start stop cap =>
        rw [pushState_right_normal g pc start stop cap hf.1, hr]; rfl
      | promotion o t start stop cap =>
        rw [pushState_promotion_rf, clearCaptured_right, setEnPassant_right _ 8 (by omega) (by omega), hr]; rfl
      | enPassant o sc ec =>
        rw [pushState_enPassant_rf, setEnPassant_right _ 8 (by omega) (by omega), hr]
      | castlingShort o =>
        rw [pushState_castlingShort_rf, clearBoth_right, setEnPassant_right _ 8 (by omega) (by omega), hr]; rfl
      | castlingLong o =>
        rw [pushState_castlingLong_rf, clearBoth_right, setEnPassant_right _ 8 (by omega) (by omega), hr]; rfl
    | true =>
      obtain ⟨hR, -, -⟩ := rightsInv_right hw.rights hr
      cases m with
      | normal pc start stop cap =>
        have e : stop = rookHome pl ks := (sq_eq_iff _ _ _).1 hdst
        rw [pushState_right_normal g pc start stop cap hf.1]
        have : cap = some ⟨.rook, pl⟩ := by rw [← hf.2.2.2.2.1, e]; exact hR
        simp [this, e]
      | promotion o t start stop cap =>
        have e : stop = rookHome pl ks := (sq_eq_iff _ _ _).1 hdst
        rw [pushState_promotion_rf, clearCaptured_right]
        have : cap = some ⟨.rook, pl⟩ := by rw [← hf.2.2.2.2, e]; exact hR
        simp [this, e]
      | enPassant o sc ec =>
        exfalso
        cases o <;> cases pl <;> simp [Move.toSpec, homeRow] at hdst
      | castlingShort o =>
        exfalso
        cases ks <;> simp [Move.toSpec] at hdst
      | castlingLong o =>
        exfalso
        cases ks <;> simp [Move.toSpec] at hdst
  · rw [Spec.play_right hsrc, spec_homeRow, hdst]
    simp

/-- **a promoting pawn that captures a rook on its home square removes that right** -/
theorem rights_after_rook_capture (hw : g.WF) {o : Player} {t : PieceType} {start stop : Pos}
    {pl : Player} {ks : Bool}
    (hm : Move.promotion o t start stop (some ⟨.rook, pl⟩) ∈ g.pseudoMoves)
    (hstop : stop = rookHome pl ks) :
    (g.push (.promotion o t start stop (some ⟨.rook, pl⟩))).abs.right pl ks = false
    ∧ (Spec.play g.abs (Move.toSpec (.promotion o t start stop (some ⟨.rook, pl⟩)))).right pl ks = false :=
  right_lost_on_rook_home hw hm pl ks (by subst hstop; rfl)

/-! ### where the square does not commute: the capture of a king that never moved

`Spec.play` withdraws a castling right as soon as the king's home square is touched; the engine's
`clearCaptured` only looks at captured *rooks*. So when an unchecked search line captures a king
standing on its home square with a right still set, the engine keeps that (now meaningless) right
and the rules drop it. This is the only way the square can fail (`push_abs_weak`, `push_abs`);
the side that lost its king is to move next and `get_moves` answers with the empty list. -/

theorem king_capture_rights_differ (hw : g.WF) (hm : m ∈ g.pseudoMoves) (ks : Bool)
    (hr : g.top.right g.player.other ks = true)
    (hdst : m.toSpec.dst = (homeRow g.player.other, 4)) :
    (g.push m).abs.right g.player.other ks = true
    ∧ (Spec.play g.abs m.toSpec).right g.player.other ks = false := by
  obtain ⟨hf, hmo⟩ := generated_fits hw hm
  obtain ⟨pc0, hsrc, -⟩ := src_mover hf hmo
  obtain ⟨hR, -, -⟩ := rightsInv_right hw.rights hr
  constructor
  · rw [abs_right, push_top_rf]
    cases m with
    | normal pc start stop cap =>
      have e : stop = ⟨homeRow g.player.other, 4⟩ := (sq_eq_iff _ _ _).1 hdst
      rw [pushState_right_normal g pc start stop cap hf.1, hr]
      have h2 : stop ≠ rookHome g.player.other ks := by
        rw [e]; cases ks <;> simp [rookHome]
      have h1 : start ≠ rookHome g.player.other ks := by
        intro e1
        have := hf.2.2.2.1
        rw [e1, hR] at this
        cases this
        exact absurd hmo.1 (Player.other_ne _)
      by_cases hk : pc.pieceType = .king
      · simp [hk, h2]
      · by_cases hrk : pc.pieceType = .rook
        · simp [hrk, h1, h2]
        · simp [hk, hrk, h2]
    | promotion o t start stop cap =>
      have e : stop = ⟨homeRow g.player.other, 4⟩ := (sq_eq_iff _ _ _).1 hdst
      have h2 : stop ≠ rookHome g.player.other ks := by
        rw [e]; cases ks <;> simp [rookHome]
      rw [pushState_promotion_rf, clearCaptured_right, setEnPassant_right _ 8 (by omega) (by omega), hr]
      simp [h2]
    | enPassant o sc ec =>
      exfalso
      generalize g.player.other = q at hdst
      cases o <;> cases q <;> simp [Move.toSpec, homeRow] at hdst
    | castlingShort o => simp [Move.toSpec] at hdst
    | castlingLong o => simp [Move.toSpec] at hdst
  · rw [Spec.play_right hsrc, spec_homeRow, hdst]
    simp

/-! ### the text of a move -/

/-- **the rules' text of a move is the engine's UCI text** (for every move, no hypothesis) -/
theorem toSpec_uci (m : Move) : (m.toSpec).text = m.uci := by
  cases m with
  | normal pc s e cap => rfl
  | promotion o t s e cap => cases t <;> rfl
  | castlingShort o => cases o <;> decide
  | castlingLong o => cases o <;> decide
  | enPassant o sc ec => cases o <;> rfl

end Game
end Chess

/-! ### The counterexample, executed

`4k3/8/8/8/8/8/4q3/4K2R b K -` (not a sane position: White, not to move, is in check). The
unchecked — and, the filter only protecting the mover's own king, also the checked — list
contains `e2e1`, the capture of the white king on its home square. Engine: `... w K -`,
rules: `... w - -`. Every other move of that position commutes. -/

def refineDemo (fen : String) : Nat × List (String × String × String) :=
  match Chess.Game.ofFen fen.toList with
  | .ok g =>
    (g.pseudoMoves.length, g.pseudoMoves.filterMap (fun m =>
      let a1 := (g.push m).abs
      let a2 := Chess.Spec.play g.abs m.toSpec
      if a1 ≠ a2 then
        some (String.ofList m.uci, String.ofList (Chess.Spec.render4 a1), String.ofList (Chess.Spec.render4 a2))
      else none))
  | _ => (0, [])

/-- info: (27, [("e2e1", "4k3/8/8/8/8/8/8/4q2R w K -", "4k3/8/8/8/8/8/8/4q2R w - -")]) -/
#guard_msgs in
#eval refineDemo "4k3/8/8/8/8/8/4q3/4K2R b K - 0 1"

/-- info: (31, []) -/
#guard_msgs in
#eval refineDemo "r3k2r/pPpp1ppp/8/3Pp3/8/8/P1PP2PP/R3K2R w KQkq e6 0 1"

#print axioms Chess.Game.king_capture_rights_differ
#print axioms Chess.Game.right_lost_on_rook_home
#print axioms Chess.Game.rights_after_rook_capture
#print axioms Chess.Game.toSpec_uci
#print axioms Chess.Game.pushAll_abs
#print axioms Chess.Game.ep_after_double_push_iff
