import Chess.Lemmas.Mate2Aux8

/-!
# Mate in two with the table switched off: root loop (null-window re-search included), root
search, driver — every game
-/
namespace Chess.Search.Mate2
open Chess.Search Chess.Search.Mate

variable {G M : Type}

/-- the invariant of the root loop with the table off: `PW`: the moves tried so far all lead to
positions won for the opponent, `pend`: a move into a position lost for the opponent is still to
come (only claimed under `cr`), `first`: no move has been tried -/
structure ROff (o : Ops G M) (cr : Prop) (remc : Nat) (g : G) (PW pend first : Prop) (bs : Int)
    (bm : Option M) : Prop where
  lo : scoreMin + 1 ≤ bs
  hi : bs ≤ mS
  nL : first ∨ -mS ≤ bs
  good : bs ≤ evalBound ∨ ∃ m, bm = some m ∧ m ∈ o.checked g ∧ LoseP o remc (o.push g m)
  low : PW ∨ -evalBound ≤ bs
  cmp : cr → pend ∨ evalBound < bs

theorem ROff.imp {o : Ops G M} {cr : Prop} {remc : Nat} {g : G}
    {PW pend first PW' pend' first' : Prop} {bs : Int} {bm : Option M}
    (h : ROff o cr remc g PW pend first bs bm) (h1 : PW → PW') (h2 : pend → pend')
    (h3 : first → first') : ROff o cr remc g PW' pend' first' bs bm where
  lo := h.lo
  hi := h.hi
  nL := h.nL.imp h3 id
  good := h.good
  low := h.low.imp h1 id
  cmp := fun k => (h.cmp k).imp h2 id

/-- a full-window step of the root loop -/
theorem ROff.full {o : Ops G M} {cr : Prop} {remc : Nat} {g : G} {PW first : Prop} {bs : Int}
    {bm : Option M} {m : M} {ms : List M} {v : Int}
    (h : ROff o cr remc g PW (∃ m' ∈ m :: ms, LoseP o remc (o.push g m')) first bs bm)
    (hm : m ∈ o.checked g) (r : RngS (scoreMin + 1) (-bs) v)
    (c : ClaimsP o remc (o.push g m) (scoreMin + 1) (-bs) v)
    (p : ComplP o remc (o.push g m) (scoreMin + 1) (-bs) v) :
    ROff o cr remc g (PW ∧ WinP o remc (o.push g m)) (∃ m' ∈ ms, LoseP o remc (o.push g m'))
      False (if -v > bs then -v else bs) (if -v > bs then some m else bm) := by
  have hE := evalBound_le_mS
  have hmS : mS = 32668 := by decide
  have hsm : scoreMin = -32768 := rfl
  have hEB : evalBound = 31767 := by decide
  have hlo := h.lo
  have hhi := h.hi
  unfold RngS at r
  obtain ⟨r1, r2⟩ := r
  obtain ⟨c1, c2⟩ := c
  have hcmp : ∀ bs1 : Int, -v ≤ bs1 → bs ≤ bs1 → cr →
      (∃ m' ∈ ms, LoseP o remc (o.push g m')) ∨ evalBound < bs1 := by
    intro bs1 h1 h2 hcr
    rcases h.cmp hcr with ⟨m', hm', hL⟩ | k
    · rcases List.mem_cons.1 hm' with rfl | hm'
      · have := p.2 hL
        exact Or.inr (by omega)
      · exact Or.inl ⟨m', hm', hL⟩
    · exact Or.inr (by omega)
  by_cases hsc : -v > bs
  · simp only [hsc, if_true]
    refine ⟨by omega, by omega, Or.inr (by omega), ?_, ?_, hcmp (-v) (by omega) (by omega)⟩
    · rcases c2 with k | k
      · by_cases hle : -v ≤ evalBound
        · exact Or.inl hle
        · exact absurd k (by omega)
      · exact Or.inr ⟨m, rfl, hm, k⟩
    · rcases c1 with k | k
      · exact Or.inr (by omega)
      · rcases h.low with k' | k'
        · exact Or.inl ⟨k', k⟩
        · exact Or.inr (by omega)
  · simp only [hsc, if_false]
    refine ⟨hlo, hhi, Or.inr (by omega), h.good, ?_, hcmp bs (by omega) (by omega)⟩
    rcases c1 with k | k
    · exact Or.inr (by omega)
    · rcases h.low with k' | k'
      · exact Or.inl ⟨k', k⟩
      · exact Or.inr k'

/-- a null-window probe that does not beat the best score -/
theorem ROff.keep {o : Ops G M} {cr : Prop} {remc : Nat} {g : G} {PW : Prop} {bs : Int}
    {bm : Option M} {m : M} {ms : List M} {v : Int}
    (h : ROff o cr remc g PW (∃ m' ∈ m :: ms, LoseP o remc (o.push g m')) False bs bm)
    (c : ClaimsP o remc (o.push g m) (-bs - 1) (-bs) v)
    (p : ComplP o remc (o.push g m) (-bs - 1) (-bs) v) (ht : ¬ -v > bs) :
    ROff o cr remc g (PW ∧ WinP o remc (o.push g m)) (∃ m' ∈ ms, LoseP o remc (o.push g m'))
      False bs bm := by
  obtain ⟨c1, c2⟩ := c
  refine ⟨h.lo, h.hi, h.nL, h.good, ?_, fun hcr => ?_⟩
  · rcases c1 with k | k
    · exact Or.inr (by omega)
    · rcases h.low with k' | k'
      · exact Or.inl ⟨k', k⟩
      · exact Or.inr k'
  · rcases h.cmp hcr with ⟨m', hm', hL⟩ | k
    · rcases List.mem_cons.1 hm' with rfl | hm'
      · have := p.2 hL
        exact Or.inr (by omega)
      · exact Or.inl ⟨m', hm', hL⟩
    · exact Or.inr k

/-- a null-window probe followed by the re-search: the pair is overwritten -/
theorem ROff.research {o : Ops G M} {cr : Prop} {remc : Nat} {g : G} {PW : Prop} {bs : Int}
    {bm : Option M} {m : M} {ms : List M} {v v2 : Int}
    (h : ROff o cr remc g PW (∃ m' ∈ m :: ms, LoseP o remc (o.push g m')) False bs bm)
    (hm : m ∈ o.checked g) (ht : -v > bs) (r : RngS (-bs - 1) (-bs) v)
    (c : ClaimsP o remc (o.push g m) (-bs - 1) (-bs) v)
    (p : ComplP o remc (o.push g m) (-bs - 1) (-bs) v)
    (r' : RngS (scoreMin + 1) (- -v) v2)
    (c' : ClaimsP o remc (o.push g m) (scoreMin + 1) (- -v) v2)
    (p' : ComplP o remc (o.push g m) (scoreMin + 1) (- -v) v2) :
    ROff o cr remc g (PW ∧ WinP o remc (o.push g m)) (∃ m' ∈ ms, LoseP o remc (o.push g m'))
      False (-v2) (some m) := by
  have hE := evalBound_le_mS
  have hmS : mS = 32668 := by decide
  have hsm : scoreMin = -32768 := rfl
  have hEB : evalBound = 31767 := by decide
  have hlo := h.lo
  have hhi := h.hi
  unfold RngS at r r'
  obtain ⟨r1, r2⟩ := r
  obtain ⟨r1', r2'⟩ := r'
  obtain ⟨c1, c2⟩ := c
  obtain ⟨c1', c2'⟩ := c'
  -- a probe or a re-search in the losing mate range: the child is lost
  have hlost : evalBound < -v2 → LoseP o remc (o.push g m) := by
    intro hw
    rcases c2' with k | k
    · rcases c2 with k' | k'
      · omega
      · exact k'
    · exact k
  refine ⟨by omega, by omega, Or.inr (by omega), ?_, ?_, fun hcr => ?_⟩
  · by_cases hw : evalBound < -v2
    · exact Or.inr ⟨m, rfl, hm, hlost hw⟩
    · exact Or.inl (by omega)
  · rcases c1' with k | k
    · exact Or.inr (by omega)
    · rcases h.low with k' | k'
      · exact Or.inl ⟨k', k⟩
      · -- the child is won for the opponent: the probe would have shown it
        have := p.1 k
        omega
  · rcases h.cmp hcr with ⟨m', hm', hL⟩ | k
    · rcases List.mem_cons.1 hm' with rfl | hm'
      · have := p'.2 hL
        exact Or.inr (by omega)
      · exact Or.inl ⟨m', hm', hL⟩
    · -- the best score was already winning: the probe beats it, so the child is lost
      have hL : LoseP o remc (o.push g m) := by
        rcases c2 with k' | k'
        · omega
        · exact k'
      have := p'.2 hL
      exact Or.inr (by omega)

/-- **The root loop with the table off**, null-window re-search included. -/
theorem rootLoop_off (o : Ops G M) (cr : Prop) (D : Nat)
    (child : G → Int → Int → Int → St M → Option (Int × St M)) (g : G) (remc : Nat) :
    ∀ (ms : List M), (∀ m ∈ ms, m ∈ o.checked g ∧ ChildOff o D child remc (o.push g m) 1) →
      ∀ (index : Nat) (bs : Int) (bm : Option M) (st : St M) (PW first : Prop),
        (first → index = 0) → OffOk D st →
        ROff o cr remc g PW (∃ m ∈ ms, LoseP o remc (o.push g m)) first bs bm →
        ∃ bs' bm' st', rootLoop o child g ms index bs bm st = some (bs', bm', st') ∧
          OffOk D st' ∧
          ROff o cr remc g (PW ∧ ∀ m ∈ ms, WinP o remc (o.push g m)) False (first ∧ ms = [])
            bs' bm' := by
  intro ms
  induction ms with
  | nil =>
    intro _ index bs bm st PW first _ hQ hI
    refine ⟨bs, bm, st, rfl, hQ, hI.imp (fun k => ⟨k, fun _ h => by cases h⟩) ?_
      (fun k => ⟨k, rfl⟩)⟩
    rintro ⟨_, h, _⟩
    cases h
  | cons m ms ih =>
    intro hc index bs bm st PW first hfi hQ hI
    obtain ⟨hm, hcm⟩ := hc m List.mem_cons_self
    have hmS : mS = 32668 := by decide
    have hsm : scoreMin = -32768 := rfl
    have hlo := hI.lo
    have hhi := hI.hi
    -- the tail, from the new pair
    have tail : ∀ (bs1 : Int) (bm1 : Option M) (st1 : St M), OffOk D st1 →
        ROff o cr remc g (PW ∧ WinP o remc (o.push g m))
          (∃ m' ∈ ms, LoseP o remc (o.push g m')) False bs1 bm1 →
        ∃ bs' bm' st', rootLoop o child g ms (index + 1) bs1 bm1 st1 = some (bs', bm', st') ∧
          OffOk D st' ∧
          ROff o cr remc g (PW ∧ ∀ m' ∈ m :: ms, WinP o remc (o.push g m')) False
            (first ∧ m :: ms = []) bs' bm' := by
      intro bs1 bm1 st1 hQ1 hI1
      obtain ⟨bs', bm', st', k1, k2, k3⟩ := ih
        (fun m' hm' => hc m' (List.mem_cons_of_mem _ hm')) (index + 1) bs1 bm1 st1 _ False
        (fun k => k.elim) hQ1 hI1
      refine ⟨bs', bm', st', k1, k2, k3.imp ?_ id (fun k => k.1.elim)⟩
      rintro ⟨⟨k4, k5⟩, k6⟩
      refine ⟨k4, fun m' hm' => ?_⟩
      rcases List.mem_cons.1 hm' with rfl | hm'
      · exact k5
      · exact k6 m' hm'
    unfold rootLoop
    simp only []
    by_cases hidx : index ≤ Gen.fullWindowMaxIndex
    · rw [if_pos hidx]
      obtain ⟨v, st1, he, hQ1, r, c, p⟩ := hcm (scoreMin + 1) (-bs) st (by omega) (by omega) hQ
      rw [he]
      simp only []
      have hI' := hI.full hm r c p
      by_cases hsc : -v > bs
      · simp only [hsc, if_true] at hI' ⊢
        exact tail _ _ _ hQ1 hI'
      · simp only [hsc, if_false] at hI' ⊢
        exact tail _ _ _ hQ1 hI'
    · rw [if_neg hidx]
      have hnf : ¬ first := fun k => by
        have := hfi k
        simp only [Gen.fullWindowMaxIndex] at hidx
        omega
      have hI0 : ROff o cr remc g PW (∃ m' ∈ m :: ms, LoseP o remc (o.push g m')) False bs bm :=
        hI.imp id id (fun k => hnf k)
      obtain ⟨v, st1, he, hQ1, r, c, p⟩ := hcm (-bs - 1) (-bs) st (by omega) (by omega) hQ
      rw [he]
      simp only []
      by_cases hsc : -v > bs
      · simp only [hsc, if_true]
        have hv : -v ≤ mS := by unfold RngS at r; omega
        obtain ⟨v2, st2, he2, hQ2, r', c', p'⟩ := hcm (scoreMin + 1) (- -v) st1 (by omega)
          (by omega) hQ1
        rw [he2]
        simp only []
        exact tail _ _ _ hQ2 (hI0.research hm hsc r c p r' c' p')
      · simp only [hsc, if_false]
        exact tail _ _ _ hQ1 (hI0.keep c p hsc)

end Chess.Search.Mate2
