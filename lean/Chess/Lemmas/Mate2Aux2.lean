import Chess.Lemmas.Mate2Aux1

/-!
# Mate in two: the value contract of a node and the table invariant

Every value `v` returned for a window `(a, b)` at a position `x` obeys
* `RngS a b v`: `min b (-mS) ≤ v ≤ max a mS` with `mS = 32668` (no value is outside the range of the
  mate scores unless it echoes a window bound),
* `Claims x a b v`: if `v` is above `max a evalBound` the side to move at `x` has a forced mate; if
  it is below `min b (-evalBound)` the side to move cannot escape one,
* `Compl cm rem x a b v` (only when the switch `cm` is on): a position with a mate in one searched
  with `remaining ≥ 3` gets a winning mate-range value as far as the window allows, and a position
  all of whose moves allow a mate in one searched with `remaining ≥ 4` gets a losing one.
`TInv` says the same of the table entries, under their flags.
-/
namespace Chess.Search.Mate2
open Chess.Search Chess.Search.Mate

variable {G M : Type}

/-- the largest mate score: `32668` -/
def mS : Int := -(scoreMin + Gen.mateNode)

def RngS (a b v : Int) : Prop := min b (-mS) ≤ v ∧ v ≤ max a mS

/-- The notions "won"/"lost" used by the invariant, indexed by the number of plies left, with what
the proofs need of them. `Ex d δ x`: an entry of depth `δ` may sit under the hash of `x` during
iteration `d`; `Nx d r x`: `x` may be searched with `r` plies left during iteration `d`. Two
instances: the plain notions `Win`/`Lose` (`Sem.plain`, every index alike), and the depth-indexed
notions `WinP`/`LoseP` for games in which a position determines its distance from the root
(`Sem.graded`). -/
structure Sem (o : Ops G M) where
  W : Nat → G → Prop
  L : Nat → G → Prop
  Ex : Nat → Nat → G → Prop
  Nx : Nat → Nat → G → Prop
  mated : ∀ {x : G} {r : Nat}, Mated o x → L (r + 2) x
  win : ∀ {x : G} {m : M} {r : Nat}, m ∈ o.checked x → L r (o.push x m) → W (r + 1) x
  lose : ∀ {x : G} {r : Nat}, o.checked x ≠ [] → (∀ m ∈ o.checked x, W r (o.push x m)) →
    L (r + 1) x
  cutW : ∀ {d δ r : Nat} {x : G}, Ex d δ x → Nx d r x → r ≤ δ → W δ x → W r x
  cutL : ∀ {d δ r : Nat} {x : G}, Ex d δ x → Nx d r x → r ≤ δ → L δ x → L r x
  child : ∀ {d r : Nat} {x : G} {m : M}, Nx d (r + 1) x → m ∈ o.checked x → Nx d r (o.push x m)
  store : ∀ {d r : Nat} {x y : G}, Nx d r x → o.hash y = o.hash x → Ex d r y
  exMono : ∀ {d δ : Nat} {x : G}, Ex d δ x → Ex (d + 1) δ x
  hashW : ∀ {r : Nat} {x y : G}, o.hash x = o.hash y → W r x → W r y
  hashL : ∀ {r : Nat} {x y : G}, o.hash x = o.hash y → L r x → L r y
  mate1 : ∀ x y, o.hash x = o.hash y → MateIn1 o x → MateIn1 o y
  lost1 : ∀ x y, o.hash x = o.hash y → Lost1 o x → Lost1 o y
  dead : ∀ x y, o.hash x = o.hash y → o.checked x = [] → o.checked y = []
  lost1_not_W : ∀ {x : G} {r : Nat}, Lost1 o x → ¬ W r x
  lost1_L : ∀ {x : G} {r : Nat}, Lost1 o x → 4 ≤ r → L r x

theorem Sem.exMono_le {o : Ops G M} (S : Sem o) {d d' δ : Nat} {x : G} (h : S.Ex d δ x)
    (hd : d ≤ d') : S.Ex d' δ x := by
  induction hd with
  | refl => exact h
  | step _ ih => exact S.exMono ih

def Claims (o : Ops G M) (S : Sem o) (rem : Nat) (x : G) (a b v : Int) : Prop :=
  (v ≤ max a evalBound ∨ S.W rem x) ∧ (min b (-evalBound) ≤ v ∨ S.L rem x)

def Compl (o : Ops G M) (cm : Prop) (rem : Nat) (x : G) (a b v : Int) : Prop :=
  cm → (MateIn1 o x → 3 ≤ rem → min b (evalBound + 1) ≤ v) ∧
    (Lost1 o x → 4 ≤ rem → v ≤ max a (-evalBound - 1))

/-- positions with the same hash are alike for the notions used: what an injective hash gives -/
structure HashSem (o : Ops G M) : Prop where
  lose : ∀ x y, o.hash x = o.hash y → Lose o x → Lose o y
  win : ∀ x y, o.hash x = o.hash y → Win o x → Win o y
  mate1 : ∀ x y, o.hash x = o.hash y → MateIn1 o x → MateIn1 o y
  lost1 : ∀ x y, o.hash x = o.hash y → Lost1 o x → Lost1 o y
  dead : ∀ x y, o.hash x = o.hash y → o.checked x = [] → o.checked y = []

theorem HashSem.of_injective {o : Ops G M} (h : ∀ x y, o.hash x = o.hash y → x = y) :
    HashSem o where
  lose := fun x y e k => h x y e ▸ k
  win := fun x y e k => h x y e ▸ k
  mate1 := fun x y e k => h x y e ▸ k
  lost1 := fun x y e k => h x y e ▸ k
  dead := fun x y e k => h x y e ▸ k

/-- the plain notions: won, lost, whatever the number of plies left -/
def Sem.plain {o : Ops G M} (hs : HashSem o) : Sem o where
  W := fun _ => Win o
  L := fun _ => Lose o
  Ex := fun _ _ _ => True
  Nx := fun _ _ _ => True
  mated := Lose.of_mated
  win := Win.of_move
  lose := Lose.of_all_win
  cutW := fun _ _ _ h => h
  cutL := fun _ _ _ h => h
  child := fun _ _ => trivial
  store := fun _ _ => trivial
  exMono := fun _ => trivial
  hashW := fun e h => hs.win _ _ e h
  hashL := fun e h => hs.lose _ _ e h
  mate1 := hs.mate1
  lost1 := hs.lost1
  dead := hs.dead
  lost1_not_W := Lost1.not_win
  lost1_L := fun h _ => h.lose

/-- a position determines its distance from the root `g`, and so does its hash: no position is
reached (by legal moves) at two different distances, no two positions at different distances share
a hash -/
structure Graded (o : Ops G M) (g : G) (lvl : G → Nat) : Prop where
  root : lvl g = 0
  step : ∀ x m, m ∈ o.checked x → lvl (o.push x m) = lvl x + 1
  hash : ∀ x y, o.hash x = o.hash y → lvl x = lvl y

/-- the depth-indexed notions, in a graded game with an injective hash -/
def Sem.graded {o : Ops G M} {g : G} {lvl : G → Nat} (hg : Graded o g lvl)
    (hinj : ∀ x y, o.hash x = o.hash y → x = y) : Sem o where
  W := WinP o
  L := LoseP o
  Ex := fun d δ x => δ + lvl x ≤ d
  Nx := fun d r x => r + lvl x = d
  mated := Or.inl
  win := fun {x m r} hm h => ⟨m, hm, h⟩
  lose := fun {x r} hne h => by
    match r with
    | 0 =>
      cases hc : o.checked x with
      | nil => exact absurd hc hne
      | cons m ms =>
        obtain ⟨_, _, k⟩ := h m (by rw [hc]; exact List.mem_cons_self)
        exact k.elim
    | r + 1 => exact Or.inr ⟨hne, fun m hm => h m hm⟩
  cutW := fun {d δ r x} h1 h2 h3 h => by
    have : δ = r := by omega
    exact this ▸ h
  cutL := fun {d δ r x} h1 h2 h3 h => by
    have : δ = r := by omega
    exact this ▸ h
  child := fun {d r x m} h hm => by
    have := hg.step x m hm
    omega
  store := fun {d r x y} h e => by
    have := hg.hash y x e
    omega
  exMono := fun h => by omega
  hashW := fun e h => hinj _ _ e ▸ h
  hashL := fun e h => hinj _ _ e ▸ h
  mate1 := fun x y e k => hinj x y e ▸ k
  lost1 := fun x y e k => hinj x y e ▸ k
  dead := fun x y e k => hinj x y e ▸ k
  lost1_not_W := fun h k => h.not_win k.win
  lost1_L := fun h hr => h.loseP hr

/-- what is required of the entry `e` stored under the hash `h` -/
def EntryOk (o : Ops G M) (S : Sem o) (cm : Prop) (D : Nat) (h : UInt64) (e : Entry M) : Prop :=
  e.depth ≤ D ∧ (e.flag ≠ Flag.upper → e.score ≤ mS) ∧ (e.flag ≠ Flag.lower → -mS ≤ e.score) ∧
  ∀ x, o.hash x = h → o.checked x ≠ [] ∧ S.Ex D e.depth x ∧
    (e.flag ≠ Flag.upper → e.score ≤ evalBound ∨ S.W e.depth x) ∧
    (e.flag ≠ Flag.lower → -evalBound ≤ e.score ∨ S.L e.depth x) ∧
    (cm → MateIn1 o x → 3 ≤ e.depth → e.flag ≠ Flag.lower → evalBound < e.score) ∧
    (cm → Lost1 o x → 4 ≤ e.depth → e.flag ≠ Flag.upper → e.score < -evalBound)

def TInv (o : Ops G M) (S : Sem o) (cm : Prop) (D : Nat) (tt : Table M) : Prop :=
  ∀ (h : UInt64) (e : Entry M), tt[h]? = some e → EntryOk o S cm D h e

theorem TInv_empty (o : Ops G M) (S : Sem o) (cm : Prop) (D : Nat) : TInv o S cm D ({} : Table M) := by
  intro h e he
  rw [Std.HashMap.getElem?_empty] at he
  cases he

theorem EntryOk.mono {o : Ops G M} {S : Sem o} {cm : Prop} {D D' : Nat} {h : UInt64} {e : Entry M}
    (k : EntryOk o S cm D h e) (hd : D ≤ D') : EntryOk o S cm D' h e :=
  ⟨Nat.le_trans k.1 hd, k.2.1, k.2.2.1, fun x hx =>
    ⟨(k.2.2.2 x hx).1, S.exMono_le (k.2.2.2 x hx).2.1 hd, (k.2.2.2 x hx).2.2⟩⟩

theorem TInv.mono {o : Ops G M} {S : Sem o} {cm : Prop} {D D' : Nat} {tt : Table M} (k : TInv o S cm D tt)
    (hd : D ≤ D') : TInv o S cm D' tt := fun h e he => (k h e he).mono hd

theorem TInv.insert {o : Ops G M} {S : Sem o} {cm : Prop} {D : Nat} {tt : Table M} (k : TInv o S cm D tt)
    (h : UInt64) (e : Entry M) (he : EntryOk o S cm D h e) : TInv o S cm D (tt.insert h e) := by
  intro h' e' he'
  rw [Std.HashMap.getElem?_insert] at he'
  split at he'
  · next hk =>
    cases he'
    rw [← eq_of_beq hk]
    exact he
  · exact k h' e' he'

theorem TInv.poll {o : Ops G M} {S : Sem o} {cm : Prop} {D : Nat} {st : St M} (k : TInv o S cm D st.tt) :
    TInv o S cm D (pollSt st).tt := by
  simp only [pollSt]
  split
  · exact TInv_empty o S cm D
  · exact k

theorem TInv.nodeStore {o : Ops G M} {S : Sem o} {cm : Prop} {D : Nat} {st : St M} (k : TInv o S cm D st.tt)
    (h : UInt64) (d : Nat) (e : Entry M) (he : EntryOk o S cm D h e) :
    TInv o S cm D (nodeStore h d e st).tt := by
  unfold Chess.Search.nodeStore
  split
  · split
    · exact k.insert h e he
    · exact k
  · exact k.insert h e he

theorem TInv.rootStore {o : Ops G M} {S : Sem o} {cm : Prop} {D : Nat} {st : St M} (k : TInv o S cm D st.tt)
    (h : UInt64) (d : Nat) (e : Entry M) (he : EntryOk o S cm D h e) :
    TInv o S cm D (rootStore h d e st).tt := by
  unfold Chess.Search.rootStore
  split
  · split
    · exact k.insert h e he
    · exact k
  · exact k.insert h e he

/-- no entry sits under the hash of a position without legal move -/
theorem TInv.none_of_dead {o : Ops G M} {S : Sem o} {cm : Prop} {D : Nat} {tt : Table M} (k : TInv o S cm D tt)
    {c : G} (hc : o.checked c = []) : tt[o.hash c]? = none := by
  cases he : tt[o.hash c]? with
  | none => rfl
  | some e => exact absurd hc ((k _ e he).2.2.2 c rfl).1

/-! ## the value of a table cut-off -/

theorem ttCut_ok {o : Ops G M} {S : Sem o} {cm : Prop} {D : Nat} {tt : Table M}
    (k : TInv o S cm D tt) (x : G) (rem : Nat) (hN : S.Nx D rem x) (a b v : Int)
    (hv : ttCut tt[o.hash x]? rem a b = some v) :
    RngS a b v ∧ Claims o S rem x a b v ∧ Compl o cm rem x a b v := by
  unfold ttCut at hv
  split at hv
  · next e he =>
    obtain ⟨_, n1, n2, hx⟩ := k _ e he
    obtain ⟨_, hE, c1, c2, c3, c4⟩ := hx x rfl
    split at hv
    · next hd =>
      have cW : ∀ {p : Prop}, p ∨ S.W e.depth x → p ∨ S.W rem x :=
        fun h => h.imp id (S.cutW hE hN hd)
      have cL : ∀ {p : Prop}, p ∨ S.L e.depth x → p ∨ S.L rem x :=
        fun h => h.imp id (S.cutL hE hN hd)
      split at hv
      · next hf =>
        cases hv
        have f1 : e.flag ≠ Flag.upper := by rw [hf]; decide
        have f2 : e.flag ≠ Flag.lower := by rw [hf]; decide
        have := n1 f1; have := n2 f2
        refine ⟨by unfold RngS; omega, ⟨?_, ?_⟩, fun hcm => ⟨fun h1 h3 => ?_, fun h1 h4 => ?_⟩⟩
        · rcases cW (c1 f1) with h | h
          · exact Or.inl (by omega)
          · exact Or.inr h
        · rcases cL (c2 f2) with h | h
          · exact Or.inl (by omega)
          · exact Or.inr h
        · have := c3 hcm h1 (by omega) f2; omega
        · have := c4 hcm h1 (by omega) f1; omega
      · next hf =>
        split at hv
        · next hge =>
          cases hv
          have f1 : e.flag ≠ Flag.upper := by rw [hf]; decide
          have := n1 f1
          refine ⟨by unfold RngS; omega, ⟨?_, Or.inl (by omega)⟩,
            fun hcm => ⟨fun _ _ => by omega, fun h1 h4 => ?_⟩⟩
          · rcases cW (c1 f1) with h | h
            · exact Or.inl (by omega)
            · exact Or.inr h
          · have := c4 hcm h1 (by omega) f1; omega
        · cases hv
      · next hf =>
        split at hv
        · next hle =>
          cases hv
          have f2 : e.flag ≠ Flag.lower := by rw [hf]; decide
          have := n2 f2
          refine ⟨by unfold RngS; omega, ⟨Or.inl (by omega), ?_⟩,
            fun hcm => ⟨fun h1 h3 => ?_, fun _ _ => by omega⟩⟩
          · rcases cL (c2 f2) with h | h
            · exact Or.inl (by omega)
            · exact Or.inr h
          · have := c3 hcm h1 (by omega) f2; omega
        · cases hv
    · cases hv
  · cases hv

/-! ## values out of the mate range -/

theorem evalBound_le_mS : evalBound ≤ mS := by decide

theorem of_rng {o : Ops G M} {S : Sem o} {cm : Prop} {rem : Nat} (hrem : rem ≤ 2) (x : G)
    {a b v : Int} (h : Rng a b v) :
    RngS a b v ∧ Claims o S rem x a b v ∧ Compl o cm rem x a b v := by
  have := evalBound_le_mS
  unfold Rng at h
  refine ⟨by unfold RngS; omega, ⟨Or.inl h.2, Or.inl h.1⟩, fun _ => ⟨fun _ h3 => by omega,
    fun _ h4 => by omega⟩⟩

end Chess.Search.Mate2
