import Chess.Model.SearchF
import Chess.Lemmas.SearchDriver

/-!
# Helpers for `SearchF`: the faithful search (`nodeF` …) against the dropping search (`node` …)

* unfolding equations of `nodeF`, `rootSearchF`, `driverLoopF`;
* the simulation on the success path, in functional form: `node … = toOpt (nodeF …)` etc.;
* the invariant framework for BOTH outcomes: `Res Q R r` says `Q` of the state of an answer and
  `R` of the state of an abort.
-/
namespace Chess.Search.F

variable {G M : Type}

/-! ## conversions of results -/

/-- forget the state of an abort -/
def toOpt {α : Type} : St M × Option α → Option (α × St M)
  | (s, some v) => some (v, s)
  | (_, none) => none

def stepOpt : LoopRes M → Option (Int × Int × Option M × St M)
  | (s, some (a, bs, bm)) => some (a, bs, bm, s)
  | (_, none) => none

def loopOpt : LoopRes M → Option (LoopOut M)
  | (s, some (a, bs, bm)) => some ⟨a, bs, bm, s⟩
  | (_, none) => none

def rootOpt : St M × Option (Int × Option M) → Option (Int × Option M × St M)
  | (s, some (bs, bm)) => some (bs, bm, s)
  | (_, none) => none

/-- the state returned when the entry poll of a node fails: the table is emptied if the hook is on,
the poll is not counted -/
def abortSt (st : St M) : St M := { st with tt := if st.ttOff then {} else st.tt }

/-! ## unfolding equations -/

/-- one iteration of `nodeLoopF` before the cut-off test -/
def nodeStepF (o : Ops G M) (child : G → Int → Int → Int → St M → St M × Option Int)
    (g : G) (rd beta : Int) (m : M) (index : Nat) (alpha bestScore : Int) (bestMove : Option M)
    (st : St M) : LoopRes M :=
  let g' := o.push g m
  if index ≤ Gen.fullWindowMaxIndex then
    match child g' (-beta) (-alpha) (rd + 1) st with
    | (st, none) => (st, none)
    | (st, some v) =>
      let score := -v
      let (bestScore, bestMove) := if score > bestScore then (score, some m) else (bestScore, bestMove)
      (st, some (max alpha score, bestScore, bestMove))
  else
    match child g' (-alpha - 1) (-alpha) (rd + 1) st with
    | (st, none) => (st, none)
    | (st, some v) =>
      let test := -v
      if test > bestScore then
        match child g' (-beta) (-test) (rd + 1) st with
        | (st, none) => (st, none)
        | (st, some v2) =>
          let score := -v2
          (st, some (max alpha score, score, some m))
      else (st, some (alpha, bestScore, bestMove))

theorem nodeLoopF_cons (o : Ops G M) (child : G → Int → Int → Int → St M → St M × Option Int)
    (g : G) (remaining : Nat) (rd beta : Int) (m : M) (ms : List M) (index : Nat)
    (alpha bestScore : Int) (bestMove : Option M) (st : St M) :
    nodeLoopF o child g remaining rd beta (m :: ms) index alpha bestScore bestMove st =
      match nodeStepF o child g rd beta m index alpha bestScore bestMove st with
      | (st, none) => (st, none)
      | (st, some (alpha, bestScore, bestMove)) =>
        if alpha ≥ beta then
          let st := { st with killers := st.killers.setIfInBounds rd.toNat (some m) }
          let st := match o.histIdx m with
            | some i => { st with history := st.history.setIfInBounds i (historyBonus remaining (st.history.getD i 0)) }
            | none => st
          (st, some (alpha, bestScore, bestMove))
        else nodeLoopF o child g remaining rd beta ms (index + 1) alpha bestScore bestMove st := by
  rfl

variable [DecidableEq M]

theorem nodeF_eq (o : Ops G M) (runs : Nat → Bool) (remaining : Nat) (g : G) (α β rd : Int)
    (st : St M) :
    nodeF o runs remaining g α β rd st =
      if !runs st.polls then (abortSt st, none) else
      match ttCut (ttGet (pollSt st) (o.hash g)) remaining α β with
      | some v => (pollSt st, some v)
      | none =>
        match remaining with
        | 0 => (pollSt st, some (qsearch o qFuel g α β rd))
        | 1 => (pollSt st, some (depth1 o g α β rd))
        | r + 2 =>
          if (o.checked g).isEmpty then
            (pollSt st, some (if o.safe g then 0 else scoreMin + Gen.mateNode + rd))
          else
            match nodeLoopF o (nodeF o runs (r + 1)) g (r + 2) rd β (nodeMoves o g rd (pollSt st)) 0 α
                scoreMin none (pollSt st) with
            | (s, none) => (s, none)
            | (s, some (outAlpha, bestScore, bestMove)) =>
              (nodeStore (o.hash g) (r + 2)
                ⟨bestScore, bestMove, r + 2, storeFlag bestScore α β⟩ s, some outAlpha) := by
  unfold nodeF
  rfl

theorem rootSearchF_eq (o : Ops G M) (runs : Nat → Bool) (g : G) (depth : Nat) (st : St M) :
    rootSearchF o runs g depth st =
      if (o.checked g).length = 1 then (st, some ((o.checked g).head?, 0, true)) else
      match rootHit (ttGet (rootSt st) (o.hash g)) depth with
      | some e => (rootSt st, some (e.pv, e.score, false))
      | none =>
        match rootLoopF o (nodeF o runs (depth - 1)) g (rootSorted o g (rootSt st)) 0 (scoreMin + 1)
            none (rootSt st) with
        | (s, none) => (s, none)
        | (s, some (bestScore, bestMove)) =>
          (rootStore (o.hash g) depth ⟨bestScore, bestMove, depth, .exact⟩ s,
            some (bestMove, bestScore, false)) := by
  unfold rootSearchF
  rfl

theorem driverF_eq (o : Ops G M) (runs : Nat → Bool) (g : G) (tt : Table M) (off : Bool)
    (md : Option Nat) :
    driverF o runs g tt off md =
      driverLoopF o runs g (limitOf md) (limitOf md - startDepth o g tt md + 1)
        (startDepth o g tt md) (o.checked g).head? [] (initSt tt off) := rfl

theorem driverLoopF_zero (o : Ops G M) (runs : Nat → Bool) (g : G) (limit depth : Nat)
    (found : Option M) (infos : List (Info M)) (st : St M) :
    driverLoopF o runs g limit 0 depth found infos st = ⟨found, infos.reverse, st, false⟩ := rfl

theorem driverLoopF_succ (o : Ops G M) (runs : Nat → Bool) (g : G) (limit fuel depth : Nat)
    (found : Option M) (infos : List (Info M)) (st : St M) :
    driverLoopF o runs g limit (fuel + 1) depth found infos st =
      match rootSearchF o runs g depth st with
      | (st', none) => ⟨found, infos.reverse, st', true⟩
      | (st', some (bm, sc, only)) =>
        if exitCond limit depth only sc then
          ⟨bm.or found, (mkInfo o g depth sc st' :: infos).reverse, st', false⟩
        else driverLoopF o runs g limit fuel (depth + 1) (bm.or found)
          (mkInfo o g depth sc st' :: infos) st' := rfl

/-! ## 1. Simulation on the success path -/

/-- the faithful child answers exactly when the dropping child does, with the same state -/
def Sim (childF : G → Int → Int → Int → St M → St M × Option Int)
    (child : G → Int → Int → Int → St M → Option (Int × St M)) (g' : G) : Prop :=
  ∀ a b r st, child g' a b r st = toOpt (childF g' a b r st)

omit [DecidableEq M] in
theorem nodeStep_sim (o : Ops G M) (childF : G → Int → Int → Int → St M → St M × Option Int)
    (child : G → Int → Int → Int → St M → Option (Int × St M))
    (g : G) (rd β : Int) (m : M) (index : Nat) (α bs : Int) (bm : Option M) (st : St M)
    (hc : Sim childF child (o.push g m)) :
    nodeStep o child g rd β m index α bs bm st =
      stepOpt (nodeStepF o childF g rd β m index α bs bm st) := by
  unfold nodeStep nodeStepF
  simp only []
  by_cases hidx : index ≤ Gen.fullWindowMaxIndex
  · simp only [hidx, if_true]
    rw [hc]
    cases hch : childF (o.push g m) (-β) (-α) (rd + 1) st with
    | mk s x =>
      cases x with
      | none => rfl
      | some v =>
        simp only [toOpt]
        by_cases hs : -v > bs <;> simp only [hs, if_true, if_false, stepOpt]
  · simp only [hidx, if_false]
    rw [hc]
    cases hch : childF (o.push g m) (-α - 1) (-α) (rd + 1) st with
    | mk s x =>
      cases x with
      | none => rfl
      | some v =>
        simp only [toOpt]
        by_cases hs : -v > bs
        · simp only [hs, if_true]
          rw [hc]
          cases hch2 : childF (o.push g m) (-β) (- -v) (rd + 1) s with
          | mk s2 x2 =>
            cases x2 with
            | none => rfl
            | some v2 => rfl
        · simp only [hs, if_false, stepOpt]

omit [DecidableEq M] in
theorem nodeLoop_sim (o : Ops G M) (childF : G → Int → Int → Int → St M → St M × Option Int)
    (child : G → Int → Int → Int → St M → Option (Int × St M))
    (g : G) (remaining : Nat) (rd β : Int) (ms : List M)
    (hc : ∀ m ∈ ms, Sim childF child (o.push g m))
    (index : Nat) (α bs : Int) (bm : Option M) (st : St M) :
    nodeLoop o child g remaining rd β ms index α bs bm st =
      loopOpt (nodeLoopF o childF g remaining rd β ms index α bs bm st) := by
  induction ms generalizing index α bs bm st with
  | nil => rfl
  | cons m ms ih =>
    rw [nodeLoop_cons, nodeLoopF_cons,
      nodeStep_sim o childF child g rd β m index α bs bm st (hc m List.mem_cons_self)]
    cases hs : nodeStepF o childF g rd β m index α bs bm st with
    | mk s x =>
      cases x with
      | none => rfl
      | some y =>
        obtain ⟨a', bs', bm'⟩ := y
        simp only [stepOpt]
        by_cases hcut : a' ≥ β
        · simp only [hcut, if_true, loopOpt]
          rfl
        · simp only [hcut, if_false]
          exact ih (fun m' hm' => hc m' (List.mem_cons_of_mem _ hm')) _ _ _ _ _

omit [DecidableEq M] in
theorem rootLoop_sim (o : Ops G M) (childF : G → Int → Int → Int → St M → St M × Option Int)
    (child : G → Int → Int → Int → St M → Option (Int × St M)) (g : G) (ms : List M)
    (hc : ∀ m ∈ ms, Sim childF child (o.push g m))
    (index : Nat) (bs : Int) (bm : Option M) (st : St M) :
    rootLoop o child g ms index bs bm st = rootOpt (rootLoopF o childF g ms index bs bm st) := by
  induction ms generalizing index bs bm st with
  | nil => rfl
  | cons m ms ih =>
    have ih' := ih (fun m' hm' => hc m' (List.mem_cons_of_mem _ hm'))
    have hcm := hc m List.mem_cons_self
    unfold rootLoop rootLoopF
    simp only []
    by_cases hidx : index ≤ Gen.fullWindowMaxIndex
    · simp only [hidx, if_true]
      rw [hcm]
      cases hch : childF (o.push g m) (scoreMin + 1) (-bs) 1 st with
      | mk s x =>
        cases x with
        | none => rfl
        | some v =>
          simp only [toOpt]
          by_cases hs : -v > bs
          · simp only [hs, if_true]; exact ih' _ _ _ _
          · simp only [hs, if_false]; exact ih' _ _ _ _
    · simp only [hidx, if_false]
      rw [hcm]
      cases hch : childF (o.push g m) (-bs - 1) (-bs) 1 st with
      | mk s x =>
        cases x with
        | none => rfl
        | some v =>
          simp only [toOpt]
          by_cases hs : -v > bs
          · simp only [hs, if_true]
            rw [hcm]
            cases hch2 : childF (o.push g m) (scoreMin + 1) (- -v) 1 s with
            | mk s2 x2 =>
              cases x2 with
              | none => rfl
              | some v2 => simp only [toOpt]; exact ih' _ _ _ _
          · simp only [hs, if_false]; exact ih' _ _ _ _

/-- **Simulation, functional form**: the dropping node is the faithful node with the state of an
abort forgotten. -/
theorem node_sim (o : Ops G M) (runs : Nat → Bool) (remaining : Nat) (g : G) (α β rd : Int)
    (st : St M) :
    node o runs remaining g α β rd st = toOpt (nodeF o runs remaining g α β rd st) := by
  induction remaining using Nat.strongRecOn generalizing g α β rd st with
  | _ n ih =>
    rw [node_eq, nodeF_eq]
    cases hr : runs st.polls with
    | false => rfl
    | true =>
      simp only [Bool.not_true, Bool.false_eq_true, if_false]
      cases hcut : ttCut (ttGet (pollSt st) (o.hash g)) n α β with
      | some v => rfl
      | none =>
        simp only []
        match n with
        | 0 => rfl
        | 1 => rfl
        | r + 2 =>
          simp only []
          by_cases he : (o.checked g).isEmpty = true
          · simp only [he, if_true]; rfl
          · simp only [he]
            rw [nodeLoop_sim o (nodeF o runs (r + 1)) (node o runs (r + 1)) g (r + 2) rd β _
              (fun m _ a b r' s => ih (r + 1) (by omega) _ _ _ _ _)]
            cases hl : nodeLoopF o (nodeF o runs (r + 1)) g (r + 2) rd β
                (nodeMoves o g rd (pollSt st)) 0 α scoreMin none (pollSt st) with
            | mk s x =>
              cases x with
              | none => rfl
              | some y => rfl

theorem rootSearch_sim (o : Ops G M) (runs : Nat → Bool) (g : G) (depth : Nat) (st : St M) :
    rootSearch o runs g depth st = toOpt (rootSearchF o runs g depth st) := by
  rw [rootSearch_eq, rootSearchF_eq]
  by_cases hl : (o.checked g).length = 1
  · simp only [hl, if_true]; rfl
  · simp only [hl, if_false]
    cases hh : rootHit (ttGet (rootSt st) (o.hash g)) depth with
    | some e => rfl
    | none =>
      simp only []
      rw [rootLoop_sim o (nodeF o runs (depth - 1)) (node o runs (depth - 1)) g _
        (fun m _ a b r' s => node_sim o runs _ _ _ _ _ _)]
      cases hr : rootLoopF o (nodeF o runs (depth - 1)) g (rootSorted o g (rootSt st)) 0
          (scoreMin + 1) none (rootSt st) with
      | mk s x =>
        cases x with
        | none => rfl
        | some y => rfl

omit [DecidableEq M] in
theorem toOpt_eq_some {α : Type} (r : St M × Option α) (v : α) (s : St M) :
    toOpt r = some (v, s) ↔ r = (s, some v) := by
  obtain ⟨s', x⟩ := r
  cases x with
  | none => simp [toOpt]
  | some v' =>
    simp only [toOpt, Option.some.injEq, Prod.mk.injEq]
    constructor
    · rintro ⟨h1, h2⟩; exact ⟨h2, h1⟩
    · rintro ⟨h1, h2⟩; exact ⟨h2, h1⟩

omit [DecidableEq M] in
theorem toOpt_eq_none {α : Type} (r : St M × Option α) : toOpt r = none ↔ r.2 = none := by
  obtain ⟨s', x⟩ := r
  cases x <;> simp [toOpt]

/-! ## 2. Invariants through BOTH outcomes -/

/-- `Q` of the state of an answer, `R` of the state of an abort -/
def Res (Q R : St M → Prop) {α : Type} : St M × Option α → Prop
  | (s, some _) => Q s
  | (s, none) => R s

/-- a child call made in a state satisfying `Q` gives `Q` (answer) or `R` (abort) -/
def ChildF (Q R : St M → Prop) (child : G → Int → Int → Int → St M → St M × Option Int)
    (g' : G) : Prop :=
  ∀ a b r st, Q st → Res Q R (child g' a b r st)

def StepOk (Q R : St M → Prop) (bm : Option M) (m : M) : LoopRes M → Prop
  | (s, some (_, _, bm')) => Q s ∧ (bm' = bm ∨ bm' = some m)
  | (s, none) => R s

def LoopOk (Q R : St M → Prop) (bm : Option M) (ms : List M) : LoopRes M → Prop
  | (s, some (_, _, bm')) => Q s ∧ ∀ x, bm' = some x → bm = some x ∨ x ∈ ms
  | (s, none) => R s

def RootLoopOk (Q R : St M → Prop) (bm : Option M) (ms : List M) :
    St M × Option (Int × Option M) → Prop
  | (s, some (_, bm')) => Q s ∧ ∀ x, bm' = some x → bm = some x ∨ x ∈ ms
  | (s, none) => R s

omit [DecidableEq M] in
theorem nodeStepF_ok {Q R : St M → Prop} (o : Ops G M)
    (child : G → Int → Int → Int → St M → St M × Option Int)
    (g : G) (rd β : Int) (m : M) (index : Nat) (α bs : Int) (bm : Option M) (st : St M)
    (hc : ChildF Q R child (o.push g m)) (hQ : Q st) :
    StepOk Q R bm m (nodeStepF o child g rd β m index α bs bm st) := by
  unfold nodeStepF
  simp only []
  by_cases hidx : index ≤ Gen.fullWindowMaxIndex
  · simp only [hidx, if_true]
    have h1 := hc (-β) (-α) (rd + 1) st hQ
    cases hch : child (o.push g m) (-β) (-α) (rd + 1) st with
    | mk s x =>
      rw [hch] at h1
      cases x with
      | none => exact h1
      | some v =>
        simp only []
        by_cases hs : -v > bs
        · simp only [hs, if_true]; exact ⟨h1, Or.inr rfl⟩
        · simp only [hs, if_false]; exact ⟨h1, Or.inl rfl⟩
  · simp only [hidx, if_false]
    have h1 := hc (-α - 1) (-α) (rd + 1) st hQ
    cases hch : child (o.push g m) (-α - 1) (-α) (rd + 1) st with
    | mk s x =>
      rw [hch] at h1
      cases x with
      | none => exact h1
      | some v =>
        simp only []
        by_cases hs : -v > bs
        · simp only [hs, if_true]
          have h2 := hc (-β) (- -v) (rd + 1) s h1
          cases hch2 : child (o.push g m) (-β) (- -v) (rd + 1) s with
          | mk s2 x2 =>
            rw [hch2] at h2
            cases x2 with
            | none => exact h2
            | some v2 => exact ⟨h2, Or.inr rfl⟩
        · simp only [hs, if_false]; exact ⟨h1, Or.inl rfl⟩

omit [DecidableEq M] in
theorem nodeLoopF_ok {Q R : St M → Prop} (hF : Frame Q) (o : Ops G M)
    (child : G → Int → Int → Int → St M → St M × Option Int)
    (g : G) (remaining : Nat) (rd β : Int) (ms : List M)
    (hc : ∀ m ∈ ms, ChildF Q R child (o.push g m))
    (index : Nat) (α bs : Int) (bm : Option M) (st : St M) (hQ : Q st) :
    LoopOk Q R bm ms (nodeLoopF o child g remaining rd β ms index α bs bm st) := by
  induction ms generalizing index α bs bm st with
  | nil => exact ⟨hQ, fun x hx => Or.inl hx⟩
  | cons m ms ih =>
    rw [nodeLoopF_cons]
    have hs1 := nodeStepF_ok o child g rd β m index α bs bm st (hc m List.mem_cons_self) hQ
    cases hs : nodeStepF o child g rd β m index α bs bm st with
    | mk s x =>
      rw [hs] at hs1
      cases x with
      | none => exact hs1
      | some y =>
        obtain ⟨a', bs', bm'⟩ := y
        obtain ⟨hQ', hbm⟩ := hs1
        have hmem : ∀ x, bm' = some x → bm = some x ∨ x ∈ m :: ms := by
          intro x hx
          rcases hbm with h1 | h1
          · exact Or.inl (h1 ▸ hx)
          · rw [h1] at hx; cases hx; exact Or.inr List.mem_cons_self
        simp only []
        by_cases hcut : a' ≥ β
        · simp only [hcut, if_true]
          refine ⟨?_, hmem⟩
          split
          · exact hF _ _ hQ' rfl rfl
          · exact hF _ _ hQ' rfl rfl
        · simp only [hcut, if_false]
          have k := ih (fun m' hm' => hc m' (List.mem_cons_of_mem _ hm')) (index + 1) a' bs' bm' s hQ'
          cases hl : nodeLoopF o child g remaining rd β ms (index + 1) a' bs' bm' s with
          | mk s2 x2 =>
            rw [hl] at k
            cases x2 with
            | none => exact k
            | some y2 =>
              obtain ⟨a2, bs2, bm2⟩ := y2
              refine ⟨k.1, fun x hx => ?_⟩
              rcases k.2 x hx with h1 | h1
              · exact hmem x h1
              · exact Or.inr (List.mem_cons_of_mem _ h1)

omit [DecidableEq M] in
theorem rootLoopF_ok {Q R : St M → Prop} (o : Ops G M)
    (child : G → Int → Int → Int → St M → St M × Option Int) (g : G) (ms : List M)
    (hc : ∀ m ∈ ms, ChildF Q R child (o.push g m))
    (index : Nat) (bs : Int) (bm : Option M) (st : St M) (hQ : Q st) :
    RootLoopOk Q R bm ms (rootLoopF o child g ms index bs bm st) := by
  induction ms generalizing index bs bm st with
  | nil => exact ⟨hQ, fun x hx => Or.inl hx⟩
  | cons m ms ih =>
    have ih' := ih (fun m' hm' => hc m' (List.mem_cons_of_mem _ hm'))
    have hcm := hc m List.mem_cons_self
    have lift : ∀ {b : Option M} {r : St M × Option (Int × Option M)},
        RootLoopOk Q R b ms r → (b = bm ∨ b = some m) → RootLoopOk Q R bm (m :: ms) r := by
      intro b r k hb
      obtain ⟨s, x⟩ := r
      cases x with
      | none => exact k
      | some y =>
        obtain ⟨bs', bm'⟩ := y
        refine ⟨k.1, fun x hx => ?_⟩
        rcases k.2 x hx with h1 | h1
        · rcases hb with h2 | h2
          · exact Or.inl (h2 ▸ h1)
          · rw [h2] at h1; cases h1; exact Or.inr List.mem_cons_self
        · exact Or.inr (List.mem_cons_of_mem _ h1)
    unfold rootLoopF
    simp only []
    by_cases hidx : index ≤ Gen.fullWindowMaxIndex
    · simp only [hidx, if_true]
      have h1 := hcm (scoreMin + 1) (-bs) 1 st hQ
      cases hch : child (o.push g m) (scoreMin + 1) (-bs) 1 st with
      | mk s x =>
        rw [hch] at h1
        cases x with
        | none => exact h1
        | some v =>
          simp only []
          by_cases hs : -v > bs
          · simp only [hs, if_true]; exact lift (ih' _ _ _ _ h1) (Or.inr rfl)
          · simp only [hs, if_false]; exact lift (ih' _ _ _ _ h1) (Or.inl rfl)
    · simp only [hidx, if_false]
      have h1 := hcm (-bs - 1) (-bs) 1 st hQ
      cases hch : child (o.push g m) (-bs - 1) (-bs) 1 st with
      | mk s x =>
        rw [hch] at h1
        cases x with
        | none => exact h1
        | some v =>
          simp only []
          by_cases hs : -v > bs
          · simp only [hs, if_true]
            have h2 := hcm (scoreMin + 1) (- -v) 1 s h1
            cases hch2 : child (o.push g m) (scoreMin + 1) (- -v) 1 s with
            | mk s2 x2 =>
              rw [hch2] at h2
              cases x2 with
              | none => exact h2
              | some v2 => exact lift (ih' _ _ _ _ h2) (Or.inr rfl)
          · simp only [hs, if_false]; exact lift (ih' _ _ _ _ h1) (Or.inl rfl)

/-- A `NodeInv` invariant together with what holds of the state returned by a failing poll. -/
structure NodeInvF (o : Ops G M) (runs : Nat → Bool) (A : G → Prop) (D : Nat → Prop)
    (Q R : St M → Prop) : Prop where
  inv : NodeInv o runs A D Q
  abort : ∀ st : St M, Q st → runs st.polls = false → R (abortSt st)

/-- the canonical abort predicate: `Q` still holds and the poll counter is the index of a poll that
saw the flag cleared -/
def AbortAt (runs : Nat → Bool) (Q : St M → Prop) (s : St M) : Prop := Q s ∧ runs s.polls = false

omit [DecidableEq M] in
theorem NodeInvF.of {o : Ops G M} {runs : Nat → Bool} {A : G → Prop} {D : Nat → Prop}
    {Q : St M → Prop} (I : NodeInv o runs A D Q) (h : ∀ st : St M, Q st → Q (abortSt st)) :
    NodeInvF o runs A D Q (AbortAt runs Q) :=
  ⟨I, fun st hQ hr => ⟨h st hQ, hr⟩⟩

section
variable {o : Ops G M} {runs : Nat → Bool} {A : G → Prop} {D : Nat → Prop} {Q R : St M → Prop}

/-- **The generic invariant of the faithful node, both outcomes.** -/
theorem nodeF_res (I : NodeInvF o runs A D Q R) (remaining : Nat) (g : G) (α β rd : Int)
    (st : St M) (hA : A g) (hQ : Q st) : Res Q R (nodeF o runs remaining g α β rd st) := by
  induction remaining using Nat.strongRecOn generalizing g α β rd st with
  | _ n ih =>
    rw [nodeF_eq]
    cases hr : runs st.polls with
    | false => exact I.abort st hQ hr
    | true =>
      have hQ1 := I.inv.poll st hQ hr
      simp only [Bool.not_true, Bool.false_eq_true, if_false]
      cases hcut : ttCut (ttGet (pollSt st) (o.hash g)) n α β with
      | some v => exact hQ1
      | none =>
        simp only []
        match n with
        | 0 => exact hQ1
        | 1 => exact hQ1
        | r + 2 =>
          simp only []
          by_cases he : (o.checked g).isEmpty = true
          · simp only [he, if_true]; exact hQ1
          · simp only [he]
            have hc : ∀ m ∈ nodeMoves o g rd (pollSt st),
                ChildF Q R (nodeF o runs (r + 1)) (o.push g m) := by
              intro m hm a b r' s hs
              exact ih (r + 1) (by omega) _ _ _ _ _
                (I.inv.closed g m hA ((mem_sortMoves _ _ _).1 hm)) hs
            have k := nodeLoopF_ok (R := R) I.inv.frame o _ g (r + 2) rd β _ hc 0 α scoreMin none
              (pollSt st) hQ1
            cases hl : nodeLoopF o (nodeF o runs (r + 1)) g (r + 2) rd β
                (nodeMoves o g rd (pollSt st)) 0 α scoreMin none (pollSt st) with
            | mk s x =>
              rw [hl] at k
              cases x with
              | none => exact k
              | some y =>
                obtain ⟨a', bs', bm'⟩ := y
                refine nodeStore_inv I.inv g _ _ _ hA k.1 ?_ (I.inv.deep r)
                intro m hm
                rcases k.2 m hm with h1 | h1
                · cases h1
                · exact (mem_sortMoves _ _ _).1 h1

/-- **The generic invariant of the faithful root search, both outcomes.** -/
theorem rootSearchF_res (I : NodeInvF o runs A D Q R) (g : G) (depth : Nat) (st : St M)
    (hA : A g) (hQ : Q st) (hD : D depth) : Res Q R (rootSearchF o runs g depth st) := by
  have hQ0 : Q (rootSt st) := I.inv.frame _ _ hQ rfl rfl
  rw [rootSearchF_eq]
  by_cases hl : (o.checked g).length = 1
  · simp only [hl, if_true]; exact hQ
  · simp only [hl, if_false]
    cases hh : rootHit (ttGet (rootSt st) (o.hash g)) depth with
    | some e => exact hQ0
    | none =>
      simp only []
      have hc : ∀ m ∈ rootSorted o g (rootSt st),
          ChildF Q R (nodeF o runs (depth - 1)) (o.push g m) := by
        intro m hm a b r' s hs
        exact nodeF_res I _ _ _ _ _ _ (I.inv.closed g m hA (mem_rootSorted hm)) hs
      have k := rootLoopF_ok (R := R) o _ g _ hc 0 (scoreMin + 1) none (rootSt st) hQ0
      cases hr : rootLoopF o (nodeF o runs (depth - 1)) g (rootSorted o g (rootSt st)) 0
          (scoreMin + 1) none (rootSt st) with
      | mk s x =>
        rw [hr] at k
        cases x with
        | none => exact k
        | some y =>
          obtain ⟨bs', bm'⟩ := y
          refine rootStore_inv I.inv g _ _ _ hA k.1 ?_ hD
          intro m hm
          rcases k.2 m hm with h1 | h1
          · cases h1
          · exact mem_rootSorted h1

/-- **The generic invariant of the faithful iterative-deepening loop**: `Q` of the final state if
the loop was not stopped, `R` if it was. -/
theorem driverLoopF_res (I : NodeInvF o runs A D Q R) (g : G) (hA : A g) (limit fuel depth : Nat)
    (found : Option M) (infos : List (Info M)) (st : St M) (hQ : Q st)
    (hD : ∀ d, depth ≤ d → D d) :
    ((driverLoopF o runs g limit fuel depth found infos st).stopped = false →
      Q (driverLoopF o runs g limit fuel depth found infos st).st) ∧
    ((driverLoopF o runs g limit fuel depth found infos st).stopped = true →
      R (driverLoopF o runs g limit fuel depth found infos st).st) := by
  induction fuel generalizing depth found infos st with
  | zero => exact ⟨fun _ => hQ, fun h => nomatch h⟩
  | succ f ih =>
    rw [driverLoopF_succ]
    have k := rootSearchF_res I g depth st hA hQ (hD depth (Nat.le_refl _))
    cases hs : rootSearchF o runs g depth st with
    | mk s x =>
      rw [hs] at k
      cases x with
      | none => exact ⟨fun h => (nomatch h), fun _ => k⟩
      | some y =>
        obtain ⟨bm, sc, only⟩ := y
        simp only []
        by_cases hx : exitCond limit depth only sc = true
        · simp only [hx, if_true]
          exact ⟨fun _ => k, fun h => nomatch h⟩
        · simp only [hx]
          exact ih _ _ _ _ k (fun d hd => hD d (by omega))

end

end Chess.Search.F
