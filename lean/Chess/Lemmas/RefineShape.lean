import Chess.Lemmas.Generated

/-!
# C02, part 1 — the shape of generated moves

What `Spec.play` infers from the squares of a move (en-passant capture: a pawn changing file onto
an empty square; castling: a king changing file by two; double step: a pawn changing row by two)
agrees with the *kind* of move the engine generated, because of the following facts.
-/
namespace Chess
namespace Game

/-- the pawn's direction of travel -/
def fwd : Player → Int
  | .white => 1
  | .black => -1

/-- Shape facts of a generated move (beyond `Fits`/`MoverOk`). -/
def Shape (g : Game) : Move → Prop
  | .normal pc start stop cap =>
    (∀ c, cap = some c → c.owner ≠ g.player)
    ∧ (pc.pieceType = .pawn →
        (stop.col ≠ start.col → cap ≠ none)
        ∧ (stop.row = start.row + fwd pc.owner
            ∨ (stop.row = start.row + 2 * fwd pc.owner ∧ stop.col = start.col ∧ cap = none))
        ∧ (cap ≠ none → (stop.col - start.col).natAbs = 1))
    ∧ (pc.pieceType = .king → (stop.col - start.col).natAbs ≤ 1 ∧ (stop.row - start.row).natAbs ≤ 1)
  | .promotion _ _ start stop cap =>
    (∀ c, cap = some c → c.owner ≠ g.player)
    ∧ (stop.col ≠ start.col → cap ≠ none)
    ∧ stop.row = start.row + fwd g.player
    ∧ (cap ≠ none → (stop.col - start.col).natAbs = 1)
  | .enPassant _ _ _ => True
  | .castlingShort _ => True
  | .castlingLong _ => True

theorem shape_normal_other {g : Game} {pc : Piece} {p q : Pos} {cap : Option Piece}
    (h1 : pc.pieceType ≠ .pawn) (h2 : pc.pieceType ≠ .king)
    (hc : ∀ c, cap = some c → c.owner ≠ g.player) : g.Shape (.normal pc p q cap) :=
  ⟨hc, fun e => absurd e h1, fun e => absurd e h2⟩

/-- the "own piece" test of the knight and king generators -/
theorem own_false {g : Game} {o : Option Piece}
    (h : (match o with
      | some x => decide (x.owner = g.player)
      | none => false) = false) : ∀ c, o = some c → c.owner ≠ g.player := by
  intro c hc
  subst hc
  simpa using h

theorem rayMoves_shape {g : Game} {pc : Piece} {start : Pos} {d : Int × Int}
    (h1 : pc.pieceType ≠ .pawn) (h2 : pc.pieceType ≠ .king) :
    ∀ (fuel : Nat) (cur : Pos), ∀ m ∈ rayMoves g pc start cur d fuel, g.Shape m := by
  intro fuel
  induction fuel with
  | zero => intro cur m hm; simp [rayMoves] at hm
  | succ n ih =>
    intro cur m hm
    unfold rayMoves at hm
    split at hm
    · simp at hm
    · rename_i q hq
      split at hm
      · rename_i other ho'
        split at hm
        · rename_i hown
          simp only [List.mem_singleton] at hm
          subst hm
          exact shape_normal_other h1 h2 (fun c hc => by cases hc; exact hown)
        · simp at hm
      · simp only [List.mem_cons] at hm
        rcases hm with hm | hm
        · subst hm
          exact shape_normal_other h1 h2 (fun c hc => by cases hc)
        · exact ih q m hm

theorem slideMoves_shape {g : Game} {pc : Piece} {p : Pos} {rays : List (Int × Int)}
    (h1 : pc.pieceType ≠ .pawn) (h2 : pc.pieceType ≠ .king) :
    ∀ m ∈ slideMoves g pc p rays, g.Shape m := by
  intro m hm
  unfold slideMoves at hm
  simp only [List.mem_flatMap] at hm
  obtain ⟨d, _, hm⟩ := hm
  exact rayMoves_shape h1 h2 7 p m hm

theorem knightMoves_shape {g : Game} {pc : Piece} {p : Pos}
    (h1 : pc.pieceType ≠ .pawn) (h2 : pc.pieceType ≠ .king) :
    ∀ m ∈ knightMoves g pc p, g.Shape m := by
  intro m hm
  unfold knightMoves at hm
  simp only [List.mem_flatMap] at hm
  obtain ⟨d, hd, hm⟩ := hm
  split at hm
  · simp at hm
  · rename_i q hq
    obtain ⟨hown, rfl⟩ := mem_ite_nil hm
    exact shape_normal_other h1 h2 (own_false hown)

theorem kingDeltas_small : ∀ d ∈ Gen.kingDeltas, d.2.natAbs ≤ 1 ∧ d.1.natAbs ≤ 1 := by decide

theorem kingMoves_shape_rf {g : Game} {pc : Piece} {p : Pos} (hk : pc.pieceType = .king) :
    ∀ m ∈ kingMoves g pc p, g.Shape m := by
  intro m hm
  unfold kingMoves at hm
  simp only [List.mem_append] at hm
  rcases hm with (hm | hm) | hm
  · simp only [List.mem_flatMap] at hm
    obtain ⟨d, hd, hm⟩ := hm
    split at hm
    · simp at hm
    · rename_i q hq
      obtain ⟨hown, hm⟩ := mem_ite_nil' hm
      obtain ⟨_, rfl⟩ := mem_ite_nil hm
      obtain ⟨_, hr, hc⟩ := Pos.add_spec hq
      have := kingDeltas_small d hd
      refine ⟨own_false hown, fun e => ?_, fun _ => ⟨by omega, by omega⟩⟩
      rw [hk] at e; cases e
  · obtain ⟨_, rfl⟩ := mem_ite_single hm
    trivial
  · obtain ⟨_, rfl⟩ := mem_ite_single hm
    trivial

/-- a single pawn step (`dr = fwd`) onto `q` holding `cap`, promoting on the last row -/
theorem pawnStep_shape {g : Game} {pc : Piece} {p q : Pos} {cap : Option Piece} {c : Prop}
    [Decidable c] {m : Move}
    (ho : pc.owner = g.player) (hk : pc.pieceType = .pawn) (hr : q.row = p.row + fwd pc.owner)
    (hcap : ∀ x, cap = some x → x.owner ≠ g.player) (hcol : q.col ≠ p.col → cap ≠ none)
    (hdiag : cap ≠ none → (q.col - p.col).natAbs = 1)
    (hm : m ∈ (if c then promoPieces.map (fun t => Move.promotion g.player t p q cap)
      else [Move.normal pc p q cap])) : g.Shape m := by
  split at hm
  · simp only [List.mem_map] at hm
    obtain ⟨t, _, rfl⟩ := hm
    exact ⟨hcap, hcol, ho ▸ hr, hdiag⟩
  · simp only [List.mem_singleton] at hm
    subst hm
    exact ⟨hcap, fun _ => ⟨hcol, .inl hr, hdiag⟩, fun e => by rw [hk] at e; cases e⟩

theorem pawnMoves_shape_rf {g : Game} {pc : Piece} {p : Pos}
    (ho : pc.owner = g.player) (hk : pc.pieceType = .pawn) :
    ∀ m ∈ pawnMoves g pc p, g.Shape m := by
  intro m hm
  unfold pawnMoves at hm
  cases hpl : pc.owner <;> rw [hpl] at hm <;> simp only [List.mem_append] at hm
  · rcases hm with ((hm | hm) | hm) | hm
    · obtain ⟨_, rfl⟩ := mem_ite_single hm
      refine ⟨(fun c hc => by cases hc), fun _ => ⟨fun h => absurd ?_ h, .inr ⟨?_, ?_, rfl⟩, fun h => absurd rfl h⟩,
        fun e => by rw [hk] at e; cases e⟩
      · simp [Pos.addUnsafe, Gen.pawnFirstDeltaW]
      · simp [Pos.addUnsafe, Gen.pawnFirstDeltaW, hpl, fwd]
      · simp [Pos.addUnsafe, Gen.pawnFirstDeltaW]
    · split at hm
      · simp at hm
      · rename_i q hq
        obtain ⟨_, hr, hc⟩ := Pos.add_spec hq
        split at hm
        · refine pawnStep_shape ho hk ?_ (fun x hx => by cases hx) (fun h => absurd ?_ h)
            (fun h => absurd rfl h) hm
          · rw [hr, hpl]; rfl
          · rw [hc]; simp [Gen.pawnDeltaW]
        · simp at hm
    · simp only [List.mem_flatMap] at hm
      obtain ⟨d, hd, hm⟩ := hm
      split at hm
      · simp at hm
      · rename_i q hq
        obtain ⟨_, hr, hc⟩ := Pos.add_spec hq
        split at hm
        · rename_i other hoth
          split at hm
          · rename_i hown
            refine pawnStep_shape ho hk ?_ (fun x hx => ?_) (fun _ => by simp) (fun _ => ?_) hm
            · rw [hr, hpl]
              simp only [Gen.pawnSideDeltasW, List.mem_cons, List.not_mem_nil, or_false] at hd
              rcases hd with rfl | rfl <;> rfl
            · cases hx; rw [← ho, hpl]; exact hown
            · rw [hc]
              simp only [Gen.pawnSideDeltasW, List.mem_cons, List.not_mem_nil, or_false] at hd
              rcases hd with rfl | rfl <;> simp only <;> omega
          · simp at hm
        · simp at hm
    · obtain ⟨_, rfl⟩ := mem_ite_single hm
      trivial
  · rcases hm with ((hm | hm) | hm) | hm
    · obtain ⟨_, rfl⟩ := mem_ite_single hm
      refine ⟨(fun c hc => by cases hc), fun _ => ⟨fun h => absurd ?_ h, .inr ⟨?_, ?_, rfl⟩, fun h => absurd rfl h⟩,
        fun e => by rw [hk] at e; cases e⟩
      · simp [Pos.addUnsafe, Gen.pawnFirstDeltaB]
      · simp [Pos.addUnsafe, Gen.pawnFirstDeltaB, hpl, fwd]
      · simp [Pos.addUnsafe, Gen.pawnFirstDeltaB]
    · split at hm
      · simp at hm
      · rename_i q hq
        obtain ⟨_, hr, hc⟩ := Pos.add_spec hq
        split at hm
        · refine pawnStep_shape ho hk ?_ (fun x hx => by cases hx) (fun h => absurd ?_ h)
            (fun h => absurd rfl h) hm
          · rw [hr, hpl]; rfl
          · rw [hc]; simp [Gen.pawnDeltaB]
        · simp at hm
    · simp only [List.mem_flatMap] at hm
      obtain ⟨d, hd, hm⟩ := hm
      split at hm
      · simp at hm
      · rename_i q hq
        obtain ⟨_, hr, hc⟩ := Pos.add_spec hq
        split at hm
        · rename_i other hoth
          split at hm
          · rename_i hown
            refine pawnStep_shape ho hk ?_ (fun x hx => ?_) (fun _ => by simp) (fun _ => ?_) hm
            · rw [hr, hpl]
              simp only [Gen.pawnSideDeltasB, List.mem_cons, List.not_mem_nil, or_false] at hd
              rcases hd with rfl | rfl <;> rfl
            · cases hx; rw [← ho, hpl]; exact hown
            · rw [hc]
              simp only [Gen.pawnSideDeltasB, List.mem_cons, List.not_mem_nil, or_false] at hd
              rcases hd with rfl | rfl <;> simp only <;> omega
          · simp at hm
        · simp at hm
    · obtain ⟨_, rfl⟩ := mem_ite_single hm
      trivial

theorem pieceMoves_shape_rf {g : Game} {pc : Piece} {p : Pos} (ho : pc.owner = g.player) :
    ∀ m ∈ pieceMoves g pc p, g.Shape m := by
  intro m hm
  unfold pieceMoves at hm
  split at hm
  · rename_i hk; exact pawnMoves_shape_rf ho hk m hm
  · rename_i hk; exact kingMoves_shape_rf hk m hm
  · rename_i hk; exact knightMoves_shape (by rw [hk]; decide) (by rw [hk]; decide) m hm
  · rename_i hk; exact slideMoves_shape (by rw [hk]; decide) (by rw [hk]; decide) m hm
  · rename_i hk; exact slideMoves_shape (by rw [hk]; decide) (by rw [hk]; decide) m hm
  · rename_i hk; exact slideMoves_shape (by rw [hk]; decide) (by rw [hk]; decide) m hm

/-- **every generated move has the shape its kind promises** (no invariant needed) -/
theorem generated_shape' {g : Game} {m : Move} (hm : m ∈ g.pseudoMoves) : g.Shape m := by
  obtain ⟨_, p, pc, _, _, ho, hm⟩ := mem_pseudoMoves.1 hm
  exact pieceMoves_shape_rf ho m hm

theorem generated_shape_rf {g : Game} (_hw : g.WF) {m : Move} (hm : m ∈ g.pseudoMoves) : g.Shape m :=
  generated_shape' hm

/-- a generated move was generated for a side that still has its king -/
theorem generated_kingExists {g : Game} {m : Move} (hm : m ∈ g.pseudoMoves) :
    g.kingExists g.player = true := (mem_pseudoMoves.1 hm).1

end Game
end Chess
