import Chess.Lemmas.PushPop

/-!
# The representation invariant `WF` is preserved by playing a move

The induction step of "for all reachable games":

* `push_wf : g.WF → g.Fits m → g.MoverOk m → PawnDoubleOk g m → g.KingStepOk m → (g.push m).WF`
* `updatePhase_wf : g.WF → g.updatePhase.WF`
* `pushHistory_wf` (same hypotheses as `push_wf`) `: (g.pushHistory m).WF`

with the components `push_cacheInv`, `push_resScore`, `push_resHash`, `push_hash_inv`, `push_top_ep`,
`push_epInv`, `push_kingInv`, `push_rightsInv`, and `wf_score_sum`, `wf_hash_sum`.

Two hypotheses beyond `Fits`/`MoverOk` are needed, both defined here, both facts about every
generated move (`pseudoMoves_extraOk`, `getMoves_extraOk` at the end of the file):

* `PawnDoubleOk g m` — a two-row pawn step is the double push from the first row, straight ahead, over
  an empty square (needed by `push_epInv`);
* `KingStepOk g m` — a king step does not land on the cached square of the other king (needed by
  `push_rightsInv`; `MoverOk`'s "a king never captures a king" does not cover the case where the other
  king has already been captured on an unchecked line and its cached home square is empty: see the
  comment at `push_rightsInv`).
-/
namespace Chess
namespace Game

/-! ### `wrapPush` touches only side, hash and state stack -/

section wrap
variable (g1 : Game) (s : GState)
@[simp] theorem wrapPush_player : (wrapPush g1 s).player = g1.player.other := rfl
@[simp] theorem wrapPush_state : (wrapPush g1 s).state = s :: g1.state := rfl
@[simp] theorem wrapPush_top : (wrapPush g1 s).top = s := rfl
@[simp] theorem wrapPush_board : (wrapPush g1 s).board = g1.board := rfl
@[simp] theorem wrapPush_pastHashes : (wrapPush g1 s).pastHashes = g1.pastHashes := rfl
@[simp] theorem wrapPush_pastScores : (wrapPush g1 s).pastScores = g1.pastScores := rfl
@[simp] theorem wrapPush_endgame : (wrapPush g1 s).endgame = g1.endgame := rfl
@[simp] theorem wrapPush_moveStack : (wrapPush g1 s).moveStack = g1.moveStack := rfl
@[simp] theorem wrapPush_wking : (wrapPush g1 s).wking = g1.wking := rfl
@[simp] theorem wrapPush_bking : (wrapPush g1 s).bking = g1.bking := rfl
@[simp] theorem wrapPush_score : (wrapPush g1 s).score = g1.score := rfl
@[simp] theorem wrapPush_get (q : Pos) : (wrapPush g1 s).get q = g1.get q := rfl
@[simp] theorem wrapPush_kingPos (pl : Player) : (wrapPush g1 s).kingPos pl = g1.kingPos pl := by
  cases pl <;> rfl
theorem wrapPush_hash :
    (wrapPush g1 s).hash = g1.hash ^^^ Gen.blackToMove ^^^ g1.top.hash ^^^ s.hash := rfl
end wrap

/-- the new state byte computed by `push` -/
def pushState (g : Game) (m : Move) : GState := (applyMove g m (g.top.setEnPassant 8)).2

theorem push_eq (g : Game) (m : Move) : g.push m = wrapPush (applyMoveG g m) (pushState g m) := by
  rw [push_eq_wrap, applyMove_fst]; rfl

@[simp] theorem push_top (g : Game) (m : Move) : (g.push m).top = pushState g m := by
  rw [push_eq]; rfl
@[simp] theorem push_player' (g : Game) (m : Move) : (g.push m).player = (applyMoveG g m).player.other := by
  rw [push_eq]; rfl
theorem push_get (g : Game) (m : Move) (q : Pos) : (g.push m).get q = (applyMoveG g m).get q := by
  rw [push_eq]; rfl
theorem push_kingPos (g : Game) (m : Move) (pl : Player) :
    (g.push m).kingPos pl = (applyMoveG g m).kingPos pl := by
  rw [push_eq]; simp

/-! ### the board part of `push`: fields it does not touch -/

@[simp] theorem applyMoveG_player (g : Game) (m : Move) : (applyMoveG g m).player = g.player := by
  cases m <;> simp only [applyMoveG] <;> (try split) <;> simp
@[simp] theorem applyMoveG_state (g : Game) (m : Move) : (applyMoveG g m).state = g.state := by
  cases m <;> simp only [applyMoveG] <;> (try split) <;> simp
@[simp] theorem applyMoveG_endgame (g : Game) (m : Move) : (applyMoveG g m).endgame = g.endgame := by
  cases m <;> simp only [applyMoveG] <;> (try split) <;> simp
@[simp] theorem applyMoveG_moveStack (g : Game) (m : Move) : (applyMoveG g m).moveStack = g.moveStack := by
  cases m <;> simp only [applyMoveG] <;> (try split) <;> simp
@[simp] theorem applyMoveG_top (g : Game) (m : Move) : (applyMoveG g m).top = g.top := by
  simp [top]

@[simp] theorem push_player (g : Game) (m : Move) : (g.push m).player = g.player.other := by simp
@[simp] theorem push_state (g : Game) (m : Move) : (g.push m).state = pushState g m :: g.state := by
  rw [push_eq]; simp
@[simp] theorem push_endgame (g : Game) (m : Move) : (g.push m).endgame = g.endgame := by
  rw [push_eq]; simp
@[simp] theorem push_moveStack (g : Game) (m : Move) : (g.push m).moveStack = g.moveStack := by
  rw [push_eq]; simp

/-! ### 1. the caches stay consistent -/

theorem applyMoveG_cacheInv {g : Game} {m : Move} (hc : g.CacheInv) (hf : g.Fits m) :
    (applyMoveG g m).CacheInv := by
  cases m with
  | normal pc start stop cap =>
    obtain ⟨hs, he, -⟩ := hf
    have := setPosition_cacheInv _ stop (some pc) he (setPosition_cacheInv g start none hs hc)
    simp only [applyMoveG]
    split
    · exact setKingPos_cacheInv _ _ this
    · exact this
  | promotion owner t start stop cap =>
    obtain ⟨hs, he, -⟩ := hf
    exact setPosition_cacheInv _ stop _ he (setPosition_cacheInv g start none hs hc)
  | enPassant owner sc ec =>
    obtain ⟨h1, h2, h3, h4, -⟩ := hf
    obtain ⟨v1, v2, v3⟩ := epSquares_valid owner sc ec h1 h2 h3 h4
    exact setPosition_cacheInv _ _ _ v2 (setPosition_cacheInv _ _ _ v1 (setPosition_cacheInv _ _ _ v3 hc))
  | castlingShort owner =>
    have v4 := homeRow_valid owner 4 (by omega) (by omega)
    have v5 := homeRow_valid owner 5 (by omega) (by omega)
    have v6 := homeRow_valid owner 6 (by omega) (by omega)
    have v7 := homeRow_valid owner 7 (by omega) (by omega)
    exact setKingPos_cacheInv _ _ (setPosition_cacheInv _ _ _ v6 (setPosition_cacheInv _ _ _ v5
      (setPosition_cacheInv _ _ _ v4 (setPosition_cacheInv _ _ _ v7 hc))))
  | castlingLong owner =>
    have v4 := homeRow_valid owner 4 (by omega) (by omega)
    have v3 := homeRow_valid owner 3 (by omega) (by omega)
    have v2 := homeRow_valid owner 2 (by omega) (by omega)
    have v0 := homeRow_valid owner 0 (by omega) (by omega)
    exact setKingPos_cacheInv _ _ (setPosition_cacheInv _ _ _ v2 (setPosition_cacheInv _ _ _ v3
      (setPosition_cacheInv _ _ _ v4 (setPosition_cacheInv _ _ _ v0 hc))))

/-- **the caches of the position reached by a move are consistent** -/
theorem push_cacheInv {g : Game} {m : Move} (hc : g.CacheInv) (hf : g.Fits m) : (g.push m).CacheInv := by
  rw [push_eq]
  exact cacheInv_congr (by simp) (by simp) (by simp) (by simp) (applyMoveG_cacheInv hc hf)

/-! ### 2. the residues: what of `hash` / `score` is not placement -/

theorem applyMoveG_resHash {g : Game} {m : Move} (hf : g.Fits m) : (applyMoveG g m).resHash = g.resHash := by
  cases m with
  | normal pc start stop cap =>
    obtain ⟨hs, he, -⟩ := hf
    simp only [applyMoveG]
    split <;> simp only [setKingPos_resHash, setPosition_resHash _ _ _ hs, setPosition_resHash _ _ _ he]
  | promotion owner t start stop cap =>
    obtain ⟨hs, he, -⟩ := hf
    simp only [applyMoveG, setPosition_resHash _ _ _ hs, setPosition_resHash _ _ _ he]
  | enPassant owner sc ec =>
    obtain ⟨h1, h2, h3, h4, -⟩ := hf
    obtain ⟨v1, v2, v3⟩ := epSquares_valid owner sc ec h1 h2 h3 h4
    simp only [applyMoveG, setPosition_resHash _ _ _ v1, setPosition_resHash _ _ _ v2,
      setPosition_resHash _ _ _ v3]
  | castlingShort owner =>
    have v4 := homeRow_valid owner 4 (by omega) (by omega)
    have v5 := homeRow_valid owner 5 (by omega) (by omega)
    have v6 := homeRow_valid owner 6 (by omega) (by omega)
    have v7 := homeRow_valid owner 7 (by omega) (by omega)
    simp only [applyMoveG, setKingPos_resHash, setPosition_resHash _ _ _ v4, setPosition_resHash _ _ _ v5,
      setPosition_resHash _ _ _ v6, setPosition_resHash _ _ _ v7]
  | castlingLong owner =>
    have v4 := homeRow_valid owner 4 (by omega) (by omega)
    have v3 := homeRow_valid owner 3 (by omega) (by omega)
    have v2 := homeRow_valid owner 2 (by omega) (by omega)
    have v0 := homeRow_valid owner 0 (by omega) (by omega)
    simp only [applyMoveG, setKingPos_resHash, setPosition_resHash _ _ _ v4, setPosition_resHash _ _ _ v3,
      setPosition_resHash _ _ _ v2, setPosition_resHash _ _ _ v0]

theorem applyMoveG_resScore {g : Game} {m : Move} (hf : g.Fits m) : (applyMoveG g m).resScore = g.resScore := by
  cases m with
  | normal pc start stop cap =>
    obtain ⟨hs, he, -⟩ := hf
    simp only [applyMoveG]
    split <;> simp only [setKingPos_resScore, setPosition_resScore _ _ _ hs, setPosition_resScore _ _ _ he]
  | promotion owner t start stop cap =>
    obtain ⟨hs, he, -⟩ := hf
    simp only [applyMoveG, setPosition_resScore _ _ _ hs, setPosition_resScore _ _ _ he]
  | enPassant owner sc ec =>
    obtain ⟨h1, h2, h3, h4, -⟩ := hf
    obtain ⟨v1, v2, v3⟩ := epSquares_valid owner sc ec h1 h2 h3 h4
    simp only [applyMoveG, setPosition_resScore _ _ _ v1, setPosition_resScore _ _ _ v2,
      setPosition_resScore _ _ _ v3]
  | castlingShort owner =>
    have v4 := homeRow_valid owner 4 (by omega) (by omega)
    have v5 := homeRow_valid owner 5 (by omega) (by omega)
    have v6 := homeRow_valid owner 6 (by omega) (by omega)
    have v7 := homeRow_valid owner 7 (by omega) (by omega)
    simp only [applyMoveG, setKingPos_resScore, setPosition_resScore _ _ _ v4, setPosition_resScore _ _ _ v5,
      setPosition_resScore _ _ _ v6, setPosition_resScore _ _ _ v7]
  | castlingLong owner =>
    have v4 := homeRow_valid owner 4 (by omega) (by omega)
    have v3 := homeRow_valid owner 3 (by omega) (by omega)
    have v2 := homeRow_valid owner 2 (by omega) (by omega)
    have v0 := homeRow_valid owner 0 (by omega) (by omega)
    simp only [applyMoveG, setKingPos_resScore, setPosition_resScore _ _ _ v4, setPosition_resScore _ _ _ v3,
      setPosition_resScore _ _ _ v2, setPosition_resScore _ _ _ v0]

/-- the score stays the sum of the cached contributions -/
theorem push_resScore {g : Game} {m : Move} (hf : g.Fits m) : (g.push m).resScore = g.resScore := by
  rw [← applyMoveG_resScore hf, push_eq]; rfl

/-- the hash residue: the side key is toggled and the state key replaced -/
theorem push_resHash {g : Game} {m : Move} (hf : g.Fits m) :
    (g.push m).resHash = g.resHash ^^^ Gen.blackToMove ^^^ g.top.hash ^^^ (g.push m).top.hash := by
  rw [← applyMoveG_resHash hf, push_top, push_eq]
  unfold resHash
  rw [wrapPush_hash, wrapPush_pastHashes, applyMoveG_top]
  generalize Gen.blackToMove = c
  generalize (applyMoveG g m).hash = a
  generalize xorAll (applyMoveG g m).pastHashes = b
  generalize g.top.hash = d
  generalize (pushState g m).hash = e
  ac_rfl

/-- **the hash of the position reached is placement keys + side key + state key** -/
theorem push_hash_inv {g : Game} {m : Move} (hw : g.WF) (hf : g.Fits m) :
    (g.push m).resHash = (if (g.push m).player = .black then Gen.blackToMove else 0) ^^^ (g.push m).top.hash := by
  rw [push_resHash hf, hw.resHash, push_player]
  generalize (g.push m).top.hash = a
  generalize g.top.hash = b
  generalize Gen.blackToMove = c
  cases g.player
  · simp only [Player.other, if_true, reduceCtorEq, if_false]
    have : 0 ^^^ b ^^^ c ^^^ b ^^^ a = c ^^^ a ^^^ (b ^^^ b) ^^^ 0 := by ac_rfl
    rw [this]; simp
  · simp only [Player.other, if_true, reduceCtorEq, if_false]
    have : c ^^^ b ^^^ c ^^^ b ^^^ a = 0 ^^^ a ^^^ ((b ^^^ b) ^^^ (c ^^^ c)) := by ac_rfl
    rw [this]; simp

/-! ### 9. score and hash of a well-formed game, from the residues -/

theorem wf_score_sum {g : Game} (hw : g.WF) : g.score = sumAll g.pastScores := by
  have := hw.resScore
  unfold resScore at this
  omega

theorem wf_hash_sum {g : Game} (hw : g.WF) :
    g.hash = xorAll g.pastHashes ^^^ (if g.player = .black then Gen.blackToMove else 0) ^^^ g.top.hash := by
  have h := hw.resHash
  unfold resHash at h
  have : g.hash = (g.hash ^^^ xorAll g.pastHashes) ^^^ xorAll g.pastHashes := by
    rw [UInt64.xor_assoc]; simp
  rw [this, h]
  generalize Gen.blackToMove = c
  generalize xorAll g.pastHashes = b
  generalize g.top.hash = d
  cases g.player <;> simp only [if_true, reduceCtorEq, if_false] <;> ac_rfl

end Game
end Chess

namespace Chess

/-! ### 3. the state byte -/

theorem forall_uint8_iv {P : UInt8 → Prop} (h : ∀ n : BitVec 8, P (UInt8.ofBitVec n)) (s : UInt8) : P s :=
  h s.toBitVec

namespace GState

theorem enPassant_nonneg (s : GState) : 0 ≤ s.enPassant := by
  unfold enPassant; omega

theorem setEnPassant_all (s : GState) (v : Int) (h0 : 0 ≤ v) (h8 : v ≤ 8) :
    (s.setEnPassant v).enPassant = v ∧ (s.setEnPassant v).wk = s.wk ∧ (s.setEnPassant v).wq = s.wq
      ∧ (s.setEnPassant v).bk = s.bk ∧ (s.setEnPassant v).bq = s.bq := by
  have key : ∀ (k : Fin 9) (s : GState),
      (s.setEnPassant (k.val : Int)).enPassant = (k.val : Int) ∧ (s.setEnPassant k.val).wk = s.wk
        ∧ (s.setEnPassant k.val).wq = s.wq ∧ (s.setEnPassant k.val).bk = s.bk
        ∧ (s.setEnPassant k.val).bq = s.bq := by
    intro k; apply forall_uint8_iv; revert k; decide +kernel
  obtain ⟨n, rfl⟩ := Int.eq_ofNat_of_zero_le h0
  exact key ⟨n, by omega⟩ s

theorem clear_all (s : GState) :
    (s.clearWk.enPassant = s.enPassant ∧ s.clearWk.wk = false ∧ s.clearWk.wq = s.wq
      ∧ s.clearWk.bk = s.bk ∧ s.clearWk.bq = s.bq)
    ∧ (s.clearWq.enPassant = s.enPassant ∧ s.clearWq.wk = s.wk ∧ s.clearWq.wq = false
      ∧ s.clearWq.bk = s.bk ∧ s.clearWq.bq = s.bq)
    ∧ (s.clearBk.enPassant = s.enPassant ∧ s.clearBk.wk = s.wk ∧ s.clearBk.wq = s.wq
      ∧ s.clearBk.bk = false ∧ s.clearBk.bq = s.bq)
    ∧ (s.clearBq.enPassant = s.enPassant ∧ s.clearBq.wk = s.wk ∧ s.clearBq.wq = s.wq
      ∧ s.clearBq.bk = s.bk ∧ s.clearBq.bq = false) := by
  revert s; apply forall_uint8_iv; decide +kernel

end GState
end Chess

namespace Chess
open GState

section simpbyte
variable (s : GState)
@[simp] theorem GState.clearWk_enPassant : s.clearWk.enPassant = s.enPassant := (clear_all s).1.1
@[simp] theorem GState.clearWk_wk : s.clearWk.wk = false := (clear_all s).1.2.1
@[simp] theorem GState.clearWk_wq : s.clearWk.wq = s.wq := (clear_all s).1.2.2.1
@[simp] theorem GState.clearWk_bk : s.clearWk.bk = s.bk := (clear_all s).1.2.2.2.1
@[simp] theorem GState.clearWk_bq : s.clearWk.bq = s.bq := (clear_all s).1.2.2.2.2
@[simp] theorem GState.clearWq_enPassant : s.clearWq.enPassant = s.enPassant := (clear_all s).2.1.1
@[simp] theorem GState.clearWq_wk : s.clearWq.wk = s.wk := (clear_all s).2.1.2.1
@[simp] theorem GState.clearWq_wq : s.clearWq.wq = false := (clear_all s).2.1.2.2.1
@[simp] theorem GState.clearWq_bk : s.clearWq.bk = s.bk := (clear_all s).2.1.2.2.2.1
@[simp] theorem GState.clearWq_bq : s.clearWq.bq = s.bq := (clear_all s).2.1.2.2.2.2
@[simp] theorem GState.clearBk_enPassant : s.clearBk.enPassant = s.enPassant := (clear_all s).2.2.1.1
@[simp] theorem GState.clearBk_wk : s.clearBk.wk = s.wk := (clear_all s).2.2.1.2.1
@[simp] theorem GState.clearBk_wq : s.clearBk.wq = s.wq := (clear_all s).2.2.1.2.2.1
@[simp] theorem GState.clearBk_bk : s.clearBk.bk = false := (clear_all s).2.2.1.2.2.2.1
@[simp] theorem GState.clearBk_bq : s.clearBk.bq = s.bq := (clear_all s).2.2.1.2.2.2.2
@[simp] theorem GState.clearBq_enPassant : s.clearBq.enPassant = s.enPassant := (clear_all s).2.2.2.1
@[simp] theorem GState.clearBq_wk : s.clearBq.wk = s.wk := (clear_all s).2.2.2.2.1
@[simp] theorem GState.clearBq_wq : s.clearBq.wq = s.wq := (clear_all s).2.2.2.2.2.1
@[simp] theorem GState.clearBq_bk : s.clearBq.bk = s.bk := (clear_all s).2.2.2.2.2.2.1
@[simp] theorem GState.clearBq_bq : s.clearBq.bq = false := (clear_all s).2.2.2.2.2.2.2
end simpbyte

/-- the four castling rights, so that the invariant can be argued once -/
inductive CR where
  | wk | wq | bk | bq
  deriving DecidableEq

namespace CR
def has (r : CR) (s : GState) : Bool :=
  match r with
  | wk => s.wk | wq => s.wq | bk => s.bk | bq => s.bq
def owner : CR → Player
  | wk => .white | wq => .white | bk => .black | bq => .black
def rookSq : CR → Pos
  | wk => ⟨0, 7⟩ | wq => ⟨0, 0⟩ | bk => ⟨7, 7⟩ | bq => ⟨7, 0⟩

theorem rookSq_valid (r : CR) : r.rookSq.Valid := by cases r <;> decide
theorem rookSq_row (r : CR) : r.rookSq.row = Game.homeRow r.owner := by cases r <;> rfl
theorem rookSq_col (r : CR) : r.rookSq.col = 0 ∨ r.rookSq.col = 7 := by cases r <;> simp [rookSq]

theorem has_setEnPassant (r : CR) (s : GState) (v : Int) (h0 : 0 ≤ v) (h8 : v ≤ 8) :
    r.has (s.setEnPassant v) = r.has s := by
  obtain ⟨-, h1, h2, h3, h4⟩ := setEnPassant_all s v h0 h8
  cases r <;> simp only [has] <;> assumption

end CR

namespace Game

@[simp] theorem clearBoth_enPassant (s : GState) (pl : Player) : (clearBoth s pl).enPassant = s.enPassant := by
  cases pl <;> simp [clearBoth]

@[simp] theorem clearRookFrom_enPassant (s : GState) (p : Pos) : (clearRookFrom s p).enPassant = s.enPassant := by
  unfold clearRookFrom
  split
  · simp
  · split
    · simp
    · split
      · simp
      · split <;> simp

@[simp] theorem clearCaptured_enPassant (s : GState) (c : Option Piece) (p : Pos) :
    (clearCaptured s c p).enPassant = s.enPassant := by
  unfold clearCaptured
  simp only
  repeat' split
  all_goals simp

/-- a king move of `pl` removes exactly the rights of `pl` -/
theorem has_clearBoth (r : CR) (s : GState) (pl : Player) :
    r.has (clearBoth s pl) = (r.has s && decide (r.owner ≠ pl)) := by
  cases r <;> cases pl <;> simp [CR.has, CR.owner, clearBoth]

/-- a rook leaving its home square loses the right -/
theorem has_clearRookFrom (r : CR) (s : GState) (start : Pos) (h : r.has (clearRookFrom s start) = true) :
    r.has s = true ∧ start ≠ r.rookSq := by
  unfold clearRookFrom at h
  simp only [pos, Gen.whiteQueenRook, Gen.whiteKingRook, Gen.blackQueenRook, Gen.blackKingRook] at h
  cases start with | mk sr sc =>
  simp only [Pos.mk.injEq] at h
  cases r <;> simp only [CR.has, CR.rookSq, Pos.mk.injEq, ne_eq] at h ⊢ <;>
    (repeat' split at h) <;> simp_all <;> omega

/-- a rook captured on its home square takes the right with it -/
theorem has_clearCaptured (r : CR) (s : GState) (cap : Option Piece) (stop : Pos)
    (h : r.has (clearCaptured s cap stop) = true) :
    r.has s = true ∧ ¬(cap = some ⟨.rook, r.owner⟩ ∧ stop = r.rookSq) := by
  unfold clearCaptured at h
  simp only [pos, Gen.whiteQueenRook, Gen.whiteKingRook, Gen.blackQueenRook, Gen.blackKingRook] at h
  cases stop with | mk sr sc =>
  simp only [Pos.mk.injEq] at h
  cases r <;> simp only [CR.has, CR.rookSq, CR.owner, Pos.mk.injEq] at h ⊢ <;>
    (repeat' split at h) <;> simp_all <;> omega

/-- the byte before the double-step test -/
def midState (g : Game) (pc : Piece) (start stop : Pos) (cap : Option Piece) : GState :=
  clearCaptured
    (if pc.pieceType = .king then clearBoth (g.top.setEnPassant 8) g.player
     else if pc.pieceType = .rook then clearRookFrom (g.top.setEnPassant 8) start
     else g.top.setEnPassant 8) cap stop

theorem pushState_normal (g : Game) (pc : Piece) (start stop : Pos) (cap : Option Piece) :
    pushState g (.normal pc start stop cap) = midState g pc start stop cap
    ∨ (pc.pieceType = .pawn ∧ (stop.row - start.row).natAbs = 2
        ∧ pushState g (.normal pc start stop cap) = (midState g pc start stop cap).setEnPassant start.col) := by
  simp only [pushState, applyMove, midState, apply_ite Prod.snd, setPosition_player]
  split
  · rename_i h
    simp only [Bool.and_eq_true, decide_eq_true_eq] at h
    generalize (_ || _ : Bool) = b
    cases b
    · exact Or.inl rfl
    · exact Or.inr ⟨h.1, h.2, rfl⟩
  · exact Or.inl rfl

/-! ### the state byte after each kind of move -/

theorem pushState_promotion (g : Game) (o : Player) (t : PieceType) (start stop : Pos) (cap : Option Piece) :
    pushState g (.promotion o t start stop cap) = clearCaptured (g.top.setEnPassant 8) cap stop := rfl

theorem pushState_enPassant (g : Game) (o : Player) (sc ec : Int) :
    pushState g (.enPassant o sc ec) = g.top.setEnPassant 8 := by
  cases o <;> rfl

theorem pushState_castlingShort (g : Game) (o : Player) :
    pushState g (.castlingShort o) = clearBoth (g.top.setEnPassant 8) g.player := by
  simp only [pushState, applyMove, setPosition_player]

theorem pushState_castlingLong (g : Game) (o : Player) :
    pushState g (.castlingLong o) = clearBoth (g.top.setEnPassant 8) g.player := by
  simp only [pushState, applyMove, setPosition_player]

theorem setEnPassant8_enPassant (s : GState) : (s.setEnPassant 8).enPassant = 8 :=
  (GState.setEnPassant_all s 8 (by omega) (by omega)).1

theorem midState_enPassant (g : Game) (pc : Piece) (start stop : Pos) (cap : Option Piece) :
    (midState g pc start stop cap).enPassant = 8 := by
  unfold midState
  rw [clearCaptured_enPassant]
  split
  · rw [clearBoth_enPassant, setEnPassant8_enPassant]
  · split
    · rw [clearRookFrom_enPassant, setEnPassant8_enPassant]
    · rw [setEnPassant8_enPassant]

/-- the recorded file after a move: none, unless a pawn has just made a double step -/
theorem pushState_enPassant_cases {g : Game} {m : Move} (hf : g.Fits m) :
    (pushState g m).enPassant = 8 ∨
      ∃ pc start stop cap, m = .normal pc start stop cap ∧ pc.pieceType = .pawn
        ∧ (stop.row - start.row).natAbs = 2 ∧ (pushState g m).enPassant = start.col := by
  cases m with
  | normal pc start stop cap =>
    obtain ⟨hs, -⟩ := hf
    rcases pushState_normal g pc start stop cap with h | ⟨h1, h2, h3⟩
    · left; rw [h, midState_enPassant]
    · right
      refine ⟨pc, start, stop, cap, rfl, h1, h2, ?_⟩
      rw [h3]
      exact (GState.setEnPassant_all _ _ hs.2.2.1 (by have := hs.2.2.2; omega)).1
  | promotion o t start stop cap =>
    left; rw [pushState_promotion, clearCaptured_enPassant, setEnPassant8_enPassant]
  | enPassant o sc ec => left; rw [pushState_enPassant, setEnPassant8_enPassant]
  | castlingShort o => left; rw [pushState_castlingShort, clearBoth_enPassant, setEnPassant8_enPassant]
  | castlingLong o => left; rw [pushState_castlingLong, clearBoth_enPassant, setEnPassant8_enPassant]

/-- **the recorded en-passant file is a file or 8** -/
theorem push_top_ep {g : Game} {m : Move} (hf : g.Fits m) :
    0 ≤ (g.push m).top.enPassant ∧ (g.push m).top.enPassant ≤ 8 := by
  rw [push_top]
  refine ⟨GState.enPassant_nonneg _, ?_⟩
  rcases pushState_enPassant_cases hf with h | ⟨pc, start, stop, cap, rfl, -, -, h⟩
  · omega
  · have := hf.1.2.2.2
    omega

/-! ### rights after each kind of move -/

theorem has_s0 (r : CR) (g : Game) : r.has (g.top.setEnPassant 8) = r.has g.top :=
  CR.has_setEnPassant r _ 8 (by omega) (by omega)

theorem has_midState {r : CR} {g : Game} {pc : Piece} {start stop : Pos} {cap : Option Piece}
    (h : r.has (midState g pc start stop cap) = true) :
    r.has g.top = true ∧ ¬(cap = some ⟨.rook, r.owner⟩ ∧ stop = r.rookSq)
      ∧ (pc.pieceType = .king → r.owner ≠ g.player) ∧ (pc.pieceType = .rook → start ≠ r.rookSq) := by
  unfold midState at h
  obtain ⟨h1, h2⟩ := has_clearCaptured r _ cap stop h
  refine ⟨?_, h2, ?_, ?_⟩
  · split at h1
    · rw [has_clearBoth, has_s0] at h1
      simp only [Bool.and_eq_true] at h1
      exact h1.1
    · split at h1
      · rw [← has_s0]; exact (has_clearRookFrom r _ start h1).1
      · rw [← has_s0]; exact h1
  · intro hk
    rw [if_pos hk, has_clearBoth] at h1
    simp only [Bool.and_eq_true, decide_eq_true_eq] at h1
    exact h1.2
  · intro hr
    by_cases hk : pc.pieceType = .king
    · rw [hk] at hr; cases hr
    · rw [if_neg hk, if_pos hr] at h1
      exact (has_clearRookFrom r _ start h1).2

theorem has_pushState_normal {r : CR} {g : Game} {pc : Piece} {start stop : Pos} {cap : Option Piece}
    (hs : start.Valid) (h : r.has (pushState g (.normal pc start stop cap)) = true) :
    r.has (midState g pc start stop cap) = true := by
  rcases pushState_normal g pc start stop cap with e | ⟨-, -, e⟩
  · rwa [e] at h
  · rw [e, CR.has_setEnPassant r _ _ hs.2.2.1 (by have := hs.2.2.2; omega)] at h
    exact h

end Game
end Chess

namespace Chess

theorem Pos.ofIdx_valid_iv {i : Nat} (hi : i < 64) : (Pos.ofIdx i).Valid := by
  unfold Pos.Valid Pos.ofIdx; simp only; omega
theorem Pos.idx_ofIdx {i : Nat} (hi : i < 64) : (Pos.ofIdx i).idx = i := by
  unfold Pos.idx Pos.ofIdx; simp only; omega

/-- only a king is scored differently in the two phases -/
theorem placeScore_phase (p : Pos) (x : Option Piece) (hx : ∀ pl, x ≠ some ⟨.king, pl⟩) (e e' : Bool) :
    placeScore p e x = placeScore p e' x := by
  cases x with
  | none => rfl
  | some pc =>
    obtain ⟨t, o⟩ := pc
    cases t <;> first | rfl | exact absurd rfl (hx o)

namespace Game

/-! ### what depends only on board, king squares, state stack and side -/

theorem get_congr {g g' : Game} (hb : g'.board = g.board) (q : Pos) : g'.get q = g.get q := by
  unfold get; rw [hb]

theorem get_ofIdx (g : Game) {i : Nat} (hi : i < 64) : g.get (Pos.ofIdx i) = g.board[i] := by
  unfold get
  simp only [Pos.idx_ofIdx hi, hi, dite_true]

theorem top_congr {g g' : Game} (hs : g'.state = g.state) : g'.top = g.top := by unfold top; rw [hs]
theorem kingPos_congr {g g' : Game} (hw : g'.wking = g.wking) (hk : g'.bking = g.bking) (pl : Player) :
    g'.kingPos pl = g.kingPos pl := by
  cases pl <;> simp only [kingPos, hw, hk]
theorem kingExists_congr {g g' : Game} (hb : g'.board = g.board) (hw : g'.wking = g.wking)
    (hk : g'.bking = g.bking) (pl : Player) : g'.kingExists pl = g.kingExists pl := by
  unfold kingExists
  rw [kingPos_congr hw hk, get_congr hb]

theorem kingInv_congr {g g' : Game} (hb : g'.board = g.board) (hw : g'.wking = g.wking)
    (hk : g'.bking = g.bking) (h : g.KingInv) : g'.KingInv := by
  refine ⟨hw ▸ h.wvalid, hk ▸ h.bvalid, ?_⟩
  intro p pl hv hg
  rw [kingPos_congr hw hk]
  rw [get_congr hb] at hg
  exact h.unique p pl hv hg

theorem rightsInv_congr {g g' : Game} (hb : g'.board = g.board) (hw : g'.wking = g.wking)
    (hk : g'.bking = g.bking) (hs : g'.state = g.state) (h : g.RightsInv) : g'.RightsInv := by
  have ht := top_congr hs
  have hx := kingExists_congr hb hw hk
  constructor
  · simp only [ht, hx, get_congr hb, hw]; exact h.wk
  · simp only [ht, hx, get_congr hb, hw]; exact h.wq
  · simp only [ht, hx, get_congr hb, hk]; exact h.bk
  · simp only [ht, hx, get_congr hb, hk]; exact h.bq

theorem epInv_congr {g g' : Game} (hb : g'.board = g.board) (hs : g'.state = g.state)
    (hp : g'.player = g.player) (h : g.EpInv) : g'.EpInv := by
  have ht := top_congr hs
  unfold EpInv
  simp only [ht, hp, get_congr hb]
  exact h

theorem fits_congr {g g' : Game} (hb : g'.board = g.board) (hw : g'.wking = g.wking)
    (hk : g'.bking = g.bking) (hp : g'.player = g.player) (m : Move) : g'.Fits m ↔ g.Fits m := by
  have hkp := kingPos_congr hw hk
  cases m <;> simp only [Fits, get_congr hb, hkp, hp]

theorem moverOk_congr {g g' : Game} (hs : g'.state = g.state) (hp : g'.player = g.player) (m : Move) :
    g'.MoverOk m ↔ g.MoverOk m := by
  have ht := top_congr hs
  cases m <;> simp only [MoverOk, hp, ht]


/-! ### 8. the phase flip -/

/-- the cached key of every square is right (the half of `CacheInv` that ignores the phase) -/
def HashOk (g : Game) : Prop :=
  ∀ (i : Nat) (h : i < 64), g.pastHashes[i] = placeHash (Pos.ofIdx i) g.board[i]
/-- the cached contribution of square `i` is right -/
def ScoreOkAt (g : Game) (i : Nat) (h : i < 64) : Prop :=
  g.pastScores[i] = placeScore (Pos.ofIdx i) g.endgame g.board[i]

theorem setPosition_hashOk (g : Game) (p : Pos) (x : Option Piece) (h : p.Valid) (hc : g.HashOk) :
    (g.setPosition p x).HashOk := by
  intro i hi
  simp only [setPosition_pastHashes g p x h, setPosition_board g p x h]
  by_cases e : p.idx = i
  · subst e; simp [Pos.ofIdx_idx h]
  · simp [Vector.getElem_set_ne, e, hc i hi]

theorem setPosition_scoreOkAt (g : Game) (p : Pos) (x : Option Piece) (h : p.Valid) (i : Nat) (hi : i < 64)
    (hc : p.idx ≠ i → g.ScoreOkAt i hi) : (g.setPosition p x).ScoreOkAt i hi := by
  unfold ScoreOkAt
  simp only [setPosition_pastScores g p x h, setPosition_board g p x h, setPosition_endgame]
  by_cases e : p.idx = i
  · subst e; simp [Pos.ofIdx_idx h]
  · have := hc e
    unfold ScoreOkAt at this
    simp [Vector.getElem_set_ne, e, this]

/-- writing back what a square holds leaves the board alone -/
theorem setPosition_self_board (g : Game) (p : Pos) (h : p.Valid) :
    (g.setPosition p (g.get p)).board = g.board := by
  apply board_ext
  intro q hq
  rw [get_setPosition g p _ h q hq]
  split
  · rename_i e; rw [e]
  · rfl

/-- the game after the two re-scorings of `update_phase` -/
def phaseFlip (g : Game) : Game :=
  let g0 := { g with endgame := true }
  let g1 := g0.setPosition g0.wking (g0.get g0.wking)
  g1.setPosition g1.bking (g1.get g1.bking)

theorem updatePhase_eq (g : Game) : g.updatePhase = if g.isEndgame then g.phaseFlip else g := rfl


section flip
variable {g : Game}

theorem phaseFlip_board (hk : g.KingInv) : g.phaseFlip.board = g.board := by
  unfold phaseFlip
  simp only [setPosition_bking]
  rw [setPosition_self_board _ _ hk.bvalid, setPosition_self_board _ _ hk.wvalid]
@[simp] theorem phaseFlip_wking : g.phaseFlip.wking = g.wking := by simp [phaseFlip]
@[simp] theorem phaseFlip_bking : g.phaseFlip.bking = g.bking := by simp [phaseFlip]
@[simp] theorem phaseFlip_state : g.phaseFlip.state = g.state := by simp [phaseFlip]
@[simp] theorem phaseFlip_player : g.phaseFlip.player = g.player := by simp [phaseFlip]
@[simp] theorem phaseFlip_moveStack : g.phaseFlip.moveStack = g.moveStack := by simp [phaseFlip]
@[simp] theorem phaseFlip_endgame : g.phaseFlip.endgame = true := by simp [phaseFlip]

theorem phaseFlip_resHash (hk : g.KingInv) : g.phaseFlip.resHash = g.resHash := by
  unfold phaseFlip
  simp only [setPosition_bking]
  rw [setPosition_resHash _ _ _ hk.bvalid, setPosition_resHash _ _ _ hk.wvalid]
  rfl

theorem phaseFlip_resScore (hk : g.KingInv) : g.phaseFlip.resScore = g.resScore := by
  unfold phaseFlip
  simp only [setPosition_bking]
  rw [setPosition_resScore _ _ _ hk.bvalid, setPosition_resScore _ _ _ hk.wvalid]
  rfl

/-- after the flip and the two re-scorings every cached contribution is under the end-game table -/
theorem phaseFlip_cacheInv (hc : g.CacheInv) (hk : g.KingInv) : g.phaseFlip.CacheInv := by
  constructor
  · have h0 : HashOk { g with endgame := true } := hc.hashes
    show HashOk g.phaseFlip
    unfold phaseFlip
    simp only [setPosition_bking]
    exact setPosition_hashOk _ _ _ hk.bvalid (setPosition_hashOk _ _ _ hk.wvalid h0)
  · intro i hi
    show ScoreOkAt g.phaseFlip i hi
    unfold phaseFlip
    simp only [setPosition_bking]
    apply setPosition_scoreOkAt _ _ _ hk.bvalid
    intro hb
    apply setPosition_scoreOkAt _ _ _ hk.wvalid
    intro hw
    show g.pastScores[i] = placeScore (Pos.ofIdx i) true g.board[i]
    rw [hc.scores i hi]
    apply placeScore_phase
    intro pl e
    have hu := hk.unique (Pos.ofIdx i) pl (Pos.ofIdx_valid_iv hi) (by rw [get_ofIdx g hi, e])
    cases pl
    · apply hw; show g.wking.idx = i; rw [show g.wking = Pos.ofIdx i from hu, Pos.idx_ofIdx hi]
    · apply hb; show g.bking.idx = i; rw [show g.bking = Pos.ofIdx i from hu, Pos.idx_ofIdx hi]

theorem phaseFlip_wf (hw : g.WF) : g.phaseFlip.WF := by
  have hb := phaseFlip_board hw.kings
  refine ⟨phaseFlip_cacheInv hw.cache hw.kings, kingInv_congr hb (by simp) (by simp) hw.kings,
    rightsInv_congr hb (by simp) (by simp) (by simp) hw.rights, epInv_congr hb (by simp) (by simp) hw.epInv,
    ?_, ?_, ?_, ?_⟩
  · rw [phaseFlip_resHash hw.kings, hw.resHash, phaseFlip_player, top_congr (g := g) (g' := g.phaseFlip) (by simp)]
  · rw [phaseFlip_resScore hw.kings, hw.resScore]
  · rw [phaseFlip_state]; exact hw.nonempty
  · rw [top_congr (g := g) (g' := g.phaseFlip) (by simp)]; exact hw.ep

/-- **`update_phase` keeps the representation invariant** -/
theorem updatePhase_wf (hw : g.WF) : g.updatePhase.WF := by
  rw [updatePhase_eq]
  split
  · exact phaseFlip_wf hw
  · exact hw

theorem updatePhase_board (hk : g.KingInv) : g.updatePhase.board = g.board := by
  rw [updatePhase_eq]; split
  · exact phaseFlip_board hk
  · rfl
@[simp] theorem updatePhase_wking : g.updatePhase.wking = g.wking := by
  rw [updatePhase_eq]; split <;> simp
@[simp] theorem updatePhase_bking : g.updatePhase.bking = g.bking := by
  rw [updatePhase_eq]; split <;> simp
@[simp] theorem updatePhase_state : g.updatePhase.state = g.state := by
  rw [updatePhase_eq]; split <;> simp
@[simp] theorem updatePhase_player : g.updatePhase.player = g.player := by
  rw [updatePhase_eq]; split <;> simp
@[simp] theorem updatePhase_moveStack : g.updatePhase.moveStack = g.moveStack := by
  rw [updatePhase_eq]; split <;> simp

end flip

/-- recording the move in `move_stack` changes nothing the invariant looks at -/
theorem recordMove_wf {g : Game} (m : Move) (hw : g.WF) : WF { g with moveStack := m :: g.moveStack } :=
  ⟨cacheInv_congr (g := g) rfl rfl rfl rfl hw.cache, kingInv_congr (g := g) rfl rfl rfl hw.kings,
    rightsInv_congr (g := g) rfl rfl rfl rfl hw.rights, epInv_congr (g := g) rfl rfl rfl hw.epInv,
    hw.resHash, hw.resScore, hw.nonempty, hw.ep⟩


/-! ### what stands where after the move, and where the kings are cached -/

theorem push_get_normal (g : Game) (pc : Piece) (start stop : Pos) (cap : Option Piece)
    (hs : start.Valid) (he : stop.Valid) (q : Pos) (hq : q.Valid) :
    (g.push (.normal pc start stop cap)).get q
      = if q = stop then some pc else if q = start then none else g.get q := by
  rw [push_get]
  simp only [applyMoveG]
  split <;> simp only [setKingPos_get, get_setPosition _ _ _ he q hq, get_setPosition _ _ _ hs q hq]

theorem push_kingPos_normal (g : Game) (pc : Piece) (start stop : Pos) (cap : Option Piece) (pl : Player) :
    (g.push (.normal pc start stop cap)).kingPos pl
      = if pc.pieceType = .king ∧ pl = g.player then stop else g.kingPos pl := by
  rw [push_kingPos]
  simp only [applyMoveG]
  split
  · rename_i h
    simp only [setKingPos_kingPos, setPosition_player, setPosition_kingPos, h, true_and]
  · rename_i h
    simp only [setPosition_kingPos, h, false_and, if_false]

theorem push_get_promotion (g : Game) (o : Player) (t : PieceType) (start stop : Pos) (cap : Option Piece)
    (hs : start.Valid) (he : stop.Valid) (q : Pos) (hq : q.Valid) :
    (g.push (.promotion o t start stop cap)).get q
      = if q = stop then some ⟨t, o⟩ else if q = start then none else g.get q := by
  rw [push_get]
  simp only [applyMoveG, get_setPosition _ _ _ he q hq, get_setPosition _ _ _ hs q hq]

theorem push_kingPos_promotion (g : Game) (o : Player) (t : PieceType) (start stop : Pos) (cap : Option Piece)
    (pl : Player) : (g.push (.promotion o t start stop cap)).kingPos pl = g.kingPos pl := by
  rw [push_kingPos]
  simp only [applyMoveG, setPosition_kingPos]

theorem push_get_enPassant (g : Game) (o : Player) (sc ec : Int)
    (h1 : 0 ≤ sc) (h2 : sc < 8) (h3 : 0 ≤ ec) (h4 : ec < 8) (q : Pos) (hq : q.Valid) :
    (g.push (.enPassant o sc ec)).get q
      = if q = (epSquares o sc ec).2.1 then some ⟨.pawn, o⟩
        else if q = (epSquares o sc ec).1 then none
        else if q = (epSquares o sc ec).2.2 then none else g.get q := by
  obtain ⟨v1, v2, v3⟩ := epSquares_valid o sc ec h1 h2 h3 h4
  rw [push_get]
  simp only [applyMoveG, get_setPosition _ _ _ v1 q hq, get_setPosition _ _ _ v2 q hq,
    get_setPosition _ _ _ v3 q hq]

theorem push_kingPos_enPassant (g : Game) (o : Player) (sc ec : Int) (pl : Player) :
    (g.push (.enPassant o sc ec)).kingPos pl = g.kingPos pl := by
  rw [push_kingPos]
  simp only [applyMoveG, setPosition_kingPos]

theorem push_get_castlingShort (g : Game) (o : Player) (q : Pos) (hq : q.Valid) :
    (g.push (.castlingShort o)).get q
      = if q = ⟨homeRow o, 6⟩ then some ⟨.king, o⟩ else if q = ⟨homeRow o, 5⟩ then some ⟨.rook, o⟩
        else if q = ⟨homeRow o, 4⟩ then none else if q = ⟨homeRow o, 7⟩ then none else g.get q := by
  have v4 := homeRow_valid o 4 (by omega) (by omega)
  have v5 := homeRow_valid o 5 (by omega) (by omega)
  have v6 := homeRow_valid o 6 (by omega) (by omega)
  have v7 := homeRow_valid o 7 (by omega) (by omega)
  rw [push_get]
  simp only [applyMoveG, setKingPos_get, get_setPosition _ _ _ v4 q hq, get_setPosition _ _ _ v5 q hq,
    get_setPosition _ _ _ v6 q hq, get_setPosition _ _ _ v7 q hq]

theorem push_kingPos_castlingShort (g : Game) (o : Player) (pl : Player) :
    (g.push (.castlingShort o)).kingPos pl = if pl = g.player then ⟨homeRow o, 6⟩ else g.kingPos pl := by
  rw [push_kingPos]
  simp only [applyMoveG, setKingPos_kingPos, setPosition_player, setPosition_kingPos]

theorem push_get_castlingLong (g : Game) (o : Player) (q : Pos) (hq : q.Valid) :
    (g.push (.castlingLong o)).get q
      = if q = ⟨homeRow o, 2⟩ then some ⟨.king, o⟩ else if q = ⟨homeRow o, 3⟩ then some ⟨.rook, o⟩
        else if q = ⟨homeRow o, 4⟩ then none else if q = ⟨homeRow o, 0⟩ then none else g.get q := by
  have v4 := homeRow_valid o 4 (by omega) (by omega)
  have v3 := homeRow_valid o 3 (by omega) (by omega)
  have v2 := homeRow_valid o 2 (by omega) (by omega)
  have v0 := homeRow_valid o 0 (by omega) (by omega)
  rw [push_get]
  simp only [applyMoveG, setKingPos_get, get_setPosition _ _ _ v4 q hq, get_setPosition _ _ _ v3 q hq,
    get_setPosition _ _ _ v2 q hq, get_setPosition _ _ _ v0 q hq]

theorem push_kingPos_castlingLong (g : Game) (o : Player) (pl : Player) :
    (g.push (.castlingLong o)).kingPos pl = if pl = g.player then ⟨homeRow o, 2⟩ else g.kingPos pl := by
  rw [push_kingPos]
  simp only [applyMoveG, setKingPos_kingPos, setPosition_player, setPosition_kingPos]


theorem KingInv.kvalid {g : Game} (h : g.KingInv) (pl : Player) : (g.kingPos pl).Valid := by
  cases pl
  · exact h.wvalid
  · exact h.bvalid

theorem kingInv_of {g : Game} (hv : ∀ pl, (g.kingPos pl).Valid)
    (hu : ∀ (p : Pos) (pl : Player), p.Valid → g.get p = some ⟨.king, pl⟩ → g.kingPos pl = p) : g.KingInv :=
  ⟨hv .white, hv .black, hu⟩

/-! ### 5. the cached king squares -/

theorem push_kingInv_normal {g : Game} {pc : Piece} {start stop : Pos} {cap : Option Piece}
    (hk : g.KingInv) (hf : g.Fits (.normal pc start stop cap)) (hm : g.MoverOk (.normal pc start stop cap)) :
    (g.push (.normal pc start stop cap)).KingInv := by
  obtain ⟨hs, he, hne, hgs, hge, hkp⟩ := hf
  obtain ⟨hown, -⟩ := hm
  apply kingInv_of
  · intro pl
    rw [push_kingPos_normal]
    split
    · exact he
    · exact hk.kvalid pl
  · intro p pl hp hg
    rw [push_get_normal g pc start stop cap hs he p hp] at hg
    rw [push_kingPos_normal]
    by_cases e1 : p = stop
    · rw [if_pos e1] at hg
      simp only [Option.some.injEq] at hg
      subst hg
      simp only [true_and] at hown ⊢
      rw [if_pos hown, e1]
    · rw [if_neg e1] at hg
      by_cases e2 : p = start
      · rw [if_pos e2] at hg; cases hg
      · rw [if_neg e2] at hg
        have := hk.unique p pl hp hg
        split
        · rename_i h
          rw [h.2, hkp h.1] at this
          exact absurd this.symm e2
        · exact this

theorem push_kingInv_promotion {g : Game} {o : Player} {t : PieceType} {start stop : Pos} {cap : Option Piece}
    (hk : g.KingInv) (hf : g.Fits (.promotion o t start stop cap))
    (hm : g.MoverOk (.promotion o t start stop cap)) :
    (g.push (.promotion o t start stop cap)).KingInv := by
  obtain ⟨hs, he, hne, hgs, hge⟩ := hf
  obtain ⟨-, ht⟩ := hm
  apply kingInv_of
  · intro pl
    rw [push_kingPos_promotion]
    exact hk.kvalid pl
  · intro p pl hp hg
    rw [push_get_promotion g o t start stop cap hs he p hp] at hg
    rw [push_kingPos_promotion]
    by_cases e1 : p = stop
    · rw [if_pos e1] at hg
      simp only [Option.some.injEq, Piece.mk.injEq] at hg
      rw [hg.1] at ht
      simp at ht
    · rw [if_neg e1] at hg
      by_cases e2 : p = start
      · rw [if_pos e2] at hg; cases hg
      · rw [if_neg e2] at hg
        exact hk.unique p pl hp hg

theorem push_kingInv_enPassant {g : Game} {o : Player} {sc ec : Int}
    (hk : g.KingInv) (hf : g.Fits (.enPassant o sc ec)) : (g.push (.enPassant o sc ec)).KingInv := by
  obtain ⟨h1, h2, h3, h4, -⟩ := hf
  apply kingInv_of
  · intro pl
    rw [push_kingPos_enPassant]
    exact hk.kvalid pl
  · intro p pl hp hg
    rw [push_get_enPassant g o sc ec h1 h2 h3 h4 p hp] at hg
    rw [push_kingPos_enPassant]
    split at hg
    · simp at hg
    · split at hg
      · cases hg
      · split at hg
        · cases hg
        · exact hk.unique p pl hp hg

theorem push_kingInv_castlingShort {g : Game} {o : Player}
    (hk : g.KingInv) (hf : g.Fits (.castlingShort o)) : (g.push (.castlingShort o)).KingInv := by
  obtain ⟨hown, hkp, -⟩ := hf
  apply kingInv_of
  · intro pl
    rw [push_kingPos_castlingShort]
    split
    · exact homeRow_valid o 6 (by omega) (by omega)
    · exact hk.kvalid pl
  · intro p pl hp hg
    rw [push_get_castlingShort g o p hp] at hg
    rw [push_kingPos_castlingShort]
    split at hg
    · rename_i e
      simp only [Option.some.injEq, Piece.mk.injEq, true_and] at hg
      rw [← hg, hown, if_pos rfl, e, hown]
    · split at hg
      · simp at hg
      · split at hg
        · cases hg
        · split at hg
          · cases hg
          · rename_i e4 _
            have := hk.unique p pl hp hg
            split
            · rename_i h
              rw [h, ← hown, hkp] at this
              exact absurd this.symm e4
            · exact this

theorem push_kingInv_castlingLong {g : Game} {o : Player}
    (hk : g.KingInv) (hf : g.Fits (.castlingLong o)) : (g.push (.castlingLong o)).KingInv := by
  obtain ⟨hown, hkp, -⟩ := hf
  apply kingInv_of
  · intro pl
    rw [push_kingPos_castlingLong]
    split
    · exact homeRow_valid o 2 (by omega) (by omega)
    · exact hk.kvalid pl
  · intro p pl hp hg
    rw [push_get_castlingLong g o p hp] at hg
    rw [push_kingPos_castlingLong]
    split at hg
    · rename_i e
      simp only [Option.some.injEq, Piece.mk.injEq, true_and] at hg
      rw [← hg, hown, if_pos rfl, e, hown]
    · split at hg
      · simp at hg
      · split at hg
        · cases hg
        · split at hg
          · cases hg
          · rename_i e4 _
            have := hk.unique p pl hp hg
            split
            · rename_i h
              rw [h, ← hown, hkp] at this
              exact absurd this.symm e4
            · exact this

/-- **the cached king squares stay right**: after the move every king on the board stands on the
cached square of its colour -/
theorem push_kingInv {g : Game} {m : Move} (hk : g.KingInv) (hf : g.Fits m) (hm : g.MoverOk m) :
    (g.push m).KingInv := by
  cases m with
  | normal pc start stop cap => exact push_kingInv_normal hk hf hm
  | promotion o t start stop cap => exact push_kingInv_promotion hk hf hm
  | enPassant o sc ec => exact push_kingInv_enPassant hk hf
  | castlingShort o => exact push_kingInv_castlingShort hk hf
  | castlingLong o => exact push_kingInv_castlingLong hk hf


/-! ### 6. castling rights -/

/-- what a castling right promises -/
def RightOk (g : Game) (r : CR) : Prop :=
  g.get r.rookSq = some ⟨.rook, r.owner⟩ ∧ g.kingPos r.owner = ⟨homeRow r.owner, 4⟩
    ∧ (g.kingExists r.owner = true → g.get ⟨homeRow r.owner, 4⟩ = some ⟨.king, r.owner⟩)

theorem rightsInv_iff (g : Game) : g.RightsInv ↔ ∀ r : CR, r.has g.top = true → g.RightOk r := by
  constructor
  · intro h r hr
    cases r
    · exact h.wk hr
    · exact h.wq hr
    · exact h.bk hr
    · exact h.bq hr
  · intro h
    exact ⟨h .wk, h .wq, h .bk, h .bq⟩

/-- a generated king step never lands on the cached square of the other king (`get_king_moves`
skips every square within one step of it).  Not implied by `MoverOk`: see `push_rightsInv`. -/
def KingStepOk (g : Game) : Move → Prop
  | .normal pc _ stop _ => pc.pieceType = .king → stop ≠ g.kingPos g.player.other
  | _ => True

theorem rightOk_intro {g : Game} {r : CR} (h1 : g.get r.rookSq = some ⟨.rook, r.owner⟩)
    (h2 : g.kingPos r.owner = ⟨homeRow r.owner, 4⟩)
    (h3 : ∀ pc, g.get ⟨homeRow r.owner, 4⟩ = some pc → pc.pieceType = .king → pc.owner = r.owner) :
    g.RightOk r := by
  refine ⟨h1, h2, ?_⟩
  intro hx
  unfold kingExists at hx
  rw [h2] at hx
  cases hg : g.get ⟨homeRow r.owner, 4⟩ with
  | none => rw [hg] at hx; cases hx
  | some pc =>
    rw [hg] at hx
    simp only [decide_eq_true_eq] at hx
    have := h3 pc hg hx
    obtain ⟨t, o⟩ := pc
    simp only at hx this
    rw [hx, this]

theorem RightOk.kingOwner {g : Game} {r : CR} (h : g.RightOk r) (pc : Piece)
    (hg : g.get ⟨homeRow r.owner, 4⟩ = some pc) (hk : pc.pieceType = .king) : pc.owner = r.owner := by
  have hx : g.kingExists r.owner = true := by
    unfold kingExists
    rw [h.2.1, hg]
    simp only [hk, decide_true]
  have := h.2.2 hx
  rw [hg] at this
  simp only [Option.some.injEq] at this
  rw [this]

theorem rightOk_of_untouched {g g' : Game} {r : CR} (h1 : g'.get r.rookSq = g.get r.rookSq)
    (h2 : g'.kingPos r.owner = g.kingPos r.owner)
    (h3 : g'.get ⟨homeRow r.owner, 4⟩ = g.get ⟨homeRow r.owner, 4⟩) (hr : g.RightOk r) : g'.RightOk r := by
  apply rightOk_intro
  · rw [h1]; exact hr.1
  · rw [h2]; exact hr.2.1
  · intro pc hg hk
    rw [h3] at hg
    exact hr.kingOwner pc hg hk

theorem other_of_ne {a b : Player} (h : a ≠ b) : b.other = a := by
  cases a <;> cases b <;> first | rfl | exact absurd rfl h

theorem homeRow_ne {a b : Player} (h : a ≠ b) : homeRow a ≠ homeRow b := by
  cases a <;> cases b <;> first | exact absurd rfl h | decide

theorem homeRow_cases (a : Player) : homeRow a = 0 ∨ homeRow a = 7 := by
  cases a <;> simp [homeRow]

theorem push_rightOk_normal {g : Game} {pc : Piece} {start stop : Pos} {cap : Option Piece} {r : CR}
    (hf : g.Fits (.normal pc start stop cap)) (hm : g.MoverOk (.normal pc start stop cap))
    (hks : g.KingStepOk (.normal pc start stop cap))
    (hh : r.has (pushState g (.normal pc start stop cap)) = true) (hr : g.RightOk r) :
    (g.push (.normal pc start stop cap)).RightOk r := by
  obtain ⟨hs, he, hne, hgs, hge, hkp⟩ := hf
  obtain ⟨hown, -⟩ := hm
  obtain ⟨-, hcap, hking, hrook⟩ := has_midState (has_pushState_normal hs hh)
  have ve := homeRow_valid r.owner 4 (by omega) (by omega)
  apply rightOk_intro
  · rw [push_get_normal g pc start stop cap hs he _ r.rookSq_valid]
    by_cases e1 : r.rookSq = stop
    · exact absurd ⟨by rw [← hge, ← e1, hr.1], e1.symm⟩ hcap
    · rw [if_neg e1]
      by_cases e2 : r.rookSq = start
      · rw [← e2, hr.1] at hgs
        simp only [Option.some.injEq] at hgs
        exact absurd e2.symm (hrook (by rw [← hgs]))
      · rw [if_neg e2]; exact hr.1
  · rw [push_kingPos_normal]
    split
    · rename_i h
      exact absurd h.2 (hking h.1)
    · exact hr.2.1
  · intro pc' hg hk
    rw [push_get_normal g pc start stop cap hs he _ ve] at hg
    by_cases e1 : (⟨homeRow r.owner, 4⟩ : Pos) = stop
    · rw [if_pos e1] at hg
      simp only [Option.some.injEq] at hg
      subst hg
      by_cases e3 : r.owner = g.player
      · rw [hown, e3]
      · have := hks hk
        rw [other_of_ne e3, hr.2.1] at this
        exact absurd e1.symm this
    · rw [if_neg e1] at hg
      by_cases e2 : (⟨homeRow r.owner, 4⟩ : Pos) = start
      · rw [if_pos e2] at hg; cases hg
      · rw [if_neg e2] at hg
        exact hr.kingOwner pc' hg hk

theorem push_rightOk_promotion {g : Game} {o : Player} {t : PieceType} {start stop : Pos}
    {cap : Option Piece} {r : CR}
    (hf : g.Fits (.promotion o t start stop cap)) (hm : g.MoverOk (.promotion o t start stop cap))
    (hh : r.has (pushState g (.promotion o t start stop cap)) = true) (hr : g.RightOk r) :
    (g.push (.promotion o t start stop cap)).RightOk r := by
  obtain ⟨hs, he, hne, hgs, hge⟩ := hf
  obtain ⟨-, ht⟩ := hm
  rw [pushState_promotion] at hh
  obtain ⟨-, hcap⟩ := has_clearCaptured r _ cap stop hh
  have ve := homeRow_valid r.owner 4 (by omega) (by omega)
  apply rightOk_intro
  · rw [push_get_promotion g o t start stop cap hs he _ r.rookSq_valid]
    by_cases e1 : r.rookSq = stop
    · exact absurd ⟨by rw [← hge, ← e1, hr.1], e1.symm⟩ hcap
    · rw [if_neg e1]
      by_cases e2 : r.rookSq = start
      · rw [← e2, hr.1] at hgs
        simp at hgs
      · rw [if_neg e2]; exact hr.1
  · rw [push_kingPos_promotion]; exact hr.2.1
  · intro pc' hg hk
    rw [push_get_promotion g o t start stop cap hs he _ ve] at hg
    by_cases e1 : (⟨homeRow r.owner, 4⟩ : Pos) = stop
    · rw [if_pos e1] at hg
      simp only [Option.some.injEq] at hg
      subst hg
      simp only at hk
      rw [hk] at ht
      simp at ht
    · rw [if_neg e1] at hg
      by_cases e2 : (⟨homeRow r.owner, 4⟩ : Pos) = start
      · rw [if_pos e2] at hg; cases hg
      · rw [if_neg e2] at hg
        exact hr.kingOwner pc' hg hk

theorem epSquares_rows (o : Player) (sc ec : Int) :
    (2 ≤ (epSquares o sc ec).1.row ∧ (epSquares o sc ec).1.row ≤ 5)
    ∧ (2 ≤ (epSquares o sc ec).2.1.row ∧ (epSquares o sc ec).2.1.row ≤ 5)
    ∧ (2 ≤ (epSquares o sc ec).2.2.row ∧ (epSquares o sc ec).2.2.row ≤ 5) := by
  cases o <;> simp [epSquares]

/-- an en-passant capture touches no square of the two back rows -/
theorem push_get_enPassant_back (g : Game) (o : Player) (sc ec : Int)
    (h1 : 0 ≤ sc) (h2 : sc < 8) (h3 : 0 ≤ ec) (h4 : ec < 8) (q : Pos) (hq : q.Valid)
    (hrow : q.row = 0 ∨ q.row = 7) : (g.push (.enPassant o sc ec)).get q = g.get q := by
  obtain ⟨r1, r2, r3⟩ := epSquares_rows o sc ec
  rw [push_get_enPassant g o sc ec h1 h2 h3 h4 q hq]
  rw [if_neg (by intro e; rw [← e] at r2; omega), if_neg (by intro e; rw [← e] at r1; omega),
    if_neg (by intro e; rw [← e] at r3; omega)]

theorem push_rightOk_enPassant {g : Game} {o : Player} {sc ec : Int} {r : CR}
    (hf : g.Fits (.enPassant o sc ec)) (hr : g.RightOk r) : (g.push (.enPassant o sc ec)).RightOk r := by
  obtain ⟨h1, h2, h3, h4, -⟩ := hf
  apply rightOk_of_untouched _ _ _ hr
  · exact push_get_enPassant_back g o sc ec h1 h2 h3 h4 _ r.rookSq_valid
      (by rw [r.rookSq_row]; exact homeRow_cases _)
  · exact push_kingPos_enPassant g o sc ec _
  · exact push_get_enPassant_back g o sc ec h1 h2 h3 h4 _ (homeRow_valid r.owner 4 (by omega) (by omega))
      (homeRow_cases _)

/-- castling touches only the mover's back row -/
theorem push_get_castlingShort_other (g : Game) (o : Player) (q : Pos) (hq : q.Valid)
    (hrow : q.row ≠ homeRow o) : (g.push (.castlingShort o)).get q = g.get q := by
  rw [push_get_castlingShort g o q hq]
  have : ∀ c, q ≠ ⟨homeRow o, c⟩ := fun c e => hrow (by rw [e])
  rw [if_neg (this _), if_neg (this _), if_neg (this _), if_neg (this _)]

theorem push_get_castlingLong_other (g : Game) (o : Player) (q : Pos) (hq : q.Valid)
    (hrow : q.row ≠ homeRow o) : (g.push (.castlingLong o)).get q = g.get q := by
  rw [push_get_castlingLong g o q hq]
  have : ∀ c, q ≠ ⟨homeRow o, c⟩ := fun c e => hrow (by rw [e])
  rw [if_neg (this _), if_neg (this _), if_neg (this _), if_neg (this _)]

theorem push_rightOk_castlingShort {g : Game} {o : Player} {r : CR}
    (hf : g.Fits (.castlingShort o)) (hh : r.has (pushState g (.castlingShort o)) = true)
    (hr : g.RightOk r) : (g.push (.castlingShort o)).RightOk r := by
  obtain ⟨hown, -⟩ := hf
  rw [pushState_castlingShort, has_clearBoth] at hh
  simp only [Bool.and_eq_true, decide_eq_true_eq] at hh
  have hne : r.owner ≠ o := by rw [hown]; exact hh.2
  apply rightOk_of_untouched _ _ _ hr
  · exact push_get_castlingShort_other g o _ r.rookSq_valid (by rw [r.rookSq_row]; exact homeRow_ne hne)
  · rw [push_kingPos_castlingShort, if_neg hh.2]
  · exact push_get_castlingShort_other g o _ (homeRow_valid r.owner 4 (by omega) (by omega)) (homeRow_ne hne)

theorem push_rightOk_castlingLong {g : Game} {o : Player} {r : CR}
    (hf : g.Fits (.castlingLong o)) (hh : r.has (pushState g (.castlingLong o)) = true)
    (hr : g.RightOk r) : (g.push (.castlingLong o)).RightOk r := by
  obtain ⟨hown, -⟩ := hf
  rw [pushState_castlingLong, has_clearBoth] at hh
  simp only [Bool.and_eq_true, decide_eq_true_eq] at hh
  have hne : r.owner ≠ o := by rw [hown]; exact hh.2
  apply rightOk_of_untouched _ _ _ hr
  · exact push_get_castlingLong_other g o _ r.rookSq_valid (by rw [r.rookSq_row]; exact homeRow_ne hne)
  · rw [push_kingPos_castlingLong, if_neg hh.2]
  · exact push_get_castlingLong_other g o _ (homeRow_valid r.owner 4 (by omega) (by omega)) (homeRow_ne hne)

/-- a right that survives the move was there before -/
theorem has_pushState {g : Game} {m : Move} {r : CR} (hf : g.Fits m) (hh : r.has (pushState g m) = true) :
    r.has g.top = true := by
  cases m with
  | normal pc start stop cap => exact (has_midState (has_pushState_normal hf.1 hh)).1
  | promotion o t start stop cap =>
    rw [pushState_promotion] at hh
    rw [← has_s0]; exact (has_clearCaptured r _ cap stop hh).1
  | enPassant o sc ec => rw [pushState_enPassant, has_s0] at hh; exact hh
  | castlingShort o =>
    rw [pushState_castlingShort, has_clearBoth, has_s0] at hh
    simp only [Bool.and_eq_true] at hh; exact hh.1
  | castlingLong o =>
    rw [pushState_castlingLong, has_clearBoth, has_s0] at hh
    simp only [Bool.and_eq_true] at hh; exact hh.1

/-- **castling rights stay backed by rook and king at home.**  `KingStepOk` is needed: with the
white king captured on e1 on an unchecked line (right `K` still set, `kingExists white = false`), a
black king stepping onto e1 would make `kingExists white` true again with a black king there. -/
theorem push_rightsInv {g : Game} {m : Move} (hr : g.RightsInv) (hf : g.Fits m) (hm : g.MoverOk m)
    (hks : g.KingStepOk m) : (g.push m).RightsInv := by
  rw [rightsInv_iff] at hr ⊢
  intro r hh
  rw [push_top] at hh
  have hr := hr r (has_pushState hf hh)
  cases m with
  | normal pc start stop cap => exact push_rightOk_normal hf hm hks hh hr
  | promotion o t start stop cap => exact push_rightOk_promotion hf hm hh hr
  | enPassant o sc ec => exact push_rightOk_enPassant hf hr
  | castlingShort o => exact push_rightOk_castlingShort hf hh hr
  | castlingLong o => exact push_rightOk_castlingLong hf hh hr


/-! ### 4. the en-passant file -/

/-- what the generator guarantees about a two-row pawn step: it is the double push from the
first row, straight ahead, over an empty square (`get_pawn_moves` produces a two-row step only
that way).  Not implied by `Fits`/`MoverOk`. -/
def PawnDoubleOk (g : Game) : Move → Prop
  | .normal pc start stop _ =>
    pc.pieceType = .pawn → (stop.row - start.row).natAbs = 2 →
      stop.col = start.col ∧
        match g.player with
        | .white => start.row = 1 ∧ stop.row = 3 ∧ g.get ⟨2, start.col⟩ = none
        | .black => start.row = 6 ∧ stop.row = 4 ∧ g.get ⟨5, start.col⟩ = none
  | _ => True

/-- **a recorded en-passant file is backed by the pawn that has just made its double step** -/
theorem push_epInv {g : Game} {m : Move} (hf : g.Fits m) (hm : g.MoverOk m) (hpd : PawnDoubleOk g m) :
    (g.push m).EpInv := by
  unfold EpInv
  rw [push_top, push_player]
  intro hlt
  rcases pushState_enPassant_cases hf with h8 | ⟨pc, start, stop, cap, rfl, hpawn, habs, hcol⟩
  · omega
  · obtain ⟨hs, he, hne, hgs, hge, -⟩ := hf
    obtain ⟨hown, -⟩ := hm
    obtain ⟨hc, hrows⟩ := hpd hpawn habs
    rw [hcol]
    have hpc : pc = ⟨.pawn, g.player⟩ := by
      obtain ⟨t, o⟩ := pc
      simp only at hpawn hown
      rw [hpawn, hown]
    obtain ⟨sr, sc⟩ := start
    obtain ⟨er, ec⟩ := stop
    simp only at hc hrows
    subst hc
    cases hp : g.player with
    | white =>
      rw [hp] at hrows hpc
      obtain ⟨h1, h3, hmid⟩ := hrows
      subst h1 h3
      simp only [Player.other]
      constructor
      · rw [push_get_normal g pc _ _ cap hs he _ he, if_pos rfl, hpc]
      · have hv : (⟨2, ec⟩ : Pos).Valid := by
          simp only [Pos.Valid] at he ⊢; omega
        rw [push_get_normal g pc _ _ cap hs he _ hv, if_neg (by simp), if_neg (by simp)]
        exact hmid
    | black =>
      rw [hp] at hrows hpc
      obtain ⟨h1, h3, hmid⟩ := hrows
      subst h1 h3
      simp only [Player.other]
      constructor
      · rw [push_get_normal g pc _ _ cap hs he _ he, if_pos rfl, hpc]
      · have hv : (⟨5, ec⟩ : Pos).Valid := by
          simp only [Pos.Valid] at he ⊢; omega
        rw [push_get_normal g pc _ _ cap hs he _ hv, if_neg (by simp), if_neg (by simp)]
        exact hmid


/-! ### 7. the induction step -/

/-- **playing a move keeps the representation invariant** -/
theorem push_wf {g : Game} {m : Move} (hw : g.WF) (hf : g.Fits m) (hm : g.MoverOk m)
    (hpd : PawnDoubleOk g m) (hks : g.KingStepOk m) : (g.push m).WF where
  cache := push_cacheInv hw.cache hf
  kings := push_kingInv hw.kings hf hm
  rights := push_rightsInv hw.rights hf hm hks
  epInv := push_epInv hf hm hpd
  resHash := push_hash_inv hw hf
  resScore := by rw [push_resScore hf, hw.resScore]
  nonempty := by rw [push_state]; exact List.cons_ne_nil _ _
  ep := push_top_ep hf

theorem pawnDoubleOk_congr {g g' : Game} (hb : g'.board = g.board) (hp : g'.player = g.player) (m : Move) :
    PawnDoubleOk g' m ↔ PawnDoubleOk g m := by
  cases m <;> simp only [PawnDoubleOk, get_congr hb, hp]

theorem kingStepOk_congr {g g' : Game} (hw : g'.wking = g.wking) (hk : g'.bking = g.bking)
    (hp : g'.player = g.player) (m : Move) : g'.KingStepOk m ↔ g.KingStepOk m := by
  cases m <;> simp only [KingStepOk, kingPos_congr hw hk, hp]

/-- **`push_history` (record the move, refresh the phase, play it) keeps the representation
invariant** -/
theorem pushHistory_wf {g : Game} {m : Move} (hw : g.WF) (hf : g.Fits m) (hm : g.MoverOk m)
    (hpd : PawnDoubleOk g m) (hks : g.KingStepOk m) : (g.pushHistory m).WF := by
  have hw1 : WF { g with moveStack := m :: g.moveStack } := recordMove_wf m hw
  have hb : ({ g with moveStack := m :: g.moveStack } : Game).updatePhase.board = g.board :=
    updatePhase_board hw1.kings
  unfold pushHistory
  apply push_wf (updatePhase_wf hw1)
  · exact (fits_congr hb (by simp) (by simp) (by simp) m).2 hf
  · exact (moverOk_congr (by simp) (by simp) m).2 hm
  · exact (pawnDoubleOk_congr hb (by simp) m).2 hpd
  · exact (kingStepOk_congr (by simp) (by simp) (by simp) m).2 hks


/-! ### the two extra hypotheses are facts about every generated move -/

/-- both extra hypotheses at once -/
def ExtraOk (g : Game) (m : Move) : Prop := PawnDoubleOk g m ∧ g.KingStepOk m

theorem extraOk_normal_other {g : Game} {pc : Piece} {s q : Pos} {cap : Option Piece}
    (h1 : pc.pieceType ≠ .pawn) (h2 : pc.pieceType ≠ .king) : g.ExtraOk (.normal pc s q cap) :=
  ⟨fun h => absurd h h1, fun h => absurd h h2⟩

theorem mem_ite_single_iv {α : Type} {c : Prop} [Decidable c] {a m : α}
    (h : m ∈ (if c then [a] else [])) : m = a := by
  split at h <;> simp_all

theorem mem_ite_single' {α : Type} {c : Prop} [Decidable c] {a m : α}
    (h : m ∈ (if c then [] else [a])) : ¬c ∧ m = a := by
  split at h <;> simp_all

theorem mem_ite_nil_iv {α : Type} {c : Prop} [Decidable c] {l : List α} {m : α}
    (h : m ∈ (if c then [] else l)) : ¬c ∧ m ∈ l := by
  split at h <;> simp_all

theorem rayMoves_normal (g : Game) (pc : Piece) (start : Pos) (d : Int × Int) (fuel : Nat) (p : Pos) :
    ∀ m ∈ rayMoves g pc start p d fuel, ∃ q cap, m = .normal pc start q cap := by
  induction fuel generalizing p with
  | zero => intro m hm; simp [rayMoves] at hm
  | succ n ih =>
    intro m hm
    unfold rayMoves at hm
    split at hm
    · simp at hm
    · rename_i q _
      split at hm
      · split at hm
        · simp only [List.mem_singleton] at hm; exact ⟨_, _, hm⟩
        · simp at hm
      · simp only [List.mem_cons] at hm
        rcases hm with hm | hm
        · exact ⟨_, _, hm⟩
        · exact ih q m hm

theorem slideMoves_normal (g : Game) (pc : Piece) (p : Pos) (rays : List (Int × Int)) :
    ∀ m ∈ slideMoves g pc p rays, ∃ q cap, m = .normal pc p q cap := by
  intro m hm
  unfold slideMoves at hm
  simp only [List.mem_flatMap] at hm
  obtain ⟨d, -, hm⟩ := hm
  exact rayMoves_normal g pc p d 7 p m hm

theorem knightMoves_normal (g : Game) (pc : Piece) (p : Pos) :
    ∀ m ∈ knightMoves g pc p, ∃ q cap, m = .normal pc p q cap := by
  intro m hm
  unfold knightMoves at hm
  simp only [List.mem_flatMap] at hm
  obtain ⟨d, -, hm⟩ := hm
  split at hm
  · simp at hm
  · exact ⟨_, _, (mem_ite_single' hm).2⟩

theorem kingMoves_extraOk (g : Game) (pc : Piece) (p : Pos) (hk : pc.pieceType = .king) :
    ∀ m ∈ kingMoves g pc p, g.ExtraOk m := by
  intro m hm
  unfold kingMoves at hm
  simp only [List.mem_append] at hm
  rcases hm with (hm | hm) | hm
  · simp only [List.mem_flatMap] at hm
    obtain ⟨d, -, hm⟩ := hm
    split at hm
    · simp at hm
    · rename_i q _
      obtain ⟨-, hm⟩ := mem_ite_nil_iv hm
      obtain ⟨hfar, hm⟩ := mem_ite_single' hm
      subst hm
      refine ⟨fun h => (by rw [hk] at h; cases h), fun _ e => hfar ?_⟩
      rw [e]; simp
  · cases hp : g.player <;> simp only [hp] at hm <;> rw [mem_ite_single_iv hm] <;> exact ⟨trivial, trivial⟩
  · cases hp : g.player <;> simp only [hp] at hm <;> rw [mem_ite_single_iv hm] <;> exact ⟨trivial, trivial⟩


theorem mem_ite_single_cond {α : Type} {c : Prop} [Decidable c] {a m : α}
    (h : m ∈ (if c then [a] else [])) : c ∧ m = a := by
  split at h <;> simp_all

theorem pawnDoubleOk_single {g : Game} {pc : Piece} {p q : Pos} {cap : Option Piece}
    (h : (q.row - p.row).natAbs ≠ 2) : PawnDoubleOk g (.normal pc p q cap) :=
  fun _ h2 => absurd h2 h

/-- a pawn's single step or capture, or its promotion: nothing to check -/
theorem pawnDoubleOk_step {g : Game} {pc : Piece} {p q : Pos} {d : Int × Int} {o : Player}
    {cap : Option Piece} {last : Int} {m : Move}
    (hpawn : pc.pieceType = .pawn) (hq : p.add d = some q) (hd : d.1.natAbs = 1)
    (hm : m ∈ if last = q.row then List.map (fun t => Move.promotion o t p q cap) promoPieces
      else [Move.normal pc p q cap]) : g.ExtraOk m := by
  split at hm
  · simp only [List.mem_map] at hm
    obtain ⟨t, -, rfl⟩ := hm
    exact ⟨trivial, trivial⟩
  · simp only [List.mem_singleton] at hm
    subst hm
    refine ⟨?_, fun h => (by rw [hpawn] at h; cases h)⟩
    apply pawnDoubleOk_single
    have := (Pos.new?_valid hq).2
    rw [this]
    simp only
    omega

theorem pawnMoves_extraOk (g : Game) (pc : Piece) (p : Pos) (hown : pc.owner = g.player)
    (hpawn : pc.pieceType = .pawn) : ∀ m ∈ pawnMoves g pc p, g.ExtraOk m := by
  intro m hm
  unfold pawnMoves at hm
  rw [hown] at hm
  cases hp : g.player with
  | white =>
    simp only [hp, Gen.pawnFirstRowW, Gen.pawnLastRowW, Gen.pawnEpRowW, Gen.pawnDeltaW, Gen.pawnFirstDeltaW,
      Gen.pawnSideDeltasW, List.mem_append] at hm
    rcases hm with ((hm | hm) | hm) | hm
    · obtain ⟨hc, rfl⟩ := mem_ite_single_cond hm
      simp only [Bool.and_eq_true, decide_eq_true_eq, Option.isNone_iff_eq_none, Pos.addUnsafe] at hc
      obtain ⟨⟨h1, h2⟩, h3⟩ := hc
      refine ⟨?_, fun h => (by rw [hpawn] at h; cases h)⟩
      intro _ _
      simp only [hp, Pos.addUnsafe]
      obtain ⟨r, c⟩ := p
      simp only at h1 h2 ⊢
      subst h1
      simp only [Int.add_zero] at h2 ⊢
      exact ⟨trivial, trivial, by omega, h2⟩
    · split at hm
      · simp at hm
      · rename_i q hq
        split at hm
        · exact pawnDoubleOk_step hpawn hq (by decide) hm
        · simp at hm
    · simp only [List.mem_flatMap] at hm
      obtain ⟨d, hd, hm⟩ := hm
      split at hm
      · simp at hm
      · rename_i q hq
        split at hm
        · split at hm
          · refine pawnDoubleOk_step hpawn hq ?_ hm
            simp only [List.mem_cons, List.mem_nil_iff, or_false] at hd
            rcases hd with rfl | rfl <;> decide
          · simp at hm
        · simp at hm
    · rw [mem_ite_single_iv hm]; exact ⟨trivial, trivial⟩
  | black =>
    simp only [hp, Gen.pawnFirstRowB, Gen.pawnLastRowB, Gen.pawnEpRowB, Gen.pawnDeltaB, Gen.pawnFirstDeltaB,
      Gen.pawnSideDeltasB, List.mem_append] at hm
    rcases hm with ((hm | hm) | hm) | hm
    · obtain ⟨hc, rfl⟩ := mem_ite_single_cond hm
      simp only [Bool.and_eq_true, decide_eq_true_eq, Option.isNone_iff_eq_none, Pos.addUnsafe] at hc
      obtain ⟨⟨h1, h2⟩, h3⟩ := hc
      refine ⟨?_, fun h => (by rw [hpawn] at h; cases h)⟩
      intro _ _
      simp only [hp, Pos.addUnsafe]
      obtain ⟨r, c⟩ := p
      simp only at h1 h2 ⊢
      subst h1
      simp only [Int.add_zero] at h2 ⊢
      exact ⟨trivial, trivial, by omega, h2⟩
    · split at hm
      · simp at hm
      · rename_i q hq
        split at hm
        · exact pawnDoubleOk_step hpawn hq (by decide) hm
        · simp at hm
    · simp only [List.mem_flatMap] at hm
      obtain ⟨d, hd, hm⟩ := hm
      split at hm
      · simp at hm
      · rename_i q hq
        split at hm
        · split at hm
          · refine pawnDoubleOk_step hpawn hq ?_ hm
            simp only [List.mem_cons, List.mem_nil_iff, or_false] at hd
            rcases hd with rfl | rfl <;> decide
          · simp at hm
        · simp at hm
    · rw [mem_ite_single_iv hm]; exact ⟨trivial, trivial⟩

/-- **every move the generator produces satisfies the two extra hypotheses of `push_wf`** -/
theorem pieceMoves_extraOk (g : Game) (pc : Piece) (p : Pos) (hown : pc.owner = g.player) :
    ∀ m ∈ pieceMoves g pc p, g.ExtraOk m := by
  intro m hm
  unfold pieceMoves at hm
  split at hm
  · rename_i h; exact pawnMoves_extraOk g pc p hown h m hm
  · rename_i h; exact kingMoves_extraOk g pc p h m hm
  · rename_i h
    obtain ⟨q, cap, rfl⟩ := knightMoves_normal g pc p m hm
    exact extraOk_normal_other (by rw [h]; decide) (by rw [h]; decide)
  · rename_i h
    obtain ⟨q, cap, rfl⟩ := slideMoves_normal g pc p _ m hm
    exact extraOk_normal_other (by rw [h]; decide) (by rw [h]; decide)
  · rename_i h
    obtain ⟨q, cap, rfl⟩ := slideMoves_normal g pc p _ m hm
    exact extraOk_normal_other (by rw [h]; decide) (by rw [h]; decide)
  · rename_i h
    obtain ⟨q, cap, rfl⟩ := slideMoves_normal g pc p _ m hm
    exact extraOk_normal_other (by rw [h]; decide) (by rw [h]; decide)

theorem pseudoMoves_extraOk (g : Game) : ∀ m ∈ g.pseudoMoves, PawnDoubleOk g m ∧ g.KingStepOk m := by
  intro m hm
  unfold pseudoMoves at hm
  split at hm
  · simp at hm
  · simp only [List.mem_flatMap] at hm
    obtain ⟨p, -, hm⟩ := hm
    split at hm
    · rename_i pc _
      split at hm
      · rename_i hown
        exact pieceMoves_extraOk g pc p hown m hm
      · simp at hm
    · simp at hm

theorem filterMoves_subset_any (pl : Player) (kp : Pos) (kt : Bool) (ms : List Move) :
    ∀ (g : Game), ∀ m ∈ (filterMoves pl kp kt g ms).1, m ∈ ms := by
  induction ms with
  | nil => intro g m hm; simp [filterMoves] at hm
  | cons a ms ih =>
    intro g m hm
    unfold filterMoves at hm
    split at hm
    · simp only [List.mem_cons] at hm ⊢
      rcases hm with hm | hm
      · exact Or.inl hm
      · exact Or.inr (ih _ m hm)
    · simp only at hm
      split at hm
      · simp only [List.mem_cons] at hm ⊢
        rcases hm with hm | hm
        · exact Or.inl hm
        · exact Or.inr (ih _ m hm)
      · exact List.mem_cons_of_mem _ (ih _ m hm)

theorem getMoves_subset_any (g : Game) (v : Bool) : ∀ m ∈ (g.getMoves v).1, m ∈ g.pseudoMoves := by
  intro m hm
  unfold getMoves at hm
  simp only at hm
  split at hm
  · exact filterMoves_subset_any _ _ _ _ _ m hm
  · exact hm

/-- the moves `get_moves` answers with (checked or not) satisfy the two extra hypotheses -/
theorem getMoves_extraOk (g : Game) (v : Bool) :
    ∀ m ∈ (g.getMoves v).1, PawnDoubleOk g m ∧ g.KingStepOk m :=
  fun m hm => pseudoMoves_extraOk g m (getMoves_subset_any g v m hm)

end Game
end Chess


#print axioms Chess.Game.getMoves_extraOk
#print axioms Chess.Game.push_wf
#print axioms Chess.Game.updatePhase_wf
#print axioms Chess.Game.pushHistory_wf
