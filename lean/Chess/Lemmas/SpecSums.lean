import Chess.Lemmas.Invariant
import Chess.Lemmas.KeyFacts
import Chess.Lemmas.StartHash

/-!
# The cached hash and score of a well-formed game are the specification's sums (C04, C16, C05)

* C04 `wf_hash_eq_spec : g.WF → g.hash = Spec.zobrist g.abs`, `hash_route_independent`,
  `start_hash` (in `StartHash.lean`, kernel-decided on the generated keys and README constant).
* C16 `wf_score_eq_spec : g.WF → g.score = Spec.psq g.abs g.endgame`, `score_route_independent`,
  `mirror_negates`, `lowMaterial_mirror` (generic in the seven tables).
* C05 `single_feature_sensitive` (+ `_square`, `_side`, `_state`), `stateByte_inj_features`,
  `hash_sensitive_of_abs`, `hash_sensitive_single_feature`; built on the kernel-decided
  `state_keys_distinct`, `square_keys_distinct`, `side_key_nonzero` of `KeyFacts.lean`.
-/
namespace Chess

/-! ### generic: `foldr` over a 64-vector as a `foldl` over `List.range 64` -/

theorem toList_eq_map_range {α : Type} {n : Nat} (v : Vector α n) (f : Nat → α)
    (h : ∀ (i : Nat) (hi : i < n), v[i] = f i) : v.toList = (List.range n).map f := by
  apply List.ext_getElem
  · simp
  · intro i h1 h2
    simp only [Vector.getElem_toList, List.getElem_map, List.getElem_range]
    exact h i (by simpa using h1)

theorem foldl_add_eq (f : Nat → Int) (l : List Nat) (a : Int) :
    l.foldl (fun s i => s + f i) a = a + (l.map f).sum := by
  induction l generalizing a with
  | nil => simp
  | cons x l ih => simp only [List.foldl_cons, ih, List.map_cons, List.sum_cons]; omega

theorem foldl_xor_eq (f : Nat → UInt64) (l : List Nat) (a : UInt64) :
    l.foldl (fun s i => s ^^^ f i) a = a ^^^ (l.map f).foldr (· ^^^ ·) 0 := by
  induction l generalizing a with
  | nil => simp
  | cons x l ih => simp only [List.foldl_cons, ih, List.map_cons, List.foldr_cons]; ac_rfl

theorem sumAll_eq_fold_of (v : Vector Int 64) (f : Nat → Int)
    (h : ∀ (i : Nat) (hi : i < 64), v[i] = f i) :
    sumAll v = (List.range 64).foldl (fun s i => s + f i) 0 := by
  rw [foldl_add_eq, sumAll, toList_eq_map_range v f h, List.sum]
  simp

theorem xorAll_eq_fold_of (v : Vector UInt64 64) (f : Nat → UInt64)
    (h : ∀ (i : Nat) (hi : i < 64), v[i] = f i) :
    xorAll v = (List.range 64).foldl (fun s i => s ^^^ f i) 0 := by
  rw [foldl_xor_eq, xorAll, toList_eq_map_range v f h]
  simp

/-! ### B. score (C16) -/

theorem scoreTable_eq_psqTable (t : PieceType) (eg : Bool) :
    Piece.scoreTable t eg = Spec.psqTable t eg := by
  cases t <;> rfl

/-- item 6 -/
theorem placeScore_eq_psqSquare {i : Nat} (h : i < 64) (eg : Bool) (x : Option Piece) :
    placeScore (Pos.ofIdx i) eg x = Spec.psqSquare eg i x := by
  cases x with
  | none => rfl
  | some pc =>
    obtain ⟨t, o⟩ := pc
    cases o
    · simp only [placeScore, Piece.score, Spec.psqSquare, Pos.ofIdx, Player.sign,
        scoreTable_eq_psqTable, Int.mul_one]
      congr 1
      omega
    · simp only [placeScore, Piece.score, Spec.psqSquare, Pos.ofIdx, Player.sign,
        scoreTable_eq_psqTable]
      have : (((i / 8 : Nat) : Int) * 8 + ((i % 8 : Nat) : Int)).toNat = i / 8 * 8 + i % 8 := by omega
      rw [this]
      omega


theorem getD_of_lt {α : Type} (v : Vector α 64) (d : α) {i : Nat} (h : i < 64) :
    v.toArray.getD i d = v[i] := by
  simp [Array.getD, h]

/-- item 7a -/
theorem sumAll_eq_fold {g : Game} (hc : g.CacheInv) :
    sumAll g.pastScores =
      (List.range 64).foldl (fun s i => s + Spec.psqSquare g.endgame i (g.board.toArray.getD i none)) 0 := by
  apply sumAll_eq_fold_of
  intro i hi
  rw [hc.scores i hi, placeScore_eq_psqSquare hi, getD_of_lt _ _ hi]

/-- item 7: the running score of a well-formed game is the specification's piece-square sum of
the abstract position, under the king table of the phase in force -/
theorem wf_score_eq_spec {g : Game} (hw : g.WF) : g.score = Spec.psq g.abs g.endgame := by
  rw [Game.wf_score_sum hw, sumAll_eq_fold hw.cache]
  rfl

theorem score_route_independent {g g' : Game} (hw : g.WF) (hw' : g'.WF)
    (ha : g.abs = g'.abs) (he : g.endgame = g'.endgame) : g.score = g'.score := by
  rw [wf_score_eq_spec hw, wf_score_eq_spec hw', ha, he]

/-! ### A. hash (C04) -/

theorem asIndex_eq_pieceIndex (pc : Piece) : pc.asIndex = Spec.pieceIndex pc := by
  obtain ⟨t, o⟩ := pc
  cases t <;> cases o <;> rfl

/-- item 1 -/
theorem placeHash_eq_squareKey {i : Nat} (h : i < 64) (x : Option Piece) :
    placeHash (Pos.ofIdx i) x = Spec.squareKey i x := by
  cases x with
  | none => rfl
  | some pc =>
    simp only [placeHash, Piece.hash, Spec.squareKey, Pos.idx_ofIdx h, asIndex_eq_pieceIndex]

/-- item 2 -/
theorem xorAll_eq_fold {g : Game} (hc : g.CacheInv) :
    xorAll g.pastHashes =
      (List.range 64).foldl (fun h i => h ^^^ Spec.squareKey i (g.board.toArray.getD i none)) 0 := by
  apply xorAll_eq_fold_of
  intro i hi
  rw [hc.hashes i hi, placeHash_eq_squareKey hi, getD_of_lt _ _ hi]

/-- the byte of the specification, computed from the fields read off an engine byte -/
def byteOfFields (s : GState) : Nat :=
  (match (if s.enPassant < 8 then some s.enPassant.toNat else none : Option Nat) with
    | some f => f | none => 8)
  + (if s.wk then 16 else 0) + (if s.wq then 32 else 0) + (if s.bk then 64 else 0)
  + (if s.bq then 128 else 0)

theorem byteOfFields_eq (s : GState) : s.enPassant ≤ 8 → byteOfFields s = s.toNat := by
  revert s; apply forall_uint8_iv; decide +kernel

theorem stateByte_abs {g : Game} (h8 : g.top.enPassant ≤ 8) :
    Spec.stateByte g.abs = g.top.toNat := by
  rw [← byteOfFields_eq _ h8]; rfl

/-- item 3 -/
theorem stateKey_eq {g : Game} (_h0 : 0 ≤ g.top.enPassant) (h8 : g.top.enPassant ≤ 8) :
    Gen.stateKeys.getD (Spec.stateByte g.abs) 0 = g.top.hash := by
  rw [stateByte_abs h8]; rfl

/-- item 4 (C04): the running hash of a well-formed game is the XOR of the published keys of its
abstract position -/
theorem wf_hash_eq_spec {g : Game} (hw : g.WF) : g.hash = Spec.zobrist g.abs := by
  rw [Game.wf_hash_sum hw, xorAll_eq_fold hw.cache, ← stateKey_eq hw.ep.1 hw.ep.2]
  unfold Spec.zobrist
  have : (if g.player = .black then Gen.blackToMove else 0)
      = (match g.abs.side with | .white => 0 | .black => Gen.blackToMove) := by
    show _ = (match g.player with | .white => 0 | .black => Gen.blackToMove)
    cases g.player <;> rfl
  rw [this]
  rfl

theorem hash_route_independent {g g' : Game} (hw : g.WF) (hw' : g'.WF)
    (ha : g.abs = g'.abs) : g.hash = g'.hash := by
  rw [wf_hash_eq_spec hw, wf_hash_eq_spec hw', ha]

/-! ### C. sensitivity (C05) -/

/-- position of a square content in `squareKeys i` -/
def optIndex : Option Piece → Nat
  | none => 0
  | some pc => Spec.pieceIndex pc + 1

theorem pieceIndex_lt (pc : Piece) : Spec.pieceIndex pc < 12 := by
  obtain ⟨t, o⟩ := pc
  cases t <;> cases o <;> decide

theorem pieceIndex_inj {p q : Piece} (h : Spec.pieceIndex p = Spec.pieceIndex q) : p = q := by
  obtain ⟨t, o⟩ := p
  obtain ⟨t', o'⟩ := q
  cases t <;> cases o <;> cases t' <;> cases o' <;> first | rfl | (exact absurd h (by decide))

theorem optIndex_inj {x y : Option Piece} (h : optIndex x = optIndex y) : x = y := by
  cases x with
  | none =>
    cases y with
    | none => rfl
    | some q => simp only [optIndex] at h; omega
  | some p =>
    cases y with
    | none => simp only [optIndex] at h; omega
    | some q =>
      simp only [optIndex] at h
      rw [pieceIndex_inj (p := p) (q := q) (by omega)]

theorem squareKeys_length (i : Nat) : (squareKeys i).length = 13 := by simp [squareKeys]

theorem optIndex_lt (i : Nat) (x : Option Piece) : optIndex x < (squareKeys i).length := by
  rw [squareKeys_length]
  cases x
  · simp [optIndex]
  · have := pieceIndex_lt ‹_›; simp only [optIndex]; omega

theorem squareKey_eq_getElem (i : Nat) (x : Option Piece) :
    Spec.squareKey i x = (squareKeys i)[optIndex x]'(optIndex_lt i x) := by
  cases x with
  | none => rfl
  | some pc => simp [Spec.squareKey, squareKeys, optIndex]

/-- on one square, different contents have different keys -/
theorem squareKey_inj {i : Nat} (h : i < 64) {x y : Option Piece}
    (e : Spec.squareKey i x = Spec.squareKey i y) : x = y := by
  have hd : pairwiseDistinct (squareKeys i) = true :=
    List.all_eq_true.mp square_keys_distinct i (List.mem_range.mpr h)
  rw [squareKey_eq_getElem, squareKey_eq_getElem] at e
  exact optIndex_inj (pairwiseDistinct_inj hd _ _ e)

theorem stateKeys_getD {a : Nat} (h : a < 256) :
    Gen.stateKeys.getD a 0 = Gen.stateKeys.toList[a]'(by simpa [stateKeys_size] using h) := by
  simp [Array.getD, stateKeys_size, h]

/-- different state bytes have different keys -/
theorem stateKey_inj {a b : Nat} (ha : a < 256) (hb : b < 256)
    (e : Gen.stateKeys.getD a 0 = Gen.stateKeys.getD b 0) : a = b := by
  rw [stateKeys_getD ha, stateKeys_getD hb] at e
  exact pairwiseDistinct_inj state_keys_distinct _ _ e

/-- the placement part of the Zobrist sum -/
def placementKey (b : Vector (Option Piece) 64) : UInt64 :=
  (List.range 64).foldl (fun h i => h ^^^ Spec.squareKey i (b.toArray.getD i none)) 0

theorem zobrist_eq (a : Spec.APos) :
    Spec.zobrist a = placementKey a.board
      ^^^ (match a.side with | .white => 0 | .black => Gen.blackToMove)
      ^^^ Gen.stateKeys.getD (Spec.stateByte a) 0 := rfl

theorem placementKey_set (b : Vector (Option Piece) 64) {i : Nat} (h : i < 64) (x : Option Piece) :
    placementKey (b.set i x) = placementKey b ^^^ Spec.squareKey i b[i] ^^^ Spec.squareKey i x := by
  let v : Vector UInt64 64 := Vector.ofFn (fun j : Fin 64 => Spec.squareKey j b[j])
  have e1 : xorAll v = placementKey b := by
    apply xorAll_eq_fold_of
    intro j hj
    simp [v, getD_of_lt _ _ hj]
  have e2 : xorAll (v.set i (Spec.squareKey i x)) = placementKey (b.set i x) := by
    apply xorAll_eq_fold_of
    intro j hj
    rw [getD_of_lt _ _ hj]
    by_cases e : i = j
    · subst e; simp
    · simp [v, Vector.getElem_set_ne, e]
  rw [← e2, xorAll_set _ _ _ h, e1]
  simp [v]

theorem xor_cancel_right {p k k' : UInt64} (h : p ^^^ k = p ^^^ k') : k = k' :=
  (UInt64.xor_right_inj p).mp h

/-- item 10, square: replacing the content of one square by a different content changes the sum -/
theorem single_feature_sensitive_square (a : Spec.APos) {i : Nat} (h : i < 64) (x : Option Piece)
    (hx : x ≠ a.board[i]) :
    Spec.zobrist { a with board := a.board.set i x } ≠ Spec.zobrist a := by
  intro e
  rw [zobrist_eq, zobrist_eq] at e
  simp only [Spec.stateByte, placementKey_set _ h] at e
  have e' := (UInt64.xor_left_inj _).mp ((UInt64.xor_left_inj _).mp e)
  have : placementKey a.board ^^^ Spec.squareKey i a.board[i] ^^^ Spec.squareKey i x
      = placementKey a.board ^^^ (Spec.squareKey i a.board[i] ^^^ Spec.squareKey i x) := by ac_rfl
  rw [this] at e'
  have e2 : placementKey a.board ^^^ (Spec.squareKey i a.board[i] ^^^ Spec.squareKey i x)
      = placementKey a.board ^^^ 0 := by rw [e']; simp
  have e3 := UInt64.xor_eq_zero_iff.mp (xor_cancel_right e2)
  exact hx (squareKey_inj h e3).symm

/-- item 10, side: giving the move to the other side changes the sum -/
theorem single_feature_sensitive_side (a : Spec.APos) :
    Spec.zobrist { a with side := a.side.other } ≠ Spec.zobrist a := by
  intro e
  rw [zobrist_eq, zobrist_eq] at e
  simp only [Spec.stateByte] at e
  have e' := xor_cancel_right ((UInt64.xor_left_inj _).mp e)
  cases hs : a.side <;> simp only [hs, Player.other] at e'
  · exact side_key_nonzero e'
  · exact side_key_nonzero e'.symm

/-- item 10, rights / en passant: two positions with the same board and side but different state
bytes have different sums -/
theorem single_feature_sensitive_state (a a' : Spec.APos) (hb : a'.board = a.board)
    (hs : a'.side = a.side) (h : Spec.stateByte a < 256) (h' : Spec.stateByte a' < 256)
    (hne : Spec.stateByte a' ≠ Spec.stateByte a) : Spec.zobrist a' ≠ Spec.zobrist a := by
  intro e
  rw [zobrist_eq, zobrist_eq, hb, hs] at e
  exact hne (stateKey_inj h' h (xor_cancel_right e))

/-- the en-passant field is absent or a file -/
def EpOk (a : Spec.APos) : Prop := ∀ f, a.ep = some f → f < 8

theorem ite_toNat (b : Bool) (k : Nat) : (if b then k else 0) = k * b.toNat := by
  cases b <;> simp

theorem toNat_inj' {a b : Bool} (h : a.toNat = b.toNat) : a = b := by
  cases a <;> cases b <;> simp_all

/-- the low nibble of the state byte -/
def epNibble : Option Nat → Nat
  | some f => f
  | none => 8

theorem stateByte_eq (a : Spec.APos) : Spec.stateByte a =
    epNibble a.ep + 16 * a.wk.toNat + 32 * a.wq.toNat + 64 * a.bk.toNat + 128 * a.bq.toNat := by
  simp only [Spec.stateByte, ite_toNat]
  cases a.ep <;> rfl

theorem epNibble_le {a : Spec.APos} (h : EpOk a) : epNibble a.ep ≤ 8 := by
  unfold EpOk at h
  cases he : a.ep with
  | none => simp [epNibble]
  | some f => have := h f he; simp only [epNibble]; omega

theorem epNibble_inj {a a' : Spec.APos} (h : EpOk a) (h' : EpOk a')
    (e : epNibble a.ep = epNibble a'.ep) : a.ep = a'.ep := by
  unfold EpOk at h h'
  cases he : a.ep with
  | none =>
    cases he' : a'.ep with
    | none => rfl
    | some f' => have := h' _ he'; simp only [he, he', epNibble] at e; omega
  | some f =>
    cases he' : a'.ep with
    | none => have := h _ he; simp only [he, he', epNibble] at e; omega
    | some f' => simp only [he, he', epNibble] at e; rw [e]

theorem stateByte_lt {a : Spec.APos} (h : EpOk a) : Spec.stateByte a < 256 := by
  rw [stateByte_eq]
  have := epNibble_le h
  have := Bool.toNat_le a.wk; have := Bool.toNat_le a.wq
  have := Bool.toNat_le a.bk; have := Bool.toNat_le a.bq
  omega

/-- the state byte determines, and is determined by, the four rights and the en-passant field:
each right and each file individually changes the byte -/
theorem stateByte_inj_features {a a' : Spec.APos} (h : EpOk a) (h' : EpOk a') :
    Spec.stateByte a = Spec.stateByte a' ↔
      (a.wk, a.wq, a.bk, a.bq, a.ep) = (a'.wk, a'.wq, a'.bk, a'.bq, a'.ep) := by
  constructor
  · intro e
    rw [stateByte_eq, stateByte_eq] at e
    have := epNibble_le h; have := epNibble_le h'
    have := Bool.toNat_le a.wk; have := Bool.toNat_le a.wq
    have := Bool.toNat_le a.bk; have := Bool.toNat_le a.bq
    have := Bool.toNat_le a'.wk; have := Bool.toNat_le a'.wq
    have := Bool.toNat_le a'.bk; have := Bool.toNat_le a'.bq
    rw [toNat_inj' (a := a.wk) (b := a'.wk) (by omega), toNat_inj' (a := a.wq) (b := a'.wq) (by omega),
      toNat_inj' (a := a.bk) (b := a'.bk) (by omega), toNat_inj' (a := a.bq) (b := a'.bq) (by omega),
      epNibble_inj h h' (by omega)]
  · intro e
    simp only [Prod.mk.injEq] at e
    obtain ⟨e1, e2, e3, e4, e5⟩ := e
    simp only [Spec.stateByte, e1, e2, e3, e4, e5]

/-- item 10 (C05), all parts: changing any single feature of an abstract position — the content of
one square, the side to move, one of the rights or the en-passant file — changes its Zobrist sum -/
theorem single_feature_sensitive (a : Spec.APos) :
    (∀ (i : Nat) (h : i < 64) (x : Option Piece), x ≠ a.board[i] →
        Spec.zobrist { a with board := a.board.set i x } ≠ Spec.zobrist a)
    ∧ Spec.zobrist { a with side := a.side.other } ≠ Spec.zobrist a
    ∧ (∀ a' : Spec.APos, a'.board = a.board → a'.side = a.side → EpOk a → EpOk a' →
        (a'.wk, a'.wq, a'.bk, a'.bq, a'.ep) ≠ (a.wk, a.wq, a.bk, a.bq, a.ep) →
        Spec.zobrist a' ≠ Spec.zobrist a) := by
  refine ⟨fun i h x hx => single_feature_sensitive_square a h x hx,
    single_feature_sensitive_side a, ?_⟩
  intro a' hb hs h h' hne
  exact single_feature_sensitive_state a a' hb hs (stateByte_lt h) (stateByte_lt h')
    (fun e => hne ((stateByte_inj_features h' h).mp e))

theorem epOk_abs (g : Game) : EpOk g.abs := by
  intro f hf
  simp only [Game.abs] at hf
  split at hf
  · simp only [Option.some.injEq] at hf; omega
  · cases hf

/-- transfer to the engine: two well-formed games whose abstract positions have different
Zobrist sums have different running hashes -/
theorem hash_sensitive_of_abs {g g' : Game} (hw : g.WF) (hw' : g'.WF)
    (h : Spec.zobrist g'.abs ≠ Spec.zobrist g.abs) : g'.hash ≠ g.hash := by
  rw [wf_hash_eq_spec hw, wf_hash_eq_spec hw']; exact h

/-- two well-formed games whose positions differ in exactly one feature have different hashes -/
theorem hash_sensitive_single_feature {g g' : Game} (hw : g.WF) (hw' : g'.WF) :
    (∀ (i : Nat) (h : i < 64) (x : Option Piece), x ≠ g.board[i] →
        g'.abs = { g.abs with board := g.abs.board.set i x } → g'.hash ≠ g.hash)
    ∧ (g'.abs = { g.abs with side := g.abs.side.other } → g'.hash ≠ g.hash)
    ∧ (g'.board = g.board → g'.player = g.player →
        (g'.top.wk, g'.top.wq, g'.top.bk, g'.top.bq, g'.abs.ep)
          ≠ (g.top.wk, g.top.wq, g.top.bk, g.top.bq, g.abs.ep) → g'.hash ≠ g.hash) := by
  refine ⟨?_, ?_, ?_⟩
  · intro i h x hx e
    apply hash_sensitive_of_abs hw hw'
    rw [e]; exact single_feature_sensitive_square g.abs h x hx
  · intro e
    apply hash_sensitive_of_abs hw hw'
    rw [e]; exact single_feature_sensitive_side g.abs
  · intro hb hp hne
    apply hash_sensitive_of_abs hw hw'
    exact (single_feature_sensitive g.abs).2.2 g'.abs hb hp (epOk_abs g) (epOk_abs g') hne

/-! ### B'. colour symmetry of the evaluation (C16) -/

/-- the rank flip on square indices -/
def mir (i : Nat) : Nat := (7 - i / 8) * 8 + i % 8

/-- the rank flip permutes the 64 squares -/
theorem mir_perm : ((List.range 64).map mir).Perm (List.range 64) := by decide +kernel

theorem perm_sum_int {l₁ l₂ : List Int} (h : l₁.Perm l₂) : l₁.sum = l₂.sum := by
  induction h with
  | nil => rfl
  | cons x _ ih => simp only [List.sum_cons, ih]
  | swap x y l => simp only [List.sum_cons]; omega
  | trans _ _ ih1 ih2 => omega

/-- a sum over the 64 squares may be taken in rank-flipped order -/
theorem sum_reindex_int (f : Nat → Int) :
    ((List.range 64).map (fun i => f (mir i))).sum = ((List.range 64).map f).sum := by
  have : (List.range 64).map (fun i => f (mir i)) = ((List.range 64).map mir).map f := by
    rw [List.map_map]; rfl
  rw [this]
  exact perm_sum_int (mir_perm.map f)

theorem sum_reindex_nat (f : Nat → Nat) :
    ((List.range 64).map (fun i => f (mir i))).sum = ((List.range 64).map f).sum := by
  have : (List.range 64).map (fun i => f (mir i)) = ((List.range 64).map mir).map f := by
    rw [List.map_map]; rfl
  rw [this]
  exact (mir_perm.map f).sum_nat

theorem sum_map_neg (f : Nat → Int) (l : List Nat) :
    (l.map (fun i => - f i)).sum = - (l.map f).sum := by
  induction l with
  | nil => rfl
  | cons x l ih => simp only [List.map_cons, List.sum_cons, ih]; omega

theorem foldl_add_nat_eq (f : Nat → Nat) (l : List Nat) (a : Nat) :
    l.foldl (fun s i => s + f i) a = a + (l.map f).sum := by
  induction l generalizing a with
  | nil => simp
  | cons x l ih => simp only [List.foldl_cons, ih, List.map_cons, List.sum_cons]; omega

/-- swap the colour of a piece -/
def flipPiece (pc : Piece) : Piece := ⟨pc.pieceType, pc.owner.other⟩

theorem mirror_board_getD (a : Spec.APos) {i : Nat} (h : i < 64) :
    (Spec.mirror a).board.toArray.getD i none = (a.board.toArray.getD (mir i) none).map flipPiece := by
  rw [getD_of_lt _ _ h]
  simp only [Spec.mirror, Vector.getElem_ofFn]
  rfl

/-- one square: the colour-swapped piece on the rank-flipped square is worth the opposite -/
theorem psqSquare_mirror (e : Bool) {i : Nat} (h : i < 64) (x : Option Piece) :
    Spec.psqSquare e i (x.map flipPiece) = - Spec.psqSquare e (mir i) x := by
  cases x with
  | none => simp [Spec.psqSquare]
  | some pc =>
    obtain ⟨t, o⟩ := pc
    cases o
    · simp only [Option.map_some, flipPiece, Player.other, Spec.psqSquare]
      have : (7 - mir i / 8) * 8 + mir i % 8 = i / 8 * 8 + i % 8 := by unfold mir; omega
      rw [this]
    · simp only [Option.map_some, flipPiece, Player.other, Spec.psqSquare, Int.neg_neg]
      have : mir i / 8 * 8 + mir i % 8 = (7 - i / 8) * 8 + i % 8 := by unfold mir; omega
      rw [this]

/-- item 8 (C16): the piece-square sum of the colour-mirrored position is the opposite, for every
position and either king table — generic in the tables -/
theorem mirror_negates (a : Spec.APos) (e : Bool) :
    Spec.psq (Spec.mirror a) e = - Spec.psq a e := by
  unfold Spec.psq
  rw [foldl_add_eq, foldl_add_eq]
  obtain ⟨G, hG⟩ : ∃ G : Nat → Int, G = fun j => Spec.psqSquare e j (a.board.toArray.getD j none) :=
    ⟨_, rfl⟩
  have : (List.range 64).map (fun i => Spec.psqSquare e i ((Spec.mirror a).board.toArray.getD i none))
      = (List.range 64).map (fun i => - G (mir i)) := by
    apply List.map_congr_left
    intro i hi
    have hi := List.mem_range.mp hi
    rw [mirror_board_getD a hi, psqSquare_mirror e hi, hG]
  rw [this, sum_map_neg (fun i => G (mir i)), sum_reindex_int G, hG]
  omega

/-- the end-game test does not see colours -/
theorem lowMaterial_mirror (a : Spec.APos) (e : Bool) :
    Spec.lowMaterial (Spec.mirror a) e = Spec.lowMaterial a e := by
  unfold Spec.lowMaterial
  rw [foldl_add_nat_eq, foldl_add_nat_eq]
  obtain ⟨G, hG⟩ : ∃ G : Nat → Nat,
      G = fun j => (Spec.psqSquare e j (a.board.toArray.getD j none)).natAbs := ⟨_, rfl⟩
  have : (List.range 64).map (fun i => (Spec.psqSquare e i ((Spec.mirror a).board.toArray.getD i none)).natAbs)
      = (List.range 64).map (fun i => G (mir i)) := by
    apply List.map_congr_left
    intro i hi
    have hi := List.mem_range.mp hi
    rw [mirror_board_getD a hi, psqSquare_mirror e hi, Int.natAbs_neg, hG]
  rw [this, sum_reindex_nat G, hG]

end Chess

#print axioms Chess.wf_hash_eq_spec
#print axioms Chess.hash_route_independent
#print axioms Chess.start_hash
#print axioms Chess.startPos_eq_fen
#print axioms Chess.wf_score_eq_spec
#print axioms Chess.score_route_independent
#print axioms Chess.mirror_negates
#print axioms Chess.lowMaterial_mirror
#print axioms Chess.single_feature_sensitive
#print axioms Chess.single_feature_sensitive_square
#print axioms Chess.single_feature_sensitive_side
#print axioms Chess.single_feature_sensitive_state
#print axioms Chess.stateByte_inj_features
#print axioms Chess.hash_sensitive_of_abs
#print axioms Chess.hash_sensitive_single_feature
#print axioms Chess.squareKey_inj
#print axioms Chess.stateKey_inj
#print axioms Chess.state_keys_distinct
#print axioms Chess.square_keys_distinct
#print axioms Chess.side_key_nonzero
