import Chess.Lemmas.Mate2Aux2

/-!
# Mate in two: the move loop of an interior node without null-window re-search

The loop invariant `LInv` and the loop lemma `nodeLoop_ok`, for a node all of whose moves are
searched with the full window (`index ≤ fullWindowMaxIndex`, i.e. at most three legal moves).
`remc` is the number of plies left at the children; the node itself has `remc + 1`.
-/
namespace Chess.Search.Mate2
open Chess.Search Chess.Search.Mate

variable {G M : Type}

/-- the contract of a child call: for every non-empty window and every table that is fine -/
def ChildOK (o : Ops G M) (S : Sem o) (cm : Prop) (D : Nat)
    (child : G → Int → Int → Int → St M → Option (Int × St M)) (remc : Nat) (c : G) (rdc : Int) :
    Prop :=
  ∀ a b st, a < b → TInv o S cm D st.tt →
    ∃ v st', child c a b rdc st = some (v, st') ∧ TInv o S cm D st'.tt ∧ RngS a b v ∧
      Claims o S remc c a b v ∧ Compl o cm remc c a b v ∧
      (Mated o c → 2 ≤ remc → v = scoreMin + Gen.mateNode + rdc)

/-- one full-window step of the loop -/
theorem nodeStep_full (o : Ops G M) (child : G → Int → Int → Int → St M → Option (Int × St M))
    (g : G) (rd β : Int) (m : M) (index : Nat) (alpha bs : Int) (bm : Option M) (st : St M)
    (hidx : index ≤ Gen.fullWindowMaxIndex) {v : Int} {st1 : St M}
    (he : child (o.push g m) (-β) (-alpha) (rd + 1) st = some (v, st1)) :
    ∃ bm', nodeStep o child g rd β m index alpha bs bm st =
      some (max alpha (-v), max bs (-v), bm', st1) := by
  unfold nodeStep
  simp only []
  rw [if_pos hidx, he]
  simp only []
  by_cases hs : -v > bs
  · simp only [hs, if_true]
    exact ⟨some m, by rw [show max bs (-v) = -v by omega]⟩
  · simp only [hs, if_false]
    exact ⟨bm, by rw [show max bs (-v) = bs by omega]⟩

/-- the loop invariant: `a` is the `alpha` the node was called with, `PW` says that the moves tried
so far all lead to won positions, `pend` that a mating move is still to come, `first` that no move
has been tried -/
structure LInv (o : Ops G M) (S : Sem o) (cm : Prop) (remc : Nat) (x : G) (a β : Int)
    (PW pend first : Prop) (alpha bs : Int) : Prop where
  lo : a ≤ alpha
  nU : alpha ≤ max a mS ∧ bs ≤ max a mS
  nL : first ∨ (min β (-mS) ≤ alpha ∧ min β (-mS) ≤ bs)
  cU : (alpha ≤ max a evalBound ∧ bs ≤ max a evalBound) ∨ S.W (remc + 1) x
  cL : PW ∨ (min β (-evalBound) ≤ alpha ∧ min β (-evalBound) ≤ bs)
  c1 : cm → 2 ≤ remc → MateIn1 o x →
    pend ∨ (evalBound < alpha ∧ evalBound < bs) ∨ (β ≤ alpha ∧ β ≤ bs)
  c2 : cm → 3 ≤ remc → Lost1 o x → alpha ≤ max a (-evalBound - 1) ∧ bs ≤ max a (-evalBound - 1)

theorem LInv.imp {o : Ops G M} {S : Sem o} {cm : Prop} {remc : Nat} {x : G} {a β : Int}
    {PW pend first PW' pend' first' : Prop} {alpha bs : Int}
    (h : LInv o S cm remc x a β PW pend first alpha bs) (h1 : PW → PW') (h2 : pend → pend')
    (h3 : first → first') : LInv o S cm remc x a β PW' pend' first' alpha bs where
  lo := h.lo
  nU := h.nU
  nL := h.nL.imp h3 id
  cU := h.cU
  cL := h.cL.imp h1 id
  c1 := fun k1 k2 k3 => (h.c1 k1 k2 k3).imp h2 id
  c2 := h.c2

theorem LInv.of_cut {o : Ops G M} {S : Sem o} {cm : Prop} {remc : Nat} {x : G} {a β : Int}
    {PW pend PW' pend' first' : Prop} {alpha bs : Int}
    (h : LInv o S cm remc x a β PW pend False alpha bs) (hc : β ≤ alpha ∧ β ≤ bs) :
    LInv o S cm remc x a β PW' pend' first' alpha bs where
  lo := h.lo
  nU := h.nU
  nL := Or.inr (by rcases h.nL with k | k; exact absurd k id; exact k)
  cU := h.cU
  cL := Or.inr ⟨by omega, by omega⟩
  c1 := fun _ _ _ => Or.inr (Or.inr hc)
  c2 := h.c2

/-- the invariant after one more move -/
theorem LInv.step {o : Ops G M} {S : Sem o} {cm : Prop} {remc : Nat} {x : G} {a β : Int}
    {PW first : Prop} {alpha bs : Int} {m : M} {ms : List M} {rd v : Int}
    (h : LInv o S cm remc x a β PW (∃ m' ∈ m :: ms, Mated o (o.push x m')) first alpha bs)
    (hrd : 0 ≤ rd ∧ rd ≤ 600) (hm : m ∈ o.checked x)
    (r : RngS (-β) (-alpha) v) (c : Claims o S remc (o.push x m) (-β) (-alpha) v)
    (p : Compl o cm remc (o.push x m) (-β) (-alpha) v)
    (q : Mated o (o.push x m) → 2 ≤ remc → v = scoreMin + Gen.mateNode + (rd + 1)) :
    LInv o S cm remc x a β (PW ∧ S.W remc (o.push x m)) (∃ m' ∈ ms, Mated o (o.push x m'))
      False (max alpha (-v)) (max bs (-v)) := by
  have hE := evalBound_le_mS
  have hlo := h.lo
  obtain ⟨nU1, nU2⟩ := h.nU
  unfold RngS at r
  obtain ⟨r1, r2⟩ := r
  obtain ⟨cc1, cc2⟩ := c
  refine ⟨by omega, ⟨by omega, by omega⟩, Or.inr ⟨by omega, by omega⟩, ?_, ?_, ?_, ?_⟩
  · -- cU
    rcases h.cU with ⟨k1, k2⟩ | k
    · rcases cc2 with k3 | k3
      · exact Or.inl ⟨by omega, by omega⟩
      · exact Or.inr (S.win hm k3)
    · exact Or.inr k
  · -- cL
    rcases cc1 with k3 | k3
    · exact Or.inr ⟨by omega, by omega⟩
    · rcases h.cL with k | ⟨k1, k2⟩
      · exact Or.inl ⟨k, k3⟩
      · exact Or.inr ⟨by omega, by omega⟩
  · -- c1
    intro k1 k2 k3
    rcases h.c1 k1 k2 k3 with ⟨m', hm', hM⟩ | ⟨j1, j2⟩ | ⟨j1, j2⟩
    · rcases List.mem_cons.1 hm' with rfl | hm'
      · have hv := q hM k2
        have : evalBound < -v := by
          rw [hv]
          simp only [evalBound, scoreMax, scoreMin, Gen.exitHi, Gen.mateNode]
          omega
        exact Or.inr (Or.inl ⟨by omega, by omega⟩)
      · exact Or.inl ⟨m', hm', hM⟩
    · exact Or.inr (Or.inl ⟨by omega, by omega⟩)
    · exact Or.inr (Or.inr ⟨by omega, by omega⟩)
  · -- c2
    intro k1 k2 k3
    obtain ⟨j1, j2⟩ := h.c2 k1 k2 k3
    have := (p k1).1 (k3.2 m hm) k2
    exact ⟨by omega, by omega⟩

/-- **The loop of a node whose moves are all searched with the full window.** -/
theorem nodeLoop_ok (o : Ops G M) (S : Sem o) (cm : Prop) (D : Nat)
    (child : G → Int → Int → Int → St M → Option (Int × St M)) (x : G) (remc : Nat)
    (rd a β : Int) (hrd : 0 ≤ rd ∧ rd ≤ 600) :
    ∀ (ms : List M), (∀ m ∈ ms, m ∈ o.checked x ∧
        ChildOK o S cm D child remc (o.push x m) (rd + 1)) →
      ∀ (index : Nat) (alpha bs : Int) (bm : Option M) (st : St M) (PW first : Prop),
        index + ms.length ≤ Gen.fullWindowMaxIndex + 1 → TInv o S cm D st.tt → alpha < β →
        LInv o S cm remc x a β PW (∃ m ∈ ms, Mated o (o.push x m)) first alpha bs →
        ∃ out, nodeLoop o child x (remc + 1) rd β ms index alpha bs bm st = some out ∧
          TInv o S cm D out.st.tt ∧
          LInv o S cm remc x a β (PW ∧ ∀ m ∈ ms, S.W remc (o.push x m)) False
            (first ∧ ms = []) out.alpha out.bestScore := by
  intro ms
  induction ms with
  | nil =>
    intro _ index alpha bs bm st PW first _ hQ _ hI
    refine ⟨⟨alpha, bs, bm, st⟩, rfl, hQ, hI.imp (fun k => ⟨k, fun _ h => by cases h⟩) ?_
      (fun k => ⟨k, rfl⟩)⟩
    rintro ⟨_, h, _⟩
    cases h
  | cons m ms ih =>
    intro hc index alpha bs bm st PW first hidx hQ hab hI
    obtain ⟨hm, hcm⟩ := hc m List.mem_cons_self
    obtain ⟨v, st1, he, hQ1, r, c, p, q⟩ := hcm (-β) (-alpha) st (by omega) hQ
    have hidx' : index ≤ Gen.fullWindowMaxIndex := by
      simp only [List.length_cons] at hidx; omega
    obtain ⟨bm', hs⟩ := nodeStep_full o child x rd β m index alpha bs bm st hidx' he
    have hI' := hI.step hrd hm r c p q
    rw [nodeLoop_cons, hs]
    simp only []
    by_cases hcut : max alpha (-v) ≥ β
    · simp only [hcut, if_true]
      refine ⟨_, rfl, ?_, hI'.of_cut ⟨hcut, by omega⟩⟩
      cases o.histIdx m <;> exact hQ1
    · simp only [hcut, if_false]
      obtain ⟨out, k1, k2, k3⟩ := ih (fun m' hm' => hc m' (List.mem_cons_of_mem _ hm'))
        (index + 1) (max alpha (-v)) (max bs (-v)) bm' st1 (PW ∧ S.W remc (o.push x m)) False
        (by simp only [List.length_cons] at hidx; omega) hQ1 (by omega) hI'
      refine ⟨out, k1, k2, k3.imp ?_ id (fun k => k.1.elim)⟩
      rintro ⟨⟨k4, k5⟩, k6⟩
      refine ⟨k4, fun m' hm' => ?_⟩
      rcases List.mem_cons.1 hm' with rfl | hm'
      · exact k5
      · exact k6 m' hm'

end Chess.Search.Mate2
