import Chess.Lemmas.AlphaBetaAux

/-!
# Alpha-beta soundness: the interior node
-/
namespace Chess.Search

variable {G M : Type}

/-- the child function answers every window in the engine's range, keeps the table switched off,
and is sound for the reference value `cv` -/
def ChildSound (child : G → Int → Int → Int → St M → Option (Int × St M)) (g' : G) (rd' : Int)
    (cv : Int) : Prop :=
  ∀ a b st, scoreMin ≤ a → b ≤ -scoreMin → st.ttOff = true →
    ∃ r st', child g' a b rd' st = some (r, st') ∧ st'.ttOff = true ∧ Btw a b cv r

/-- one iteration of `nodeLoop` before the cut-off test -/
def nodeStep (o : Ops G M) (child : G → Int → Int → Int → St M → Option (Int × St M))
    (g : G) (rd beta : Int) (m : M) (index : Nat) (alpha bestScore : Int) (bestMove : Option M)
    (st : St M) : Option (Int × Int × Option M × St M) :=
  let g' := o.push g m
  if index ≤ Gen.fullWindowMaxIndex then
    match child g' (-beta) (-alpha) (rd + 1) st with
    | none => none
    | some (v, st) =>
      let score := -v
      let (bestScore, bestMove) := if score > bestScore then (score, some m) else (bestScore, bestMove)
      some (max alpha score, bestScore, bestMove, st)
  else
    match child g' (-alpha - 1) (-alpha) (rd + 1) st with
    | none => none
    | some (v, st) =>
      let test := -v
      if test > bestScore then
        match child g' (-beta) (-test) (rd + 1) st with
        | none => none
        | some (v2, st) =>
          let score := -v2
          some (max alpha score, score, some m, st)
      else some (alpha, bestScore, bestMove, st)

theorem nodeLoop_cons (o : Ops G M) (child : G → Int → Int → Int → St M → Option (Int × St M))
    (g : G) (remaining : Nat) (rd beta : Int) (m : M) (ms : List M) (index : Nat)
    (alpha bestScore : Int) (bestMove : Option M) (st : St M) :
    nodeLoop o child g remaining rd beta (m :: ms) index alpha bestScore bestMove st =
      match nodeStep o child g rd beta m index alpha bestScore bestMove st with
      | none => none
      | some (alpha, bestScore, bestMove, st) =>
        if alpha ≥ beta then
          let st := { st with killers := st.killers.setIfInBounds rd.toNat (some m) }
          let st := match o.histIdx m with
            | some i => { st with history := st.history.setIfInBounds i (historyBonus remaining (st.history.getD i 0)) }
            | none => st
          some ⟨alpha, bestScore, bestMove, st⟩
        else nodeLoop o child g remaining rd beta ms (index + 1) alpha bestScore bestMove st := by
  rfl

/-- The step: it answers, keeps the invariants, never lowers `alpha`, never raises it above the
true `max alpha sv`, and if it does not cut then `alpha` is exactly `max alpha sv`. -/
theorem nodeStep_spec (o : Ops G M) (child : G → Int → Int → Int → St M → Option (Int × St M))
    (g : G) (rd β : Int) (m : M) (index : Nat) (alpha bs : Int) (bm : Option M) (st : St M)
    (cv : Int) (hc : ChildSound child (o.push g m) (rd + 1) cv) (hcv : cv ≤ -scoreMin)
    (h1 : scoreMin ≤ bs) (h2 : bs ≤ alpha) (h3 : β ≤ -scoreMin)
    (h4 : index ≤ Gen.fullWindowMaxIndex ∨ alpha < β) (h5 : st.ttOff = true) :
    ∃ a' bs' bm' st', nodeStep o child g rd β m index alpha bs bm st = some (a', bs', bm', st') ∧
      st'.ttOff = true ∧ scoreMin ≤ bs' ∧ bs' ≤ a' ∧ alpha ≤ a' ∧ a' ≤ max alpha (-cv) ∧
      (a' < β → a' = max alpha (-cv)) := by
  unfold nodeStep
  simp only []
  by_cases hidx : index ≤ Gen.fullWindowMaxIndex
  · rw [if_pos hidx]
    obtain ⟨r, st', he, ht, hb⟩ := hc (-β) (-alpha) st (by omega) (by omega) h5
    simp only [he]
    have hb := hb.neg
    simp only [Int.neg_neg] at hb
    generalize -r = s at hb ⊢
    unfold Btw at hb
    by_cases hs : s > bs
    · simp only [hs, if_true]
      exact ⟨_, _, _, _, rfl, ht, by omega, by omega, by omega, by omega, by omega⟩
    · simp only [hs, if_false]
      exact ⟨_, _, _, _, rfl, ht, by omega, by omega, by omega, by omega, by omega⟩
  · rw [if_neg hidx]
    have hab : alpha < β := by cases h4 with
      | inl h => exact absurd h hidx
      | inr h => exact h
    obtain ⟨r, st', he, ht, hb⟩ := hc (-alpha - 1) (-alpha) st (by omega) (by omega) h5
    simp only [he]
    have hb := hb.neg
    simp only [Int.neg_neg, Int.neg_sub] at hb
    generalize -r = test at hb ⊢
    unfold Btw at hb
    by_cases hs : test > bs
    · simp only [hs, if_true]
      obtain ⟨r2, st2, he2, ht2, hb2⟩ := hc (-β) (-test) st' (by omega) (by omega) ht
      simp only [he2]
      have hb2 := hb2.neg
      simp only [Int.neg_neg] at hb2
      generalize -r2 = s at hb2 ⊢
      unfold Btw at hb2
      exact ⟨_, _, _, _, rfl, ht2, by omega, by omega, by omega, by omega, by omega⟩
    · simp only [hs, if_false]
      exact ⟨_, _, _, _, rfl, ht, by omega, by omega, by omega, by omega, by omega⟩

/-- the move loop of an interior node -/
theorem nodeLoop_spec (o : Ops G M) (child : G → Int → Int → Int → St M → Option (Int × St M))
    (cv : M → Int) (g : G) (remaining : Nat) (rd β : Int) (ms : List M)
    (hc : ∀ m ∈ ms, ChildSound child (o.push g m) (rd + 1) (cv m) ∧ cv m ≤ -scoreMin)
    (h3 : β ≤ -scoreMin)
    (index : Nat) (alpha bs : Int) (bm : Option M) (st : St M)
    (h1 : scoreMin ≤ bs) (h2 : bs ≤ alpha)
    (h4 : index ≤ Gen.fullWindowMaxIndex ∨ alpha < β) (h5 : st.ttOff = true) :
    ∃ out, nodeLoop o child g remaining rd β ms index alpha bs bm st = some out ∧
      out.st.ttOff = true ∧
      min ((ms.map fun m => -(cv m)).foldl max alpha) β ≤ out.alpha ∧
      out.alpha ≤ (ms.map fun m => -(cv m)).foldl max alpha := by
  induction ms generalizing index alpha bs bm st with
  | nil =>
    refine ⟨⟨alpha, bs, bm, st⟩, rfl, h5, ?_, ?_⟩ <;> simp only [List.map_nil, List.foldl_nil] <;> omega
  | cons m ms ih =>
    have ih' := ih (fun m' hm' => hc m' (List.mem_cons_of_mem _ hm'))
    obtain ⟨a', bs', bm', st', he, ht, k1, k2, k3, k4, k5⟩ :=
      nodeStep_spec o child g rd β m index alpha bs bm st (cv m) (hc m List.mem_cons_self).1
        (hc m List.mem_cons_self).2 h1 h2 h3 h4 h5
    rw [nodeLoop_cons, he]
    simp only [List.map_cons, List.foldl_cons]
    have hle := le_foldl_max (ms.map fun m => -(cv m)) (max alpha (-(cv m)))
    by_cases hcut : a' ≥ β
    · simp only [hcut, if_true]
      refine ⟨_, rfl, ?_, by simp only []; omega, by simp only []; omega⟩
      cases o.histIdx m <;> exact ht
    · simp only [hcut, if_false]
      rw [← k5 (by omega)]
      exact ih' (index + 1) a' bs' bm' st' k1 k2 (Or.inr (by omega)) ht

theorem sortMoves_perm (key : M → Nat) (ms : List M) : (sortMoves key ms).Perm ms := by
  unfold sortMoves
  have h := (List.mergeSort_perm (ms.map fun m => (key m, m)) (fun a b => a.1 ≤ b.1)).map (·.2)
  simpa [List.map_map, Function.comp_def] using h

variable [DecidableEq M]

/-- `node` with the table switched off and a flag that stays up: it answers, the table stays off,
and the answer is sound for `refNode`, for every window in the engine's range -/
theorem node_btw (o : Ops G M) (remaining : Nat) (g : G) (α β rd : Int) (st : St M)
    (hα : scoreMin ≤ α) (hβ : β ≤ -scoreMin) (ht : st.ttOff = true)
    (hT : Tame o remaining g rd) :
    ∃ r st', node o (fun _ => true) remaining g α β rd st = some (r, st') ∧ st'.ttOff = true ∧
      Btw α β (refNode o remaining g rd) r := by
  induction remaining using Nat.strongRecOn generalizing g α β rd st with
  | _ n ih =>
    match n with
    | 0 =>
      refine ⟨qsearch o qFuel g α β rd, { st with polls := st.polls + 1, tt := {} }, ?_, ht,
        qsearch_btw o qFuel g α β rd hT⟩
      unfold node
      simp [ht, ttGet]
    | 1 =>
      refine ⟨depth1 o g α β rd, { st with polls := st.polls + 1, tt := {} }, ?_, ht,
        depth1_btw o g α β rd hT⟩
      unfold node
      simp [ht, ttGet]
    | r + 2 =>
      unfold node
      simp only [Bool.not_true, Bool.false_eq_true, if_false, ht, if_true, ttGet,
        Std.HashMap.getElem?_empty, Option.bind_none]
      by_cases he : (o.checked g).isEmpty = true
      · simp only [he, if_true, refNode, deadValue]
        exact ⟨_, _, rfl, rfl, Btw.self _ _ _⟩
      · simp only [he, Bool.false_eq_true, if_false]
        generalize hst0 : St.mk (M := M) ∅ st.killers st.history (st.polls + 1) true = st0
        have ht0 : st0.ttOff = true := by rw [← hst0]
        generalize hsm : sortMoves (moveKey o none (st.killers.getD rd.toNat none) st.history)
          (o.checked g) = sm
        have hp : sm.Perm (o.checked g) := by rw [← hsm]; exact sortMoves_perm _ _
        have hchild : ∀ m ∈ sm,
            ChildSound (node o (fun _ => true) (r + 1)) (o.push g m) (rd + 1)
              (refNode o (r + 1) (o.push g m) (rd + 1)) ∧
            refNode o (r + 1) (o.push g m) (rd + 1) ≤ -scoreMin := by
          intro m hm
          have hm' := hp.mem_iff.1 hm
          have hTm := hT m hm'
          exact ⟨fun a b s ha hb hs => ih (r + 1) (by omega) _ a b _ s ha hb hs hTm.1, hTm.2⟩
        obtain ⟨out, hout, hto, hlo, hhi⟩ :=
          nodeLoop_spec o (node o (fun _ => true) (r + 1))
            (fun m => refNode o (r + 1) (o.push g m) (rd + 1)) g (r + 2) rd β sm hchild hβ
            0 α scoreMin none st0 (Int.le_refl _) hα (Or.inl (Nat.zero_le _)) ht0
        rw [hout]
        simp only []
        refine ⟨_, _, rfl, ?_, ?_⟩
        · generalize (if out.bestScore ≤ α then Flag.upper
            else if out.bestScore ≥ β then Flag.lower else Flag.exact) = fl
          split
          · split
            · exact hto
            · exact hto
          · exact hto
        · rw [refNode_perm o r g rd hp.symm]
          have hne : sm.map (fun m => -(refNode o (r + 1) (o.push g m) (rd + 1))) ≠ [] := by
            intro h0
            rw [List.map_eq_nil_iff] at h0
            rw [h0] at hp
            rw [List.nil_perm.1 hp] at he
            exact he rfl
          have hse : sm.isEmpty = false := by
            cases sm with
            | nil => exact absurd rfl hne
            | cons _ _ => rfl
          rw [foldl_max_eq_max_maxL hne α 0] at hlo hhi
          simp only [nodeValue, hse, Bool.false_eq_true, if_false]
          unfold Btw; omega

end Chess.Search
