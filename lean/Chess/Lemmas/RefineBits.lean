import Chess.Model.Basic

/-!
# C02, part 0 — the state byte: bit lemmas, proved once for all 256 bytes (kernel evaluation)
-/
namespace Chess

/-! ## The state byte: bit lemmas, proved once for all 256 bytes -/

namespace GState

theorem forall_uint8 {P : UInt8 → Prop} (h : ∀ n : Fin 256, P (UInt8.ofNat n.val)) : ∀ s, P s := by
  intro s
  have := h ⟨s.toNat, UInt8.toNat_lt s⟩
  simpa using this

theorem clearWk_spec : ∀ s : GState, (clearWk s).wk = false ∧ (clearWk s).wq = s.wq
    ∧ (clearWk s).bk = s.bk ∧ (clearWk s).bq = s.bq ∧ (clearWk s).enPassant = s.enPassant :=
  forall_uint8 (by decide +kernel)

theorem clearWq_spec : ∀ s : GState, (clearWq s).wk = s.wk ∧ (clearWq s).wq = false
    ∧ (clearWq s).bk = s.bk ∧ (clearWq s).bq = s.bq ∧ (clearWq s).enPassant = s.enPassant :=
  forall_uint8 (by decide +kernel)

theorem clearBk_spec : ∀ s : GState, (clearBk s).wk = s.wk ∧ (clearBk s).wq = s.wq
    ∧ (clearBk s).bk = false ∧ (clearBk s).bq = s.bq ∧ (clearBk s).enPassant = s.enPassant :=
  forall_uint8 (by decide +kernel)

theorem clearBq_spec : ∀ s : GState, (clearBq s).wk = s.wk ∧ (clearBq s).wq = s.wq
    ∧ (clearBq s).bk = s.bk ∧ (clearBq s).bq = false ∧ (clearBq s).enPassant = s.enPassant :=
  forall_uint8 (by decide +kernel)

theorem setEnPassant_spec' : ∀ s : GState, ∀ n : Fin 9,
    (setEnPassant s (n.val : Int)).wk = s.wk ∧ (setEnPassant s (n.val : Int)).wq = s.wq
    ∧ (setEnPassant s (n.val : Int)).bk = s.bk ∧ (setEnPassant s (n.val : Int)).bq = s.bq
    ∧ (setEnPassant s (n.val : Int)).enPassant = n.val :=
  forall_uint8 (by decide +kernel)

/-- writing a file `0..=8` into the low nibble keeps the four rights and reads back -/
theorem setEnPassant_spec (s : GState) (v : Int) (h0 : 0 ≤ v) (h8 : v ≤ 8) :
    (setEnPassant s v).wk = s.wk ∧ (setEnPassant s v).wq = s.wq
    ∧ (setEnPassant s v).bk = s.bk ∧ (setEnPassant s v).bq = s.bq
    ∧ (setEnPassant s v).enPassant = v := by
  have := setEnPassant_spec' s ⟨v.toNat, by omega⟩
  have e : ((v.toNat : Nat) : Int) = v := by omega
  simp only [e] at this
  exact this

@[simp] theorem wk_clearWk (s : GState) : (clearWk s).wk = false := (clearWk_spec s).1
@[simp] theorem wq_clearWk (s : GState) : (clearWk s).wq = s.wq := (clearWk_spec s).2.1
@[simp] theorem bk_clearWk (s : GState) : (clearWk s).bk = s.bk := (clearWk_spec s).2.2.1
@[simp] theorem bq_clearWk (s : GState) : (clearWk s).bq = s.bq := (clearWk_spec s).2.2.2.1
@[simp] theorem ep_clearWk (s : GState) : (clearWk s).enPassant = s.enPassant := (clearWk_spec s).2.2.2.2
@[simp] theorem wk_clearWq (s : GState) : (clearWq s).wk = s.wk := (clearWq_spec s).1
@[simp] theorem wq_clearWq (s : GState) : (clearWq s).wq = false := (clearWq_spec s).2.1
@[simp] theorem bk_clearWq (s : GState) : (clearWq s).bk = s.bk := (clearWq_spec s).2.2.1
@[simp] theorem bq_clearWq (s : GState) : (clearWq s).bq = s.bq := (clearWq_spec s).2.2.2.1
@[simp] theorem ep_clearWq (s : GState) : (clearWq s).enPassant = s.enPassant := (clearWq_spec s).2.2.2.2
@[simp] theorem wk_clearBk (s : GState) : (clearBk s).wk = s.wk := (clearBk_spec s).1
@[simp] theorem wq_clearBk (s : GState) : (clearBk s).wq = s.wq := (clearBk_spec s).2.1
@[simp] theorem bk_clearBk (s : GState) : (clearBk s).bk = false := (clearBk_spec s).2.2.1
@[simp] theorem bq_clearBk (s : GState) : (clearBk s).bq = s.bq := (clearBk_spec s).2.2.2.1
@[simp] theorem ep_clearBk (s : GState) : (clearBk s).enPassant = s.enPassant := (clearBk_spec s).2.2.2.2
@[simp] theorem wk_clearBq (s : GState) : (clearBq s).wk = s.wk := (clearBq_spec s).1
@[simp] theorem wq_clearBq (s : GState) : (clearBq s).wq = s.wq := (clearBq_spec s).2.1
@[simp] theorem bk_clearBq (s : GState) : (clearBq s).bk = s.bk := (clearBq_spec s).2.2.1
@[simp] theorem bq_clearBq (s : GState) : (clearBq s).bq = false := (clearBq_spec s).2.2.2.1
@[simp] theorem ep_clearBq (s : GState) : (clearBq s).enPassant = s.enPassant := (clearBq_spec s).2.2.2.2

end GState
end Chess
