import Chess.Lemmas.ScoreRangePop

/-!
# Score range: the hypotheses are satisfiable, and the material hypothesis is needed
-/
namespace Chess.Range

open Chess Chess.Game

/-! ## 1. Non-vacuity: the start position -/

def isOk : FenResult → Bool
  | .ok _ => true
  | _ => false

def okScore : FenResult → Option Int
  | .ok g => some g.score
  | _ => none

set_option maxRecDepth 100000 in
theorem startFen_ok : isOk (Game.ofFen Uci.startFen) = true := by decide +kernel

set_option maxRecDepth 100000 in
theorem startFen_score : okScore (Game.ofFen Uci.startFen) = some 0 := by decide +kernel

/-- the standard start position is read, is reachable, satisfies both hypotheses of the numeric
bound (`WF`, `MaterialInv`), and the conclusions hold of it -/
example : ∃ g, Game.ofFen Uci.startFen = .ok g ∧ Reach g ∧ g.WF ∧ MaterialInv g ∧ Mid g
    ∧ g.score = 0 ∧ (-32768 ≤ g.score ∧ g.score ≤ 32767) := by
  cases h : Game.ofFen Uci.startFen with
  | ok g =>
    have hr : Reach g := Reach.imported _ g h
    have hs := startFen_score
    rw [h] at hs
    simp only [okScore, Option.some.injEq] at hs
    exact ⟨g, rfl, hr, reach_wf hr, reach_material hr, reach_mid hr, hs, score_fits_i16 hr⟩
  | refused w => have := startFen_ok; rw [h] at this; cases this
  | fault w => have := startFen_ok; rw [h] at this; cases this

/-- the twenty first moves and the values `self.score` passes through in `push_history` -/
def startTraces : Option (List (List Int)) :=
  match Game.ofFen Uci.startFen with
  | .ok g => some ((g.getMoves true).1.map (pushHistoryTrace g))
  | _ => none

set_option maxRecDepth 100000 in
/-- the traces are not empty lists: four values per quiet move (e.g. `b1a3`: the knight leaves,
`0 − 280`; nothing is put, `+ 0`; the target is empty, `− 0`; the knight lands, `+ 330`) -/
theorem startTraces_eq : startTraces = some
    [[-280, -280, -280, 50], [-280, -280, -280, 10], [-280, -280, -280, 10], [-280, -280, -280, 50],
     [-105, -105, -105, -5], [-105, -105, -105, 0], [-110, -110, -110, -10], [-110, -110, -110, -15],
     [-110, -110, -110, -10], [-110, -110, -110, -20], [-80, -80, -80, 40], [-80, -80, -80, 20],
     [-80, -80, -80, 40], [-80, -80, -80, 20], [-110, -110, -110, -10], [-110, -110, -110, -20],
     [-110, -110, -110, -10], [-110, -110, -110, -15], [-105, -105, -105, -5], [-105, -105, -105, 0]] := by
  decide +kernel

/-- the values during the take-back of the first four of them (the knight moves): the knight is
put back on its start square while it still stands on the arrival square (`50 + 280 = 330`) -/
def startPopTraces : Option (List (List Int)) :=
  match Game.ofFen Uci.startFen with
  | .ok g => some (((g.getMoves true).1.take 4).map (fun m => popTrace (g.push m) m))
  | _ => none

set_option maxRecDepth 100000 in
theorem startPopTraces_eq : startPopTraces = some
    [[50, 330, 0, 0], [10, 290, 0, 0], [10, 290, 0, 0], [50, 330, 0, 0]] := by
  decide +kernel

/-! ## 2. The material hypothesis is needed -/

/-- forty white queens (and two kings in the corners) -/
def queens40 : List Char := "QQQQQQQQ/QQQQQQQQ/QQQQQQQQ/QQQQQQQQ/QQQQQQQQ/8/8/k6K".toList

/-- the game the reader would build from its scan if it did not check the material -/
def scanGame (sc : Scan) : Game :=
  { score := sc.score, player := .white, moveStack := [], endgame := false, hash := sc.hash,
    board := sc.board, pastScores := sc.pastScores, pastHashes := sc.pastHashes,
    wking := ⟨0, 7⟩, bking := ⟨0, 0⟩, state := [GState.default] }

def scanOf (s : List Char) : Option Game :=
  match Scan.init.run s with
  | .ok sc => some (scanGame sc)
  | .error _ => none

instance (o : Option Piece) (s : Int) : Decidable (Bounded o s) := by
  unfold Bounded; cases o <;> infer_instance

/-- the first two fields of `Mid` (everything but the material), and the score above `i16::MAX` -/
def overflowWitness (g : Game) : Bool :=
  decide (g.score = sumAll g.pastScores)
    && (List.range 64).all (fun i => if h : i < 64 then decide (Bounded g.board[i] g.pastScores[i]) else true)
    && decide (32767 < g.score) && decide (g.score = 35965)
    && !decide (MaterialOk g.board)

set_option maxRecDepth 100000 in
theorem queens40_witness : (scanOf queens40).map overflowWitness = some true := by decide +kernel

/-- **without the material hypothesis the bound fails**: there is a game whose score is the sum of
its cache, whose every cached contribution is the table entry of what stands on the square, with
one king a side — and whose score `35965` does not fit `i16`.  (It is the scan of
`QQQQQQQQ/QQQQQQQQ/QQQQQQQQ/QQQQQQQQ/QQQQQQQQ/8/8/k6K`; only `MaterialInv` fails.) -/
theorem material_hypothesis_needed :
    ∃ g : Game, g.score = sumAll g.pastScores ∧ CacheBounded g.board g.pastScores
      ∧ ¬ MaterialInv g ∧ ¬ (g.score ≤ 32767) := by
  have h := queens40_witness
  cases hg : scanOf queens40 with
  | none => rw [hg] at h; cases h
  | some g =>
    rw [hg] at h
    simp only [Option.map_some, Option.some.injEq, overflowWitness, Bool.and_eq_true,
      decide_eq_true_eq, Bool.not_eq_true', decide_eq_false_iff_not, List.all_eq_true,
      List.mem_range] at h
    obtain ⟨⟨⟨⟨h1, h2⟩, h3⟩, -⟩, h5⟩ := h
    refine ⟨g, h1, ?_, h5, by omega⟩
    intro i hi
    have := h2 i hi
    rw [dif_pos hi] at this
    exact of_decide_eq_true this

def refusedWith : FenResult → String → Bool
  | .refused w, s => w == s
  | _, _ => false

set_option maxRecDepth 100000 in
/-- and the reader does refuse that text, for this reason -/
theorem queens40_refused :
    refusedWith (Game.ofFen (queens40 ++ " w - -".toList)) "Impossible material" = true := by
  decide +kernel

end Chess.Range

#print axioms Chess.Range.material_hypothesis_needed
#print axioms Chess.Range.startTraces_eq
#print axioms Chess.Range.queens40_refused
