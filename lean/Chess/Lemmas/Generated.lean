import Chess.Lemmas.PushPop

/-!
# Generated moves fit the game they were generated in; the move query changes nothing (C03)
-/
namespace Chess

/-! ### squares -/

theorem Pos.ofIdx_valid {i : Nat} (h : i < 64) : (Pos.ofIdx i).Valid := by
  unfold Pos.ofIdx Pos.Valid
  simp only
  omega

theorem Pos.add_spec {p q : Pos} {d : Int × Int} (h : p.add d = some q) :
    q.Valid ∧ q.row = p.row + d.1 ∧ q.col = p.col + d.2 := by
  unfold Pos.add at h
  obtain ⟨hv, rfl⟩ := Pos.new?_valid h
  exact ⟨hv, rfl, rfl⟩

theorem Pos.add_eq_some_of_valid {p : Pos} {d : Int × Int} (h : (p.addUnsafe d).Valid) :
    p.add d = some (p.addUnsafe d) := by
  unfold Pos.Valid Pos.addUnsafe at h
  simp only at h
  unfold Pos.add Pos.new? Pos.inBoard Pos.addUnsafe
  simp [h.1, h.2.1, h.2.2.1, h.2.2.2]

namespace Game

theorem allSquares_valid {p : Pos} (h : p ∈ allSquares) : p.Valid := by
  unfold allSquares at h
  simp only [List.mem_map, List.mem_range] at h
  obtain ⟨i, hi, rfl⟩ := h
  exact Pos.ofIdx_valid hi

theorem mem_allSquares {p : Pos} (h : p.Valid) : p ∈ allSquares := by
  unfold allSquares
  simp only [List.mem_map, List.mem_range]
  exact ⟨p.idx, Pos.idx_lt h, Pos.ofIdx_idx h⟩

/-! ### a `Normal` move of a piece that is not a king -/

/-- what every generator establishes for a move: it fits, and the mover is the right one -/
def Good (g : Game) (m : Move) : Prop := g.Fits m ∧ g.MoverOk m

theorem normal_good {g : Game} {pc : Piece} {p q : Pos} (hp : p.Valid) (hq : q.Valid) (hne : q ≠ p)
    (hg : g.get p = some pc) (ho : pc.owner = g.player) (hk : pc.pieceType ≠ .king) :
    g.Good (.normal pc p q (g.get q)) := by
  refine ⟨⟨hp, hq, fun e => hne e.symm, hg, rfl, fun e => absurd e hk⟩, ho, fun e => absurd e hk⟩

/-! ### sliding pieces -/

/-- `c` lies weakly in direction `d` from `s` -/
def Along (d : Int × Int) (s c : Pos) : Prop :=
  (0 < d.1 → s.row ≤ c.row) ∧ (d.1 < 0 → c.row ≤ s.row)
    ∧ (0 < d.2 → s.col ≤ c.col) ∧ (d.2 < 0 → c.col ≤ s.col)

theorem along_self (d : Int × Int) (s : Pos) : Along d s s := by
  unfold Along; omega

theorem along_step {d : Int × Int} {s c q : Pos} (hd : d ≠ (0, 0)) (h : Along d s c)
    (hr : q.row = c.row + d.1) (hc : q.col = c.col + d.2) : Along d s q ∧ q ≠ s := by
  unfold Along at *
  obtain ⟨d1, d2⟩ := d
  simp only [ne_eq, Prod.mk.injEq] at hd
  simp only at h hr hc ⊢
  refine ⟨by omega, ?_⟩
  intro e
  subst e
  omega

theorem rayMoves_fits {g : Game} {pc : Piece} {start : Pos} {d : Int × Int}
    (hp : start.Valid) (hg : g.get start = some pc) (ho : pc.owner = g.player)
    (hk : pc.pieceType ≠ .king) (hd : d ≠ (0, 0)) :
    ∀ (fuel : Nat) (cur : Pos), Along d start cur →
      ∀ m ∈ rayMoves g pc start cur d fuel, g.Good m := by
  intro fuel
  induction fuel with
  | zero => intro cur _ m hm; simp [rayMoves] at hm
  | succ n ih =>
    intro cur ha m hm
    unfold rayMoves at hm
    split at hm
    · simp at hm
    · rename_i q hq
      obtain ⟨hv, hr, hc⟩ := Pos.add_spec hq
      obtain ⟨ha', hne⟩ := along_step hd ha hr hc
      split at hm
      · rename_i other ho'
        split at hm
        · simp only [List.mem_singleton] at hm
          subst hm
          rw [← ho']
          exact normal_good hp hv hne hg ho hk
        · simp at hm
      · rename_i hnone
        simp only [List.mem_cons] at hm
        rcases hm with hm | hm
        · subst hm
          rw [← hnone]
          exact normal_good hp hv hne hg ho hk
        · exact ih q ha' m hm

theorem slideMoves_fits {g : Game} {pc : Piece} {p : Pos} {rays : List (Int × Int)}
    (hp : p.Valid) (hg : g.get p = some pc) (ho : pc.owner = g.player)
    (hk : pc.pieceType ≠ .king) (hr : ∀ d ∈ rays, d ≠ (0, 0)) :
    ∀ m ∈ slideMoves g pc p rays, g.Good m := by
  intro m hm
  unfold slideMoves at hm
  simp only [List.mem_flatMap] at hm
  obtain ⟨d, hd, hm⟩ := hm
  exact rayMoves_fits hp hg ho hk (hr d hd) 7 p (along_self d p) m hm

theorem rookRays_ne : ∀ d ∈ Gen.rookRays, d ≠ (0, 0) := by decide
theorem bishopRays_ne : ∀ d ∈ Gen.bishopRays, d ≠ (0, 0) := by decide
theorem queenRays_ne : ∀ d ∈ Gen.queenRays, d ≠ (0, 0) := by decide
theorem knightDeltas_ne : ∀ d ∈ Gen.knightDeltas, d ≠ (0, 0) := by decide
theorem kingDeltas_ne : ∀ d ∈ Gen.kingDeltas, d ≠ (0, 0) := by decide

theorem add_ne_self {p q : Pos} {d : Int × Int} (hd : d ≠ (0, 0)) (h : p.add d = some q) : q ≠ p := by
  obtain ⟨_, hr, hc⟩ := Pos.add_spec h
  exact (along_step hd (along_self d p) hr hc).2

/-! ### knights -/

theorem mem_ite_nil {α : Type} {b : Bool} {x m : α} (h : m ∈ (if b = true then [] else [x])) :
    b = false ∧ m = x := by
  cases b <;> simp at h ⊢
  exact h

theorem mem_ite_nil' {α : Type} {b : Bool} {l : List α} {m : α} (h : m ∈ (if b = true then [] else l)) :
    b = false ∧ m ∈ l := by
  cases b <;> simp at h ⊢
  exact h

theorem mem_ite_single {α : Type} {b : Bool} {x m : α} (h : m ∈ (if b = true then [x] else [])) :
    b = true ∧ m = x := by
  cases b <;> simp at h ⊢
  exact h

theorem knightMoves_fits {g : Game} {pc : Piece} {p : Pos}
    (hp : p.Valid) (hg : g.get p = some pc) (ho : pc.owner = g.player)
    (hk : pc.pieceType ≠ .king) :
    ∀ m ∈ knightMoves g pc p, g.Good m := by
  intro m hm
  unfold knightMoves at hm
  simp only [List.mem_flatMap] at hm
  obtain ⟨d, hd, hm⟩ := hm
  split at hm
  · simp at hm
  · rename_i q hq
    obtain ⟨_, rfl⟩ := mem_ite_nil hm
    exact normal_good hp (Pos.add_valid hq) (add_ne_self (knightDeltas_ne d hd) hq) hg ho hk

/-! ### kings -/

theorem owner_other {a b : Player} (h : a ≠ b) : a = b.other := by
  cases a <;> cases b <;> first | rfl | exact absurd rfl h

theorem piece_eq {pc : Piece} {t : PieceType} {o : Player} (ht : pc.pieceType = t) (ho : pc.owner = o) :
    pc = ⟨t, o⟩ := by
  cases pc; simp only at ht ho; subst ht; subst ho; rfl

theorem kingSteps_good {g : Game} {pc : Piece} {p : Pos} (hki : g.KingInv)
    (hp : p.Valid) (hg : g.get p = some pc) (ho : pc.owner = g.player) (hk : pc.pieceType = .king)
    {d : Int × Int} (hd : d ∈ Gen.kingDeltas) {q : Pos} (hq : p.add d = some q)
    (hown : (match g.get q with
      | some o => decide (o.owner = g.player)
      | none => false) = false)
    (hadj : (decide ((q.row - (g.kingPos g.player.other).row).natAbs ≤ 1) &&
       decide ((q.col - (g.kingPos g.player.other).col).natAbs ≤ 1)) = false) :
    g.Good (.normal pc p q (g.get q)) := by
  have hv := Pos.add_valid hq
  have hne := add_ne_self (kingDeltas_ne d hd) hq
  have hpc := piece_eq hk ho
  refine ⟨⟨hp, hv, fun e => hne e.symm, hg, rfl, fun _ => ?_⟩, ho, fun _ c hc hck => ?_⟩
  · exact hki.unique p g.player hp (hpc ▸ hg)
  · rw [hc] at hown
    simp only [decide_eq_false_iff_not] at hown
    have hc' := piece_eq hck (owner_other hown)
    have := hki.unique q g.player.other hv (hc' ▸ hc)
    rw [this] at hadj
    simp at hadj


theorem castlingShort_good {g : Game} (hr : g.RightsInv) (hke : g.kingExists g.player = true)
    (hks : (match g.player with
        | Player.white => (g.top.wk, g.top.wq)
        | Player.black => (g.top.bk, g.top.bq)).fst = true)
    (h5 : (g.get ⟨homeRow g.player, 5⟩).isNone = true)
    (h6 : (g.get ⟨homeRow g.player, 6⟩).isNone = true) :
    g.Good (.castlingShort g.player) := by
  rw [Option.isNone_iff_eq_none] at h5 h6
  refine ⟨?_, trivial⟩
  cases hpl : g.player <;> rw [hpl] at hks hke h5 h6 <;> simp only at hks
  · obtain ⟨a, b, c⟩ := hr.wk hks
    exact ⟨hpl.symm, b, c hke, a, h5, h6⟩
  · obtain ⟨a, b, c⟩ := hr.bk hks
    exact ⟨hpl.symm, b, c hke, a, h5, h6⟩

theorem castlingLong_good {g : Game} (hr : g.RightsInv) (hke : g.kingExists g.player = true)
    (hqs : (match g.player with
        | Player.white => (g.top.wk, g.top.wq)
        | Player.black => (g.top.bk, g.top.bq)).snd = true)
    (h2 : (g.get ⟨homeRow g.player, 2⟩).isNone = true)
    (h3 : (g.get ⟨homeRow g.player, 3⟩).isNone = true) :
    g.Good (.castlingLong g.player) := by
  rw [Option.isNone_iff_eq_none] at h2 h3
  refine ⟨?_, trivial⟩
  cases hpl : g.player <;> rw [hpl] at hqs hke h2 h3 <;> simp only at hqs
  · obtain ⟨a, b, c⟩ := hr.wq hqs
    exact ⟨hpl.symm, b, c hke, a, h3, h2⟩
  · obtain ⟨a, b, c⟩ := hr.bq hqs
    exact ⟨hpl.symm, b, c hke, a, h3, h2⟩

theorem kingMoves_fits {g : Game} {pc : Piece} {p : Pos} (hw : g.WF) (hke : g.kingExists g.player = true)
    (hp : p.Valid) (hg : g.get p = some pc) (ho : pc.owner = g.player) (hk : pc.pieceType = .king) :
    ∀ m ∈ kingMoves g pc p, g.Good m := by
  intro m hm
  unfold kingMoves at hm
  simp only [List.mem_append] at hm
  rcases hm with (hm | hm) | hm
  · simp only [List.mem_flatMap] at hm
    obtain ⟨d, hd, hm⟩ := hm
    split at hm
    · simp at hm
    · rename_i q hq
      obtain ⟨hown, hm⟩ := mem_ite_nil' hm
      obtain ⟨hadj, rfl⟩ := mem_ite_nil hm
      exact kingSteps_good hw.kings hp hg ho hk hd hq hown hadj
  · obtain ⟨hc, rfl⟩ := mem_ite_single hm
    · simp only [Bool.and_eq_true] at hc
      exact castlingShort_good hw.rights hke hc.1.1.1.1.1 hc.1.1.1.1.2 hc.1.1.1.2
  · obtain ⟨hc, rfl⟩ := mem_ite_single hm
    · simp only [Bool.and_eq_true] at hc
      exact castlingLong_good hw.rights hke hc.1.1.1.1.1.1 hc.1.1.1.1.2 hc.1.1.1.2


/-! ### pawns -/

theorem promoPieces_eq : promoPieces = [.queen, .rook, .bishop, .knight] := by decide

theorem promo_good {g : Game} {p q : Pos} {t : PieceType} (hp : p.Valid) (hq : q.Valid) (hne : q ≠ p)
    (hg : g.get p = some ⟨.pawn, g.player⟩) (ht : t ∈ promoPieces) :
    g.Good (.promotion g.player t p q (g.get q)) := by
  refine ⟨⟨hp, hq, fun e => hne e.symm, hg, rfl⟩, rfl, ?_⟩
  rw [promoPieces_eq] at ht
  simpa using ht

/-- a single pawn step or capture onto `q`, promoting on the last row -/
theorem pawnStep_good {g : Game} {pc : Piece} {p q : Pos} {c : Prop} [Decidable c] {m : Move}
    (hp : p.Valid) (hq : q.Valid) (hne : q ≠ p)
    (hg : g.get p = some pc) (ho : pc.owner = g.player) (hk : pc.pieceType = .pawn)
    (hm : m ∈ (if c then promoPieces.map (fun t => Move.promotion g.player t p q (g.get q))
      else [Move.normal pc p q (g.get q)])) : g.Good m := by
  split at hm
  · simp only [List.mem_map] at hm
    obtain ⟨t, ht, rfl⟩ := hm
    exact promo_good hp hq hne (piece_eq hk ho ▸ hg) ht
  · simp only [List.mem_singleton] at hm
    subst hm
    exact normal_good hp hq hne hg ho (by rw [hk]; decide)

theorem pawnFwd_good {g : Game} {pc : Piece} {p : Pos} {d : Int × Int} {lastRow : Int} {m : Move}
    (hp : p.Valid) (hg : g.get p = some pc) (ho : pc.owner = g.player) (hk : pc.pieceType = .pawn)
    (hd : d ≠ (0, 0))
    (hm : m ∈ (match p.add d with
      | none => []
      | some q =>
        if (g.get q).isNone = true then
          if lastRow = q.row then promoPieces.map (fun t => Move.promotion g.player t p q none)
          else [Move.normal pc p q none]
        else [])) : g.Good m := by
  split at hm
  · simp at hm
  · rename_i q hq
    split at hm
    · rename_i hn
      rw [Option.isNone_iff_eq_none] at hn
      rw [← hn] at hm
      exact pawnStep_good hp (Pos.add_valid hq) (add_ne_self hd hq) hg ho hk hm
    · simp at hm

theorem pawnCaps_good {g : Game} {pc : Piece} {p : Pos} {sds : List (Int × Int)} {lastRow : Int} {m : Move}
    {o : Player}
    (hp : p.Valid) (hg : g.get p = some pc) (ho : pc.owner = g.player) (hk : pc.pieceType = .pawn)
    (hd : ∀ d ∈ sds, d ≠ (0, 0))
    (hm : m ∈ sds.flatMap (fun d =>
      match p.add d with
      | none => []
      | some q =>
        match g.get q with
        | some other =>
          if other.owner ≠ o then
            if lastRow = q.row then promoPieces.map (fun t => Move.promotion g.player t p q (some other))
            else [Move.normal pc p q (some other)]
          else []
        | none => [])) : g.Good m := by
  simp only [List.mem_flatMap] at hm
  obtain ⟨d, hdm, hm⟩ := hm
  split at hm
  · simp at hm
  · rename_i q hq
    split at hm
    · rename_i other hoth
      split at hm
      · rw [← hoth] at hm
        exact pawnStep_good hp (Pos.add_valid hq) (add_ne_self (hd d hdm) hq) hg ho hk hm
      · simp at hm
    · simp at hm


theorem pawnDbl_good {g : Game} {pc : Piece} {p : Pos} {fd : Int × Int}
    (hp : p.Valid) (hg : g.get p = some pc) (ho : pc.owner = g.player) (hk : pc.pieceType = .pawn)
    (hv : (p.addUnsafe fd).Valid) (hne : p.addUnsafe fd ≠ p)
    (hn : (g.get (p.addUnsafe fd)).isNone = true) :
    g.Good (.normal pc p (p.addUnsafe fd) none) := by
  rw [Option.isNone_iff_eq_none] at hn
  rw [← hn]
  exact normal_good hp hv hne hg ho (by rw [hk]; decide)

theorem pawnEp_good {g : Game} {p : Pos} (hw : g.WF) (hp : p.Valid)
    (hg : g.get p = some ⟨.pawn, g.player⟩)
    (hrow : p.row = match g.player with
      | .white => 4
      | .black => 3)
    (h8 : g.top.enPassant < 8) (habs : (g.top.enPassant - p.col).natAbs = 1) :
    g.Good (.enPassant g.player p.col g.top.enPassant) := by
  have hep := hw.epInv h8
  have h0 := hw.ep.1
  obtain ⟨r, c⟩ := p
  unfold Pos.Valid at hp
  simp only at hp hrow habs ⊢
  refine ⟨?_, rfl, rfl⟩
  cases hpl : g.player <;> rw [hpl] at hep hrow hg <;> simp only at hep hrow <;> subst hrow
  · exact ⟨hp.2.2.1, hp.2.2.2, h0, h8, by omega, hg, hep.2, hep.1⟩
  · exact ⟨hp.2.2.1, hp.2.2.2, h0, h8, by omega, hg, hep.2, hep.1⟩

theorem pawnMoves_fits {g : Game} {pc : Piece} {p : Pos} (hw : g.WF)
    (hp : p.Valid) (hg : g.get p = some pc) (ho : pc.owner = g.player) (hk : pc.pieceType = .pawn) :
    ∀ m ∈ pawnMoves g pc p, g.Good m := by
  intro m hm
  unfold pawnMoves at hm
  have hpc := piece_eq hk ho
  cases hpl : g.player <;> rw [hpl] at ho hpc <;> rw [ho] at hm <;>
    simp only [List.mem_append] at hm
  · rcases hm with ((hm | hm) | hm) | hm
    · obtain ⟨hc, rfl⟩ := mem_ite_single hm
      simp only [Bool.and_eq_true, decide_eq_true_eq] at hc
      have hr := hc.1.1
      unfold Pos.Valid at hp
      refine pawnDbl_good hp hg (ho.trans hpl.symm) hk ?_ ?_ hc.2
      · simp only [Pos.Valid, Pos.addUnsafe, Gen.pawnFirstDeltaW, Gen.pawnFirstRowW] at hr ⊢; omega
      · intro e
        have := congrArg Pos.row e
        simp only [Pos.addUnsafe, Gen.pawnFirstDeltaW] at this; omega
    · exact pawnFwd_good hp hg (ho.trans hpl.symm) hk (by decide) hm
    · exact pawnCaps_good hp hg (ho.trans hpl.symm) hk (by decide) hm
    · obtain ⟨hc, rfl⟩ := mem_ite_single hm
      simp only [Bool.and_eq_true, decide_eq_true_eq] at hc
      exact pawnEp_good hw hp (by rw [hpl, ← hpc]; exact hg) (by rw [hpl]; exact hc.1.1) hc.1.2 hc.2
  · rcases hm with ((hm | hm) | hm) | hm
    · obtain ⟨hc, rfl⟩ := mem_ite_single hm
      simp only [Bool.and_eq_true, decide_eq_true_eq] at hc
      have hr := hc.1.1
      unfold Pos.Valid at hp
      refine pawnDbl_good hp hg (ho.trans hpl.symm) hk ?_ ?_ hc.2
      · simp only [Pos.Valid, Pos.addUnsafe, Gen.pawnFirstDeltaB, Gen.pawnFirstRowB] at hr ⊢; omega
      · intro e
        have := congrArg Pos.row e
        simp only [Pos.addUnsafe, Gen.pawnFirstDeltaB] at this; omega
    · exact pawnFwd_good hp hg (ho.trans hpl.symm) hk (by decide) hm
    · exact pawnCaps_good hp hg (ho.trans hpl.symm) hk (by decide) hm
    · obtain ⟨hc, rfl⟩ := mem_ite_single hm
      simp only [Bool.and_eq_true, decide_eq_true_eq] at hc
      exact pawnEp_good hw hp (by rw [hpl, ← hpc]; exact hg) (by rw [hpl]; exact hc.1.1) hc.1.2 hc.2


/-! ### all pieces, all squares -/

theorem pieceMoves_fits {g : Game} {pc : Piece} {p : Pos} (hw : g.WF) (hke : g.kingExists g.player = true)
    (hp : p.Valid) (hg : g.get p = some pc) (ho : pc.owner = g.player) :
    ∀ m ∈ pieceMoves g pc p, g.Good m := by
  intro m hm
  unfold pieceMoves at hm
  split at hm
  · rename_i hk; exact pawnMoves_fits hw hp hg ho hk m hm
  · rename_i hk; exact kingMoves_fits hw hke hp hg ho hk m hm
  · rename_i hk; exact knightMoves_fits hp hg ho (by rw [hk]; decide) m hm
  · rename_i hk; exact slideMoves_fits hp hg ho (by rw [hk]; decide) rookRays_ne m hm
  · rename_i hk; exact slideMoves_fits hp hg ho (by rw [hk]; decide) bishopRays_ne m hm
  · rename_i hk; exact slideMoves_fits hp hg ho (by rw [hk]; decide) queenRays_ne m hm

/-- membership in the generation loop -/
theorem mem_pseudoMoves {g : Game} {m : Move} :
    m ∈ g.pseudoMoves ↔ g.kingExists g.player = true ∧
      ∃ p pc, p.Valid ∧ g.get p = some pc ∧ pc.owner = g.player ∧ m ∈ pieceMoves g pc p := by
  unfold pseudoMoves
  cases hke : g.kingExists g.player
  · simp
  · simp only [Bool.not_true, Bool.false_eq_true, if_false, List.mem_flatMap, true_and]
    constructor
    · rintro ⟨p, hp, hm⟩
      split at hm
      · rename_i pc hg
        split at hm
        · rename_i ho; exact ⟨p, pc, allSquares_valid hp, hg, ho, hm⟩
        · simp at hm
      · simp at hm
    · rintro ⟨p, pc, hp, hg, ho, hm⟩
      refine ⟨p, mem_allSquares hp, ?_⟩
      rw [hg]
      simp only [ho, if_true]
      exact hm

/-- **every generated move fits the game it was generated in, and the mover is right** -/
theorem generated_fits {g : Game} (hw : g.WF) {m : Move} (hm : m ∈ g.pseudoMoves) :
    g.Fits m ∧ g.MoverOk m := by
  obtain ⟨hke, p, pc, hp, hg, ho, hm⟩ := mem_pseudoMoves.1 hm
  exact pieceMoves_fits hw hke hp hg ho m hm


/-! ### the legality filter is pure -/

/-- the test the filter applies to one candidate, in the game `g` -/
def keeps (pl : Player) (kp : Pos) (kt : Bool) (g : Game) (m : Move) : Bool :=
  (!kt && skipsCheck kp m) || !(g.push m).isTargeted ((g.push m).kingPos pl) pl

theorem filterMoves_nil (pl : Player) (kp : Pos) (kt : Bool) (g : Game) :
    filterMoves pl kp kt g [] = ([], g) := rfl

theorem filterMoves_cons (pl : Player) (kp : Pos) (kt : Bool) (g : Game) (m : Move) (ms : List Move) :
    filterMoves pl kp kt g (m :: ms) =
      if (!kt && skipsCheck kp m) = true then
        (m :: (filterMoves pl kp kt g ms).1, (filterMoves pl kp kt g ms).2)
      else
        (if (!(g.push m).isTargeted ((g.push m).kingPos pl) pl) = true
          then m :: (filterMoves pl kp kt ((g.push m).pop m) ms).1
          else (filterMoves pl kp kt ((g.push m).pop m) ms).1,
         (filterMoves pl kp kt ((g.push m).pop m) ms).2) := by
  rw [filterMoves]

/-- on candidates that fit, the filter is `List.filter` and hands the game back unchanged -/
theorem filterMoves_eq (pl : Player) (kp : Pos) (kt : Bool) (g : Game) (hc : g.CacheInv) :
    ∀ ms : List Move, (∀ m ∈ ms, g.Fits m) →
      filterMoves pl kp kt g ms = (ms.filter (keeps pl kp kt g), g) := by
  intro ms
  induction ms with
  | nil => intro _; rfl
  | cons m ms ih =>
    intro hf
    have hm : g.Fits m := hf m (List.mem_cons_self ..)
    have ih' := ih (fun x hx => hf x (List.mem_cons_of_mem _ hx))
    rw [filterMoves_cons, pop_push g m hm hc, ih']
    simp only [List.filter_cons, keeps]
    by_cases h1 : (!kt && skipsCheck kp m) = true
    · simp only [h1, if_true, Bool.true_or]
    · rw [Bool.not_eq_true] at h1
      simp only [h1, Bool.false_or, Bool.false_eq_true, if_false]

theorem filterMoves_pure (pl : Player) (kp : Pos) (kt : Bool) (g : Game) (hc : g.CacheInv)
    (ms : List Move) (hf : ∀ m ∈ ms, g.Fits m) : (filterMoves pl kp kt g ms).2 = g := by
  rw [filterMoves_eq pl kp kt g hc ms hf]

theorem filterMoves_sublist (pl : Player) (kp : Pos) (kt : Bool) (g : Game) (hc : g.CacheInv)
    (ms : List Move) (hf : ∀ m ∈ ms, g.Fits m) : (filterMoves pl kp kt g ms).1.Sublist ms := by
  rw [filterMoves_eq pl kp kt g hc ms hf]
  exact List.filter_sublist

/-! ### `get_moves` -/

theorem getMoves_false (g : Game) : g.getMoves false = (g.pseudoMoves, g) := by
  simp [getMoves]

theorem getMoves_true {g : Game} (hw : g.WF) :
    g.getMoves true =
      (g.pseudoMoves.filter
        (keeps g.player (g.kingPos g.player) (g.isTargeted (g.kingPos g.player) g.player) g), g) := by
  unfold getMoves
  simp only [if_true]
  exact filterMoves_eq _ _ _ g hw.cache _ (fun m hm => (generated_fits hw hm).1)

/-- **the move query changes nothing** -/
theorem getMoves_pure {g : Game} (hw : g.WF) (b : Bool) : (g.getMoves b).2 = g := by
  cases b
  · rw [getMoves_false]
  · rw [getMoves_true hw]

/-- **every checked move is an unchecked move** -/
theorem checked_sublist_unchecked {g : Game} (hw : g.WF) :
    (g.getMoves true).1.Sublist (g.getMoves false).1 := by
  rw [getMoves_true hw, getMoves_false]
  exact List.filter_sublist

theorem getMoves_subset {g : Game} (hw : g.WF) (b : Bool) {m : Move} (hm : m ∈ (g.getMoves b).1) :
    m ∈ g.pseudoMoves := by
  cases b
  · rwa [getMoves_false] at hm
  · rw [getMoves_true hw] at hm
    exact (List.mem_filter.1 hm).1

theorem getMoves_fits {g : Game} (hw : g.WF) (b : Bool) {m : Move} (hm : m ∈ (g.getMoves b).1) :
    g.Fits m ∧ g.MoverOk m :=
  generated_fits hw (getMoves_subset hw b hm)

/-- **which candidates survive the filter** -/
theorem mem_checked_iff {g : Game} (hw : g.WF) (m : Move) :
    m ∈ (g.getMoves true).1 ↔
      m ∈ g.pseudoMoves ∧
        ((!g.isTargeted (g.kingPos g.player) g.player && skipsCheck (g.kingPos g.player) m) = true
          ∨ ¬ (g.push m).isTargeted ((g.push m).kingPos g.player) g.player = true) := by
  rw [getMoves_true hw]
  simp only [List.mem_filter, keeps, Bool.or_eq_true, Bool.not_eq_true', Bool.not_eq_true]

end Game
end Chess

#print axioms Chess.Game.generated_fits
#print axioms Chess.Game.getMoves_pure
#print axioms Chess.Game.checked_sublist_unchecked
#print axioms Chess.Game.mem_checked_iff
