import Chess.Lemmas.CallShapeAux1

/-!
# The call shape, and: along it no flag of the strict search is raised

`CallsFrom r0 rd0 r rd`: the node call `(remaining, rd) = (r, rd)` is made, directly or
indirectly, by a node call `(r0, rd0)`: a node with `remaining = r + 2` calls its children with
`(r + 1, rd + 1)`, nodes with `remaining ≤ 1` call no node. `Calls depth = CallsFrom (depth - 1) 1`
are the calls of one `rootSearchF … depth`.

`nodeS_keeps` (induction on `remaining`): a strict node called on the shape returns with the flags
it was given: `offShape` always; `oobK` under the hypothesis `K` that the killer table has
`Gen.killerLen` entries and `rd0.toNat + r0 ≤ Gen.killerLen + 1`; `oobH` under the hypothesis `C`
that the history table has `Gen.historyLen` entries and that the history index of every checked
move of every admissible position is below it. The propositions `K`, `C` switch the two parts on
(`True`) or off (`False`: no hypothesis, no claim), so that one induction gives the call shape for
every depth, the killer theorem for every game, and the history theorem for the games satisfying
`HistOk`.
-/
namespace Chess.Search.Shape

open Chess.Search Chess.Search.F

variable {G M : Type}

/-! ## the call shape -/

/-- the node calls made below a node call `(r0, rd0)` -/
inductive CallsFrom (r0 : Nat) (rd0 : Int) : Nat → Int → Prop
  | root : CallsFrom r0 rd0 r0 rd0
  | child {r : Nat} {rd : Int} : CallsFrom r0 rd0 (r + 2) rd → CallsFrom r0 rd0 (r + 1) (rd + 1)

/-- the node calls of `rootSearchF … depth`: the root calls `(depth - 1, 1)` -/
abbrev Calls (depth : Nat) : Nat → Int → Prop := CallsFrom (depth - 1) 1

/-- **the call shape**: `remaining + rd` is constant, `rd` only grows, `remaining` only shrinks,
and below the first call `remaining ≥ 1` -/
theorem CallsFrom.shape {r0 : Nat} {rd0 : Int} {r : Nat} {rd : Int} (h : CallsFrom r0 rd0 r rd) :
    (r : Int) + rd = r0 + rd0 ∧ rd0 ≤ rd ∧ r ≤ r0 ∧ (rd = rd0 ∨ 1 ≤ r) := by
  induction h with
  | root => exact ⟨rfl, Int.le_refl _, Nat.le_refl _, Or.inl rfl⟩
  | child _ ih => omega

/-- the shape characterises the calls -/
theorem CallsFrom.of_shape {r0 : Nat} {rd0 : Int} (k : Nat) :
    ∀ (r : Nat) (rd : Int), (r : Int) + rd = r0 + rd0 → rd = rd0 + k → (k = 0 ∨ 1 ≤ r) →
      CallsFrom r0 rd0 r rd := by
  induction k with
  | zero =>
    intro r rd h1 h2 _
    have : r = r0 := by omega
    have : rd = rd0 := by omega
    subst_vars
    exact CallsFrom.root
  | succ k ih =>
    intro r rd h1 h2 h3
    match r, h3 with
    | r' + 1, _ =>
      have := ih (r' + 2) (rd - 1) (by omega) (by omega) (Or.inr (by omega))
      have h := CallsFrom.child this
      rwa [show rd - 1 + 1 = rd by omega] at h

theorem callsFrom_iff {r0 : Nat} {rd0 : Int} {r : Nat} {rd : Int} :
    CallsFrom r0 rd0 r rd ↔ (r : Int) + rd = r0 + rd0 ∧ rd0 ≤ rd ∧ (rd = rd0 ∨ 1 ≤ r) := by
  constructor
  · intro h
    obtain ⟨h1, h2, _, h4⟩ := h.shape
    exact ⟨h1, h2, h4⟩
  · rintro ⟨h1, h2, h3⟩
    refine CallsFrom.of_shape (rd - rd0).toNat r rd h1 (by omega) ?_
    rcases h3 with h3 | h3
    · exact Or.inl (by omega)
    · exact Or.inr h3

/-- **The call shape of one root search**: every node call has `remaining + rd = depth` (for
`depth ≥ 1`) and `1 ≤ rd`. -/
theorem Calls.shape {depth r : Nat} {rd : Int} (h : Calls depth r rd) (hd : 1 ≤ depth) :
    (r : Int) + rd = depth ∧ 1 ≤ rd ∧ r ≤ depth - 1 := by
  obtain ⟨h1, h2, h3, _⟩ := CallsFrom.shape h
  omega

theorem calls_iff {depth r : Nat} {rd : Int} :
    Calls depth r rd ↔ (r : Int) + rd = max depth 1 ∧ 1 ≤ rd ∧ (rd = 1 ∨ 1 ≤ r) := by
  unfold Calls
  rw [callsFrom_iff]
  omega

/-- the decidable form of `Calls depth`, an observer for the strict search -/
def shapeObs (depth : Nat) (r : Nat) (rd : Int) : Bool :=
  decide ((r : Int) + rd = max depth 1 ∧ 1 ≤ rd ∧ (rd = 1 ∨ 1 ≤ r))

theorem shapeObs_iff {depth r : Nat} {rd : Int} : shapeObs depth r rd = true ↔ Calls depth r rd := by
  unfold shapeObs
  rw [decide_eq_true_iff, calls_iff]

/-- a killer access of a node call on the shape is inside a table of `Gen.killerLen` entries: the
table is touched only by nodes with `remaining ≥ 2` -/
theorem CallsFrom.killer_lt {r0 : Nat} {rd0 : Int} {r : Nat} {rd : Int}
    (h : CallsFrom r0 rd0 (r + 2) rd) (hk : rd0.toNat + r0 ≤ Gen.killerLen + 1) :
    rd.toNat < Gen.killerLen := by
  obtain ⟨h1, h2, h3, _⟩ := h.shape
  omega

/-! ## the invariant -/

/-- the tables have the sizes the driver gives them (the killer table under `K`, the history table
under `C`) -/
def Good (K C : Prop) (s : SS M) : Prop :=
  (K → s.st.killers.size = Gen.killerLen) ∧ (C → s.st.history.size = Gen.historyLen)

/-- the tables keep their sizes and no flag has moved (`oobK` under `K`, `oobH` under `C`) -/
structure Keeps (K C : Prop) (s s' : SS M) : Prop where
  good : Good K C s'
  k : K → s'.oobK = s.oobK
  h : C → s'.oobH = s.oobH
  c : s'.offShape = s.offShape

theorem Keeps.refl {K C : Prop} {s : SS M} (hg : Good K C s) : Keeps K C s s :=
  ⟨hg, fun _ => rfl, fun _ => rfl, rfl⟩

theorem Keeps.trans {K C : Prop} {a b c : SS M} (h1 : Keeps K C a b) (h2 : Keeps K C b c) :
    Keeps K C a c :=
  ⟨h2.good, fun hk => (h2.k hk).trans (h1.k hk), fun hc => (h2.h hc).trans (h1.h hc),
    h2.c.trans h1.c⟩

/-- a change of the `St` component that keeps the two tables -/
theorem Keeps.withSt {K C : Prop} {s : SS M} (hg : Good K C s) (st : St M)
    (hk : st.killers = s.st.killers) (hh : st.history = s.st.history) :
    Keeps K C s { s with st := st } :=
  ⟨⟨fun hK => by show st.killers.size = _; rw [hk]; exact hg.1 hK,
    fun hc => by show st.history.size = _; rw [hh]; exact hg.2 hc⟩, fun _ => rfl, fun _ => rfl, rfl⟩

theorem readKiller_keeps {K C : Prop} {s : SS M} (hg : Good K C s) (i : Nat)
    (hi : K → i < Gen.killerLen) : Keeps K C s (readKiller s i).2 := by
  unfold readKiller
  cases hx : s.st.killers[i]? with
  | some k => exact Keeps.refl hg
  | none =>
    refine ⟨hg, fun hK => ?_, fun _ => rfl, rfl⟩
    have h1 := Array.getElem?_eq_none_iff.1 hx
    have h2 := hg.1 hK
    have h3 := hi hK
    omega

theorem writeKiller_keeps {K C : Prop} {s : SS M} (hg : Good K C s) (i : Nat) (m : M)
    (hi : K → i < Gen.killerLen) : Keeps K C s (writeKiller s i m) := by
  unfold writeKiller
  split
  · refine ⟨⟨fun hK => ?_, hg.2⟩, fun _ => rfl, fun _ => rfl, rfl⟩
    simp only [Array.size_set]
    exact hg.1 hK
  · rename_i hlt
    refine ⟨hg, fun hK => ?_, fun _ => rfl, rfl⟩
    have h2 := hg.1 hK
    have h3 := hi hK
    omega

theorem bumpHistory_keeps {K C : Prop} {s : SS M} (hg : Good K C s) (i r : Nat)
    (hi : C → i < Gen.historyLen) : Keeps K C s (bumpHistory s i r) := by
  unfold bumpHistory
  split
  · refine ⟨⟨hg.1, fun hc => ?_⟩, fun _ => rfl, fun _ => rfl, rfl⟩
    simp only [Array.size_set]
    exact hg.2 hc
  · rename_i hlt
    refine ⟨hg, fun _ => rfl, fun hc => ?_, rfl⟩
    exact absurd (by rw [hg.2 hc]; exact hi hc) hlt

/-- the index of the history table for `m`, if any, is inside the table -/
def HistIn (o : Ops G M) (m : M) : Prop := ∀ i, o.histIdx m = some i → i < Gen.historyLen

theorem cutUpdS_keeps {K C : Prop} (o : Ops G M) (remaining : Nat) (rd : Int) (m : M) {s : SS M}
    (hg : Good K C s) (hki : K → rd.toNat < Gen.killerLen) (hhi : C → HistIn o m) :
    Keeps K C s (cutUpdS o remaining rd m s) := by
  unfold cutUpdS
  have h1 := writeKiller_keeps hg rd.toNat m hki
  cases hx : o.histIdx m with
  | none => exact h1
  | some i => exact h1.trans (bumpHistory_keeps h1.good i remaining (fun hc => hhi hc i hx))

/-- a strict child called with depth index `rd'` keeps the invariant -/
def ChildK (K C : Prop) (childS : G → Int → Int → Int → SS M → SS M × Option Int) (g' : G)
    (rd' : Int) : Prop :=
  ∀ a b s, Good K C s → Keeps K C s (childS g' a b rd' s).1

theorem nodeStepS_keeps {K C : Prop} (o : Ops G M)
    (childS : G → Int → Int → Int → SS M → SS M × Option Int)
    (g : G) (rd β : Int) (m : M) (index : Nat) (α bs : Int) (bm : Option M) (s : SS M)
    (hc : ChildK K C childS (o.push g m) (rd + 1)) (hg : Good K C s) :
    Keeps K C s (nodeStepS o childS g rd β m index α bs bm s).1 := by
  unfold nodeStepS
  simp only []
  by_cases hidx : index ≤ Gen.fullWindowMaxIndex
  · simp only [hidx, if_true]
    have h1 := hc (-β) (-α) s hg
    cases hS : childS (o.push g m) (-β) (-α) (rd + 1) s with
    | mk s1 x =>
      rw [hS] at h1
      cases x with
      | none => exact h1
      | some v =>
        simp only []
        exact h1
  · simp only [hidx, if_false]
    have h1 := hc (-α - 1) (-α) s hg
    cases hS : childS (o.push g m) (-α - 1) (-α) (rd + 1) s with
    | mk s1 x =>
      rw [hS] at h1
      cases x with
      | none => exact h1
      | some v =>
        simp only []
        by_cases hs : -v > bs
        · simp only [hs, if_true]
          have h2 := hc (-β) (- -v) s1 h1.good
          cases hS2 : childS (o.push g m) (-β) (- -v) (rd + 1) s1 with
          | mk s2 x2 =>
            rw [hS2] at h2
            cases x2 with
            | none => exact h1.trans h2
            | some v2 => exact h1.trans h2
        · simp only [hs, if_false]; exact h1

theorem nodeLoopS_keeps {K C : Prop} (o : Ops G M)
    (childS : G → Int → Int → Int → SS M → SS M × Option Int)
    (g : G) (remaining : Nat) (rd β : Int) (ms : List M)
    (hc : ∀ m ∈ ms, ChildK K C childS (o.push g m) (rd + 1))
    (hki : K → rd.toNat < Gen.killerLen) (hhi : C → ∀ m ∈ ms, HistIn o m)
    (index : Nat) (α bs : Int) (bm : Option M) (s : SS M) (hg : Good K C s) :
    Keeps K C s (nodeLoopS o childS g remaining rd β ms index α bs bm s).1 := by
  induction ms generalizing index α bs bm s with
  | nil => exact Keeps.refl hg
  | cons m ms ih =>
    rw [nodeLoopS_cons]
    have h1 := nodeStepS_keeps o childS g rd β m index α bs bm s (hc m List.mem_cons_self) hg
    cases hS : nodeStepS o childS g rd β m index α bs bm s with
    | mk s1 x =>
      rw [hS] at h1
      cases x with
      | none => exact h1
      | some y =>
        obtain ⟨a', bs', bm'⟩ := y
        simp only []
        by_cases hcut : a' ≥ β
        · simp only [hcut, if_true]
          exact h1.trans (cutUpdS_keeps o remaining rd m h1.good hki
            (fun hC => hhi hC m List.mem_cons_self))
        · simp only [hcut, if_false]
          exact h1.trans (ih (fun m' hm' => hc m' (List.mem_cons_of_mem _ hm'))
            (fun hC m' hm' => hhi hC m' (List.mem_cons_of_mem _ hm')) (index + 1) a' bs' bm' s1 h1.good)

theorem rootLoopS_keeps {K C : Prop} (o : Ops G M)
    (childS : G → Int → Int → Int → SS M → SS M × Option Int) (g : G) (ms : List M)
    (hc : ∀ m ∈ ms, ChildK K C childS (o.push g m) 1)
    (index : Nat) (bs : Int) (bm : Option M) (s : SS M) (hg : Good K C s) :
    Keeps K C s (rootLoopS o childS g ms index bs bm s).1 := by
  induction ms generalizing index bs bm s with
  | nil => exact Keeps.refl hg
  | cons m ms ih =>
    have ih' := ih (fun m' hm' => hc m' (List.mem_cons_of_mem _ hm'))
    have hcm := hc m List.mem_cons_self
    unfold rootLoopS
    simp only []
    by_cases hidx : index ≤ Gen.fullWindowMaxIndex
    · simp only [hidx, if_true]
      have h1 := hcm (scoreMin + 1) (-bs) s hg
      cases hS : childS (o.push g m) (scoreMin + 1) (-bs) 1 s with
      | mk s1 x =>
        rw [hS] at h1
        cases x with
        | none => exact h1
        | some v =>
          simp only []
          by_cases hs : -v > bs
          · simp only [hs, if_true]; exact h1.trans (ih' _ _ _ _ h1.good)
          · simp only [hs, if_false]; exact h1.trans (ih' _ _ _ _ h1.good)
    · simp only [hidx, if_false]
      have h1 := hcm (-bs - 1) (-bs) s hg
      cases hS : childS (o.push g m) (-bs - 1) (-bs) 1 s with
      | mk s1 x =>
        rw [hS] at h1
        cases x with
        | none => exact h1
        | some v =>
          simp only []
          by_cases hs : -v > bs
          · simp only [hs, if_true]
            have h2 := hcm (scoreMin + 1) (- -v) s1 h1.good
            cases hS2 : childS (o.push g m) (scoreMin + 1) (- -v) 1 s1 with
            | mk s2 x2 =>
              rw [hS2] at h2
              cases x2 with
              | none => exact h1.trans h2
              | some v2 => exact (h1.trans h2).trans (ih' _ _ _ _ h2.good)
          · simp only [hs, if_false]; exact h1.trans (ih' _ _ _ _ h1.good)

variable [DecidableEq M]

omit [DecidableEq M] in
theorem nodeStore_killers (h : UInt64) (d : Nat) (e : Entry M) (st : St M) :
    (nodeStore h d e st).killers = st.killers ∧ (nodeStore h d e st).history = st.history := by
  unfold nodeStore
  split
  · split <;> exact ⟨rfl, rfl⟩
  · exact ⟨rfl, rfl⟩

omit [DecidableEq M] in
theorem rootStore_killers (h : UInt64) (d : Nat) (e : Entry M) (st : St M) :
    (rootStore h d e st).killers = st.killers ∧ (rootStore h d e st).history = st.history := by
  unfold rootStore
  split
  · split <;> exact ⟨rfl, rfl⟩
  · exact ⟨rfl, rfl⟩

/-- the hypotheses on the game for the history table: an invariant `A` of the positions searched,
closed under the checked moves, under which the history index of a checked move is inside the
table -/
structure HistOk (o : Ops G M) (A : G → Prop) : Prop where
  closed : ∀ g m, A g → m ∈ o.checked g → A (o.push g m)
  idx : ∀ g m, A g → m ∈ o.checked g → HistIn o m

/-- **The strict node on the call shape keeps every flag.** `(r0, rd0)` is the first call; the
observer accepts the calls below `(r0, rd0)`. Under `K`: `rd0.toNat + r0 ≤ Gen.killerLen + 1` and
the killer table has `Gen.killerLen` entries. Under `C`: the game satisfies `HistOk o A`, the
position `A`, the history table has `Gen.historyLen` entries. -/
theorem nodeS_keeps {K C : Prop} (o : Ops G M) (runs : Nat → Bool) (obs : Nat → Int → Bool)
    (A : G → Prop) (hH : C → HistOk o A)
    (r0 : Nat) (rd0 : Int) (hk : K → rd0.toNat + r0 ≤ Gen.killerLen + 1)
    (hobs : ∀ r rd, CallsFrom r0 rd0 r rd → obs r rd = true)
    (remaining : Nat) (g : G) (α β rd : Int) (s : SS M) (hA : C → A g)
    (hcalls : CallsFrom r0 rd0 remaining rd) (hg : Good K C s) :
    Keeps K C s (nodeS o runs obs remaining g α β rd s).1 := by
  induction remaining using Nat.strongRecOn generalizing g α β rd s with
  | _ n ih =>
    rw [nodeS_eq, observe_of_true obs n rd s (hobs n rd hcalls)]
    have hp : Keeps K C s ({ s with st := pollSt s.st } : SS M) := Keeps.withSt hg _ rfl rfl
    cases hr : runs s.st.polls with
    | false => exact Keeps.withSt hg _ rfl rfl
    | true =>
      simp only [Bool.not_true, Bool.false_eq_true, if_false]
      cases hcut : ttCut (ttGet (pollSt s.st) (o.hash g)) n α β with
      | some v => exact hp
      | none =>
        simp only []
        match n, hcalls with
        | 0, _ => exact hp
        | 1, _ => exact hp
        | r + 2, hcalls =>
          simp only []
          by_cases he : (o.checked g).isEmpty = true
          · simp only [he, if_true]; exact hp
          · simp only [he]
            have hki : K → rd.toNat < Gen.killerLen := fun hK => hcalls.killer_lt (hk hK)
            have hk3 := readKiller_keeps hp.good rd.toNat hki
            have hk1 := readKiller_fst ({ s with st := pollSt s.st } : SS M) rd.toNat
            generalize readKiller ({ s with st := pollSt s.st } : SS M) rd.toNat = k at hk1 hk3 ⊢
            have hmem : ∀ m ∈ nodeMovesK o g k.1 k.2.st, m ∈ o.checked g :=
              fun m hm => (mem_sortMoves _ _ _).1 hm
            have hl := nodeLoopS_keeps (K := K) (C := C) o (nodeS o runs obs (r + 1)) g (r + 2) rd β
              (nodeMovesK o g k.1 k.2.st)
              (fun m hm a b s2 hg2 => ih (r + 1) (by omega) _ _ _ _ _
                (fun hC => (hH hC).closed g m (hA hC) (hmem m hm)) (CallsFrom.child hcalls) hg2)
              hki (fun hC m hm => (hH hC).idx g m (hA hC) (hmem m hm)) 0 α scoreMin none k.2 hk3.good
            cases hS : nodeLoopS o (nodeS o runs obs (r + 1)) g (r + 2) rd β
                (nodeMovesK o g k.1 k.2.st) 0 α scoreMin none k.2 with
            | mk s1 x =>
              rw [hS] at hl
              have h1 : Keeps K C s s1 := hp.trans (hk3.trans hl)
              cases x with
              | none => exact h1
              | some y =>
                obtain ⟨a', bs', bm'⟩ := y
                exact h1.trans (Keeps.withSt h1.good _ (nodeStore_killers _ _ _ _).1
                  (nodeStore_killers _ _ _ _).2)

/-- the invariant between the iterations of the driver: only the history table matters, the killer
table is replaced at the start of every iteration -/
structure KeepsR (K C : Prop) (s s' : SS M) : Prop where
  hist : C → s'.st.history.size = Gen.historyLen
  k : K → s'.oobK = s.oobK
  h : C → s'.oobH = s.oobH
  c : s'.offShape = s.offShape

omit [DecidableEq M] in
theorem KeepsR.refl {K C : Prop} {s : SS M} (hg : C → s.st.history.size = Gen.historyLen) :
    KeepsR K C s s := ⟨hg, fun _ => rfl, fun _ => rfl, rfl⟩

omit [DecidableEq M] in
theorem KeepsR.trans {K C : Prop} {a b c : SS M} (h1 : KeepsR K C a b) (h2 : KeepsR K C b c) :
    KeepsR K C a c :=
  ⟨h2.hist, fun hk => (h2.k hk).trans (h1.k hk), fun hc => (h2.h hc).trans (h1.h hc),
    h2.c.trans h1.c⟩

omit [DecidableEq M] in
theorem Keeps.toR {K C : Prop} {s s' : SS M} (h : Keeps K C s s') : KeepsR K C s s' :=
  ⟨h.good.2, h.k, h.h, h.c⟩

/-- **The strict root search keeps every flag** (`oobK`: for `depth ≤ Gen.killerLen + 1`): it starts
from a fresh killer table of `Gen.killerLen` entries and calls the nodes `(depth - 1, 1)`. -/
theorem rootSearchS_keeps {K C : Prop} (o : Ops G M) (runs : Nat → Bool) (obs : Nat → Int → Bool)
    (A : G → Prop) (hH : C → HistOk o A) (g : G) (depth : Nat) (hd : K → depth ≤ Gen.killerLen + 1)
    (hobs : ∀ r rd, Calls depth r rd → obs r rd = true)
    (s : SS M) (hA : C → A g) (hg : C → s.st.history.size = Gen.historyLen) :
    KeepsR K C s (rootSearchS o runs obs g depth s).1 := by
  unfold rootSearchS
  have hg0 : Good K C ({ s with st := rootSt s.st } : SS M) := ⟨fun _ => Array.size_replicate, hg⟩
  have h0 : KeepsR K C s ({ s with st := rootSt s.st } : SS M) :=
    ⟨hg, fun _ => rfl, fun _ => rfl, rfl⟩
  by_cases hl : (o.checked g).length = 1
  · simp only [hl, if_true]; exact KeepsR.refl hg
  · simp only [hl, if_false]
    cases hh : rootHit (ttGet (rootSt s.st) (o.hash g)) depth with
    | some e => exact h0
    | none =>
      simp only []
      have hl := rootLoopS_keeps (K := K) (C := C) o (nodeS o runs obs (depth - 1)) g
        (rootSorted o g (rootSt s.st))
        (fun m hm a b s2 hg2 => nodeS_keeps o runs obs A hH (depth - 1) 1
          (fun hK => by have := hd hK; simp only [Int.toNat_one]; omega) hobs (depth - 1) _ _ _ 1 s2
          (fun hC => (hH hC).closed g m (hA hC) (mem_rootSorted hm)) CallsFrom.root hg2)
        0 (scoreMin + 1) none ({ s with st := rootSt s.st } : SS M) hg0
      cases hS : rootLoopS o (nodeS o runs obs (depth - 1)) g (rootSorted o g (rootSt s.st)) 0
          (scoreMin + 1) none ({ s with st := rootSt s.st } : SS M) with
      | mk s1 x =>
        rw [hS] at hl
        have h1 : KeepsR K C s s1 := h0.trans hl.toR
        cases x with
        | none => exact h1
        | some y =>
          obtain ⟨bs', bm'⟩ := y
          refine h1.trans ⟨fun hC => ?_, fun _ => rfl, fun _ => rfl, rfl⟩
          show (rootStore _ _ _ s1.st).history.size = _
          rw [(rootStore_killers _ _ _ _).2]
          exact h1.hist hC

/-- the flags of the strict driver are those of the state it started from -/
structure KeepsOut (K C : Prop) (s : SS M) (r : DriverOutS M) : Prop where
  k : K → r.oobK = s.oobK
  h : C → r.oobH = s.oobH
  c : r.offShape = s.offShape

omit [DecidableEq M] in
theorem keepsOut_mkOutS {K C : Prop} {s s' : SS M} (h : KeepsR K C s s') (found : Option M)
    (infos : List (Info M)) (stopped : Bool) : KeepsOut K C s (mkOutS found infos s' stopped) :=
  ⟨h.k, h.h, h.c⟩

/-- **The strict iterative-deepening loop keeps every flag**: the depths it runs through stay
`≤ limit` (`oobK`: for `limit ≤ Gen.killerLen + 1`). -/
theorem driverLoopS_keeps {K C : Prop} (o : Ops G M) (runs : Nat → Bool)
    (obs : Nat → Nat → Int → Bool) (A : G → Prop) (hH : C → HistOk o A) (g : G) (hA : C → A g)
    (limit : Nat) (hlim : K → limit ≤ Gen.killerLen + 1)
    (hobs : ∀ d, d ≤ limit → ∀ r rd, Calls d r rd → obs d r rd = true)
    (fuel depth : Nat) (hd : depth ≤ limit) (found : Option M) (infos : List (Info M)) (s : SS M)
    (hg : C → s.st.history.size = Gen.historyLen) :
    KeepsOut K C s (driverLoopS o runs obs g limit fuel depth found infos s) := by
  induction fuel generalizing depth found infos s with
  | zero => exact keepsOut_mkOutS (KeepsR.refl hg) _ _ _
  | succ f ih =>
    rw [driverLoopS_succ]
    have h1 := rootSearchS_keeps (K := K) o runs (obs depth) A hH g depth
      (fun hK => by have := hlim hK; omega) (hobs depth hd) s hA hg
    cases hS : rootSearchS o runs (obs depth) g depth s with
    | mk s1 x =>
      rw [hS] at h1
      cases x with
      | none => exact keepsOut_mkOutS h1 _ _ _
      | some y =>
        obtain ⟨bm, sc, only⟩ := y
        simp only []
        by_cases hx : exitCond limit depth only sc = true
        · simp only [hx, if_true]
          exact keepsOut_mkOutS h1 _ _ _
        · simp only [hx]
          have hne : depth ≠ limit := (exitCond_false hx).1
          have i1 := ih (depth + 1) (by omega) (bm.or found) (mkInfo o g depth sc s1.st :: infos) s1
            h1.hist
          exact ⟨fun hK => (i1.k hK).trans (h1.k hK), fun hC => (i1.h hC).trans (h1.h hC),
            i1.c.trans h1.c⟩

end Chess.Search.Shape
