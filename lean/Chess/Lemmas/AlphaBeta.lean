import Chess.Lemmas.AlphaBetaNode

/-!
# C09: pruning and move ordering never change the search result
-/
namespace Chess.Search

variable {G M : Type}

/-- the move loop of the root: no cut-off, so the result is exact -/
theorem rootLoop_spec (o : Ops G M) (child : G → Int → Int → Int → St M → Option (Int × St M))
    (cv : M → Int) (g : G) (ms : List M)
    (hc : ∀ m ∈ ms, ChildSound child (o.push g m) 1 (cv m) ∧ -(cv m) ≤ -scoreMin - 1)
    (index : Nat) (bs : Int) (bm : Option M) (st : St M)
    (h1 : scoreMin + 1 ≤ bs) (h2 : bs ≤ -scoreMin - 1) (ht : st.ttOff = true) :
    ∃ bm' st', rootLoop o child g ms index bs bm st =
        some ((ms.map fun m => -(cv m)).foldl max bs, bm', st') ∧ st'.ttOff = true := by
  induction ms generalizing index bs bm st with
  | nil => exact ⟨bm, st, rfl, ht⟩
  | cons m ms ih =>
    have ih' := ih (fun m' hm' => hc m' (List.mem_cons_of_mem _ hm'))
    obtain ⟨hcs, hsv⟩ := hc m List.mem_cons_self
    simp only [List.map_cons, List.foldl_cons]
    unfold rootLoop
    simp only []
    by_cases hidx : index ≤ Gen.fullWindowMaxIndex
    · rw [if_pos hidx]
      obtain ⟨r, st1, he, ht1, hb⟩ := hcs (scoreMin + 1) (-bs) st (by omega) (by omega) ht
      simp only [he]
      have hb := hb.neg
      simp only [Int.neg_neg] at hb
      generalize -r = s at hb ⊢
      generalize -(cv m) = sv at hb hsv ⊢
      unfold Btw at hb
      by_cases hs : s > bs
      · rw [if_pos hs, show max bs sv = s by omega]
        exact ih' _ _ _ _ (by omega) (by omega) ht1
      · rw [if_neg hs, show max bs sv = bs by omega]
        exact ih' _ _ _ _ h1 h2 ht1
    · rw [if_neg hidx]
      obtain ⟨r, st1, he, ht1, hb⟩ := hcs (-bs - 1) (-bs) st (by omega) (by omega) ht
      simp only [he]
      have hb := hb.neg
      simp only [Int.neg_neg, Int.neg_sub] at hb
      generalize -r = test at hb ⊢
      unfold Btw at hb
      by_cases hs : test > bs
      · rw [if_pos hs]
        obtain ⟨r2, st2, he2, ht2, hb2⟩ :=
          hcs (scoreMin + 1) (-test) st1 (by omega) (by omega) ht1
        simp only [he2]
        have hb2 := hb2.neg
        simp only [Int.neg_neg] at hb2
        generalize -r2 = s at hb2 ⊢
        generalize -(cv m) = sv at hb hb2 hsv ⊢
        unfold Btw at hb2
        rw [show max bs sv = s by omega]
        exact ih' _ _ _ _ (by omega) (by omega) ht2
      · rw [if_neg hs]
        generalize -(cv m) = sv at hb hsv ⊢
        rw [show max bs sv = bs by omega]
        exact ih' _ _ _ _ h1 h2 ht1

variable [DecidableEq M]

/-- What `root_exact` needs of the tree: below every root move the tree is `Tame`, and no root move
scores above `scoreMax` (the engine's scores are 16-bit). -/
def RootInRange (o : Ops G M) (depth : Nat) (g : G) : Prop :=
  ∀ m ∈ rootMoves o g, Tame o (depth - 1) (o.push g m) 1 ∧ rootScore o depth g m ≤ scoreMax

/-- **The root is exact.** With table look-ups disabled, a flag that stays up, no usable root
entry and not exactly one legal move, `rootSearch` answers, and the score it returns is the plain
negamax value `refRoot`, whatever the move ordering (history, killers, `orderKey`, table move). -/
theorem root_exact (o : Ops G M) (g : G) (depth : Nat) (st : St M)
    (hlen : (o.checked g).length ≠ 1) (ht : st.ttOff = true)
    (hmiss : ∀ e, st.tt[o.hash g]? = some e → ¬(e.depth ≥ depth ∧ e.flag = Flag.exact))
    (hT : RootInRange o depth g) :
    ∃ bm st', rootSearch o (fun _ => true) g depth st = some ((bm, refRoot o depth g, false), st') ∧
      st'.ttOff = true := by
  unfold rootSearch
  simp only [hlen, if_false, ttGet]
  generalize hpv : (st.tt[o.hash g]?.bind fun x => x.pv) = pv
  have hm : ∀ (x : Option (Entry M)), st.tt[o.hash g]? = x →
      ∀ e, x = some e → ¬((decide (e.depth ≥ depth) && decide (e.flag = Flag.exact)) = true) := by
    intro x hx e he
    have := hmiss e (hx.trans he)
    simpa using this
  generalize st.tt[o.hash g]? = x at hm
  have hm := hm x rfl
  generalize hsm : sortMoves (moveKey o pv none st.history) _ = sm
  have hp : sm.Perm (rootMoves o g) := by rw [← hsm]; exact sortMoves_perm _ _
  generalize hst0 : St.mk (M := M) st.tt (Array.replicate Gen.killerLen none) st.history st.polls
    st.ttOff = st0
  have ht0 : st0.ttOff = true := by rw [← hst0]; exact ht
  have hchild : ∀ m ∈ sm,
      ChildSound (node o (fun _ => true) (depth - 1)) (o.push g m) 1
        (refNode o (depth - 1) (o.push g m) 1) ∧
      -(refNode o (depth - 1) (o.push g m) 1) ≤ -scoreMin - 1 := by
    intro m hm'
    have hTm := hT m (hp.mem_iff.1 hm')
    refine ⟨fun a b s ha hb hs => node_btw o _ _ a b _ s ha hb hs hTm.1, ?_⟩
    have := hTm.2
    simp only [rootScore, scoreMax] at this
    simp only [scoreMin]
    omega
  obtain ⟨bm', st', hrl, ht'⟩ :=
    rootLoop_spec o (node o (fun _ => true) (depth - 1))
      (fun m => refNode o (depth - 1) (o.push g m) 1) g sm hchild 0 (scoreMin + 1) none st0
      (Int.le_refl _) (by simp only [scoreMin]; omega) ht0
  have hval : (sm.map fun m => -(refNode o (depth - 1) (o.push g m) 1)).foldl max (scoreMin + 1)
      = refRoot o depth g := (refRoot_perm o depth g hp.symm).symm
  rw [hval] at hrl
  split
  · next e heq =>
    exfalso
    cases x with
    | none => cases heq
    | some e' => simp only [hm e' rfl] at heq; cases heq
  · rw [hrl]
    simp only []
    refine ⟨_, _, rfl, ?_⟩
    split
    · split
      · exact ht'
      · exact ht'
    · exact ht'

/-! ## The statements in the form of the property text (`R`, proper windows) -/

omit [DecidableEq M] in
/-- **Quiescence is sound**: for a proper window the fail-hard result lies between the reference
value and its clamp into the window. (`QLive.tame` turns the strict hypothesis into `QTame`.) -/
theorem qsearch_sound (o : Ops G M) (fuel : Nat) (g : G) (α β rd : Int) (hαβ : α < β)
    (h : QTame o fuel g rd) :
    R α β (refQ o fuel g rd) (qsearch o fuel g α β rd) :=
  (R_iff_Btw hαβ _ _).2 (qsearch_btw o fuel g α β rd h)

omit [DecidableEq M] in
theorem qsearch_sound_of_live (o : Ops G M) (fuel : Nat) (g : G) (α β rd : Int) (hαβ : α < β)
    (h : QLive o fuel g rd) :
    R α β (refQ o fuel g rd) (qsearch o fuel g α β rd) :=
  qsearch_sound o fuel g α β rd hαβ h.tame

omit [DecidableEq M] in
/-- **Depth 1 is sound.** A depth-1 node without moves returns its exact value; only the quiescence
below the moves needs the hypothesis. -/
theorem depth1_sound (o : Ops G M) (g : G) (α β rd : Int) (hαβ : α < β)
    (h : ∀ m ∈ o.unchecked g, QTame o qFuel (o.push g m) (rd + 1)) :
    R α β (refD1 o g rd) (depth1 o g α β rd) :=
  (R_iff_Btw hαβ _ _).2 (depth1_btw o g α β rd h)

/-- **The interior node is sound**, for every game tree, every ordering (the state `st` with its
killers and history is arbitrary, as is `orderKey`), table switched off, flag up: it answers, the
table stays off, and the answer lies between the reference value and its clamp into the window.
The window must lie in the engine's range, `scoreMin ≤ α` and `β ≤ -scoreMin`: the loop starts
from `best_score = scoreMin` and decides the re-search by `test > best_score`. -/
theorem node_sound (o : Ops G M) (remaining : Nat) (g : G) (α β rd : Int) (st : St M)
    (hαβ : α < β) (hα : scoreMin ≤ α) (hβ : β ≤ -scoreMin) (ht : st.ttOff = true)
    (hT : Tame o remaining g rd) :
    ∃ r st', node o (fun _ => true) remaining g α β rd st = some (r, st') ∧ st'.ttOff = true ∧
      R α β (refNode o remaining g rd) r := by
  obtain ⟨r, st', h1, h2, h3⟩ := node_btw o remaining g α β rd st hα hβ ht hT
  exact ⟨r, st', h1, h2, (R_iff_Btw hαβ _ _).2 h3⟩

/-- the same, reading off a given result -/
theorem node_sound' (o : Ops G M) (remaining : Nat) (g : G) (α β rd : Int) (st st' : St M) (r : Int)
    (hαβ : α < β) (hα : scoreMin ≤ α) (hβ : β ≤ -scoreMin) (ht : st.ttOff = true)
    (hT : Tame o remaining g rd)
    (hr : node o (fun _ => true) remaining g α β rd st = some (r, st')) :
    st'.ttOff = true ∧ R α β (refNode o remaining g rd) r := by
  obtain ⟨r1, st1, h1, h2, h3⟩ := node_sound o remaining g α β rd st hαβ hα hβ ht hT
  rw [hr] at h1
  cases h1
  exact ⟨h2, h3⟩

/-- a window that contains the value gives the value -/
theorem node_exact (o : Ops G M) (remaining : Nat) (g : G) (α β rd : Int) (st : St M)
    (hα : scoreMin ≤ α) (hβ : β ≤ -scoreMin) (ht : st.ttOff = true)
    (hT : Tame o remaining g rd)
    (h1 : α < refNode o remaining g rd) (h2 : refNode o remaining g rd < β) :
    ∃ st', node o (fun _ => true) remaining g α β rd st = some (refNode o remaining g rd, st') := by
  obtain ⟨r, st', e, _, hb⟩ := node_btw o remaining g α β rd st hα hβ ht hT
  have : r = refNode o remaining g rd := by unfold Btw at hb; omega
  exact ⟨st', this ▸ e⟩

/-- **Ordering never changes the result**: two searches of the same position that differ in
everything that only orders moves (history, killers, table contents, poll count) return the same
score. -/
theorem root_order_independent (o : Ops G M) (g : G) (depth : Nat) (st₁ st₂ : St M)
    (hlen : (o.checked g).length ≠ 1) (ht₁ : st₁.ttOff = true) (ht₂ : st₂.ttOff = true)
    (hmiss₁ : ∀ e, st₁.tt[o.hash g]? = some e → ¬(e.depth ≥ depth ∧ e.flag = Flag.exact))
    (hmiss₂ : ∀ e, st₂.tt[o.hash g]? = some e → ¬(e.depth ≥ depth ∧ e.flag = Flag.exact))
    (hT : RootInRange o depth g) :
    ∃ bm₁ bm₂ s st₁' st₂',
      rootSearch o (fun _ => true) g depth st₁ = some ((bm₁, s, false), st₁') ∧
      rootSearch o (fun _ => true) g depth st₂ = some ((bm₂, s, false), st₂') := by
  obtain ⟨bm₁, st₁', h₁, _⟩ := root_exact o g depth st₁ hlen ht₁ hmiss₁ hT
  obtain ⟨bm₂, st₂', h₂, _⟩ := root_exact o g depth st₂ hlen ht₂ hmiss₂ hT
  exact ⟨bm₁, bm₂, _, st₁', st₂', h₁, h₂⟩

/-! ## Reordering the move generators -/

omit [DecidableEq M] in
theorem QTame.reordered {o o' : Ops G M} (h : Reordered o o') {fuel : Nat} {g : G} {rd : Int}
    (hq : QTame o fuel g rd) : QTame o' fuel g rd := by
  induction fuel generalizing g rd with
  | zero => trivial
  | succ f ih =>
    refine ⟨fun he => ?_, fun m hm ht => ?_⟩
    · rw [h.eval, deadValue_reordered h]
      exact hq.1 (by rw [isEmpty_eq_of_perm (h.unchecked g)]; exact he)
    · rw [h.push]
      exact ih (hq.2 m ((h.unchecked g).mem_iff.2 hm) (by rw [← h.tactical]; exact ht))

omit [DecidableEq M] in
theorem Tame.reordered {o o' : Ops G M} (h : Reordered o o') {remaining : Nat} {g : G} {rd : Int}
    (hT : Tame o remaining g rd) : Tame o' remaining g rd := by
  induction remaining using Nat.strongRecOn generalizing g rd with
  | _ n ih =>
    match n with
    | 0 => exact QTame.reordered h hT
    | 1 =>
      intro m hm
      rw [h.push]
      exact QTame.reordered h (hT m ((h.unchecked g).mem_iff.2 hm))
    | r + 2 =>
      intro m hm
      rw [h.push, refNode_reordered h]
      have := hT m ((h.checked g).mem_iff.2 hm)
      exact ⟨ih (r + 1) (by omega) this.1, this.2⟩

theorem RootInRange.reordered {o o' : Ops G M} (h : Reordered o o')
    (hrep : o'.repetition = o.repetition) {depth : Nat} {g : G} (hT : RootInRange o depth g) :
    RootInRange o' depth g := by
  intro m hm
  have := hT m ((rootMoves_reordered h hrep g).mem_iff.2 hm)
  refine ⟨?_, ?_⟩
  · rw [h.push]; exact Tame.reordered h this.1
  · simp only [rootScore, refNode_reordered h, h.push]; exact this.2

/-- **Neither pruning nor any ordering changes the result.** Let `o'` be the game `o` with the
move lists of every position generated in another order, and with *any* other hash, history index
and ordering key; let the two searches start from arbitrary (table-off) states. Then both return
the same score, the plain negamax value of `o`. -/
theorem root_reordered {o o' : Ops G M} (h : Reordered o o') (hrep : o'.repetition = o.repetition)
    (g : G) (depth : Nat) (st st' : St M)
    (hlen : (o.checked g).length ≠ 1) (ht : st.ttOff = true) (ht' : st'.ttOff = true)
    (hmiss : ∀ e, st.tt[o.hash g]? = some e → ¬(e.depth ≥ depth ∧ e.flag = Flag.exact))
    (hmiss' : ∀ e, st'.tt[o'.hash g]? = some e → ¬(e.depth ≥ depth ∧ e.flag = Flag.exact))
    (hT : RootInRange o depth g) :
    ∃ bm bm' s s',
      rootSearch o (fun _ => true) g depth st = some ((bm, refRoot o depth g, false), s) ∧
      rootSearch o' (fun _ => true) g depth st' = some ((bm', refRoot o depth g, false), s') := by
  obtain ⟨bm, s, h₁, _⟩ := root_exact o g depth st hlen ht hmiss hT
  obtain ⟨bm', s', h₂, _⟩ := root_exact o' g depth st'
    (by rw [← (h.checked g).length_eq]; exact hlen) ht' hmiss' (hT.reordered h hrep)
  rw [refRoot_reordered h hrep] at h₂
  exact ⟨bm, bm', s, s', h₁, h₂⟩

/-! ## Boolean checkers for the tree predicates (used for the concrete examples) -/

omit [DecidableEq M] in
def qliveB (o : Ops G M) : Nat → G → Int → Bool
  | 0, _, _ => true
  | fuel + 1, g, rd =>
    !(o.unchecked g).isEmpty &&
    (o.unchecked g).all fun m => !o.tactical m || qliveB o fuel (o.push g m) (rd + 1)

omit [DecidableEq M] in
theorem qliveB_sound (o : Ops G M) (fuel : Nat) (g : G) (rd : Int) (h : qliveB o fuel g rd = true) :
    QLive o fuel g rd := by
  induction fuel generalizing g rd with
  | zero => trivial
  | succ f ih =>
    simp only [qliveB, Bool.and_eq_true, Bool.not_eq_true', List.all_eq_true, Bool.or_eq_true] at h
    refine ⟨h.1, fun m hm ht => ih _ _ ?_⟩
    cases h.2 m hm with
    | inl h' => rw [ht] at h'; cases h'
    | inr h' => exact h'

omit [DecidableEq M] in
def liveB (o : Ops G M) : Nat → G → Int → Bool
  | 0, g, rd => qliveB o qFuel g rd
  | 1, g, rd => (o.unchecked g).all fun m => qliveB o qFuel (o.push g m) (rd + 1)
  | r + 2, g, rd =>
    (o.checked g).all fun m =>
      liveB o (r + 1) (o.push g m) (rd + 1) &&
      decide (scoreMin + 1 ≤ refNode o (r + 1) (o.push g m) (rd + 1)) &&
      decide (refNode o (r + 1) (o.push g m) (rd + 1) ≤ scoreMax)

omit [DecidableEq M] in
theorem liveB_sound (o : Ops G M) (remaining : Nat) (g : G) (rd : Int)
    (h : liveB o remaining g rd = true) : Live o remaining g rd := by
  induction remaining using Nat.strongRecOn generalizing g rd with
  | _ n ih =>
    match n with
    | 0 => exact qliveB_sound o _ _ _ h
    | 1 =>
      simp only [liveB, List.all_eq_true] at h
      exact fun m hm => qliveB_sound o _ _ _ (h m hm)
    | r + 2 =>
      simp only [liveB, List.all_eq_true, Bool.and_eq_true, decide_eq_true_eq] at h
      exact fun m hm => ⟨ih (r + 1) (by omega) _ _ (h m hm).1.1, (h m hm).1.2, (h m hm).2⟩

def rootInRangeB (o : Ops G M) (depth : Nat) (g : G) : Bool :=
  (rootMoves o g).all fun m =>
    liveB o (depth - 1) (o.push g m) 1 && decide (rootScore o depth g m ≤ scoreMax)

theorem rootInRangeB_sound (o : Ops G M) (depth : Nat) (g : G) (h : rootInRangeB o depth g = true) :
    RootInRange o depth g := by
  simp only [rootInRangeB, List.all_eq_true, Bool.and_eq_true, decide_eq_true_eq] at h
  exact fun m hm => ⟨(liveB_sound o _ _ _ (h m hm).1).tame, (h m hm).2⟩

/-! ## Non-vacuity: a concrete game tree

Positions are paths (`List Nat`), a move appends its number. Interior positions have five legal
moves (so the null-window probes and re-searches of `nodeLoop`/`rootLoop` are exercised, the
full-window index being `2`), the static evaluation is a pseudo-random function of the path, moves
other than `0` are tactical, quiescence dies out at path length 5 where the only move is quiet, and
the root has a repetition move that `swapRemoveFirst` removes. `orderKey` sorts the moves in
*descending* order and history/killers change on the way, so the order in which moves are tried
differs from the order in which the reference lists them. -/
namespace Example

def exEval (g : List Nat) : Int :=
  ((g.foldl (fun a x => (a * 7 + x * 13 + 5) % 41) 3 : Nat) : Int) - 20

def ex : Ops (List Nat) Nat where
  checked g := if g.length < 3 then [0, 1, 2, 3, 4] else [0, 1]
  unchecked g := if g.length < 5 then [0, 1, 2] else [0]
  push g m := g ++ [m]
  eval := exEval
  safe _ := true
  hash _ := 0
  tactical m := m != 0
  histIdx m := some m
  orderKey m h := 10 - m + h m
  repetition g := if g = [] then some 1 else none

def st0 : St Nat :=
  { tt := {}, killers := Array.replicate 32 none, history := Array.replicate 768 0, polls := 0,
    ttOff := true }

/-- the hypothesis of `qsearch_sound` holds at the position `[0, 1, 2]` -/
theorem ex_qlive : QLive ex qFuel [0, 1, 2] 3 := qliveB_sound _ _ _ _ (by decide +kernel)

/-- `qsearch_sound` observed: the value is 17; the window `(-5, 5)` fails high with `5` (between
`β` and `v`), the window `(-50, 50)` returns the value -/
example : refQ ex qFuel [0, 1, 2] 3 = 17 ∧ qsearch ex qFuel [0, 1, 2] (-5) 5 3 = 5 ∧
    qsearch ex qFuel [0, 1, 2] (-50) 50 3 = 17 ∧ qsearch ex qFuel [0, 1, 2] 20 30 3 = 20 := by
  decide +kernel

example : R (-5) 5 17 (qsearch ex qFuel [0, 1, 2] (-5) 5 3) := by
  have h := qsearch_sound_of_live ex qFuel [0, 1, 2] (-5) 5 3 (by decide) ex_qlive
  rwa [show refQ ex qFuel [0, 1, 2] 3 = 17 by decide +kernel] at h

/-- the hypothesis of `depth1_sound` holds at `[3, 1]` -/
theorem ex_d1live : ∀ m ∈ ex.unchecked [3, 1], QTame ex qFuel (ex.push [3, 1] m) (2 + 1) :=
  fun m hm => ((liveB_sound ex 1 [3, 1] 2 (by decide +kernel)) m hm).tame

/-- `depth1_sound` observed: the value is 8; `(-5, 5)` fails high with `5`, `(-50, 50)` is exact,
`(10, 12)` fails low with a value between `v` and `α` -/
example : refD1 ex [3, 1] 2 = 8 ∧ depth1 ex [3, 1] (-5) 5 2 = 5 ∧ depth1 ex [3, 1] (-50) 50 2 = 8 ∧
    depth1 ex [3, 1] 10 12 2 = 10 := by
  decide +kernel

example : R (-5) 5 8 (depth1 ex [3, 1] (-5) 5 2) := by
  have h := depth1_sound ex [3, 1] (-5) 5 2 (by decide) ex_d1live
  rwa [show refD1 ex [3, 1] 2 = 8 by decide +kernel] at h

/-- the hypothesis of `node_sound` holds at the root of the example, three plies deep -/
theorem ex_live3 : Live ex 3 [] 0 := liveB_sound _ _ _ _ (by decide +kernel)

theorem ex_ref3 : refNode ex 3 [] 0 = 3 := by decide +kernel

/-- `node_sound` observed (the state, with its hash table, is not evaluated by the kernel; the
theorem provides the result): the value is 3 and the window `(-50, 50)` returns it -/
example : ∃ st', node ex (fun _ => true) 3 [] (-50) 50 0 st0 = some (3, st') := by
  have h := node_exact ex 3 [] (-50) 50 0 st0 (by decide) (by decide) rfl ex_live3.tame
    (by rw [ex_ref3]; decide) (by rw [ex_ref3]; decide)
  rwa [ex_ref3] at h

/-- a window above the value: the result is between the value `3` and `α = 6` -/
example : ∃ r st', node ex (fun _ => true) 3 [] 6 9 0 st0 = some (r, st') ∧ 3 ≤ r ∧ r ≤ 6 := by
  obtain ⟨r, st', h, _, hR⟩ :=
    node_sound ex 3 [] 6 9 0 st0 (by decide) (by decide) (by decide) rfl ex_live3.tame
  rw [ex_ref3] at hR
  exact ⟨r, st', h, hR.1 (by decide)⟩

-- the compiled evaluator agrees (this is an observation, not a proof)
#guard (node ex (fun _ => true) 3 [] (-50) 50 0 st0).map (·.1) == some 3
#guard (node ex (fun _ => true) 3 [] 6 9 0 st0).map (·.1) == some 6
#guard (node ex (fun _ => true) 3 [] (-3) 4 0 st0).map (·.1) == some 3

/-- the hypotheses of `root_exact` hold for the example at depth 4 -/
theorem ex_root : RootInRange ex 4 [] := rootInRangeB_sound _ _ _ (by decide +kernel)

theorem ex_refRoot : refRoot ex 4 [] = 10 ∧ rootMoves ex [] = [0, 4, 2, 3] := by decide +kernel

/-- `root_exact` observed: the engine's score at depth 4 is the negamax value 10 -/
example : ∃ bm st', rootSearch ex (fun _ => true) [] 4 st0 = some ((bm, 10, false), st') := by
  obtain ⟨bm, st', h, _⟩ := root_exact ex [] 4 st0 (by decide) rfl
    (by intro e he; simp [st0] at he) ex_root
  rw [ex_refRoot.1] at h
  exact ⟨bm, st', h⟩

#guard (rootSearch ex (fun _ => true) [] 4 st0).map (·.1) == some (some 2, 10, false)

/-- Why quiescence needs its hypothesis: a position without moves, not in check (value 0), whose
static evaluation 10 is above `β = 5`. The engine stands pat before it looks at the moves and
returns 5 although the value 0 is inside the window `(-5, 5)`. -/
def dead : Ops Unit Nat where
  checked _ := []
  unchecked _ := []
  push g _ := g
  eval _ := 10
  safe _ := true
  hash _ := 0
  tactical _ := true
  histIdx _ := none
  orderKey _ _ := 0
  repetition _ := none

example : refQ dead 1 () 0 = 0 ∧ qsearch dead 1 () (-5) 5 0 = 5 ∧ ¬ R (-5) 5 0 5 := by
  refine ⟨by decide, by decide, ?_⟩
  unfold R; omega

/-- Why `node_sound` needs `scoreMin ≤ α` (and `Tame` needs the children's values in range): five
moves whose values `-40000, -39900, …, -39600` all lie below `scoreMin = best_score₀`. After the
three full-window moves `alpha = -39800 < best_score = scoreMin`; the null-window probes of the
last two moves return `test ≤ best_score`, are not re-searched, and the node returns `-39800`
although its value `-39600` is inside the window. (Observation by the compiled evaluator: the
kernel does not evaluate the hash table in the state.) Within the 16-bit range of the engine this
cannot happen. -/
def low : Ops (List Nat) Nat where
  checked g := if g = [] then [0, 1, 2, 3, 4] else [0]
  unchecked _ := [0]
  push g m := g ++ [m]
  eval g := -40000 + 100 * (g.headD 0 : Int)
  safe _ := true
  hash _ := 0
  tactical _ := false
  histIdx _ := none
  orderKey m _ := m
  repetition _ := none

example : refNode low 2 [] 0 = -39600 := by decide +kernel
#guard (node low (fun _ => true) 2 [] (-50000) (-100) 0 st0).map (·.1) == some (-39800)

end Example

end Chess.Search

open Chess.Search in
#print axioms qsearch_sound
open Chess.Search in
#print axioms depth1_sound
open Chess.Search in
#print axioms node_sound
open Chess.Search in
#print axioms root_exact
open Chess.Search in
#print axioms root_order_independent
open Chess.Search in
#print axioms root_reordered
open Chess.Search in
#print axioms refRoot_reordered
open Chess.Search in
#print axioms refNode_reordered
open Chess.Search in
#print axioms refRoot_perm
open Chess.Search in
#print axioms Example.ex_root
