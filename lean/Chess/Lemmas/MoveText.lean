import Chess.Lemmas.Defs

/-!
# C20 (the move record) and C12 (UCI move text)

* `specPgn`, `specUci`: what the text of a move has to be, written with explicit matches on the
  piece kinds and explicit letter tables — nothing of `Chess.Gen` is mentioned.
* `pgn_entry_spec`, `uci_shape`: the engine's `Move.pgn` / `Move.uci` (which *do* go through the
  tables extracted from the Rust source) produce exactly that.  The generated tables enter the
  proofs through `decide`, so a wrong table in the source makes these theorems fail.
* `pgn_record`: `Game.pgn` is the numbered list of the entries of the move stack, oldest first.
* `uci_roundtrip`, `fromUci_text`, `uci_injective_on_fits`: `Move.fromUci` is the inverse of
  `Move.uci` on the moves the generator produces.
-/
namespace Chess

/-! ## explicit letter tables of the specification -/

/-- file letter of a column -/
def fileLetter (c : Int) : Char :=
  if c = 0 then 'a' else if c = 1 then 'b' else if c = 2 then 'c' else if c = 3 then 'd'
  else if c = 4 then 'e' else if c = 5 then 'f' else if c = 6 then 'g' else if c = 7 then 'h'
  else '?'

/-- rank digit of a row -/
def rankDigit (r : Int) : Char :=
  if r = 0 then '1' else if r = 1 then '2' else if r = 2 then '3' else if r = 3 then '4'
  else if r = 4 then '5' else if r = 5 then '6' else if r = 6 then '7' else if r = 7 then '8'
  else '?'

/-- piece letter of the record: none for pawns -/
def pgnPieceLetter : PieceType → List Char
  | .king => ['K']
  | .queen => ['Q']
  | .rook => ['R']
  | .bishop => ['B']
  | .knight => ['N']
  | .pawn => []

/-- letter of the piece promoted to, in the record (a pawn never becomes a pawn or a king; the
engine would print `?`) -/
def pgnPromoLetter : PieceType → Char
  | .queen => 'Q'
  | .rook => 'R'
  | .bishop => 'B'
  | .knight => 'N'
  | .pawn => '?'
  | .king => '?'

/-- letter of the piece promoted to, in UCI text -/
def uciPromoLetter : PieceType → Char
  | .queen => 'q'
  | .rook => 'r'
  | .bishop => 'b'
  | .knight => 'n'
  | .pawn => '?'
  | .king => '?'

def captureMark (cap : Option Piece) : List Char :=
  match cap with
  | some _ => ['x']
  | none => []

/-- a promotion promotes to queen, rook, bishop or knight (`promoPieces`, the only source of
`Move.promotion` in the generator, is `[queen, rook, bishop, knight]`) -/
def PromoOk : Move → Prop
  | .promotion _ t _ _ _ => t = .queen ∨ t = .rook ∨ t = .bishop ∨ t = .knight
  | _ => True

instance (m : Move) : Decidable (PromoOk m) := by
  cases m <;> unfold PromoOk <;> infer_instance

/-- the squares a move mentions are on the board -/
def OnBoard : Move → Prop
  | .normal _ s e _ => s.Valid ∧ e.Valid
  | .promotion _ _ s e _ => s.Valid ∧ e.Valid
  | .enPassant _ sc ec => 0 ≤ sc ∧ sc < 8 ∧ 0 ≤ ec ∧ ec < 8
  | .castlingShort _ => True
  | .castlingLong _ => True

instance (m : Move) : Decidable (OnBoard m) := by
  cases m <;> unfold OnBoard <;> infer_instance

theorem Game.Fits.onBoard {g : Game} {m : Move} (h : g.Fits m) : OnBoard m := by
  cases m <;> simp only [Game.Fits, OnBoard] at * <;> first | trivial | exact ⟨h.1, h.2.1⟩ | skip
  exact ⟨h.1, h.2.1, h.2.2.1, h.2.2.2.1⟩

/-! ## specification of the two texts -/

/-- The record entry of a move: piece letter (none for pawns), origin file, `x` iff it captured,
destination square; promotions add `=` and the letter of the piece actually promoted to;
en passant is a pawn capture onto rank 6 (White) / 3 (Black); castling is `O-O` / `O-O-O`. -/
def specPgn : Move → List Char
  | .normal pc s e cap =>
    pgnPieceLetter pc.pieceType ++ [fileLetter s.col] ++ captureMark cap
      ++ [fileLetter e.col, rankDigit e.row]
  | .promotion _ t s e cap =>
    [fileLetter s.col] ++ captureMark cap ++ [fileLetter e.col, rankDigit e.row]
      ++ ['=', pgnPromoLetter t]
  | .enPassant .white sc ec => [fileLetter sc, 'x', fileLetter ec, '6']
  | .enPassant .black sc ec => [fileLetter sc, 'x', fileLetter ec, '3']
  | .castlingShort _ => ['O', '-', 'O']
  | .castlingLong _ => ['O', '-', 'O', '-', 'O']

/-- The UCI text of a move: origin square, destination square, lower-case letter of the piece
promoted to; castling is the king's two-square move, en passant the capturing pawn's move. -/
def specUci : Move → List Char
  | .normal _ s e _ => [fileLetter s.col, rankDigit s.row, fileLetter e.col, rankDigit e.row]
  | .promotion _ t s e _ =>
    [fileLetter s.col, rankDigit s.row, fileLetter e.col, rankDigit e.row, uciPromoLetter t]
  | .castlingShort .white => ['e', '1', 'g', '1']
  | .castlingShort .black => ['e', '8', 'g', '8']
  | .castlingLong .white => ['e', '1', 'c', '1']
  | .castlingLong .black => ['e', '8', 'c', '8']
  | .enPassant .white sc ec => [fileLetter sc, '5', fileLetter ec, '6']
  | .enPassant .black sc ec => [fileLetter sc, '4', fileLetter ec, '3']

/-! ## character arithmetic -/

theorem int_lt8_cases {c : Int} (h0 : 0 ≤ c) (h8 : c < 8) :
    c = 0 ∨ c = 1 ∨ c = 2 ∨ c = 3 ∨ c = 4 ∨ c = 5 ∨ c = 6 ∨ c = 7 := by omega

theorem fileChar_eq_letter {c : Int} (h0 : 0 ≤ c) (h8 : c < 8) : fileChar c = fileLetter c := by
  obtain rfl | rfl | rfl | rfl | rfl | rfl | rfl | rfl := int_lt8_cases h0 h8 <;> decide

theorem rankChar_eq_digit {r : Int} (h0 : 0 ≤ r) (h8 : r < 8) : rankChar r = rankDigit r := by
  obtain rfl | rfl | rfl | rfl | rfl | rfl | rfl | rfl := int_lt8_cases h0 h8 <;> decide

/-- the record prints the rank through `to_string`; on the board that is the one rank digit -/
theorem rankText_eq_digit {r : Int} (h0 : 0 ≤ r) (h8 : r < 8) :
    natToChars (r + 1).toNat = [rankDigit r] := by
  obtain rfl | rfl | rfl | rfl | rfl | rfl | rfl | rfl := int_lt8_cases h0 h8 <;> decide

theorem asStrPgn_eq_letter (pc : Piece) : pc.asStrPgn = pgnPieceLetter pc.pieceType := by
  obtain ⟨t, o⟩ := pc
  cases t <;> cases o <;> decide

theorem isSome_mark (cap : Option Piece) :
    (if cap.isSome = true then ['x'] else []) = captureMark cap := by
  cases cap <;> rfl

theorem pgnPromo_table (t : PieceType) :
    (listIdx? Gen.pgnPromoLetters t.toNat).getD '?' = pgnPromoLetter t := by
  cases t <;> decide

theorem uciPromo_table (t : PieceType) :
    (listIdx? Gen.uciPromoLetters t.toNat).getD '?' = uciPromoLetter t := by
  cases t <;> decide

/-! ## C20.1 — the record entry -/

/-- **C20**: the engine's record entry of every move on the board is the specified one.
(`PromoOk` is not needed for the equation: for the impossible promotions to pawn or king both
sides print `?`; under `PromoOk` the letter is one of `Q R B N` and determines the piece, see
`pgnPromoLetter_inj`.) -/
theorem pgn_entry_spec (m : Move) (hb : OnBoard m) : Move.pgn m = specPgn m := by
  cases m with
  | normal pc s e cap =>
    obtain ⟨hs, he⟩ := hb
    simp only [Move.pgn, specPgn, asStrPgn_eq_letter, isSome_mark,
      fileChar_eq_letter hs.2.2.1 hs.2.2.2, fileChar_eq_letter he.2.2.1 he.2.2.2,
      rankText_eq_digit he.1 he.2.1, List.append_assoc, List.cons_append, List.nil_append]
  | promotion o t s e cap =>
    obtain ⟨hs, he⟩ := hb
    simp only [Move.pgn, specPgn, isSome_mark, pgnPromo_table,
      fileChar_eq_letter hs.2.2.1 hs.2.2.2, fileChar_eq_letter he.2.2.1 he.2.2.2,
      rankText_eq_digit he.1 he.2.1, List.append_assoc, List.cons_append, List.nil_append]
  | castlingShort o => rfl
  | castlingLong o => rfl
  | enPassant o sc ec =>
    obtain ⟨h1, h2, h3, h4⟩ := hb
    cases o <;> simp only [Move.pgn, specPgn, fileChar_eq_letter h1 h2, fileChar_eq_letter h3 h4]

/-- the form asked for: with `PromoOk` among the hypotheses -/
theorem pgn_entry_spec' (m : Move) (_ : PromoOk m) (hb : OnBoard m) : Move.pgn m = specPgn m :=
  pgn_entry_spec m hb

theorem pgn_entry_spec_fits {g : Game} {m : Move} (h : g.Fits m) : Move.pgn m = specPgn m :=
  pgn_entry_spec m h.onBoard

/-- under `PromoOk` the promotion letter of the record identifies the piece promoted to -/
theorem pgnPromoLetter_inj {t t' : PieceType}
    (h : t = .queen ∨ t = .rook ∨ t = .bishop ∨ t = .knight)
    (h' : t' = .queen ∨ t' = .rook ∨ t' = .bishop ∨ t' = .knight)
    (e : pgnPromoLetter t = pgnPromoLetter t') : t = t' := by
  rcases h with rfl | rfl | rfl | rfl <;> rcases h' with rfl | rfl | rfl | rfl <;>
    first | rfl | (exact absurd e (by decide))

/-- the entry of a promotion ends in `=` and the letter of the piece actually promoted to -/
theorem pgn_promotion_suffix (o : Player) (t : PieceType) (s e : Pos) (cap : Option Piece) :
    ∃ pre, Move.pgn (.promotion o t s e cap) = pre ++ ['=', pgnPromoLetter t] := by
  refine ⟨[fileChar s.col] ++ (if cap.isSome then ['x'] else []) ++ [fileChar e.col]
      ++ natToChars (e.row + 1).toNat, ?_⟩
  simp only [Move.pgn, pgnPromo_table]

/-! ## C20.2 — the record is the numbered list of the entries of the move stack -/

namespace Game

theorem setPosition_moveStack (g : Game) (p : Pos) (x : Option Piece) :
    (g.setPosition p x).moveStack = g.moveStack := by
  unfold setPosition; split <;> rfl

theorem setKingPos_moveStack (g : Game) (pl : Player) (p : Pos) :
    (g.setKingPos pl p).moveStack = g.moveStack := by
  cases pl <;> rfl

theorem setPosition_player (g : Game) (p : Pos) (x : Option Piece) :
    (g.setPosition p x).player = g.player := by
  unfold setPosition; split <;> rfl

theorem applyMove_moveStack (g : Game) (m : Move) (s0 : GState) :
    (g.applyMove m s0).1.moveStack = g.moveStack := by
  cases m with
  | normal piece start stop captured =>
    simp only [applyMove]
    split
    · simp only [setKingPos_moveStack, setPosition_moveStack]
    · split <;> simp only [setPosition_moveStack]
  | promotion owner t start stop captured =>
    simp only [applyMove, setPosition_moveStack]
  | enPassant owner sc ec =>
    cases owner <;> simp only [applyMove, epSquares, setPosition_moveStack]
  | castlingLong owner =>
    simp only [applyMove, setKingPos_moveStack, setPosition_moveStack]
  | castlingShort owner =>
    simp only [applyMove, setKingPos_moveStack, setPosition_moveStack]

/-- `push` does not touch the record -/
theorem push_moveStack (g : Game) (m : Move) : (g.push m).moveStack = g.moveStack := by
  simp only [push]
  exact applyMove_moveStack g m _

theorem unapplyMove_moveStack (g : Game) (m : Move) :
    (g.unapplyMove m).moveStack = g.moveStack := by
  cases m with
  | normal piece start stop captured =>
    simp only [unapplyMove]
    split <;> simp only [setKingPos_moveStack, setPosition_moveStack]
  | promotion owner t start stop captured =>
    simp only [unapplyMove, setPosition_moveStack]
  | enPassant owner sc ec =>
    cases owner <;> simp only [unapplyMove, epSquares, setPosition_moveStack]
  | castlingLong owner =>
    simp only [unapplyMove, setKingPos_moveStack, setPosition_moveStack]
  | castlingShort owner =>
    simp only [unapplyMove, setKingPos_moveStack, setPosition_moveStack]

/-- `pop` does not touch the record -/
theorem pop_moveStack (g : Game) (m : Move) : (g.pop m).moveStack = g.moveStack := by
  simp only [pop]
  exact unapplyMove_moveStack _ m

theorem updatePhase_moveStack (g : Game) : g.updatePhase.moveStack = g.moveStack := by
  unfold updatePhase
  split
  · simp only [setPosition_moveStack]
  · rfl

/-- `push_history` records exactly the move played, on top -/
theorem pushHistory_moveStack (g : Game) (m : Move) :
    (g.pushHistory m).moveStack = m :: g.moveStack := by
  simp only [pushHistory, push_moveStack, updatePhase_moveStack]

/-- the search's push/pop pair leaves the record alone -/
theorem push_pop_moveStack (g : Game) (m : Move) : ((g.push m).pop m).moveStack = g.moveStack := by
  rw [pop_moveStack, push_moveStack]

end Game

/-- the text of the `i`-th (0-based) entry of the record: the move number before White's
moves, the move's entry, a blank -/
def recordEntry (i : Nat) (m : Move) : List Char :=
  (if i % 2 = 0 then natToChars (i / 2 + 1) ++ ['.', ' '] else []) ++ m.pgn ++ [' ']

/-- the record of a list of moves, oldest first, numbered from index `i` -/
def recordFrom : List Move → Nat → List Char
  | [], _ => []
  | m :: rest, i => recordEntry i m ++ recordFrom rest (i + 1)

theorem pgn_go_eq (ms : List Move) (i : Nat) : Game.pgn.go ms i = recordFrom ms i := by
  induction ms generalizing i with
  | nil => rfl
  | cons m rest ih =>
    simp only [Game.pgn.go, recordFrom, recordEntry, ih, List.append_assoc]

theorem recordFrom_eq_flatMap (ms : List Move) (i : Nat) :
    recordFrom ms i = (ms.zipIdx i).flatMap (fun p => recordEntry p.2 p.1) := by
  induction ms generalizing i with
  | nil => rfl
  | cons m rest ih => simp only [recordFrom, List.zipIdx_cons, List.flatMap_cons, ih]

theorem recordFrom_append (a b : List Move) (i : Nat) :
    recordFrom (a ++ b) i = recordFrom a i ++ recordFrom b (i + a.length) := by
  induction a generalizing i with
  | nil => simp [recordFrom]
  | cons m rest ih =>
    simp only [List.cons_append, recordFrom, ih, List.append_assoc, List.length_cons]
    congr 3; omega

/-- **C20**: the record is the concatenation, oldest move first, of the numbered entries of the
move stack. -/
theorem pgn_record (g : Game) :
    g.pgn = (g.moveStack.reverse.zipIdx).flatMap (fun p => recordEntry p.2 p.1) := by
  simp only [Game.pgn, pgn_go_eq, recordFrom_eq_flatMap]

theorem pgn_eq_recordFrom (g : Game) : g.pgn = recordFrom g.moveStack.reverse 0 := by
  simp only [Game.pgn, pgn_go_eq]

/-- the `k`-th move played appears in the record with its own text, after the entries of the
`k` moves before it and before those of the moves after it -/
theorem pgn_record_nth (g : Game) (k : Nat) (m : Move) (h : g.moveStack.reverse[k]? = some m) :
    g.pgn = recordFrom (g.moveStack.reverse.take k) 0 ++ recordEntry k m
      ++ recordFrom (g.moveStack.reverse.drop (k + 1)) (k + 1) := by
  rw [pgn_eq_recordFrom]
  have hk : k < g.moveStack.reverse.length := by
    rcases Nat.lt_or_ge k g.moveStack.reverse.length with h' | h'
    · exact h'
    · rw [List.getElem?_eq_none h'] at h; cases h
  have hsplit : g.moveStack.reverse
      = g.moveStack.reverse.take k ++ m :: g.moveStack.reverse.drop (k + 1) := by
    have hm : g.moveStack.reverse[k] = m := by
      rw [List.getElem?_eq_getElem hk] at h; exact Option.some.inj h
    rw [← hm, List.getElem_cons_drop, List.take_append_drop]
  have hlen : (g.moveStack.reverse.take k).length = k := by
    rw [List.length_take]; omega
  conv => lhs; rw [hsplit]
  rw [recordFrom_append, hlen]
  simp only [recordFrom, Nat.zero_add, List.append_assoc]

/-- playing a move appends exactly its numbered entry to the record -/
theorem pgn_pushHistory (g : Game) (m : Move) :
    (g.pushHistory m).pgn = g.pgn ++ recordEntry g.moveStack.length m := by
  rw [pgn_eq_recordFrom, pgn_eq_recordFrom, Game.pushHistory_moveStack, List.reverse_cons,
    recordFrom_append]
  simp only [recordFrom, List.length_reverse, Nat.zero_add, List.append_nil]

/-- the search's `push` and `pop` leave the record text unchanged -/
theorem pgn_push (g : Game) (m : Move) : (g.push m).pgn = g.pgn := by
  rw [pgn_eq_recordFrom, pgn_eq_recordFrom, Game.push_moveStack]

theorem pgn_pop (g : Game) (m : Move) : (g.pop m).pgn = g.pgn := by
  rw [pgn_eq_recordFrom, pgn_eq_recordFrom, Game.pop_moveStack]

/-! ## C12.1 — the shape of the UCI text -/

/-- **C12**: the engine's UCI text of every move on the board is the specified one: the two
squares (plus the lower-case letter of the piece promoted to); castling is the king's move. -/
theorem uci_shape (m : Move) (hb : OnBoard m) : Move.uci m = specUci m := by
  cases m with
  | normal pc s e cap =>
    obtain ⟨hs, he⟩ := hb
    simp only [Move.uci, specUci, fileChar_eq_letter hs.2.2.1 hs.2.2.2,
      fileChar_eq_letter he.2.2.1 he.2.2.2, rankChar_eq_digit hs.1 hs.2.1,
      rankChar_eq_digit he.1 he.2.1]
  | promotion o t s e cap =>
    obtain ⟨hs, he⟩ := hb
    simp only [Move.uci, specUci, uciPromo_table, fileChar_eq_letter hs.2.2.1 hs.2.2.2,
      fileChar_eq_letter he.2.2.1 he.2.2.2, rankChar_eq_digit hs.1 hs.2.1,
      rankChar_eq_digit he.1 he.2.1]
  | castlingShort o => cases o <;> rfl
  | castlingLong o => cases o <;> rfl
  | enPassant o sc ec =>
    obtain ⟨h1, h2, h3, h4⟩ := hb
    cases o <;> simp only [Move.uci, specUci, fileChar_eq_letter h1 h2, fileChar_eq_letter h3 h4]

theorem uci_shape_fits {g : Game} {m : Move} (h : g.Fits m) : Move.uci m = specUci m :=
  uci_shape m h.onBoard

theorem uciPromoLetter_inj {t t' : PieceType}
    (h : t = .queen ∨ t = .rook ∨ t = .bishop ∨ t = .knight)
    (h' : t' = .queen ∨ t' = .rook ∨ t' = .bishop ∨ t' = .knight)
    (e : uciPromoLetter t = uciPromoLetter t') : t = t' := by
  rcases h with rfl | rfl | rfl | rfl <;> rcases h' with rfl | rfl | rfl | rfl <;>
    first | rfl | (exact absurd e (by decide))

/-! ## the parser, decoded -/

/-- the promotion letters the parser knows -/
def promoOfLetter (p : Char) : Option PieceType :=
  if p = 'q' then some .queen else if p = 'r' then some .rook
  else if p = 'n' then some .knight else if p = 'b' then some .bishop else none

/-- rows (from, to) of an en-passant capture by the given player -/
def epRows : Player → Int × Int
  | .white => (4, 5)
  | .black => (3, 2)

/-- the parser's test "this four-character text is an en-passant capture" -/
def epShaped (g : Game) (piece : Piece) (start stop : Pos) : Bool :=
  piece.pieceType = .pawn && (g.get stop).isNone && (start.col - stop.col).natAbs = 1
    && start.row = (epRows g.player).1 && stop.row = (epRows g.player).2

/-- what the parser answers once the two squares are read -/
def decodeSquares (g : Game) (start stop : Pos) (rest : List Char) : Option Move :=
  match rest with
  | p :: _ => (promoOfLetter p).map (fun t => Move.promotion g.player t start stop (g.get stop))
  | [] =>
    match g.get start with
    | some piece =>
      if epShaped g piece start stop then some (.enPassant g.player start.col stop.col)
      else some (.normal piece start stop (g.get stop))
    | none => none

/-- the text is one of the four castling texts and the king concerned stands (according to the
cache) on its home square: the parser answers "castling" without looking at the board -/
def CastleText (s : List Char) (g : Game) : Prop :=
  (s = ['e', '1', 'g', '1'] ∧ g.kingPos .white = ⟨0, 4⟩)
  ∨ (s = ['e', '8', 'g', '8'] ∧ g.kingPos .black = ⟨7, 4⟩)
  ∨ (s = ['e', '1', 'c', '1'] ∧ g.kingPos .white = ⟨0, 4⟩)
  ∨ (s = ['e', '8', 'c', '8'] ∧ g.kingPos .black = ⟨7, 4⟩)

theorem fromUci_decode (g : Game) (c0 c1 c2 c3 : Char) (rest : List Char) (start stop : Pos)
    (hc : ¬ CastleText (c0 :: c1 :: c2 :: c3 :: rest) g)
    (hlen : utf8Len (c0 :: c1 :: c2 :: c3 :: rest) ≤ 5)
    (h0 : c0.toNat < 128) (h1 : c1.toNat < 128) (h2 : c2.toNat < 128) (h3 : c3.toNat < 128)
    (hstart : Pos.new? (byteOf c1 - ('1'.toNat : Nat)) (byteOf c0 - ('a'.toNat : Nat)) = some start)
    (hstop : Pos.new? (byteOf c3 - ('1'.toNat : Nat)) (byteOf c2 - ('a'.toNat : Nat)) = some stop) :
    Move.fromUci (c0 :: c1 :: c2 :: c3 :: rest) g = decodeSquares g start stop rest := by
  have e1 : "e1g1".toList = ['e', '1', 'g', '1'] := rfl
  have e2 : "e8g8".toList = ['e', '8', 'g', '8'] := rfl
  have e3 : "e1c1".toList = ['e', '1', 'c', '1'] := rfl
  have e4 : "e8c8".toList = ['e', '8', 'c', '8'] := rfl
  unfold CastleText at hc
  unfold Move.fromUci
  rw [e1, e2, e3, e4]
  rw [if_neg (by simp only [Bool.and_eq_true, decide_eq_true_eq]; exact fun h => hc (.inl h))]
  rw [if_neg (by simp only [Bool.and_eq_true, decide_eq_true_eq]; exact fun h => hc (.inr (.inl h)))]
  rw [if_neg (by simp only [Bool.and_eq_true, decide_eq_true_eq]; exact fun h => hc (.inr (.inr (.inl h))))]
  rw [if_neg (by simp only [Bool.and_eq_true, decide_eq_true_eq]; exact fun h => hc (.inr (.inr (.inr h))))]
  rw [if_neg (by omega)]
  simp only
  rw [if_neg (by simp only [Bool.or_eq_true, decide_eq_true_eq]; omega)]
  simp only [hstart, hstop]
  unfold decodeSquares
  cases rest with
  | cons p tl => simp only [promoOfLetter]
  | nil =>
    simp only
    cases hg : g.get start with
    | none => rfl
    | some piece =>
      simp only [epShaped, epRows]
      rfl

/-! ### characters of squares -/

theorem fileChar_toNat {c : Int} (h0 : 0 ≤ c) (h8 : c < 8) : (fileChar c).toNat = 97 + c.toNat := by
  obtain rfl | rfl | rfl | rfl | rfl | rfl | rfl | rfl := int_lt8_cases h0 h8 <;> decide

theorem rankChar_toNat {r : Int} (h0 : 0 ≤ r) (h8 : r < 8) : (rankChar r).toNat = 49 + r.toNat := by
  obtain rfl | rfl | rfl | rfl | rfl | rfl | rfl | rfl := int_lt8_cases h0 h8 <;> decide

theorem byteOf_fileChar {c : Int} (h0 : 0 ≤ c) (h8 : c < 8) :
    byteOf (fileChar c) - ('a'.toNat : Nat) = c := by
  obtain rfl | rfl | rfl | rfl | rfl | rfl | rfl | rfl := int_lt8_cases h0 h8 <;> decide

theorem byteOf_rankChar {r : Int} (h0 : 0 ≤ r) (h8 : r < 8) :
    byteOf (rankChar r) - ('1'.toNat : Nat) = r := by
  obtain rfl | rfl | rfl | rfl | rfl | rfl | rfl | rfl := int_lt8_cases h0 h8 <;> decide

theorem fileChar_size {c : Int} (h0 : 0 ≤ c) (h8 : c < 8) : (fileChar c).utf8Size = 1 := by
  obtain rfl | rfl | rfl | rfl | rfl | rfl | rfl | rfl := int_lt8_cases h0 h8 <;> decide

theorem rankChar_size {r : Int} (h0 : 0 ≤ r) (h8 : r < 8) : (rankChar r).utf8Size = 1 := by
  obtain rfl | rfl | rfl | rfl | rfl | rfl | rfl | rfl := int_lt8_cases h0 h8 <;> decide

/-- an ASCII byte that reads as a column is the file character of that column -/
theorem fileChar_of_byte {c : Char} (h : c.toNat < 128) (h0 : 0 ≤ byteOf c - ('a'.toNat : Nat)) :
    fileChar (byteOf c - ('a'.toNat : Nat)) = c := by
  have ha : 'a'.toNat = 97 := by decide
  unfold byteOf at *
  rw [if_pos h] at h0 ⊢
  unfold fileChar
  rw [ha] at h0 ⊢
  have : 97 + ((c.toNat : Int) - ((97 : Nat) : Int)).toNat = c.toNat := by omega
  rw [this, Char.ofNat_toNat]

theorem rankChar_of_byte {c : Char} (h : c.toNat < 128) (h0 : 0 ≤ byteOf c - ('1'.toNat : Nat)) :
    rankChar (byteOf c - ('1'.toNat : Nat)) = c := by
  have ha : '1'.toNat = 49 := by decide
  unfold byteOf at *
  rw [if_pos h] at h0 ⊢
  unfold rankChar
  rw [ha] at h0 ⊢
  have : 49 + ((c.toNat : Int) - ((49 : Nat) : Int)).toNat = c.toNat := by omega
  rw [this, Char.ofNat_toNat]

/-- the four characters of two squares -/
def squaresText (a b : Pos) : List Char :=
  [fileChar a.col, rankChar a.row, fileChar b.col, rankChar b.row]

/-- two squares on the board are determined by their four characters -/
theorem squaresText_eq {a b : Pos} (ha : a.Valid) (hb : b.Valid) {x0 x1 x2 x3 : Char}
    (h : squaresText a b = [x0, x1, x2, x3]) :
    a = ⟨(x1.toNat : Int) - 49, (x0.toNat : Int) - 97⟩ ∧
    b = ⟨(x3.toNat : Int) - 49, (x2.toNat : Int) - 97⟩ := by
  obtain ⟨a1, a2, a3, a4⟩ := ha
  obtain ⟨b1, b2, b3, b4⟩ := hb
  simp only [squaresText, List.cons.injEq, and_true] at h
  obtain ⟨h0, h1, h2, h3⟩ := h
  have e0 := fileChar_toNat a3 a4
  have e1 := rankChar_toNat a1 a2
  have e2 := fileChar_toNat b3 b4
  have e3 := rankChar_toNat b1 b2
  rw [h0] at e0; rw [h1] at e1; rw [h2] at e2; rw [h3] at e3
  obtain ⟨ar, ac⟩ := a
  obtain ⟨br, bc⟩ := b
  simp only [Pos.mk.injEq] at *
  omega

theorem utf8Len_cons (c : Char) (l : List Char) : utf8Len (c :: l) = c.utf8Size + utf8Len l := by
  simp only [utf8Len, List.map_cons, List.sum_cons]

theorem utf8Len_nil : utf8Len [] = 0 := rfl

theorem length_le_utf8Len (l : List Char) : l.length ≤ utf8Len l := by
  induction l with
  | nil => exact Nat.le_refl _
  | cons c l ih =>
    rw [utf8Len_cons, List.length_cons]
    have := Char.utf8Size_pos c
    omega

/-- the parser on the text of two squares of the board -/
theorem fromUci_squares (g : Game) {a b : Pos} (ha : a.Valid) (hb : b.Valid) (rest : List Char)
    (hrest : utf8Len rest ≤ 1) (hc : ¬ CastleText (squaresText a b ++ rest) g) :
    Move.fromUci (squaresText a b ++ rest) g = decodeSquares g a b rest := by
  obtain ⟨a1, a2, a3, a4⟩ := ha
  obtain ⟨b1, b2, b3, b4⟩ := hb
  have t0 := fileChar_toNat a3 a4
  have t1 := rankChar_toNat a1 a2
  have t2 := fileChar_toNat b3 b4
  have t3 := rankChar_toNat b1 b2
  have hnew : ∀ p : Pos, 0 ≤ p.row → p.row < 8 → 0 ≤ p.col → p.col < 8 →
      Pos.new? p.row p.col = some p := by
    intro p h1 h2 h3 h4
    simp [Pos.new?, Pos.inBoard, h1, h2, h3, h4]
  refine fromUci_decode g _ _ _ _ rest a b hc ?_ (by omega) (by omega) (by omega) (by omega) ?_ ?_
  · simp only [utf8Len_cons, fileChar_size a3 a4,
      rankChar_size a1 a2, fileChar_size b3 b4, rankChar_size b1 b2]
    omega
  · rw [byteOf_fileChar a3 a4, byteOf_rankChar a1 a2]; exact hnew a a1 a2 a3 a4
  · rw [byteOf_fileChar b3 b4, byteOf_rankChar b1 b2]; exact hnew b b1 b2 b3 b4

/-! ## C12.2 — what the generator guarantees beyond `Fits`, and the round trip -/

/-- The side conditions, beyond `Game.Fits`, under which the text of a move is read back as that
move.  Every clause is something the move generator of `Game.lean` guarantees:

* `normal`, clause 1 — a `normal` move is not shaped like an en-passant capture: a pawn that
  changes file by one between the en-passant rows of the side to move lands on an occupied
  square.  (`pawnMoves`: the only `normal` pawn moves that change file come from `caps`, which
  requires `g.get q = some other`; `dbl` and `fwd` keep the file.)
* `normal`, clauses 2, 3 — a `normal` move is not `e1→g1/c1` (`e8→g8/c8`) while the white
  (black) king stands, according to the cache, on e1 (e8).  (The piece on the cached king square
  of the side to move is its king — `pseudoMoves` checks `kingExists` — and `kingMoves` emits
  `normal` moves only for the eight `kingDeltas`, which change the file by at most one; a piece
  of the side to move cannot stand on the other king's square while that king exists.)
* `promotion` — the owner is the side to move (`pawnMoves` builds `Move.promotion g.player …`)
  and the new piece is one of `promoPieces = [queen, rook, bishop, knight]`.
* `enPassant` — the owner is the side to move and the files are adjacent (`pawnMoves`:
  `Move.enPassant g.player p.col ep` under `(ep - p.col).natAbs = 1`).
* castling — nothing beyond `Fits` (which has `g.kingPos owner = ⟨homeRow owner, 4⟩`). -/
def GenShape (g : Game) : Move → Prop
  | .normal pc s e cap =>
    (pc.pieceType = .pawn → (s.col - e.col).natAbs = 1 → s.row = (epRows g.player).1 →
        e.row = (epRows g.player).2 → cap.isSome)
    ∧ (g.kingPos .white = ⟨0, 4⟩ → s = ⟨0, 4⟩ → e ≠ ⟨0, 6⟩ ∧ e ≠ ⟨0, 2⟩)
    ∧ (g.kingPos .black = ⟨7, 4⟩ → s = ⟨7, 4⟩ → e ≠ ⟨7, 6⟩ ∧ e ≠ ⟨7, 2⟩)
  | .promotion o t _ _ _ => o = g.player ∧ (t = .queen ∨ t = .rook ∨ t = .bishop ∨ t = .knight)
  | .enPassant o sc ec => o = g.player ∧ (sc - ec).natAbs = 1
  | .castlingShort _ => True
  | .castlingLong _ => True

theorem GenShape.promoOk {g : Game} {m : Move} (h : GenShape g m) : PromoOk m := by
  cases m <;> simp only [GenShape, PromoOk] at * <;> first | trivial | exact h.2

/-- the same clauses 2, 3 in terms of the text, as the parser sees them -/
theorem not_castleText_normal {g : Game} {pc : Piece} {s e : Pos} {cap : Option Piece}
    (hs : s.Valid) (he : e.Valid) (h : GenShape g (.normal pc s e cap)) :
    ¬ CastleText (squaresText s e ++ []) g := by
  obtain ⟨_, hw, hb⟩ := h
  rw [List.append_nil]
  rintro (⟨ht, hk⟩ | ⟨ht, hk⟩ | ⟨ht, hk⟩ | ⟨ht, hk⟩)
  · obtain ⟨rfl, rfl⟩ := squaresText_eq hs he ht
    exact (hw hk (by decide)).1 (by decide)
  · obtain ⟨rfl, rfl⟩ := squaresText_eq hs he ht
    exact (hb hk (by decide)).1 (by decide)
  · obtain ⟨rfl, rfl⟩ := squaresText_eq hs he ht
    exact (hw hk (by decide)).2 (by decide)
  · obtain ⟨rfl, rfl⟩ := squaresText_eq hs he ht
    exact (hb hk (by decide)).2 (by decide)

theorem promoOfLetter_uci {t : PieceType}
    (h : t = .queen ∨ t = .rook ∨ t = .bishop ∨ t = .knight) :
    promoOfLetter (uciPromoLetter t) = some t ∧ (uciPromoLetter t).utf8Size = 1 := by
  rcases h with rfl | rfl | rfl | rfl <;> decide

theorem uciPromoLetter_of_parse {p : Char} {t : PieceType} (h : promoOfLetter p = some t) :
    uciPromoLetter t = p ∧ (t = .queen ∨ t = .rook ∨ t = .bishop ∨ t = .knight) := by
  unfold promoOfLetter at h
  split at h
  · cases h; subst p; exact ⟨rfl, .inl rfl⟩
  · split at h
    · cases h; subst p; exact ⟨rfl, .inr (.inl rfl)⟩
    · split at h
      · cases h; subst p; exact ⟨rfl, .inr (.inr (.inr rfl))⟩
      · split at h
        · cases h; subst p; exact ⟨rfl, .inr (.inr (.inl rfl))⟩
        · cases h

theorem castling_texts :
    "e1g1".toList = ['e', '1', 'g', '1'] ∧ "e8g8".toList = ['e', '8', 'g', '8'] ∧
    "e1c1".toList = ['e', '1', 'c', '1'] ∧ "e8c8".toList = ['e', '8', 'c', '8'] :=
  ⟨rfl, rfl, rfl, rfl⟩

/-- the parser on a castling text while the king concerned is (cached) on its home square -/
theorem fromUci_castle (g : Game) :
    (g.kingPos .white = ⟨0, 4⟩ →
      Move.fromUci ['e', '1', 'g', '1'] g = some (.castlingShort .white) ∧
      Move.fromUci ['e', '1', 'c', '1'] g = some (.castlingLong .white)) ∧
    (g.kingPos .black = ⟨7, 4⟩ →
      Move.fromUci ['e', '8', 'g', '8'] g = some (.castlingShort .black) ∧
      Move.fromUci ['e', '8', 'c', '8'] g = some (.castlingLong .black)) := by
  obtain ⟨e1, e2, e3, e4⟩ := castling_texts
  refine ⟨fun hk => ⟨?_, ?_⟩, fun hk => ⟨?_, ?_⟩⟩ <;>
    (unfold Move.fromUci; rw [e1, e2, e3, e4]; simp [hk])

/-- **C12**: the text of a generated move is read back as that move. -/
theorem uci_roundtrip {g : Game} {m : Move} (hf : g.Fits m) (hg : GenShape g m) :
    Move.fromUci m.uci g = some m := by
  cases m with
  | normal pc s e cap =>
    obtain ⟨hs, he, _, hgs, hge, _⟩ := hf
    have hc := not_castleText_normal hs he hg
    have := fromUci_squares g hs he [] (by decide) hc
    rw [List.append_nil] at this
    show Move.fromUci (squaresText s e) g = _
    rw [this]
    simp only [decodeSquares, hgs]
    have hep : epShaped g pc s e = false := by
      cases hE : epShaped g pc s e with
      | false => rfl
      | true =>
        simp only [epShaped, Bool.and_eq_true, decide_eq_true_eq] at hE
        obtain ⟨⟨⟨⟨h1, h2⟩, h3⟩, h4⟩, h5⟩ := hE
        have := hg.1 h1 h3 h4 h5
        rw [hge] at h2
        cases cap <;> simp at this h2
    rw [hep, hge]
    rfl
  | promotion o t s e cap =>
    obtain ⟨hs, he, _, hgs, hge⟩ := hf
    obtain ⟨rfl, ht⟩ := hg
    obtain ⟨hp, hsz⟩ := promoOfLetter_uci ht
    have hc : ¬ CastleText (squaresText s e ++ [uciPromoLetter t]) g := by
      rintro (⟨ht, _⟩ | ⟨ht, _⟩ | ⟨ht, _⟩ | ⟨ht, _⟩) <;> simp [squaresText] at ht
    have := fromUci_squares g hs he [uciPromoLetter t]
      (by rw [utf8Len_cons, utf8Len_nil, hsz]; exact Nat.le_refl _) hc
    have hu : Move.uci (.promotion g.player t s e cap) = squaresText s e ++ [uciPromoLetter t] := by
      simp only [Move.uci, uciPromo_table, squaresText, List.cons_append, List.nil_append]
    rw [hu, this]
    simp only [decodeSquares, hp, Option.map_some, hge]
  | castlingShort o =>
    obtain ⟨_, hk, _⟩ := hf
    cases o
    · exact ((fromUci_castle g).1 hk).1
    · exact ((fromUci_castle g).2 hk).1
  | castlingLong o =>
    obtain ⟨_, hk, _⟩ := hf
    cases o
    · exact ((fromUci_castle g).1 hk).2
    · exact ((fromUci_castle g).2 hk).2
  | enPassant o sc ec =>
    obtain ⟨h1, h2, h3, h4, _, hp, hn, _⟩ := hf
    obtain ⟨rfl, hadj⟩ := hg
    cases hpl : g.player with
    | white =>
      rw [hpl] at hp hn
      simp only [Game.epSquares] at hp hn
      have hu : Move.uci (.enPassant .white sc ec) = squaresText ⟨4, sc⟩ ⟨5, ec⟩ ++ [] := rfl
      have va : Pos.Valid ⟨4, sc⟩ := ⟨by simp, by simp, h1, h2⟩
      have vb : Pos.Valid ⟨5, ec⟩ := ⟨by simp, by simp, h3, h4⟩
      have hc : ¬ CastleText (squaresText ⟨4, sc⟩ ⟨5, ec⟩ ++ []) g := by
        rintro (⟨ht, _⟩ | ⟨ht, _⟩ | ⟨ht, _⟩ | ⟨ht, _⟩) <;>
          exact absurd (congrArg Pos.row (squaresText_eq va vb ht).1) (by dsimp only; decide)
      rw [hu, fromUci_squares g va vb [] (by decide) hc]
      simp [decodeSquares, hp, epShaped, hn, hadj, hpl, epRows]
    | black =>
      rw [hpl] at hp hn
      simp only [Game.epSquares] at hp hn
      have hu : Move.uci (.enPassant .black sc ec) = squaresText ⟨3, sc⟩ ⟨2, ec⟩ ++ [] := rfl
      have va : Pos.Valid ⟨3, sc⟩ := ⟨by simp, by simp, h1, h2⟩
      have vb : Pos.Valid ⟨2, ec⟩ := ⟨by simp, by simp, h3, h4⟩
      have hc : ¬ CastleText (squaresText ⟨3, sc⟩ ⟨2, ec⟩ ++ []) g := by
        rintro (⟨ht, _⟩ | ⟨ht, _⟩ | ⟨ht, _⟩ | ⟨ht, _⟩) <;>
          exact absurd (congrArg Pos.row (squaresText_eq va vb ht).1) (by dsimp only; decide)
      rw [hu, fromUci_squares g va vb [] (by decide) hc]
      simp [decodeSquares, hp, epShaped, hn, hadj, hpl, epRows]

/-! ## C12.3 — a text is accepted only as the text of the move it yields -/

/-- what an accepted non-castling text looks like -/
theorem fromUci_shape {s : List Char} {g : Game} {m : Move} (hc : ¬ CastleText s g)
    (h : Move.fromUci s g = some m) :
    ∃ c0 c1 c2 c3 rest start stop, s = c0 :: c1 :: c2 :: c3 :: rest ∧ utf8Len s ≤ 5
      ∧ c0.toNat < 128 ∧ c1.toNat < 128 ∧ c2.toNat < 128 ∧ c3.toNat < 128
      ∧ Pos.new? (byteOf c1 - ('1'.toNat : Nat)) (byteOf c0 - ('a'.toNat : Nat)) = some start
      ∧ Pos.new? (byteOf c3 - ('1'.toNat : Nat)) (byteOf c2 - ('a'.toNat : Nat)) = some stop := by
  obtain ⟨e1, e2, e3, e4⟩ := castling_texts
  unfold CastleText at hc
  unfold Move.fromUci at h
  rw [e1, e2, e3, e4] at h
  rw [if_neg (by simp only [Bool.and_eq_true, decide_eq_true_eq]; exact fun h => hc (.inl h))] at h
  rw [if_neg (by simp only [Bool.and_eq_true, decide_eq_true_eq]; exact fun h => hc (.inr (.inl h)))] at h
  rw [if_neg (by simp only [Bool.and_eq_true, decide_eq_true_eq]; exact fun h => hc (.inr (.inr (.inl h))))] at h
  rw [if_neg (by simp only [Bool.and_eq_true, decide_eq_true_eq]; exact fun h => hc (.inr (.inr (.inr h))))] at h
  split at h
  · cases h
  · rename_i hlen
    split at h
    · rename_i c0 c1 c2 c3 rest
      split at h
      · cases h
      · rename_i hascii
        simp only [Bool.or_eq_true, decide_eq_true_eq] at hascii
        simp only at h
        split at h
        · rename_i start stop hstart hstop
          exact ⟨c0, c1, c2, c3, rest, start, stop, rfl, by omega, by omega, by omega, by omega,
            by omega, hstart, hstop⟩
        · cases h
    · cases h

/-- **C12**: whatever the parser answers, the text it was given is the text of that answer;
so a string is accepted for a move only if it is that move's text.  No side condition. -/
theorem fromUci_text {s : List Char} {g : Game} {m : Move} (h : Move.fromUci s g = some m) :
    m.uci = s := by
  by_cases hc : CastleText s g
  · rcases hc with ⟨rfl, hk⟩ | ⟨rfl, hk⟩ | ⟨rfl, hk⟩ | ⟨rfl, hk⟩
    · rw [((fromUci_castle g).1 hk).1] at h; cases h; rfl
    · rw [((fromUci_castle g).2 hk).1] at h; cases h; rfl
    · rw [((fromUci_castle g).1 hk).2] at h; cases h; rfl
    · rw [((fromUci_castle g).2 hk).2] at h; cases h; rfl
  · obtain ⟨c0, c1, c2, c3, rest, start, stop, rfl, hlen, h0, h1, h2, h3, hstart, hstop⟩ :=
      fromUci_shape hc h
    rw [fromUci_decode g c0 c1 c2 c3 rest start stop hc hlen h0 h1 h2 h3 hstart hstop] at h
    obtain ⟨vs, rfl⟩ := Pos.new?_valid hstart
    obtain ⟨ve, rfl⟩ := Pos.new?_valid hstop
    have f0 := fileChar_of_byte h0 vs.2.2.1
    have f1 := rankChar_of_byte h1 vs.1
    have f2 := fileChar_of_byte h2 ve.2.2.1
    have f3 := rankChar_of_byte h3 ve.1
    cases rest with
    | cons p tl =>
      have htl : tl = [] := by
        have := length_le_utf8Len (c0 :: c1 :: c2 :: c3 :: p :: tl)
        cases tl with
        | nil => rfl
        | cons x xs => simp only [List.length_cons] at this; omega
      subst htl
      simp only [decodeSquares] at h
      cases hp : promoOfLetter p with
      | none => rw [hp] at h; cases h
      | some t =>
        rw [hp] at h
        simp only [Option.map_some, Option.some.injEq] at h
        subst h
        obtain ⟨hl, _⟩ := uciPromoLetter_of_parse hp
        simp only [Move.uci, uciPromo_table, f0, f1, f2, f3, hl]
    | nil =>
      simp only [decodeSquares] at h
      split at h
      · rename_i piece hgs
        split at h
        · rename_i hep
          cases h
          simp only [epShaped, Bool.and_eq_true, decide_eq_true_eq] at hep
          obtain ⟨⟨⟨_, _⟩, hr1⟩, hr2⟩ := hep
          cases hpl : g.player with
          | white =>
            rw [hpl] at hr1 hr2
            simp only [epRows] at hr1 hr2
            rw [hr1] at f1; rw [hr2] at f3
            simp only [Move.uci, f0, f2, ← f1, ← f3]
            rfl
          | black =>
            rw [hpl] at hr1 hr2
            simp only [epRows] at hr1 hr2
            rw [hr1] at f1; rw [hr2] at f3
            simp only [Move.uci, f0, f2, ← f1, ← f3]
            rfl
        · cases h
          simp only [Move.uci, f0, f1, f2, f3]
      · cases h

/-- for a generated move: a text is accepted as that move iff it is the move's text -/
theorem fromUci_eq_some_iff {g : Game} {m : Move} (hf : g.Fits m) (hg : GenShape g m)
    (s : List Char) : Move.fromUci s g = some m ↔ s = m.uci :=
  ⟨fun h => (fromUci_text h).symm, fun h => h ▸ uci_roundtrip hf hg⟩

/-! ## C12.4 — distinct generated moves have distinct texts -/

theorem uci_injective_on_fits {g : Game} {m₁ m₂ : Move} (hf₁ : g.Fits m₁) (hg₁ : GenShape g m₁)
    (hf₂ : g.Fits m₂) (hg₂ : GenShape g m₂) (h : m₁.uci = m₂.uci) : m₁ = m₂ := by
  have h1 := uci_roundtrip hf₁ hg₁
  have h2 := uci_roundtrip hf₂ hg₂
  rw [h, h2] at h1
  exact (Option.some.inj h1).symm

/-! ## non-vacuity -/

section Examples

/-! ### the two specifications on concrete moves -/

example : specPgn (.normal ⟨.knight, .white⟩ ⟨0, 6⟩ ⟨2, 5⟩ none) = "Ngf3".toList := by decide
example : specPgn (.normal ⟨.pawn, .white⟩ ⟨1, 4⟩ ⟨3, 4⟩ none) = "ee4".toList := by decide
example : specPgn (.normal ⟨.bishop, .black⟩ ⟨7, 2⟩ ⟨3, 6⟩ (some ⟨.knight, .white⟩)) = "Bcxg4".toList := by
  decide
example : specPgn (.promotion .white .bishop ⟨6, 0⟩ ⟨7, 1⟩ (some ⟨.rook, .black⟩)) = "axb8=B".toList := by
  decide
example : specPgn (.promotion .black .knight ⟨1, 7⟩ ⟨0, 7⟩ none) = "hh1=N".toList := by decide
example : specPgn (.enPassant .white 4 3) = "exd6".toList := by decide
example : specPgn (.enPassant .black 2 3) = "cxd3".toList := by decide
example : specPgn (.castlingLong .black) = "O-O-O".toList := by decide
example : specUci (.normal ⟨.knight, .white⟩ ⟨0, 6⟩ ⟨2, 5⟩ none) = "g1f3".toList := by decide
example : specUci (.promotion .white .bishop ⟨6, 0⟩ ⟨7, 1⟩ (some ⟨.rook, .black⟩)) = "a7b8b".toList := by
  decide
example : specUci (.enPassant .black 2 3) = "c4d3".toList := by decide
example : specUci (.castlingLong .black) = "e8c8".toList := by decide

/-! ### the engine's functions on the same moves (through the generated tables) -/

example : Move.pgn (.promotion .white .bishop ⟨6, 0⟩ ⟨7, 1⟩ (some ⟨.rook, .black⟩)) = "axb8=B".toList := by
  decide
example : Move.pgn (.promotion .white .knight ⟨6, 0⟩ ⟨7, 0⟩ none) = "aa8=N".toList := by decide
example : Move.uci (.promotion .white .rook ⟨6, 0⟩ ⟨7, 1⟩ (some ⟨.rook, .black⟩)) = "a7b8r".toList := by
  decide
example : Move.pgn (.normal ⟨.king, .black⟩ ⟨7, 4⟩ ⟨6, 4⟩ none) = "Kee7".toList := by decide

/-- the hypothesis `OnBoard` of `pgn_entry_spec` cannot be dropped: off the board the engine
prints whatever character follows, the specification prints `?` -/
example : Move.pgn (.normal ⟨.rook, .white⟩ ⟨0, 9⟩ ⟨0, 0⟩ none) ≠
    specPgn (.normal ⟨.rook, .white⟩ ⟨0, 9⟩ ⟨0, 0⟩ none) := by decide

/-! ### a hand-built game -/

/-- white: Ke1 Rh1 pawns e2 a7 e5; black: Ke8 Rb8 pawn d5; White to move -/
def demoBoard : Vector (Option Piece) 64 :=
  ((((((((Vector.replicate 64 none).set 4 (some ⟨.king, .white⟩)).set 7 (some ⟨.rook, .white⟩)).set 12
    (some ⟨.pawn, .white⟩)).set 48 (some ⟨.pawn, .white⟩)).set 36 (some ⟨.pawn, .white⟩)).set 60
    (some ⟨.king, .black⟩)).set 57 (some ⟨.rook, .black⟩)).set 35 (some ⟨.pawn, .black⟩)

def demo : Game :=
  { score := 0, player := .white, endgame := false, hash := 0, board := demoBoard,
    pastScores := Vector.replicate 64 0, pastHashes := Vector.replicate 64 0,
    wking := ⟨0, 4⟩, bking := ⟨7, 4⟩, state := [GState.default],
    moveStack := [.normal ⟨.knight, .white⟩ ⟨0, 6⟩ ⟨2, 5⟩ none,
                  .normal ⟨.pawn, .black⟩ ⟨6, 4⟩ ⟨4, 4⟩ none,
                  .normal ⟨.pawn, .white⟩ ⟨1, 4⟩ ⟨3, 4⟩ none] }

example : demo.pgn = "1. ee4 ee5 2. Ngf3 ".toList := by decide

def mPawn : Move := .normal ⟨.pawn, .white⟩ ⟨1, 4⟩ ⟨3, 4⟩ none
def mPromo : Move := .promotion .white .knight ⟨6, 0⟩ ⟨7, 1⟩ (some ⟨.rook, .black⟩)
def mEp : Move := .enPassant .white 4 3
def mCastle : Move := .castlingShort .white

example : demo.Fits mPawn ∧ GenShape demo mPawn := by
  unfold mPawn Game.Fits GenShape; decide
example : demo.Fits mPromo ∧ GenShape demo mPromo := by
  unfold mPromo Game.Fits GenShape; decide
example : demo.Fits mEp ∧ GenShape demo mEp := by
  unfold mEp Game.Fits GenShape; decide
example : demo.Fits mCastle ∧ GenShape demo mCastle := by
  unfold mCastle Game.Fits GenShape; decide

/-- the round trip, computed -/
example : Move.fromUci "e2e4".toList demo = some mPawn := by decide
example : Move.fromUci "a7b8n".toList demo = some mPromo := by decide
example : Move.fromUci "e5d6".toList demo = some mEp := by decide
example : Move.fromUci "e1g1".toList demo = some mCastle := by decide
example : Move.fromUci "e2e9".toList demo = none := by decide
example : Move.fromUci "a7b8k".toList demo = none := by decide
example : Move.fromUci "é2e4".toList demo = none := by decide

/-! ### `Fits` alone does not suffice: every clause of `GenShape` is needed -/

/-- a king's `normal` move e1→g1 fits structurally, but its text is read as castling -/
example : demo.Fits (.normal ⟨.king, .white⟩ ⟨0, 4⟩ ⟨0, 6⟩ none) ∧
    Move.fromUci (Move.uci (.normal ⟨.king, .white⟩ ⟨0, 4⟩ ⟨0, 6⟩ none)) demo
      = some (.castlingShort .white) := by
  unfold Game.Fits; decide

/-- a pawn's `normal` move e5→d6 onto the empty square fits, but is read as en passant -/
example : demo.Fits (.normal ⟨.pawn, .white⟩ ⟨4, 4⟩ ⟨5, 3⟩ none) ∧
    Move.fromUci (Move.uci (.normal ⟨.pawn, .white⟩ ⟨4, 4⟩ ⟨5, 3⟩ none)) demo
      = some (.enPassant .white 4 3) := by
  unfold Game.Fits; decide

/-- a promotion to king fits, but its text `a7b8?` is refused -/
example : demo.Fits (.promotion .white .king ⟨6, 0⟩ ⟨7, 1⟩ (some ⟨.rook, .black⟩)) ∧
    Move.fromUci (Move.uci (.promotion .white .king ⟨6, 0⟩ ⟨7, 1⟩ (some ⟨.rook, .black⟩))) demo
      = none := by
  unfold Game.Fits; decide

end Examples

end Chess

#print axioms Chess.pgn_entry_spec
#print axioms Chess.pgn_entry_spec_fits
#print axioms Chess.pgnPromoLetter_inj
#print axioms Chess.Game.pushHistory_moveStack
#print axioms Chess.Game.push_moveStack
#print axioms Chess.Game.pop_moveStack
#print axioms Chess.pgn_record
#print axioms Chess.pgn_record_nth
#print axioms Chess.pgn_pushHistory
#print axioms Chess.pgn_push
#print axioms Chess.pgn_pop
#print axioms Chess.uci_shape
#print axioms Chess.fromUci_decode
#print axioms Chess.fromUci_squares
#print axioms Chess.uci_roundtrip
#print axioms Chess.fromUci_text
#print axioms Chess.fromUci_eq_some_iff
#print axioms Chess.uci_injective_on_fits
