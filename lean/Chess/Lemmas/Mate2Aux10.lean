import Chess.Lemmas.Mate2Aux9
import Chess.Lemmas.Mate2Aux6

/-!
# Mate in two with the table switched off: the root search and the driver — every game
-/
namespace Chess.Search.Mate2
open Chess.Search Chess.Search.Mate

variable {G M : Type} [DecidableEq M]

/-- **The root search with the table off**, in every game: it answers; a score above `evalBound`
comes with a move after which the opponent is lost as seen with `remc` plies left; the score is at
least `-evalBound` if some kept move does not lead to a position won for the opponent; it is above
`evalBound` if some kept move leads to a position lost for the opponent. -/
theorem rootSearch_off (o : Ops G M) (hb : Bounded o) {runs : Nat → Bool}
    (hr : ∀ i, runs i = true) (g : G) (remc : Nat) (hd2 : remc + 1 ≤ 500) (st : St M)
    (hQ : OffOk remc st) (hl : (o.checked g).length ≠ 1) :
    ∃ bm bs st', rootSearch o runs g (remc + 1) st = some ((bm, bs, false), st') ∧
      OffOk (remc + 1) st' ∧
      (bs ≤ evalBound ∨ ∃ m, bm = some m ∧ m ∈ o.checked g ∧ LoseP o remc (o.push g m)) ∧
      ((∃ m ∈ rootMoves o g, ¬ WinP o remc (o.push g m)) → -evalBound ≤ bs) ∧
      ((∃ m ∈ rootMoves o g, LoseP o remc (o.push g m)) → evalBound < bs) ∧
      (bs < -evalBound → ∀ m ∈ rootMoves o g, WinP o remc (o.push g m)) := by
  rw [rootSearch_eq, if_neg hl]
  have hQr : OffOk remc (rootSt st) := ⟨hQ.1, hQ.2⟩
  have hmiss : rootHit (ttGet (rootSt st) (o.hash g)) (remc + 1) = none := by
    apply rootHit_none_of_miss
    intro e he h
    have := hQr.2 _ e he
    omega
  rw [hmiss]
  simp only []
  have hQ0 : OffOk (remc + 1) (rootSt st) := hQr.mono (by omega)
  have hmem : ∀ m, m ∈ rootSorted o g (rootSt st) ↔ m ∈ rootMoves o g :=
    fun m => mem_sortMoves _ _ m
  have hch : ∀ m ∈ rootSorted o g (rootSt st), m ∈ o.checked g ∧
      ChildOff o (remc + 1) (node o runs (remc + 1 - 1)) remc (o.push g m) 1 := by
    intro m hm
    exact ⟨mem_rootSorted hm, node_off o hb (remc + 1) hr remc (o.push g m) 1
      (by omega) (by omega) (by omega)⟩
  let cr : Prop := ∃ m ∈ rootMoves o g, LoseP o remc (o.push g m)
  have hI0 : ROff o cr remc g True
      (∃ m ∈ rootSorted o g (rootSt st), LoseP o remc (o.push g m)) True (scoreMin + 1) none := by
    refine ⟨Int.le_refl _, by decide, Or.inl trivial, Or.inl (by decide), Or.inl trivial,
      fun k => Or.inl ?_⟩
    obtain ⟨m, hm, hL⟩ := k
    exact ⟨m, (hmem m).2 hm, hL⟩
  obtain ⟨bs, bm, st2, k1, k2, k3⟩ := rootLoop_off o cr (remc + 1)
    (node o runs (remc + 1 - 1)) g remc (rootSorted o g (rootSt st)) hch 0
    (scoreMin + 1) none (rootSt st) True True (fun _ => rfl) hQ0 hI0
  rw [k1]
  have hallwin : (True ∧ ∀ m ∈ rootSorted o g (rootSt st), WinP o remc (o.push g m)) →
      ∀ m ∈ rootMoves o g, WinP o remc (o.push g m) := fun k m hm => k.2 m ((hmem m).2 hm)
  refine ⟨bm, bs, _, rfl, k2.rootStore _ _ _ (Nat.le_refl _), k3.good, ?_, ?_, ?_⟩
  · rintro ⟨m, hm, hW⟩
    rcases k3.low with k | k
    · exact absurd (hallwin k m hm) hW
    · exact k
  · intro h
    rcases k3.cmp h with k | k
    · exact k.elim
    · exact k
  · intro hb'
    rcases k3.low with k | k
    · exact hallwin k
    · omega

/-- the only legal move, when some kept move keeps the mate -/
theorem only_move_off {o : Ops G M} {g : G} {m1 : M} (hk : m1 ∈ rootMoves o g)
    (hl : (o.checked g).length = 1) : (o.checked g).head? = some m1 := by
  have hm := mem_rootMoves hk
  cases h : o.checked g with
  | nil => rw [h] at hl; cases hl
  | cons a l =>
    cases l with
    | nil =>
      rw [h] at hm
      rw [List.mem_singleton.1 hm]
      rfl
    | cons b l => rw [h] at hl; simp at hl

/-- the iterations `remc + 1, …, 5` of the driver with the table off -/
theorem driverLoop_off (o : Ops G M) (hb : Bounded o) (g : G) (m1 : M)
    (hk : m1 ∈ rootMoves o g) (h2 : LoseP o 4 (o.push g m1)) (runs : Nat → Bool)
    (hr : ∀ i, runs i = true) (limit : Nat) (hlim : 5 ≤ limit) :
    ∀ (k remc : Nat), remc + 1 + k = 5 →
      ∀ (fuel : Nat) (found : Option M) (infos : List (Info M)) (st : St M), k + 1 ≤ fuel →
        OffOk remc st → (∀ i ∈ infos, i.depth ≤ 5) →
        ∃ m, (driverLoop o runs g limit fuel (remc + 1) found infos st).found = some m ∧
          KeepsMate o g m ∧
          (driverLoop o runs g limit fuel (remc + 1) found infos st).stopped = false ∧
          ∀ i ∈ (driverLoop o runs g limit fuel (remc + 1) found infos st).infos, i.depth ≤ 5 := by
  have hm1 : m1 ∈ o.checked g := mem_rootMoves hk
  have hnw : ∀ r, ¬ WinP o r (o.push g m1) := fun r k => not_win_of_lose h2.lose k.win
  intro k
  induction k with
  | zero =>
    intro remc hd fuel found infos st hf hQ hi
    obtain ⟨f, rfl⟩ : ∃ f, fuel = f + 1 := ⟨fuel - 1, by omega⟩
    have hd5 : remc = 4 := by omega
    rw [driverLoop_succ]
    have hinfo : ∀ (sc : Int) (st' : St M),
        ∀ i ∈ (mkInfo o g (remc + 1) sc st' :: infos).reverse, i.depth ≤ 5 := by
      intro sc st' i hi'
      rcases List.mem_cons.1 (List.mem_reverse.1 hi') with rfl | h
      · simp only [mkInfo]; omega
      · exact hi i h
    by_cases hl : (o.checked g).length = 1
    · rw [rootSearch_eq, if_pos hl]
      simp only []
      have : exitCond limit (remc + 1) true 0 = true := by simp [exitCond]
      rw [if_pos this, only_move_off hk hl]
      exact ⟨m1, rfl, ⟨hm1, h2.four⟩, rfl, hinfo _ _⟩
    · obtain ⟨bm, bs, st', e, _, good, low, cmp, _⟩ := rootSearch_off o hb hr g remc
        (by omega) st hQ hl
      rw [e]
      simp only []
      have hwin : evalBound < bs := cmp ⟨m1, hk, hd5 ▸ h2⟩
      rw [if_pos (exitCond_of_win _ _ _ hwin)]
      rcases good with k | ⟨m, rfl, hm, hL⟩
      · omega
      · exact ⟨m, rfl, KeepsMate.of_loseP hm (by omega) hL, rfl, hinfo _ _⟩
  | succ k ih =>
    intro remc hd fuel found infos st hf hQ hi
    obtain ⟨f, rfl⟩ : ∃ f, fuel = f + 1 := ⟨fuel - 1, by omega⟩
    rw [driverLoop_succ]
    have hinfo : ∀ (sc : Int) (st' : St M), ∀ i ∈ mkInfo o g (remc + 1) sc st' :: infos,
        i.depth ≤ 5 := by
      intro sc st' i hi'
      rcases List.mem_cons.1 hi' with rfl | h
      · simp only [mkInfo]; omega
      · exact hi i h
    by_cases hl : (o.checked g).length = 1
    · rw [rootSearch_eq, if_pos hl]
      simp only []
      have : exitCond limit (remc + 1) true 0 = true := by simp [exitCond]
      rw [if_pos this, only_move_off hk hl]
      exact ⟨m1, rfl, ⟨hm1, h2.four⟩, rfl, fun i hi' => hinfo _ _ i (List.mem_reverse.1 hi')⟩
    · obtain ⟨bm, bs, st', e, hQ', good, low, _, _⟩ := rootSearch_off o hb hr g remc
        (by omega) st hQ hl
      rw [e]
      simp only []
      have hlow := low ⟨m1, hk, hnw remc⟩
      by_cases hex : exitCond limit (remc + 1) false bs = true
      · rw [if_pos hex]
        rcases exitCond_cases hex hlow with k' | k'
        · omega
        · rcases good with k'' | ⟨m, rfl, hm, hL⟩
          · omega
          · exact ⟨m, rfl, KeepsMate.of_loseP hm (by omega) hL, rfl,
              fun i hi' => hinfo _ _ i (List.mem_reverse.1 hi')⟩
      · rw [if_neg hex]
        exact ih (remc + 1) (by omega) f _ _ st' (by omega) hQ' (hinfo _ _)

/-- **C10, mate in two, with the table switched off (the C09 hook on): the full statement, strong
reading, for EVERY game.** From the fresh table, with a flag that stays up, the hook on, without a
depth limit or with a limit of at least 5: if static evaluations are never in the driver's mate
range (`Bounded`) and some move `m1` kept by the repetition filter keeps the mate (it mates at once,
or every reply to it allows a mate in one), then the driver answers with a move that keeps the mate
(`KeepsMate`), stops by itself, and never searches deeper than 5. No hypothesis on the hash, on the
number of moves, on transpositions; a mate in one is covered. -/
theorem mate_in_two_found_off (o : Ops G M) (hb : Bounded o) (g : G) (m1 : M)
    (hk : m1 ∈ rootMoves o g) (h2 : KeepsMate o g m1) (runs : Nat → Bool)
    (hr : ∀ i, runs i = true) (md : Option Nat) (hmd : md = none ∨ ∃ N, md = some N ∧ 5 ≤ N) :
    let out := driver o runs g {} true md
    ∃ m, out.found = some m ∧ KeepsMate o g m ∧ out.stopped = false ∧
      ∀ info ∈ out.infos, info.depth ≤ 5 := by
  intro out
  have h5 := five_le_limitOf hmd
  have hL : LoseP o 4 (o.push g m1) := by
    rcases h2.2 with k | k
    · exact Or.inl k
    · exact k.loseP (Nat.le_refl _)
  have hQ0 : OffOk 0 (initSt ({} : Table M) true) := by
    refine ⟨rfl, fun k e he => ?_⟩
    have he : ({} : Table M)[k]? = some e := he
    rw [Std.HashMap.getElem?_empty] at he
    cases he
  have := driverLoop_off o hb g m1 hk hL runs hr (limitOf md) h5 4 0 rfl
    (limitOf md - 1 + 1) (o.checked g).head? [] (initSt {} true) (by omega) hQ0
    (fun _ h => by cases h)
  have e : out = driverLoop o runs g (limitOf md) (limitOf md - 1 + 1) (0 + 1)
      (o.checked g).head? [] (initSt {} true) := by
    show driver o runs g {} true md = _
    rw [driver_eq, startDepth_fresh]
  rw [e]
  exact this

end Chess.Search.Mate2
