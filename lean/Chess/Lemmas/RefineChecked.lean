import Chess.Lemmas.Attack
import Chess.Lemmas.RefineSquare

/-!
# C02 — the side condition of the refinement square holds whenever the side not to move is not
in check

A generated move that arrives on an occupied square is, in the rules' sense, an attack of the
mover on that square. Hence, if the king of the side not to move is not attacked, no generated
move (checked or unchecked) captures it, and `push_abs` applies without side condition.
-/
namespace Chess
namespace Game

/-- the piece a `Normal` move carries is the piece the generator was called for -/
def FromPiece (pc' : Piece) : Move → Prop
  | .normal pc _ _ _ => pc = pc'
  | _ => True

theorem step_fromPiece {pl : Player} {pc' : Piece} {p q : Pos} {cap : Option Piece} {c : Prop}
    [Decidable c] {m : Move}
    (hm : m ∈ (if c then promoPieces.map (fun t => Move.promotion pl t p q cap)
      else [Move.normal pc' p q cap])) : FromPiece pc' m := by
  split at hm
  · simp only [List.mem_map] at hm
    obtain ⟨t, _, rfl⟩ := hm
    trivial
  · simp only [List.mem_singleton] at hm
    subst hm; rfl

theorem pawnMoves_fromPiece {g : Game} {pc' : Piece} {p : Pos} :
    ∀ m ∈ pawnMoves g pc' p, FromPiece pc' m := by
  intro m hm
  unfold pawnMoves at hm
  cases hpl : pc'.owner <;> rw [hpl] at hm <;> simp only [List.mem_append] at hm <;>
    rcases hm with ((hm | hm) | hm) | hm
  all_goals first
    | (obtain ⟨_, rfl⟩ := mem_ite_single hm; first | rfl | trivial)
    | (split at hm
       · simp at hm
       · split at hm
         · exact step_fromPiece hm
         · simp at hm)
    | (simp only [List.mem_flatMap] at hm
       obtain ⟨d, _, hm⟩ := hm
       split at hm
       · simp at hm
       · split at hm
         · split at hm
           · exact step_fromPiece hm
           · simp at hm
         · simp at hm)

theorem kingMoves_fromPiece {g : Game} {pc' : Piece} {p : Pos} :
    ∀ m ∈ kingMoves g pc' p, FromPiece pc' m := by
  intro m hm
  unfold kingMoves at hm
  simp only [List.mem_append] at hm
  rcases hm with (hm | hm) | hm
  · simp only [List.mem_flatMap] at hm
    obtain ⟨d, hd, hm⟩ := hm
    split at hm
    · simp at hm
    · obtain ⟨_, hm⟩ := mem_ite_nil' hm
      obtain ⟨_, rfl⟩ := mem_ite_nil hm
      rfl
  · obtain ⟨_, rfl⟩ := mem_ite_single hm
    trivial
  · obtain ⟨_, rfl⟩ := mem_ite_single hm
    trivial

theorem spec_forward (pl : Player) : Spec.forward pl = fwd pl := by cases pl <;> rfl

variable {g : Game} {m : Move}

/-- **a generated move that arrives on an occupied square is an attack of the mover on it** -/
theorem generated_capture_attacks (hw : g.WF) (hm : m ∈ g.pseudoMoves)
    (hocc : g.abs.at m.toSpec.dst ≠ none) :
    ∃ pc, g.abs.at m.toSpec.src = some pc ∧ pc.owner = g.player
      ∧ Spec.attacksFrom g.abs pc m.toSpec.src m.toSpec.dst = true := by
  obtain ⟨hf, hmo⟩ := generated_fits hw hm
  have hs := generated_shape_rf hw hm
  obtain ⟨hke, p, pc', hp, hg, ho, hmem⟩ := mem_pseudoMoves.1 hm
  have hat : g.abs.at (p.row, p.col) = some pc' := by rw [← g.get_eq_at p hp]; exact hg
  cases m with
  | normal pc start stop cap =>
    obtain ⟨hv1, hv2, hne, hg1, hg2, hk⟩ := hf
    have hcap : cap ≠ none := by
      intro e; apply hocc
      show g.abs.at (stop.row, stop.col) = none
      rw [← g.get_eq_at stop hv2, hg2, e]
    unfold pieceMoves at hmem
    cases hty : pc'.pieceType <;> rw [hty] at hmem <;> simp only at hmem
    · -- queen
      obtain ⟨q, hv, hatt, hno, he⟩ := (g.slideMoves_attacks pc' hp (.inr (.inr hty)) _
        (fun d => by rw [mem_queenRays, hty]; simp only [lineOK, and_true]) _).1 hmem
      rw [he]; exact ⟨pc', hat, ho, hatt⟩
    · -- rook
      obtain ⟨q, hv, hatt, hno, he⟩ := (g.slideMoves_attacks pc' hp (.inl hty) _
        (fun d => by rw [mem_rookRays, hty]; rfl) _).1 hmem
      rw [he]; exact ⟨pc', hat, ho, hatt⟩
    · -- bishop
      obtain ⟨q, hv, hatt, hno, he⟩ := (g.slideMoves_attacks pc' hp (.inr (.inl hty)) _
        (fun d => by rw [mem_bishopRays, hty]; rfl) _).1 hmem
      rw [he]; exact ⟨pc', hat, ho, hatt⟩
    · -- knight
      obtain ⟨q, hv, hatt, hno, he⟩ := (g.knightMoves_attacks pc' hty p _).1 hmem
      rw [he]; exact ⟨pc', hat, ho, hatt⟩
    · -- pawn
      have hfp : pc = pc' := pawnMoves_fromPiece _ hmem
      subst hfp
      refine ⟨pc, abs_at_start ⟨hv1, hv2, hne, hg1, hg2, hk⟩, hmo.1, ?_⟩
      obtain ⟨-, hpawn, -⟩ := hs
      obtain ⟨-, hstep, hdiag⟩ := hpawn hty
      have hrow : stop.row = start.row + fwd pc.owner := by
        rcases hstep with h | ⟨_, _, h⟩
        · exact h
        · exact absurd h hcap
      simp only [Spec.attacksFrom, hty, Move.toSpec, spec_forward, Bool.and_eq_true, decide_eq_true_eq]
      exact ⟨by omega, decide_eq_true (hdiag hcap)⟩
    · -- king
      have hfp : pc = pc' := kingMoves_fromPiece _ hmem
      subst hfp
      refine ⟨pc, abs_at_start ⟨hv1, hv2, hne, hg1, hg2, hk⟩, hmo.1, ?_⟩
      obtain ⟨-, -, hking⟩ := hs
      obtain ⟨h1, h2⟩ := hking hty
      simp only [Spec.attacksFrom, hty, Move.toSpec]
      have : stop.row ≠ start.row ∨ stop.col ≠ start.col := by
        by_cases e : stop.row = start.row
        · right; intro e2; apply hne; cases start; cases stop; simp_all
        · left; exact e
      exact decide_eq_true (by omega)
  | promotion o t start stop cap =>
    obtain ⟨hv1, hv2, hne, hg1, hg2⟩ := hf
    have hcap : cap ≠ none := by
      intro e; apply hocc
      show g.abs.at (stop.row, stop.col) = none
      rw [← g.get_eq_at stop hv2, hg2, e]
    refine ⟨⟨.pawn, o⟩, abs_at_start_promo (t := t) ⟨hv1, hv2, hne, hg1, hg2⟩, hmo.1, ?_⟩
    obtain ⟨-, -, hrow, hdiag⟩ := hs
    simp only [Spec.attacksFrom, Move.toSpec, spec_forward, Bool.and_eq_true, decide_eq_true_eq]
    rw [hmo.1]
    exact ⟨by omega, decide_eq_true (hdiag hcap)⟩
  | enPassant o sc ec =>
    exfalso; apply hocc
    obtain ⟨h1, h2, h3, h4, hne, hold, hnew, htaken⟩ := hf
    rw [toSpec_enPassant_rf]
    show g.abs.at ((epSquares o sc ec).2.1.row, (epSquares o sc ec).2.1.col) = none
    rw [← g.get_eq_at _ (epSquares_valid o sc ec h1 h2 h3 h4).2.1]; exact hnew
  | castlingShort o =>
    exfalso; apply hocc
    show g.abs.at (homeRow o, 6) = none
    rw [← g.get_eq_at ⟨homeRow o, 6⟩ (homeRow_valid o 6 (by omega) (by omega))]; exact hf.2.2.2.2.2
  | castlingLong o =>
    exfalso; apply hocc
    show g.abs.at (homeRow o, 2) = none
    rw [← g.get_eq_at ⟨homeRow o, 2⟩ (homeRow_valid o 2 (by omega) (by omega))]; exact hf.2.2.2.2.2

/-- a generated move arriving on an occupied square is a `Normal` move or a promotion that
records exactly that piece as captured -/
theorem dst_occupied_cases (hf : g.Fits m) {pc : Piece} (hat : g.abs.at m.toSpec.dst = some pc) :
    (∃ pc0 s e, m = .normal pc0 s e (some pc)) ∨ (∃ o t s e, m = .promotion o t s e (some pc)) := by
  cases m with
  | normal pc0 start stop cap =>
    left
    obtain ⟨hv1, hv2, hne, hg1, hg2, hk⟩ := hf
    have : g.abs.at (stop.row, stop.col) = some pc := hat
    rw [← g.get_eq_at stop hv2, hg2] at this
    exact ⟨pc0, start, stop, by rw [this]⟩
  | promotion o t start stop cap =>
    right
    obtain ⟨hv1, hv2, hne, hg1, hg2⟩ := hf
    have : g.abs.at (stop.row, stop.col) = some pc := hat
    rw [← g.get_eq_at stop hv2, hg2] at this
    exact ⟨o, t, start, stop, by rw [this]⟩
  | enPassant o sc ec =>
    exfalso
    obtain ⟨h1, h2, h3, h4, hne, hold, hnew, htaken⟩ := hf
    rw [toSpec_enPassant_rf] at hat
    have : g.abs.at ((epSquares o sc ec).2.1.row, (epSquares o sc ec).2.1.col) = some pc := hat
    rw [← g.get_eq_at _ (epSquares_valid o sc ec h1 h2 h3 h4).2.1, hnew] at this
    cases this
  | castlingShort o =>
    exfalso
    have : g.abs.at (homeRow o, 6) = some pc := hat
    rw [← g.get_eq_at ⟨homeRow o, 6⟩ (homeRow_valid o 6 (by omega) (by omega)), hf.2.2.2.2.2] at this
    cases this
  | castlingLong o =>
    exfalso
    have : g.abs.at (homeRow o, 2) = some pc := hat
    rw [← g.get_eq_at ⟨homeRow o, 2⟩ (homeRow_valid o 2 (by omega) (by omega)), hf.2.2.2.2.2] at this
    cases this

/-- a generated move never arrives on a piece of the side to move -/
theorem dst_not_own (hf : g.Fits m) (hs : g.Shape m) {pc : Piece}
    (hat : g.abs.at m.toSpec.dst = some pc) : pc.owner ≠ g.player := by
  rcases dst_occupied_cases hf hat with ⟨pc0, s, e, rfl⟩ | ⟨o, t, s, e, rfl⟩
  · exact hs.1 pc rfl
  · exact hs.1 pc rfl

/-- **if the king of the side not to move is not attacked, no generated move captures a king** -/
theorem noKingCapture_of_safe (hw : g.WF) (hm : m ∈ g.pseudoMoves)
    (hsafe : g.isTargeted (g.kingPos g.player.other) g.player.other = false) :
    g.NoKingCapture m := by
  intro pc hat hking
  obtain ⟨hf, hmo⟩ := generated_fits hw hm
  have hs := generated_shape_rf hw hm
  have hown := dst_not_own hf hs hat
  have hpc : pc = ⟨.king, g.player.other⟩ := piece_eq hking (owner_other hown)
  subst hpc
  have hb := Spec.APos.onBoard_of_at hat
  have hv : (Pos.mk m.toSpec.dst.1 m.toSpec.dst.2).Valid := (Pos.valid_iff_onBoard _).2 hb
  have hget : g.get ⟨m.toSpec.dst.1, m.toSpec.dst.2⟩ = some ⟨.king, g.player.other⟩ := by
    rw [g.get_eq_at _ hv]; exact hat
  have hkp := hw.kings.unique _ _ hv hget
  obtain ⟨mover, hsrc, hmown, hatt⟩ := generated_capture_attacks hw hm (by rw [hat]; simp)
  rw [hkp, g.isTargeted_iff_attacked hv, Player.other_other] at hsafe
  have : Spec.attacked g.abs (m.toSpec.dst.1, m.toSpec.dst.2) g.player = true :=
    (Spec.attacked_iff _ _ _).2 ⟨_, mover, hsrc, hmown, hatt⟩
  rw [hsafe] at this
  cases this

/-- **C02 without side condition on the move**: in a position where the side not to move has
its king and that king is not attacked, every generated move — checked or unchecked — leads to
the position the rules prescribe. -/
theorem push_abs_of_safe (hw : g.WF) (hko : g.kingExists g.player.other = true)
    (hsafe : g.isTargeted (g.kingPos g.player.other) g.player.other = false)
    (hm : m ∈ g.pseudoMoves) : (g.push m).abs = Spec.play g.abs m.toSpec :=
  push_abs_noKingCapture hw hko hm (noKingCapture_of_safe hw hm hsafe)

theorem push_abs_checked_of_safe (hw : g.WF) (hko : g.kingExists g.player.other = true)
    (hsafe : g.isTargeted (g.kingPos g.player.other) g.player.other = false)
    (hm : m ∈ (g.getMoves true).1) : (g.push m).abs = Spec.play g.abs m.toSpec :=
  push_abs_of_safe hw hko hsafe (getMoves_subset hw true hm)

/-- the same with the hypothesis in the rules' words (`Spec.sane` contains
`!inCheck a a.side.other`): the side not to move is not in check -/
theorem push_abs_of_notInCheck (hw : g.WF)
    (hko : g.get (g.kingPos g.player.other) = some ⟨.king, g.player.other⟩)
    (hnc : Spec.inCheck g.abs g.abs.side.other = false)
    (hm : m ∈ g.pseudoMoves) : (g.push m).abs = Spec.play g.abs m.toSpec := by
  have hex : g.kingExists g.player.other = true := by unfold kingExists; rw [hko]; simp
  have := g.kingSafe_iff g.player.other hex hw.kings (fun pc h => by rw [hko] at h; cases h; rfl)
  have hnc' : Spec.inCheck g.abs g.player.other = false := hnc
  rw [hnc'] at this
  exact push_abs_of_safe hw hex (by simpa using this) hm

/-- **C02 for the checked list of a position whose side not to move is not in check** -/
theorem push_abs_checked_of_notInCheck (hw : g.WF)
    (hko : g.get (g.kingPos g.player.other) = some ⟨.king, g.player.other⟩)
    (hnc : Spec.inCheck g.abs g.abs.side.other = false)
    (hm : m ∈ (g.getMoves true).1) : (g.push m).abs = Spec.play g.abs m.toSpec :=
  push_abs_of_notInCheck hw hko hnc (getMoves_subset hw true hm)

end Game
end Chess

#print axioms Chess.Game.generated_capture_attacks
#print axioms Chess.Game.noKingCapture_of_safe
#print axioms Chess.Game.push_abs_of_safe
#print axioms Chess.Game.push_abs_checked_of_safe
#print axioms Chess.Game.push_abs_of_notInCheck
#print axioms Chess.Game.push_abs_checked_of_notInCheck
