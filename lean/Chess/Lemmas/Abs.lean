import Chess.Model.Text
import Chess.Spec.Rules
import Chess.Spec.Fen

/-!
# The abstraction map from the engine's game state to the abstract position of the rules
-/
namespace Chess

/-- forget caches, stacks and history: what the rules care about -/
def Game.abs (g : Game) : Spec.APos :=
  { board := g.board
    side := g.player
    wk := g.top.wk
    wq := g.top.wq
    bk := g.top.bk
    bq := g.top.bq
    ep := if g.top.enPassant < 8 then some g.top.enPassant.toNat else none }

/-- a move of the engine as the text-level move of the rules -/
def Move.toSpec : Move → Spec.UciMove
  | .normal _ s e _ => ⟨(s.row, s.col), (e.row, e.col), none⟩
  | .promotion _ t s e _ => ⟨(s.row, s.col), (e.row, e.col), some t⟩
  | .castlingShort o => ⟨(Game.homeRow o, 4), (Game.homeRow o, 6), none⟩
  | .castlingLong o => ⟨(Game.homeRow o, 4), (Game.homeRow o, 2), none⟩
  | .enPassant o sc ec =>
    match o with
    | .white => ⟨(4, sc), (5, ec), none⟩
    | .black => ⟨(3, sc), (2, ec), none⟩

end Chess
