import Chess.Model.Autoplay
import Chess.Lemmas.Reach
import Chess.Lemmas.SearchF
import Chess.Lemmas.Bounds

/-!
# Self-play of unbounded length stays among the reachable games below the length guard
-/
namespace Chess.Auto
open Chess Chess.Search

/-- what every round starts from -/
def Inv (s : AState) : Prop :=
  Reach s.g ∧ TTInv Uci.chessOps Game.WF s.tt ∧ s.g.len < Gen.autoLenGuard

theorem step_inv (hz : ZobristOk) (runs : Nat → Bool) {s s' : AState} (h : Inv s)
    (hs : step runs s = some s') : Inv s' := by
  obtain ⟨hr, ht, _⟩ := h
  unfold step at hs
  simp only at hs
  have snd := Chess.Search.F.driverF_sound hz chess_closed runs s.g s.tt false none (reach_wf hr) ht
  cases hf : (driverF Uci.chessOps runs s.g s.tt false none).found with
  | none => rw [hf] at hs; cases hs
  | some m =>
    rw [hf] at hs
    simp only at hs
    split at hs
    · cases hs
    · rename_i hlen
      cases hs
      have hm : m ∈ (s.g.getMoves true).1 := snd.2.1 m hf
      exact ⟨Reach.played s.g m hr hm, snd.1, by simpa using hlen⟩

theorem run_inv (hz : ZobristOk) (rs : List (Nat → Bool)) (s : AState) (h : Inv s) :
    ∀ g ∈ run rs s, Reach g ∧ g.len < Gen.autoLenGuard := by
  induction rs generalizing s with
  | nil => intro g hg; simp only [run, List.mem_singleton] at hg; subst hg; exact ⟨h.1, h.2.2⟩
  | cons r rs ih =>
    intro g hg
    simp only [run, List.mem_cons] at hg
    rcases hg with rfl | hg
    · exact ⟨h.1, h.2.2⟩
    · cases hs : step r s with
      | none => rw [hs] at hg; cases hg
      | some s' => rw [hs] at hg; exact ih s' (step_inv hz r h hs) g hg

/-- **Self-play of any length, under any timer schedule**: every game the loop searches is
reachable (so all theorems about reachable games apply: squares, stack, tables, score range) and
shorter than the guard, so the search that follows has its stack room. -/
theorem selfplay_stays_in_bounds (hz : ZobristOk) (g0 : Game) (h0 : Uci.defaultGame = some g0)
    (rs : List (Nat → Bool)) :
    ∀ g ∈ run rs ⟨g0, {}⟩, Reach g ∧ g.len < Gen.autoLenGuard ∧ g.len < Gen.lenGuard := by
  have hok : Game.ofFen Uci.startFen = .ok g0 := by
    unfold Uci.defaultGame at h0
    cases hf : Game.ofFen Uci.startFen with
    | ok g => rw [hf] at h0; cases h0; rfl
    | refused e => rw [hf] at h0; cases h0
    | fault e => rw [hf] at h0; cases h0
  have hr : Reach g0 := Reach.imported _ _ hok
  have hlen : g0.len < Gen.autoLenGuard := by
    rw [Chess.Bounds.ofFen_len hok]; decide
  intro g hg
  have := run_inv hz rs ⟨g0, {}⟩ ⟨hr, TTInv_empty _ _, hlen⟩ g hg
  exact ⟨this.1, this.2, by have : Gen.autoLenGuard ≤ Gen.lenGuard := by decide
                            omega⟩

end Chess.Auto
