import Chess.Spec.Negamax

/-!
# Alpha-beta soundness: relations, tree predicates and the move-loop lemmas

The relation carried through the induction is `Btw α β v r`: the returned value `r` lies between
`min v β` and `max v α`. For a proper window `α < β` this is exactly "`r` lies between `v` and the
clamp of `v` into `[α, β]`" (`R`, see `R_iff_Btw`), but `Btw` makes sense, and is inductive, for
*every* pair `α β`. That matters: the re-search of `nodeLoop` is called with the window
`(-β, -test)`, which is empty or inverted whenever the null-window probe returned `test ≥ β`.
-/
namespace Chess.Search

/-- `r` lies between `v` and the clamp of `v` into `[α, β]` -/
def R (α β v r : Int) : Prop :=
  (v ≤ α → v ≤ r ∧ r ≤ α) ∧ (α < v → v < β → r = v) ∧ (β ≤ v → β ≤ r ∧ r ≤ v)

/-- the same without any assumption on the window -/
def Btw (α β v r : Int) : Prop := min v β ≤ r ∧ r ≤ max v α

theorem R_iff_Btw {α β : Int} (h : α < β) (v r : Int) : R α β v r ↔ Btw α β v r := by
  unfold R Btw; omega

theorem Btw.neg {α β v r : Int} (h : Btw α β v r) : Btw (-β) (-α) (-v) (-r) := by
  unfold Btw at *; omega

theorem Btw.self (α β v : Int) : Btw α β v v := by unfold Btw; omega

/-! ## folds of `max` -/

theorem le_foldl_max (l : List Int) (a : Int) : a ≤ l.foldl max a :=
  ((foldl_max_le_iff l a _).1 (Int.le_refl _)).1

theorem foldl_max_max (l : List Int) (a b : Int) : l.foldl max (max a b) = max a (l.foldl max b) := by
  induction l generalizing b with
  | nil => rfl
  | cons x xs ih =>
    simp only [List.foldl_cons]
    rw [show max (max a b) x = max a (max b x) by omega, ih]

variable {G M : Type}

/-! ## tree predicates -/

/-- no node reached inside quiescence is without moves -/
def QLive (o : Ops G M) : Nat → G → Int → Prop
  | 0, _, _ => True
  | fuel + 1, g, rd =>
    (o.unchecked g).isEmpty = false ∧
    ∀ m ∈ o.unchecked g, o.tactical m = true → QLive o fuel (o.push g m) (rd + 1)

/-- weaker than `QLive`: a node without moves reached inside quiescence has a static evaluation not
above its no-move value (so that standing pat cannot beat it) -/
def QTame (o : Ops G M) : Nat → G → Int → Prop
  | 0, _, _ => True
  | fuel + 1, g, rd =>
    ((o.unchecked g).isEmpty = true → o.eval g ≤ deadValue o Gen.mateQ g rd) ∧
    ∀ m ∈ o.unchecked g, o.tactical m = true → QTame o fuel (o.push g m) (rd + 1)

theorem QLive.tame {o : Ops G M} {fuel : Nat} {g : G} {rd : Int} (h : QLive o fuel g rd) :
    QTame o fuel g rd := by
  induction fuel generalizing g rd with
  | zero => trivial
  | succ f ih =>
    refine ⟨fun he => ?_, fun m hm ht => ih (h.2 m hm ht)⟩
    rw [h.1] at he; cases he

/-- What the soundness of an interior node needs of the tree below it: the quiescence leaves are
`QTame`, and no child of an interior node has a reference value above `-scoreMin` (i.e. no move
scores below `scoreMin`, the initial `best_score`). -/
def Tame (o : Ops G M) : Nat → G → Int → Prop
  | 0, g, rd => QTame o qFuel g rd
  | 1, g, rd => ∀ m ∈ o.unchecked g, QTame o qFuel (o.push g m) (rd + 1)
  | r + 2, g, rd =>
    ∀ m ∈ o.checked g,
      Tame o (r + 1) (o.push g m) (rd + 1) ∧ refNode o (r + 1) (o.push g m) (rd + 1) ≤ -scoreMin

/-- the strict form: quiescence is `QLive`, and every child value below an interior node lies in
the 16-bit range `[scoreMin + 1, scoreMax]` of the engine -/
def Live (o : Ops G M) : Nat → G → Int → Prop
  | 0, g, rd => QLive o qFuel g rd
  | 1, g, rd => ∀ m ∈ o.unchecked g, QLive o qFuel (o.push g m) (rd + 1)
  | r + 2, g, rd =>
    ∀ m ∈ o.checked g,
      Live o (r + 1) (o.push g m) (rd + 1) ∧
      scoreMin + 1 ≤ refNode o (r + 1) (o.push g m) (rd + 1) ∧
      refNode o (r + 1) (o.push g m) (rd + 1) ≤ scoreMax

theorem Live.tame {o : Ops G M} {remaining : Nat} {g : G} {rd : Int} (h : Live o remaining g rd) :
    Tame o remaining g rd := by
  induction remaining using Nat.strongRecOn generalizing g rd with
  | _ n ih =>
    match n with
    | 0 => exact QLive.tame h
    | 1 => exact fun m hm => QLive.tame (h m hm)
    | r + 2 =>
      intro m hm
      have := h m hm
      refine ⟨ih (r + 1) (by omega) this.1, ?_⟩
      have h2 := this.2.2
      simp only [scoreMax, scoreMin] at *
      omega

/-! ## quiescence -/

theorem eval_le_refQ (o : Ops G M) {fuel : Nat} {g : G} {rd : Int} (h : QTame o fuel g rd) :
    o.eval g ≤ refQ o fuel g rd := by
  cases fuel with
  | zero => exact Int.le_refl _
  | succ f =>
    simp only [refQ]
    split
    · next he => exact h.1 he
    · exact le_foldl_max _ _

theorem qLoop_spec (o : Ops G M) (child : G → Int → Int → Int → Int) (cv : M → Int)
    (g : G) (β rd : Int) (ms : List M)
    (hc : ∀ m ∈ ms, o.tactical m = true →
      ∀ a b, Btw a b (cv m) (child (o.push g m) a b (rd + 1)))
    (alpha : Int) (h : alpha < β) :
    qLoop o child g β rd ms alpha =
      min β (((ms.filter o.tactical).map fun m => -(cv m)).foldl max alpha) := by
  induction ms generalizing alpha with
  | nil => simp only [qLoop, List.filter_nil, List.map_nil, List.foldl_nil]; omega
  | cons m ms ih =>
    have ih' := ih (fun m' hm' => hc m' (List.mem_cons_of_mem _ hm'))
    by_cases ht : o.tactical m = true
    · have hb := (hc m List.mem_cons_self ht (-β) (-alpha)).neg
      simp only [Int.neg_neg] at hb
      simp only [qLoop, ht, Bool.not_true, Bool.false_eq_true, if_false, List.filter_cons,
        if_true, List.map_cons, List.foldl_cons]
      generalize -(child (o.push g m) (-β) (-alpha) (rd + 1)) = s at hb ⊢
      generalize -(cv m) = sv at hb ⊢
      unfold Btw at hb
      have hle := le_foldl_max ((ms.filter o.tactical).map fun m => -(cv m)) (max alpha sv)
      by_cases hcut : (if s > alpha then s else alpha) ≥ β
      · rw [if_pos hcut]
        split at hcut <;> omega
      · rw [if_neg hcut]
        have hnew : (if s > alpha then s else alpha) = max alpha sv := by
          split at hcut <;> split <;> omega
        rw [hnew] at hcut ⊢
        exact ih' _ (by omega)
    · have ht' : o.tactical m = false := by cases h' : o.tactical m <;> simp_all
      simp only [qLoop, ht', Bool.not_false, if_true, List.filter_cons, Bool.false_eq_true,
        if_false]
      exact ih' _ h

/-- `qsearch` against the reference, for every window -/
theorem qsearch_btw (o : Ops G M) (fuel : Nat) (g : G) (α β rd : Int) (h : QTame o fuel g rd) :
    Btw α β (refQ o fuel g rd) (qsearch o fuel g α β rd) := by
  induction fuel generalizing g α β rd with
  | zero => simp only [qsearch, refQ, Btw]; omega
  | succ f ih =>
    have hev := eval_le_refQ o h
    unfold qsearch
    simp only []
    by_cases hsp : max α (o.eval g) ≥ β
    · rw [if_pos hsp]; unfold Btw; omega
    · rw [if_neg hsp]
      by_cases he : (o.unchecked g).isEmpty = true
      · simp only [he, if_true, refQ, deadValue]
        exact Btw.self _ _ _
      · have hq := qLoop_spec o (qsearch o f) (fun m => refQ o f (o.push g m) (rd + 1)) g β rd
          (o.unchecked g) (fun m hm ht a b => ih _ _ _ _ (h.2 m hm ht)) (max α (o.eval g))
          (by omega)
        simp only [he, Bool.false_eq_true, if_false, refQ] at hq ⊢
        rw [hq, foldl_max_max]
        unfold Btw; omega

/-! ## depth 1 -/

theorem d1Loop_spec (o : Ops G M) (g : G) (β rd : Int) (ms : List M)
    (hc : ∀ m ∈ ms, QTame o qFuel (o.push g m) (rd + 1)) (alpha : Int) :
    min ((ms.map (d1Score o g rd)).foldl max alpha) β ≤ d1Loop o g β rd ms alpha ∧
    d1Loop o g β rd ms alpha ≤ (ms.map (d1Score o g rd)).foldl max alpha := by
  induction ms generalizing alpha with
  | nil => simp only [d1Loop, List.map_nil, List.foldl_nil]; omega
  | cons m ms ih =>
    have ih' := ih (fun m' hm' => hc m' (List.mem_cons_of_mem _ hm'))
    have hb := (qsearch_btw o qFuel (o.push g m) (-β) (-alpha) (rd + 1)
      (hc m List.mem_cons_self)).neg
    simp only [Int.neg_neg] at hb
    simp only [d1Loop, List.map_cons, List.foldl_cons, d1Score]
    generalize -(qsearch o qFuel (o.push g m) (-β) (-alpha) (rd + 1)) = s at hb ⊢
    generalize -(refQ o qFuel (o.push g m) (rd + 1)) = sv at hb ⊢
    unfold Btw at hb
    have hle := le_foldl_max (ms.map (d1Score o g rd)) (max alpha sv)
    by_cases hcut : (if s > alpha then s else alpha) ≥ β
    · rw [if_pos hcut]
      split at hcut <;> omega
    · rw [if_neg hcut]
      have hnew : (if s > alpha then s else alpha) = max alpha sv := by
        split at hcut <;> split <;> omega
      rw [hnew]
      exact ih' _

/-- `depth1` against the reference, for every window -/
theorem depth1_btw (o : Ops G M) (g : G) (α β rd : Int)
    (h : ∀ m ∈ o.unchecked g, QTame o qFuel (o.push g m) (rd + 1)) :
    Btw α β (refD1 o g rd) (depth1 o g α β rd) := by
  unfold depth1 refD1
  by_cases he : (o.unchecked g).isEmpty = true
  · simp only [he, if_true, deadValue]; exact Btw.self _ _ _
  · simp only [he, Bool.false_eq_true, if_false]
    have hne : (o.unchecked g).map (d1Score o g rd) ≠ [] := by
      intro h0; apply he; rw [List.map_eq_nil_iff] at h0; rw [h0]; rfl
    have := d1Loop_spec o g β rd (o.unchecked g) h α
    rw [foldl_max_eq_max_maxL hne α 0] at this
    unfold Btw; omega

end Chess.Search
