import Chess.Lemmas.SearchFAux

/-!
# The faithful search (`Chess/Model/SearchF.lean`): the state survives an abort

`Search.node`/`rootSearch`/`driver` return `none` when a poll of the stop flag fails and thereby
drop the state of the aborted iteration. The Rust code mutates the table in place, so the entries
stored during an aborted iteration are still there at the next `go`. `nodeF`/`rootSearchF`/`driverF`
return `(state, none)` instead; this file proves

1. **simulation on the success path** (`nodeF_some_iff`, `rootLoopF_some_iff`,
   `rootSearchF_some_iff`, `driverF_agrees`, `driverF_unstopped`, `driverF_of_driver_unstopped`):
   `found`, `infos`, `stopped` of `driverF` and `driver` ALWAYS coincide; only the state handed to
   the next search differs, and only after a stop;
2. **the aborted state is still good** (`nodeF_inv`, `rootSearchF_inv`, `driverF_inv` for every
   `NodeInv` invariant that survives the emptying of the table; instances `TTInv`, `DepthPos`,
   `Polled`);
3. **the property theorems for the faithful driver**, for histories of searches ANY of which may
   have been stopped at any poll (`tableAfterF`);
4. a concrete game in which the table after a stopped `driverF` is strictly larger than the table
   after the stopped `driver`.

No statement of the task was found false.
-/
namespace Chess.Search.F

variable {G M : Type} [DecidableEq M]

/-! ## 1. Simulation on the success path -/

/-- **The faithful node answers exactly when the dropping node does, with the same value and the
same state.** (`nodeF` empties the table before reading the flag, `node` after: on the success path
the state is the same.) -/
theorem nodeF_some_iff (o : Ops G M) (runs : Nat → Bool) (remaining : Nat) (g : G) (α β rd : Int)
    (st st' : St M) (v : Int) :
    nodeF o runs remaining g α β rd st = (st', some v) ↔
      node o runs remaining g α β rd st = some (v, st') := by
  rw [node_sim, toOpt_eq_some]

/-- the faithful node is aborted exactly when the dropping node is -/
theorem nodeF_none_iff (o : Ops G M) (runs : Nat → Bool) (remaining : Nat) (g : G) (α β rd : Int)
    (st : St M) :
    (nodeF o runs remaining g α β rd st).2 = none ↔ node o runs remaining g α β rd st = none := by
  rw [node_sim, toOpt_eq_none]

omit [DecidableEq M] in
/-- the move loop of an interior node, over children in simulation -/
theorem nodeLoopF_some_iff (o : Ops G M)
    (childF : G → Int → Int → Int → St M → St M × Option Int)
    (child : G → Int → Int → Int → St M → Option (Int × St M))
    (hc : ∀ g' a b r s s' v, childF g' a b r s = (s', some v) ↔ child g' a b r s = some (v, s'))
    (g : G) (remaining : Nat) (rd β : Int) (ms : List M) (index : Nat) (α bs : Int)
    (bm : Option M) (st st' : St M) (a' bs' : Int) (bm' : Option M) :
    nodeLoopF o childF g remaining rd β ms index α bs bm st = (st', some (a', bs', bm')) ↔
      nodeLoop o child g remaining rd β ms index α bs bm st = some ⟨a', bs', bm', st'⟩ := by
  have hsim : ∀ m ∈ ms, Sim childF child (o.push g m) := by
    intro m _ a b r s
    cases h : childF (o.push g m) a b r s with
    | mk s1 x =>
      cases x with
      | some v => exact (hc _ _ _ _ _ _ _).1 h
      | none =>
        cases h2 : child (o.push g m) a b r s with
        | none => rfl
        | some p =>
          obtain ⟨v, s2⟩ := p
          have := (hc _ _ _ _ _ _ _).2 h2
          rw [h] at this; cases this
  rw [nodeLoop_sim o childF child g remaining rd β ms hsim]
  cases nodeLoopF o childF g remaining rd β ms index α bs bm st with
  | mk s x =>
    cases x with
    | none => simp [loopOpt]
    | some y =>
      obtain ⟨a2, bs2, bm2⟩ := y
      simp only [loopOpt, Option.some.injEq, Prod.mk.injEq, LoopOut.mk.injEq]
      constructor
      · rintro ⟨h1, h2, h3, h4⟩; exact ⟨h2, h3, h4, h1⟩
      · rintro ⟨h2, h3, h4, h1⟩; exact ⟨h1, h2, h3, h4⟩

/-- the move loop of the root -/
theorem rootLoopF_some_iff (o : Ops G M) (runs : Nat → Bool) (d : Nat) (g : G) (ms : List M)
    (index : Nat) (bs : Int) (bm : Option M) (st st' : St M) (bs' : Int) (bm' : Option M) :
    rootLoopF o (nodeF o runs d) g ms index bs bm st = (st', some (bs', bm')) ↔
      rootLoop o (node o runs d) g ms index bs bm st = some (bs', bm', st') := by
  rw [rootLoop_sim o (nodeF o runs d) (node o runs d) g ms
    (fun m _ a b r s => node_sim o runs _ _ _ _ _ _)]
  cases rootLoopF o (nodeF o runs d) g ms index bs bm st with
  | mk s x =>
    cases x with
    | none => simp [rootOpt]
    | some y =>
      obtain ⟨a2, b2⟩ := y
      simp only [rootOpt, Option.some.injEq, Prod.mk.injEq]
      constructor
      · rintro ⟨h1, h2, h3⟩; exact ⟨h2, h3, h1⟩
      · rintro ⟨h2, h3, h1⟩; exact ⟨h1, h2, h3⟩

theorem rootLoopF_none_iff (o : Ops G M) (runs : Nat → Bool) (d : Nat) (g : G) (ms : List M)
    (index : Nat) (bs : Int) (bm : Option M) (st : St M) :
    (rootLoopF o (nodeF o runs d) g ms index bs bm st).2 = none ↔
      rootLoop o (node o runs d) g ms index bs bm st = none := by
  rw [rootLoop_sim o (nodeF o runs d) (node o runs d) g ms
    (fun m _ a b r s => node_sim o runs _ _ _ _ _ _)]
  cases rootLoopF o (nodeF o runs d) g ms index bs bm st with
  | mk s x =>
    cases x with
    | none => simp [rootOpt]
    | some y => simp [rootOpt]

/-- the root search -/
theorem rootSearchF_some_iff (o : Ops G M) (runs : Nat → Bool) (g : G) (depth : Nat)
    (st st' : St M) (r : Option M × Int × Bool) :
    rootSearchF o runs g depth st = (st', some r) ↔ rootSearch o runs g depth st = some (r, st') := by
  rw [rootSearch_sim, toOpt_eq_some]

theorem rootSearchF_none_iff (o : Ops G M) (runs : Nat → Bool) (g : G) (depth : Nat) (st : St M) :
    (rootSearchF o runs g depth st).2 = none ↔ rootSearch o runs g depth st = none := by
  rw [rootSearch_sim, toOpt_eq_none]

/-- the iterative-deepening loops agree on everything that is reported, and on the state unless
stopped -/
theorem driverLoopF_agrees (o : Ops G M) (runs : Nat → Bool) (g : G) (limit fuel depth : Nat)
    (found : Option M) (infos : List (Info M)) (st : St M) :
    (driverLoopF o runs g limit fuel depth found infos st).found =
      (driverLoop o runs g limit fuel depth found infos st).found ∧
    (driverLoopF o runs g limit fuel depth found infos st).infos =
      (driverLoop o runs g limit fuel depth found infos st).infos ∧
    (driverLoopF o runs g limit fuel depth found infos st).stopped =
      (driverLoop o runs g limit fuel depth found infos st).stopped ∧
    ((driverLoop o runs g limit fuel depth found infos st).stopped = false →
      (driverLoopF o runs g limit fuel depth found infos st).st =
        (driverLoop o runs g limit fuel depth found infos st).st) := by
  induction fuel generalizing depth found infos st with
  | zero => exact ⟨rfl, rfl, rfl, fun _ => rfl⟩
  | succ f ih =>
    rw [driverLoopF_succ, driverLoop_succ, rootSearch_sim]
    cases hs : rootSearchF o runs g depth st with
    | mk s x =>
      cases x with
      | none => exact ⟨rfl, rfl, rfl, fun h => (nomatch h)⟩
      | some y =>
        obtain ⟨bm, sc, only⟩ := y
        simp only [toOpt]
        by_cases hx : exitCond limit depth only sc = true
        · simp only [hx, if_true, and_self, implies_true]
        · simp only [hx]
          exact ih _ _ _ _

/-- **`found`, `infos` and `stopped` of the faithful and of the dropping driver ALWAYS coincide**,
also when the search was stopped: only `out.st`, the state handed to the next search, differs. -/
theorem driverF_agrees (o : Ops G M) (runs : Nat → Bool) (g : G) (tt : Table M) (off : Bool)
    (md : Option Nat) :
    (driverF o runs g tt off md).found = (driver o runs g tt off md).found ∧
    (driverF o runs g tt off md).infos = (driver o runs g tt off md).infos ∧
    (driverF o runs g tt off md).stopped = (driver o runs g tt off md).stopped := by
  rw [driverF_eq, driver_eq]
  obtain ⟨h1, h2, h3, _⟩ := driverLoopF_agrees o runs g (limitOf md)
    (limitOf md - startDepth o g tt md + 1) (startDepth o g tt md) (o.checked g).head? []
    (initSt tt off)
  exact ⟨h1, h2, h3⟩

omit [DecidableEq M] in
theorem driverOut_ext {a b : DriverOut M} (h1 : a.found = b.found) (h2 : a.infos = b.infos)
    (h3 : a.st = b.st) (h4 : a.stopped = b.stopped) : a = b := by
  cases a; cases b
  simp only [] at h1 h2 h3 h4
  subst h1; subst h2; subst h3; subst h4
  rfl

/-- a search of the dropping driver that was not stopped is the faithful search, state included -/
theorem driverF_of_driver_unstopped (o : Ops G M) (runs : Nat → Bool) (g : G) (tt : Table M)
    (off : Bool) (md : Option Nat) (h : (driver o runs g tt off md).stopped = false) :
    driverF o runs g tt off md = driver o runs g tt off md := by
  rw [driver_eq] at h
  rw [driverF_eq, driver_eq]
  obtain ⟨h1, h2, h3, h4⟩ := driverLoopF_agrees o runs g (limitOf md)
    (limitOf md - startDepth o g tt md + 1) (startDepth o g tt md) (o.checked g).head? []
    (initSt tt off)
  exact driverOut_ext h1 h2 (h4 h) h3

/-- a faithful search that was not stopped is the dropping search, state included -/
theorem driverF_unstopped (o : Ops G M) (runs : Nat → Bool) (g : G) (tt : Table M)
    (off : Bool) (md : Option Nat) (h : (driverF o runs g tt off md).stopped = false) :
    driverF o runs g tt off md = driver o runs g tt off md :=
  driverF_of_driver_unstopped o runs g tt off md ((driverF_agrees o runs g tt off md).2.2 ▸ h)

/-! ## 2. The aborted state is still good -/

omit [DecidableEq M] in
theorem Res.fst {runs : Nat → Bool} {Q : St M → Prop} {α : Type} {r : St M × Option α}
    (h : Res Q (AbortAt runs Q) r) : Q r.1 := by
  obtain ⟨s, x⟩ := r
  cases x with
  | none => exact h.1
  | some _ => exact h

omit [DecidableEq M] in
theorem Res.polls_of_abort {runs : Nat → Bool} {Q : St M → Prop} {α : Type}
    {r : St M × Option α} (h : Res Q (AbortAt runs Q) r) (hn : r.2 = none) :
    runs r.1.polls = false := by
  obtain ⟨s, x⟩ := r
  cases x with
  | none => exact h.2
  | some _ => cases hn

section
variable {o : Ops G M} {runs : Nat → Bool} {A : G → Prop} {D : Nat → Prop} {Q : St M → Prop}

/-- **Every `NodeInv` invariant that survives the emptying of the table holds of the state returned
by the faithful node, whether it answers or is aborted**; if it is aborted, the poll counter of the
returned state is the index of a poll that saw the flag cleared. -/
theorem nodeF_inv (I : NodeInv o runs A D Q) (hab : ∀ st : St M, Q st → Q (abortSt st))
    (remaining : Nat) (g : G) (α β rd : Int) (st : St M) (hA : A g) (hQ : Q st) :
    Q (nodeF o runs remaining g α β rd st).1 ∧
      ((nodeF o runs remaining g α β rd st).2 = none →
        runs (nodeF o runs remaining g α β rd st).1.polls = false) :=
  let h := nodeF_res (NodeInvF.of I hab) remaining g α β rd st hA hQ
  ⟨h.fst, h.polls_of_abort⟩

theorem rootSearchF_inv (I : NodeInv o runs A D Q) (hab : ∀ st : St M, Q st → Q (abortSt st))
    (g : G) (depth : Nat) (st : St M) (hA : A g) (hQ : Q st) (hD : D depth) :
    Q (rootSearchF o runs g depth st).1 ∧
      ((rootSearchF o runs g depth st).2 = none →
        runs (rootSearchF o runs g depth st).1.polls = false) :=
  let h := rootSearchF_res (NodeInvF.of I hab) g depth st hA hQ hD
  ⟨h.fst, h.polls_of_abort⟩

theorem driverLoopF_inv (I : NodeInv o runs A D Q) (hab : ∀ st : St M, Q st → Q (abortSt st))
    (g : G) (hA : A g) (limit fuel depth : Nat) (found : Option M) (infos : List (Info M))
    (st : St M) (hQ : Q st) (hD : ∀ d, depth ≤ d → D d) :
    Q (driverLoopF o runs g limit fuel depth found infos st).st ∧
      ((driverLoopF o runs g limit fuel depth found infos st).stopped = true →
        runs (driverLoopF o runs g limit fuel depth found infos st).st.polls = false) := by
  obtain ⟨h1, h2⟩ := driverLoopF_res (NodeInvF.of I hab) g hA limit fuel depth found infos st hQ hD
  refine ⟨?_, fun h => (h2 h).2⟩
  cases h : (driverLoopF o runs g limit fuel depth found infos st).stopped with
  | false => exact h1 h
  | true => exact (h2 h).1

/-- **The generic invariant of the faithful driver, also when stopped.** -/
theorem driverF_inv (I : NodeInv o runs A D Q) (hab : ∀ st : St M, Q st → Q (abortSt st))
    (g : G) (tt : Table M) (off : Bool) (md : Option Nat) (hA : A g) (hQ : Q (initSt tt off))
    (hD : ∀ d, startDepth o g tt md ≤ d → D d) :
    Q (driverF o runs g tt off md).st ∧
      ((driverF o runs g tt off md).stopped = true →
        runs (driverF o runs g tt off md).st.polls = false) := by
  rw [driverF_eq]
  exact driverLoopF_inv I hab g hA _ _ _ _ _ _ hQ hD

end

/-! ### the three instances -/

omit [DecidableEq M] in
theorem ttInv_abort (o : Ops G M) (P : G → Prop) (st : St M) (h : TTInv o P st.tt) :
    TTInv o P (abortSt st).tt := by
  simp only [abortSt]
  split
  · exact TTInv_empty o P
  · exact h

omit [DecidableEq M] in
theorem depthPos_abort (st : St M) (h : DepthPos st.tt) : DepthPos (abortSt st).tt := by
  simp only [abortSt]
  split
  · exact DepthPos_empty
  · exact h

omit [DecidableEq M] in
theorem polled_abort (runs : Nat → Bool) (n : Nat) (st : St M) (h : Polled runs n st) :
    Polled runs n (abortSt st) := h

/-- **The table invariant holds of the state returned by the faithful node, answer or abort.** -/
theorem nodeF_preserves_TTInv {o : Ops G M} {P : G → Prop} (hH : HashOk o P) (hC : Closed o P)
    (runs : Nat → Bool) (remaining : Nat) (g : G) (α β rd : Int) (st : St M)
    (hP : P g) (hT : TTInv o P st.tt) :
    TTInv o P (nodeF o runs remaining g α β rd st).1.tt :=
  (nodeF_inv (ttInv_nodeInv hH hC runs) (ttInv_abort o P) remaining g α β rd st hP hT).1

theorem rootSearchF_preserves_TTInv {o : Ops G M} {P : G → Prop} (hH : HashOk o P)
    (hC : Closed o P) (runs : Nat → Bool) (g : G) (depth : Nat) (st : St M)
    (hP : P g) (hT : TTInv o P st.tt) : TTInv o P (rootSearchF o runs g depth st).1.tt :=
  (rootSearchF_inv (ttInv_nodeInv hH hC runs) (ttInv_abort o P) g depth st hP hT trivial).1

/-- **The table the faithful driver hands to the next search satisfies the invariant, also when the
search was stopped** (the entries of the aborted iteration included). -/
theorem driverF_preserves_TTInv {o : Ops G M} {P : G → Prop} (hH : HashOk o P) (hC : Closed o P)
    (runs : Nat → Bool) (g : G) (tt : Table M) (off : Bool) (md : Option Nat)
    (hP : P g) (hT : TTInv o P tt) : TTInv o P (driverF o runs g tt off md).st.tt :=
  (driverF_inv (ttInv_nodeInv hH hC runs) (ttInv_abort o P) g tt off md hP hT
    (fun _ _ => trivial)).1

theorem nodeF_preserves_DepthPos (o : Ops G M) (runs : Nat → Bool) (remaining : Nat) (g : G)
    (α β rd : Int) (st : St M) (h : DepthPos st.tt) :
    DepthPos (nodeF o runs remaining g α β rd st).1.tt :=
  (nodeF_inv (depthPos_nodeInv o runs) depthPos_abort remaining g α β rd st trivial h).1

theorem rootSearchF_preserves_DepthPos (o : Ops G M) (runs : Nat → Bool) (g : G) (depth : Nat)
    (st : St M) (h : DepthPos st.tt) (hd : 1 ≤ depth) :
    DepthPos (rootSearchF o runs g depth st).1.tt :=
  (rootSearchF_inv (depthPos_nodeInv o runs) depthPos_abort g depth st trivial h hd).1

theorem driverF_preserves_DepthPos (o : Ops G M) (runs : Nat → Bool) (g : G) (tt : Table M)
    (off : Bool) (md : Option Nat) (h : DepthPos tt) :
    DepthPos (driverF o runs g tt off md).st.tt :=
  have hs := one_le_startDepth o g tt md (fun e he _ => h _ e he)
  (driverF_inv (depthPos_nodeInv o runs) depthPos_abort g tt off md trivial h
    (fun _ hd => Nat.le_trans hs hd)).1

/-- the faithful node only counts polls that saw the flag set, answer or abort -/
theorem nodeF_polled (o : Ops G M) (runs : Nat → Bool) (remaining : Nat) (g : G)
    (α β rd : Int) (st : St M) :
    Polled runs st.polls (nodeF o runs remaining g α β rd st).1 :=
  (nodeF_inv (polled_nodeInv o runs st.polls) (polled_abort runs st.polls) remaining g α β rd st
    trivial (polled_refl runs st)).1

theorem rootSearchF_polled (o : Ops G M) (runs : Nat → Bool) (g : G) (depth : Nat) (st : St M) :
    Polled runs st.polls (rootSearchF o runs g depth st).1 :=
  (rootSearchF_inv (polled_nodeInv o runs st.polls) (polled_abort runs st.polls) g depth st
    trivial (polled_refl runs st) trivial).1

/-! ## 3. The property theorems for the faithful driver -/

/-- the table after a history of faithful searches sharing it, ANY of which may have been stopped
at any poll -/
def tableAfterF (o : Ops G M) (tt : Table M) (reqs : List (Req G)) : Table M :=
  reqs.foldl (fun tt r => (driverF o r.runs r.g tt r.off r.md).st.tt) tt

/-- **C07.** Whatever the flag does, whatever the table holds: if the position has a legal move,
the faithful driver answers with a move. -/
theorem driverF_found_of_moves (o : Ops G M) (runs : Nat → Bool) (g : G) (tt : Table M)
    (off : Bool) (md : Option Nat) (h : o.checked g ≠ []) :
    (driverF o runs g tt off md).found.isSome := by
  rw [(driverF_agrees o runs g tt off md).1]
  exact driver_found_of_moves o runs g tt off md h

/-- **C06 / C18.** From a table satisfying the invariant, in an admissible position, the faithful
driver, stopped or not, leaves a table satisfying the invariant, answers with a checked move,
answers `none` exactly when there is no move, and reports legal lines only. -/
theorem driverF_sound {o : Ops G M} {P : G → Prop} (hH : HashOk o P) (hC : Closed o P)
    (runs : Nat → Bool) (g : G) (tt : Table M) (off : Bool) (md : Option Nat)
    (hP : P g) (hT : TTInv o P tt) :
    let out := driverF o runs g tt off md
    TTInv o P out.st.tt ∧ (∀ m, out.found = some m → m ∈ o.checked g) ∧
      (out.found = none ↔ o.checked g = []) ∧ ∀ info ∈ out.infos, LegalLine o g info.pv := by
  intro out
  obtain ⟨a1, a2, _⟩ := driverF_agrees o runs g tt off md
  have a1 : out.found = (driver o runs g tt off md).found := a1
  have a2 : out.infos = (driver o runs g tt off md).infos := a2
  obtain ⟨_, k2, k3⟩ := driver_sound_full hH hC runs g tt off md hP hT
  rw [a1, a2]
  exact ⟨driverF_preserves_TTInv hH hC runs g tt off md hP hT, k2,
    driver_none_iff hH hC runs g tt off md hP hT, k3⟩

/-- **After any history of faithful searches sharing the table, each possibly stopped, the
invariant still holds.** -/
theorem historyF_preserves_TTInv {o : Ops G M} {P : G → Prop} (hH : HashOk o P) (hC : Closed o P)
    (reqs : List (Req G)) (hreqs : ∀ r ∈ reqs, P r.g) (tt : Table M) (hT : TTInv o P tt) :
    TTInv o P (tableAfterF o tt reqs) := by
  induction reqs generalizing tt with
  | nil => exact hT
  | cons r rs ih =>
    exact ih (fun r' h => hreqs r' (List.mem_cons_of_mem _ h)) _
      (driverF_preserves_TTInv hH hC r.runs r.g tt r.off r.md (hreqs r List.mem_cons_self) hT)

/-- **C06 / C18 for a whole session**: starting from the empty table, after any history of searches
of admissible positions, each possibly stopped at any poll, the next search answers with a legal
move (`none` iff there is none), prints legal lines, and hands on a good table. -/
theorem sessionF_sound {o : Ops G M} {P : G → Prop} (hH : HashOk o P) (hC : Closed o P)
    (reqs : List (Req G)) (hreqs : ∀ r ∈ reqs, P r.g) (r : Req G) (hP : P r.g) :
    let out := driverF o r.runs r.g (tableAfterF o {} reqs) r.off r.md
    (∀ m, out.found = some m → m ∈ o.checked r.g) ∧ (out.found = none ↔ o.checked r.g = []) ∧
      (∀ info ∈ out.infos, LegalLine o r.g info.pv) ∧ TTInv o P out.st.tt := by
  have hT := historyF_preserves_TTInv hH hC reqs hreqs {} (TTInv_empty o P)
  obtain ⟨k1, k2, k3, k4⟩ := driverF_sound hH hC r.runs r.g _ r.off r.md hP hT
  exact ⟨k2, k3, k4, k1⟩

theorem historyF_preserves_DepthPos (o : Ops G M) (reqs : List (Req G)) (tt : Table M)
    (h : DepthPos tt) : DepthPos (tableAfterF o tt reqs) := by
  induction reqs generalizing tt with
  | nil => exact h
  | cons r rs ih => exact ih _ (driverF_preserves_DepthPos o r.runs r.g tt r.off r.md h)

/-- **C08, unconditional part**, for an arbitrary table: the depths reported are consecutive, start
at `min cached limit` and never exceed the limit. -/
theorem driverF_depths_partial (o : Ops G M) (runs : Nat → Bool) (g : G) (tt : Table M)
    (off : Bool) (md : Option Nat) :
    let out := driverF o runs g tt off md
    out.infos.map (·.depth) = List.range' (startDepth o g tt md) out.infos.length ∧
    ∀ info ∈ out.infos, startDepth o g tt md ≤ info.depth ∧ info.depth ≤ limitOf md := by
  intro out
  have a2 : out.infos = (driver o runs g tt off md).infos := (driverF_agrees o runs g tt off md).2.1
  rw [a2]
  exact driver_depths_partial o runs g tt off md

/-- **C08** with the hypothesis that the exact root entry, if any, has depth `≥ 1`. -/
theorem driverF_depths (o : Ops G M) (runs : Nat → Bool) (g : G) (tt : Table M)
    (off : Bool) (md : Option Nat)
    (h : ∀ e, tt[o.hash g]? = some e → e.flag = Flag.exact → 1 ≤ e.depth) :
    let out := driverF o runs g tt off md
    out.infos.map (·.depth) = List.range' (startDepth o g tt md) out.infos.length ∧
    ∀ info ∈ out.infos, 1 ≤ info.depth ∧ info.depth ≤ limitOf md ∧ info.depth ≤ maxDepth ∧
      ∀ N, md = some N → 1 ≤ N → info.depth ≤ N := by
  intro out
  have a2 : out.infos = (driver o runs g tt off md).infos := (driverF_agrees o runs g tt off md).2.1
  rw [a2]
  exact driver_depths o runs g tt off md h

/-- **C08 for a whole session**, no hypothesis on the game: starting from the empty table, after
any history of searches each possibly stopped, every reported depth of the next search lies in
`1 ..= limit`, hence is at most `MAX_DEPTH`, and at most `N` for `go depth N`. -/
theorem sessionF_depths (o : Ops G M) (reqs : List (Req G)) (r : Req G) :
    ∀ info ∈ (driverF o r.runs r.g (tableAfterF o {} reqs) r.off r.md).infos,
      1 ≤ info.depth ∧ info.depth ≤ limitOf r.md ∧ info.depth ≤ maxDepth ∧
      ∀ N, r.md = some N → 1 ≤ N → info.depth ≤ N :=
  (driverF_depths o r.runs r.g _ r.off r.md
    (fun e he _ => historyF_preserves_DepthPos o reqs {} DepthPos_empty _ e he)).2

/-- **A faithful node is aborted only by a cleared flag, at the first poll that sees it, and
nothing is polled afterwards**: the poll counter of the returned state is exactly the index of the
failing poll. -/
theorem nodeF_abort_first_cleared (o : Ops G M) (runs : Nat → Bool) (remaining : Nat) (g : G)
    (α β rd : Int) (st : St M) (h : (nodeF o runs remaining g α β rd st).2 = none) :
    ∃ i, st.polls ≤ i ∧ runs i = false ∧ (∀ j, st.polls ≤ j → j < i → runs j = true) ∧
      (nodeF o runs remaining g α β rd st).1.polls = i := by
  obtain ⟨hp, hr⟩ := nodeF_inv (polled_nodeInv o runs st.polls) (polled_abort runs st.polls)
    remaining g α β rd st trivial (polled_refl runs st)
  exact ⟨_, hp.1, hr h, hp.2, rfl⟩

/-- the same for the root search -/
theorem rootSearchF_abort_first_cleared (o : Ops G M) (runs : Nat → Bool) (g : G) (depth : Nat)
    (st : St M) (h : (rootSearchF o runs g depth st).2 = none) :
    ∃ i, st.polls ≤ i ∧ runs i = false ∧ (∀ j, st.polls ≤ j → j < i → runs j = true) ∧
      (rootSearchF o runs g depth st).1.polls = i := by
  obtain ⟨hp, hr⟩ := rootSearchF_inv (polled_nodeInv o runs st.polls) (polled_abort runs st.polls)
    g depth st trivial (polled_refl runs st) trivial
  exact ⟨_, hp.1, hr h, hp.2, rfl⟩

/-- **C07, stop semantics.** The faithful driver reports `stopped` only if some poll saw the flag
cleared; then the poll counter of the returned state is the index of the first such poll; in every
case each poll counted saw the flag set. -/
theorem driverF_stop_semantics (o : Ops G M) (runs : Nat → Bool) (g : G) (tt : Table M)
    (off : Bool) (md : Option Nat) :
    let out := driverF o runs g tt off md
    (out.stopped = true → ∃ i, runs i = false) ∧
    (out.stopped = true → runs out.st.polls = false) ∧
    (∀ i, i < out.st.polls → runs i = true) := by
  intro out
  obtain ⟨hp, hr⟩ := driverF_inv (polled_nodeInv o runs 0) (polled_abort runs 0) g tt off md
    trivial ⟨Nat.le_refl _, fun _ _ h => (nomatch h)⟩ (fun _ _ => trivial)
  exact ⟨fun h => ⟨_, hr h⟩, hr, fun i hi => hp.2 i (Nat.zero_le _) hi⟩

/-- **C07.** With a flag that stays up the faithful driver is not stopped, and is the dropping
driver. -/
theorem driverF_terminates_by_itself (o : Ops G M) (g : G) (tt : Table M) (off : Bool)
    (md : Option Nat) :
    (driverF o (fun _ => true) g tt off md).stopped = false ∧
      driverF o (fun _ => true) g tt off md = driver o (fun _ => true) g tt off md := by
  have h := (driver_terminates_by_itself o g tt off md).1
  exact ⟨((driverF_agrees o (fun _ => true) g tt off md).2.2).trans h,
    driverF_of_driver_unstopped o _ g tt off md h⟩

/-- **The flag matters only by aborting**: a faithful search that was not stopped returns exactly
what the search with a flag that is never cleared returns: move, reports and final state. -/
theorem driverF_unstopped_eq (o : Ops G M) (runs : Nat → Bool) (g : G) (tt : Table M) (off : Bool)
    (md : Option Nat) (h : (driverF o runs g tt off md).stopped = false) :
    driverF o runs g tt off md = driverF o (fun _ => true) g tt off md := by
  have hd : (driver o runs g tt off md).stopped = false :=
    (driverF_agrees o runs g tt off md).2.2 ▸ h
  rw [driverF_unstopped o runs g tt off md h, (driverF_terminates_by_itself o g tt off md).2]
  exact driver_unstopped_eq o runs g tt off md hd

/-- **C19.** Two faithful searches that were not stopped agree, whatever their oracles. -/
theorem driverF_flag_free_unstopped (o : Ops G M) (runs runs' : Nat → Bool) (g : G)
    (tt : Table M) (off : Bool) (md : Option Nat)
    (h : (driverF o runs g tt off md).stopped = false)
    (h' : (driverF o runs' g tt off md).stopped = false) :
    driverF o runs g tt off md = driverF o runs' g tt off md :=
  (driverF_unstopped_eq o runs g tt off md h).trans (driverF_unstopped_eq o runs' g tt off md h').symm

/-- **C19.** After a reset the result does not depend on anything that happened before. -/
theorem freshF_equiv (o : Ops G M) (runs : Nat → Bool) (g : G) (off : Bool) (md : Option Nat)
    (tt₁ tt₂ : Table M) (hist₁ hist₂ : List (Req G)) :
    driverF o runs g (resetTable (tableAfterF o tt₁ hist₁)) off md =
      driverF o runs g (resetTable (tableAfterF o tt₂ hist₂)) off md := rfl

/-! ## 4. Non-vacuity: the game of `SearchDriver.lean`, a search stopped in its third iteration

Positions `0, 1, 2` have the two moves `1, 2`, the move `m` leads from `g` to `3 * g + m`, the
position is its own hash. With the flag cleared at poll 7 the iteration of depth 3 is aborted after
its first child (position `1`, remaining depth 2) has stored its entry: the faithful driver hands on
that entry, the dropping driver does not. `Std.HashMap` does not reduce in the kernel: the concrete
facts are obtained by applying the theorems; the `#guard`s are side checks by evaluation. -/
namespace Example
open Chess.Search.Example

/-- the flag is cleared at poll 7 -/
def stopAt7 : Nat → Bool := fun i => decide (i < 7)

/-- a `go` stopped at poll 7 -/
def stoppedReq : Req UInt64 := ⟨0, none, stopAt7, false⟩

/-- whatever searches came before, each stopped wherever: the next faithful search answers a legal
move at the root -/
example (reqs : List (Req UInt64)) (runs : Nat → Bool) (off : Bool) (md : Option Nat) :
    ∃ m, (driverF ex_x runs 0 (tableAfterF ex_x {} reqs) off md).found = some m ∧ (m = 1 ∨ m = 2) := by
  have h1 := driverF_found_of_moves ex_x runs 0 (tableAfterF ex_x {} reqs) off md (by decide)
  have h2 := (sessionF_sound ex_hashOk ex_closed reqs (fun _ _ => trivial)
    ⟨0, md, runs, off⟩ trivial).1
  cases hf : (driverF ex_x runs 0 (tableAfterF ex_x {} reqs) off md).found with
  | none => rw [hf] at h1; cases h1
  | some m =>
    refine ⟨m, rfl, ?_⟩
    have := h2 m hf
    rw [ex_moves] at this
    simpa using this

/-- `none` in a position without moves, after any history of stopped searches -/
example (reqs : List (Req UInt64)) (runs : Nat → Bool) (off : Bool) (md : Option Nat) :
    (driverF ex_x runs 5 (tableAfterF ex_x {} reqs) off md).found = none :=
  (sessionF_sound ex_hashOk ex_closed reqs (fun _ _ => trivial) ⟨5, md, runs, off⟩ trivial).2.1.2
    ex_dead

/-- `go depth 2` after any history of stopped searches never reports a depth above 2 -/
example (reqs : List (Req UInt64)) (runs : Nat → Bool) (off : Bool) :
    ∀ info ∈ (driverF ex_x runs 0 (tableAfterF ex_x {} reqs) off (some 2)).infos,
      1 ≤ info.depth ∧ info.depth ≤ 2 := by
  intro info hi
  have := sessionF_depths ex_x reqs ⟨0, some 2, runs, off⟩ info hi
  exact ⟨this.1, this.2.2.2 2 rfl (by omega)⟩

/-- the search stopped at poll 7 IS stopped, in both models -/
example : (driverF ex_x stopAt7 0 {} false none).stopped = (driver ex_x stopAt7 0 {} false none).stopped :=
  (driverF_agrees ex_x stopAt7 0 {} false none).2.2

-- side checks by evaluation
-- the search is stopped, in its third iteration (two reports), in both models …
#guard (driverF ex_x stopAt7 0 {} false none).stopped == true
#guard (driver ex_x stopAt7 0 {} false none).stopped == true
#guard (driverF ex_x stopAt7 0 {} false none).infos.map (·.depth) == [1, 2]
-- … `found` and `infos` agree …
#guard (driverF ex_x stopAt7 0 {} false none).found == (driver ex_x stopAt7 0 {} false none).found
#guard (driverF ex_x stopAt7 0 {} false none).infos.map (fun i => (i.depth, i.score, i.nodes, i.pv)) ==
  (driver ex_x stopAt7 0 {} false none).infos.map (fun i => (i.depth, i.score, i.nodes, i.pv))
-- … but the faithful table is STRICTLY LARGER: it holds the entry of position `1` stored by the
-- aborted iteration of depth 3 …
#guard (driver ex_x stopAt7 0 {} false none).st.tt.size == 1
#guard (driverF ex_x stopAt7 0 {} false none).st.tt.size == 2
#guard (driver ex_x stopAt7 0 {} false none).st.tt.contains 1 == false
#guard (driverF ex_x stopAt7 0 {} false none).st.tt.contains 1 == true
#guard ((driverF ex_x stopAt7 0 {} false none).st.tt[(1 : UInt64)]?).map (·.depth) == some 2
-- … and the faithful poll counter is the index of the failing poll, the dropping one that of the
-- end of the last completed iteration
#guard (driverF ex_x stopAt7 0 {} false none).st.polls == 7
#guard (driver ex_x stopAt7 0 {} false none).st.polls == 4
-- the tables handed to the next `go` differ
#guard (tableAfterF ex_x {} [stoppedReq]).size == 2
#guard (tableAfter ex_x {} [stoppedReq]).size == 1
-- a search that is not stopped: the two drivers are equal, table included
#guard (driverF ex_x (fun _ => true) 0 {} false (some 4)).st.tt.toList.map (fun p => (p.1, p.2.depth, p.2.score)) ==
  (driver ex_x (fun _ => true) 0 {} false (some 4)).st.tt.toList.map (fun p => (p.1, p.2.depth, p.2.score))
-- with the table-less hook on, a stop at the very first poll empties the faithful table (the table
-- is emptied before the flag is read), the dropping model keeps it: the faithful table is not
-- always the larger one
#guard (driverF ex_x (fun _ => false) 0 (({} : Table Nat).insert 77 ⟨0, none, 1, .lower⟩) true none).st.tt.size == 0
#guard (driver ex_x (fun _ => false) 0 (({} : Table Nat).insert 77 ⟨0, none, 1, .lower⟩) true none).st.tt.size == 1

end Example

/-! ## Axioms -/

#print axioms nodeF_some_iff
#print axioms nodeLoopF_some_iff
#print axioms rootLoopF_some_iff
#print axioms rootSearchF_some_iff
#print axioms driverF_agrees
#print axioms driverF_unstopped
#print axioms driverF_of_driver_unstopped
#print axioms nodeF_inv
#print axioms rootSearchF_inv
#print axioms driverF_inv
#print axioms nodeF_preserves_TTInv
#print axioms rootSearchF_preserves_TTInv
#print axioms driverF_preserves_TTInv
#print axioms nodeF_preserves_DepthPos
#print axioms rootSearchF_preserves_DepthPos
#print axioms driverF_preserves_DepthPos
#print axioms nodeF_polled
#print axioms driverF_found_of_moves
#print axioms driverF_sound
#print axioms historyF_preserves_TTInv
#print axioms sessionF_sound
#print axioms sessionF_depths
#print axioms driverF_depths_partial
#print axioms driverF_depths
#print axioms driverF_stop_semantics
#print axioms driverF_terminates_by_itself
#print axioms nodeF_abort_first_cleared
#print axioms rootSearchF_abort_first_cleared
#print axioms driverF_unstopped_eq
#print axioms driverF_flag_free_unstopped
#print axioms freshF_equiv

end Chess.Search.F
