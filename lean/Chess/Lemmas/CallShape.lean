import Chess.Lemmas.CallShapeAux2
import Chess.Lemmas.CallShapeAux3
import Chess.Lemmas.Reach
import Chess.Lemmas.Bounds

/-!
# The call shape of the search is a theorem: no table access of the faithful driver is out of range

`search.rs` indexes `killer_moves[real_depth as usize]` (32 entries) and `history[index]`
(768 entries) with CHECKED indexing: an index outside the table is a panic. The model
(`Chess/Model/SearchF.lean`) uses the total accessors `getD` / `setIfInBounds`, for which an index
outside the table silently does nothing: if the model ever left the table it would misrepresent the
code exactly where the code fails. So far this was covered by the arithmetic lemma
`Search.killer_index_ok` plus the remark that the call shape `remaining + rd = depth` "is read off
the model". Here the remark is a theorem.

`CallShapeAux1` defines the STRICT search `nodeS … driverS`: the faithful search `nodeF … driverF`
over a state with three sticky flags (`oobK`: a killer access missed the table; `oobH`: a history
update missed the table; `offShape`: a node was entered with `(remaining, rd)` rejected by an
observer supplied by the caller).

* `CallShapeAux2` (erasure, unconditional): the `St` component and the answers of the strict search
  are those of the faithful search, and a raised flag is never lowered. So "the flags are down at
  the end of `driverS`" says that in the run of `driverF` no access missed and no call was rejected.
* `CallShapeAux3`: `CallsFrom`/`Calls`, the call shape, and the induction on `remaining` showing
  that on the shape no flag is raised.
* this file: the statements for the node, the root search and the driver, for EVERY table, EVERY
  oracle `runs`, EVERY `maxDepthArg`; the chess instance; and examples in which the flags ARE raised
  when the shape is violated (`rd = 40`; and `rd = 32, remaining = 2`: the bound is sharp).

Results.
* `driverF_killer_accesses_in_range`: no hypothesis at all.
* `driverF_table_accesses_in_range`: killers and history, under `HistOk o A` (a property of the game:
  the history index of a checked move of an admissible position is `< Gen.historyLen`), `A g`;
  for chess `A = Game.WF` (`chess_histOk`), in particular every reachable game.
* `driverF_calls_on_shape` / `rootSearchF_calls_on_shape`: every node call made satisfies
  `Calls depth`, i.e. `remaining + rd = depth`, `1 ≤ rd` (`Calls.shape`, `calls_iff`).
* The killer table has one entry to spare on each side: the accesses have `1 ≤ rd ≤ depth - 2`, so a
  depth of `Gen.killerLen + 1 = 33` would still be inside (`rootSearchF_killer_accesses_in_range`),
  and `rd = 32` with `remaining = 2` (depth 34) is outside (`Example`).

Not covered: the history READS made while sorting (`o.orderKey m (fun i => history.getD i 0)`):
`orderKey` is an opaque function of the game interface. For chess it reads the table at the single
index `m.indexHistory` (`chess_orderKey_reads`), the index of the update covered here.
-/
namespace Chess.Search.Shape

open Chess.Search Chess.Search.F

variable {G M : Type}

theorem ss_eq_ok {s : SS M} {st : St M} (h1 : s.st = st) (h2 : s.oobK = false)
    (h3 : s.oobH = false) (h4 : s.offShape = false) : s = SS.ok st := by
  cases s
  simp only [] at h1 h2 h3 h4
  subst h1; subst h2; subst h3; subst h4
  rfl

theorem driverOutS_eq {r : DriverOutS M} {out : DriverOut M} (h1 : r.out = out)
    (h2 : r.oobK = false) (h3 : r.oobH = false) (h4 : r.offShape = false) :
    r = ⟨out, false, false, false⟩ := by
  cases r
  simp only [] at h1 h2 h3 h4
  subst h1; subst h2; subst h3; subst h4
  rfl

/-- `MAX_DEPTH` fits the killer table with one entry to spare -/
theorem maxDepth_le_killerLen : maxDepth ≤ Gen.killerLen + 1 := by decide

/-- the trivial game hypothesis used when the history part is switched off -/
theorem histOk_of_false (o : Ops G M) : False → HistOk o (fun _ => True) := fun h => h.elim

variable [DecidableEq M]

/-! ## 1. The node -/

/-- **The call shape below a node** (no hypothesis on sizes or depths): whatever observer accepts
the calls `CallsFrom remaining rd`, it accepts every node call made by `nodeF … remaining … rd`. -/
theorem nodeF_calls_on_shape (o : Ops G M) (runs : Nat → Bool) (obs : Nat → Int → Bool)
    (remaining : Nat) (g : G) (α β rd : Int) (s : SS M)
    (hobs : ∀ r rd', CallsFrom remaining rd r rd' → obs r rd' = true) :
    (nodeS o runs obs remaining g α β rd s).1.offShape = s.offShape :=
  (nodeS_keeps (K := False) (C := False) o runs obs (fun _ => True) (histOk_of_false o)
    remaining rd (fun h => h.elim) hobs remaining g α β rd s (fun h => h.elim) CallsFrom.root
    ⟨fun h => h.elim, fun h => h.elim⟩).c

/-- **The node**: if `rd.toNat + remaining ≤ Gen.killerLen + 1` and the killer table has
`Gen.killerLen` entries, the strict node is the faithful node, no killer access misses, and the
table keeps its size. -/
theorem nodeF_killer_accesses_in_range (o : Ops G M) (runs : Nat → Bool) (obs : Nat → Int → Bool)
    (remaining : Nat) (g : G) (α β rd : Int) (s : SS M)
    (hshape : rd.toNat + remaining ≤ Gen.killerLen + 1)
    (hsize : s.st.killers.size = Gen.killerLen)
    (hobs : ∀ r rd', CallsFrom remaining rd r rd' → obs r rd' = true) :
    (nodeS o runs obs remaining g α β rd s).1.st = (nodeF o runs remaining g α β rd s.st).1 ∧
    (nodeS o runs obs remaining g α β rd s).2 = (nodeF o runs remaining g α β rd s.st).2 ∧
    (nodeS o runs obs remaining g α β rd s).1.oobK = s.oobK ∧
    (nodeS o runs obs remaining g α β rd s).1.offShape = s.offShape ∧
    (nodeF o runs remaining g α β rd s.st).1.killers.size = Gen.killerLen := by
  have e := nodeS_erase o runs obs remaining g α β rd s
  have k := nodeS_keeps (K := True) (C := False) o runs obs (fun _ => True) (histOk_of_false o)
    remaining rd (fun _ => by omega) hobs remaining g α β rd s (fun h => h.elim) CallsFrom.root
    ⟨fun _ => hsize, fun h => h.elim⟩
  exact ⟨e.st, e.val, k.k trivial, k.c, e.st ▸ k.good.1 trivial⟩

/-- **The node, both tables**, for a game satisfying `HistOk o A`: started with the flags down, the
strict node IS the faithful node with the flags down. -/
theorem nodeF_table_accesses_in_range (o : Ops G M) (runs : Nat → Bool) (obs : Nat → Int → Bool)
    (A : G → Prop) (hH : HistOk o A) (remaining : Nat) (g : G) (α β rd : Int) (st : St M)
    (hA : A g) (hshape : rd.toNat + remaining ≤ Gen.killerLen + 1)
    (hsize : st.killers.size = Gen.killerLen) (hhist : st.history.size = Gen.historyLen)
    (hobs : ∀ r rd', CallsFrom remaining rd r rd' → obs r rd' = true) :
    nodeS o runs obs remaining g α β rd (SS.ok st) =
      (SS.ok (nodeF o runs remaining g α β rd st).1, (nodeF o runs remaining g α β rd st).2) := by
  have e := nodeS_erase o runs obs remaining g α β rd (SS.ok st)
  have k := nodeS_keeps (K := True) (C := True) o runs obs A (fun _ => hH)
    remaining rd (fun _ => by omega) hobs remaining g α β rd (SS.ok st) (fun _ => hA) CallsFrom.root
    ⟨fun _ => hsize, fun _ => hhist⟩
  exact Prod.ext (ss_eq_ok e.st (k.k trivial) (k.h trivial) k.c) e.val

/-! ## 2. The root search -/

/-- **The call shape of a root search**, for every depth and every state: whatever observer accepts
`Calls depth`, it accepts every node call made by `rootSearchF … depth`. -/
theorem rootSearchF_calls_on_shape (o : Ops G M) (runs : Nat → Bool) (obs : Nat → Int → Bool) (g : G)
    (depth : Nat) (s : SS M) (hobs : ∀ r rd, Calls depth r rd → obs r rd = true) :
    (rootSearchS o runs obs g depth s).1.offShape = s.offShape :=
  (rootSearchS_keeps (K := False) (C := False) o runs obs (fun _ => True) (histOk_of_false o) g depth
    (fun h => h.elim) hobs s (fun h => h.elim) (fun h => h.elim)).c

/-- in words: every node call of `rootSearchF … depth`, `depth ≥ 1`, has
`remaining + rd = depth` and `1 ≤ rd` -/
theorem rootSearchF_calls_sum (o : Ops G M) (runs : Nat → Bool) (g : G) (depth : Nat) (s : SS M)
    (hd : 1 ≤ depth) :
    (rootSearchS o runs (fun r rd => decide ((r : Int) + rd = depth ∧ 1 ≤ rd)) g depth s).1.offShape =
      s.offShape :=
  rootSearchF_calls_on_shape o runs _ g depth s
    (fun r rd h => decide_eq_true (by have := h.shape hd; omega))

/-- **The root search**: for `depth ≤ Gen.killerLen + 1` (one more than `MAX_DEPTH`), whatever the
state it is started in (the killer table is replaced), the strict root search is the faithful one
and no killer access misses. -/
theorem rootSearchF_killer_accesses_in_range (o : Ops G M) (runs : Nat → Bool)
    (obs : Nat → Int → Bool) (g : G) (depth : Nat) (s : SS M) (hd : depth ≤ Gen.killerLen + 1)
    (hobs : ∀ r rd, Calls depth r rd → obs r rd = true) :
    (rootSearchS o runs obs g depth s).1.st = (rootSearchF o runs g depth s.st).1 ∧
    (rootSearchS o runs obs g depth s).2 = (rootSearchF o runs g depth s.st).2 ∧
    (rootSearchS o runs obs g depth s).1.oobK = s.oobK ∧
    (rootSearchS o runs obs g depth s).1.offShape = s.offShape := by
  have e := rootSearchS_erase o runs obs g depth s
  have k := rootSearchS_keeps (K := True) (C := False) o runs obs (fun _ => True) (histOk_of_false o)
    g depth (fun _ => hd) hobs s (fun h => h.elim) (fun h => h.elim)
  exact ⟨e.st, e.val, k.k trivial, k.c⟩

/-- **The root search, both tables.** -/
theorem rootSearchF_table_accesses_in_range (o : Ops G M) (runs : Nat → Bool)
    (obs : Nat → Int → Bool) (A : G → Prop) (hH : HistOk o A) (g : G) (depth : Nat) (st : St M)
    (hA : A g) (hd : depth ≤ Gen.killerLen + 1) (hhist : st.history.size = Gen.historyLen)
    (hobs : ∀ r rd, Calls depth r rd → obs r rd = true) :
    rootSearchS o runs obs g depth (SS.ok st) =
      (SS.ok (rootSearchF o runs g depth st).1, (rootSearchF o runs g depth st).2) ∧
    (rootSearchF o runs g depth st).1.history.size = Gen.historyLen := by
  have e := rootSearchS_erase o runs obs g depth (SS.ok st)
  have k := rootSearchS_keeps (K := True) (C := True) o runs obs A (fun _ => hH)
    g depth (fun _ => hd) hobs (SS.ok st) (fun _ => hA) (fun _ => hhist)
  exact ⟨Prod.ext (ss_eq_ok e.st (k.k trivial) (k.h trivial) k.c) e.val, e.st ▸ k.hist trivial⟩

/-! ## 3. The driver -/

/-- the flags of the strict driver, generic form -/
theorem driverS_keeps {K C : Prop} (o : Ops G M) (runs : Nat → Bool) (obs : Nat → Nat → Int → Bool)
    (A : G → Prop) (hH : C → HistOk o A) (g : G) (hA : C → A g) (tt : Table M) (off : Bool)
    (md : Option Nat)
    (hobs : ∀ d, d ≤ limitOf md → ∀ r rd, Calls d r rd → obs d r rd = true) :
    KeepsOut K C (SS.ok (initSt tt off)) (driverS o runs obs g tt off md) :=
  driverLoopS_keeps o runs obs A hH g hA (limitOf md)
    (fun _ => Nat.le_trans (limitOf_le_maxDepth md) maxDepth_le_killerLen) hobs _ _
    (startDepth_le_limit o g tt md) _ _ _ (fun _ => Array.size_replicate)

/-- **The call shape of the driver**: for every table, oracle and depth argument, every node call
made during iteration `d` of `driverF` satisfies `Calls d` (and `d ≤ limitOf md ≤ MAX_DEPTH`):
whatever observer accepts these calls is never violated. -/
theorem driverF_calls_on_shape (o : Ops G M) (runs : Nat → Bool) (obs : Nat → Nat → Int → Bool)
    (g : G) (tt : Table M) (off : Bool) (md : Option Nat)
    (hobs : ∀ d, d ≤ limitOf md → ∀ r rd, Calls d r rd → obs d r rd = true) :
    (driverS o runs obs g tt off md).offShape = false :=
  (driverS_keeps (K := False) (C := False) o runs obs (fun _ => True) (histOk_of_false o) g
    (fun h => h.elim) tt off md hobs).c

/-- in words: every node call of the driver has `remaining + rd = max depth 1`, where `depth` is the
depth of the iteration, and `1 ≤ rd ≤ MAX_DEPTH`, `remaining < MAX_DEPTH` (the bound the per-ply
stacks of C15 need) -/
theorem driverF_calls_sum (o : Ops G M) (runs : Nat → Bool) (g : G) (tt : Table M) (off : Bool)
    (md : Option Nat) :
    (driverS o runs
      (fun d r rd => decide ((r : Int) + rd = max d 1 ∧ 1 ≤ rd ∧ rd ≤ maxDepth ∧ r < maxDepth))
      g tt off md).offShape = false :=
  driverF_calls_on_shape o runs _ g tt off md (fun d hd r rd h => decide_eq_true (by
    have h1 := calls_iff.1 h
    have h2 := limitOf_le_maxDepth md
    have h3 : maxDepth = 32 := rfl
    omega))

/-- **Main theorem, killer table. No hypothesis**: for every game interface, oracle, position, table,
hook setting and depth argument, the `DriverOut` of the strict driver is that of `driverF`, no
killer access of the run was out of range, and every node call was on the shape `Calls depth`. -/
theorem driverF_killer_accesses_in_range (o : Ops G M) (runs : Nat → Bool) (g : G) (tt : Table M)
    (off : Bool) (md : Option Nat) :
    (driverS o runs shapeObs g tt off md).out = driverF o runs g tt off md ∧
    (driverS o runs shapeObs g tt off md).oobK = false ∧
    (driverS o runs shapeObs g tt off md).offShape = false := by
  have k := driverS_keeps (K := True) (C := False) o runs shapeObs (fun _ => True)
    (histOk_of_false o) g (fun h => h.elim) tt off md (fun d _ r rd h => shapeObs_iff.2 h)
  exact ⟨driverS_out o runs shapeObs g tt off md, k.k trivial, k.c⟩

/-- **Main theorem, both tables**, for a game satisfying `HistOk o A` and a position satisfying `A`:
the strict driver IS the faithful driver with all flags down. -/
theorem driverF_table_accesses_in_range (o : Ops G M) (A : G → Prop) (hH : HistOk o A)
    (runs : Nat → Bool) (g : G) (hA : A g) (tt : Table M) (off : Bool) (md : Option Nat) :
    driverS o runs shapeObs g tt off md = ⟨driverF o runs g tt off md, false, false, false⟩ := by
  have k := driverS_keeps (K := True) (C := True) o runs shapeObs A (fun _ => hH) g (fun _ => hA)
    tt off md (fun d _ r rd h => shapeObs_iff.2 h)
  exact driverOutS_eq (driverS_out o runs shapeObs g tt off md) (k.k trivial) (k.h trivial) k.c

/-- the same for a whole session: the table handed on by any history of searches, each possibly
stopped, is just another table -/
theorem sessionF_table_accesses_in_range (o : Ops G M) (A : G → Prop) (hH : HistOk o A)
    (reqs : List (Req G)) (r : Req G) (hA : A r.g) :
    driverS o r.runs shapeObs r.g (tableAfterF o {} reqs) r.off r.md =
      ⟨driverF o r.runs r.g (tableAfterF o {} reqs) r.off r.md, false, false, false⟩ :=
  driverF_table_accesses_in_range o A hH r.runs r.g hA _ r.off r.md

/-! ## 4. The flags ARE raised off the shape -/

omit [DecidableEq M] in
theorem observe_idem (obs : Nat → Int → Bool) (r : Nat) (rd : Int) (s : SS M) :
    observe obs r rd (observe obs r rd s) = observe obs r rd s := by
  unfold observe
  cases obs r rd <;> rfl

theorem nodeS_observe (o : Ops G M) (runs : Nat → Bool) (obs : Nat → Int → Bool) (remaining : Nat)
    (g : G) (α β rd : Int) (s : SS M) :
    nodeS o runs obs remaining g α β rd (observe obs remaining rd s) =
      nodeS o runs obs remaining g α β rd s := by
  rw [nodeS_eq, nodeS_eq, observe_idem]

/-- a node call rejected by the observer raises `offShape` -/
theorem nodeS_offShape_of_rejected (o : Ops G M) (runs : Nat → Bool) (obs : Nat → Int → Bool)
    (remaining : Nat) (g : G) (α β rd : Int) (s : SS M) (h : obs remaining rd = false) :
    (nodeS o runs obs remaining g α β rd s).1.offShape = true := by
  rw [← nodeS_observe]
  exact (nodeS_erase o runs obs remaining g α β rd _).sticky.c (observe_of_false obs remaining rd s h)

/-- an interior node that gets as far as sorting its moves with `rd` outside the killer table raises
`oobK` -/
theorem nodeS_oobK_of_out_of_range (o : Ops G M) (runs : Nat → Bool) (obs : Nat → Int → Bool)
    (r : Nat) (g : G) (α β rd : Int) (s : SS M) (hruns : runs s.st.polls = true)
    (hcut : ttCut (ttGet (pollSt s.st) (o.hash g)) (r + 2) α β = none)
    (hmoves : (o.checked g).isEmpty = false) (hrd : s.st.killers.size ≤ rd.toNat) :
    (nodeS o runs obs (r + 2) g α β rd s).1.oobK = true := by
  rw [nodeS_eq]
  simp only [observe_st, hruns, Bool.not_true, Bool.false_eq_true, if_false, hcut, hmoves]
  have hk : (readKiller ({ observe obs (r + 2) rd s with st := pollSt s.st } : SS M) rd.toNat).2.oobK
      = true := readKiller_oobK_of_ge _ _ hrd
  generalize readKiller ({ observe obs (r + 2) rd s with st := pollSt s.st } : SS M) rd.toNat = k
    at hk ⊢
  have hl := (nodeLoopS_erase o (nodeS o runs obs (r + 1)) (nodeF o runs (r + 1)) g (r + 2) rd β
    (nodeMovesK o g k.1 k.2.st) (fun m _ a b r' s2 => nodeS_erase o runs obs _ _ _ _ _ _)
    0 α scoreMin none k.2).sticky.k hk
  cases hS : nodeLoopS o (nodeS o runs obs (r + 1)) g (r + 2) rd β
      (nodeMovesK o g k.1 k.2.st) 0 α scoreMin none k.2 with
  | mk s1 x =>
    rw [hS] at hl
    cases x with
    | none => exact hl
    | some y => exact hl

/-! ## 5. Chess -/

/-- **the chess instance of the game hypothesis**: in a well-formed game every generated move fits
the board, so its history index is `asIndex * 64 + idx < 768` -/
theorem chess_histOk : HistOk Uci.chessOps Game.WF where
  closed := chess_closed
  idx := fun g _ hw hm _ hi =>
    Bounds.index_history_lt_of_fits (Game.getMoves_fits hw true (show _ ∈ (g.getMoves true).1 from hm)).1 hi

/-- chess, killer table: no hypothesis on the position -/
example (runs : Nat → Bool) (g : Game) (tt : Table Move) (off : Bool) (md : Option Nat) :
    (driverS Uci.chessOps runs shapeObs g tt off md).out = driverF Uci.chessOps runs g tt off md ∧
    (driverS Uci.chessOps runs shapeObs g tt off md).oobK = false ∧
    (driverS Uci.chessOps runs shapeObs g tt off md).offShape = false :=
  driverF_killer_accesses_in_range Uci.chessOps runs g tt off md

/-- chess, both tables: every well-formed game -/
theorem chess_table_accesses_in_range (runs : Nat → Bool) (g : Game) (hw : g.WF) (tt : Table Move)
    (off : Bool) (md : Option Nat) :
    driverS Uci.chessOps runs shapeObs g tt off md =
      ⟨driverF Uci.chessOps runs g tt off md, false, false, false⟩ :=
  driverF_table_accesses_in_range Uci.chessOps Game.WF chess_histOk runs g hw tt off md

/-- chess, both tables: every game the UCI layer can reach, after any session -/
example (reqs : List (Req Game)) (r : Req Game) (hr : Reach r.g) :
    driverS Uci.chessOps r.runs shapeObs r.g (tableAfterF Uci.chessOps {} reqs) r.off r.md =
      ⟨driverF Uci.chessOps r.runs r.g (tableAfterF Uci.chessOps {} reqs) r.off r.md,
        false, false, false⟩ :=
  sessionF_table_accesses_in_range Uci.chessOps Game.WF chess_histOk reqs r (reach_wf hr)

/-- the history reads made while sorting, for chess: `move_score` reads the table at the single
index `m.indexHistory` (the index of the update at a cut-off), and only for a quiet normal move -/
theorem chess_orderKey_reads (m : Move) (f f' : Nat → Nat)
    (h : ∀ i, m.indexHistory = some i → f i = f' i) : Uci.orderKey m f = Uci.orderKey m f' := by
  cases m with
  | normal pc s e cap =>
    cases cap with
    | some c => rfl
    | none =>
      have := h _ rfl
      simp only [Uci.orderKey, Move.indexHistory, Option.getD_some]
      rw [this]
  | promotion o t s e cap => rfl
  | enPassant o sc ec => rfl
  | castlingLong o => rfl
  | castlingShort o => rfl

/-! ## 6. Non-vacuity, on the game of `SearchDriver.lean` (positions `0, 1, 2` have the moves `1, 2`)

`Std.HashMap` does not reduce in the kernel: the kernel-checked facts are obtained by applying the
theorems; the `#guard`s are side checks by evaluation. -/
namespace Example
open Chess.Search.Example

/-- the observer that accepts everything -/
def anyObs : Nat → Int → Bool := fun _ _ => true

theorem ex_noCut (off : Bool) (r : Nat) (α β : Int) :
    ttCut (ttGet (pollSt (initSt ({} : Table Nat) off)) (ex_x.hash 0)) r α β = none := by
  have : ttGet (pollSt (initSt ({} : Table Nat) off)) (ex_x.hash 0) = none := by
    unfold ttGet pollSt initSt
    cases off <;> exact Std.HashMap.getElem?_empty
  rw [this]
  rfl

/-- **off the shape the flag IS raised**: `rd = 40`, `remaining = 2` -/
example (α β : Int) :
    (nodeS ex_x (fun _ => true) anyObs 2 0 α β 40 (SS.ok (initSt {} false))).1.oobK = true :=
  nodeS_oobK_of_out_of_range ex_x _ anyObs 0 0 α β 40 _ rfl (ex_noCut false 2 α β) (by decide)
    (by decide)

/-- **the bound `rd.toNat + remaining ≤ Gen.killerLen + 1` is sharp**: `rd = 32`, `remaining = 2`
(what a root search of depth 34 would call) raises the flag … -/
example (α β : Int) :
    (nodeS ex_x (fun _ => true) anyObs 2 0 α β 32 (SS.ok (initSt {} false))).1.oobK = true :=
  nodeS_oobK_of_out_of_range ex_x _ anyObs 0 0 α β 32 _ rfl (ex_noCut false 2 α β) (by decide)
    (by decide)

/-- … `rd = 31`, `remaining = 2` (depth 33) does not … -/
example (α β : Int) :
    (nodeS ex_x (fun _ => true) anyObs 2 0 α β 31 (SS.ok (initSt {} false))).1.oobK = false :=
  (nodeF_killer_accesses_in_range ex_x _ anyObs 2 0 α β 31 (SS.ok (initSt {} false)) (by decide)
    (by decide) (fun _ _ _ => rfl)).2.2.1

/-- … nor does any search of the driver, whatever the oracle, the table and the depth argument -/
example (runs : Nat → Bool) (g : UInt64) (tt : Table Nat) (off : Bool) (md : Option Nat) :
    (driverS ex_x runs shapeObs g tt off md).oobK = false :=
  (driverF_killer_accesses_in_range ex_x runs g tt off md).2.1

/-- the observer is not vacuous either: a node call it rejects raises `offShape` -/
example (α β : Int) :
    (nodeS ex_x (fun _ => true) (fun r rd => decide ((r : Int) + rd = 3)) 2 0 α β 2
      (SS.ok (initSt {} false))).1.offShape = true :=
  nodeS_offShape_of_rejected ex_x _ _ 2 0 α β 2 _ (by decide)

-- side checks by evaluation
-- the driver on the shape: all flags down, same reports, same table as `driverF`
#guard (driverS ex_x (fun _ => true) shapeObs 0 {} false (some 6)).oobK == false
#guard (driverS ex_x (fun _ => true) shapeObs 0 {} false (some 6)).oobH == false
#guard (driverS ex_x (fun _ => true) shapeObs 0 {} false (some 6)).offShape == false
#guard (driverS ex_x (fun _ => true) shapeObs 0 {} false (some 6)).out.infos.map (fun i => (i.depth, i.score, i.nodes, i.pv)) ==
  (driverF ex_x (fun _ => true) 0 {} false (some 6)).infos.map (fun i => (i.depth, i.score, i.nodes, i.pv))
#guard (driverS ex_x (fun _ => true) shapeObs 0 {} false (some 6)).out.st.killers ==
  (driverF ex_x (fun _ => true) 0 {} false (some 6)).st.killers
#guard (driverS ex_x (fun _ => true) shapeObs 0 {} false (some 6)).out.st.history ==
  (driverF ex_x (fun _ => true) 0 {} false (some 6)).st.history
-- the killer table IS used by this search (so the checked accesses are exercised)
#guard (driverF ex_x (fun _ => true) 0 {} false (some 6)).st.killers.any (·.isSome)
-- a wrong shape is seen: an observer that wants `remaining + rd = depth + 1`
#guard (driverS ex_x (fun _ => true) (fun d r rd => decide ((r : Int) + rd = d + 1)) 0 {} false (some 3)).offShape == true
-- off the shape: killer read and write at 40
#guard (nodeS ex_x (fun _ => true) anyObs 2 0 (-100) 100 40 (SS.ok (initSt {} false))).1.oobK == true
#guard (nodeS ex_x (fun _ => true) anyObs 2 0 (-100) 100 31 (SS.ok (initSt {} false))).1.oobK == false
-- a history table that is too short: the update at the cut-off is seen (`histIdx m = some m`)
#guard (nodeS ex_x (fun _ => true) anyObs 2 0 (-100) (-50) 1
  (SS.ok { initSt {} false with history := #[] })).1.oobH == true
#guard (nodeS ex_x (fun _ => true) anyObs 2 0 (-100) (-50) 1 (SS.ok (initSt {} false))).1.oobH == false

end Example

/-! ## Axioms -/

#print axioms CallsFrom.shape
#print axioms callsFrom_iff
#print axioms Calls.shape
#print axioms calls_iff
#print axioms nodeS_erase
#print axioms rootSearchS_erase
#print axioms driverLoopS_erase
#print axioms driverS_out
#print axioms nodeS_keeps
#print axioms rootSearchS_keeps
#print axioms driverLoopS_keeps
#print axioms nodeF_calls_on_shape
#print axioms nodeF_killer_accesses_in_range
#print axioms nodeF_table_accesses_in_range
#print axioms rootSearchF_calls_on_shape
#print axioms rootSearchF_calls_sum
#print axioms rootSearchF_killer_accesses_in_range
#print axioms rootSearchF_table_accesses_in_range
#print axioms driverF_calls_on_shape
#print axioms driverF_calls_sum
#print axioms driverF_killer_accesses_in_range
#print axioms driverF_table_accesses_in_range
#print axioms sessionF_table_accesses_in_range
#print axioms nodeS_offShape_of_rejected
#print axioms nodeS_oobK_of_out_of_range
#print axioms chess_histOk
#print axioms chess_table_accesses_in_range
#print axioms chess_orderKey_reads

end Chess.Search.Shape
