import Chess.Lemmas.FenAux
import Chess.Lemmas.FenRead

/-!
# C11 — the exported FEN describes the position (writer side)

For every game `g` whose en-passant nibble is a legal value (`g.top.enPassant ≤ 8`, `WF.ep`):
the text `g.fen4` / `g.fen` splits into four / six non-empty fields, the placement field
has eight ranks each expanding to exactly the eight squares of that row, no two digits are
adjacent, and both the loose and the strict reading of the specification give back `g.abs`.
-/
namespace Chess

/-! ### digits written by the run-length encoder -/

theorem natToChars_digit : ∀ n : Fin 9, 1 ≤ n.val →
    natToChars n.val = [Char.ofNat (48 + n.val)] := by
  decide

theorem digitChar_facts : ∀ n : Fin 9, 1 ≤ n.val →
    isD18 (Char.ofNat (48 + n.val)) = true ∧ (Char.ofNat (48 + n.val)).toNat - 48 = n.val := by
  decide

theorem natToChars_eq {n : Nat} (h1 : 1 ≤ n) (h8 : n ≤ 8) :
    ∃ d, natToChars n = [d] ∧ isD18 d = true ∧ d.toNat - 48 = n := by
  have h := natToChars_digit ⟨n, by omega⟩ h1
  have h' := digitChar_facts ⟨n, by omega⟩ h1
  exact ⟨_, h, h'.1, h'.2⟩

/-- the eight squares of row `r`, file a first -/
def rowSquares (g : Game) (r : Int) : List (Option Piece) :=
  (List.range 8).map (fun (c : Nat) => g.get ⟨r, (c : Int)⟩)

theorem rowSquares_length (g : Game) (r : Int) : (rowSquares g r).length = 8 := by
  simp [rowSquares]

theorem expandRank_natToChars {n : Nat} (h1 : 1 ≤ n) (h8 : n ≤ 8) (cs : List Char) :
    Spec.expandRank (natToChars n ++ cs)
      = (Spec.expandRank cs).map (fun rest => List.replicate n none ++ rest) := by
  obtain ⟨d, hd, h18, hn⟩ := natToChars_eq h1 h8
  rw [hd, List.singleton_append, expandRank_digit h18, hn]

/-! ### one rank -/

theorem expandRank_fenRow_go (g : Game) (row : Int) : ∀ (cs : List Nat) (e : Nat),
    e + cs.length ≤ 8 →
    Spec.expandRank (fenRow.go g row cs e)
      = some (List.replicate e none ++ cs.map (fun (c : Nat) => g.get ⟨row, (c : Int)⟩)) := by
  intro cs
  induction cs with
  | nil =>
    intro e he
    unfold fenRow.go
    by_cases h0 : e > 0
    · rw [if_pos h0]
      have := expandRank_natToChars (n := e) h0 (by simpa using he) []
      rw [List.append_nil] at this
      rw [this]; simp [Spec.expandRank]
    · have : e = 0 := by omega
      subst this
      simp [Spec.expandRank]
  | cons c cs ih =>
    intro e he
    simp only [List.length_cons] at he
    unfold fenRow.go
    cases hg : g.get ⟨row, (c : Int)⟩ with
    | none =>
      simp only
      rw [ih (e + 1) (by omega)]
      simp [List.replicate_succ', hg]
    | some pc =>
      simp only
      have hl : Spec.expandRank (pc.asCharAscii :: fenRow.go g row cs 0)
          = some (some pc :: cs.map (fun (c : Nat) => g.get ⟨row, (c : Int)⟩)) := by
        rw [asCharAscii_eq, expandRank_letter (alpha_facts (letter_isAlpha pc)).2.2.1
          (pieceOfLetter_letter pc), ih 0 (by omega)]
        simp
      by_cases h0 : e > 0
      · rw [if_pos h0, expandRank_natToChars h0 (by omega), hl]
        simp [hg]
      · have : e = 0 := by omega
        subst this
        simp [hl, hg]

/-- **Heart of C11**: a written rank expands to exactly the eight squares of that row. -/
theorem expandRank_fenRow (g : Game) (row : Int) :
    Spec.expandRank (fenRow g row) = some (rowSquares g row) := by
  unfold fenRow rowSquares
  rw [expandRank_fenRow_go g row (List.range 8) 0 (by simp)]
  simp

/-- characters of a rank: piece letters and the digits 1–8 -/
def RowChar (c : Char) : Prop := c.isAlpha = true ∨ isD18 c = true

theorem fenRow_go_chars (g : Game) (row : Int) : ∀ (cs : List Nat) (e : Nat),
    e + cs.length ≤ 8 → ∀ x ∈ fenRow.go g row cs e, RowChar x := by
  intro cs
  induction cs with
  | nil =>
    intro e he x hx
    unfold fenRow.go at hx
    by_cases h0 : e > 0
    · rw [if_pos h0] at hx
      obtain ⟨d, hd, h18, _⟩ := natToChars_eq (n := e) h0 (by simpa using he)
      rw [hd] at hx
      simp only [List.mem_singleton] at hx
      subst hx; exact Or.inr h18
    · rw [if_neg h0] at hx; cases hx
  | cons c cs ih =>
    intro e he x hx
    simp only [List.length_cons] at he
    unfold fenRow.go at hx
    cases hg : g.get ⟨row, (c : Int)⟩ with
    | none =>
      rw [hg] at hx
      exact ih (e + 1) (by omega) x hx
    | some pc =>
      rw [hg] at hx
      simp only [List.mem_append, List.mem_cons] at hx
      rcases hx with hx | hx | hx
      · by_cases h0 : e > 0
        · rw [if_pos h0] at hx
          obtain ⟨d, hd, h18, _⟩ := natToChars_eq (n := e) h0 (by omega)
          rw [hd] at hx
          simp only [List.mem_singleton] at hx
          subst hx; exact Or.inr h18
        · rw [if_neg h0] at hx; cases hx
      · subst hx
        rw [asCharAscii_eq]; exact Or.inl (letter_isAlpha pc)
      · exact ih 0 (by omega) x hx

theorem fenRow_chars (g : Game) (row : Int) : ∀ x ∈ fenRow g row, RowChar x := by
  unfold fenRow
  exact fenRow_go_chars g row (List.range 8) 0 (by simp)

theorem rowChar_ne_slash {c : Char} (h : RowChar c) : c ≠ '/' := by
  rcases h with h | h
  · exact (alpha_facts h).2.2.2
  · exact (digit_facts (d18_isDigit h)).2.1

/-! ### no adjacent digits -/

theorem nad_cons_nondigit {c : Char} {l : List Char} (hc : c.isDigit = false)
    (h : Spec.noAdjacentDigits l = true) : Spec.noAdjacentDigits (c :: l) = true := by
  cases l with
  | nil => rfl
  | cons b rest => simp [Spec.noAdjacentDigits, hc, h]

theorem nad_digit_nondigit {d c : Char} {l : List Char} (hc : c.isDigit = false)
    (h : Spec.noAdjacentDigits l = true) : Spec.noAdjacentDigits (d :: c :: l) = true := by
  have := nad_cons_nondigit hc h
  simp [Spec.noAdjacentDigits, hc, this]

theorem nad_fenRow_go (g : Game) (row : Int) : ∀ (cs : List Nat) (e : Nat),
    e + cs.length ≤ 8 → Spec.noAdjacentDigits (fenRow.go g row cs e) = true := by
  intro cs
  induction cs with
  | nil =>
    intro e he
    unfold fenRow.go
    by_cases h0 : e > 0
    · rw [if_pos h0]
      obtain ⟨d, hd, _, _⟩ := natToChars_eq (n := e) h0 (by simpa using he)
      rw [hd]; rfl
    · rw [if_neg h0]; rfl
  | cons c cs ih =>
    intro e he
    simp only [List.length_cons] at he
    unfold fenRow.go
    cases hg : g.get ⟨row, (c : Int)⟩ with
    | none => exact ih (e + 1) (by omega)
    | some pc =>
      simp only
      have hnd : pc.asCharAscii.isDigit = false := by
        rw [asCharAscii_eq]; exact (alpha_facts (letter_isAlpha pc)).2.1
      by_cases h0 : e > 0
      · rw [if_pos h0]
        obtain ⟨d, hd, _, _⟩ := natToChars_eq (n := e) h0 (by omega)
        rw [hd, List.singleton_append]
        exact nad_digit_nondigit hnd (ih 0 (by omega))
      · rw [if_neg h0, List.nil_append]
        exact nad_cons_nondigit hnd (ih 0 (by omega))

theorem nad_fenRow (g : Game) (row : Int) : Spec.noAdjacentDigits (fenRow g row) = true := by
  unfold fenRow
  exact nad_fenRow_go g row (List.range 8) 0 (by simp)

theorem nad_append_sep {c : Char} (hc : c.isDigit = false) {b : List Char}
    (hb : Spec.noAdjacentDigits b = true) : ∀ a : List Char,
    Spec.noAdjacentDigits a = true → Spec.noAdjacentDigits (a ++ c :: b) = true := by
  intro a
  induction a with
  | nil => intro _; exact nad_cons_nondigit hc hb
  | cons x a ih =>
    intro ha
    cases a with
    | nil => exact nad_digit_nondigit hc hb
    | cons y rest =>
      simp only [Spec.noAdjacentDigits, Bool.and_eq_true] at ha
      have := ih ha.2
      simp only [List.cons_append] at this ⊢
      simp only [Spec.noAdjacentDigits, Bool.and_eq_true]
      exact ⟨ha.1, this⟩

/-! ### the placement field -/

theorem fenBoard_eq (g : Game) : fenBoard g =
    fenRow g 7 ++ '/' :: (fenRow g 6 ++ '/' :: (fenRow g 5 ++ '/' :: (fenRow g 4 ++ '/' ::
      (fenRow g 3 ++ '/' :: (fenRow g 2 ++ '/' :: (fenRow g 1 ++ '/' :: fenRow g 0)))))) := by
  simp [fenBoard, List.intercalate]

theorem fenRow_noslash (g : Game) (row : Int) :
    ∀ c ∈ fenRow g row, (fun x : Char => decide (x = '/')) c = false := by
  intro c hc
  simp only [decide_eq_false_iff_not]
  exact rowChar_ne_slash (fenRow_chars g row c hc)

/-- the placement field splits at `/` into the eight written ranks, rank 8 first -/
theorem splitOn_fenBoard (g : Game) :
    Spec.splitOn (· = '/') (fenBoard g) =
      [fenRow g 7, fenRow g 6, fenRow g 5, fenRow g 4, fenRow g 3, fenRow g 2, fenRow g 1,
        fenRow g 0] := by
  have hs : (fun x : Char => decide (x = '/')) '/' = true := by decide
  rw [splitOn_eq, fenBoard_eq]
  rw [splitOn'_block hs _ _ (fenRow_noslash g 7), splitOn'_block hs _ _ (fenRow_noslash g 6),
    splitOn'_block hs _ _ (fenRow_noslash g 5), splitOn'_block hs _ _ (fenRow_noslash g 4),
    splitOn'_block hs _ _ (fenRow_noslash g 3), splitOn'_block hs _ _ (fenRow_noslash g 2),
    splitOn'_block hs _ _ (fenRow_noslash g 1), splitOn'_single _ (fenRow_noslash g 0)]

theorem nad_fenBoard (g : Game) : Spec.noAdjacentDigits (fenBoard g) = true := by
  have hc : '/'.isDigit = false := by decide
  rw [fenBoard_eq]
  exact nad_append_sep hc (nad_append_sep hc (nad_append_sep hc (nad_append_sep hc
    (nad_append_sep hc (nad_append_sep hc (nad_append_sep hc (nad_fenRow g 0) _ (nad_fenRow g 1))
    _ (nad_fenRow g 2)) _ (nad_fenRow g 3)) _ (nad_fenRow g 4)) _ (nad_fenRow g 5))
    _ (nad_fenRow g 6)) _ (nad_fenRow g 7)

theorem get_board (g : Game) (r c : Nat) (hr : r < 8) (hc : c < 8) :
    g.board.toList[r * 8 + c]? = some (g.get ⟨(r : Int), (c : Int)⟩) := by
  unfold Game.get Pos.idx
  have : ((r : Int) * 8 + (c : Int)).toNat = r * 8 + c := by omega
  simp only [this]
  rw [dif_pos (by omega)]
  simp

theorem rows_flatten (g : Game) :
    ([rowSquares g 7, rowSquares g 6, rowSquares g 5, rowSquares g 4, rowSquares g 3,
      rowSquares g 2, rowSquares g 1, rowSquares g 0] : List _).reverse.flatten
      = g.board.toList := by
  have hrev : ([rowSquares g 7, rowSquares g 6, rowSquares g 5, rowSquares g 4, rowSquares g 3,
      rowSquares g 2, rowSquares g 1, rowSquares g 0] : List _).reverse
      = (List.range 8).map (fun (r : Nat) => rowSquares g (r : Int)) := by
    rfl
  rw [hrev]
  apply List.ext_getElem?
  intro i
  rw [flatten_getElem? _ (by
    intro x hx
    simp only [List.mem_map] at hx
    obtain ⟨r, _, rfl⟩ := hx
    exact rowSquares_length g _)]
  by_cases hi : i < 64
  · have h8 : i / 8 < 8 := by omega
    have hm : i % 8 < 8 := by omega
    have hb := get_board g (i / 8) (i % 8) h8 hm
    have hidx : i / 8 * 8 + i % 8 = i := by omega
    rw [hidx] at hb
    rw [hb]
    simp [rowSquares, h8, hm]
  · have h8 : ¬ i / 8 < 8 := by omega
    simp [h8]
    omega

theorem mapM_fenRows (g : Game) :
    [fenRow g 7, fenRow g 6, fenRow g 5, fenRow g 4, fenRow g 3, fenRow g 2, fenRow g 1,
        fenRow g 0].mapM Spec.expandRank =
      some [rowSquares g 7, rowSquares g 6, rowSquares g 5, rowSquares g 4, rowSquares g 3,
        rowSquares g 2, rowSquares g 1, rowSquares g 0] := by
  simp only [mapM_opt_cons, mapM_opt_nil, expandRank_fenRow]

/-- the placement field denotes the board -/
theorem parsePlacement_fenBoard (g : Game) : Spec.parsePlacement (fenBoard g) = some g.board := by
  apply parsePlacement_of_rows (splitOn_fenBoard g) rfl (mapM_fenRows g) _ (rows_flatten g)
  intro r hr
  simp only [List.mem_cons, List.not_mem_nil, or_false] at hr
  rcases hr with rfl | rfl | rfl | rfl | rfl | rfl | rfl | rfl <;> exact rowSquares_length g _

/-! ### white space and fields -/

def NoWsFacts (c : Char) : Prop :=
  (c.isAlpha = true ∨ c.isDigit = true ∨ c = '/' ∨ c = '-') → Spec.isWs c = false

instance : DecidablePred NoWsFacts := by unfold NoWsFacts; infer_instance

theorem noWs_table : ∀ n, n < 128 → NoWsFacts (Char.ofNat n) := by decide +kernel

theorem alpha_noWs {c : Char} (h : c.isAlpha = true) : Spec.isWs c = false :=
  forall_ascii NoWsFacts noWs_table c (isAlpha_lt h) (Or.inl h)

theorem digit_noWs {c : Char} (h : c.isDigit = true) : Spec.isWs c = false :=
  forall_ascii NoWsFacts noWs_table c (isDigit_lt h) (Or.inr (Or.inl h))

theorem rowChar_noWs {c : Char} (h : RowChar c) : Spec.isWs c = false := by
  rcases h with h | h
  · exact alpha_noWs h
  · exact digit_noWs (d18_isDigit h)

theorem fields_block {a : List Char} (hne : a ≠ []) (hws : ∀ c ∈ a, Spec.isWs c = false)
    {w : Char} (hw : Spec.isWs w = true) (rest : List Char) :
    Spec.fields (a ++ w :: rest) = a :: Spec.fields rest := by
  unfold Spec.fields
  rw [splitOn_eq, splitOn'_block hw a rest hws, ← splitOn_eq]
  cases a with
  | nil => exact absurd rfl hne
  | cons x xs => simp

theorem fields_single {a : List Char} (hne : a ≠ []) (hws : ∀ c ∈ a, Spec.isWs c = false) :
    Spec.fields a = [a] := by
  unfold Spec.fields
  rw [splitOn_eq, splitOn'_single a hws]
  cases a with
  | nil => exact absurd rfl hne
  | cons x xs => simp

theorem fenRow_noWs (g : Game) (row : Int) : ∀ c ∈ fenRow g row, Spec.isWs c = false :=
  fun c hc => rowChar_noWs (fenRow_chars g row c hc)

theorem fenBoard_noWs (g : Game) : ∀ c ∈ fenBoard g, Spec.isWs c = false := by
  intro c hc
  rw [fenBoard_eq] at hc
  simp only [List.mem_append, List.mem_cons] at hc
  have hs : Spec.isWs '/' = false := by decide
  rcases hc with h | h | h | h | h | h | h | h | h | h | h | h | h | h | h
  all_goals first
    | exact fenRow_noWs g _ c h
    | (subst h; exact hs)

theorem fenBoard_ne_nil (g : Game) : fenBoard g ≠ [] := by
  rw [fenBoard_eq]; simp

/-- the castling field as a function of the four rights -/
def castStr (a b c d : Bool) : List Char :=
  let l := (if a then ['K'] else []) ++ (if b then ['Q'] else [])
    ++ (if c then ['k'] else []) ++ (if d then ['q'] else [])
  if l.isEmpty then ['-'] else l

theorem fenCastling_eq (s : GState) : fenCastling s = castStr s.wk s.wq s.bk s.bq := rfl

theorem castStr_facts : ∀ a b c d : Bool,
    castStr a b c d ≠ [] ∧ (castStr a b c d).all (fun x => !Spec.isWs x) = true
    ∧ Spec.parseCastlingLoose (castStr a b c d) = some (a, b, c, d)
    ∧ Spec.castlingStrict (castStr a b c d) = true := by
  decide

/-- the en-passant field as a function of the file and the side to move -/
def epStr (k : Nat) (p : Player) : List Char :=
  [Char.ofNat (97 + k), match p with | .white => '6' | .black => '3']

theorem epStr_facts : ∀ (k : Fin 8) (p : Player),
    (epStr k.val p).all (fun x => !Spec.isWs x) = true
    ∧ Spec.parseEpLoose (epStr k.val p) = some (some k.val) := by
  intro k p
  cases p <;> revert k <;> decide

theorem enPassant_nonneg (s : GState) : 0 ≤ s.enPassant := by
  unfold GState.enPassant; omega

theorem fenEp_eq (g : Game) : fenEp g =
    if g.top.enPassant < 8 then epStr g.top.enPassant.toNat g.player else ['-'] := rfl

theorem fenEp_facts (g : Game) :
    fenEp g ≠ [] ∧ (∀ c ∈ fenEp g, Spec.isWs c = false)
    ∧ Spec.parseEpLoose (fenEp g)
        = some (if g.top.enPassant < 8 then some g.top.enPassant.toNat else none) := by
  rw [fenEp_eq]
  by_cases h : g.top.enPassant < 8
  · simp only [h, if_true]
    have h0 := enPassant_nonneg g.top
    have hk : g.top.enPassant.toNat < 8 := by omega
    have := epStr_facts ⟨g.top.enPassant.toNat, hk⟩ g.player
    simp only [List.all_eq_true, Bool.not_eq_true'] at this
    exact ⟨by simp [epStr], this.1, this.2⟩
  · simp only [h, if_false]
    exact ⟨by simp, by decide, rfl⟩

def sideChar (p : Player) : Char := match p with | .white => 'w' | .black => 'b'

theorem sideChar_facts : ∀ p : Player,
    Spec.isWs (sideChar p) = false ∧ Spec.parseSide [sideChar p] = some p := by
  intro p; cases p <;> decide

theorem natToChars_digits (n : Nat) : natToChars n ≠ [] ∧ ∀ c ∈ natToChars n, c.isDigit = true := by
  have h : natToChars n = Nat.toDigits 10 n := by
    simp [natToChars, toString, Nat.toList_repr]
  rw [h]
  exact ⟨Nat.toDigits_ne_nil, fun c hc => Nat.isDigit_of_mem_toDigits (by decide) (by decide) hc⟩

theorem fen4_eq (g : Game) : g.fen4 =
    fenBoard g ++ ' ' :: ([sideChar g.player] ++ ' ' :: (fenCastling g.top ++ ' ' :: fenEp g)) := by
  cases hp : g.player <;> simp [Game.fen4, sideChar, hp]

theorem fen_eq (g : Game) : g.fen =
    fenBoard g ++ ' ' :: ([sideChar g.player] ++ ' ' :: (fenCastling g.top ++ ' ' ::
      (fenEp g ++ ' ' :: (['0'] ++ ' ' :: natToChars (g.moveStack.length / 2 + 1))))) := by
  cases hp : g.player <;> simp [Game.fen, Game.fen4, sideChar, hp]

theorem fenCastling_facts (s : GState) :
    fenCastling s ≠ [] ∧ (∀ c ∈ fenCastling s, Spec.isWs c = false)
    ∧ Spec.parseCastlingLoose (fenCastling s) = some (s.wk, s.wq, s.bk, s.bq)
    ∧ Spec.castlingStrict (fenCastling s) = true := by
  rw [fenCastling_eq]
  have := castStr_facts s.wk s.wq s.bk s.bq
  simp only [List.all_eq_true, Bool.not_eq_true'] at this
  exact this

/-- **C11 / item 6a**: the four fields of `fen4` -/
theorem fen4_fields (g : Game) :
    Spec.fields g.fen4 = [fenBoard g, [sideChar g.player], fenCastling g.top, fenEp g] := by
  have hsp : Spec.isWs ' ' = true := by decide
  have hside : ∀ c ∈ [sideChar g.player], Spec.isWs c = false := by
    intro c hc; simp only [List.mem_singleton] at hc; subst hc; exact (sideChar_facts _).1
  rw [fen4_eq, fields_block (fenBoard_ne_nil g) (fenBoard_noWs g) hsp,
    fields_block (by simp) hside hsp,
    fields_block (fenCastling_facts _).1 (fenCastling_facts _).2.1 hsp,
    fields_single (fenEp_facts g).1 (fenEp_facts g).2.1]

/-- **C11 / item 6b**: the six fields of `fen` -/
theorem fen_fields (g : Game) :
    Spec.fields g.fen = [fenBoard g, [sideChar g.player], fenCastling g.top, fenEp g, ['0'],
      natToChars (g.moveStack.length / 2 + 1)] := by
  have hsp : Spec.isWs ' ' = true := by decide
  have hside : ∀ c ∈ [sideChar g.player], Spec.isWs c = false := by
    intro c hc; simp only [List.mem_singleton] at hc; subst hc; exact (sideChar_facts _).1
  have hz : ∀ c ∈ ['0'], Spec.isWs c = false := by decide
  rw [fen_eq, fields_block (fenBoard_ne_nil g) (fenBoard_noWs g) hsp,
    fields_block (by simp) hside hsp,
    fields_block (fenCastling_facts _).1 (fenCastling_facts _).2.1 hsp,
    fields_block (fenEp_facts g).1 (fenEp_facts g).2.1 hsp,
    fields_block (by simp) hz hsp,
    fields_single (natToChars_digits _).1
      (fun c hc => digit_noWs ((natToChars_digits _).2 c hc))]

theorem fen_fields_length (g : Game) :
    (Spec.fields g.fen4).length = 4 ∧ (Spec.fields g.fen).length = 6
    ∧ (∀ f ∈ Spec.fields g.fen4, f ≠ []) ∧ (∀ f ∈ Spec.fields g.fen, f ≠ []) := by
  refine ⟨by rw [fen4_fields]; rfl, by rw [fen_fields]; rfl, ?_, ?_⟩
  all_goals
    intro f hf
    simp only [Spec.fields, List.mem_filter, Bool.not_eq_true', List.isEmpty_eq_false_iff] at hf
    exact hf.2

/-- **C11 / item 6c**: shape of the placement field: eight ranks, each describing exactly the
eight squares of its row (so each rank "sums to 8", with digits 1–8 only), no adjacent digits -/
theorem fenBoard_shape (g : Game) :
    Spec.splitOn (· = '/') (fenBoard g) = [fenRow g 7, fenRow g 6, fenRow g 5, fenRow g 4,
        fenRow g 3, fenRow g 2, fenRow g 1, fenRow g 0]
    ∧ (∀ r : Int, Spec.expandRank (fenRow g r) = some (rowSquares g r)
        ∧ (rowSquares g r).length = 8)
    ∧ (∀ r : Int, ∀ c ∈ fenRow g r, c.isAlpha = true ∨ isD18 c = true)
    ∧ Spec.noAdjacentDigits (fenBoard g) = true :=
  ⟨splitOn_fenBoard g, fun r => ⟨expandRank_fenRow g r, rowSquares_length g r⟩,
    fun r => fenRow_chars g r, nad_fenBoard g⟩

/-! ### the text denotes the position -/

/-- **C11 / item 7a**: the four-field export denotes exactly the position -/
theorem fen4_denotes (g : Game) : Spec.fenLoose g.fen4 = some g.abs :=
  fenLoose_of_fields (fen4_fields g) (parsePlacement_fenBoard g) (sideChar_facts _).2
    (fenCastling_facts _).2.2.1 (fenEp_facts g).2.2

/-- **C11 / item 7b**: the six-field export denotes exactly the position -/
theorem fen_denotes (g : Game) : Spec.fenLoose g.fen = some g.abs :=
  fenLoose_of_fields (fen_fields g) (parsePlacement_fenBoard g) (sideChar_facts _).2
    (fenCastling_facts _).2.2.1 (fenEp_facts g).2.2

/-- **C11 / item 7c**: the export is a well-formed six-field FEN for exactly that position -/
theorem fen_strict (g : Game) : Spec.fenStrict g.fen = some g.abs := by
  unfold Spec.fenStrict
  have hd : Spec.allDigits (natToChars (g.moveStack.length / 2 + 1)) = true := by
    have := natToChars_digits (g.moveStack.length / 2 + 1)
    unfold Spec.allDigits
    simp only [Bool.and_eq_true, Bool.not_eq_true', List.isEmpty_eq_false_iff, List.all_eq_true]
    exact this
  have hz : Spec.allDigits ['0'] = true := by decide
  simp only [fen_fields, fen_denotes, List.length_cons, List.length_nil, nad_fenBoard,
    (fenCastling_facts _).2.2.2, List.all_cons, List.all_nil, hd, hz]
  have habs : g.abs.side = g.player := rfl
  rw [habs, fenEp_eq]
  by_cases h : g.top.enPassant < 8
  · simp only [h, if_true, epStr]
    cases g.player <;> simp
  · simp only [h, if_false]
    cases g.player <;> simp

/-- **C11 / item 8, conditional form**: whenever the reader accepts the exported text, the game
it builds has the same placement, side to move, castling rights and en-passant file -/
theorem fen_roundtrip_abs_of_ok {g g' : Game} (h : Game.ofFen g.fen = .ok g') : g'.abs = g.abs := by
  have h1 := ofFen_sound h
  rw [fen_denotes] at h1
  exact (Option.some.inj h1).symm

theorem fen4_roundtrip_abs_of_ok {g g' : Game} (h : Game.ofFen g.fen4 = .ok g') :
    g'.abs = g.abs := by
  have h1 := ofFen_sound h
  rw [fen4_denotes] at h1
  exact (Option.some.inj h1).symm

/-- the reader's material check (one king a side, at most eight pawns with promoted pieces
covered by missing pawns, no pawn on the first or last rank) holds of the game's board -/
def MaterialOK (g : Game) : Prop := MaterialOKBoard g.board

/-- on a square of the board the rules' `at` of the abstract position is the engine's `get` -/
theorem abs_at_eq_get (g : Game) (r c : Int) (h : 0 ≤ r ∧ r < 8 ∧ 0 ≤ c ∧ c < 8) :
    g.abs.at (r, c) = g.get ⟨r, c⟩ := by
  rw [at_eq_boardAt g.abs r c h]
  exact boardAt_eq_get g r c

/-- `RightsInv` of a game whose kings stand on their cached squares says that the castling
rights of its position are backed by the board -/
theorem rightsOkBoard_of_rightsInv {g : Game} (hr : g.RightsInv)
    (hkw : g.kingExists .white = true) (hkb : g.kingExists .black = true) :
    RightsOkBoard g.abs := by
  have e04 := abs_at_eq_get g 0 4 (by omega)
  have e07 := abs_at_eq_get g 0 7 (by omega)
  have e00 := abs_at_eq_get g 0 0 (by omega)
  have e74 := abs_at_eq_get g 7 4 (by omega)
  have e77 := abs_at_eq_get g 7 7 (by omega)
  have e70 := abs_at_eq_get g 7 0 (by omega)
  unfold RightsOkBoard
  rw [e04, e07, e00, e74, e77, e70]
  exact ⟨fun h => ⟨(hr.wk h).2.2 hkw, (hr.wk h).1⟩, fun h => ⟨(hr.wq h).2.2 hkw, (hr.wq h).1⟩,
    fun h => ⟨(hr.bk h).2.2 hkb, (hr.bk h).1⟩, fun h => ⟨(hr.bq h).2.2 hkb, (hr.bq h).1⟩⟩

/-- the square the double-stepping pawn of the recorded en-passant file came from -/
def epOrigin (g : Game) : Pos :=
  ⟨match g.player with | .white => 6 | .black => 1, g.top.enPassant⟩

/-- `EpInv`, together with the emptiness of the square the pawn came from (which `EpInv` does not
record), says that the en-passant file of the position is backed by the board -/
theorem epOkBoard_of_epInv {g : Game} (he : g.EpInv)
    (ho : g.top.enPassant < 8 → g.get (epOrigin g) = none) : EpOkBoard g.abs := by
  have h0 := enPassant_nonneg g.top
  intro f hf
  show match g.player with
    | .white => _
    | .black => _
  have hf' : (if g.top.enPassant < 8 then some g.top.enPassant.toNat else none) = some f := hf
  by_cases h8 : g.top.enPassant < 8
  · rw [if_pos h8] at hf'
    have hfe : (f : Int) = g.top.enPassant := by
      have := Option.some.inj hf'
      omega
    have he' := he h8
    have ho' := ho h8
    unfold epOrigin at ho'
    rw [hfe]
    cases hp : g.player <;> rw [hp] at he' ho' <;> simp only at he' ho' ⊢
    · rw [abs_at_eq_get g 4 _ ⟨by omega, by omega, h0, h8⟩,
        abs_at_eq_get g 5 _ ⟨by omega, by omega, h0, h8⟩,
        abs_at_eq_get g 6 _ ⟨by omega, by omega, h0, h8⟩]
      exact ⟨he'.1, he'.2, ho'⟩
    · rw [abs_at_eq_get g 3 _ ⟨by omega, by omega, h0, h8⟩,
        abs_at_eq_get g 2 _ ⟨by omega, by omega, h0, h8⟩,
        abs_at_eq_get g 1 _ ⟨by omega, by omega, h0, h8⟩]
      exact ⟨he'.1, he'.2, ho'⟩
  · rw [if_neg h8] at hf'; cases hf'

/-- **C11 / item 8**: the exported text of a game with possible material whose castling rights
and en-passant file are backed by the board (what the reader checks) is accepted by the reader
and re-imports to a game with the same placement, side to move, castling rights and en-passant
file -/
theorem fen_roundtrip_abs (g : Game) (hm : MaterialOK g) (hr : RightsOkBoard g.abs)
    (he : EpOkBoard g.abs) : ∃ g', Game.ofFen g.fen = .ok g' ∧ g'.abs = g.abs :=
  ofFen_complete (fen_strict g) hm hr he

/-- the three conditions are exactly what is needed: the reader accepts the exported text of `g`
if and only if `g` passes the material, rights and en-passant checks -/
theorem fen_reimport_iff (g : Game) :
    (∃ g', Game.ofFen g.fen = .ok g') ↔
      MaterialOK g ∧ RightsOkBoard g.abs ∧ EpOkBoard g.abs := by
  constructor
  · rintro ⟨g', h⟩
    have e := fen_roundtrip_abs_of_ok h
    obtain ⟨pieces, side, cast, ep, rest, sc, player, st0, st, wk, bk, -, -, -, -, -, -, -, -, -,
      hmw, hmb, hpe, -, -, hg'⟩ := ofFen_ok_inv h
    have hb : g'.board = g.board := congrArg Spec.APos.board e
    have hb' : g'.board = sc.board := by rw [hg']; exact (updatePhase_fields _).1
    obtain ⟨h1, h2⟩ := ofFen_rightsOkBoard h
    rw [e] at h1 h2
    refine ⟨?_, h1, h2⟩
    unfold MaterialOK MaterialOKBoard
    rw [← hb, hb']
    exact ⟨hmw, hmb, hpe⟩
  · rintro ⟨hm, hr, he⟩
    obtain ⟨g', h, _⟩ := fen_roundtrip_abs g hm hr he
    exact ⟨g', h⟩

/-- the same for a well-formed game: `RightsInv` and `EpInv` do the work, given that both kings
stand on their cached squares and the square the en-passant pawn came from is empty -/
theorem fen_roundtrip_abs_of_wf (g : Game) (hw : g.WF) (hm : MaterialOK g)
    (hkw : g.kingExists .white = true) (hkb : g.kingExists .black = true)
    (ho : g.top.enPassant < 8 → g.get (epOrigin g) = none) :
    ∃ g', Game.ofFen g.fen = .ok g' ∧ g'.abs = g.abs :=
  fen_roundtrip_abs g hm (rightsOkBoard_of_rightsInv hw.rights hkw hkb)
    (epOkBoard_of_epInv hw.epInv ho)

/-- the same for a game whose position the rules call sane (no invariant needed) -/
theorem fen_roundtrip_abs_of_sane (g : Game) (hs : Spec.sane g.abs = true) :
    ∃ g', Game.ofFen g.fen = .ok g' ∧ g'.abs = g.abs :=
  ofFen_complete_of_sane (fen_strict g) hs

/-- the same with the hypothesis `WF.ep` spelled out (it is not needed) -/
theorem fen_roundtrip_abs' (g : Game) (_hep : g.top.enPassant ≤ 8) (hm : MaterialOK g)
    (hr : RightsOkBoard g.abs) (he : EpOkBoard g.abs) :
    ∃ g', Game.ofFen g.fen = .ok g' ∧ g'.abs = g.abs :=
  fen_roundtrip_abs g hm hr he

end Chess

#print axioms Chess.fen_roundtrip_abs
#print axioms Chess.fen_reimport_iff
#print axioms Chess.fen_roundtrip_abs_of_wf
#print axioms Chess.fen_roundtrip_abs_of_sane
#print axioms Chess.fen_roundtrip_abs_of_ok
#print axioms Chess.expandRank_fenRow
#print axioms Chess.fen4_fields
#print axioms Chess.fen_fields
#print axioms Chess.fen_fields_length
#print axioms Chess.fenBoard_shape
#print axioms Chess.fen4_denotes
#print axioms Chess.fen_denotes
#print axioms Chess.fen_strict
