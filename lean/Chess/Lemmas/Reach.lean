import Chess.Lemmas.Invariant
import Chess.Lemmas.Generated
import Chess.Lemmas.FenRead
import Chess.Lemmas.SearchDriver
import Chess.Model.Uci

/-!
# Reachable games are well formed; the chess instance of the search interface is closed under play
-/
namespace Chess

/-- What the UCI layer and the search can produce: import of a text (the reader checks that its
castling rights and en-passant file are backed by the board — `ofFen_rightsInv`, `ofFen_epInv`),
moves played into the record, search-style play of generated moves
(take-back returns to an earlier reachable game, `Game.pop_push`). -/
inductive Reach : Game → Prop
  | imported (s : List Char) (g : Game) : Game.ofFen s = .ok g → Reach g
  | played (g : Game) (m : Move) : Reach g → m ∈ (g.getMoves true).1 → Reach (g.pushHistory m)
  | searched (g : Game) (m : Move) (b : Bool) : Reach g → m ∈ (g.getMoves b).1 → Reach (g.push m)

/-- **every reachable game satisfies the representation invariant** (induction over the history) -/
theorem reach_wf {g : Game} (h : Reach g) : g.WF := by
  induction h with
  | imported s g hok => exact ofFen_wf hok
  | played g m _ hm ih =>
    have hf := Game.getMoves_fits ih true hm
    have hx := Game.getMoves_extraOk g true m hm
    exact Game.pushHistory_wf ih hf.1 hf.2 hx.1 hx.2
  | searched g m b _ hm ih =>
    have hf := Game.getMoves_fits ih b hm
    have hx := Game.getMoves_extraOk g b m hm
    exact Game.push_wf ih hf.1 hf.2 hx.1 hx.2

/-- well-formed games are closed under the engine's checked moves -/
theorem chess_closed : Search.Closed Uci.chessOps Game.WF := by
  intro g m hw hm
  have hm' : m ∈ (g.getMoves true).1 := hm
  have hf := Game.getMoves_fits hw true hm'
  have hx := Game.getMoves_extraOk g true m hm'
  exact Game.push_wf hw hf.1 hf.2 hx.1 hx.2

/-- The Zobrist hypothesis for chess, a NAMED HYPOTHESIS of C06/C18 (never an axiom): no two
well-formed games with different checked move lists share a hash. -/
def ZobristOk : Prop := Search.HashOk Uci.chessOps Game.WF

end Chess

#print axioms Chess.reach_wf
#print axioms Chess.chess_closed
