import Chess.Model.Share
import Chess.Lemmas.Budget

/-!
# The float expression of `command_go` satisfies `ShareOK` — C13 without the hypothesis

`Chess.Share.shareF64` (`Chess/Model/Share.lean`) is the exact IEEE-754 binary64 model of

    ((w as f64 * 0.02) as u64)

This file proves, for **all** naturals `w` (hence all `u64`):

* `shareF64_le   : shareF64 w ≤ w`
* `shareF64_mono : a ≤ b → shareF64 a ≤ shareF64 b`
* `shareOK_f64   : Chess.Uci.ShareOK shareF64`

so the monotonicity theorems of `Chess/Lemmas/Budget.lean` hold for the real float expression with
no hypothesis on it (`budget_monotone_f64`, `budget_monotone_white_f64`, `budget_monotone_black_f64`).

`shareF64 w = w / 50` is *false* in general (first failure: `w = 2^53 + 7`), but

* `shareF64_eq_div50 : w < 2^53 → shareF64 w = w / 50`   (every clock below 285 000 years),
* `shareF64_near_u64 : w < 2^64 → w / 50 ≤ shareF64 w + 54 ∧ shareF64 w ≤ w / 50 + 61`
  (observed extremes on random 64-bit inputs: `-46 … +59`),
* `shareRaw_rel` : the two-sided bound with relative error, for all `w`,
* `shareF64_le_div49 : shareF64 w ≤ w / 49`.

Structure: `rneP` (the rounding step over an abstract positive `P` in place of `2^q`) is monotone,
within `P/2` of its argument, and never jumps over a multiple of `P`; `round53` inherits
monotonicity inside a binade from `rneP` and across binades from the power of two in between.

Tactics: `omega` for linear facts with unit coefficients; `lia` (core, `grind`'s linear integer
arithmetic) where both sides carry large non-unit coefficients, on which `omega` does not
terminate within the recursion limit.  Concrete values are checked by kernel evaluation (`decide`).
-/
namespace Chess.Share


/-- the rounding step with the power of two abstracted to any positive `P` -/
def rneP (n P : Nat) : Nat :=
  if P < 2 * (n % P) ∨ (2 * (n % P) = P ∧ n / P % 2 = 1) then n / P + 1 else n / P

theorem rne_eq (n q : Nat) : rne n q = rneP n (2 ^ q) := rfl

theorem rneP_mono {a b P : Nat} (hP : 0 < P) (h : a ≤ b) : rneP a P ≤ rneP b P := by
  have ha := Nat.div_add_mod a P
  have hb := Nat.div_add_mod b P
  have hra := Nat.mod_lt a hP
  have hrb := Nat.mod_lt b hP
  have hf : a / P ≤ b / P := Nat.div_le_div_right h
  unfold rneP
  rcases Nat.lt_or_eq_of_le hf with hlt | heq
  · split <;> split <;> omega
  · rw [heq] at ha ⊢
    split <;> split <;> omega

/-- twice the distance to the rounded value is at most `P` -/
theorem rneP_near (n P : Nat) (hP : 0 < P) :
    2 * (rneP n P * P) ≤ 2 * n + P ∧ 2 * n ≤ 2 * (rneP n P * P) + P := by
  have ha := Nat.div_add_mod n P
  have hr := Nat.mod_lt n hP
  rw [Nat.mul_comm] at ha
  unfold rneP
  split
  · rw [Nat.add_mul, Nat.one_mul]; omega
  · omega

theorem rneP_le {n k P : Nat} (hP : 0 < P) (h : n ≤ k * P) : rneP n P ≤ k := by
  have ha := Nat.div_add_mod n P
  have hr := Nat.mod_lt n hP
  have hf : n / P ≤ k := by
    have := Nat.div_le_div_right (c := P) h
    rwa [Nat.mul_div_cancel _ hP] at this
  rcases Nat.lt_or_eq_of_le hf with hlt | heq
  · unfold rneP; split <;> omega
  · have : n % P = 0 := by
      rw [heq, Nat.mul_comm] at ha; omega
    unfold rneP; rw [this]; split <;> omega

theorem le_rneP {n k P : Nat} (hP : 0 < P) (h : k * P ≤ n) : k ≤ rneP n P := by
  have hf : k ≤ n / P := (Nat.le_div_iff_mul_le hP).2 h
  unfold rneP; split <;> omega

theorem rneP_one (n : Nat) : rneP n 1 = n := by
  unfold rneP; simp [Nat.mod_one]

/-! ## rounding to 53 significant bits -/

theorem round53_eq (n : Nat) : round53 n = rneP n (2 ^ dropBits n) * 2 ^ dropBits n := rfl

theorem log2_mono {a b : Nat} (h : a ≤ b) : a.log2 ≤ b.log2 := by
  by_cases ha : a = 0
  · subst ha; simp
  · have hb : b ≠ 0 := by omega
    exact (Nat.le_log2 hb).2 (Nat.le_trans (Nat.log2_self_le ha) h)

theorem dropBits_mono {a b : Nat} (h : a ≤ b) : dropBits a ≤ dropBits b := by
  have := log2_mono h
  unfold dropBits; omega

theorem dropBits_le_of_lt {n e : Nat} (h : n < 2 ^ (e + 53)) : dropBits n ≤ e := by
  by_cases hn : n = 0
  · subst hn; simp [dropBits]
  · have := (Nat.log2_lt hn).2 h
    unfold dropBits; omega

theorem round53_zero : round53 0 = 0 := by decide

/-- small integers are doubles -/
theorem round53_of_lt {n : Nat} (h : n < 2 ^ 53) : round53 n = n := by
  have h0 : dropBits n = 0 := by
    have := dropBits_le_of_lt (n := n) (e := 0) (by simpa using h); omega
  rw [round53_eq, h0]; simp [rneP_one]

/-- a multiple of `2^e` above `n` is above the rounded `n`, if the last kept bit of `n` is at or
below position `e` -/
theorem round53_le_mul {n m e : Nat} (h : n ≤ m * 2 ^ e) (hq : dropBits n ≤ e) :
    round53 n ≤ m * 2 ^ e := by
  have hp : 2 ^ e = 2 ^ (e - dropBits n) * 2 ^ dropBits n := by
    rw [← Nat.pow_add]; congr 1; omega
  rw [hp, ← Nat.mul_assoc] at h ⊢
  exact Nat.mul_le_mul_right _ (rneP_le (Nat.two_pow_pos _) h)

theorem le_round53_mul {n m e : Nat} (h : m * 2 ^ e ≤ n) (hq : dropBits n ≤ e) :
    m * 2 ^ e ≤ round53 n := by
  have hp : 2 ^ e = 2 ^ (e - dropBits n) * 2 ^ dropBits n := by
    rw [← Nat.pow_add]; congr 1; omega
  rw [hp, ← Nat.mul_assoc] at h ⊢
  exact Nat.mul_le_mul_right _ (le_rneP (Nat.two_pow_pos _) h)

/-- conversion and rounding are monotone -/
theorem round53_mono {a b : Nat} (h : a ≤ b) : round53 a ≤ round53 b := by
  by_cases ha : a = 0
  · subst ha; rw [round53_zero]; exact Nat.zero_le _
  have hb : b ≠ 0 := by omega
  have hq := dropBits_mono h
  rcases Nat.lt_or_eq_of_le hq with hlt | heq
  · -- different binades: a power of two lies between
    have hl : a.log2 + 1 ≤ b.log2 := by unfold dropBits at hlt; omega
    have h1 : round53 a ≤ 1 * 2 ^ (a.log2 + 1) :=
      round53_le_mul (by rw [Nat.one_mul]; exact Nat.le_of_lt Nat.lt_log2_self)
        (by unfold dropBits; omega)
    have h2 : 1 * 2 ^ b.log2 ≤ round53 b :=
      le_round53_mul (by rw [Nat.one_mul]; exact Nat.log2_self_le hb) (by unfold dropBits; omega)
    have h3 : 2 ^ (a.log2 + 1) ≤ 2 ^ b.log2 := Nat.pow_le_pow_right (by decide) hl
    omega
  · rw [round53_eq, round53_eq, heq]
    exact Nat.mul_le_mul_right _ (rneP_mono (Nat.two_pow_pos _) h)

/-- relative error at most `2^-53` -/
theorem round53_rel (n : Nat) :
    round53 n * 2 ^ 53 ≤ n * (2 ^ 53 + 1) ∧ n * (2 ^ 53 - 1) ≤ round53 n * 2 ^ 53 := by
  by_cases h0 : dropBits n = 0
  · have : round53 n = n := by rw [round53_eq, h0]; simp [rneP_one]
    rw [this]; omega
  · have hn : n ≠ 0 := by intro h; subst h; simp [dropBits] at h0
    have hP : 2 ^ dropBits n * 2 ^ 52 ≤ n := by
      rw [← Nat.pow_add]
      have : dropBits n + 52 = n.log2 := by unfold dropBits at h0 ⊢; omega
      rw [this]; exact Nat.log2_self_le hn
    have := rneP_near n (2 ^ dropBits n) (Nat.two_pow_pos _)
    rw [round53_eq]
    omega

/-- absolute error at most half a unit in the last place, the unit being at most `2^e` -/
theorem round53_abs {n e : Nat} (hq : dropBits n ≤ e) :
    2 * round53 n ≤ 2 * n + 2 ^ e ∧ 2 * n ≤ 2 * round53 n + 2 ^ e := by
  have := rneP_near n (2 ^ dropBits n) (Nat.two_pow_pos _)
  have hp : 2 ^ dropBits n ≤ 2 ^ e := Nat.pow_le_pow_right (by decide) hq
  rw [round53_eq]; omega

/-! ## the share -/

theorem fifty_c002 : 50 * c002 = 2 ^ 58 + 6 := by decide

theorem shareRaw_eq (w : Nat) : shareRaw w = round53 (round53 w * c002) / 2 ^ 58 := rfl

theorem shareF64_eq_min (w : Nat) : shareF64 w = min (shareRaw w) (2 ^ 64 - 1) := rfl

theorem shareRaw_mono {a b : Nat} (h : a ≤ b) : shareRaw a ≤ shareRaw b := by
  rw [shareRaw_eq, shareRaw_eq]
  exact Nat.div_le_div_right (round53_mono (Nat.mul_le_mul_right _ (round53_mono h)))

/-- two-sided bound with the relative errors of the two roundings -/
theorem shareRaw_rel (w : Nat) :
    50 * shareRaw w * 2 ^ 56 ≤ w * (2 ^ 56 + 18) ∧
    w * (2 ^ 52 - 1) < 50 * (shareRaw w + 1) * 2 ^ 52 := by
  have h1 := round53_rel w
  have h2 := round53_rel (round53 w * c002)
  rw [shareRaw_eq]
  generalize round53 (round53 w * c002) = y at *
  generalize round53 w = x at *
  unfold c002 at h2
  lia

/-- the share never exceeds the clock -/
theorem shareRaw_le (w : Nat) : shareRaw w ≤ w := by
  have := (shareRaw_rel w).1
  lia

theorem shareF64_le (w : Nat) : shareF64 w ≤ w := by
  rw [shareF64_eq_min]; exact Nat.le_trans (Nat.min_le_left _ _) (shareRaw_le w)

theorem shareF64_mono (a b : Nat) (h : a ≤ b) : shareF64 a ≤ shareF64 b := by
  have := shareRaw_mono h
  rw [shareF64_eq_min, shareF64_eq_min]; omega

/-- for `u64` inputs the saturation of `as u64` is inactive (the result is below `2^59`) -/
theorem shareRaw_lt_of_u64 {w : Nat} (hw : w < 2 ^ 64) : shareRaw w < 2 ^ 59 := by
  have := (shareRaw_rel w).1
  lia

theorem shareF64_eq_raw {w : Nat} (hw : w < 2 ^ 64) : shareF64 w = shareRaw w := by
  have := shareRaw_lt_of_u64 hw
  rw [shareF64_eq_min]; omega

/-- for every clock that is a double (in particular below `2^53` ms, 285 000 years) the float
expression is the integer division by fifty -/
theorem shareRaw_eq_div50 {w : Nat} (hw : w < 2 ^ 53) : shareRaw w = w / 50 := by
  have hx : round53 w = w := round53_of_lt hw
  have hlt : w * c002 < 2 ^ (53 + 53) := by
    have hc : c002 < 2 ^ 53 := by decide
    rw [Nat.pow_add]
    exact Nat.mul_lt_mul'' hw hc
  have hq : dropBits (w * c002) ≤ 53 := dropBits_le_of_lt hlt
  have hup := (round53_abs hq).1
  -- lower bound: `(w / 50) * 2^58` is a double below the exact product
  have hlo : (w / 50) * 2 ^ 58 ≤ round53 (w * c002) := by
    apply le_round53_mul _ (by omega)
    have := fifty_c002
    have h50 : 50 * (w / 50) ≤ w := Nat.mul_div_le w 50
    calc (w / 50) * 2 ^ 58 ≤ (w / 50) * (50 * c002) := Nat.mul_le_mul_left _ (by omega)
      _ = (50 * (w / 50)) * c002 := by ac_rfl
      _ ≤ w * c002 := Nat.mul_le_mul_right _ h50
  rw [shareRaw_eq, hx]
  generalize round53 (w * c002) = y at *
  unfold c002 at hup
  lia

theorem shareF64_eq_div50 {w : Nat} (hw : w < 2 ^ 53) : shareF64 w = w / 50 := by
  rw [shareF64_eq_raw (by lia), shareRaw_eq_div50 hw]

theorem shareF64_le_div49 (w : Nat) : shareF64 w ≤ w / 49 := by
  have h := (shareRaw_rel w).1
  have : shareRaw w ≤ w / 49 := by lia
  rw [shareF64_eq_min]; omega

/-- the result is a `u64` whatever the argument -/
theorem shareF64_le_u64Max (w : Nat) : shareF64 w ≤ Chess.Uci.u64Max := by
  rw [shareF64_eq_min]; unfold Chess.Uci.u64Max; omega

/-- `u64` inputs: the float expression is within `-54 … +61` of the integer division.
(absolute errors: half an ulp `2^10` of `w as f64`, half an ulp `2^5` of the product, and the
excess `6 * 2^-58 / 50` of the literal `0.02` over one fiftieth) -/
theorem shareF64_near_u64 {w : Nat} (hw : w < 2 ^ 64) :
    w / 50 ≤ shareF64 w + 54 ∧ shareF64 w ≤ w / 50 + 61 := by
  have hq1 : dropBits w ≤ 11 := dropBits_le_of_lt (by simpa using hw)
  have a1 := round53_abs hq1
  have hx : round53 w ≤ 1 * 2 ^ 64 := round53_le_mul (by omega) (by omega)
  have hlt : round53 w * c002 < 2 ^ (64 + 53) := by
    have hc : c002 < 2 ^ 53 := by decide
    rw [Nat.pow_add]
    exact Nat.mul_lt_mul_of_le_of_lt (by omega) hc (Nat.two_pow_pos _)
  have hq2 : dropBits (round53 w * c002) ≤ 64 := dropBits_le_of_lt hlt
  have a2 := round53_abs hq2
  rw [shareF64_eq_raw hw, shareRaw_eq]
  generalize round53 (round53 w * c002) = y at *
  generalize round53 w = x at *
  unfold c002 at a2
  lia

/-! ## `ShareOK`, and the theorems of `Budget.lean` without the hypothesis -/

open Chess.Uci

/-- the exact float expression satisfies what `Budget.lean` assumed of `share` -/
theorem shareOK_f64 : ShareOK shareF64 := ⟨shareF64_le, shareF64_mono⟩

/-- `budget_monotone` for the real float expression: no hypothesis on `share` left. -/
theorem budget_monotone_f64 {wt wt' bt bt' wi bi : Nat}
    {side : Player} (hle : ownClock side wt bt ≤ ownClock side wt' bt')
    {infinite : Bool} {t t' : Nat}
    (h : budget (some wt) (some bt) (some wi) (some bi) none infinite side shareF64 = some t)
    (h' : budget (some wt') (some bt') (some wi) (some bi) none infinite side shareF64 = some t') :
    t ≤ t' :=
  budget_monotone shareOK_f64 hle h h'

theorem budget_monotone_white_f64 {wt wt' : Nat}
    (hle : wt ≤ wt') {btime winc binc movetime : Option Nat} {infinite : Bool} {t t' : Nat}
    (h : budget (some wt) btime winc binc movetime infinite .white shareF64 = some t)
    (h' : budget (some wt') btime winc binc movetime infinite .white shareF64 = some t') :
    t ≤ t' :=
  budget_monotone_white shareOK_f64 hle h h'

theorem budget_monotone_black_f64 {bt bt' : Nat}
    (hle : bt ≤ bt') {wtime winc binc movetime : Option Nat} {infinite : Bool} {t t' : Nat}
    (h : budget wtime (some bt) winc binc movetime infinite .black shareF64 = some t)
    (h' : budget wtime (some bt') winc binc movetime infinite .black shareF64 = some t') :
    t ≤ t' :=
  budget_monotone_black shareOK_f64 hle h h'

/-- the hypothesis of `budget_fits_u64` on `share`, discharged -/
theorem shareF64_fits {w : Nat} (hw : w ≤ u64Max) : shareF64 w ≤ u64Max := shareOK_f64.fits hw

/-- With the mover's clock below `2^53` ms the allotment computed with the float expression is the
allotment computed with `· / 50`: all the `(· / 50)` statements of `Budget.lean` (§5, §6) are
statements about the engine. -/
theorem budget_f64_eq_div50 {wt bt wi bi : Nat} {infinite : Bool} {side : Player}
    (h : ownClock side wt bt < 2 ^ 53) :
    budget (some wt) (some bt) (some wi) (some bi) none infinite side shareF64
      = budget (some wt) (some bt) (some wi) (some bi) none infinite side (· / 50) := by
  rw [budget_clock_eq, budget_clock_eq, shareF64_eq_div50 h]

/-- the same for every pattern of present/absent parameters -/
theorem budget_f64_eq_div50' {wtime btime winc binc movetime : Option Nat} {infinite : Bool}
    {side : Player} (hw : ∀ w, wtime = some w → w < 2 ^ 53) (hb : ∀ w, btime = some w → w < 2 ^ 53) :
    budget wtime btime winc binc movetime infinite side shareF64
      = budget wtime btime winc binc movetime infinite side (· / 50) := by
  cases wtime <;> cases btime <;> cases winc <;> cases binc <;> simp only [budget]
  rename_i wt bt wi bi
  rw [shareF64_eq_div50 (hw wt rfl), shareF64_eq_div50 (hb bt rfl)]

/-- `budget_low_clock_shortens` for the engine's expression -/
theorem budget_low_clock_shortens_f64 {wt bt bi : Nat} (h : wt < 7500) :
    budget (some wt) (some bt) (some 0) (some bi) none false .white shareF64 = some 0 := by
  rw [budget_f64_eq_div50 (by simp only [ownClock]; omega)]
  exact budget_low_clock_shortens h

theorem budget_low_clock_shortens_black_f64 {wt bt wi : Nat} (h : bt < 7500) :
    budget (some wt) (some bt) (some wi) (some 0) none false .black shareF64 = some 0 := by
  rw [budget_f64_eq_div50 (by simp only [ownClock]; omega)]
  exact budget_low_clock_shortens_black h

/-- `budget_two_percent` for the engine's expression (clock below `2^53` ms) -/
theorem budget_two_percent_f64 {wt bt bi : Nat} (h : 7750 ≤ wt) (hu : wt < 2 ^ 53) :
    budget (some wt) (some bt) (some 0) (some bi) none false .white shareF64
      = some (wt / 50 - 155) := by
  rw [budget_f64_eq_div50 (by simpa only [ownClock] using hu)]
  exact budget_two_percent h (by unfold u64Max; omega)

/-! ## TESTS: the model against real doubles

Expected values computed with python3 `int(float(w) * 0.02)` (IEEE binary64, round-to-nearest-even
conversion and product, truncating `int`).  These guard against a wrong model; the bulk comparison
(hundreds of thousands of values) is `tools_share_check.py`. -/

section Tests
-- the constant
example : c002 = 0x147AE147AE147B := by decide
example : c002 = 2 ^ 52 + 0x47AE147AE147B := by decide   -- hidden bit + fraction field of 0x3F947AE147AE147B
example : 50 * c002 = 2 ^ 58 + 6 := by decide
example : 2 ^ 52 ≤ c002 ∧ c002 < 2 ^ 53 := by decide
-- small
example : shareF64 0 = 0 := by decide
example : shareF64 1 = 0 := by decide
example : shareF64 49 = 0 := by decide
example : shareF64 50 = 1 := by decide
example : shareF64 51 = 1 := by decide
example : shareF64 7499 = 149 := by decide
example : shareF64 7500 = 150 := by decide
example : shareF64 60000 = 1200 := by decide
-- around 2^53: equal to w / 50 up to 2^53 + 6, different at 2^53 + 7
example : shareF64 9007199254740991 = 180143985094819 := by decide
example : shareF64 9007199254740992 = 180143985094819 := by decide
example : shareF64 9007199254740993 = 180143985094819 := by decide
example : shareF64 9007199254740999 = 180143985094820 := by decide
example : 9007199254740999 / 50 = 180143985094819 := by decide
example : shareF64 18014398509481985 = 360287970189639 := by decide
-- the conversion `as f64` itself: ties to even in both directions, carry into the next binade
example : u64ToF64 9007199254740993 = 9007199254740992 := by decide   -- 2^53+1 ↦ 2^53 (tie, even below)
example : u64ToF64 9007199254740995 = 9007199254740996 := by decide   -- 2^53+3 ↦ 2^53+4 (tie, even above)
example : u64ToF64 18014398509481985 = 18014398509481984 := by decide -- 2^54+1 ↦ 2^54 (below half)
example : u64ToF64 18014398509481987 = 18014398509481988 := by decide -- 2^54+3 ↦ 2^54+4 (above half)
example : u64ToF64 18446744073709551615 = 18446744073709551616 := by decide -- u64::MAX ↦ 2^64
example : u64ToF64 18446744073709550591 = 18446744073709549568 := by decide -- 2^64-1025 ↦ 2^64-2048
example : u64ToF64 18446744073709550592 = 18446744073709551616 := by decide -- 2^64-1024 ↦ 2^64 (tie, carry)
-- large
example : shareF64 9223372036854775808 = 184467440737095520 := by decide      -- 2^63, w/50 + 4
example : shareF64 18446744073709551615 = 368934881474191040 := by decide     -- u64::MAX, w/50 + 8
example : shareF64 18446744073709550591 = 368934881474190976 := by decide     -- w/50 - 35
example : shareF64 18446744073709550592 = 368934881474191040 := by decide     -- w/50 + 29
example : shareF64 10499958131665514997 = 209999162633310304 := by decide
example : shareF64 14799178230035213023 = 295983564600704256 := by decide
example : shareF64 1164115433906158532 = 23282308678123172 := by decide
example : shareF64 2175216119781798972 = 43504322395635976 := by decide
example : shareF64 14037279428536751483 = 280745588570735040 := by decide
example : shareF64 8711387064946514083 = 174227741298930272 := by decide
example : shareF64 437666554764512283 = 8753331095290245 := by decide
example : shareF64 242061413842535959 = 4841228276850719 := by decide
example : shareF64 562460430631906957 = 11249208612638140 := by decide
-- the budget with the float expression (same numbers as the `(· / 50)` examples of Budget.lean)
example : budget (some 60000) (some 60000) (some 1000) (some 1000) none false .white shareF64
    = some 2045 := by decide
example : budget (some 60000) (some 30000) (some 1000) (some 0) none false .black shareF64
    = some 445 := by decide
example : budget (some 1000) (some 60000) (some 0) (some 0) none false .white shareF64
    = some 0 := by decide
/-- with the largest clock: the `min` with the clock is what bounds the allotment -/
example : budget (some u64Max) (some 0) (some u64Max) (some 0) none false .white shareF64
    = some (u64Max - 155) := by decide
end Tests

end Chess.Share

#print axioms Chess.Share.round53_mono
#print axioms Chess.Share.round53_rel
#print axioms Chess.Share.shareRaw_rel
#print axioms Chess.Share.shareF64_le
#print axioms Chess.Share.shareF64_mono
#print axioms Chess.Share.shareF64_eq_raw
#print axioms Chess.Share.shareF64_eq_div50
#print axioms Chess.Share.shareF64_near_u64
#print axioms Chess.Share.shareF64_le_div49
#print axioms Chess.Share.shareOK_f64
#print axioms Chess.Share.budget_monotone_f64
#print axioms Chess.Share.budget_monotone_white_f64
#print axioms Chess.Share.budget_monotone_black_f64
#print axioms Chess.Share.budget_f64_eq_div50
#print axioms Chess.Share.budget_f64_eq_div50'
#print axioms Chess.Share.budget_low_clock_shortens_f64
#print axioms Chess.Share.budget_two_percent_f64
