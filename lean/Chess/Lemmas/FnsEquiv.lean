import Chess.Lemmas.FnsEquiv.Base
import Chess.Lemmas.FnsEquiv.GameState
import Chess.Lemmas.FnsEquiv.Position
import Chess.Lemmas.FnsEquiv.PositionAdd
import Chess.Lemmas.FnsEquiv.Piece
import Chess.Lemmas.FnsEquiv.Move
import Chess.Lemmas.FnsEquiv.Search
import Chess.Lemmas.FnsEquiv.Letters
import Chess.Lemmas.FnsEquiv.Hash

/-!
# The generated definitions (`Chess/Gen/Fns.lean`) equal the hand-written model

`tools/translate.py` regenerates `Chess.Gen.Fns.*` from the Rust text on every run (a parser for the
Rust subset of the leaf functions, not patterns over the text). Each theorem `<Type>_<fn>_eq` states
that the generated definition and the model's definition agree, through the abstraction maps of
`FnsEquiv/Base.lean`: `toPos`, `toPieceType`, `toPlayer`, `toPiece`, `toMove` (machine integers to
`Int`, Rust constructor names to the model's). A rewrite of the Rust text that keeps the meaning gives
a different generated term and the proofs still check; a rewrite that changes the meaning leaves a
theorem that no longer checks (the broken obligation is named after the function).
`tools/translate_selftest.py` exercises both directions; its table is `tools/translate_selftest.md`.

The theorems live in the modules imported above (separate modules so that lake checks them in
parallel; all in namespace `Chess.FnsEquiv`, each followed by `#print axioms`):

| module | theorems | method |
|---|---|---|
| `GameState` | `GameState_default_eq`, `GameState_en_passant_eq`, `GameState_set_en_passant_eq`, `GameState_{white,black}_{king,queen}_castling_eq`, `GameState_set_…_castling_{false,true}_eq` | all 256 bytes evaluated by the kernel (`forall_u8`, `decide +kernel`); `set_en_passant`: 256 bytes × values `0..=15` |
| `Position` | `Position_new_eq` (rows, cols in `-16..=16`), `Position_as_usize_eq` (same box, index in `0..=127`), `Position_as_usize_eq_of_valid`, `Position_row_eq`, `Position_col_eq`, `Position_new_unsafe_eq`, `Position_ROOKS_eq`, `Position_new_assert_eq` (box `-16..=16`; the `assert!` is `Pos.inBoard`), `Position_add_unsafe_eq` (valid square, deltas `-2..=2`) | kernel evaluation over the stated box (`forall_i8`); `rfl` for the projections |
| `PositionAdd` (+ four slices) | `Position_add_eq` (valid square, deltas in `-8..=8`) | kernel evaluation of 8·8·17·17 cases, in four row slices |
| `Piece` | `PieceType_discr_eq`, `Player_discr_eq`, `PieceType_material_value_eq`, `Piece_material_value_eq`, `Piece_as_index_eq`, `Piece_score_eq` (on the engine's tables, both phases, 12 pieces × 64 squares) | `cases` on the constructors, then kernel evaluation |
| `Move` | `Move_is_tactical_move_eq`, `Move_index_history_eq` | `cases` on the constructor; the fields the function does not read are replaced by fixed ones by `rfl`; the remaining finite family (12×12 pieces, 12 pieces × 64 squares) by kernel evaluation |
| `Letters` | `Piece_as_char_ascii_eq`/`_table`, `Piece_as_str_pgn_eq`/`_table`, `Piece_as_char_eq`/`_table` (model text functions; data tables `Gen.asciiLetters`, `Gen.pgnLetters`, `Gen.glyphsWhite`, `Gen.glyphsBlack`), `Piece_from_char_ascii_eq`/`_table` (EVERY `Char`; `Gen.fromLetters`), `toAsciiUppercase_eq`, `isAsciiLowercase_eq` | `cases` on the constructors + kernel evaluation; `from_char_ascii`: the 128 ASCII chars by kernel evaluation, a char `≥ 128` differs from every ASCII literal the term compares it with (`ne_ascii_of_high`, side condition decided on the literal), so both sides are `none` |
| `Hash` | `GameState_hash_eq` (all 256 bytes, `STATE := Gen.stateKeys`), `Piece_hash_eq` (12 pieces × 64 valid squares, `PIECE := pieceRows`, the flat `Gen.pieceKeys` cut into 64 rows of 12; `pieceRows_shape`) | kernel evaluation (`Piece_hash_white`/`_black`: one colour per declaration, for the heartbeat budget) |
| `Search` | `move_score_eq` (with `move_score_pv`, `move_score_killer`, `move_score_rest`, `move_score_order`), `move_score_unwrap_safe`, `ENDGAME_THRESHOLD_eq` | `toMove` is injective (so `==` on Rust moves is `=` on model moves); three layers by `unfold` + `simp only` on the two `if`s; the arms by kernel evaluation over pieces, the quiet arm through `Move_index_history_eq` and `quiet_arith` |

Where the model uses unbounded `Int`/`Nat` and Rust a machine type, the theorem carries the range
hypothesis under which the machine arithmetic is exact (the shipped profile wraps on overflow; the
generated term wraps in the same way), and its doc comment says which.
-/
