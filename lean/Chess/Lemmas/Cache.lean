import Chess.Lemmas.Defs

/-!
# The incremental caches: `setPosition` keeps them consistent
-/
namespace Chess

/-! ### folds over a 64-vector after a point update -/

theorem foldr_xor_set (l : List UInt64) (i : Nat) (x : UInt64) (h : i < l.length) :
    (l.set i x).foldr (· ^^^ ·) 0 = l.foldr (· ^^^ ·) 0 ^^^ l[i] ^^^ x := by
  induction l generalizing i with
  | nil => simp at h
  | cons a l ih =>
    cases i with
    | zero =>
      simp only [List.set_cons_zero, List.foldr_cons, List.getElem_cons_zero]
      have : a ^^^ List.foldr (· ^^^ ·) 0 l ^^^ a ^^^ x = (a ^^^ a) ^^^ (x ^^^ List.foldr (· ^^^ ·) 0 l) := by ac_rfl
      rw [this]; simp
    | succ i =>
      simp only [List.set_cons_succ, List.foldr_cons, List.getElem_cons_succ]
      rw [ih i (by simpa using h)]
      ac_rfl

theorem foldr_add_set (l : List Int) (i : Nat) (x : Int) (h : i < l.length) :
    (l.set i x).foldr (· + ·) 0 = l.foldr (· + ·) 0 - l[i] + x := by
  induction l generalizing i with
  | nil => simp at h
  | cons a l ih =>
    cases i with
    | zero => simp only [List.set_cons_zero, List.foldr_cons, List.getElem_cons_zero]; omega
    | succ i =>
      simp only [List.set_cons_succ, List.foldr_cons, List.getElem_cons_succ]
      rw [ih i (by simpa using h)]; omega

theorem xorAll_set (v : Vector UInt64 64) (i : Nat) (x : UInt64) (h : i < 64) :
    xorAll (v.set i x) = xorAll v ^^^ v[i] ^^^ x := by
  unfold xorAll
  rw [Vector.toList_set]
  rw [foldr_xor_set _ _ _ (by simpa using h)]
  simp

theorem sumAll_set (v : Vector Int 64) (i : Nat) (x : Int) (h : i < 64) :
    sumAll (v.set i x) = sumAll v - v[i] + x := by
  unfold sumAll
  rw [Vector.toList_set]
  rw [foldr_add_set _ _ _ (by simpa using h)]
  simp

/-! ### squares and indices -/

theorem Pos.ofIdx_idx {p : Pos} (h : p.Valid) : Pos.ofIdx p.idx = p := by
  unfold Pos.Valid at h
  cases p with
  | mk r c =>
    simp only [Pos.ofIdx, Pos.idx, Pos.mk.injEq] at *
    constructor <;> omega

theorem Pos.idx_ne {p q : Pos} (hp : p.Valid) (hq : q.Valid) (h : p ≠ q) : p.idx ≠ q.idx :=
  fun e => h (Pos.idx_inj hp hq e)

namespace Game

/-! ### `setPosition`, field by field -/

variable (g : Game) (p : Pos) (x : Option Piece)

@[simp] theorem setPosition_player : (g.setPosition p x).player = g.player := by
  unfold setPosition; split <;> rfl
@[simp] theorem setPosition_state : (g.setPosition p x).state = g.state := by
  unfold setPosition; split <;> rfl
@[simp] theorem setPosition_moveStack : (g.setPosition p x).moveStack = g.moveStack := by
  unfold setPosition; split <;> rfl
@[simp] theorem setPosition_endgame : (g.setPosition p x).endgame = g.endgame := by
  unfold setPosition; split <;> rfl
@[simp] theorem setPosition_wking : (g.setPosition p x).wking = g.wking := by
  unfold setPosition; split <;> rfl
@[simp] theorem setPosition_bking : (g.setPosition p x).bking = g.bking := by
  unfold setPosition; split <;> rfl
@[simp] theorem setPosition_top : (g.setPosition p x).top = g.top := by
  simp [top]
@[simp] theorem setPosition_kingPos (pl : Player) : (g.setPosition p x).kingPos pl = g.kingPos pl := by
  cases pl <;> simp [kingPos]

theorem setPosition_board (h : p.Valid) : (g.setPosition p x).board = g.board.set p.idx x (Pos.idx_lt h) := by
  unfold setPosition; simp [Pos.idx_lt h]

theorem setPosition_pastHashes (h : p.Valid) :
    (g.setPosition p x).pastHashes = g.pastHashes.set p.idx (placeHash p x) (Pos.idx_lt h) := by
  unfold setPosition; simp [Pos.idx_lt h]

theorem setPosition_pastScores (h : p.Valid) :
    (g.setPosition p x).pastScores = g.pastScores.set p.idx (placeScore p g.endgame x) (Pos.idx_lt h) := by
  unfold setPosition; simp [Pos.idx_lt h]

theorem setPosition_hash (h : p.Valid) :
    (g.setPosition p x).hash = g.hash ^^^ g.pastHashes[p.idx]'(Pos.idx_lt h) ^^^ placeHash p x := by
  unfold setPosition; simp [Pos.idx_lt h]

theorem setPosition_score (h : p.Valid) :
    (g.setPosition p x).score = g.score - g.pastScores[p.idx]'(Pos.idx_lt h) + placeScore p g.endgame x := by
  unfold setPosition; simp [Pos.idx_lt h]

/-- reading a square after a write -/
theorem get_setPosition (h : p.Valid) (q : Pos) (hq : q.Valid) :
    (g.setPosition p x).get q = if q = p then x else g.get q := by
  unfold get
  simp only [Pos.idx_lt hq, dite_true, setPosition_board g p x h]
  by_cases e : q = p
  · subst e; simp
  · have := Pos.idx_ne hq h e
    simp [e, Vector.getElem_set_ne, Ne.symm this]

theorem get_setPosition_self (h : p.Valid) : (g.setPosition p x).get p = x := by
  rw [get_setPosition g p x h p h]; simp

theorem get_setPosition_ne (h : p.Valid) (q : Pos) (hq : q.Valid) (e : q ≠ p) :
    (g.setPosition p x).get q = g.get q := by
  rw [get_setPosition g p x h q hq]; simp [e]

/-- `setPosition` recomputes the cache of the square it writes and touches no other -/
theorem setPosition_cacheInv (h : p.Valid) (hc : g.CacheInv) : (g.setPosition p x).CacheInv := by
  constructor
  · intro i hi
    simp only [setPosition_pastHashes g p x h, setPosition_board g p x h]
    by_cases e : p.idx = i
    · subst e; simp [Pos.ofIdx_idx h]
    · simp [Vector.getElem_set_ne, e, hc.hashes i hi]
  · intro i hi
    simp only [setPosition_pastScores g p x h, setPosition_board g p x h, setPosition_endgame]
    by_cases e : p.idx = i
    · subst e; simp [Pos.ofIdx_idx h]
    · simp [Vector.getElem_set_ne, e, hc.scores i hi]

/-- the part of the hash that is not placement is untouched -/
theorem setPosition_resHash (h : p.Valid) : (g.setPosition p x).resHash = g.resHash := by
  unfold resHash
  rw [setPosition_hash g p x h, setPosition_pastHashes g p x h, xorAll_set _ _ _ (Pos.idx_lt h)]
  generalize g.hash = a
  generalize xorAll g.pastHashes = b
  generalize g.pastHashes[p.idx]'(Pos.idx_lt h) = c
  generalize placeHash p x = d
  have : a ^^^ c ^^^ d ^^^ (b ^^^ c ^^^ d) = (a ^^^ b) ^^^ ((c ^^^ c) ^^^ (d ^^^ d)) := by ac_rfl
  rw [this]; simp

theorem setPosition_resScore (h : p.Valid) : (g.setPosition p x).resScore = g.resScore := by
  unfold resScore
  rw [setPosition_score g p x h, setPosition_pastScores g p x h, sumAll_set _ _ _ (Pos.idx_lt h)]
  omega

/-! ### two games with consistent caches are equal as soon as the boards and the residues are -/

theorem cacheInv_pastHashes_eq {g g' : Game} (h : g.CacheInv) (h' : g'.CacheInv)
    (hb : g.board = g'.board) : g.pastHashes = g'.pastHashes := by
  apply Vector.ext
  intro i hi
  rw [h.hashes i hi, h'.hashes i hi, hb]

theorem cacheInv_pastScores_eq {g g' : Game} (h : g.CacheInv) (h' : g'.CacheInv)
    (hb : g.board = g'.board) (he : g.endgame = g'.endgame) : g.pastScores = g'.pastScores := by
  apply Vector.ext
  intro i hi
  rw [h.scores i hi, h'.scores i hi, hb, he]

theorem eq_of_cacheInv {g g' : Game} (h : g.CacheInv) (h' : g'.CacheInv)
    (hb : g.board = g'.board) (hrh : g.resHash = g'.resHash) (hrs : g.resScore = g'.resScore)
    (hp : g.player = g'.player) (hm : g.moveStack = g'.moveStack) (he : g.endgame = g'.endgame)
    (hw : g.wking = g'.wking) (hk : g.bking = g'.bking) (hs : g.state = g'.state) : g = g' := by
  have e1 := cacheInv_pastHashes_eq h h' hb
  have e2 := cacheInv_pastScores_eq h h' hb he
  have e3 : g.hash = g'.hash := by
    unfold resHash at hrh
    rw [e1] at hrh
    have : g.hash = (g.hash ^^^ xorAll g'.pastHashes) ^^^ xorAll g'.pastHashes := by
      rw [UInt64.xor_assoc]; simp
    rw [this, hrh, UInt64.xor_assoc]; simp
  have e4 : g.score = g'.score := by
    unfold resScore at hrs
    rw [e2] at hrs
    omega
  cases g; cases g'
  simp only [Game.mk.injEq] at *
  simp [*]

end Game
end Chess
