import Chess.Lemmas.Defs

/-!
# Auxiliary lemmas shared by the FEN reader / writer proofs
Characters, the two splitters, `expandRank`, `mapM` on `Option`, indexing of a flattened board.
-/
namespace Chess

/-! ### characters -/

theorem forall_ascii (P : Char → Prop) (h : ∀ n, n < 128 → P (Char.ofNat n)) :
    ∀ c : Char, c.toNat < 128 → P c := by
  intro c hc
  have := h c.toNat hc
  rwa [Char.ofNat_toNat] at this

theorem isAlpha_lt {c : Char} (h : c.isAlpha = true) : c.toNat < 128 := by
  simp only [Char.isAlpha, Char.isUpper, Char.isLower, Bool.or_eq_true, Bool.and_eq_true,
    decide_eq_true_eq] at h
  simp only [Char.toNat]
  simp only [ge_iff_le, UInt32.le_iff_toNat_le] at h
  have h1 : 'Z'.val.toNat = 90 := rfl
  have h2 : 'z'.val.toNat = 122 := rfl
  omega

theorem isDigit_lt {c : Char} (h : c.isDigit = true) : c.toNat < 128 := by
  simp only [Char.isDigit, Bool.and_eq_true, decide_eq_true_eq] at h
  simp only [Char.toNat]
  simp only [ge_iff_le, UInt32.le_iff_toNat_le] at h
  have h1 : '9'.val.toNat = 57 := rfl
  omega

/-- is one of the digits `1`–`8` (the test of `Spec.expandRank`) -/
def isD18 (c : Char) : Bool := '1'.toNat ≤ c.toNat && c.toNat ≤ '8'.toNat

theorem isD18_iff {c : Char} : isD18 c = true ↔ 49 ≤ c.toNat ∧ c.toNat ≤ 56 := by
  simp only [isD18, Bool.and_eq_true, decide_eq_true_eq]
  have h1 : '1'.toNat = 49 := rfl
  have h2 : '8'.toNat = 56 := rfl
  omega

/-- the table of facts checked on all 128 ASCII characters -/
def AsciiFacts (c : Char) : Prop :=
    (c.isAlpha = true →
        Piece.fromCharAscii c = Spec.pieceOfLetter c
        ∧ c.isDigit = false ∧ isD18 c = false ∧ c ≠ '/')
    ∧ (c.isAlpha = false → Spec.pieceOfLetter c = none)
    ∧ (c.isDigit = true → c.isAlpha = false ∧ c ≠ '/' ∧ 48 ≤ c.toNat ∧ c.toNat ≤ 57)
    ∧ (isD18 c = true → c.isDigit = true)

instance : DecidablePred AsciiFacts := by unfold AsciiFacts; infer_instance

theorem ascii_table : ∀ n, n < 128 → AsciiFacts (Char.ofNat n) := by
  decide +kernel

theorem ascii_facts {c : Char} (h : c.toNat < 128) : AsciiFacts c :=
  forall_ascii AsciiFacts ascii_table c h

theorem alpha_facts {c : Char} (h : c.isAlpha = true) :
    Piece.fromCharAscii c = Spec.pieceOfLetter c ∧ c.isDigit = false ∧ isD18 c = false ∧ c ≠ '/' :=
  (ascii_facts (isAlpha_lt h)).1 h

theorem digit_facts {c : Char} (h : c.isDigit = true) :
    c.isAlpha = false ∧ c ≠ '/' ∧ 48 ≤ c.toNat ∧ c.toNat ≤ 57 :=
  (ascii_facts (isDigit_lt h)).2.2.1 h

theorem isD18_lt {c : Char} (h : isD18 c = true) : c.toNat < 128 := by
  have := isD18_iff.1 h; omega

theorem d18_isDigit {c : Char} (h : isD18 c = true) : c.isDigit = true :=
  (ascii_facts (isD18_lt h)).2.2.2 h

theorem pieceOfLetter_some {c : Char} {pc : Piece} (h : Spec.pieceOfLetter c = some pc) :
    c.isAlpha = true := by
  cases ha : c.isAlpha with
  | true => rfl
  | false =>
    exfalso
    by_cases hc : c.toNat < 128
    · have := (ascii_facts hc).2.1 ha
      rw [this] at h; cases h
    · unfold Spec.pieceOfLetter at h
      split at h
      all_goals first | exact absurd (by decide) hc | cases h

/-! ### the piece letters -/

theorem asCharAscii_eq (pc : Piece) : pc.asCharAscii = Spec.letterOfPiece pc := by
  rcases pc with ⟨t, o⟩
  cases t <;> cases o <;> decide

theorem pieceOfLetter_letter (pc : Piece) : Spec.pieceOfLetter (Spec.letterOfPiece pc) = some pc := by
  rcases pc with ⟨t, o⟩
  cases t <;> cases o <;> decide

theorem letter_isAlpha (pc : Piece) : (Spec.letterOfPiece pc).isAlpha = true :=
  pieceOfLetter_some (pieceOfLetter_letter pc)

/-! ### `mapM` in `Option` -/

theorem mapM_opt_nil {α β : Type} (f : α → Option β) : ([] : List α).mapM f = some [] := rfl

theorem mapM_opt_cons {α β : Type} (f : α → Option β) (a : α) (l : List α) :
    (a :: l).mapM f = match f a, l.mapM f with
      | some b, some bs => some (b :: bs)
      | _, _ => none := by
  rw [List.mapM_cons]
  cases f a <;> cases l.mapM f <;> rfl

/-! ### splitting -/

/-- accumulator-free form of `Spec.splitOn` -/
def splitOn' (sep : Char → Bool) : List Char → List (List Char)
  | [] => [[]]
  | c :: cs =>
    if sep c then [] :: splitOn' sep cs
    else match splitOn' sep cs with
      | hd :: tl => (c :: hd) :: tl
      | [] => [[c]]

theorem splitOn'_ne_nil (sep : Char → Bool) (s : List Char) : splitOn' sep s ≠ [] := by
  cases s with
  | nil => simp [splitOn']
  | cons c cs =>
    unfold splitOn'
    split
    · simp
    · split <;> simp

theorem splitOn_go_eq (sep : Char → Bool) : ∀ (cs cur : List Char),
    Spec.splitOn.go sep cs cur =
      match splitOn' sep cs with
      | hd :: tl => (cur.reverse ++ hd) :: tl
      | [] => [cur.reverse] := by
  intro cs
  induction cs with
  | nil => intro cur; simp [Spec.splitOn.go, splitOn']
  | cons c cs ih =>
    intro cur
    unfold Spec.splitOn.go splitOn'
    cases hh : splitOn' sep cs with
    | nil => exact absurd hh (splitOn'_ne_nil _ _)
    | cons hd tl =>
      by_cases hs : sep c = true
      · simp only [hs, if_true]
        rw [ih [], hh]
        simp
      · simp only [hs, if_false, Bool.false_eq_true]
        rw [ih (c :: cur), hh]
        simp

theorem splitOn_eq (sep : Char → Bool) (s : List Char) : Spec.splitOn sep s = splitOn' sep s := by
  unfold Spec.splitOn
  rw [splitOn_go_eq]
  cases h : splitOn' sep s with
  | nil => exact absurd h (splitOn'_ne_nil _ _)
  | cons hd tl => simp

theorem splitOn'_cons_sep {sep : Char → Bool} {c : Char} (h : sep c = true) (cs : List Char) :
    splitOn' sep (c :: cs) = [] :: splitOn' sep cs := by
  simp [splitOn', h]

theorem splitOn'_cons_not {sep : Char → Bool} {c : Char} (h : sep c = false) (cs : List Char) :
    ∃ hd tl, splitOn' sep cs = hd :: tl ∧ splitOn' sep (c :: cs) = (c :: hd) :: tl := by
  cases hh : splitOn' sep cs with
  | nil => exact absurd hh (splitOn'_ne_nil _ _)
  | cons hd tl => exact ⟨hd, tl, rfl, by simp [splitOn', h, hh]⟩

/-- a separator-free block followed by a separator is the first piece -/
theorem splitOn'_block {sep : Char → Bool} {w : Char} (hw : sep w = true) :
    ∀ (a rest : List Char), (∀ c ∈ a, sep c = false) →
      splitOn' sep (a ++ w :: rest) = a :: splitOn' sep rest := by
  intro a
  induction a with
  | nil => intro rest _; simp [splitOn', hw]
  | cons c a ih =>
    intro rest h
    have hc : sep c = false := h c (by simp)
    have := ih rest (fun x hx => h x (by simp [hx]))
    simp [splitOn', hc, this]

theorem splitOn'_single {sep : Char → Bool} :
    ∀ (a : List Char), (∀ c ∈ a, sep c = false) → splitOn' sep a = [a] := by
  intro a
  induction a with
  | nil => intro _; rfl
  | cons c a ih =>
    intro h
    have hc : sep c = false := h c (by simp)
    have := ih (fun x hx => h x (by simp [hx]))
    simp [splitOn', hc, this]

/-! ### the two white-space splitters agree -/

theorem isAsciiWs_eq (c : Char) : isAsciiWs c = Spec.isWs c := by
  unfold isAsciiWs Spec.isWs
  cases decide (c = ' ') <;> cases decide (c = '\t') <;> cases decide (c = '\n')
    <;> cases decide (c = '\x0C') <;> cases decide (c = '\r') <;> rfl

theorem splitWsAux_eq : ∀ (s cur : List Char) (acc : List (List Char)),
    splitWsAux s cur acc
      = acc.reverse ++ (Spec.splitOn.go Spec.isWs s cur).filter (fun f => !f.isEmpty) := by
  intro s
  induction s with
  | nil =>
    intro cur acc
    unfold splitWsAux Spec.splitOn.go
    cases cur <;> simp
  | cons c cs ih =>
    intro cur acc
    unfold splitWsAux Spec.splitOn.go
    rw [isAsciiWs_eq]
    by_cases hs : Spec.isWs c = true
    · simp only [hs, if_true]
      rw [ih]
      cases cur <;> simp
    · simp only [hs, if_false, Bool.false_eq_true]
      rw [ih]

theorem splitWs_eq_fields (s : List Char) : splitWs s = Spec.fields s := by
  unfold splitWs Spec.fields Spec.splitOn
  rw [splitWsAux_eq]; simp

/-! ### `expandRank` -/

theorem expandRank_digit {c : Char} (h : isD18 c = true) (cs : List Char) :
    Spec.expandRank (c :: cs)
      = (Spec.expandRank cs).map (fun rest => List.replicate (c.toNat - 48) none ++ rest) := by
  unfold isD18 at h
  rw [Spec.expandRank]
  cases Spec.expandRank cs with
  | none => rfl
  | some rest => simp only [h, if_true, Option.map_some]; rfl

theorem expandRank_letter {c : Char} {pc : Piece} (hd : isD18 c = false)
    (h : Spec.pieceOfLetter c = some pc) (cs : List Char) :
    Spec.expandRank (c :: cs) = (Spec.expandRank cs).map (fun rest => some pc :: rest) := by
  unfold isD18 at hd
  rw [Spec.expandRank]
  cases Spec.expandRank cs with
  | none => rfl
  | some rest => simp only [hd, h, Bool.false_eq_true, if_false, Option.map_some]

theorem expandRank_cons_some {c : Char} {cs : List Char} {cur : List (Option Piece)}
    (h : Spec.expandRank (c :: cs) = some cur) :
    ∃ rest, Spec.expandRank cs = some rest ∧
      ((isD18 c = true ∧ cur = List.replicate (c.toNat - 48) none ++ rest) ∨
       (isD18 c = false ∧ ∃ pc, Spec.pieceOfLetter c = some pc ∧ cur = some pc :: rest)) := by
  cases hd : isD18 c with
  | true =>
    rw [expandRank_digit hd] at h
    cases hr : Spec.expandRank cs with
    | none => rw [hr] at h; cases h
    | some rest =>
      rw [hr] at h
      simp only [Option.map_some, Option.some.injEq] at h
      exact ⟨rest, rfl, Or.inl ⟨rfl, h.symm⟩⟩
  | false =>
    cases hp : Spec.pieceOfLetter c with
    | none =>
      exfalso
      rw [Spec.expandRank] at h
      unfold isD18 at hd
      cases hr : Spec.expandRank cs with
      | none => rw [hr] at h; cases h
      | some rest =>
        rw [hr] at h
        simp only [hd, hp, Bool.false_eq_true, if_false] at h
        cases h
    | some pc =>
      rw [expandRank_letter hd hp] at h
      cases hr : Spec.expandRank cs with
      | none => rw [hr] at h; cases h
      | some rest =>
        rw [hr] at h
        simp only [Option.map_some, Option.some.injEq] at h
        exact ⟨rest, rfl, Or.inr ⟨rfl, pc, rfl, h.symm⟩⟩

/-! ### indexing a flattened list of rows of length eight -/

theorem flatten_getElem? {α : Type} : ∀ (L : List (List α)), (∀ x ∈ L, x.length = 8) → ∀ i : Nat,
    L.flatten[i]? = (L[i / 8]?).bind (fun r => r[i % 8]?) := by
  intro L
  induction L with
  | nil => intro _ i; simp
  | cons x L ih =>
    intro h i
    have hx : x.length = 8 := h x (by simp)
    have ih' := ih (fun y hy => h y (by simp [hy]))
    rw [List.flatten_cons, List.getElem?_append]
    by_cases hi : i < 8
    · have h0 : i / 8 = 0 := by omega
      have h1 : i % 8 = i := by omega
      simp [hx, hi, h0, h1]
    · have h0 : i / 8 = (i - 8) / 8 + 1 := by omega
      have h1 : i % 8 = (i - 8) % 8 := by omega
      simp only [hx, hi, if_false]
      rw [ih' (i - 8), h0, h1]
      simp

/-- generic way to establish `parsePlacement s = some b` (used by reader and writer) -/
theorem parsePlacement_of_rows {s : List Char} {ranks : List (List Char)}
    {rows : List (List (Option Piece))} {b : Vector (Option Piece) 64}
    (h1 : Spec.splitOn (· = '/') s = ranks) (h2 : ranks.length = 8)
    (h3 : ranks.mapM Spec.expandRank = some rows) (h4 : ∀ r ∈ rows, r.length = 8)
    (h5 : rows.reverse.flatten = b.toList) : Spec.parsePlacement s = some b := by
  unfold Spec.parsePlacement
  simp only [h1, h2, ne_eq, not_true_eq_false, if_false, h3]
  have hall : (rows.all fun r => decide (r.length = 8)) = true := by
    simp only [List.all_eq_true, decide_eq_true_eq]; exact h4
  rw [if_pos hall]
  have hsz : (rows.reverse.flatten).toArray.size = 64 := by
    rw [h5]; simp
  rw [dif_pos hsz]
  congr 1
  apply Vector.toArray_inj.1
  simp only [h5]
  rcases b with ⟨⟨l⟩, hl⟩
  rfl

theorem fenLoose_of_fields {s p sd c e : List Char} {rest : List (List Char)}
    {b : Vector (Option Piece) 64} {side : Player} {wk wq bk bq : Bool} {ep : Option Nat}
    (h1 : Spec.fields s = p :: sd :: c :: e :: rest) (h2 : Spec.parsePlacement p = some b)
    (h3 : Spec.parseSide sd = some side) (h4 : Spec.parseCastlingLoose c = some (wk, wq, bk, bq))
    (h5 : Spec.parseEpLoose e = some ep) :
    Spec.fenLoose s
      = some { board := b, side := side, wk := wk, wq := wq, bk := bk, bq := bq, ep := ep } := by
  unfold Spec.fenLoose
  simp only [h1, h2, h3, h4, h5]

theorem mapM_opt_length {α β : Type} (f : α → Option β) : ∀ (l : List α) (l' : List β),
    l.mapM f = some l' → l'.length = l.length := by
  intro l
  induction l with
  | nil => intro l' h; rw [mapM_opt_nil] at h; cases h; rfl
  | cons a l ih =>
    intro l' h
    rw [mapM_opt_cons] at h
    cases hf : f a with
    | none => rw [hf] at h; cases h
    | some b =>
      cases hl : l.mapM f with
      | none => rw [hf, hl] at h; cases h
      | some bs =>
        rw [hf, hl] at h
        simp only [Option.some.injEq] at h
        subst h
        simp [ih bs hl]

end Chess
