import Chess.Lemmas.FenRead

/-! # An accepted text has its en-passant square on the rank that fits the side to move -/
namespace Chess
open Chess.Game

theorem ofFen_epRankOk {s : List Char} {g : Game} (h : Game.ofFen s = .ok g) : Spec.epRankOk s = true := by
  obtain ⟨pieces, side, cast, ep, rest, sc, player, st0, st, wk, bk, hs, _, _, _, hsd, _, hep, _⟩ := ofFen_ok_inv h
  unfold Spec.epRankOk
  rw [← splitWs_eq_fields, hs]
  simp only
  unfold sideOf at hsd
  unfold epOf at hep
  by_cases hw : side = ['w']
  · rw [if_pos hw] at hsd
    cases hsd
    subst hw
    split at hep
    · rename_i he; subst he; rfl
    · split at hep
      · rename_i f r
        split at hep
        · rename_i hc
          simp only [Bool.and_eq_true, decide_eq_true_eq] at hc
          simp [Spec.parseSide, hc.2, epRankOf]
        · cases hep
      · cases hep
  · rw [if_neg hw] at hsd
    by_cases hb : side = ['b']
    · rw [if_pos hb] at hsd
      cases hsd
      subst hb
      split at hep
      · rename_i he; subst he; rfl
      · split at hep
        · rename_i f r
          split at hep
          · rename_i hc
            simp only [Bool.and_eq_true, decide_eq_true_eq] at hc
            simp [Spec.parseSide, hc.2, epRankOf]
          · cases hep
        · cases hep
    · rw [if_neg hb] at hsd; cases hsd

end Chess

namespace Chess
open Chess.Game

/-- converse of `FenChk.pawnOnEdge_of_spec` -/
theorem noEdgePawns_of_board {a : Spec.APos} (h : pawnOnEdge a.board = false) :
    Spec.noEdgePawns a = true := by
  unfold pawnOnEdge at h
  unfold Spec.noEdgePawns
  rw [List.any_eq_false] at h
  rw [List.all_eq_true]
  intro c hc
  have hc8 : c < 8 := by simpa using hc
  have := h c hc
  have e0 : a.at (0, (c : Int)) = a.board[c] := by
    have := FenChk.at_ofIdx a c (by omega)
    have h1 : c / 8 = 0 := by omega
    have h2 : c % 8 = c := by omega
    rw [h1, h2] at this
    exact this
  have e7 : a.at (7, (c : Int)) = a.board[56 + c] := by
    have := FenChk.at_ofIdx a (56 + c) (by omega)
    have h1 : (56 + c) / 8 = 7 := by omega
    have h2 : (56 + c) % 8 = c := by omega
    rw [h1, h2] at this
    exact this
  rw [e0, e7]
  have g0 : a.board[c]? = some a.board[c] := by simp
  have g7 : a.board[56 + c]? = some a.board[56 + c] := by
    have : 56 + c < 64 := by omega
    simp [this]
  rw [g0, g7] at this
  cases h0 : a.board[c] <;> cases h7 : a.board[56 + c] <;> simp_all

/-- an accepted text has no pawn on the first or the last rank -/
theorem ofFen_noEdgePawns {s : List Char} {g : Game} (h : Game.ofFen s = .ok g) :
    Spec.noEdgePawns g.abs = true := by
  obtain ⟨pieces, side, cast, ep, rest, sc, player, st0, st, wk, bk, _, _, _, _, _, _, _, _, _, _, _,
    hpe, _, _, rfl⟩ := ofFen_ok_inv h
  rw [updatePhase_abs]
  apply noEdgePawns_of_board
  rw [mkGame_abs]
  exact hpe

end Chess
