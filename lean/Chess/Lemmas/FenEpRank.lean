import Chess.Lemmas.FenRead

/-! # An accepted text has its en-passant square on the rank that fits the side to move -/
namespace Chess
open Chess.Game

theorem ofFen_epRankOk {s : List Char} {g : Game} (h : Game.ofFen s = .ok g) : Spec.epRankOk s = true := by
  obtain ⟨pieces, side, cast, ep, rest, sc, player, st0, st, wk, bk, hs, _, _, _, hsd, _, hep, _⟩ := ofFen_ok_inv h
  unfold Spec.epRankOk
  rw [← splitWs_eq_fields, hs]
  simp only
  unfold sideOf at hsd
  unfold epOf at hep
  by_cases hw : side = ['w']
  · rw [if_pos hw] at hsd
    cases hsd
    subst hw
    split at hep
    · rename_i he; subst he; rfl
    · split at hep
      · rename_i f r
        split at hep
        · rename_i hc
          simp only [Bool.and_eq_true, decide_eq_true_eq] at hc
          simp [Spec.parseSide, hc.2, epRankOf]
        · cases hep
      · cases hep
  · rw [if_neg hw] at hsd
    by_cases hb : side = ['b']
    · rw [if_pos hb] at hsd
      cases hsd
      subst hb
      split at hep
      · rename_i he; subst he; rfl
      · split at hep
        · rename_i f r
          split at hep
          · rename_i hc
            simp only [Bool.and_eq_true, decide_eq_true_eq] at hc
            simp [Spec.parseSide, hc.2, epRankOf]
          · cases hep
        · cases hep
    · rw [if_neg hb] at hsd; cases hsd

end Chess
