import Chess.Lemmas.AlphaBeta

/-!
# C09, clamped: alpha-beta is exact up to clamping when dead quiescence nodes are hopeless

`qsearch` tests the stand-pat cut-off *before* the no-move rule, so a quiescence node without moves
returns `β` when `eval ≥ β` and its no-move value otherwise. `AlphaBeta.lean` excludes this by the
tree hypothesis `QTame` (`eval ≤ deadValue` at such nodes). For chess that hypothesis fails at the
nodes reached by capturing a king (unchecked move lists below depth 2): there the side to move has
no king, the generator returns no moves, and both the static evaluation and the no-move value are
hopeless for the side to move: `eval ≤ -K` and `deadValue ≤ -K` for a large `K`.

This file proves that under the weaker hypothesis `QTameK K` (at a dead quiescence node either the
old condition, or both `eval` and `deadValue` are `≤ -K`) the search is still exact *after clamping
into `[-K, K]`*. The relation carried through the induction is

`BtwK K α β v r := (min v β ≤ r ∨ (K ≤ v ∧ K ≤ r)) ∧ (r ≤ max v α ∨ (v ≤ -K ∧ r ≤ -K))`,

i.e. `Btw α β v r` where the lower bound may fail only if both values are `≥ K` and the upper bound
only if both are `≤ -K`. It is closed under negation and inductive for every window (also empty or
inverted ones). The running `alpha` of a move loop is related to the true running maximum `T` by
`NearK K T alpha` (the same with the degenerate window), the running best score of the root only by
`clampK K bs = clampK K T` (the re-search of `rootLoop` overwrites `bestScore` unconditionally).
-/
namespace Chess.Search

/-- clamp into `[-K, K]` -/
def clampK (K x : Int) : Int := max (-K) (min K x)

/-- `Btw α β v r`, except that `r` may be too low if both `v` and `r` are `≥ K` and too high if both
are `≤ -K` -/
def BtwK (K α β v r : Int) : Prop :=
  (min v β ≤ r ∨ (K ≤ v ∧ K ≤ r)) ∧ (r ≤ max v α ∨ (v ≤ -K ∧ r ≤ -K))

/-- the running `alpha` of a move loop against the true running maximum `T` -/
def NearK (K T a : Int) : Prop :=
  (T ≤ a ∨ (K ≤ T ∧ K ≤ a)) ∧ (a ≤ T ∨ (T ≤ -K ∧ a ≤ -K))

theorem Btw.toK {α β v r : Int} (K : Int) (h : Btw α β v r) : BtwK K α β v r := by
  unfold Btw at h; unfold BtwK; omega

theorem BtwK.neg {K α β v r : Int} (h : BtwK K α β v r) : BtwK K (-β) (-α) (-v) (-r) := by
  unfold BtwK at *; omega

theorem BtwK.self (K α β v : Int) : BtwK K α β v v := (Btw.self α β v).toK K

theorem NearK.self (K a : Int) : NearK K a a := by unfold NearK; omega

/-- `BtwK` implies the candidate relation "`Btw`, or both `≤ -K`, or both `≥ K`" -/
theorem BtwK.weak {K α β v r : Int} (h : BtwK K α β v r) :
    Btw α β v r ∨ (v ≤ -K ∧ r ≤ -K) ∨ (K ≤ v ∧ K ≤ r) := by
  unfold BtwK at h; unfold Btw; omega

/-- for a window inside `(-K, K)` … -/
theorem BtwK.clamp_eq {K α β v r : Int} (hK : 0 ≤ K) (h : BtwK K α β v r)
    (hv1 : α < v) (hv2 : v < β) : clampK K r = clampK K v := by
  unfold BtwK at h; unfold clampK; omega

theorem NearK.clamp_eq {K T a : Int} (hK : 0 ≤ K) (h : NearK K T a) : clampK K a = clampK K T := by
  unfold NearK at h; unfold clampK; omega

/-- a value strictly inside `(-K, K)` is determined by its clamp -/
theorem eq_of_clampK_eq {K sc v : Int} (h : clampK K sc = clampK K v) (h1 : -K < v) (h2 : v < K) :
    sc = v := by
  unfold clampK at h; omega

variable {G M : Type}

/-! ## tree predicates -/

/-- weaker than `QTame`: a node without moves reached inside quiescence either has a static
evaluation not above its no-move value, or both are hopeless (`≤ -K`) for the side to move -/
def QTameK (K : Int) (o : Ops G M) : Nat → G → Int → Prop
  | 0, _, _ => True
  | fuel + 1, g, rd =>
    ((o.unchecked g).isEmpty = true →
      o.eval g ≤ deadValue o Gen.mateQ g rd ∨
      (o.eval g ≤ -K ∧ deadValue o Gen.mateQ g rd ≤ -K)) ∧
    ∀ m ∈ o.unchecked g, o.tactical m = true → QTameK K o fuel (o.push g m) (rd + 1)

theorem QTame.tameK (K : Int) {o : Ops G M} {fuel : Nat} {g : G} {rd : Int}
    (h : QTame o fuel g rd) : QTameK K o fuel g rd := by
  induction fuel generalizing g rd with
  | zero => trivial
  | succ f ih => exact ⟨fun he => Or.inl (h.1 he), fun m hm ht => ih (h.2 m hm ht)⟩

/-- a smaller `K` is a weaker hypothesis -/
theorem QTameK.mono {K K' : Int} (hK : K' ≤ K) {o : Ops G M} {fuel : Nat} {g : G} {rd : Int}
    (h : QTameK K o fuel g rd) : QTameK K' o fuel g rd := by
  induction fuel generalizing g rd with
  | zero => trivial
  | succ f ih =>
    refine ⟨fun he => ?_, fun m hm ht => ih (h.2 m hm ht)⟩
    have := h.1 he
    omega

/-- `Tame` with `QTameK` at the quiescence leaves -/
def TameK (K : Int) (o : Ops G M) : Nat → G → Int → Prop
  | 0, g, rd => QTameK K o qFuel g rd
  | 1, g, rd => ∀ m ∈ o.unchecked g, QTameK K o qFuel (o.push g m) (rd + 1)
  | r + 2, g, rd =>
    ∀ m ∈ o.checked g,
      TameK K o (r + 1) (o.push g m) (rd + 1) ∧ refNode o (r + 1) (o.push g m) (rd + 1) ≤ -scoreMin

theorem Tame.tameK (K : Int) {o : Ops G M} {remaining : Nat} {g : G} {rd : Int}
    (h : Tame o remaining g rd) : TameK K o remaining g rd := by
  induction remaining using Nat.strongRecOn generalizing g rd with
  | _ n ih =>
    match n with
    | 0 => exact QTame.tameK K h
    | 1 => exact fun m hm => QTame.tameK K (h m hm)
    | r + 2 => exact fun m hm => ⟨ih (r + 1) (by omega) (h m hm).1, (h m hm).2⟩

/-! ## quiescence -/

theorem eval_le_refQK (K : Int) (o : Ops G M) {fuel : Nat} {g : G} {rd : Int}
    (h : QTameK K o fuel g rd) :
    o.eval g ≤ refQ o fuel g rd ∨ (o.eval g ≤ -K ∧ refQ o fuel g rd ≤ -K) := by
  cases fuel with
  | zero => exact Or.inl (Int.le_refl _)
  | succ f =>
    simp only [refQ]
    split
    · next he => exact h.1 he
    · exact Or.inl (le_foldl_max _ _)

/-- one iteration of a fail-hard/fail-soft capture loop that does not cut: the new `alpha` is near
the new true maximum -/
theorem loop_step_near {K alpha β T sv s : Int} (hJ : NearK K T alpha) (hb : BtwK K alpha β sv s)
    (hcut : ¬ (if s > alpha then s else alpha) ≥ β) :
    NearK K (max T sv) (if s > alpha then s else alpha) := by
  unfold NearK BtwK at *
  split at hcut <;> split <;> omega

theorem qLoop_specK (K : Int) (o : Ops G M) (child : G → Int → Int → Int → Int) (cv : M → Int)
    (g : G) (β rd : Int) (ms : List M)
    (hc : ∀ m ∈ ms, o.tactical m = true →
      ∀ a b, BtwK K a b (cv m) (child (o.push g m) a b (rd + 1)))
    (alpha T : Int) (h : alpha < β) (hJ : NearK K T alpha) :
    BtwK K (((ms.filter o.tactical).map fun m => -(cv m)).foldl max T) β
      (((ms.filter o.tactical).map fun m => -(cv m)).foldl max T)
      (qLoop o child g β rd ms alpha) := by
  induction ms generalizing alpha T with
  | nil =>
    simp only [qLoop, List.filter_nil, List.map_nil, List.foldl_nil]
    unfold NearK at hJ; unfold BtwK; omega
  | cons m ms ih =>
    have ih' := ih (fun m' hm' => hc m' (List.mem_cons_of_mem _ hm'))
    by_cases ht : o.tactical m = true
    · have hb := (hc m List.mem_cons_self ht (-β) (-alpha)).neg
      simp only [Int.neg_neg] at hb
      simp only [qLoop, ht, Bool.not_true, Bool.false_eq_true, if_false, List.filter_cons,
        if_true, List.map_cons, List.foldl_cons]
      generalize -(child (o.push g m) (-β) (-alpha) (rd + 1)) = s at hb ⊢
      generalize -(cv m) = sv at hb ⊢
      have hle := le_foldl_max ((ms.filter o.tactical).map fun m => -(cv m)) (max T sv)
      by_cases hcut : (if s > alpha then s else alpha) ≥ β
      · rw [if_pos hcut]
        generalize ((ms.filter o.tactical).map fun m => -(cv m)).foldl max (max T sv) = V at hle ⊢
        unfold NearK at hJ; unfold BtwK at hb ⊢
        split at hcut <;> omega
      · rw [if_neg hcut]
        exact ih' _ _ (by omega) (loop_step_near hJ hb hcut)
    · have ht' : o.tactical m = false := by cases h' : o.tactical m <;> simp_all
      simp only [qLoop, ht', Bool.not_false, if_true, List.filter_cons, Bool.false_eq_true,
        if_false]
      exact ih' _ _ h hJ

/-- `qsearch` against the reference, for every window -/
theorem qsearch_btwK (K : Int) (o : Ops G M) (fuel : Nat) (g : G) (α β rd : Int)
    (h : QTameK K o fuel g rd) :
    BtwK K α β (refQ o fuel g rd) (qsearch o fuel g α β rd) := by
  induction fuel generalizing g α β rd with
  | zero => simp only [qsearch, refQ, BtwK]; omega
  | succ f ih =>
    have hev := eval_le_refQK K o h
    unfold qsearch
    simp only []
    by_cases hsp : max α (o.eval g) ≥ β
    · rw [if_pos hsp]; unfold BtwK; omega
    · rw [if_neg hsp]
      by_cases he : (o.unchecked g).isEmpty = true
      · simp only [he, if_true, refQ, deadValue]
        exact BtwK.self _ _ _ _
      · have hq := qLoop_specK K o (qsearch o f) (fun m => refQ o f (o.push g m) (rd + 1)) g β rd
          (o.unchecked g) (fun m hm ht a b => ih _ _ _ _ (h.2 m hm ht)) (max α (o.eval g))
          (max α (o.eval g)) (by omega) (NearK.self _ _)
        simp only [he, Bool.false_eq_true, if_false, refQ] at hq ⊢
        rw [foldl_max_max] at hq
        unfold BtwK at hq ⊢; omega

/-! ## depth 1 -/

theorem d1Loop_specK (K : Int) (o : Ops G M) (g : G) (β rd : Int) (ms : List M)
    (hc : ∀ m ∈ ms, QTameK K o qFuel (o.push g m) (rd + 1)) (alpha T : Int)
    (hJ : NearK K T alpha) :
    BtwK K ((ms.map (d1Score o g rd)).foldl max T) β ((ms.map (d1Score o g rd)).foldl max T)
      (d1Loop o g β rd ms alpha) := by
  induction ms generalizing alpha T with
  | nil =>
    simp only [d1Loop, List.map_nil, List.foldl_nil]
    unfold NearK at hJ; unfold BtwK; omega
  | cons m ms ih =>
    have ih' := ih (fun m' hm' => hc m' (List.mem_cons_of_mem _ hm'))
    have hb := (qsearch_btwK K o qFuel (o.push g m) (-β) (-alpha) (rd + 1)
      (hc m List.mem_cons_self)).neg
    simp only [Int.neg_neg] at hb
    simp only [d1Loop, List.map_cons, List.foldl_cons, d1Score]
    generalize -(qsearch o qFuel (o.push g m) (-β) (-alpha) (rd + 1)) = s at hb ⊢
    generalize -(refQ o qFuel (o.push g m) (rd + 1)) = sv at hb ⊢
    have hle := le_foldl_max (ms.map (d1Score o g rd)) (max T sv)
    by_cases hcut : (if s > alpha then s else alpha) ≥ β
    · rw [if_pos hcut]
      generalize (ms.map (d1Score o g rd)).foldl max (max T sv) = V at hle ⊢
      unfold NearK at hJ; unfold BtwK at hb ⊢
      split at hcut <;> omega
    · rw [if_neg hcut]
      exact ih' _ _ (loop_step_near hJ hb hcut)

/-- `depth1` against the reference, for every window -/
theorem depth1_btwK (K : Int) (o : Ops G M) (g : G) (α β rd : Int)
    (h : ∀ m ∈ o.unchecked g, QTameK K o qFuel (o.push g m) (rd + 1)) :
    BtwK K α β (refD1 o g rd) (depth1 o g α β rd) := by
  unfold depth1 refD1
  by_cases he : (o.unchecked g).isEmpty = true
  · simp only [he, if_true, deadValue]; exact BtwK.self _ _ _ _
  · simp only [he, Bool.false_eq_true, if_false]
    have hne : (o.unchecked g).map (d1Score o g rd) ≠ [] := by
      intro h0; apply he; rw [List.map_eq_nil_iff] at h0; rw [h0]; rfl
    have := d1Loop_specK K o g β rd (o.unchecked g) h α α (NearK.self _ _)
    rw [foldl_max_eq_max_maxL hne α 0] at this
    unfold BtwK at this ⊢; omega

/-! ## the interior node -/

/-- `ChildSound` with `BtwK` -/
def ChildSoundK (K : Int) (child : G → Int → Int → Int → St M → Option (Int × St M)) (g' : G)
    (rd' : Int) (cv : Int) : Prop :=
  ∀ a b st, scoreMin ≤ a → b ≤ -scoreMin → st.ttOff = true →
    ∃ r st', child g' a b rd' st = some (r, st') ∧ st'.ttOff = true ∧ BtwK K a b cv r

/-- The step: it answers, keeps the invariants, never lowers `alpha`, never raises it above the true
`max T sv` unless the result is `≤ -K`, and if it does not cut then the new `alpha` is near
`max T sv`. -/
theorem nodeStep_specK (K : Int) (hK : 0 ≤ K) (o : Ops G M)
    (child : G → Int → Int → Int → St M → Option (Int × St M))
    (g : G) (rd β : Int) (m : M) (index : Nat) (alpha bs : Int) (bm : Option M) (st : St M)
    (cv T : Int) (hc : ChildSoundK K child (o.push g m) (rd + 1) cv) (hcv : cv ≤ -scoreMin)
    (h1 : scoreMin ≤ bs) (h2 : bs ≤ alpha) (h3 : β ≤ -scoreMin)
    (h4 : index ≤ Gen.fullWindowMaxIndex ∨ alpha < β) (h5 : st.ttOff = true)
    (hJ : NearK K T alpha) :
    ∃ a' bs' bm' st', nodeStep o child g rd β m index alpha bs bm st = some (a', bs', bm', st') ∧
      st'.ttOff = true ∧ scoreMin ≤ bs' ∧ bs' ≤ a' ∧ alpha ≤ a' ∧
      (a' ≤ max T (-cv) ∨ a' ≤ -K) ∧ (a' < β → NearK K (max T (-cv)) a') := by
  unfold nodeStep
  simp only []
  have hsv : scoreMin ≤ -cv := by omega
  by_cases hidx : index ≤ Gen.fullWindowMaxIndex
  · rw [if_pos hidx]
    obtain ⟨r, st', he, ht, hb⟩ := hc (-β) (-alpha) st (by omega) (by omega) h5
    simp only [he]
    have hb := hb.neg
    simp only [Int.neg_neg] at hb
    generalize -r = s at hb ⊢
    generalize -cv = sv at hb hsv ⊢
    unfold BtwK at hb
    unfold NearK at hJ ⊢
    by_cases hs : s > bs
    · simp only [hs, if_true]
      exact ⟨_, _, _, _, rfl, ht, by omega, by omega, by omega, by omega, by omega⟩
    · simp only [hs, if_false]
      exact ⟨_, _, _, _, rfl, ht, by omega, by omega, by omega, by omega, by omega⟩
  · rw [if_neg hidx]
    have hab : alpha < β := by cases h4 with
      | inl h => exact absurd h hidx
      | inr h => exact h
    obtain ⟨r, st', he, ht, hb⟩ := hc (-alpha - 1) (-alpha) st (by omega) (by omega) h5
    simp only [he]
    have hb := hb.neg
    simp only [Int.neg_neg, Int.neg_sub] at hb
    generalize -r = test at hb ⊢
    unfold BtwK at hb
    by_cases hs : test > bs
    · simp only [hs, if_true]
      obtain ⟨r2, st2, he2, ht2, hb2⟩ := hc (-β) (-test) st' (by omega) (by omega) ht
      simp only [he2]
      have hb2 := hb2.neg
      simp only [Int.neg_neg] at hb2
      generalize -r2 = s at hb2 ⊢
      generalize -cv = sv at hb hb2 hsv ⊢
      unfold BtwK at hb2
      unfold NearK at hJ ⊢
      exact ⟨_, _, _, _, rfl, ht2, by omega, by omega, by omega, by omega, by omega⟩
    · simp only [hs, if_false]
      generalize -cv = sv at hb hsv ⊢
      unfold NearK at hJ ⊢
      exact ⟨_, _, _, _, rfl, ht, by omega, by omega, by omega, by omega, by omega⟩

/-- the move loop of an interior node -/
theorem nodeLoop_specK (K : Int) (hK : 0 ≤ K) (o : Ops G M)
    (child : G → Int → Int → Int → St M → Option (Int × St M))
    (cv : M → Int) (g : G) (remaining : Nat) (rd β : Int) (ms : List M)
    (hc : ∀ m ∈ ms, ChildSoundK K child (o.push g m) (rd + 1) (cv m) ∧ cv m ≤ -scoreMin)
    (h3 : β ≤ -scoreMin)
    (index : Nat) (alpha bs : Int) (bm : Option M) (st : St M) (T : Int)
    (h1 : scoreMin ≤ bs) (h2 : bs ≤ alpha)
    (h4 : index ≤ Gen.fullWindowMaxIndex ∨ alpha < β) (h5 : st.ttOff = true)
    (hJ : NearK K T alpha) :
    ∃ out, nodeLoop o child g remaining rd β ms index alpha bs bm st = some out ∧
      out.st.ttOff = true ∧
      BtwK K ((ms.map fun m => -(cv m)).foldl max T) β ((ms.map fun m => -(cv m)).foldl max T)
        out.alpha := by
  induction ms generalizing index alpha bs bm st T with
  | nil =>
    refine ⟨⟨alpha, bs, bm, st⟩, rfl, h5, ?_⟩
    simp only [List.map_nil, List.foldl_nil]
    unfold NearK at hJ; unfold BtwK; omega
  | cons m ms ih =>
    have ih' := ih (fun m' hm' => hc m' (List.mem_cons_of_mem _ hm'))
    obtain ⟨a', bs', bm', st', he, ht, k1, k2, k3, k4, k5⟩ :=
      nodeStep_specK K hK o child g rd β m index alpha bs bm st (cv m) T (hc m List.mem_cons_self).1
        (hc m List.mem_cons_self).2 h1 h2 h3 h4 h5 hJ
    rw [nodeLoop_cons, he]
    simp only [List.map_cons, List.foldl_cons]
    have hle := le_foldl_max (ms.map fun m => -(cv m)) (max T (-(cv m)))
    by_cases hcut : a' ≥ β
    · simp only [hcut, if_true]
      refine ⟨_, rfl, ?_, ?_⟩
      · cases o.histIdx m <;> exact ht
      · simp only []
        generalize (ms.map fun m => -(cv m)).foldl max (max T (-(cv m))) = V at hle ⊢
        unfold BtwK; omega
    · simp only [hcut, if_false]
      exact ih' (index + 1) a' bs' bm' st' _ k1 k2 (Or.inr (by omega)) ht (k5 (by omega))

variable [DecidableEq M]

/-- `node` with the table switched off and a flag that stays up: it answers, the table stays off,
and the answer is `BtwK`-sound for `refNode`, for every window in the engine's range -/
theorem node_btwK (K : Int) (hK : 0 ≤ K) (o : Ops G M) (remaining : Nat) (g : G) (α β rd : Int) (st : St M)
    (hα : scoreMin ≤ α) (hβ : β ≤ -scoreMin) (ht : st.ttOff = true)
    (hT : TameK K o remaining g rd) :
    ∃ r st', node o (fun _ => true) remaining g α β rd st = some (r, st') ∧ st'.ttOff = true ∧
      BtwK K α β (refNode o remaining g rd) r := by
  induction remaining using Nat.strongRecOn generalizing g α β rd st with
  | _ n ih =>
    match n with
    | 0 =>
      refine ⟨qsearch o qFuel g α β rd, { st with polls := st.polls + 1, tt := {} }, ?_, ht,
        qsearch_btwK K o qFuel g α β rd hT⟩
      unfold node
      simp [ht, ttGet]
    | 1 =>
      refine ⟨depth1 o g α β rd, { st with polls := st.polls + 1, tt := {} }, ?_, ht,
        depth1_btwK K o g α β rd hT⟩
      unfold node
      simp [ht, ttGet]
    | r + 2 =>
      unfold node
      simp only [Bool.not_true, Bool.false_eq_true, if_false, ht, if_true, ttGet,
        Std.HashMap.getElem?_empty, Option.bind_none]
      by_cases he : (o.checked g).isEmpty = true
      · simp only [he, if_true, refNode, deadValue]
        exact ⟨_, _, rfl, rfl, BtwK.self _ _ _ _⟩
      · simp only [he, Bool.false_eq_true, if_false]
        generalize hst0 : St.mk (M := M) ∅ st.killers st.history (st.polls + 1) true = st0
        have ht0 : st0.ttOff = true := by rw [← hst0]
        generalize hsm : sortMoves (moveKey o none (st.killers.getD rd.toNat none) st.history)
          (o.checked g) = sm
        have hp : sm.Perm (o.checked g) := by rw [← hsm]; exact sortMoves_perm _ _
        have hchild : ∀ m ∈ sm,
            ChildSoundK K (node o (fun _ => true) (r + 1)) (o.push g m) (rd + 1)
              (refNode o (r + 1) (o.push g m) (rd + 1)) ∧
            refNode o (r + 1) (o.push g m) (rd + 1) ≤ -scoreMin := by
          intro m hm
          have hm' := hp.mem_iff.1 hm
          have hTm := hT m hm'
          exact ⟨fun a b s ha hb hs => ih (r + 1) (by omega) _ a b _ s ha hb hs hTm.1, hTm.2⟩
        obtain ⟨out, hout, hto, hb⟩ :=
          nodeLoop_specK K hK o (node o (fun _ => true) (r + 1))
            (fun m => refNode o (r + 1) (o.push g m) (rd + 1)) g (r + 2) rd β sm hchild hβ
            0 α scoreMin none st0 α (Int.le_refl _) hα (Or.inl (Nat.zero_le _)) ht0
            (NearK.self _ _)
        rw [hout]
        simp only []
        refine ⟨_, _, rfl, ?_, ?_⟩
        · generalize (if out.bestScore ≤ α then Flag.upper
            else if out.bestScore ≥ β then Flag.lower else Flag.exact) = fl
          split
          · split
            · exact hto
            · exact hto
          · exact hto
        · rw [refNode_perm o r g rd hp.symm]
          have hne : sm.map (fun m => -(refNode o (r + 1) (o.push g m) (rd + 1))) ≠ [] := by
            intro h0
            rw [List.map_eq_nil_iff] at h0
            rw [h0] at hp
            rw [List.nil_perm.1 hp] at he
            exact he rfl
          have hse : sm.isEmpty = false := by
            cases sm with
            | nil => exact absurd rfl hne
            | cons _ _ => rfl
          rw [foldl_max_eq_max_maxL hne α 0] at hb
          simp only [nodeValue, hse, Bool.false_eq_true, if_false]
          unfold BtwK at hb ⊢; omega

/-! ## the root -/

omit [DecidableEq M] in
/-- The move loop of the root. The running best score equals the true running maximum `T` after
clamping; it stays in the engine's range because every root move scores in that range. -/
theorem rootLoop_specK (K : Int) (hK : 0 ≤ K) (o : Ops G M)
    (child : G → Int → Int → Int → St M → Option (Int × St M))
    (cv : M → Int) (g : G) (ms : List M)
    (hc : ∀ m ∈ ms, ChildSoundK K child (o.push g m) 1 (cv m) ∧
      scoreMin ≤ -(cv m) ∧ -(cv m) ≤ -scoreMin - 1)
    (index : Nat) (bs : Int) (bm : Option M) (st : St M) (T : Int)
    (h1 : scoreMin ≤ bs) (h2 : bs ≤ -scoreMin - 1) (ht : st.ttOff = true)
    (hJ : clampK K bs = clampK K T) :
    ∃ sc bm' st', rootLoop o child g ms index bs bm st = some (sc, bm', st') ∧ st'.ttOff = true ∧
      clampK K sc = clampK K ((ms.map fun m => -(cv m)).foldl max T) := by
  induction ms generalizing index bs bm st T with
  | nil => exact ⟨bs, bm, st, rfl, ht, hJ⟩
  | cons m ms ih =>
    have ih' := ih (fun m' hm' => hc m' (List.mem_cons_of_mem _ hm'))
    obtain ⟨hcs, hsv1, hsv2⟩ := hc m List.mem_cons_self
    simp only [List.map_cons, List.foldl_cons]
    unfold rootLoop
    simp only []
    by_cases hidx : index ≤ Gen.fullWindowMaxIndex
    · rw [if_pos hidx]
      obtain ⟨r, st1, he, ht1, hb⟩ := hcs (scoreMin + 1) (-bs) st (by omega) (by omega) ht
      simp only [he]
      have hb := hb.neg
      simp only [Int.neg_neg] at hb
      generalize -r = s at hb ⊢
      generalize -(cv m) = sv at hb hsv1 hsv2 ⊢
      unfold BtwK at hb
      by_cases hs : s > bs
      · rw [if_pos hs]
        exact ih' _ _ _ _ _ (by omega) (by omega) ht1 (by unfold clampK at hJ ⊢; omega)
      · rw [if_neg hs]
        exact ih' _ _ _ _ _ h1 h2 ht1 (by unfold clampK at hJ ⊢; omega)
    · rw [if_neg hidx]
      obtain ⟨r, st1, he, ht1, hb⟩ := hcs (-bs - 1) (-bs) st (by omega) (by omega) ht
      simp only [he]
      have hb := hb.neg
      simp only [Int.neg_neg, Int.neg_sub] at hb
      generalize -r = test at hb ⊢
      unfold BtwK at hb
      by_cases hs : test > bs
      · rw [if_pos hs]
        obtain ⟨r2, st2, he2, ht2, hb2⟩ :=
          hcs (scoreMin + 1) (-test) st1 (by omega) (by omega) ht1
        simp only [he2]
        have hb2 := hb2.neg
        simp only [Int.neg_neg] at hb2
        generalize -r2 = s at hb2 ⊢
        generalize -(cv m) = sv at hb hb2 hsv1 hsv2 ⊢
        unfold BtwK at hb2
        exact ih' _ _ _ _ _ (by omega) (by omega) ht2 (by unfold clampK at hJ ⊢; omega)
      · rw [if_neg hs]
        generalize -(cv m) = sv at hb hsv1 hsv2 ⊢
        exact ih' _ _ _ _ _ h1 h2 ht1 (by unfold clampK at hJ ⊢; omega)

/-- What `root_exact_clamped` needs of the tree: below every root move the tree is `TameK K`, and
every root move scores in `[scoreMin, scoreMax]`. (The lower bound is new with respect to
`RootInRange`: the re-search of `rootLoop` overwrites `best_score`, and a deviating result must not
leave the range in which `node` is sound; it is the condition `Tame` puts on the children of an
interior node.) -/
def RootInRangeK (K : Int) (o : Ops G M) (depth : Nat) (g : G) : Prop :=
  ∀ m ∈ rootMoves o g, TameK K o (depth - 1) (o.push g m) 1 ∧
    scoreMin ≤ rootScore o depth g m ∧ rootScore o depth g m ≤ scoreMax

theorem RootInRange.toK (K : Int) {o : Ops G M} {depth : Nat} {g : G} (h : RootInRange o depth g)
    (hlo : ∀ m ∈ rootMoves o g, scoreMin ≤ rootScore o depth g m) : RootInRangeK K o depth g :=
  fun m hm => ⟨(h m hm).1.tameK K, hlo m hm, (h m hm).2⟩

/-- **The root is exact up to clamping.** With table look-ups disabled, a flag that stays up, no
usable root entry and not exactly one legal move, `rootSearch` answers, and the score it returns
agrees with the plain negamax value `refRoot` after clamping both into `[-K, K]`, whatever the move
ordering (history, killers, `orderKey`, table move). -/
theorem root_exact_clamped (K : Int) (hK : 0 ≤ K) (o : Ops G M) (g : G) (depth : Nat) (st : St M)
    (hlen : (o.checked g).length ≠ 1) (ht : st.ttOff = true)
    (hmiss : ∀ e, st.tt[o.hash g]? = some e → ¬(e.depth ≥ depth ∧ e.flag = Flag.exact))
    (hT : RootInRangeK K o depth g) :
    ∃ bm sc st', rootSearch o (fun _ => true) g depth st = some ((bm, sc, false), st') ∧
      st'.ttOff = true ∧ clampK K sc = clampK K (refRoot o depth g) := by
  unfold rootSearch
  simp only [hlen, if_false, ttGet]
  generalize hpv : (st.tt[o.hash g]?.bind fun x => x.pv) = pv
  have hm : ∀ (x : Option (Entry M)), st.tt[o.hash g]? = x →
      ∀ e, x = some e → ¬((decide (e.depth ≥ depth) && decide (e.flag = Flag.exact)) = true) := by
    intro x hx e he
    have := hmiss e (hx.trans he)
    simpa using this
  generalize st.tt[o.hash g]? = x at hm
  have hm := hm x rfl
  generalize hsm : sortMoves (moveKey o pv none st.history) _ = sm
  have hp : sm.Perm (rootMoves o g) := by rw [← hsm]; exact sortMoves_perm _ _
  generalize hst0 : St.mk (M := M) st.tt (Array.replicate Gen.killerLen none) st.history st.polls
    st.ttOff = st0
  have ht0 : st0.ttOff = true := by rw [← hst0]; exact ht
  have hchild : ∀ m ∈ sm,
      ChildSoundK K (node o (fun _ => true) (depth - 1)) (o.push g m) 1
        (refNode o (depth - 1) (o.push g m) 1) ∧
      scoreMin ≤ -(refNode o (depth - 1) (o.push g m) 1) ∧
      -(refNode o (depth - 1) (o.push g m) 1) ≤ -scoreMin - 1 := by
    intro m hm'
    have hTm := hT m (hp.mem_iff.1 hm')
    refine ⟨fun a b s ha hb hs => node_btwK K hK o _ _ a b _ s ha hb hs hTm.1, hTm.2.1, ?_⟩
    have := hTm.2.2
    simp only [rootScore, scoreMax] at this
    simp only [scoreMin]
    omega
  obtain ⟨sc, bm', st', hrl, ht', hcl⟩ :=
    rootLoop_specK K hK o (node o (fun _ => true) (depth - 1))
      (fun m => refNode o (depth - 1) (o.push g m) 1) g sm hchild 0 (scoreMin + 1) none st0
      (scoreMin + 1) (by omega) (by simp only [scoreMin]; omega) ht0 rfl
  have hval : (sm.map fun m => -(refNode o (depth - 1) (o.push g m) 1)).foldl max (scoreMin + 1)
      = refRoot o depth g := (refRoot_perm o depth g hp.symm).symm
  rw [hval] at hcl
  split
  · next e heq =>
    exfalso
    cases x with
    | none => cases heq
    | some e' => simp only [hm e' rfl] at heq; cases heq
  · rw [hrl]
    simp only []
    refine ⟨_, _, _, rfl, ?_, hcl⟩
    split
    · split
      · exact ht'
      · exact ht'
    · exact ht'

/-- If the negamax value lies strictly inside `(-K, K)`, the engine returns it exactly. -/
theorem root_exact_of_inside (K : Int) (hK : 0 ≤ K) (o : Ops G M) (g : G) (depth : Nat) (st : St M)
    (hlen : (o.checked g).length ≠ 1) (ht : st.ttOff = true)
    (hmiss : ∀ e, st.tt[o.hash g]? = some e → ¬(e.depth ≥ depth ∧ e.flag = Flag.exact))
    (hT : RootInRangeK K o depth g)
    (h1 : -K < refRoot o depth g) (h2 : refRoot o depth g < K) :
    ∃ bm st', rootSearch o (fun _ => true) g depth st = some ((bm, refRoot o depth g, false), st') ∧
      st'.ttOff = true := by
  obtain ⟨bm, sc, st', h, ht', hc⟩ := root_exact_clamped K hK o g depth st hlen ht hmiss hT
  have : sc = refRoot o depth g := eq_of_clampK_eq hc h1 h2
  subst this
  exact ⟨bm, st', h, ht'⟩

/-- the converse reading: a returned score strictly inside `(-K, K)` is the negamax value -/
theorem root_exact_of_score_inside (K : Int) (hK : 0 ≤ K) (o : Ops G M) (g : G) (depth : Nat)
    (st st' : St M) (bm : Option M) (sc : Int) (flag : Bool)
    (hlen : (o.checked g).length ≠ 1) (ht : st.ttOff = true)
    (hmiss : ∀ e, st.tt[o.hash g]? = some e → ¬(e.depth ≥ depth ∧ e.flag = Flag.exact))
    (hT : RootInRangeK K o depth g)
    (hr : rootSearch o (fun _ => true) g depth st = some ((bm, sc, flag), st'))
    (h1 : -K < sc) (h2 : sc < K) : sc = refRoot o depth g := by
  obtain ⟨bm1, sc1, st1, h, _, hc⟩ := root_exact_clamped K hK o g depth st hlen ht hmiss hT
  rw [hr] at h
  cases h
  exact (eq_of_clampK_eq hc.symm h1 h2).symm

/-- **Ordering never changes the clamped result**: two searches of the same position that differ in
everything that only orders moves (history, killers, table contents, poll count) return scores that
agree after clamping. -/
theorem root_order_independent_clamped (K : Int) (hK : 0 ≤ K) (o : Ops G M) (g : G) (depth : Nat)
    (st₁ st₂ : St M)
    (hlen : (o.checked g).length ≠ 1) (ht₁ : st₁.ttOff = true) (ht₂ : st₂.ttOff = true)
    (hmiss₁ : ∀ e, st₁.tt[o.hash g]? = some e → ¬(e.depth ≥ depth ∧ e.flag = Flag.exact))
    (hmiss₂ : ∀ e, st₂.tt[o.hash g]? = some e → ¬(e.depth ≥ depth ∧ e.flag = Flag.exact))
    (hT : RootInRangeK K o depth g) :
    ∃ bm₁ bm₂ s₁ s₂ st₁' st₂',
      rootSearch o (fun _ => true) g depth st₁ = some ((bm₁, s₁, false), st₁') ∧
      rootSearch o (fun _ => true) g depth st₂ = some ((bm₂, s₂, false), st₂') ∧
      clampK K s₁ = clampK K s₂ := by
  obtain ⟨bm₁, s₁, st₁', h₁, _, c₁⟩ := root_exact_clamped K hK o g depth st₁ hlen ht₁ hmiss₁ hT
  obtain ⟨bm₂, s₂, st₂', h₂, _, c₂⟩ := root_exact_clamped K hK o g depth st₂ hlen ht₂ hmiss₂ hT
  exact ⟨bm₁, bm₂, s₁, s₂, st₁', st₂', h₁, h₂, c₁.trans c₂.symm⟩

/-! ## Reordering the move generators -/

omit [DecidableEq M] in
theorem QTameK.reordered {K : Int} {o o' : Ops G M} (h : Reordered o o') {fuel : Nat} {g : G}
    {rd : Int} (hq : QTameK K o fuel g rd) : QTameK K o' fuel g rd := by
  induction fuel generalizing g rd with
  | zero => trivial
  | succ f ih =>
    refine ⟨fun he => ?_, fun m hm ht => ?_⟩
    · rw [h.eval, deadValue_reordered h]
      exact hq.1 (by rw [isEmpty_eq_of_perm (h.unchecked g)]; exact he)
    · rw [h.push]
      exact ih (hq.2 m ((h.unchecked g).mem_iff.2 hm) (by rw [← h.tactical]; exact ht))

omit [DecidableEq M] in
theorem TameK.reordered {K : Int} {o o' : Ops G M} (h : Reordered o o') {remaining : Nat} {g : G}
    {rd : Int} (hT : TameK K o remaining g rd) : TameK K o' remaining g rd := by
  induction remaining using Nat.strongRecOn generalizing g rd with
  | _ n ih =>
    match n with
    | 0 => exact QTameK.reordered h hT
    | 1 =>
      intro m hm
      rw [h.push]
      exact QTameK.reordered h (hT m ((h.unchecked g).mem_iff.2 hm))
    | r + 2 =>
      intro m hm
      rw [h.push, refNode_reordered h]
      have := hT m ((h.checked g).mem_iff.2 hm)
      exact ⟨ih (r + 1) (by omega) this.1, this.2⟩

theorem RootInRangeK.reordered {K : Int} {o o' : Ops G M} (h : Reordered o o')
    (hrep : o'.repetition = o.repetition) {depth : Nat} {g : G} (hT : RootInRangeK K o depth g) :
    RootInRangeK K o' depth g := by
  intro m hm
  have := hT m ((rootMoves_reordered h hrep g).mem_iff.2 hm)
  refine ⟨?_, ?_⟩
  · rw [h.push]; exact TameK.reordered h this.1
  · simp only [rootScore, refNode_reordered h, h.push]; exact this.2

/-- **Neither pruning nor any ordering changes the clamped result.** Let `o'` be the game `o` with
the move lists of every position generated in another order, and with *any* other hash, history
index and ordering key; let the two searches start from arbitrary (table-off) states. Then both
answer, and both scores agree with the plain negamax value of `o` after clamping. -/
theorem root_reordered_clamped (K : Int) (hK : 0 ≤ K) {o o' : Ops G M} (h : Reordered o o')
    (hrep : o'.repetition = o.repetition)
    (g : G) (depth : Nat) (st st' : St M)
    (hlen : (o.checked g).length ≠ 1) (ht : st.ttOff = true) (ht' : st'.ttOff = true)
    (hmiss : ∀ e, st.tt[o.hash g]? = some e → ¬(e.depth ≥ depth ∧ e.flag = Flag.exact))
    (hmiss' : ∀ e, st'.tt[o'.hash g]? = some e → ¬(e.depth ≥ depth ∧ e.flag = Flag.exact))
    (hT : RootInRangeK K o depth g) :
    ∃ bm bm' sc sc' s s',
      rootSearch o (fun _ => true) g depth st = some ((bm, sc, false), s) ∧
      rootSearch o' (fun _ => true) g depth st' = some ((bm', sc', false), s') ∧
      clampK K sc = clampK K (refRoot o depth g) ∧ clampK K sc' = clampK K (refRoot o depth g) := by
  obtain ⟨bm, sc, s, h₁, _, c₁⟩ := root_exact_clamped K hK o g depth st hlen ht hmiss hT
  obtain ⟨bm', sc', s', h₂, _, c₂⟩ := root_exact_clamped K hK o' g depth st'
    (by rw [← (h.checked g).length_eq]; exact hlen) ht' hmiss' (hT.reordered h hrep)
  rw [refRoot_reordered h hrep] at c₂
  exact ⟨bm, bm', sc, sc', s, s', h₁, h₂, c₁, c₂⟩

/-! ## Boolean checkers for the tree predicates (run on concrete trees) -/

omit [DecidableEq M] in
def qtameKB (K : Int) (o : Ops G M) : Nat → G → Int → Bool
  | 0, _, _ => true
  | fuel + 1, g, rd =>
    (!(o.unchecked g).isEmpty ||
      decide (o.eval g ≤ deadValue o Gen.mateQ g rd) ||
      (decide (o.eval g ≤ -K) && decide (deadValue o Gen.mateQ g rd ≤ -K))) &&
    (o.unchecked g).all fun m => !o.tactical m || qtameKB K o fuel (o.push g m) (rd + 1)

omit [DecidableEq M] in
theorem qtameKB_sound (K : Int) (o : Ops G M) (fuel : Nat) (g : G) (rd : Int)
    (h : qtameKB K o fuel g rd = true) : QTameK K o fuel g rd := by
  induction fuel generalizing g rd with
  | zero => trivial
  | succ f ih =>
    simp only [qtameKB, Bool.and_eq_true, Bool.or_eq_true, Bool.not_eq_true', List.all_eq_true,
      decide_eq_true_eq] at h
    refine ⟨fun he => ?_, fun m hm ht => ih _ _ ?_⟩
    · rcases h.1 with (h' | h') | h'
      · rw [he] at h'; cases h'
      · exact Or.inl h'
      · exact Or.inr h'
    · cases h.2 m hm with
      | inl h' => rw [ht] at h'; cases h'
      | inr h' => exact h'

omit [DecidableEq M] in
def tameKB (K : Int) (o : Ops G M) : Nat → G → Int → Bool
  | 0, g, rd => qtameKB K o qFuel g rd
  | 1, g, rd => (o.unchecked g).all fun m => qtameKB K o qFuel (o.push g m) (rd + 1)
  | r + 2, g, rd =>
    (o.checked g).all fun m =>
      tameKB K o (r + 1) (o.push g m) (rd + 1) &&
      decide (refNode o (r + 1) (o.push g m) (rd + 1) ≤ -scoreMin)

omit [DecidableEq M] in
theorem tameKB_sound (K : Int) (o : Ops G M) (remaining : Nat) (g : G) (rd : Int)
    (h : tameKB K o remaining g rd = true) : TameK K o remaining g rd := by
  induction remaining using Nat.strongRecOn generalizing g rd with
  | _ n ih =>
    match n with
    | 0 => exact qtameKB_sound K o _ _ _ h
    | 1 =>
      simp only [tameKB, List.all_eq_true] at h
      exact fun m hm => qtameKB_sound K o _ _ _ (h m hm)
    | r + 2 =>
      simp only [tameKB, List.all_eq_true, Bool.and_eq_true, decide_eq_true_eq] at h
      exact fun m hm => ⟨ih (r + 1) (by omega) _ _ (h m hm).1, (h m hm).2⟩

/-- the executable form of `RootInRangeK` -/
def rootInRangeKB (K : Int) (o : Ops G M) (depth : Nat) (g : G) : Bool :=
  (rootMoves o g).all fun m =>
    tameKB K o (depth - 1) (o.push g m) 1 &&
    decide (scoreMin ≤ rootScore o depth g m) && decide (rootScore o depth g m ≤ scoreMax)

theorem rootInRangeKB_sound (K : Int) (o : Ops G M) (depth : Nat) (g : G)
    (h : rootInRangeKB K o depth g = true) : RootInRangeK K o depth g := by
  simp only [rootInRangeKB, List.all_eq_true, Bool.and_eq_true, decide_eq_true_eq] at h
  exact fun m hm => ⟨tameKB_sound K o _ _ _ (h m hm).1.1, (h m hm).1.2, (h m hm).2⟩

/-! ## Non-vacuity: the example tree of `AlphaBeta.lean` with king-capture-style dead nodes

`exK` is `Example.ex` except that a position reached by the moves `…, 1, 2` at plies 4 and 5 (inside
quiescence: "move 1 leaves the king en prise, move 2 captures it") has no moves, is not `safe`, and
evaluates to `-20000` for the side to move. Its no-move value is `scoreMin + mateQ + rd = -29763`,
so `eval > deadValue`: `QTame` fails there, `RootInRange` fails for the tree, but with `K = 1000`
both numbers are `≤ -K` and `RootInRangeK 1000` holds. -/
namespace ExampleK

open Example

def kDead (g : List Nat) : Bool := g.length == 5 && g.drop 3 == [1, 2]

def exK : Ops (List Nat) Nat :=
  { ex with
    unchecked := fun g => if kDead g then [] else ex.unchecked g
    eval := fun g => if kDead g then -20000 else exEval g
    safe := fun g => !kDead g }

/-- the dead node: stand pat `-20000` is above the no-move value `-29763` -/
theorem exK_dead : exK.unchecked [0, 0, 0, 1, 2] = [] ∧ exK.eval [0, 0, 0, 1, 2] = -20000 ∧
    deadValue exK Gen.mateQ [0, 0, 0, 1, 2] 5 = -29763 := by decide +kernel

/-- `QTame` fails at the dead node … -/
theorem exK_not_qtame : ¬ QTame exK qFuel [0, 0, 0, 1, 2] 5 := by
  intro h
  have h1 : exK.eval [0, 0, 0, 1, 2] ≤ deadValue exK Gen.mateQ [0, 0, 0, 1, 2] 5 :=
    h.1 (by decide +kernel)
  revert h1
  decide +kernel

/-- … hence the hypothesis of `root_exact` fails for the tree (and its checker says so) … -/
theorem exK_not_rootInRange : ¬ RootInRange exK 4 [] := by
  intro h
  have h3 : Tame exK 3 [0] 1 := (h 0 (by decide +kernel)).1
  have h2 : Tame exK 2 [0, 0] 2 := (h3 0 (by decide +kernel)).1
  have h1 : Tame exK 1 [0, 0, 0] 3 := (h2 0 (by decide +kernel)).1
  have h0 : QTame exK qFuel [0, 0, 0, 1] 4 := h1 1 (by decide +kernel)
  have hd : QTame exK 99 [0, 0, 0, 1, 2] 5 := h0.2 2 (by decide +kernel) (by decide +kernel)
  have h1 : exK.eval [0, 0, 0, 1, 2] ≤ deadValue exK Gen.mateQ [0, 0, 0, 1, 2] 5 :=
    hd.1 (by decide +kernel)
  revert h1
  decide +kernel

theorem exK_rootInRangeB : rootInRangeB exK 4 [] = false := by decide +kernel

/-- … while the hypothesis of `root_exact_clamped` holds, by the Boolean checker -/
theorem exK_root : RootInRangeK 1000 exK 4 [] := rootInRangeKB_sound _ _ _ _ (by decide +kernel)

/-- The raw values differ. At the dead node the window `(-26000, -25000)` lies below the stand-pat
value: `qsearch` returns `β = -25000` although the value `-29763` is below `α`. One ply up, at
`[0, 0, 0, 1]` (value `29763`, the king can be taken), the window `(25000, 26000)` fails *low* with
`25000` although the value is above `β`: not `Btw`, but `BtwK 1000`, and equal after clamping. -/
theorem exK_deviation :
    refQ exK 99 [0, 0, 0, 1, 2] 5 = -29763 ∧
    qsearch exK 99 [0, 0, 0, 1, 2] (-26000) (-25000) 5 = -25000 ∧
    refQ exK qFuel [0, 0, 0, 1] 4 = 29763 ∧
    qsearch exK qFuel [0, 0, 0, 1] 25000 26000 4 = 25000 ∧
    ¬ Btw 25000 26000 29763 25000 ∧
    clampK 1000 (qsearch exK qFuel [0, 0, 0, 1] 25000 26000 4) =
      clampK 1000 (refQ exK qFuel [0, 0, 0, 1] 4) := by
  refine ⟨by decide +kernel, by decide +kernel, by decide +kernel, by decide +kernel, ?_,
    by decide +kernel⟩
  unfold Btw; omega

/-- `qsearch_btwK` observed at that node -/
example : BtwK 1000 25000 26000 29763 (qsearch exK qFuel [0, 0, 0, 1] 25000 26000 4) := by
  have h := qsearch_btwK 1000 exK qFuel [0, 0, 0, 1] 25000 26000 4
    (qtameKB_sound _ _ _ _ _ (by decide +kernel))
  rwa [exK_deviation.2.2.1] at h

theorem exK_refRoot : refRoot exK 4 [] = 10 := by decide +kernel

/-- `root_exact_clamped` / `root_exact_of_inside` observed: the value `10` lies inside `(-1000, 1000)`,
so the engine's score at depth 4 is exactly the negamax value -/
example : ∃ bm st', rootSearch exK (fun _ => true) [] 4 st0 = some ((bm, 10, false), st') := by
  obtain ⟨bm, st', h, _⟩ := root_exact_of_inside 1000 (by decide) exK [] 4 st0 (by decide) rfl
    (by intro e he; simp [st0] at he) exK_root (by rw [exK_refRoot]; decide)
    (by rw [exK_refRoot]; decide)
  rw [exK_refRoot] at h
  exact ⟨bm, st', h⟩

-- the compiled evaluator agrees (an observation, not a proof)
#guard (rootSearch exK (fun _ => true) [] 4 st0).map (·.1) == some (some 2, 10, false)
#guard rootInRangeKB 1000 exK 4 [] && !rootInRangeB exK 4 []

end ExampleK

end Chess.Search

open Chess.Search in
#print axioms root_exact_clamped
open Chess.Search in
#print axioms node_btwK
open Chess.Search in
#print axioms root_order_independent_clamped
open Chess.Search in
#print axioms rootInRangeKB_sound
open Chess.Search in
#print axioms root_reordered_clamped
open Chess.Search in
#print axioms root_exact_of_inside
open Chess.Search in
#print axioms ExampleK.exK_root
