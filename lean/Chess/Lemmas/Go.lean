import Chess.Model.Go
import Chess.Lemmas.Budget

/-!
# The argument loop of `command_go`: whatever words follow `go`, the parsed values are `u64`s
(`u8` for the depth) and the allotment obeys the bounds of `Budget.lean`.
-/
namespace Chess.Uci

theorem parseUnsigned_le {max : Nat} {s : List Char} {v : Nat} (h : parseUnsigned max s = some v) :
    v ≤ max := by
  unfold parseUnsigned at h
  simp only at h
  generalize stripPlus s = ds at h
  split at h
  · cases h
  · split at h
    · split at h
      · cases h; assumption
      · cases h
    · cases h

/-- every field holds a value of its Rust type -/
def GoArgs.Fit (a : GoArgs) : Prop :=
  (∀ w, a.wtime = some w → w ≤ u64Max) ∧ (∀ w, a.btime = some w → w ≤ u64Max) ∧
  (∀ w, a.winc = some w → w ≤ u64Max) ∧ (∀ w, a.binc = some w → w ≤ u64Max) ∧
  (∀ w, a.depth = some w → w ≤ 255) ∧ (∀ w, a.movetime = some w → w ≤ u64Max)

theorem bind_parse_le {max : Nat} {v : Option (List Char)} {w : Nat}
    (h : v.bind (parseUnsigned max) = some w) : w ≤ max := by
  cases v with
  | none => cases h
  | some s => exact parseUnsigned_le h

theorem GoArgs.set_fit {a : GoArgs} (h : a.Fit) (k : GoKey) (v : Option (List Char)) : (a.set k v).Fit := by
  obtain ⟨h1, h2, h3, h4, h5, h6⟩ := h
  cases k <;> simp only [GoArgs.set, GoArgs.Fit]
  · exact ⟨fun w hw => bind_parse_le hw, h2, h3, h4, h5, h6⟩
  · exact ⟨h1, fun w hw => bind_parse_le hw, h3, h4, h5, h6⟩
  · exact ⟨h1, h2, fun w hw => bind_parse_le hw, h4, h5, h6⟩
  · exact ⟨h1, h2, h3, fun w hw => bind_parse_le hw, h5, h6⟩
  · exact ⟨h1, h2, h3, h4, fun w hw => bind_parse_le hw, h6⟩
  · exact ⟨h1, h2, h3, h4, h5, fun w hw => bind_parse_le hw⟩

theorem goStep_fit {s : GoArgs × Option GoKey} (h : s.1.Fit) (t : List Char) : (goStep s t).1.Fit := by
  unfold goStep
  split
  · exact GoArgs.set_fit h _ _
  · split
    · exact GoArgs.set_fit h _ _
    · split
      · exact h
      · exact h

theorem foldl_goStep_fit (ts : List (List Char)) (s : GoArgs × Option GoKey) (h : s.1.Fit) :
    (ts.foldl goStep s).1.Fit := by
  induction ts generalizing s with
  | nil => exact h
  | cons t ts ih => exact ih _ (goStep_fit h t)

/-- **for every word list** the parsed arguments are values of their Rust types -/
theorem goArgs_fit (ts : List (List Char)) : (goArgs ts).Fit :=
  foldl_goStep_fit ts _ ⟨nofun, nofun, nofun, nofun, nofun, nofun⟩

/-- **C13 over the raw command**: whatever follows `go`, an armed timer is armed for at most the
fixed move time if one was understood, else for at most the mover's own clock (which then was
understood together with the other three clock parameters), and the value is a `u64`. -/
theorem goBudget_bounded (ts : List (List Char)) (side : Player) (share : Nat → Nat) {t : Nat}
    (h : goBudget ts side share = some t) :
    (∀ mt, (goArgs ts).movetime = some mt → t ≤ mt) ∧
    ((goArgs ts).movetime = none → ∃ wt bt, (goArgs ts).wtime = some wt ∧ (goArgs ts).btime = some bt ∧
        t ≤ ownClock side wt bt - Gen.latencyMs - Gen.sleepCutMs) ∧
    t ≤ u64Max ∧ (goArgs ts).infinite = false := by
  unfold goBudget at h
  simp only at h
  have hfit := goArgs_fit ts
  generalize goArgs ts = a at h hfit
  obtain ⟨f1, f2, _, _, _, f6⟩ := hfit
  refine ⟨?_, ?_, budget_result_fits_u64 f1 f2 f6 h, ?_⟩
  · intro mt hm; rw [hm] at h; exact budget_le_movetime h
  · intro hm
    rw [hm] at h
    cases hw : a.wtime <;> cases hb : a.btime <;> cases hwi : a.winc <;> cases hbi : a.binc <;>
      rw [hw, hb, hwi, hbi] at h <;> try (simp [budget] at h; done)
    exact ⟨_, _, rfl, rfl, budget_le_clock_sub h⟩
  · cases hi : a.infinite
    · rfl
    · rw [hi] at h
      have := (budget_none_iff a.wtime a.btime a.winc a.binc a.movetime true side share).2 (Or.inl rfl)
      rw [this] at h; cases h

/-- no timer is armed exactly when `infinite` was seen or neither a move time nor a complete
clock was understood -/
theorem goBudget_none_iff (ts : List (List Char)) (side : Player) (share : Nat → Nat) :
    goBudget ts side share = none ↔
      (goArgs ts).infinite = true ∨ ((goArgs ts).movetime = none ∧
        ((goArgs ts).wtime = none ∨ (goArgs ts).btime = none ∨ (goArgs ts).winc = none ∨ (goArgs ts).binc = none)) :=
  budget_none_iff _ _ _ _ _ _ _ _

/-- the depth limit handed to the search is between 1 and the engine's maximum, for every word list -/
theorem goLimit_range (ts : List (List Char)) : 1 ≤ goLimit ts ∧ goLimit ts ≤ Search.maxDepth := by
  unfold goLimit
  have : 1 ≤ Search.maxDepth := by decide
  omega

-- the loop on concrete commands (tests): last occurrence wins, a bad value resets, a trailing keyword resets
example : goArgs (splitWs "wtime 100 btime 200 winc 1 binc 2".toList)
    = { wtime := some 100, btime := some 200, winc := some 1, binc := some 2 } := by decide
example : (goArgs (splitWs "wtime 100 wtime x".toList)).wtime = none := by decide
example : (goArgs (splitWs "movetime 50 movetime".toList)).movetime = none := by decide
example : (goArgs (splitWs "depth 256".toList)).depth = none := by decide
example : (goArgs (splitWs "depth +7 infinite junk".toList)) = { depth := some 7, infinite := true } := by decide
example : (goArgs (splitWs "wtime -5".toList)).wtime = none := by decide
example : (goArgs (splitWs "wtime 18446744073709551616".toList)).wtime = none := by decide
example : (goArgs (splitWs "wtime 18446744073709551615".toList)).wtime = some 18446744073709551615 := by decide
example : (goArgs (splitWs "wtime infinite btime 5".toList)) = { btime := some 5 } := by decide

end Chess.Uci
